// progdev (development tool, never used by registered checks): prints N generated programs with the
// reference evaluator's result as JSON lines, for cross-checking the evaluator against another engine.
package main

import (
	"encoding/json"
	"fmt"
	"os"
	"strconv"

	"pgregory.net/rapid"

	"verif/lib/prog"
)

func main() {
	n, _ := strconv.Atoi(os.Args[1])
	start := 0
	if len(os.Args) > 2 {
		start, _ = strconv.Atoi(os.Args[2])
	}
	gen := rapid.Custom(func(t *rapid.T) *prog.Node { return prog.GenProgram(t) })
	enc := json.NewEncoder(os.Stdout)
	for i := start; i < start+n; i++ {
		p := gen.Example(i)
		r := prog.Run(p, 60000)
		last := ""
		if len(p.C) > 0 {
			last = p.C[len(p.C)-1].K
		}
		if err := enc.Encode(map[string]interface{}{"i": i, "src": prog.Print(p), "trace": r.Trace, "completion": r.Completion, "threw": r.Threw, "discard": r.Discard, "last": last, "flags": r.Flags}); err != nil {
			fmt.Fprintln(os.Stderr, err)
		}
	}
}
