package main
import ("encoding/json";"fmt";"os";"verif/lib/prog")
func main(){ b,_:=os.ReadFile(os.Args[1]); var n prog.Node; json.Unmarshal(b,&n); fmt.Println(prog.Print(&n)) }
