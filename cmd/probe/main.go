// probe evaluates JS snippets (args or stdin lines) on otto and prints the described result. Dev tool.
package main

import (
	"bufio"
	"fmt"
	"os"

	"verif/lib/harness"
)

func main() {
	if len(os.Args) > 1 {
		for _, a := range os.Args[1:] {
			fmt.Printf("%s\n  => %s\n", a, harness.EvalToString(a))
		}
		return
	}
	sc := bufio.NewScanner(os.Stdin)
	sc.Buffer(make([]byte, 1<<20), 1<<20)
	for sc.Scan() {
		fmt.Printf("%s\n  => %s\n", sc.Text(), harness.EvalToString(sc.Text()))
	}
}
