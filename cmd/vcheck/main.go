// vcheck is the driver behind ./check: it builds the test binary of one property from /repo's
// current working tree, runs it (one process for quick, sharded for thorough), merges the
// evidence shards into evidence/<id>.json and maps the outcome to the exit code contract:
// 0 = held on everything explored, 1 = VIOLATION line printed, 2 = inconclusive / harness error.
package main

import (
	"bufio"
	"bytes"
	"io"
	"encoding/json"
	"fmt"
	"os"
	"os/exec"
	"path/filepath"
	"sort"
	"strconv"
	"strings"
	"sync"
	"syscall"
	"time"
)

type propCfg struct {
	Race         bool `json:"race"`
	Shards       int  `json:"shards"`        // thorough-tier processes (default 16)
	QuickBudgetS int  `json:"quick_budget_s"` // wall clock budget of the quick run (default 900)
	ThorBudgetS  int  `json:"thorough_budget_s"`
	GoMaxProcs   int  `json:"gomaxprocs"`
	// ThorScale multiplies the per-process case counts of the random facets in the thorough tier
	// (default 1): cheap checks are run deeper so that every thorough run is minutes, not seconds.
	ThorScale float64 `json:"thorough_scale"`
}

var root string

func main() {
	root = os.Getenv("VERIF_ROOT")
	if root == "" {
		root = "/verif"
	}
	os.Setenv("VERIF_ROOT", root)
	os.Setenv("GOFLAGS", "-mod=mod")
	os.Setenv("GOPROXY", "off")
	os.Setenv("GOSUMDB", "off")
	os.Setenv("GOTOOLCHAIN", "local")
	args := os.Args[1:]
	if len(args) >= 1 && args[0] == "--setup" {
		os.Exit(setup())
	}
	if len(args) < 2 {
		fmt.Fprintln(os.Stderr, "usage: check <Cnn> quick|thorough | check <Cnn> --replay <file> | check --setup")
		os.Exit(2)
	}
	prop := strings.ToUpper(args[0])
	if args[1] == "--replay" {
		if len(args) < 3 {
			fmt.Fprintln(os.Stderr, "--replay needs a file")
			os.Exit(2)
		}
		os.Exit(replay(prop, args[2]))
	}
	tier := args[1]
	if tier != "quick" && tier != "thorough" {
		fmt.Fprintln(os.Stderr, "tier must be quick or thorough")
		os.Exit(2)
	}
	os.Exit(run(prop, tier))
}

func loadCfg(prop string) propCfg {
	cfg := propCfg{Shards: 16, QuickBudgetS: 900, ThorBudgetS: 3600}
	b, err := os.ReadFile(filepath.Join(root, "props", "config.json"))
	if err == nil {
		all := map[string]propCfg{}
		if json.Unmarshal(b, &all) == nil {
			if c, ok := all[prop]; ok {
				if c.Shards > 0 {
					cfg.Shards = c.Shards
				}
				if c.QuickBudgetS > 0 {
					cfg.QuickBudgetS = c.QuickBudgetS
				}
				if c.ThorBudgetS > 0 {
					cfg.ThorBudgetS = c.ThorBudgetS
				}
				cfg.Race = c.Race
				cfg.GoMaxProcs = c.GoMaxProcs
				cfg.ThorScale = c.ThorScale
			}
		}
	}
	return cfg
}

func pkgDir(prop string) string { return "./props/" + strings.ToLower(prop) }

// build compiles the property's test binary against /repo (or $VERIF_REPO) with the verif tag.
func build(prop string, cfg propCfg) (string, error) {
	binDir := filepath.Join(root, ".work", "bin")
	if err := os.MkdirAll(binDir, 0o755); err != nil {
		return "", err
	}
	// a private file per invocation: concurrent runs of the same check never execute or overwrite each
	// other's binary; release() publishes it under the stable name afterwards (development aid)
	bin := filepath.Join(binDir, fmt.Sprintf("%s.%d.test", strings.ToLower(prop), os.Getpid()))
	args := []string{"test", "-c", "-tags", "verif", "-vet=off", "-o", bin}
	if cfg.Race {
		args = append(args, "-race")
	}
	if alt := os.Getenv("VERIF_REPO"); alt != "" && alt != "/repo" {
		// sensitivity runs: same module, otto replaced by a scratch copy
		gm, err := os.ReadFile(filepath.Join(root, "go.mod"))
		if err != nil {
			return "", err
		}
		gm = bytes.ReplaceAll(gm, []byte("=> /repo"), []byte("=> "+alt))
		tag := fmt.Sprintf("%x", hash(alt))
		mf := filepath.Join(root, ".work", "alt-"+tag+".mod")
		if err := os.WriteFile(mf, gm, 0o644); err != nil {
			return "", err
		}
		gs, _ := os.ReadFile(filepath.Join(root, "go.sum"))
		_ = os.WriteFile(filepath.Join(root, ".work", "alt-"+tag+".sum"), gs, 0o644)
		bin = filepath.Join(binDir, fmt.Sprintf("%s-%s.%d.test", strings.ToLower(prop), tag, os.Getpid()))
		args[6] = bin
		args = append(args, "-modfile", mf)
	}
	args = append(args, pkgDir(prop))
	cmd := exec.Command("go", args...)
	cmd.Dir = root
	out, err := cmd.CombinedOutput()
	if err != nil {
		return "", fmt.Errorf("build failed: %v\n%s", err, out)
	}
	return bin, nil
}

// release renames a private per-invocation path (name.<pid>.ext or name.<pid>) to its stable name, or
// removes it for runs against a scratch copy of otto.
func release(path string) string {
	pid := fmt.Sprintf(".%d", os.Getpid())
	stable := strings.Replace(path, pid, "", 1)
	if stable == path {
		return path
	}
	if alt := os.Getenv("VERIF_REPO"); alt != "" && alt != "/repo" && strings.HasSuffix(path, ".test") {
		_ = os.Remove(path)
		return path
	}
	_ = os.RemoveAll(stable)
	if err := os.Rename(path, stable); err != nil {
		return path
	}
	return stable
}

func stableName(path string) string {
	return strings.Replace(path, fmt.Sprintf(".%d", os.Getpid()), "", 1)
}

func hash(s string) uint32 {
	var h uint32 = 2166136261
	for i := 0; i < len(s); i++ {
		h ^= uint32(s[i])
		h *= 16777619
	}
	return h
}

func seed() int64 {
	if s := os.Getenv("VERIF_SEED"); s != "" {
		if n, err := strconv.ParseInt(s, 10, 64); err == nil {
			if n == 0 {
				return 1 // rapid treats 0 as "random"; remapped
			}
			if n < 0 {
				n = -n
			}
			return n
		}
	}
	return 1
}

type procResult struct {
	shard    int
	exit     int
	timedOut bool
	log      string
}

func runProc(bin, prop, tier string, shard, nshards int, outDir string, budget time.Duration, cfg propCfg, extraEnv ...string) procResult {
	logPath := filepath.Join(outDir, fmt.Sprintf("shard-%03d.log", shard))
	lf, _ := os.Create(logPath)
	defer lf.Close()
	cmd := exec.Command(bin, "-test.timeout=0", "-test.count=1", "-test.v")
	cmd.Dir = filepath.Join(root, "props", strings.ToLower(prop))
	cmd.Env = append(os.Environ(),
		"VERIF_TIER="+tier, "VERIF_SEED="+strconv.FormatInt(seed(), 10),
		"VERIF_SHARD="+strconv.Itoa(shard), "VERIF_NSHARDS="+strconv.Itoa(nshards),
		"VERIF_OUT="+outDir, "VERIF_ROOT="+root)
	// scratch files of the test process (worker stderr captures, …) live under the shard's output
	// directory, which the driver owns, not under /tmp
	tmp := filepath.Join(outDir, fmt.Sprintf("tmp-%03d", shard))
	if os.MkdirAll(tmp, 0o755) == nil {
		cmd.Env = append(cmd.Env, "TMPDIR="+tmp)
		defer os.RemoveAll(tmp)
	}
	if cfg.Race {
		cmd.Env = append(cmd.Env, "GORACE=halt_on_error=1 exitcode=66")
	}
	if cfg.GoMaxProcs > 0 {
		cmd.Env = append(cmd.Env, "GOMAXPROCS="+strconv.Itoa(cfg.GoMaxProcs))
	}
	if cfg.ThorScale > 0 && os.Getenv("VERIF_THOROUGH_SCALE") == "" {
		cmd.Env = append(cmd.Env, "VERIF_THOROUGH_SCALE="+strconv.FormatFloat(cfg.ThorScale, 'g', -1, 64))
	}
	cmd.Env = append(cmd.Env, extraEnv...)
	cmd.Stdout = lf
	cmd.Stderr = lf
	cmd.SysProcAttr = &syscall.SysProcAttr{Setpgid: true}
	res := procResult{shard: shard, log: logPath}
	if err := cmd.Start(); err != nil {
		res.exit = 2
		return res
	}
	done := make(chan error, 1)
	go func() { done <- cmd.Wait() }()
	select {
	case err := <-done:
		if err != nil {
			if ee, ok := err.(*exec.ExitError); ok {
				res.exit = ee.ExitCode()
				if res.exit < 0 {
					res.exit = 2 // killed by a signal (e.g. out of memory)
				}
			} else {
				res.exit = 2
			}
		}
	case <-time.After(budget):
		_ = syscall.Kill(-cmd.Process.Pid, syscall.SIGKILL)
		<-done
		res.timedOut = true
		res.exit = 2
	}
	return res
}

func run(prop, tier string) int {
	start := time.Now()
	cfg := loadCfg(prop)
	bin, err := build(prop, cfg)
	if err != nil {
		fmt.Fprintln(os.Stderr, err)
		return 2
	}
	defer release(bin)
	// private per invocation (a concurrent run of the same check must not read these logs), published
	// under the stable name .work/out/<prop>-<tier> when the run is over
	outDir := filepath.Join(root, ".work", "out", fmt.Sprintf("%s-%s.%d", prop, tier, os.Getpid()))
	_ = os.RemoveAll(outDir)
	_ = os.MkdirAll(outDir, 0o755)
	defer release(outDir)
	_ = os.RemoveAll(filepath.Join(root, "props", strings.ToLower(prop), "testdata", "rapid"))

	nshards := 1
	budget := time.Duration(cfg.QuickBudgetS) * time.Second
	if tier == "thorough" {
		nshards = cfg.Shards
		if s := os.Getenv("VERIF_THOROUGH_SHARDS"); s != "" { // development aid on a busy machine
			if n, err := strconv.Atoi(s); err == nil && n > 0 {
				nshards = n
			}
		}
		budget = time.Duration(cfg.ThorBudgetS) * time.Second
	}
	results := make([]procResult, nshards)
	var wg sync.WaitGroup
	for i := 0; i < nshards; i++ {
		wg.Add(1)
		go func(i int) {
			defer wg.Done()
			results[i] = runProc(bin, prop, tier, i, nshards, outDir, budget, cfg)
		}(i)
	}
	wg.Wait()

	// collect VIOLATION / KNOWN-FINDING lines
	seen := map[string]bool{}
	violations := 0
	inconclusive := false
	for _, r := range results {
		f, err := os.Open(r.log)
		if err != nil {
			inconclusive = true
			continue
		}
		sc := bufio.NewScanner(f)
		sc.Buffer(make([]byte, 1<<20), 1<<22)
		hadViolation := false
		printNext := false
		for sc.Scan() {
			line := sc.Text()
			t := strings.TrimSpace(line)
			switch {
			case strings.HasPrefix(t, "VIOLATION property="):
				hadViolation = true
				if !seen[t] {
					seen[t] = true
					violations++
					fmt.Println(t)
					printNext = true
					continue
				}
			case strings.HasPrefix(t, "KNOWN-FINDING:"), strings.HasPrefix(t, "note: finding"):
				if !seen[t] {
					seen[t] = true
					fmt.Println(t)
				}
			case printNext && strings.HasPrefix(line, "  "):
				fmt.Println(line)
			}
			printNext = false
		}
		f.Close()
		if r.timedOut {
			fmt.Fprintf(os.Stderr, "shard %d: wall-clock budget (%v) hit: inconclusive\n", r.shard, budget)
			inconclusive = true
		} else if r.exit != 0 && !hadViolation && processDied(r.log) {
			// the test process itself died (fatal Go error / stack exhaustion): run the same shard again with a
			// case journal; if it dies again the last journalled case is the culprit
			jpath := filepath.Join(outDir, fmt.Sprintf("journal-%03d.json", r.shard))
			_ = os.Remove(jpath)
			r2 := runProc(bin, prop, tier, r.shard, nshards, outDir, budget, cfg, "VERIF_JOURNAL="+jpath)
			jb, jerr := os.ReadFile(jpath)
			if r2.exit != 0 && processDied(r2.log) && jerr == nil && len(jb) > 0 {
				rdir := filepath.Join(root, "replays")
				_ = os.MkdirAll(rdir, 0o755)
				rp := filepath.Join(rdir, fmt.Sprintf("%s-crash-%08x.json", prop, hash(string(jb))))
				_ = os.WriteFile(rp, jb, 0o644)
				line := fmt.Sprintf("VIOLATION property=%s replay=%s", prop, rp)
				if !seen[line] {
					seen[line] = true
					violations++
					fmt.Println(line)
					fmt.Printf("  the test process died twice (fatal Go error) while checking this case: %s\n", crashReason(r2.log))
				}
			} else {
				fmt.Fprintf(os.Stderr, "shard %d: test process died (%s) but the death did not reproduce with a journal: inconclusive\n", r.shard, crashReason(r.log))
				inconclusive = true
			}
		} else if r.exit != 0 && !hadViolation {
			fmt.Fprintf(os.Stderr, "shard %d: exit %d without a VIOLATION line (harness problem, see %s)\n", r.shard, r.exit, stableName(r.log))
			tail(r.log, 40)
			inconclusive = true
		}
	}
	if err := merge(prop, tier, outDir, nshards, violations, time.Since(start).Seconds()); err != nil {
		fmt.Fprintf(os.Stderr, "evidence: %v\n", err)
		inconclusive = true
	}
	switch {
	case violations > 0:
		return 1
	case inconclusive:
		return 2
	}
	fmt.Printf("OK property=%s tier=%s seed=%d wall=%.1fs evidence=%s\n", prop, tier, seed(), time.Since(start).Seconds(), filepath.Join(root, "evidence", prop+".json"))
	return 0
}

// processDied reports whether the log shows a fatal Go runtime error (not an ordinary test failure).
func processDied(path string) bool {
	b, err := os.ReadFile(path)
	if err != nil {
		return false
	}
	t := string(b)
	return strings.Contains(t, "fatal error:") || strings.Contains(t, "goroutine stack exceeds") || strings.Contains(t, "signal: killed") || strings.Contains(t, "runtime: out of memory")
}

func crashReason(path string) string {
	b, _ := os.ReadFile(path)
	for _, l := range strings.Split(string(b), "\n") {
		if strings.Contains(l, "fatal error:") || strings.Contains(l, "goroutine stack exceeds") {
			return strings.TrimSpace(l)
		}
	}
	return "process died"
}

func tail(path string, n int) {
	b, err := os.ReadFile(path)
	if err != nil {
		return
	}
	lines := strings.Split(strings.TrimRight(string(b), "\n"), "\n")
	if len(lines) > n {
		lines = lines[len(lines)-n:]
	}
	for _, l := range lines {
		fmt.Fprintln(os.Stderr, "  | "+l)
	}
}

func replay(prop, file string) int {
	cfg := loadCfg(prop)
	bin, err := build(prop, cfg)
	if err != nil {
		fmt.Fprintln(os.Stderr, err)
		return 2
	}
	defer release(bin)
	abs, _ := filepath.Abs(file)
	cmd := exec.Command(bin, "-test.run=^$")
	cmd.Dir = filepath.Join(root, "props", strings.ToLower(prop))
	cmd.Env = append(os.Environ(), "VERIF_REPLAY="+abs, "VERIF_ROOT="+root, "VERIF_OUT=")
	cmd.Stdout = os.Stdout
	var buf bytes.Buffer
	cmd.Stderr = io.MultiWriter(os.Stderr, &buf)
	if err := cmd.Run(); err != nil {
		if ee, ok := err.(*exec.ExitError); ok {
			t := buf.String()
			if ee.ExitCode() != 1 && (strings.Contains(t, "fatal error:") || strings.Contains(t, "goroutine stack exceeds")) {
				fmt.Printf("VIOLATION property=%s replay=%s\n  the process died (fatal Go error) while replaying this case\n", prop, abs)
				return 1
			}
			return ee.ExitCode()
		}
		return 2
	}
	return 0
}

func setup() int {
	// warm the build cache: compile every property package that exists
	ents, _ := os.ReadDir(filepath.Join(root, "props"))
	code := 0
	for _, e := range ents {
		if !e.IsDir() {
			continue
		}
		prop := strings.ToUpper(e.Name())
		bin, err := build(prop, loadCfg(prop))
		if err != nil {
			fmt.Fprintf(os.Stderr, "%s: %v\n", prop, err)
			code = 1
			continue
		}
		release(bin)
	}
	return code
}

// ---- evidence merge ----

type facetStats struct {
	Name        string            `json:"name"`
	Rule        string            `json:"rule"`
	Evaluations int64             `json:"evaluations"`
	Nontrivial  []uint64          `json:"nontrivial_fingerprints,omitempty"`
	NontrivCap  bool              `json:"nontrivial_capped,omitempty"`
	Classes     map[string]int64  `json:"classes,omitempty"`
	Excluded    map[string]int64  `json:"excluded_known,omitempty"`
	Discards    map[string]int64  `json:"discarded,omitempty"`
	Samples     []json.RawMessage `json:"samples,omitempty"`
	Exhaustive  bool              `json:"exhaustive,omitempty"`
}

type shardFile struct {
	Property   string                 `json:"property"`
	Facets     []*facetStats          `json:"facets"`
	Known      []string               `json:"known_findings_printed"`
	Violations int                    `json:"violations"`
	Extra      map[string]interface{} `json:"extra"`
}

func merge(prop, tier, outDir string, nshards, violations int, wall float64) error {
	files, _ := filepath.Glob(filepath.Join(outDir, "shard-*.json"))
	sort.Strings(files)
	if len(files) == 0 {
		return fmt.Errorf("no evidence shard was written")
	}
	type agg struct {
		facetStats
		set map[uint64]struct{}
	}
	facets := map[string]*agg{}
	var order []string
	known := map[string]bool{}
	extra := map[string]interface{}{}
	for _, p := range files {
		b, err := os.ReadFile(p)
		if err != nil {
			return err
		}
		var sf shardFile
		if err := json.Unmarshal(b, &sf); err != nil {
			return fmt.Errorf("%s: %v", p, err)
		}
		for _, k := range sf.Known {
			known[k] = true
		}
		for k, v := range sf.Extra {
			extra[k] = v
		}
		for _, f := range sf.Facets {
			a := facets[f.Name]
			if a == nil {
				a = &agg{set: map[uint64]struct{}{}}
				a.Name, a.Rule, a.Exhaustive = f.Name, f.Rule, f.Exhaustive
				a.Classes, a.Excluded, a.Discards = map[string]int64{}, map[string]int64{}, map[string]int64{}
				facets[f.Name] = a
				order = append(order, f.Name)
			}
			a.Evaluations += f.Evaluations
			a.NontrivCap = a.NontrivCap || f.NontrivCap
			a.Exhaustive = a.Exhaustive && f.Exhaustive
			for _, h := range f.Nontrivial {
				a.set[h] = struct{}{}
			}
			for k, v := range f.Classes {
				a.Classes[k] += v
			}
			for k, v := range f.Excluded {
				a.Excluded[k] += v
			}
			for k, v := range f.Discards {
				a.Discards[k] += v
			}
			if len(a.Samples) < 6 {
				for _, s := range f.Samples {
					if len(a.Samples) < 6 {
						a.Samples = append(a.Samples, s)
					}
				}
			}
		}
	}
	var evals, distinct int64
	var rules []string
	var samples []interface{}
	var perFacet []map[string]interface{}
	exhaustive := true
	for _, name := range order {
		a := facets[name]
		if name == "regress" && a.Rule == "" {
			a.Rule = "committed regression inputs (shrunk cases of repaired defects / past false alarms) replayed through their facets"
		}
		evals += a.Evaluations
		distinct += int64(len(a.set))
		rules = append(rules, name+": "+a.Rule)
		for i, s := range a.Samples {
			if i < 3 {
				samples = append(samples, map[string]interface{}{"facet": name, "case": s})
			}
		}
		if !a.Exhaustive && name != "regress" {
			exhaustive = false
		}
		pf := map[string]interface{}{
			"facet": name, "rule": a.Rule, "evaluations": a.Evaluations, "distinct_nontrivial": len(a.set),
			"classes": a.Classes, "excluded_known": a.Excluded, "discarded": a.Discards, "samples": a.Samples,
		}
		if a.Exhaustive {
			pf["exhaustive"] = true
		}
		if a.NontrivCap {
			pf["distinct_nontrivial_capped"] = true
		}
		perFacet = append(perFacet, pf)
	}
	var knownList []string
	for k := range known {
		knownList = append(knownList, k)
	}
	sort.Strings(knownList)
	cov := map[string]interface{}{
		"evaluations":         evals,
		"distinct_nontrivial": distinct,
		"rule":                strings.Join(rules, " || "),
		"samples":             samples,
		"facets":              perFacet,
		"processes":           nshards,
		"known_findings":      knownList,
	}
	if exhaustive {
		cov["exhaustive"] = true
	}
	for k, v := range extra {
		cov[k] = v
	}
	ev := map[string]interface{}{
		"property_id": prop,
		"tier":        tier,
		"seed":        seed(),
		"level":       "exploration",
		"coverage":    cov,
		"assumptions": assumptions(prop),
		"wall_s":      wall,
		"violations":  violations,
	}
	b, err := json.MarshalIndent(ev, "", " ")
	if err != nil {
		return err
	}
	dir := filepath.Join(root, "evidence")
	if alt := os.Getenv("VERIF_REPO"); alt != "" && alt != "/repo" {
		// a run against a scratch copy (mutants, trial fixes) must not overwrite the evidence of /repo
		dir = filepath.Join(root, ".work", "evidence-alt")
	}
	if err := os.MkdirAll(dir, 0o755); err != nil {
		return err
	}
	return os.WriteFile(filepath.Join(dir, prop+".json"), b, 0o644)
}

func assumptions(prop string) []string {
	base := []string{
		"generated-input search: absence of a violation in the explored cases is not a proof",
		"the reference models under /verif/lib are transcriptions of ES5.1 and are trusted as the oracle",
		"cases inside a listed known-finding class are steered around (counted under excluded_known) while its witness still fails",
	}
	b, err := os.ReadFile(filepath.Join(root, "props", strings.ToLower(prop), "ASSUMPTIONS.txt"))
	if err == nil {
		for _, l := range strings.Split(string(b), "\n") {
			if l = strings.TrimSpace(l); l != "" {
				base = append(base, l)
			}
		}
	}
	return base
}
