package es5

import "math"

// MathKind says how a Math result is to be compared.
type MathKind int

const (
	MathExact  MathKind = iota // ES5 fixes the result: compare bit class (NaN / ±0 / exact bits)
	MathApprox                 // "implementation-dependent approximation": compare within a tolerance
)

// MathArity gives the declared parameter count of each ES5 Math function (max/min are variadic, length 2).
var MathArity = map[string]int{
	"abs": 1, "acos": 1, "asin": 1, "atan": 1, "atan2": 2, "ceil": 1, "cos": 1, "exp": 1, "floor": 1,
	"log": 1, "max": -1, "min": -1, "pow": 2, "round": 1, "sin": 1, "sqrt": 1, "tan": 1,
}

// MathNames lists the ES5 15.8.2 functions (random excluded) in a fixed order.
var MathNames = []string{"abs", "acos", "asin", "atan", "atan2", "ceil", "cos", "exp", "floor", "log", "max", "min", "pow", "round", "sin", "sqrt", "tan"}

func isOddInt(y float64) bool {
	if y != math.Trunc(y) || math.Abs(y) >= 9007199254740992 {
		return false
	}
	return math.Mod(math.Abs(y), 2) == 1
}

func arg(a []float64, i int) float64 {
	if i < len(a) {
		return a[i]
	}
	return math.NaN() // ToNumber(undefined)
}

var negZero = math.Copysign(0, -1)

// MathModel returns what ES5 15.8.2 prescribes for Math.<fn>(args...) after ToNumber of the
// arguments. For MathExact the value is mandated; for MathApprox it is a reference approximation.
func MathModel(fn string, a []float64) (float64, MathKind) {
	x := arg(a, 0)
	nan := math.NaN()
	switch fn {
	case "abs":
		if math.IsNaN(x) {
			return nan, MathExact
		}
		if x == 0 {
			return 0, MathExact
		}
		if x < 0 {
			return -x, MathExact
		}
		return x, MathExact
	case "acos":
		switch {
		case math.IsNaN(x), x > 1, x < -1:
			return nan, MathExact
		case x == 1:
			return 0, MathExact
		}
		return math.Acos(x), MathApprox
	case "asin":
		switch {
		case math.IsNaN(x), x > 1, x < -1:
			return nan, MathExact
		case x == 0:
			return x, MathExact
		}
		return math.Asin(x), MathApprox
	case "atan":
		switch {
		case math.IsNaN(x):
			return nan, MathExact
		case x == 0:
			return x, MathExact
		case math.IsInf(x, 1):
			return math.Pi / 2, MathApprox
		case math.IsInf(x, -1):
			return -math.Pi / 2, MathApprox
		}
		return math.Atan(x), MathApprox
	case "atan2":
		y, x := arg(a, 0), arg(a, 1)
		pz := func(v float64) bool { return v == 0 && !math.Signbit(v) }
		nz := func(v float64) bool { return v == 0 && math.Signbit(v) }
		fin := func(v float64) bool { return !math.IsInf(v, 0) }
		switch {
		case math.IsNaN(x) || math.IsNaN(y):
			return nan, MathExact
		case y > 0 && x == 0 && fin(y):
			return math.Pi / 2, MathApprox
		case pz(y) && (x > 0 || pz(x)):
			return 0, MathExact
		case pz(y) && (nz(x) || x < 0):
			return math.Pi, MathApprox
		case nz(y) && (x > 0 || pz(x)):
			return negZero, MathExact
		case nz(y) && (nz(x) || x < 0):
			return -math.Pi, MathApprox
		case y < 0 && x == 0 && fin(y):
			return -math.Pi / 2, MathApprox
		case y > 0 && fin(y) && math.IsInf(x, 1):
			return 0, MathExact
		case y > 0 && fin(y) && math.IsInf(x, -1):
			return math.Pi, MathApprox
		case y < 0 && fin(y) && math.IsInf(x, 1):
			return negZero, MathExact
		case y < 0 && fin(y) && math.IsInf(x, -1):
			return -math.Pi, MathApprox
		case math.IsInf(y, 1) && fin(x):
			return math.Pi / 2, MathApprox
		case math.IsInf(y, -1) && fin(x):
			return -math.Pi / 2, MathApprox
		case math.IsInf(y, 1) && math.IsInf(x, 1):
			return math.Pi / 4, MathApprox
		case math.IsInf(y, 1) && math.IsInf(x, -1):
			return 3 * math.Pi / 4, MathApprox
		case math.IsInf(y, -1) && math.IsInf(x, 1):
			return -math.Pi / 4, MathApprox
		case math.IsInf(y, -1) && math.IsInf(x, -1):
			return -3 * math.Pi / 4, MathApprox
		}
		// the result has the sign of y in every row of 15.8.2.5 and for the mathematical function; Go's
		// math.Atan2 loses it when y/x underflows to zero (y<0, x<0), so it is restored here
		return math.Copysign(math.Atan2(y, x), y), MathApprox
	case "ceil":
		switch {
		case math.IsNaN(x):
			return nan, MathExact
		case x == 0 || math.IsInf(x, 0):
			return x, MathExact
		case x < 0 && x > -1:
			return negZero, MathExact
		}
		return -floorExact(-x), MathExact
	case "floor":
		switch {
		case math.IsNaN(x):
			return nan, MathExact
		case x == 0 || math.IsInf(x, 0):
			return x, MathExact
		case x > 0 && x < 1:
			return 0, MathExact
		}
		return floorExact(x), MathExact
	case "cos":
		switch {
		case math.IsNaN(x), math.IsInf(x, 0):
			return nan, MathExact
		case x == 0:
			return 1, MathExact
		}
		return math.Cos(x), MathApprox
	case "exp":
		switch {
		case math.IsNaN(x):
			return nan, MathExact
		case x == 0:
			return 1, MathExact
		case math.IsInf(x, 1):
			return x, MathExact
		case math.IsInf(x, -1):
			return 0, MathExact
		}
		return math.Exp(x), MathApprox
	case "log":
		switch {
		case math.IsNaN(x), x < 0:
			return nan, MathExact
		case x == 0:
			return math.Inf(-1), MathExact
		case x == 1:
			return 0, MathExact
		case math.IsInf(x, 1):
			return x, MathExact
		}
		return math.Log(x), MathApprox
	case "max", "min":
		r := math.Inf(-1)
		if fn == "min" {
			r = math.Inf(1)
		}
		for _, v := range a {
			if math.IsNaN(v) {
				return nan, MathExact
			}
		}
		for _, v := range a {
			if fn == "max" {
				if v > r || (v == 0 && r == 0 && !math.Signbit(v)) {
					r = v
				}
			} else {
				if v < r || (v == 0 && r == 0 && math.Signbit(v)) {
					r = v
				}
			}
		}
		return r, MathExact
	case "pow":
		x, y := arg(a, 0), arg(a, 1)
		ax := math.Abs(x)
		switch {
		case math.IsNaN(y):
			return nan, MathExact
		case y == 0:
			return 1, MathExact
		case math.IsNaN(x):
			return nan, MathExact
		case ax > 1 && math.IsInf(y, 1):
			return math.Inf(1), MathExact
		case ax > 1 && math.IsInf(y, -1):
			return 0, MathExact
		case ax == 1 && math.IsInf(y, 0):
			return nan, MathExact
		case ax < 1 && math.IsInf(y, 1):
			return 0, MathExact
		case ax < 1 && math.IsInf(y, -1):
			return math.Inf(1), MathExact
		case math.IsInf(x, 1) && y > 0:
			return math.Inf(1), MathExact
		case math.IsInf(x, 1) && y < 0:
			return 0, MathExact
		case math.IsInf(x, -1) && y > 0:
			if isOddInt(y) {
				return math.Inf(-1), MathExact
			}
			return math.Inf(1), MathExact
		case math.IsInf(x, -1) && y < 0:
			if isOddInt(y) {
				return negZero, MathExact
			}
			return 0, MathExact
		case x == 0 && !math.Signbit(x) && y > 0:
			return 0, MathExact
		case x == 0 && !math.Signbit(x) && y < 0:
			return math.Inf(1), MathExact
		case x == 0 && math.Signbit(x) && y > 0:
			if isOddInt(y) {
				return negZero, MathExact
			}
			return 0, MathExact
		case x == 0 && math.Signbit(x) && y < 0:
			if isOddInt(y) {
				return math.Inf(-1), MathExact
			}
			return math.Inf(1), MathExact
		case x < 0 && !math.IsInf(x, 0) && !math.IsInf(y, 0) && y != math.Trunc(y):
			return nan, MathExact
		}
		return math.Pow(x, y), MathApprox
	case "round":
		switch {
		case math.IsNaN(x):
			return nan, MathExact
		case x == 0 || math.IsInf(x, 0):
			return x, MathExact
		case x > 0 && x < 0.5:
			return 0, MathExact
		case x < 0 && x >= -0.5:
			return negZero, MathExact
		}
		if math.Abs(x) >= 4503599627370496 { // 2^52: already integral
			return x, MathExact
		}
		f := floorExact(x)
		if x-f >= 0.5 { // exact: x and f share the binade or f is a power of two below it
			return f + 1, MathExact
		}
		return f, MathExact
	case "sin", "tan":
		switch {
		case math.IsNaN(x), math.IsInf(x, 0):
			return nan, MathExact
		case x == 0:
			return x, MathExact
		}
		if fn == "sin" {
			return math.Sin(x), MathApprox
		}
		return math.Tan(x), MathApprox
	case "sqrt":
		switch {
		case math.IsNaN(x), x < 0:
			return nan, MathExact
		case x == 0 || math.IsInf(x, 1):
			return x, MathExact
		}
		return math.Sqrt(x), MathApprox
	}
	panic("MathModel: unknown function " + fn)
}

// floorExact computes floor(x) for finite x without math.Floor (integer truncation of the
// significand), so that the oracle does not share the routine under test.
func floorExact(x float64) float64 {
	if math.Abs(x) >= 4503599627370496 {
		return x
	}
	t := float64(int64(x)) // truncation toward zero, exact below 2^52
	if t > x {
		t--
	}
	if t == 0 && x < 0 {
		return negZero
	}
	return t
}

// MathClose compares an approximated result with the reference: same NaN-ness, same infinities,
// same sign of zero for exact zeros, otherwise relative error ≤ tol (absolute near zero).
func MathClose(got, want, tol float64) bool {
	switch {
	case math.IsNaN(want) || math.IsNaN(got):
		return math.IsNaN(want) && math.IsNaN(got)
	case math.IsInf(want, 0) || math.IsInf(got, 0):
		return got == want
	case want == 0:
		return math.Abs(got) <= tol
	}
	d := math.Abs(got - want)
	return d <= tol*math.Abs(want) || d <= 1e-300
}
