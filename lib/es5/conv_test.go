package es5

import (
	"math"
	"testing"
	"unicode/utf16"
)

func u(s string) []uint16 { return utf16.Encode([]rune(s)) }

func TestConvTable(t *testing.T) {
	num := map[string]float64{
		"": 0, "  ": 0, "1": 1, " 12 ": 12, "-1.5e3": -1500, "+.5": .5, "5.": 5, "0x10": 16, "0X1f": 31,
		"Infinity": math.Inf(1), "-Infinity": math.Inf(-1), "+Infinity": math.Inf(1),
		"1e400": math.Inf(1), "1e-400": 0, "9007199254740993": 9007199254740992, "\ufeff7 ": 7,
		"0x8000000000000000": 9223372036854775808,
	}
	for s, w := range num {
		if g := StringToNumber(u(s)); !(g == w) {
			t.Errorf("ToNumber(%q)=%v want %v", s, g, w)
		}
	}
	for _, s := range []string{"infinity", "INFINITY", "inf", "0x", "+0x10", "-0x10", "1e", ".", "1_0", "1 2", "0x1.8p1", "e5", "++1", "1e+", "0b1", "NaN"} {
		if g := StringToNumber(u(s)); !math.IsNaN(g) {
			t.Errorf("ToNumber(%q)=%v want NaN", s, g)
		}
	}
	if g := StringToNumber(u("-0")); !(g == 0 && math.Signbit(g)) {
		t.Errorf("-0")
	}
	str := map[float64]string{
		1: "1", 1e21: "1e+21", 1e20: "100000000000000000000", 123456789012345680000: "123456789012345680000",
		0.000001: "0.000001", 1e-7: "1e-7", 1.5e-7: "1.5e-7", -1.5: "-1.5", 0.1: "0.1", 5e-324: "5e-324",
		1.7976931348623157e308: "1.7976931348623157e+308", 999999999999999900000: "999999999999999900000",
		123.456: "123.456", 4294967296: "4294967296",
	}
	for x, w := range str {
		if g := NumberToString(x); g != w {
			t.Errorf("ToString(%v)=%q want %q", x, g, w)
		}
	}
	if ToInt32(math.Pow(2, 63)+2048) != 2048 || ToInt32(-1) != -1 || ToUint32(-1) != 4294967295 || ToInt32(2147483648) != -2147483648 || ToUint16(65537.9) != 1 || ToInt32(-2147483649) != 2147483647 {
		t.Errorf("int conv")
	}
	pi := func(s string, r float64, w float64) {
		g, _ := ParseInt(u(s), r)
		if !(g == w || math.IsNaN(g) && math.IsNaN(w)) {
			t.Errorf("parseInt(%q,%v)=%v want %v", s, r, g, w)
		}
	}
	pi("  -12px", 0, -12)
	pi("0x1f", 0, 31)
	pi("0x1f", 16, 31)
	pi("0x1f", 10, 0)
	pi("z", 36, 35)
	pi("11", 2, 3)
	pi("11", 1, math.NaN())
	pi("11", 37, math.NaN())
	pi("", 10, math.NaN())
	pi("9", 8, math.NaN())
	pi("11", 4294967298, 3)
	pf := map[string]float64{"3.14abc": 3.14, "  -.5e": -0.5, "1e1000": math.Inf(1), "1_0": 1, "Infinityx": math.Inf(1), "1.e5x": 100000, "1e+": 1}
	for s, w := range pf {
		if g := ParseFloat(u(s)); g != w {
			t.Errorf("parseFloat(%q)=%v want %v", s, g, w)
		}
	}
	if g := ParseFloat(u("abc")); !math.IsNaN(g) {
		t.Errorf("parseFloat abc")
	}
}
