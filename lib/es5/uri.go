package es5

import "strings"

// 15.1.3 URI handling, transcribed over UTF-16 code units.

const (
	uriAlpha        = "abcdefghijklmnopqrstuvwxyzABCDEFGHIJKLMNOPQRSTUVWXYZ"
	uriDigit        = "0123456789"
	uriMark         = "-_.!~*'()"
	URIReserved     = ";/?:@&=+$,"
	URIUnescaped    = uriAlpha + uriDigit + uriMark
	EncodeURISet    = URIReserved + URIUnescaped + "#" // unescapedSet of encodeURI
	EncodeURICSet   = URIUnescaped                     // unescapedSet of encodeURIComponent
	DecodeURISet    = URIReserved + "#"                // reservedSet of decodeURI
	DecodeURICSet   = ""                               // reservedSet of decodeURIComponent
	hexUpper        = "0123456789ABCDEF"
	escapeUnescaped = uriAlpha + uriDigit + "@*_+-./" // B.2.1
)

func inSet(c uint16, set string) bool { return c < 0x80 && strings.IndexByte(set, byte(c)) >= 0 }

// URIEncode is the abstract operation Encode(string, unescapedSet); ok=false means URIError.
func URIEncode(s []uint16, unescaped string) (out []uint16, ok bool) {
	for k := 0; k < len(s); k++ {
		c := s[k]
		if inSet(c, unescaped) {
			out = append(out, c)
			continue
		}
		if c >= 0xDC00 && c <= 0xDFFF {
			return nil, false
		}
		var v uint32
		if c < 0xD800 || c > 0xDBFF {
			v = uint32(c)
		} else {
			k++
			if k == len(s) {
				return nil, false
			}
			kc := s[k]
			if kc < 0xDC00 || kc > 0xDFFF {
				return nil, false
			}
			v = (uint32(c)-0xD800)*0x400 + (uint32(kc) - 0xDC00) + 0x10000
		}
		var oct []byte
		switch {
		case v < 0x80:
			oct = []byte{byte(v)}
		case v < 0x800:
			oct = []byte{0xC0 | byte(v>>6), 0x80 | byte(v&0x3f)}
		case v < 0x10000:
			oct = []byte{0xE0 | byte(v>>12), 0x80 | byte((v>>6)&0x3f), 0x80 | byte(v&0x3f)}
		default:
			oct = []byte{0xF0 | byte(v>>18), 0x80 | byte((v>>12)&0x3f), 0x80 | byte((v>>6)&0x3f), 0x80 | byte(v&0x3f)}
		}
		for _, b := range oct {
			out = append(out, '%', uint16(hexUpper[b>>4]), uint16(hexUpper[b&15]))
		}
	}
	return out, true
}

// URIDecode is the abstract operation Decode(string, reservedSet); ok=false means URIError.
func URIDecode(s []uint16, reserved string) (out []uint16, ok bool) {
	n := len(s)
	for k := 0; k < n; k++ {
		c := s[k]
		if c != '%' {
			out = append(out, c)
			continue
		}
		start := k
		if k+2 >= n {
			return nil, false
		}
		h1, h2 := hexVal(s[k+1]), hexVal(s[k+2])
		if h1 < 0 || h2 < 0 {
			return nil, false
		}
		b := byte(h1<<4 | h2)
		k += 2
		if b&0x80 == 0 {
			if !inSet(uint16(b), reserved) {
				out = append(out, uint16(b))
			} else {
				out = append(out, s[start:k+1]...)
			}
			continue
		}
		nb := 0
		for nb < 8 && (b<<uint(nb))&0x80 != 0 {
			nb++
		}
		if nb == 1 || nb > 4 {
			return nil, false
		}
		octets := []byte{b}
		if k+3*(nb-1) >= n {
			return nil, false
		}
		for j := 1; j < nb; j++ {
			k++
			if s[k] != '%' {
				return nil, false
			}
			h1, h2 := hexVal(s[k+1]), hexVal(s[k+2])
			if h1 < 0 || h2 < 0 {
				return nil, false
			}
			bb := byte(h1<<4 | h2)
			if bb&0xC0 != 0x80 {
				return nil, false
			}
			k += 2
			octets = append(octets, bb)
		}
		// "V = the value obtained by applying the UTF-8 transformation to Octets … If Octets does
		// not contain a valid UTF-8 encoding of a Unicode code point throw a URIError" (15.1.3,
		// table 21 and the over-long / surrogate / >10FFFF restrictions of the note).
		var v uint32
		switch nb {
		case 2:
			v = uint32(octets[0]&0x1f)<<6 | uint32(octets[1]&0x3f)
			if v < 0x80 {
				return nil, false
			}
		case 3:
			v = uint32(octets[0]&0x0f)<<12 | uint32(octets[1]&0x3f)<<6 | uint32(octets[2]&0x3f)
			if v < 0x800 || (v >= 0xD800 && v <= 0xDFFF) {
				return nil, false
			}
		case 4:
			v = uint32(octets[0]&0x07)<<18 | uint32(octets[1]&0x3f)<<12 | uint32(octets[2]&0x3f)<<6 | uint32(octets[3]&0x3f)
			if v < 0x10000 || v > 0x10FFFF {
				return nil, false
			}
		}
		if v < 0x10000 {
			if !inSet(uint16(v), reserved) {
				out = append(out, uint16(v))
			} else {
				out = append(out, s[start:k+1]...)
			}
		} else {
			l := uint16((v-0x10000)&0x3ff) + 0xDC00
			h := uint16(((v-0x10000)>>10)&0x3ff) + 0xD800
			out = append(out, h, l)
		}
	}
	return out, true
}

// Escape is B.2.1.
func Escape(s []uint16) []uint16 {
	var out []uint16
	for _, c := range s {
		switch {
		case inSet(c, escapeUnescaped):
			out = append(out, c)
		case c < 256:
			out = append(out, '%', uint16(hexUpper[c>>4]), uint16(hexUpper[c&15]))
		default:
			out = append(out, '%', 'u', uint16(hexUpper[c>>12]), uint16(hexUpper[(c>>8)&15]), uint16(hexUpper[(c>>4)&15]), uint16(hexUpper[c&15]))
		}
	}
	return out
}

// Unescape is B.2.2.
func Unescape(s []uint16) []uint16 {
	var out []uint16
	n := len(s)
	for k := 0; k < n; k++ {
		c := s[k]
		if c == '%' {
			if k <= n-6 && s[k+1] == 'u' {
				a, b, cc, d := hexVal(s[k+2]), hexVal(s[k+3]), hexVal(s[k+4]), hexVal(s[k+5])
				if a >= 0 && b >= 0 && cc >= 0 && d >= 0 {
					out = append(out, uint16(a<<12|b<<8|cc<<4|d))
					k += 5
					continue
				}
			}
			if k <= n-3 {
				a, b := hexVal(s[k+1]), hexVal(s[k+2])
				if a >= 0 && b >= 0 {
					out = append(out, uint16(a<<4|b))
					k += 2
					continue
				}
			}
		}
		out = append(out, c)
	}
	return out
}
