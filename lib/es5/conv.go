// Package es5 holds reference models transcribed from ECMA-262 5.1. They are the oracles of the
// property checks and deliberately share no code with otto.
package es5

import (
	"math"
	"math/big"
	"strconv"
	"strings"
)

// ---------------------------------------------------------------------------------------------
// 7.2 / 7.3 character classes

// IsWhiteSpace: WhiteSpace (7.2) incl. Unicode "Zs" as of Unicode 3.0+ (U+180E excluded on
// purpose: its category changed between Unicode versions; callers keep it out of generated input).
func IsWhiteSpace(c uint16) bool {
	switch c {
	case 0x0009, 0x000B, 0x000C, 0x0020, 0x00A0, 0xFEFF,
		0x1680, 0x2000, 0x2001, 0x2002, 0x2003, 0x2004, 0x2005, 0x2006, 0x2007, 0x2008, 0x2009, 0x200A,
		0x202F, 0x205F, 0x3000:
		return true
	}
	return false
}

// IsLineTerminator: LineTerminator (7.3).
func IsLineTerminator(c uint16) bool {
	return c == 0x000A || c == 0x000D || c == 0x2028 || c == 0x2029
}

// IsStrWhiteSpaceChar: StrWhiteSpaceChar (9.3.1) = WhiteSpace | LineTerminator.
func IsStrWhiteSpaceChar(c uint16) bool { return IsWhiteSpace(c) || IsLineTerminator(c) }

// TrimWS strips StrWhiteSpaceChar from both ends (also String.prototype.trim, 15.5.4.20).
func TrimWS(u []uint16) []uint16 {
	i, j := 0, len(u)
	for i < j && IsStrWhiteSpaceChar(u[i]) {
		i++
	}
	for j > i && IsStrWhiteSpaceChar(u[j-1]) {
		j--
	}
	return u[i:j]
}

// ---------------------------------------------------------------------------------------------
// 9.3.1 ToNumber applied to the String type

func isDigit(c uint16) bool { return c >= '0' && c <= '9' }

func hexVal(c uint16) int {
	switch {
	case c >= '0' && c <= '9':
		return int(c - '0')
	case c >= 'a' && c <= 'f':
		return int(c-'a') + 10
	case c >= 'A' && c <= 'F':
		return int(c-'A') + 10
	}
	return -1
}

// scanStrDecimalLiteral recognises the longest prefix of u that is a StrUnsignedDecimalLiteral
// ("Infinity", digits[.digits][exp], .digits[exp]) and returns its length (0 if none) — the
// exponent part is only consumed when complete.
func scanStrUnsignedDecimal(u []uint16) int {
	inf := []uint16{'I', 'n', 'f', 'i', 'n', 'i', 't', 'y'}
	if len(u) >= len(inf) {
		ok := true
		for i, c := range inf {
			if u[i] != c {
				ok = false
				break
			}
		}
		if ok {
			return len(inf)
		}
	}
	i := 0
	intDigits := 0
	for i < len(u) && isDigit(u[i]) {
		i++
		intDigits++
	}
	fracDigits := 0
	if i < len(u) && u[i] == '.' {
		j := i + 1
		for j < len(u) && isDigit(u[j]) {
			j++
			fracDigits++
		}
		if intDigits > 0 || fracDigits > 0 {
			i = j
		}
	}
	if intDigits == 0 && fracDigits == 0 {
		return 0
	}
	if i < len(u) && (u[i] == 'e' || u[i] == 'E') {
		j := i + 1
		if j < len(u) && (u[j] == '+' || u[j] == '-') {
			j++
		}
		k := j
		for k < len(u) && isDigit(u[k]) {
			k++
		}
		if k > j {
			i = k
		}
	}
	return i
}

// decimalToFloat converts an ASCII StrUnsignedDecimalLiteral (not "Infinity") to the nearest
// double, ties to even, exactly (through big.Float with enough precision is not exact for ties,
// so the rational is built and rounded by big.Rat → Float64, which is exact).
func decimalToFloat(s string) float64 {
	mant := s
	exp := 0
	if i := strings.IndexAny(s, "eE"); i >= 0 {
		mant = s[:i]
		e, err := strconv.Atoi(s[i+1:])
		if err != nil {
			// exponent overflowing int: decide by sign
			if strings.HasPrefix(s[i+1:], "-") {
				e = -1 << 30
			} else {
				e = 1 << 30
			}
		}
		exp = e
	}
	digits := mant
	if i := strings.IndexByte(mant, '.'); i >= 0 {
		digits = mant[:i] + mant[i+1:]
		exp -= len(mant) - i - 1
	}
	digits = strings.TrimLeft(digits, "0")
	if digits == "" {
		return 0
	}
	// strip trailing zeros into the exponent to keep numbers small
	for len(digits) > 1 && digits[len(digits)-1] == '0' {
		digits = digits[:len(digits)-1]
		exp++
	}
	// magnitude shortcuts (10^(len+exp) bounds)
	if len(digits)+exp > 400 {
		return math.Inf(1)
	}
	if len(digits)+exp < -400 {
		return 0
	}
	n, _ := new(big.Int).SetString(digits, 10)
	r := new(big.Rat).SetInt(n)
	p := new(big.Int).Exp(big.NewInt(10), big.NewInt(int64(abs(exp))), nil)
	if exp >= 0 {
		r.Mul(r, new(big.Rat).SetInt(p))
	} else {
		r.Quo(r, new(big.Rat).SetInt(p))
	}
	f, _ := r.Float64() // nearest, ties to even; ±Inf on overflow
	return f
}

func abs(x int) int {
	if x < 0 {
		return -x
	}
	return x
}

func ascii(u []uint16) string {
	b := make([]byte, len(u))
	for i, c := range u {
		b[i] = byte(c)
	}
	return string(b)
}

// StringToNumber is ToNumber on a string (9.3.1), the string given as UTF-16 code units.
func StringToNumber(u []uint16) float64 {
	u = TrimWS(u)
	if len(u) == 0 {
		return 0
	}
	// HexIntegerLiteral
	if len(u) > 2 && u[0] == '0' && (u[1] == 'x' || u[1] == 'X') {
		v := new(big.Int)
		for _, c := range u[2:] {
			h := hexVal(c)
			if h < 0 {
				return math.NaN()
			}
			v.Lsh(v, 4).Or(v, big.NewInt(int64(h)))
		}
		f, _ := new(big.Float).SetPrec(4096).SetInt(v).Float64()
		return f
	}
	neg := false
	rest := u
	if rest[0] == '+' || rest[0] == '-' {
		neg = rest[0] == '-'
		rest = rest[1:]
	}
	n := scanStrUnsignedDecimal(rest)
	if n == 0 || n != len(rest) {
		return math.NaN()
	}
	var f float64
	if rest[0] == 'I' {
		f = math.Inf(1)
	} else {
		f = decimalToFloat(ascii(rest))
	}
	if neg {
		f = -f
	}
	return f
}

// ParseFloat is the global parseFloat (15.1.2.3) on the ToString'ed argument.
func ParseFloat(u []uint16) float64 {
	i := 0
	for i < len(u) && IsStrWhiteSpaceChar(u[i]) {
		i++
	}
	u = u[i:]
	neg := false
	if len(u) > 0 && (u[0] == '+' || u[0] == '-') {
		neg = u[0] == '-'
		u = u[1:]
	}
	n := scanStrUnsignedDecimal(u)
	if n == 0 {
		return math.NaN()
	}
	var f float64
	if u[0] == 'I' {
		f = math.Inf(1)
	} else {
		f = decimalToFloat(ascii(u[:n]))
	}
	if neg {
		f = -f
	}
	return f
}

// ParseInt is the global parseInt (15.1.2.2). exact reports whether ES5 fixes the result
// uniquely (for radixes that are not powers of two and more than 20 significant digits an
// implementation may approximate).
func ParseInt(u []uint16, radix float64) (result float64, exact bool) {
	i := 0
	for i < len(u) && IsStrWhiteSpaceChar(u[i]) {
		i++
	}
	s := u[i:]
	sign := 1.0
	if len(s) > 0 && s[0] == '-' {
		sign = -1
	}
	if len(s) > 0 && (s[0] == '+' || s[0] == '-') {
		s = s[1:]
	}
	r := int(ToInt32(radix))
	strip := true
	if r != 0 {
		if r < 2 || r > 36 {
			return math.NaN(), true
		}
		if r != 16 {
			strip = false
		}
	} else {
		r = 10
	}
	if strip && len(s) >= 2 && s[0] == '0' && (s[1] == 'x' || s[1] == 'X') {
		s = s[2:]
		r = 16
	}
	v := new(big.Int)
	nd := 0
	sig := 0
	for _, c := range s {
		d := -1
		switch {
		case c >= '0' && c <= '9':
			d = int(c - '0')
		case c >= 'a' && c <= 'z':
			d = int(c-'a') + 10
		case c >= 'A' && c <= 'Z':
			d = int(c-'A') + 10
		}
		if d < 0 || d >= r {
			break
		}
		v.Mul(v, big.NewInt(int64(r))).Add(v, big.NewInt(int64(d)))
		nd++
		if sig > 0 || d != 0 {
			sig++
		}
	}
	if nd == 0 {
		return math.NaN(), true
	}
	exact = sig <= 20 || r == 2 || r == 4 || r == 8 || r == 16 || r == 32
	f, _ := new(big.Float).SetPrec(8192).SetInt(v).Float64()
	if f == 0 && sign < 0 {
		return math.Copysign(0, -1), exact
	}
	return sign * f, exact
}

// ---------------------------------------------------------------------------------------------
// 9.4–9.7 integer conversions

// ToInteger (9.4).
func ToInteger(x float64) float64 {
	if math.IsNaN(x) {
		return 0
	}
	if x == 0 || math.IsInf(x, 0) {
		return x
	}
	return math.Trunc(x)
}

func modPow2(x float64, bits uint) uint64 {
	if math.IsNaN(x) || math.IsInf(x, 0) || x == 0 {
		return 0
	}
	t := math.Trunc(x)
	bi, _ := new(big.Float).SetFloat64(t).Int(nil)
	m := new(big.Int).Lsh(big.NewInt(1), bits)
	bi.Mod(bi, m) // Euclidean: result in [0, m)
	return bi.Uint64()
}

// ToInt32 (9.5).
func ToInt32(x float64) int32 { return int32(uint32(modPow2(x, 32))) }

// ToUint32 (9.6).
func ToUint32(x float64) uint32 { return uint32(modPow2(x, 32)) }

// ToUint16 (9.7).
func ToUint16(x float64) uint16 { return uint16(modPow2(x, 16)) }

// ---------------------------------------------------------------------------------------------
// 9.8.1 ToString applied to the Number type

// ShortestDigits returns the digits s (no leading/trailing zeros unless the value is a single
// digit), their count k and the exponent n such that x = 0.s × 10^n … in the 9.8.1 sense:
// s × 10^(n−k) is x, k as small as possible. x must be finite and > 0.
// strconv's shortest formatting is used for speed; VerifyShortest (numtext.go) re-derives the
// same digits with exact rational arithmetic and is run over the generated inputs by C06.
func ShortestDigits(x float64) (digits string, n int) {
	s := strconv.FormatFloat(x, 'e', -1, 64) // d.ddddde±XX
	mant, exps, _ := strings.Cut(s, "e")
	e, _ := strconv.Atoi(exps)
	digits = strings.Replace(mant, ".", "", 1)
	digits = strings.TrimRight(digits, "0")
	if digits == "" {
		digits = "0"
	}
	return digits, e + 1
}

// NumberToString is ToString on a number (9.8.1).
func NumberToString(x float64) string {
	switch {
	case math.IsNaN(x):
		return "NaN"
	case x == 0:
		return "0"
	case x < 0:
		return "-" + NumberToString(-x)
	case math.IsInf(x, 1):
		return "Infinity"
	}
	s, n := ShortestDigits(x)
	k := len(s)
	switch {
	case k <= n && n <= 21:
		return s + strings.Repeat("0", n-k)
	case 0 < n && n <= 21:
		return s[:n] + "." + s[n:]
	case -6 < n && n <= 0:
		return "0." + strings.Repeat("0", -n) + s
	}
	e := n - 1
	sign := "+"
	if e < 0 {
		sign = "-"
		e = -e
	}
	if k == 1 {
		return s + "e" + sign + strconv.Itoa(e)
	}
	return s[:1] + "." + s[1:] + "e" + sign + strconv.Itoa(e)
}
