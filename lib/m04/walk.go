package m04

import (
	"fmt"
	"reflect"

	"github.com/robertkrimen/otto/ast"
)

type recorder struct {
	t        *Tree
	stack    []ast.Node
	entered  map[ast.Node]int
	issues   []Issue
	typedNil []string // static types of typed-nil nodes handed to Enter
	nilDepth int
}

func describe(n ast.Node) string {
	if n == nil {
		return "nil interface"
	}
	return reflect.TypeOf(n).String()
}

func (r *recorder) Enter(n ast.Node) ast.Visitor {
	if IsNilNode(n) {
		where := "the root"
		if len(r.stack) > 0 {
			top := r.stack[len(r.stack)-1]
			where = describe(top)
			if rn := r.t.ByNode[top]; rn != nil {
				where += " at " + rn.Path()
			}
		}
		r.typedNil = append(r.typedNil, describe(n))
		r.issues = append(r.issues, Issue{"walk-nil", where, describe(n), "Enter was handed a nil node (" + describe(n) + ") under " + where, nil})
		r.nilDepth++
		return r
	}
	rn := r.t.ByNode[n]
	if rn == nil {
		r.issues = append(r.issues, Issue{"walk-unknown", "?", describe(n), "Enter was handed a node that is not in the tree", nil})
	} else {
		r.entered[n]++
		if r.entered[n] == 2 {
			r.issues = append(r.issues, Issue{"walk-twice", rn.Path(), rn.Type, "node entered more than once", nil})
		}
		var top ast.Node
		if len(r.stack) > 0 {
			top = r.stack[len(r.stack)-1]
		}
		var want ast.Node
		if rn.Parent != nil {
			want = rn.Parent.Node
		}
		if top != want {
			r.issues = append(r.issues, Issue{"walk-parent", rn.Path(), rn.Type, fmt.Sprintf("entered while %s was open, its parent is %s", describe(top), describe(want)), nil})
		}
	}
	r.stack = append(r.stack, n)
	return r
}

func (r *recorder) Exit(n ast.Node) {
	if IsNilNode(n) {
		// the matching Enter was already reported; keep the stack consistent
		if r.nilDepth > 0 {
			r.nilDepth--
		} else {
			r.issues = append(r.issues, Issue{"walk-nil", "?", describe(n), "Exit was handed a nil node that was never entered", nil})
		}
		return
	}
	if len(r.stack) == 0 {
		r.issues = append(r.issues, Issue{"walk-nesting", "?", describe(n), "Exit without a matching Enter", nil})
		return
	}
	top := r.stack[len(r.stack)-1]
	if top != n {
		r.issues = append(r.issues, Issue{"walk-nesting", "?", describe(n), fmt.Sprintf("Exit(%s) while %s is the innermost open node", describe(n), describe(top)), nil})
		// resynchronise if n is open further down
		for i := len(r.stack) - 1; i >= 0; i-- {
			if r.stack[i] == n {
				r.stack = r.stack[:i]
				return
			}
		}
		return
	}
	r.stack = r.stack[:len(r.stack)-1]
}

// CheckWalk runs ast.Walk over the program with a recording visitor and compares the Enter/Exit
// stream with the reflective tree: every node of the tree entered exactly once and under its
// parent, nothing else entered, exits properly nested and complete, and neither a nil interface
// nor a typed nil pointer handed to the visitor. A panic inside Walk is reported as an issue.
func CheckWalk(prog *ast.Program, t *Tree) (issues []Issue) {
	r := &recorder{t: t, entered: map[ast.Node]int{}}
	func() {
		defer func() {
			if p := recover(); p != nil {
				r.issues = append(r.issues, Issue{"walk-panic", "?", "", fmt.Sprintf("ast.Walk panicked: %v", p), nil})
				r.stack = nil
			}
		}()
		ast.Walk(r, prog)
	}()
	if len(r.stack) != 0 {
		r.issues = append(r.issues, Issue{"walk-nesting", "?", "", fmt.Sprintf("%d nodes were entered and never exited", len(r.stack)), nil})
	}
	for _, rn := range t.Nodes {
		if r.entered[rn.Node] == 0 {
			r.issues = append(r.issues, Issue{"walk-missed", rn.Path(), rn.Type, "node was never handed to the visitor", nil})
			break // one is enough; descendants are missed with it
		}
	}
	return r.issues
}
