package m04

import (
	"fmt"
	"unicode/utf8"
)

// Lines splits a source text at the ES5 line terminators (7.3: LF, CR, CRLF as one, U+2028,
// U+2029) and returns the length of every line, without its terminator, in characters (Unicode
// code points as UTF-8 decodes them; a byte that is not valid UTF-8 counts as one character).
// A text without any terminator has one line; a text ending in a terminator has an empty last line.
func Lines(src string) []int {
	b := lineBytes(src)
	out := make([]int, len(b))
	for i, l := range b {
		out[i] = utf8.RuneCountInString(l)
	}
	return out
}

func lineBytes(src string) []string {
	var lens []string
	start := 0
	for i := 0; i < len(src); {
		c := src[i]
		switch {
		case c == '\n':
			lens = append(lens, src[start:i])
			i++
			start = i
		case c == '\r':
			lens = append(lens, src[start:i])
			i++
			if i < len(src) && src[i] == '\n' {
				i++
			}
			start = i
		case c < utf8.RuneSelf:
			i++
		default:
			r, sz := utf8.DecodeRuneInString(src[i:])
			if r == 0x2028 || r == 0x2029 {
				lens = append(lens, src[start:i])
				start = i + sz
			}
			i += sz
		}
	}
	return append(lens, src[start:])
}

// CheckPosition verifies that (line, column) lies inside the text: 1 <= line <= lines+1 and
// 1 <= column <= length of that line + 1. Columns are 1-based CHARACTER columns - the unit
// file.Position documents ("The character count") and parser.position() computes (number of
// UTF-8 sequences since the last line terminator, plus one).
// The line after the last one (lines+1) is granted column 1 only. (A position between the CR and
// the LF of a CRLF pair is, in otto's arithmetic, column 1 of the next line, which is inside.)
func CheckPosition(src string, line, col int) string {
	return CheckPositionIn(Lines(src), line, col)
}

// CheckPositionIn is CheckPosition with the line table computed once (an input may come with
// tens of thousands of errors; building the table per error made the check quadratic).
func CheckPositionIn(lens []int, line, col int) string {
	if line < 1 || line > len(lens)+1 {
		return fmt.Sprintf("line %d is outside 1..%d (the text has %d lines)", line, len(lens)+1, len(lens))
	}
	if line == len(lens)+1 {
		if col != 1 {
			return fmt.Sprintf("column %d on the line after the last one", col)
		}
		return ""
	}
	if col < 1 || col > lens[line-1]+1 {
		return fmt.Sprintf("column %d is outside 1..%d (line %d is %d characters long)", col, lens[line-1]+1, line, lens[line-1])
	}
	return ""
}
