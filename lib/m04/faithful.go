package m04

import (
	"fmt"
	"strconv"
	"strings"

	"github.com/robertkrimen/otto/ast"

	"verif/lib/es5"
	"verif/lib/m03"
	"verif/lib/minijs"
)

// OTok is one token of the text that denotes the tree otto built: the tree is mapped to a minijs
// tree (lib/m03) and rendered with minimal parentheses and every semicolon explicit.
type OTok struct {
	Text   string
	Paren  bool   // grouping parenthesis the renderer needs for the text to denote this tree
	Semi   bool   // statement-terminating semicolon (automatic semicolon insertion may supply it)
	SemiOf string // statement kind a Semi token terminates
	IsKey  bool   // a property key: otto keeps only its string value (Text), not its lexical form
	IsStr  bool   // a string literal: Text is the source spelling otto recorded
}

const (
	keyMark = "\x00K"
	strMark = "\x00S"
)

// OttoTokens renders otto's tree to tokens. tree is the converted tree before the placeholder
// substitution (usable with minijs.Validate). err != nil: the tree contains Bad* nodes or shapes
// that no ES5 text denotes.
func OttoTokens(prog *ast.Program) (toks []OTok, tree *minijs.Node, err error) {
	tree, err = m03.FromOtto(prog)
	if err != nil {
		return nil, tree, err
	}
	// work on a copy: keys and strings become placeholder identifiers, so that the renderer's
	// choice of escapes / quotes cannot differ from the source
	var table []string
	var clone func(n *minijs.Node, key bool) *minijs.Node
	clone = func(n *minijs.Node, key bool) *minijs.Node {
		if n == nil {
			return nil
		}
		if n.K == "str" {
			mark := strMark
			val := n.Lit
			if key {
				mark = keyMark
				u := minijs.StrUnits(n, minijs.DumpOpts{})
				val = unitsToString(u)
			}
			table = append(table, val)
			return &minijs.Node{K: "id", Name: mark + strconv.Itoa(len(table)-1)}
		}
		c := *n
		c.Kids = make([]*minijs.Node, len(n.Kids))
		for i, k := range n.Kids {
			c.Kids[i] = clone(k, n.K == "prop" && i == 0)
		}
		return &c
	}
	marked := clone(tree, false)
	defer func() {
		if p := recover(); p != nil {
			err = fmt.Errorf("the renderer cannot write otto's tree: %v", p)
		}
	}()
	for _, t := range minijs.Tokens(marked, nil) {
		o := OTok{Text: t.Text, Paren: t.Paren, Semi: t.Semi, SemiOf: t.SemiOf}
		switch {
		case strings.HasPrefix(t.Text, keyMark):
			i, _ := strconv.Atoi(t.Text[len(keyMark):])
			o.Text, o.IsKey = table[i], true
		case strings.HasPrefix(t.Text, strMark):
			i, _ := strconv.Atoi(t.Text[len(strMark):])
			o.Text, o.IsStr = table[i], true
		}
		toks = append(toks, o)
	}
	return toks, tree, nil
}

func unitsToString(u []uint16) string {
	var b strings.Builder
	for i := 0; i < len(u); i++ {
		c := rune(u[i])
		switch {
		case c >= 0xD800 && c < 0xDC00 && i+1 < len(u) && u[i+1] >= 0xDC00 && u[i+1] < 0xE000:
			b.WriteRune(0x10000 + (c-0xD800)<<10 + (rune(u[i+1]) - 0xDC00))
			i++
		case c >= 0xD800 && c < 0xE000:
			b.WriteRune(0xFFFD)
		default:
			b.WriteRune(c)
		}
	}
	return b.String()
}

// DecodeIdent replaces \uXXXX escapes in an IdentifierName spelling.
func DecodeIdent(s string) string {
	if !strings.Contains(s, "\\u") {
		return s
	}
	var b strings.Builder
	for i := 0; i < len(s); {
		if s[i] == '\\' && i+6 <= len(s) && s[i+1] == 'u' {
			if v, err := strconv.ParseUint(s[i+2:i+6], 16, 32); err == nil {
				b.WriteRune(rune(v))
				i += 6
				continue
			}
		}
		b.WriteByte(s[i])
		i++
	}
	return b.String()
}

func identLike(k minijs.TokKind) bool { return k == minijs.TIdent || k == minijs.TKeyword }

func tokEq(m minijs.Token, o OTok) bool {
	switch {
	case o.IsKey:
		switch m.Kind {
		case minijs.TIdent, minijs.TKeyword:
			return DecodeIdent(m.Text) == o.Text
		case minijs.TStr:
			// values of string keys are C03's subject: compare when the spelling has no escape,
			// otherwise only insist that a key stands here
			if strings.Contains(m.Text, "\\") {
				return true
			}
			u, ok := minijs.DecodeStringLiteral(m.Text)
			return ok && unitsToString(u) == o.Text
		case minijs.TNum:
			if m.Text == o.Text {
				return true
			}
			v, err := minijs.NumValue(m.Text)
			return err == nil && es5.NumberToString(v) == o.Text
		}
		return false
	case o.IsStr:
		return m.Kind == minijs.TStr && m.Text == o.Text
	case m.Kind == minijs.TStr:
		return false
	case identLike(m.Kind):
		return DecodeIdent(m.Text) == o.Text
	}
	return m.Text == o.Text
}

// Alignment is the verdict of Align.
type Alignment struct {
	OK           bool
	Detail       string   // why not
	Inconclusive bool     // a mismatch in a text whose tokenisation depends on the parse ("/" tokens)
	Tolerated    []string // known-finding tolerances that were needed
	ASI          int      // semicolons supplied by automatic insertion
	ExtraParens  int      // redundant parentheses of the text
	TrailingComma int
}

// HasSlash reports tokens whose reading depends on the syntactic context: "/" and "/=" may open a
// regular expression literal, and a regular expression literal may be read as divisions.
func HasSlash(toks []minijs.Token) bool {
	for _, t := range toks {
		if t.Kind == minijs.TRegex || (t.Kind == minijs.TPunct && (t.Text == "/" || t.Text == "/=")) {
			return true
		}
	}
	return false
}

// Balanced checks the brackets of a token list (strings, regular expressions and comments are
// single tokens, so this is exact): a necessary condition of every ES5 Program.
func Balanced(toks []minijs.Token) string {
	var st []string
	closer := map[string]string{")": "(", "]": "[", "}": "{"}
	for i, t := range toks {
		if t.Kind != minijs.TPunct {
			continue
		}
		switch t.Text {
		case "(", "[", "{":
			st = append(st, t.Text)
		case ")", "]", "}":
			if len(st) == 0 || st[len(st)-1] != closer[t.Text] {
				return fmt.Sprintf("token %d %q closes nothing", i, t.Text)
			}
			st = st[:len(st)-1]
		}
	}
	if len(st) > 0 {
		return fmt.Sprintf("%d brackets are never closed (innermost %q)", len(st), st[len(st)-1])
	}
	return ""
}

// Align compares the token sequence a text was laid out from (mut: canonical layout, no line
// terminators between tokens) with the tokens of the tree otto built from it (ot). They must be
// equal except that
//   - grouping parentheses are ignored on both sides (the text may have redundant ones, and the
//     place where a required one stands is not unique); parentheses of calls, argument lists,
//     parameter lists and statement heads are compared, empty groups "( )" are not tolerated and
//     the brackets of the text must balance (Balanced);
//   - a statement-terminating semicolon may be missing in front of "}" and at the end of the input
//     (ES5 7.9.1; there is no line terminator in a canonical text), and after the ")" of do-while
//     (accepted by every implementation, made official by ES2015; see ASSUMPTIONS.txt);
//   - the text may have a trailing comma in front of "]" / "}" of an array / object literal;
//   - property keys are compared by value (otto's tree does not keep their lexical form).
//
// known(id) switches on the tolerance of a recorded finding.
func Align(mut []minijs.Token, ot []OTok, known func(string) bool) Alignment {
	var a Alignment
	n, m := len(mut), len(ot)
	plain := func(j int) bool { return !ot[j].IsKey && !ot[j].IsStr }
	// which structural ")" of the tree closes a parameter list (as opposed to arguments / heads)
	closesParams := make([]bool, m)
	{
		var stack []bool
		for j := 0; j < m; j++ {
			if !plain(j) || ot[j].Paren {
				continue
			}
			switch ot[j].Text {
			case "(":
				params := false
				if j > 0 {
					p := ot[j-1]
					// the keyword, not the IdentifierName behind a dot: "x.function(a,)" is a call
					keyword := func(k int) bool {
						return k >= 0 && ot[k].Text == "function" && !ot[k].IsKey && !ot[k].IsStr && !(k > 0 && ot[k-1].Text == "." && !ot[k-1].IsKey && !ot[k-1].IsStr)
					}
					switch {
					case keyword(j - 1):
						params = true
					case keyword(j-2) && !(p.Text == "." && !p.IsKey && !p.IsStr):
						params = true
					case p.IsKey && j > 1 && (ot[j-2].Text == "get" || ot[j-2].Text == "set") && !ot[j-2].IsKey:
						params = true
					}
				}
				stack = append(stack, params)
			case ")":
				if len(stack) > 0 {
					closesParams[j] = stack[len(stack)-1]
					stack = stack[:len(stack)-1]
				}
			}
		}
	}
	isP := func(i int, text string) bool { return i < n && mut[i].Kind == minijs.TPunct && mut[i].Text == text }
	type step struct {
		di, dj int
		note   string // "asi", "paren", "comma", or a finding id
	}
	dead := make(map[[2]int]bool)
	bestI, bestJ := 0, 0
	wouldTolerate := ""
	var path []step
	var walk func(i, j int) bool
	walk = func(i, j int) bool {
		if i == n && j == m {
			return true
		}
		key := [2]int{i, j}
		if dead[key] {
			return false
		}
		if i+j > bestI+bestJ {
			bestI, bestJ = i, j
		}
		try := func(di, dj int, note string) bool {
			path = append(path, step{di, dj, note})
			if walk(i+di, j+dj) {
				return true
			}
			path = path[:len(path)-1]
			return false
		}
		if i < n && j < m && tokEq(mut[i], ot[j]) && try(1, 1, "") {
			return true
		}
		// a token that is no PropertyName where the tree has the key "" (finding)
		if i < n && j < m && ot[j].IsKey && ot[j].Text == "" && (mut[i].Kind == minijs.TPunct || mut[i].Kind == minijs.TRegex) {
			if known("C04-OBJLIT-ANY-TOKEN-KEY") {
				if try(1, 1, "C04-OBJLIT-ANY-TOKEN-KEY") {
					return true
				}
			} else if wouldTolerate == "" {
				wouldTolerate = "C04-OBJLIT-ANY-TOKEN-KEY"
			}
		}
		// grouping parentheses: ignored on both sides, except that an empty pair "( )" of the text
		// must be a structural one
		if (isP(i, "(") && !isP(i+1, ")")) || isP(i, ")") {
			if try(1, 0, "paren") {
				return true
			}
		}
		if j < m && ot[j].Paren && try(0, 1, "") {
			return true
		}
		// a semicolon automatic insertion supplies
		if j < m && ot[j].Semi && (i >= n || isP(i, "}") || ot[j].SemiOf == "dowhile") && try(0, 1, "asi") {
			return true
		}
		// trailing comma of an array / object literal; of a parameter / argument list (findings)
		if isP(i, ",") && i+1 < n && j < m && plain(j) && !ot[j].Paren && mut[i+1].Kind == minijs.TPunct && mut[i+1].Text == ot[j].Text {
			switch ot[j].Text {
			case "]", "}":
				if try(1, 0, "comma") {
					return true
				}
			case ")":
				id := "C04-ARG-TRAILING-COMMA"
				if closesParams[j] {
					id = "C04-PARAM-TRAILING-COMMA"
				}
				if known(id) {
					if try(1, 0, id) {
						return true
					}
				} else if wouldTolerate == "" {
					wouldTolerate = id
				}
			}
		}
		// two properties without a comma between them (finding)
		if j+1 < m && ot[j].Text == "," && plain(j) && (ot[j+1].IsKey || ((ot[j+1].Text == "get" || ot[j+1].Text == "set") && j+2 < m && ot[j+2].IsKey)) {
			if known("C04-OBJLIT-MISSING-COMMA") {
				if try(0, 1, "C04-OBJLIT-MISSING-COMMA") {
					return true
				}
			} else if wouldTolerate == "" && !isP(i, ",") {
				wouldTolerate = "C04-OBJLIT-MISSING-COMMA"
			}
		}
		dead[key] = true
		return false
	}
	if walk(0, 0) {
		a.OK = true
		for _, st := range path {
			switch st.note {
			case "":
			case "asi":
				a.ASI++
			case "paren":
				a.ExtraParens++
			case "comma":
				a.TrailingComma++
			default:
				a.Tolerated = append(a.Tolerated, st.note)
			}
		}
		return a
	}
	ctx := func(lo, hi, at int, f func(int) string) string {
		var p []string
		for k := max(0, lo); k < hi; k++ {
			if k == at {
				p = append(p, ">>"+f(k)+"<<")
			} else {
				p = append(p, f(k))
			}
		}
		return strings.Join(p, " ")
	}
	why := "token sequences differ"
	switch {
	case bestI >= n:
		why = "the tree has tokens the text does not have"
	case bestJ >= m:
		why = "the text has tokens the tree does not have"
	}
	if wouldTolerate != "" {
		why += " (the class of " + wouldTolerate + ")"
	}
	a.Detail = fmt.Sprintf("%s: text token %d of %d [%s] vs tree token %d of %d [%s]", why, bestI, n,
		ctx(bestI-5, min(n, bestI+4), bestI, func(k int) string { return mut[k].Text }), bestJ, m,
		ctx(bestJ-5, min(m, bestJ+4), bestJ, func(k int) string { return ot[k].Text }))
	a.Inconclusive = HasSlash(mut)
	return a
}

// RegexFlagsOK checks ES5 15.10.4.1: flags are drawn from g, i, m without repetition.
func RegexFlagsOK(flags string) bool {
	seen := map[rune]bool{}
	for _, r := range flags {
		if (r != 'g' && r != 'i' && r != 'm') || seen[r] {
			return false
		}
		seen[r] = true
	}
	return true
}

// BadRegexFlags returns the first regular expression literal of the tree with invalid flags.
func BadRegexFlags(tree *minijs.Node) string {
	bad := ""
	minijs.Walk(tree, func(n *minijs.Node) {
		if bad == "" && n.K == "regex" && !RegexFlagsOK(n.Op) {
			bad = "/" + n.Lit + "/" + n.Op
		}
	})
	return bad
}
