package m04

import (
	"fmt"

	"verif/lib/minijs"
)

// Mutation is one single-token edit of a syntactic token list.
type Mutation struct {
	Op  string `json:"op"`  // none | delete | insert | duplicate | swap | swapfar
	I   int    `json:"i"`   // position (reduced modulo the admissible range)
	J   int    `json:"j"`   // second position for swapfar
	Ins int    `json:"ins"` // index into InsertPool for insert
}

// Scramble spreads a small-biased generator draw (rapid prefers small integers) evenly; 0 stays 0,
// so a shrunk case still points at the first position.
func Scramble(x int) int {
	return int((uint32(x) * 2654435761) >> 9)
}

// MutationOps lists the edit kinds.
var MutationOps = []string{"none", "delete", "insert", "duplicate", "swap", "swapfar"}

func tk(k minijs.TokKind, text string) minijs.Token { return minijs.Token{Kind: k, Text: text} }

// InsertPool is the vocabulary of inserted tokens: every ES5 punctuator, every keyword and
// reserved word class, identifiers, and one literal of each kind.
var InsertPool = func() []minijs.Token {
	var out []minijs.Token
	for _, p := range []string{"{", "}", "(", ")", "[", "]", ".", ";", ",", "<", ">", "<=", ">=", "==", "!=", "===", "!==", "+", "-", "*", "%",
		"++", "--", "<<", ">>", ">>>", "&", "|", "^", "!", "~", "&&", "||", "?", ":", "=", "+=", "-=", "*=", "%=", "<<=", ">>=", ">>>=", "&=", "|=", "^=", "/", "/="} {
		out = append(out, tk(minijs.TPunct, p))
	}
	for _, k := range []string{"break", "case", "catch", "continue", "debugger", "default", "delete", "do", "else", "finally", "for", "function",
		"if", "in", "instanceof", "new", "return", "switch", "this", "throw", "try", "typeof", "var", "void", "while", "with",
		"class", "enum", "super", "null", "true", "false"} {
		out = append(out, tk(minijs.TKeyword, k))
	}
	for _, id := range []string{"a", "x", "get", "set", "L", "of", "let", "yield", "g", "i", "\\u0069f", "\\u0074his", "v\\u0061r", "cl\\u0061ss", "\\u0061"} {
		out = append(out, tk(minijs.TIdent, id))
	}
	out = append(out, tk(minijs.TNum, "1"), tk(minijs.TNum, ".5"), tk(minijs.TNum, "0x1f"), tk(minijs.TStr, "\"s\""), tk(minijs.TStr, "'t'"), tk(minijs.TRegex, "/r/g"))
	return out
}()

// Mutate applies m to a copy of toks (syntactic tokens, no trivia) and describes the edit.
// Flags that no longer describe the token's role (Semi, Paren, NoLTBefore ...) are cleared on
// the tokens that were inserted, duplicated or moved; the comparison in faithful.go never
// relies on the flags of the mutant side.
func Mutate(toks []minijs.Token, m Mutation) (out []minijs.Token, what string) {
	n := len(toks)
	out = append([]minijs.Token(nil), toks...)
	plain := func(t minijs.Token) minijs.Token { return minijs.Token{Kind: t.Kind, Text: t.Text} }
	mod := func(x, m int) int {
		if m <= 0 {
			return 0
		}
		x %= m
		if x < 0 {
			x += m
		}
		return x
	}
	switch m.Op {
	case "delete":
		if n == 0 {
			return out, "none (empty)"
		}
		i := mod(m.I, n)
		what = fmt.Sprintf("delete token %d %q", i, toks[i].Text)
		out = append(out[:i], out[i+1:]...)
	case "insert":
		i := mod(m.I, n+1)
		t := InsertPool[mod(m.Ins, len(InsertPool))]
		what = fmt.Sprintf("insert %q before token %d", t.Text, i)
		out = append(out[:i], append([]minijs.Token{t}, out[i:]...)...)
	case "duplicate":
		if n == 0 {
			return out, "none (empty)"
		}
		i := mod(m.I, n)
		what = fmt.Sprintf("duplicate token %d %q", i, toks[i].Text)
		out = append(out[:i+1], append([]minijs.Token{plain(toks[i])}, out[i+1:]...)...)
	case "swap":
		if n < 2 {
			return out, "none (too short)"
		}
		i := mod(m.I, n-1)
		what = fmt.Sprintf("swap tokens %d %q and %d %q", i, toks[i].Text, i+1, toks[i+1].Text)
		out[i], out[i+1] = plain(toks[i+1]), plain(toks[i])
	case "swapfar":
		if n < 2 {
			return out, "none (too short)"
		}
		i, j := mod(m.I, n), mod(m.J, n)
		what = fmt.Sprintf("swap tokens %d %q and %d %q", i, toks[i].Text, j, toks[j].Text)
		out[i], out[j] = plain(toks[j]), plain(toks[i])
	default:
		what = "none"
	}
	return out, what
}

// SameTokens reports whether two token lists have the same kinds and texts.
func SameTokens(a, b []minijs.Token) bool {
	if len(a) != len(b) {
		return false
	}
	for i := range a {
		if a[i].Text != b[i].Text {
			return false
		}
	}
	return true
}

// Canonical lays a token list out with the separators the lexical grammar needs and nothing
// else: no line terminator, no comment, every semicolon kept. With such a text automatic
// semicolon insertion can only happen in front of "}" and at the end of the input (ES5 7.9.1).
func Canonical(toks []minijs.Token) ([]minijs.Token, string) {
	clean := make([]minijs.Token, len(toks))
	for i, t := range toks {
		clean[i] = t
		clean[i].Omitted = false
	}
	laid := minijs.Layout(clean, minijs.LayoutOpts{NoASI: true})
	return laid, minijs.Text(laid)
}
