package m04

import (
	"fmt"
	"strings"
)

// An own recogniser of the ES5 pattern grammar (15.10.1) with the early errors of 15.10.2.5
// (quantifier {n,m} with n > m), 15.10.2.15 (class range out of order) and the structural ones
// (unknown "(?" group form, nothing to repeat, unbalanced parentheses, unterminated class).
//
// strict == true is the literal ES5.1 text (PatternCharacter excludes ^ $ \ . * + ? ( ) [ ] { } |,
// IdentityEscape excludes IdentifierPart, \c needs a letter, \x and \u need their digits, a class
// escape cannot bound a range, back references must name an existing group).
// strict == false additionally accepts what every web engine accepts ("{" "}" "]" as literals when
// they do not form a quantifier, any identity escape, class escapes next to "-", quantified
// look-aheads, back references to missing groups); everything it rejects is rejected by ES5 and by
// every engine, so it is safe as an oracle for "this literal must be a SyntaxError".

type rePat struct {
	s       []rune
	i       int
	strict  bool
	groups  int
	maxBack int
	err     string
}

func (p *rePat) fail(format string, a ...interface{}) {
	if p.err == "" {
		p.err = fmt.Sprintf(format, a...) + fmt.Sprintf(" at %d", p.i)
	}
	p.i = len(p.s)
}

func (p *rePat) peek(k int) rune {
	if p.i+k < len(p.s) {
		return p.s[p.i+k]
	}
	return -1
}

// ES5Pattern returns nil when body is a Pattern of ES5 15.10.1 (see strict above).
func ES5Pattern(body string, strict bool) error {
	p := &rePat{s: []rune(body), strict: strict}
	p.disjunction()
	if p.err == "" && p.i < len(p.s) {
		p.fail("unmatched %q", string(p.s[p.i]))
	}
	if p.err == "" && strict && p.maxBack > p.groups {
		p.err = fmt.Sprintf("back reference \\%d but only %d groups", p.maxBack, p.groups)
	}
	if p.err != "" {
		return fmt.Errorf("%s", p.err)
	}
	return nil
}

func (p *rePat) disjunction() {
	p.alternative()
	for p.peek(0) == '|' {
		p.i++
		p.alternative()
	}
}

func (p *rePat) alternative() {
	for p.i < len(p.s) && p.s[p.i] != '|' && p.s[p.i] != ')' {
		p.term()
	}
}

func isDigit(r rune) bool { return r >= '0' && r <= '9' }
func isHex(r rune) bool {
	return isDigit(r) || r >= 'a' && r <= 'f' || r >= 'A' && r <= 'F'
}
func isLetter(r rune) bool { return r >= 'a' && r <= 'z' || r >= 'A' && r <= 'Z' }

// braceQuantifier reports whether a well-formed {n} {n,} {n,m} starts at offset k from p.i and
// returns its length and bounds.
func (p *rePat) braceQuantifier() (length, lo, hi int, ok bool) {
	if p.peek(0) != '{' {
		return 0, 0, 0, false
	}
	k := 1
	num := func() (int, bool) {
		start, v := k, 0
		for isDigit(p.peek(k)) {
			if v < 1<<28 {
				v = v*10 + int(p.peek(k)-'0')
			}
			k++
		}
		return v, k > start
	}
	lo, okLo := num()
	if !okLo {
		return 0, 0, 0, false
	}
	hi = lo
	if p.peek(k) == ',' {
		k++
		if h, okHi := num(); okHi {
			hi = h
		} else {
			hi = 1 << 30
		}
	}
	if p.peek(k) != '}' {
		return 0, 0, 0, false
	}
	return k + 1, lo, hi, true
}

func (p *rePat) term() {
	atom := false // may a quantifier follow?
	switch c := p.s[p.i]; c {
	case '^', '$':
		p.i++
	case '\\':
		if n := p.peek(1); n == 'b' || n == 'B' {
			p.i += 2
		} else {
			p.i++
			p.escape(false)
			atom = true
		}
	case '(':
		if p.peek(1) == '?' {
			switch p.peek(2) {
			case ':':
				p.i += 3
				atom = true
			case '=', '!':
				p.i += 3
				atom = !p.strict // Term :: Assertion has no quantifier in ES5
			default:
				p.fail("invalid group (? followed by %q", string(p.peek(2)))
				return
			}
		} else {
			p.i++
			p.groups++
			atom = true
		}
		p.disjunction()
		if p.peek(0) != ')' {
			p.fail("unterminated group")
			return
		}
		p.i++
	case '[':
		p.class()
		atom = true
	case '*', '+', '?':
		p.fail("nothing to repeat")
		return
	case '{':
		if _, _, _, ok := p.braceQuantifier(); ok {
			p.fail("nothing to repeat")
			return
		}
		if p.strict {
			p.fail("\"{\" is not a PatternCharacter")
			return
		}
		p.i++
		atom = true
	case ']', '}':
		if p.strict {
			p.fail("%q is not a PatternCharacter", string(c))
			return
		}
		p.i++
		atom = true
	default:
		p.i++
		atom = true
	}
	if p.err != "" {
		return
	}
	quantified := false
	switch p.peek(0) {
	case '*', '+', '?':
		p.i++
		quantified = true
	case '{':
		if n, lo, hi, ok := p.braceQuantifier(); ok {
			if lo > hi {
				p.fail("numbers out of order in {%d,%d}", lo, hi)
				return
			}
			p.i += n
			quantified = true
		}
	}
	if quantified {
		if !atom {
			p.i--
			p.fail("an assertion cannot be quantified")
			return
		}
		if p.peek(0) == '?' {
			p.i++
		}
	}
}

// escape parses what follows a backslash; it returns the character value, or -1 for a class
// escape (\d \s \w ...) / back reference.
func (p *rePat) escape(inClass bool) rune {
	if p.i >= len(p.s) {
		p.fail("\\ at the end of the pattern")
		return -1
	}
	c := p.s[p.i]
	p.i++
	switch {
	case isDigit(c):
		if c == '0' && !isDigit(p.peek(0)) {
			return 0
		}
		v := int(c - '0')
		for isDigit(p.peek(0)) {
			if v < 1<<20 {
				v = v*10 + int(p.peek(0)-'0')
			}
			p.i++
		}
		if inClass {
			if p.strict {
				p.fail("decimal escape \\%d in a class", v)
			}
			return rune(v)
		}
		if v > p.maxBack {
			p.maxBack = v
		}
		return -1
	case strings.ContainsRune("dDsSwW", c):
		return -1
	case c == 'b' && inClass:
		return 8
	case c == 'f':
		return 12
	case c == 'n':
		return 10
	case c == 'r':
		return 13
	case c == 't':
		return 9
	case c == 'v':
		return 11
	case c == 'c':
		if isLetter(p.peek(0)) {
			v := p.peek(0) % 32
			p.i++
			return v
		}
		if p.strict {
			p.fail("\\c without a letter")
		}
		return '\\'
	case c == 'x' || c == 'u':
		n := 2
		if c == 'u' {
			n = 4
		}
		v := rune(0)
		for k := 0; k < n; k++ {
			if !isHex(p.peek(k)) {
				if p.strict {
					p.fail("\\%c without %d hexadecimal digits", c, n)
				}
				return c
			}
		}
		for k := 0; k < n; k++ {
			d := p.peek(0)
			switch {
			case isDigit(d):
				v = v*16 + d - '0'
			case d >= 'a':
				v = v*16 + d - 'a' + 10
			default:
				v = v*16 + d - 'A' + 10
			}
			p.i++
		}
		return v
	}
	if p.strict && (isLetter(c) || c == '_' || c == '$' || c >= 0x80 && c != 0x200c && c != 0x200d) {
		p.fail("identity escape of the identifier character %q", string(c))
	}
	return c
}

func (p *rePat) class() {
	p.i++ // [
	if p.peek(0) == '^' {
		p.i++
	}
	atom := func() (rune, bool) {
		if p.peek(0) == '\\' {
			p.i++
			v := p.escape(true)
			return v, p.err == ""
		}
		v := p.s[p.i]
		p.i++
		return v, true
	}
	for {
		if p.i >= len(p.s) {
			p.fail("unterminated character class")
			return
		}
		if p.s[p.i] == ']' {
			p.i++
			return
		}
		lo, ok := atom()
		if !ok {
			return
		}
		if p.peek(0) == '-' && p.peek(1) != ']' && p.peek(1) != -1 {
			p.i++
			hi, ok := atom()
			if !ok {
				return
			}
			switch {
			case lo == -1 || hi == -1:
				if p.strict {
					p.fail("a class escape bounds a range")
					return
				}
			case lo > hi:
				p.fail("class range out of order")
				return
			}
		}
	}
}

// ---- invalid patterns by construction ---------------------------------------------------------------

// reDefects are pieces that make every pattern containing them invalid (for the lenient
// recogniser as well), wherever they stand: unknown group forms (the forms re2 / later editions
// know), quantifier errors, class ranges out of order, parentheses that cannot balance.
var reDefects = []string{
	"(?i)", "(?i)a", "(?i:a)", "(?s:.)", "(?P<n>y)", "(?<n>y)", "(?U)a+", "(?-i)a", "(?m)^a", "(?#c)", "(?>a)", "(?<=a)b", "(?<!a)b", "(?'n'a)", "(?|a)", "(?)", "(?a)", "(?im-s:a)", "(?P=n)", "(?^a)",
	"a**", "a+*", "a?+b", "a{2,1}", "b{10,9}?", "x{1}{2}", "a*{2}", "(?:*a)", "(+)", "(|?a)", "(?:a|*)", "(a|{2}b)",
	"[b-a]", "[z-a0]", "[^9-0]", "[\\x62-\\x61]",
	"(a", "(?:b", "a)", "(()", "((a)|b",
	"^*", "$+", "\\b{2}", "\\B?", "a|^{1,2}",
}

var reAtoms = []string{"a", "b", "\\d", "[a-z]", ".", "x+", "(?:y)", "(z)", "\\.", "[^b]", "q{1,2}", "\\w*?", "[\\]/]", "\\/"}

type smallRand struct{ x uint64 }

func (r *smallRand) n(n int) int {
	r.x += 0x9e3779b97f4a7c15
	z := r.x
	z = (z ^ (z >> 30)) * 0xbf58476d1ce4e5b9
	z = (z ^ (z >> 27)) * 0x94d049bb133111eb
	z ^= z >> 31
	return int(z % uint64(n))
}

// NestedBadRegex builds an invalid regular expression body: one defect wrapped depth times
// (0..3) in capturing / non-capturing groups, alternations and quantified groups, with valid
// atoms around it. Every choice is a function of seed (a generator draw). The result never
// contains "/" outside a class or escape, white space or a line terminator, so "/"+body+"/" is
// one RegularExpressionLiteral token.
func NestedBadRegex(seed int) (body string, depth int, defect string) {
	r := &smallRand{x: uint64(seed)*2654435761 + 12345}
	defect = reDefects[r.n(len(reDefects))]
	depth = r.n(4)
	atom := func() string { return reAtoms[r.n(len(reAtoms))] }
	maybe := func() string {
		if r.n(2) == 0 {
			return ""
		}
		return atom()
	}
	body = maybe() + defect + maybe()
	for d := 0; d < depth; d++ {
		q := []string{"", "", "*", "+", "?", "{2}", "{1,3}?", "+?"}[r.n(8)]
		switch r.n(7) {
		case 0:
			body = "(" + body + ")" + q
		case 1:
			body = "(?:" + body + ")" + q
		case 2:
			body = "(" + atom() + "|" + body + ")" + q
		case 3:
			body = "(?:" + body + "|" + atom() + ")" + q
		case 4:
			body = atom() + "(" + body + ")" + q + atom()
		case 5:
			body = "(?:" + atom() + "(" + body + "))" + q
		default:
			body = "((" + body + ")" + q + "|" + atom() + ")"
		}
	}
	if r.n(3) == 0 {
		body = atom() + "|" + body
	}
	return body, depth, defect
}
