package m04

import (
	"fmt"

	"github.com/robertkrimen/otto/ast"
)

// Span is what a node's Idx0/Idx1 methods answered.
type Span struct {
	I0, I1 int
	Panic  string // non-empty: Idx0 or Idx1 panicked
}

// Issue is one violated expectation about a node.
type Issue struct {
	Kind string // "span-panic", "span-order", "span-file", "span-parent", "walk-..."
	Path string
	Type string
	Msg  string
	At   *RNode // the node concerned (nil when there is none)
}

func (i Issue) String() string { return fmt.Sprintf("%s at %s (%s): %s", i.Kind, i.Path, i.Type, i.Msg) }

func spanOf(n ast.Node) (s Span) {
	defer func() {
		if p := recover(); p != nil {
			s.Panic = fmt.Sprint(p)
		}
	}()
	s.I0 = int(n.Idx0())
	s.I1 = int(n.Idx1())
	return s
}

// CheckSpans asks every node of the tree for its span (ast/node.go: Idx0 = index of the first
// character of the node, Idx1 = index of the first character after it; indexes are base + byte
// offset) and checks: no panic; base <= Idx0 <= Idx1 <= base+srcLen; the span lies within the
// span of the parent node. Parentheses are not nodes in otto's ast and are outside the span of
// the expression they enclose; that is compatible with containment because every parent span is
// derived from its children or from its own keyword / bracket positions.
func CheckSpans(t *Tree, base, srcLen int) []Issue {
	var out []Issue
	spans := make(map[*RNode]Span, len(t.Nodes))
	for _, rn := range t.Nodes { // pre-order: a parent is computed before its children
		s := spanOf(rn.Node)
		spans[rn] = s
		if s.Panic != "" {
			out = append(out, Issue{"span-panic", rn.Path(), rn.Type, "Idx0/Idx1 panicked: " + s.Panic, rn})
			continue
		}
		if s.I0 > s.I1 {
			out = append(out, Issue{"span-order", rn.Path(), rn.Type, fmt.Sprintf("Idx0=%d > Idx1=%d", s.I0, s.I1), rn})
			continue
		}
		if s.I0 < base || s.I1 > base+srcLen {
			out = append(out, Issue{"span-file", rn.Path(), rn.Type, fmt.Sprintf("span [%d,%d) outside the file [%d,%d]", s.I0, s.I1, base, base+srcLen), rn})
			continue
		}
		if p := rn.Parent; p != nil {
			ps, ok := spans[p]
			if ok && ps.Panic == "" && ps.I0 <= ps.I1 && (s.I0 < ps.I0 || s.I1 > ps.I1) {
				out = append(out, Issue{"span-parent", rn.Path(), rn.Type, fmt.Sprintf("span [%d,%d) not within the span [%d,%d) of its parent %s", s.I0, s.I1, ps.I0, ps.I1, p.Type), rn})
			}
		}
	}
	return out
}
