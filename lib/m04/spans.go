package m04

import (
	"fmt"
	"strconv"
	"strings"
	"unicode"
	"unicode/utf8"

	"github.com/robertkrimen/otto/ast"
)

// Span is what a node's Idx0/Idx1 methods answered.
type Span struct {
	I0, I1 int
	Panic  string // non-empty: Idx0 or Idx1 panicked
}

// Issue is one violated expectation about a node.
type Issue struct {
	Kind string // "span-panic", "span-order", "span-file", "span-parent", "walk-..."
	Path string
	Type string
	Msg  string
	At   *RNode // the node concerned (nil when there is none)
}

func (i Issue) String() string { return fmt.Sprintf("%s at %s (%s): %s", i.Kind, i.Path, i.Type, i.Msg) }

func spanOf(n ast.Node) (s Span) {
	defer func() {
		if p := recover(); p != nil {
			s.Panic = fmt.Sprint(p)
		}
	}()
	s.I0 = int(n.Idx0())
	s.I1 = int(n.Idx1())
	return s
}

// CheckSpans asks every node of the tree for its span (ast/node.go: Idx0 = index of the first
// character of the node, Idx1 = index of the first character after it; indexes are base + byte
// offset) and checks: no panic; base <= Idx0 <= Idx1 <= base+srcLen; the span lies within the
// span of the parent node. Parentheses are not nodes in otto's ast and are outside the span of
// the expression they enclose; that is compatible with containment because every parent span is
// derived from its children or from its own keyword / bracket positions.
func CheckSpans(t *Tree, base, srcLen int) []Issue {
	var out []Issue
	spans := make(map[*RNode]Span, len(t.Nodes))
	for _, rn := range t.Nodes { // pre-order: a parent is computed before its children
		s := spanOf(rn.Node)
		spans[rn] = s
		if s.Panic != "" {
			out = append(out, Issue{"span-panic", rn.Path(), rn.Type, "Idx0/Idx1 panicked: " + s.Panic, rn})
			continue
		}
		if s.I0 > s.I1 {
			out = append(out, Issue{"span-order", rn.Path(), rn.Type, fmt.Sprintf("Idx0=%d > Idx1=%d", s.I0, s.I1), rn})
			continue
		}
		if s.I0 < base || s.I1 > base+srcLen {
			out = append(out, Issue{"span-file", rn.Path(), rn.Type, fmt.Sprintf("span [%d,%d) outside the file [%d,%d]", s.I0, s.I1, base, base+srcLen), rn})
			continue
		}
		if p := rn.Parent; p != nil {
			ps, ok := spans[p]
			if ok && ps.Panic == "" && ps.I0 <= ps.I1 && (s.I0 < ps.I0 || s.I1 > ps.I1) {
				out = append(out, Issue{"span-parent", rn.Path(), rn.Type, fmt.Sprintf("span [%d,%d) not within the span [%d,%d) of its parent %s", s.I0, s.I1, ps.I0, ps.I1, p.Type), rn})
			}
		}
	}
	return out
}

// identRun decodes the IdentifierName that starts at src[at:] (letters, digits, $, _, \uXXXX
// escapes, non-ASCII characters other than white space and line terminators).
func identRun(src string, at int) string {
	var b strings.Builder
	for i := at; i < len(src); {
		c := src[i]
		switch {
		case c == '$' || c == '_' || c >= '0' && c <= '9' || c >= 'a' && c <= 'z' || c >= 'A' && c <= 'Z':
			b.WriteByte(c)
			i++
		case c == '\\' && i+6 <= len(src) && src[i+1] == 'u':
			v, err := strconv.ParseUint(src[i+2:i+6], 16, 32)
			if err != nil {
				return b.String()
			}
			b.WriteRune(rune(v))
			i += 6
		case c >= utf8.RuneSelf:
			r, sz := utf8.DecodeRuneInString(src[i:])
			if (r == utf8.RuneError && sz == 1) || unicode.IsSpace(r) || r == 0xFEFF || r == 0x2028 || r == 0x2029 {
				return b.String()
			}
			b.WriteRune(r)
			i += sz
		default:
			return b.String()
		}
	}
	return b.String()
}

// CheckLeafText compares, for every leaf node, the source text its span points at with what the
// node says it is: an identifier (binding, label, parameter, property name, variable declaration)
// must start at an IdentifierName that decodes to its Name; this / null / true / false at that
// word; a number, string or regular expression literal must cover exactly a text that begins
// like such a literal ('/' for a regular expression, a quote for a string, a digit or '.' for a
// number) and equals the spelling the node records. An off-by-one span is visible here even
// when it stays inside the file and inside its parent.
func CheckLeafText(t *Tree, src string, base int) []Issue {
	var out []Issue
	bad := func(rn *RNode, format string, a ...interface{}) {
		out = append(out, Issue{"span-text", rn.Path(), rn.Type, fmt.Sprintf(format, a...), rn})
	}
	slice := func(rn *RNode) (string, int, bool) {
		s := spanOf(rn.Node)
		i0, i1 := s.I0-base, s.I1-base
		if s.Panic != "" || i0 < 0 || i1 < i0 || i1 > len(src) {
			return "", 0, false // reported by CheckSpans
		}
		return src[i0:i1], i0, true
	}
	word := func(rn *RNode, want string) {
		if _, i0, ok := slice(rn); ok {
			if got := identRun(src, i0); got != want {
				bad(rn, "the span starts at %q, expected the name %q", clip(src[i0:]), want)
			}
		}
	}
	literal := func(rn *RNode, spelled string, first func(c byte) bool) {
		text, _, ok := slice(rn)
		if !ok {
			return
		}
		if text == "" || !first(text[0]) || text != spelled {
			bad(rn, "the span covers %q, the literal is %q", clip(text), clip(spelled))
		}
	}
	for _, rn := range t.Nodes {
		switch n := rn.Node.(type) {
		case *ast.Identifier:
			word(rn, n.Name)
		case *ast.VariableExpression:
			word(rn, n.Name)
		case *ast.ThisExpression:
			word(rn, "this")
		case *ast.NullLiteral:
			word(rn, "null")
		case *ast.BooleanLiteral:
			if n.Value {
				word(rn, "true")
			} else {
				word(rn, "false")
			}
		case *ast.NumberLiteral:
			literal(rn, n.Literal, func(c byte) bool { return c == '.' || c >= '0' && c <= '9' })
		case *ast.StringLiteral:
			literal(rn, n.Literal, func(c byte) bool { return c == '"' || c == '\'' })
		case *ast.RegExpLiteral:
			literal(rn, n.Literal, func(c byte) bool { return c == '/' })
		}
	}
	return out
}

func clip(s string) string {
	if len(s) > 24 {
		return s[:24] + "…"
	}
	return s
}
