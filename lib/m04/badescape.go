package m04

import (
	"fmt"
	"strings"

	"verif/lib/minijs"
)

// Invalid \xHH / \uHHHH escapes by construction (ES5 7.8.4: HexEscapeSequence is \x followed by
// exactly two HexDigits, UnicodeEscapeSequence \u followed by exactly four; x and u are
// EscapeCharacters, so they cannot be identity escapes; 7.6 for identifiers): one character that
// is not a hexadecimal digit is put at one digit position, the other positions hold valid digits.

// nonHex lists one representative (or several) of every class of non-digit: signs, white space,
// underscore, letters just outside a-f, the letters x / u themselves, punctuation, both quotes,
// backslash, NUL, non-ASCII decimal digits (ARABIC-INDIC THREE, FULLWIDTH ONE), line terminators.
var nonHex = []string{"+", "-", " ", "\t", "_", "g", "G", "z", "x", "u", ".", ",", ":", "/", "@", "`", "~", "\"", "'", "\\", "\x00", "\u0663", "\uff11", "\u00e9", "\n", "\u2028"}

const hexDigits = "0123456789abcdefABCDEF"

// BadEscape builds the injected statement. Every choice is a function of seed.
func BadEscape(seed int) (toks []minijs.Token, what string) {
	r := &smallRand{x: uint64(seed)*0x9e3779b1 + 7}
	kind, size := "x", 2
	if r.n(2) == 1 {
		kind, size = "u", 4
	}
	pos := r.n(size)
	bad := nonHex[r.n(len(nonHex))]
	var esc strings.Builder
	esc.WriteString("\\" + kind)
	for i := 0; i < size; i++ {
		if i == pos {
			esc.WriteString(bad)
		} else {
			esc.WriteByte(hexDigits[r.n(len(hexDigits))])
		}
	}
	pad := func() string { return []string{"", "", "a", "ab ", "1", "\\n", "\\x41", "\\u0041"}[r.n(8)] }
	q := []string{"\"", "'"}[r.n(2)]
	lit := q + pad() + esc.String() + pad() + q
	str := minijs.Token{Kind: minijs.TStr, Text: lit, NoLTBefore: true}
	ctx := r.n(10)
	if kind == "x" && ctx == 9 {
		ctx = 0 // identifiers only know \u
	}
	var pre, post string
	switch ctx {
	case 0:
		pre, post = "x =", ";"
	case 1:
		pre, post = "", ";"
	case 2:
		pre, post = "x = {", ": 1 } ;"
	case 3:
		pre, post = "x = { get", "( ) { } } ;"
	case 4:
		pre, post = "function g5 ( ) {", "; return 1 ; }"
	case 5:
		pre, post = "f ( 'a' ,", ") ;"
	case 6:
		pre, post = "typeof", ";"
	case 7:
		pre, post = "x = { a : 1 ,", ": 2 , b : 3 } ;"
	case 8:
		pre, post = "x = function ( ) { 'use strict' ;", "; } ;"
	case 9:
		// the escape inside an IdentifierName
		str = minijs.Token{Kind: minijs.TIdent, Text: "a" + esc.String() + "b", NoLTBefore: true}
		pre, post = "var", "= 1 ;"
	}
	toks = append(lexVariant(pre), str)
	toks = append(toks, lexVariant(post)...)
	what = fmt.Sprintf("escape \\%s with %q at digit position %d: %s %q %s", kind, bad, pos, pre, str.Text, post)
	return toks, what
}

// BadHexEscape scans the source spelling of a string literal (with its quotes) for a \x or \u
// escape that is not followed by 2 / 4 hexadecimal digits and returns it ("" = none).
func BadHexEscape(literal string) string {
	for i := 0; i+1 < len(literal); i++ {
		if literal[i] != '\\' {
			continue
		}
		c := literal[i+1]
		n := 0
		switch c {
		case 'x':
			n = 2
		case 'u':
			n = 4
		}
		for k := 0; k < n; k++ {
			j := i + 2 + k
			if j >= len(literal) || !strings.ContainsRune(hexDigits, rune(literal[j])) {
				end := min(len(literal), i+2+n)
				return literal[i:end]
			}
		}
		i++ // the escaped character is consumed (covers "\\x")
	}
	return ""
}
