// Package m04 holds the models of property C04 (parsing is total; junk is rejected; accepted
// trees are well formed):
//
//   - reflect.go: a traversal of otto's ast by reflection over the struct fields, independent of
//     ast.Walk and of the Idx0/Idx1 methods, giving the set of nodes of a tree and their parents;
//   - spans.go, walk.go: the span and walker oracles built on that traversal;
//   - position.go: an own line/column model of a source text (ES5 7.3 line terminators);
//   - faithful.go: otto's tree rendered back to tokens (lib/m03 + lib/minijs) and aligned with the
//     token sequence the text was laid out from;
//   - mutate.go: single-token mutations of a token list;
//   - inject.go: early errors placed into a valid program at a site with known context.
package m04

import (
	"fmt"
	"reflect"
	"strings"

	"github.com/robertkrimen/otto/ast"
)

// RNode is one ast.Node found by reflection.
type RNode struct {
	Node   ast.Node
	Type   string // e.g. "*ast.ForStatement"
	Step   string // field path from the parent node, e.g. ".Body[2]" or ".ParameterList.List[0]"
	Parent *RNode
	Kids   []*RNode
	Absent []string // optional children (fields of a Node type) that hold a nil interface or a nil pointer
}

// Path is the field path from the root, e.g. "Program.Body[2].Consequent.List[0]" (built on
// demand: stored paths would take quadratic space on deeply nested input).
func (n *RNode) Path() string {
	var steps []string
	for x := n; x != nil; x = x.Parent {
		steps = append(steps, x.Step)
	}
	var b strings.Builder
	for i := len(steps) - 1; i >= 0; i-- {
		b.WriteString(steps[i])
	}
	return b.String()
}

// Tree is the result of Reflect.
type Tree struct {
	Root   *RNode
	Nodes  []*RNode          // pre-order
	ByNode map[ast.Node]*RNode
	Shared []string          // paths at which a node already seen elsewhere was reached again (not a tree)
	Absent int               // total number of absent optional children
}

var (
	nodeIface = reflect.TypeOf((*ast.Node)(nil)).Elem()
	declIface = reflect.TypeOf((*ast.Declaration)(nil)).Elem()
	astPkg    = reflect.TypeOf(ast.Identifier{}).PkgPath()
)

// Reflect walks every field of every ast struct reachable from prog. A value whose static or
// dynamic type implements ast.Node is a node; structs and pointers to structs of package ast
// that are not nodes (ParameterList, Property) are looked through. Not followed: values of types
// implementing ast.Declaration (DeclarationList entries are cross references to nodes of the
// tree, not children), maps (Comments), and anything outside package ast (File).
func Reflect(prog *ast.Program) *Tree {
	t := &Tree{ByNode: map[ast.Node]*RNode{}}
	b := &builder{t: t}
	b.value(reflect.ValueOf(prog), nil, "Program")
	return t
}

type builder struct{ t *Tree }

func (b *builder) absent(parent *RNode, step string) {
	if parent != nil {
		parent.Absent = append(parent.Absent, step)
	}
	b.t.Absent++
}

func (b *builder) value(v reflect.Value, parent *RNode, path string) {
	switch v.Kind() {
	case reflect.Interface:
		if v.Type().Implements(declIface) && !v.Type().Implements(nodeIface) {
			return
		}
		if v.IsNil() {
			if v.Type().Implements(nodeIface) {
				b.absent(parent, path)
			}
			return
		}
		b.value(v.Elem(), parent, path)
	case reflect.Ptr:
		et := v.Type().Elem()
		if et.Kind() != reflect.Struct || et.PkgPath() != astPkg {
			return
		}
		if v.Type().Implements(declIface) && !v.Type().Implements(nodeIface) {
			return
		}
		isNode := v.Type().Implements(nodeIface)
		if v.IsNil() {
			if isNode {
				b.absent(parent, path)
			}
			return
		}
		if !isNode {
			b.fields(v.Elem(), parent, path)
			return
		}
		n := v.Interface().(ast.Node)
		if _, seen := b.t.ByNode[n]; seen {
			where := path
			if parent != nil {
				where = parent.Path() + path
			}
			b.t.Shared = append(b.t.Shared, where)
			return
		}
		rn := &RNode{Node: n, Type: v.Type().String(), Step: path, Parent: parent}
		b.t.ByNode[n] = rn
		b.t.Nodes = append(b.t.Nodes, rn)
		if parent != nil {
			parent.Kids = append(parent.Kids, rn)
		} else {
			b.t.Root = rn
		}
		b.fields(v.Elem(), rn, "")
	case reflect.Struct:
		if v.Type().PkgPath() != astPkg {
			return
		}
		b.fields(v, parent, path)
	case reflect.Slice:
		et := v.Type().Elem()
		if et.Implements(declIface) && !et.Implements(nodeIface) {
			return
		}
		for i := 0; i < v.Len(); i++ {
			b.value(v.Index(i), parent, fmt.Sprintf("%s[%d]", path, i))
		}
	}
}

func (b *builder) fields(s reflect.Value, parent *RNode, path string) {
	st := s.Type()
	for i := 0; i < st.NumField(); i++ {
		f := st.Field(i)
		if !f.IsExported() {
			continue
		}
		b.value(s.Field(i), parent, path+"."+f.Name)
	}
}

// IsNilNode reports a nil interface or an interface holding a nil pointer.
func IsNilNode(n ast.Node) bool {
	if n == nil {
		return true
	}
	v := reflect.ValueOf(n)
	return v.Kind() == reflect.Ptr && v.IsNil()
}
