package m04

import (
	"reflect"
	"testing"
)

func TestLines(t *testing.T) {
	for src, want := range map[string][]int{
		"":              {0},
		"ab":            {2},
		"ab\n":          {2, 0},
		"a\r\nb":        {1, 1},
		"a\rb\nc":       {1, 1, 1},
		"é xy":     {1, 2},
		"\xff\xfe\n\xe2": {2, 1},
		"\r\r\n\n":      {0, 0, 0, 0},
	} {
		if got := Lines(src); !reflect.DeepEqual(got, want) {
			t.Errorf("Lines(%q) = %v, want %v", src, got, want)
		}
	}
	if bad := CheckPosition("ab\ncd", 2, 3); bad != "" {
		t.Error(bad)
	}
	if bad := CheckPosition("ab\ncd", 2, 4); bad == "" {
		t.Error("column 4 of a 2-character line accepted")
	}
	if bad := CheckPosition("ab\ncd", 3, 1); bad != "" {
		t.Error(bad)
	}
	if bad := CheckPosition("ab\ncd", 4, 1); bad == "" {
		t.Error("line 4 of a 2-line text accepted")
	}
}

func TestScramble(t *testing.T) {
	if Scramble(0) != 0 {
		t.Error("Scramble(0) must be 0")
	}
}
