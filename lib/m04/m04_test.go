package m04

import (
	"reflect"
	"strings"
	"testing"
)

func TestLines(t *testing.T) {
	for src, want := range map[string][]int{
		"":              {0},
		"ab":            {2},
		"ab\n":          {2, 0},
		"a\r\nb":        {1, 1},
		"a\rb\nc":       {1, 1, 1},
		"é xy":     {1, 2},
		"\xff\xfe\n\xe2": {2, 1},
		"\r\r\n\n":      {0, 0, 0, 0},
	} {
		if got := Lines(src); !reflect.DeepEqual(got, want) {
			t.Errorf("Lines(%q) = %v, want %v", src, got, want)
		}
	}
	if bad := CheckPosition("ab\ncd", 2, 3); bad != "" {
		t.Error(bad)
	}
	if bad := CheckPosition("ab\ncd", 2, 4); bad == "" {
		t.Error("column 4 of a 2-character line accepted")
	}
	if bad := CheckPosition("ab\ncd", 3, 1); bad != "" {
		t.Error(bad)
	}
	if bad := CheckPosition("ab\ncd", 4, 1); bad == "" {
		t.Error("line 4 of a 2-line text accepted")
	}
}

func TestScramble(t *testing.T) {
	if Scramble(0) != 0 {
		t.Error("Scramble(0) must be 0")
	}
}

func TestES5Pattern(t *testing.T) {
	valid := []string{"", "a", "ab+c", "[/]", "\\/", "[^\\]/]x", "a|b", "(?:x)", "\\d+", "[a-z]*", "=", "\\[", "x{1,2}", "^$", ".", "[/*]", "(a)(b)\\2", "[)]", "[(]", "\\(",
		"a{2}", "[+]", "\\?", "[?+*]", "\\u0041", "\\x41", "\\cA", "\\s\\S", "\\w\\W\\b", "[[]", "[\\]]x", "(?=a)b", "(?!a)", "a*?", "a+?", "a??", "a{1,}?", "[a-]", "[-a]", "[\\b]", "\\0", "((a)|(?:b))*", "a||b", "()", "(|)"}
	for _, s := range valid {
		if err := ES5Pattern(s, true); err != nil {
			t.Errorf("strict rejects valid %q: %v", s, err)
		}
		if err := ES5Pattern(s, false); err != nil {
			t.Errorf("lenient rejects valid %q: %v", s, err)
		}
	}
	lenientOnly := []string{"a{", "a}", "]", "{", "a{,5}", "\\a", "\\c", "\\x4", "\\u12", "[\\d-a]", "(?=a)*", "\\9", "a{b}"}
	for _, s := range lenientOnly {
		if err := ES5Pattern(s, true); err == nil {
			t.Errorf("strict accepts %q", s)
		}
		if err := ES5Pattern(s, false); err != nil {
			t.Errorf("lenient rejects %q: %v", s, err)
		}
	}
	for _, s := range append([]string{"(", ")", "*", "a**", "+a", "?", "a{2,1}", "[b-a]", "[a", "(?i)a", "((?i)a)", "(?:x(?P<n>y))+", "(a|(?s:.))*", "(((?U)a+))", "\\", "{1}", "a|*", "^*", "\\b+", "(?<=a)"}, reDefects...) {
		if err := ES5Pattern(s, false); err == nil {
			t.Errorf("lenient accepts invalid %q", s)
		}
	}
	seenDepth := map[int]int{}
	for seed := 0; seed < 20000; seed++ {
		body, depth, defect := NestedBadRegex(seed)
		seenDepth[depth]++
		if err := ES5Pattern(body, false); err == nil {
			t.Fatalf("seed %d: generated body %q (defect %q, depth %d) is a valid pattern", seed, body, defect, depth)
		}
		if strings.ContainsAny(body, " \n\r") || strings.HasPrefix(body, "*") {
			t.Fatalf("seed %d: body %q cannot stand in a literal", seed, body)
		}
	}
	for d := 0; d < 4; d++ {
		if seenDepth[d] < 1000 {
			t.Errorf("depth %d generated only %d times", d, seenDepth[d])
		}
	}
}

func TestBadEscape(t *testing.T) {
	for _, ok := range []string{`"a\x41b"`, `'A'`, `"\\x"`, `"\\\x41"`, `"x u"`, `""`} {
		if bad := BadHexEscape(ok); bad != "" {
			t.Errorf("BadHexEscape(%s) = %q", ok, bad)
		}
	}
	for _, no := range []string{`"\x+1"`, `"\x4"`, `'\u+041'`, `"\u004"`, `"\\\xg1"`, `"\x"`, `"a\u12 4"`} {
		if bad := BadHexEscape(no); bad == "" {
			t.Errorf("BadHexEscape(%s) finds nothing", no)
		}
	}
	seen := map[string]bool{}
	for seed := 0; seed < 5000; seed++ {
		toks, what := BadEscape(seed)
		found := false
		for _, tk := range toks {
			if strings.Contains(tk.Text, "\\x") || strings.Contains(tk.Text, "\\u") {
				if BadHexEscape("\""+strings.Trim(tk.Text, "\"'")+"\"") != "" || tk.Kind != 0 {
					found = true
				}
			}
		}
		if !found {
			t.Fatalf("seed %d: no malformed escape in %s", seed, what)
		}
		seen[strings.SplitN(what, ": ", 2)[0]] = true
	}
	if len(seen) != 6*len(nonHex) {
		t.Errorf("only %d distinct (kind, character, position) combinations", len(seen))
	}
}
