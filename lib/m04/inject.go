package m04

import (
	"fmt"
	"strings"

	"verif/lib/minijs"
)

// Injection selects one early error and where to put it.
type Injection struct {
	Kind string `json:"kind"`
	Site int    `json:"site"` // selects among the eligible sites of the program
	Var  int    `json:"var"`  // selects the variant of the kind
	Deep bool   `json:"deep"` // prefer a site inside a function, loop, switch or labelled statement (when there is one)
}

// Injected is a program made invalid by construction.
type Injected struct {
	Tokens        []minijs.Token // prefix (side effects) + program + injected error
	What          string         // human readable description
	Variant       string         // the injected text
	Known         string         // finding id under which otto is known to accept this variant ("" = none)
	CanonicalOnly bool           // the text must be laid out without extra line terminators / comments
	Depth         int            // function nesting depth of the site
	InLoop        bool
	ReturnOnly    bool // the text is valid as a FunctionBody (only the "return at top level" kind)
}

// sctx is the syntactic context of a statement-list position.
type sctx struct {
	inFunc, inIter, inSwitch bool
	labels                   []string
	depth                    int
	caseList                 bool // the position is directly in the statement list of a case / default clause
	first                    bool // the position is the first of its statement list
}

type site struct {
	owner *minijs.Node
	at    int // index into owner.Kids at which a statement can be inserted
	ctx   sctx
}

// variant is one concrete injected text. Tokens are separated by single spaces; "\n" inside a
// token stands for a line feed that belongs to the token (used to end an unterminated literal).
type variant struct {
	text  string
	ok    func(c sctx) bool // site eligibility (nil = any site)
	known string
	canon bool // canonical layout only
	atEnd bool // must be the last thing of the text
	first bool // must be the first statement of its list (it could complete the statement in front of it)
	toks  []minijs.Token // when set: the injected tokens (texts that contain white space); text then only describes them
}

func notInLoopOrSwitch(c sctx) bool { return !c.inIter && !c.inSwitch }
func notInLoop(c sctx) bool         { return !c.inIter }
func notInFunc(c sctx) bool         { return !c.inFunc }
func notInCaseList(c sctx) bool     { return !c.caseList }

// Kinds maps every injector to its variants. Each variant is invalid ES5 in every context that
// passes its eligibility test; the clause is cited per kind.
var Kinds = map[string][]variant{
	// 12.8: a break without label outside an IterationStatement or SwitchStatement (not crossing function boundaries)
	"break-outside": {
		{text: "break ;", ok: notInLoopOrSwitch},
		{text: "if ( a ) break ;", ok: notInLoopOrSwitch},
		{text: "{ break ; }", ok: notInLoopOrSwitch},
		{text: "try { break ; } finally { }", ok: notInLoopOrSwitch},
		{text: "while ( a ) ( function ( ) { break ; } ) ( ) ;"},
		{text: "switch ( a ) { case function ( ) { break ; } : ; }"},
	},
	// 12.7: a continue without label outside an IterationStatement
	"continue-outside": {
		{text: "continue ;", ok: notInLoop},
		{text: "if ( a ) continue ;", ok: notInLoop},
		{text: "switch ( a ) { case 1 : continue ; }", ok: notInLoop},
		{text: "with ( a ) { continue ; }", ok: notInLoop},
		{text: "for ( ; ; ) ( function ( ) { continue ; } ) ( ) ;"},
		{text: "do x = function ( ) { if ( a ) continue ; } ; while ( a ) ;"},
	},
	// 12.7: continue Identifier where the label does not belong to an enclosing IterationStatement
	"continue-noniter-label": {
		{text: "Lq8 : { continue Lq8 ; }"},
		{text: "Lq8 : if ( a ) continue Lq8 ;"},
		{text: "Lq8 : { while ( a ) { continue Lq8 ; } }", known: "C04-CONTINUE-NONITER-LABEL"},
		{text: "Lq8 : if ( a ) for ( ; ; ) continue Lq8 ;", known: "C04-CONTINUE-NONITER-LABEL"},
		{text: "Lq8 : switch ( a ) { case 1 : do continue Lq8 ; while ( a ) ; }", known: "C04-CONTINUE-NONITER-LABEL"},
		{text: "Lq8 : try { for ( x in a ) { continue Lq8 ; } } finally { }", known: "C04-CONTINUE-NONITER-LABEL"},
		{text: "Lq8 : { Lq6 : while ( a ) continue Lq8 ; }", known: "C04-CONTINUE-NONITER-LABEL"},
	},
	// 12.9: return outside a FunctionBody
	"return-top": {
		{text: "return ;", ok: notInFunc},
		{text: "return 1 ;", ok: notInFunc},
		{text: "if ( a ) return ;", ok: notInFunc},
		{text: "{ return a ; }", ok: notInFunc},
		{text: "while ( a ) return 1 ;", ok: notInFunc},
		{text: "try { return ; } finally { }", ok: notInFunc},
		{text: "Lq5 : return ;", ok: notInFunc},
	},
	// 12.7 / 12.8 / 12.12: the label is not in the label set of the enclosing (nested) statements
	"unknown-label": {
		{text: "break Lq9 ;"},
		{text: "continue Lq9 ;"},
		{text: "while ( a ) break Lq9 ;"},
		{text: "while ( a ) continue Lq9 ;"},
		{text: "Lq8 : while ( a ) break Lq9 ;"},
		{text: "Lq9 : while ( a ) ( function ( ) { while ( a ) break Lq9 ; } ) ( ) ;"},
		{text: "Lq9 : while ( a ) ( function ( ) { while ( a ) continue Lq9 ; } ) ( ) ;"},
		{text: "Lq9 : ; while ( a ) break Lq9 ;"},
		{text: "{ Lq9 : { } break Lq9 ; }"},
	},
	// 12.12: a LabelledStatement enclosed by a LabelledStatement with the same label
	"duplicate-label": {
		{text: "Lq7 : Lq7 : ;"},
		{text: "Lq7 : { Lq7 : ; }"},
		{text: "Lq7 : while ( a ) Lq7 : ;"},
		{text: "Lq7 : for ( ; ; ) { Lq6 : for ( ; ; ) { Lq7 : ; } }"},
		{text: "Lq7 : if ( a ) ; else Lq7 : x ;"},
		{text: "Lq7 : switch ( a ) { default : Lq7 : ; }"},
	},
	// 11.13.1, 11.3, 11.4.4-5, 12.6.4 with clause 16: the operand is not a reference / not derivable
	"bad-target": {
		{text: "1 = x ;"},
		{text: "a + b = c ;"},
		{text: "++ 1 ;"},
		{text: "1 ++ ;"},
		{text: "-- \"s\" ;"},
		{text: "x = \"s\" = 1 ;"},
		{text: "this = 1 ;"},
		{text: "null -- ;"},
		{text: "- a = 1 ;"},
		{text: "typeof a = 1 ;"},
		{text: "a || b = c ;"},
		{text: "a ? b : c ++ = 1 ;"},
		{text: "( a , b ) = 1 ;"},
		{text: "[ a ] = 1 ;"},
		{text: "( { a : 1 } ) = 1 ;"},
		{text: "a ++ = 1 ;"},
		{text: "++ a ++ ;"},
		{text: "a = b + c = d ;"},
		{text: "a += 1 += 2 ;"},
		{text: "true = 1 ;"},
		{text: "for ( 1 in a ) ;"},
		{text: "for ( a + b in c ) ;"},
		{text: "for ( var a , b in c ) ;"},
		{text: "if ( 1 = x ) ;"},
		{text: "f ( ++ 1 ) ;"},
		{text: "x = [ a + b = c ] ;"},
		{text: "var v = ( 1 = 2 ) ;"},
		{text: "x = { p : 1 = 2 } ;"},
		{text: "x = function ( ) { return 1 = 2 ; } ;"},
	},
	// 12.14: try needs catch or finally; catch needs one identifier
	"try-alone": {
		{text: "try { }"},
		{text: "try { x ; }"},
		{text: "try { } catch { }"},
		{text: "try { } catch ( ) { }"},
		{text: "try { } finally", canon: true, atEnd: true},
		{text: "try { } finally ;"},
		{text: "catch ( e ) { }", first: true},
		{text: "finally { }", first: true},
		{text: "try a ; catch ( e ) { }"},
		{text: "try { } catch ( 1 ) { }"},
		{text: "try { } catch ( e , f ) { }"},
		{text: "try { } catch ( e ) a ;"},
		{text: "try { } catch ( e ) { } catch ( f ) { }"},
		{text: "try { } finally { } finally { }"},
	},
	// 7.8.5 with 15.10.1 / 15.10.2.5 / 15.10.2.15 / 15.10.4.1: malformed or unterminated regular expression literal
	"bad-regex": {
		{text: "/(/ ;"},
		{text: "/)/ ;"},
		{text: "/a)/ ;"},
		{text: "/(a/ ;"},
		{text: "/[b-a]/ ;"},
		{text: "/a{2,1}/ ;"},
		{text: "/+/ ;"},
		{text: "/?a/ ;"},
		{text: "/a**/ ;"},
		{text: "/a|*/ ;"},
		{text: "x = /(/ ;"},
		{text: "/abc\n", canon: true},
		{text: "/[/\n", canon: true, known: "C04-REGEX-CLASS-UNTERMINATED"},
		{text: "x = /a[b\n", canon: true, known: "C04-REGEX-CLASS-UNTERMINATED"},
		{text: "/a\\/\n", canon: true},
		{text: "x = /abc\n", canon: true},
		{text: "/abc", canon: true, atEnd: true},
		{text: "/a/gg ;", known: "C04-REGEX-FLAGS-UNCHECKED"},
		{text: "/a/x ;", known: "C04-REGEX-FLAGS-UNCHECKED"},
		{text: "x = /a/gig ;", known: "C04-REGEX-FLAGS-UNCHECKED"},
		{text: "/a/ g ;", known: "C04-REGEX-FLAGS-SPACED", canon: true},
		{text: "x = /a/ i . y ;", known: "C04-REGEX-FLAGS-SPACED", canon: true},
	},
	// 7.8.4: unterminated string literal, malformed escape sequence
	"bad-string": {
		{text: "\"abc\n", canon: true},
		{text: "'abc\n", canon: true},
		{text: "x = \"abc\n", canon: true},
		{text: "\"abc", canon: true, atEnd: true},
		{text: "'abc\\", canon: true, atEnd: true},
		{text: "\"\\u00zz\" ;"},
		{text: "\"\\x0\" ;"},
		{text: "'\\u12' ;"},
		{text: "\"\\u{61}\" ;"},
		{text: "x = '\\xg0' ;"},
		{text: "\"abc' ;\n", canon: true},
	},
	// 7.4: unterminated multi-line comment
	"bad-comment": {
		{text: "/*", canon: true, atEnd: true},
		{text: "/*_abc", canon: true, atEnd: true},
		{text: "/*_a_*_/", canon: true, atEnd: true},
		{text: "/*/", canon: true, atEnd: true},
		{text: "x = 1 /**", canon: true, atEnd: true},
	},
	// 7.6.1: a ReservedWord where an Identifier is required
	"reserved-ident": {
		{text: "var if = 1 ;"},
		{text: "var class ;"},
		{text: "var a = 1 , null = 2 ;"},
		{text: "x = enum ;"},
		{text: "x = y . z + export ;"},
		{text: "typeof const ;"},
		{text: "function while ( ) { }"},
		{text: "function null ( ) { }"},
		{text: "function f ( default ) { }"},
		{text: "function f ( a , this ) { }"},
		{text: "( function super ( ) { } ) ;"},
		{text: "try { } catch ( in ) { }"},
		{text: "try { } catch ( extends ) { }"},
		{text: "for ( var new in a ) ;"},
		{text: "x = { get a ( ) { } , set b ( import ) { } } ;"},
		{text: "break : ;"},
		{text: "while ( a ) { break true ; }"},
		// ES5 7.6: an escape in an IdentifierName does not change its meaning - a ReservedWord spelled
		// with \\uXXXX escapes is still not an Identifier (binding, parameter, label, function name,
		// catch parameter, for-in binding positions: no reading of the word makes these valid)
		{text: "var \\u0069f = 1 ;"},
		{text: "var i\\u0066 ;"},
		{text: "var \\u0069\\u0066 = 1 , b ;"},
		{text: "var a = 1 , cl\\u0061ss = 2 ;"},
		{text: "var tr\\u0075e ;"},
		{text: "var \\u006eull = 1 ;"},
		{text: "function f ( \\u0074his ) { }"},
		{text: "function f ( a , d\\u0065fault ) { }"},
		{text: "function whil\\u0065 ( ) { }"},
		{text: "( function \\u0073uper ( ) { } ) ;"},
		{text: "f\\u006fr : while ( 0 ) break f\\u006fr ;"},
		{text: "\\u0064o : ;"},
		{text: "try { } catch ( \\u0069n ) { }"},
		{text: "try { } catch ( ext\\u0065nds ) { }"},
		{text: "for ( var n\\u0065w in a ) ;"},
		{text: "for ( var \\u0076ar = 0 ; ; ) ;"},
		{text: "x = { set b ( \\u0069mport ) { } } ;"},
		{text: "while ( a ) { break \\u0074rue ; }"},
		{text: "x = function ( ) { var r\\u0065turn ; } ;"},
		{text: "var \\u0065num , \\u0065xport ;"},
	},
	// 12-14, 11: token sequences no production derives
	"grammar": {
		{text: "a b ;"},
		{text: "a 1 ;"},
		{text: "1 a ;"},
		{text: "\"s\" \"t\" ;"},
		{text: "( ) ;"},
		{text: "a . ;"},
		{text: "a . 1 ;"},
		{text: "a [ ] ;"},
		{text: "if a ;"},
		{text: "if ( ) ;"},
		{text: "if ( a ) else ;"},
		{text: "var ;"},
		{text: "var a = ;"},
		{text: "var a b ;"},
		{text: "var 1 ;"},
		{text: "a ? b ;"},
		{text: "a ? : b ;"},
		{text: "a ? b : ;"},
		{text: "function ( ) { }"},
		{text: "function f { }"},
		{text: "function f ( a b ) { }"},
		{text: "function f ( 1 ) { }"},
		{text: "x = function { } ;"},
		{text: "new ;"},
		{text: "x = new ;"},
		{text: "for ( ; ) ;"},
		{text: "for ( a ; b ) ;"},
		{text: "for ( a in ) ;"},
		{text: "for ( in a ) ;"},
		{text: "for ( a of b ) ;"},
		{text: "while ( ) ;"},
		{text: "while a ;"},
		{text: "do ; while ;"},
		{text: "do ; while ( ) ;"},
		{text: "do a while ( b ) ;"},
		{text: "with a b ;"},
		{text: "with ( ) ;"},
		{text: "switch a { }"},
		{text: "switch ( a ) { b ; }"},
		{text: "switch ( a ) { case : b ; }"},
		{text: "switch ( a ) { case 1 b ; }"},
		{text: "switch ( a ) { default : ; default : ; }"},
		{text: "switch ( a ) { case 1 : ; default : ; case 2 : ; default : }"},
		{text: "case 1 : ;", ok: notInCaseList},
		{text: "default : ;", ok: notInCaseList},
		{text: "throw ;"},
		{text: "a , ;"},
		{text: ", a ;"},
		{text: "a , , b ;"},
		{text: "f ( , ) ;"},
		{text: "f ( a , , b ) ;"},
		{text: "( a , ) ;"},
		{text: "x = { , } ;"},
		{text: "x = { a : 1 , , b : 2 } ;"},
		{text: "x = { a } ;"},
		{text: "x = { a : } ;"},
		{text: "x = { : 1 } ;"},
		{text: "x = { get a } ;"},
		{text: "x = { get a ( ) } ;"},
		{text: "x = { 1 + 2 : 3 } ;"},
		{text: "x = [ a b ] ;"},
		{text: "a instanceof ;"},
		{text: "instanceof a ;"},
		{text: "in a ;"},
		{text: "a in ;"},
		{text: "void ;"},
		{text: "delete ;"},
		{text: "! ;"},
		{text: "a . b . ;"},
		{text: "a => b ;"},
		{text: "a ** b ;"},
		{text: "a ?? b ;"},
		{text: "a ?. b ;"},
		{text: "... a ;"},
		{text: "x = ` a ` ;"},
		{text: "@ ;"},
		{text: "# a ;"},
		{text: "a # ;"},
		{text: "\\ ;"},
		{text: "a \\ b ;"},
		{text: "0x ;"},
		{text: "0xg ;"},
		{text: "1e ;"},
		{text: "1e+ ;"},
		{text: "1a ;"},
		{text: "1_000 ;"},
		{text: "0b11 ;"},
		{text: "0o17 ;"},
		{text: "1.5.5 . x ;"},
		{text: "debugger a ;"},
		{text: "class A { }"},
		{text: "const x = 1 ;"},
		{text: "import a ;"},
		{text: "export a ;"},
	},
	// grammar violations that otto is known to accept (one finding each)
	"known-accepted": {
		{text: "x = { a : 1 b : 2 } ;", known: "C04-OBJLIT-MISSING-COMMA"},
		{text: "x = { get a ( ) { } set a ( v ) { } } ;", known: "C04-OBJLIT-MISSING-COMMA"},
		{text: "function f ( a , ) { }", known: "C04-PARAM-TRAILING-COMMA"},
		{text: "x = function ( a , b , ) { } ;", known: "C04-PARAM-TRAILING-COMMA"},
		{text: "f ( a , ) ;", known: "C04-ARG-TRAILING-COMMA"},
		{text: "new f ( a , b , ) ;", known: "C04-ARG-TRAILING-COMMA"},
		{text: "a &^= b ;", known: "C04-AND-NOT-ASSIGN", canon: true},
		{text: "x = { a : 1 , get a ( ) { } } ;", known: "C04-OBJLIT-NAME-CLASH"},
		{text: "x = { get a ( ) { } , a : 1 } ;", known: "C04-OBJLIT-NAME-CLASH"},
		{text: "x = { get a ( ) { } , get a ( ) { } } ;", known: "C04-OBJLIT-NAME-CLASH"},
		{text: "x = { set a ( v ) { } , \"a\" : 1 } ;", known: "C04-OBJLIT-NAME-CLASH"},
		{text: "x = { get a ( b ) { } } ;", known: "C04-ACCESSOR-ARITY"},
		{text: "x = { set a ( ) { } } ;", known: "C04-SETTER-NO-PARAMETER"},
		{text: "x = { get b ( ) { } , set 1e2 ( ) { } } ;", known: "C04-SETTER-NO-PARAMETER"},
		{text: "x = { set a ( b , c ) { } } ;", known: "C04-ACCESSOR-ARITY"},
		{text: "x = { , : 1 } ;", known: "C04-OBJLIT-ANY-TOKEN-KEY"},
		{text: "x = { a : 1 , + : 2 } ;", known: "C04-OBJLIT-ANY-TOKEN-KEY"},
		{text: "x = { ( : 1 } . a ;", known: "C04-OBJLIT-ANY-TOKEN-KEY"},
		{text: "switch ( a ) {", known: "C04-SWITCH-UNTERMINATED", canon: true, atEnd: true},
		{text: "switch ( a ) { case 1 : b ;", known: "C04-SWITCH-UNTERMINATED", canon: true, atEnd: true},
		{text: "function g ( ) { switch ( a ) { default :", known: "C04-SWITCH-UNTERMINATED", canon: true, atEnd: true},
	},
}

// TokenKinds are the injectors that edit the token list of the whole program instead of adding a
// statement.
var TokenKinds = []string{"unbalanced", "adjacent-binops"}

// KindNames lists every injector (deterministic order).
var KindNames = []string{"break-outside", "continue-outside", "continue-noniter-label", "return-top", "unknown-label",
	"duplicate-label", "bad-target", "try-alone", "bad-regex", "bad-string", "bad-comment", "reserved-ident", "grammar",
	"known-accepted", "unbalanced", "adjacent-binops", "bad-regex-nested", "bad-escape"}

const marker = "\x00INJ"

func cloneNode(n *minijs.Node) *minijs.Node {
	if n == nil {
		return nil
	}
	c := *n
	c.Kids = make([]*minijs.Node, len(n.Kids))
	for i, k := range n.Kids {
		c.Kids[i] = cloneNode(k)
	}
	c.Str = append([]minijs.StrPiece(nil), n.Str...)
	c.Params = append([]string(nil), n.Params...)
	return &c
}

// Deslash returns a copy of the tree without "/" and "/=" operators and without regular
// expression literals, so that the tokenisation of a token-level edit cannot depend on the parse.
func Deslash(n *minijs.Node) *minijs.Node {
	c := cloneNode(n)
	minijs.Walk(c, func(x *minijs.Node) {
		switch {
		case x.K == "bin" && x.Op == "/":
			x.Op = "*"
		case x.K == "assign" && x.Op == "/=":
			x.Op = "*="
		case x.K == "regex":
			*x = minijs.Node{K: "id", Name: "re"}
		}
	})
	return c
}

func collectSites(n *minijs.Node, c sctx, out *[]site) {
	if n == nil {
		return
	}
	list := func(owner *minijs.Node, from int, c sctx) {
		c.caseList = owner.K == "case"
		for i := from; i <= len(owner.Kids); i++ {
			c.first = i == from
			*out = append(*out, site{owner: owner, at: i, ctx: c})
		}
	}
	iter := c
	iter.inIter = true
	switch n.K {
	case "program", "block":
		list(n, 0, c)
		for _, k := range n.Kids {
			collectSites(k, c, out)
		}
	case "func", "funcdecl":
		fc := sctx{inFunc: true, depth: c.depth + 1}
		list(n, 0, fc)
		for _, k := range n.Kids {
			collectSites(k, fc, out)
		}
	case "while":
		collectSites(n.Kids[0], c, out)
		collectSites(n.Kids[1], iter, out)
	case "dowhile":
		collectSites(n.Kids[0], iter, out)
		collectSites(n.Kids[1], c, out)
	case "for":
		collectSites(n.Kids[0], c, out)
		collectSites(n.Kids[1], c, out)
		collectSites(n.Kids[2], c, out)
		collectSites(n.Kids[3], iter, out)
	case "forin":
		collectSites(n.Kids[0], c, out)
		collectSites(n.Kids[1], c, out)
		collectSites(n.Kids[2], iter, out)
	case "switch":
		collectSites(n.Kids[0], c, out)
		sw := c
		sw.inSwitch = true
		for _, cs := range n.Kids[1:] {
			collectSites(cs.Kids[0], c, out)
			list(cs, 1, sw)
			for _, s := range cs.Kids[1:] {
				collectSites(s, sw, out)
			}
		}
	case "label":
		lc := c
		lc.labels = append(append([]string(nil), c.labels...), n.Name)
		collectSites(n.Kids[0], lc, out)
	default:
		for _, k := range n.Kids {
			collectSites(k, c, out)
		}
	}
}

var punctSet = func() map[string]bool {
	m := map[string]bool{}
	for _, p := range strings.Fields("{ } ( ) [ ] . ; , < > <= >= == != === !== + - * % ++ -- << >> >>> & | ^ ! ~ && || ? : = += -= *= %= <<= >>= >>>= &= |= ^= / /= => ** ?? ?. ... ^= @ # \\") {
		m[p] = true
	}
	return m
}()

// lexVariant turns the space separated spelling of a variant into tokens. "_" inside a token
// stands for a space that belongs to the token (comments).
func lexVariant(text string) []minijs.Token {
	var out []minijs.Token
	for i, f := range strings.Split(text, " ") {
		if f == "" {
			continue
		}
		_ = i
		// no line terminator in front of any injected token: the layout then keeps the semicolon of
		// the statement in front of the injection and cannot split the injection by ASI
		t := minijs.Token{Text: f, NoLTBefore: true}
		c := f[0]
		switch {
		case strings.HasPrefix(f, "/*"):
			t.Kind = minijs.TPunct // an unterminated comment; never separated from what follows (nothing follows)
			t.Text = strings.ReplaceAll(f, "_", " ")
		case punctSet[f]:
			t.Kind = minijs.TPunct
		case c == '"' || c == '\'' || c == '`':
			t.Kind = minijs.TStr
		case c == '/':
			t.Kind = minijs.TRegex
		case c >= '0' && c <= '9', c == '.' && len(f) > 1:
			t.Kind = minijs.TNum
		case minijs.IsReserved(f):
			t.Kind = minijs.TKeyword
		default:
			t.Kind = minijs.TIdent
		}
		out = append(out, t)
	}
	return out
}

// LexTokens turns a space separated token spelling ("a = ( b ) ;") into a token list; used for
// hand written regression cases.
func LexTokens(text string) []minijs.Token {
	toks := lexVariant(text)
	for i := range toks {
		toks[i].NoLTBefore = false
	}
	return toks
}

// Prefix is the side-effecting head of every rejection case: a host call, a global assignment,
// a declaration with a host call, a property of the global object.
var Prefix = lexVariant("hit ( 1 ) ; g1 = 1 ; var g2 = hit ( 2 ) ; this . g3 = [ hit ] ; function g4 ( ) { } hit ( 3 ) ;")

var binopInsert = []string{"*", "%", "==", "!=", "===", "!==", "<", ">", "<=", ">=", "<<", ">>", ">>>", "&", "|", "^", "&&", "||", "instanceof", "=", "*=", ",", "?", ":", "."}

func isOperatorTok(t minijs.Token) bool {
	if t.Paren || t.Semi {
		return false
	}
	if t.Kind == minijs.TKeyword {
		return t.Text == "instanceof" || t.Text == "in" || t.Text == "typeof" || t.Text == "void" || t.Text == "delete"
	}
	if t.Kind != minijs.TPunct {
		return false
	}
	switch t.Text {
	case "++", "--", "(", ")", "[", "]", "{", "}", ";", ",", ".", ":", "?":
		return false
	}
	return true
}

// Inject builds the invalid program. ok == false: the kind has no eligible site / token in this
// program (the caller discards the case).
func Inject(prog *minijs.Node, inj Injection) (res Injected, ok bool) {
	mod := func(x, m int) int {
		x = Scramble(x) % m
		if x < 0 {
			x += m
		}
		return x
	}
	switch inj.Kind {
	case "unbalanced":
		toks := minijs.Tokens(Deslash(prog), nil)
		var br []int
		for i, t := range toks {
			if t.Kind == minijs.TPunct && strings.Contains("()[]{}", t.Text) && len(t.Text) == 1 {
				br = append(br, i)
			}
		}
		v := mod(inj.Var, 8)
		switch {
		case v < 4 && len(br) > 0: // delete one bracket of the program
			i := br[mod(inj.Site, len(br))]
			res.What = fmt.Sprintf("bracket %q (token %d) deleted", toks[i].Text, i)
			res.Variant = "delete " + toks[i].Text
			toks = append(toks[:i:i], toks[i+1:]...)
		default: // insert a stray bracket
			b := []string{"(", ")", "[", "]", "{", "}"}[mod(inj.Var, 6)]
			i := mod(inj.Site, len(toks)+1)
			res.What = fmt.Sprintf("stray %q inserted before token %d", b, i)
			res.Variant = "insert " + b
			toks = append(toks[:i:i], append([]minijs.Token{{Kind: minijs.TPunct, Text: b, NoLTBefore: true}}, toks[i:]...)...)
		}
		res.Tokens = append(append([]minijs.Token(nil), Prefix...), toks...)
		res.CanonicalOnly = true
		return res, true
	case "adjacent-binops":
		toks := minijs.Tokens(Deslash(prog), nil)
		var ops []int
		for i, t := range toks {
			if isOperatorTok(t) {
				ops = append(ops, i)
			}
		}
		ins := binopInsert[mod(inj.Var, len(binopInsert))]
		kind := minijs.TPunct
		if ins == "instanceof" {
			kind = minijs.TKeyword
		}
		if len(ops) == 0 {
			return res, false
		}
		i := ops[mod(inj.Site, len(ops))]
		if (ins == "=" || ins == "*=") && (toks[i].Text == "!" || toks[i].Text == "<" || toks[i].Text == ">" || toks[i].Text == "=") {
			ins = "%" // "! =" etc. stay two tokens in the layout, but keep the case unmistakable
		}
		res.What = fmt.Sprintf("operator %q inserted after operator %q (token %d)", ins, toks[i].Text, i)
		res.Variant = toks[i].Text + " " + ins
		toks = append(toks[:i+1:i+1], append([]minijs.Token{{Kind: kind, Text: ins, NoLTBefore: true}}, toks[i+1:]...)...)
		res.Tokens = append(append([]minijs.Token(nil), Prefix...), toks...)
		res.CanonicalOnly = true
		return res, true
	}
	var v variant
	if inj.Kind == "bad-regex-nested" {
		// 7.8.5 with 15.10.1: an invalid pattern at nesting depth 0-3 inside groups, alternations and
		// quantified groups (lib/m04/repattern.go); invalid by the own ES5 pattern recogniser
		body, depth, defect := NestedBadRegex(inj.Var)
		if ES5Pattern(body, false) == nil {
			return res, false
		}
		flags := []string{"", "g", "i", "m", "gi"}[mod(inj.Var+1, 5)]
		lit := "/" + body + "/" + flags
		v.text = []string{lit + " ;", "x = " + lit + " ;", "f ( " + lit + " ) ;", "if ( " + lit + " . test ( a ) ) hit ( 4 ) ;", "var r = [ 1 , " + lit + " ] ;"}[mod(inj.Var+2, 5)]
		v.canon = true
		if strings.HasPrefix(defect, "^") || strings.HasPrefix(defect, "$") || strings.HasPrefix(defect, "\\b") || strings.HasPrefix(defect, "\\B") || strings.Contains(defect, "|^{") {
			v.known = "C04-REGEX-QUANTIFIED-ASSERTION"
		}
		res.Depth = depth
		defer func() {
			if ok {
				res.What = fmt.Sprintf("bad-regex-nested: defect %q at group depth %d in %s; %s", defect, depth, lit, res.What)
				res.Depth = depth
			}
		}()
	} else if inj.Kind == "bad-escape" {
		v.toks, v.text = BadEscape(inj.Var)
		v.canon = true
	} else {
		vars := Kinds[inj.Kind]
		if len(vars) == 0 {
			return res, false
		}
		v = vars[mod(inj.Var, len(vars))]
	}
	tree := cloneNode(prog)
	var sites []site
	collectSites(tree, sctx{}, &sites)
	var elig []site
	for _, s := range sites {
		if v.atEnd && !(s.owner == tree && s.at == len(tree.Kids)) {
			continue
		}
		if v.first && !s.ctx.first {
			continue
		}
		if v.ok == nil || v.ok(s.ctx) {
			elig = append(elig, s)
		}
	}
	if len(elig) == 0 {
		return res, false
	}
	if inj.Deep {
		var deep []site
		for _, s := range elig {
			if s.ctx.depth > 0 || s.ctx.inIter || s.ctx.inSwitch || len(s.ctx.labels) > 0 {
				deep = append(deep, s)
			}
		}
		if len(deep) > 0 {
			elig = deep
		}
	}
	s := elig[mod(inj.Site, len(elig))]
	m := minijs.ExprStmt(minijs.Id(marker))
	s.owner.Kids = append(s.owner.Kids[:s.at:s.at], append([]*minijs.Node{m}, s.owner.Kids[s.at:]...)...)
	toks := minijs.Tokens(tree, nil)
	at := -1
	for i, t := range toks {
		if t.Text == marker {
			at = i
			break
		}
	}
	if at < 0 || at+1 >= len(toks) {
		return res, false
	}
	inTok := v.toks
	if inTok == nil {
		inTok = lexVariant(v.text)
	}
	toks = append(toks[:at:at], append(inTok, toks[at+2:]...)...)
	res.Tokens = append(append([]minijs.Token(nil), Prefix...), toks...)
	res.Variant = v.text
	res.What = fmt.Sprintf("%s: %q at statement position %d of a %s (function depth %d, inLoop=%v, inSwitch=%v, labels=%v)",
		inj.Kind, v.text, s.at, s.owner.K, s.ctx.depth, s.ctx.inIter, s.ctx.inSwitch, s.ctx.labels)
	res.Known = v.known
	if inj.Kind == "continue-noniter-label" && s.ctx.inIter {
		// the enclosing loop of the site makes otto's "inside an iteration statement" test pass
		res.Known = "C04-CONTINUE-NONITER-LABEL"
	}
	res.CanonicalOnly = v.canon
	res.Depth = s.ctx.depth
	res.InLoop = s.ctx.inIter
	res.ReturnOnly = inj.Kind == "return-top"
	return res, true
}
