package m09

// Case conversion (15.5.4.16, 15.5.4.18) restricted to simple one-to-one mappings, as the property
// states. ES5.1 itself refers to the full mappings of SpecialCasing.txt; wherever the full and the
// simple mapping differ (or the mapping depends on the Unicode version, which ES5.1 only bounds
// below by 3.0) the model refuses to give an answer and the check discards the case (DESIGN
// appendix B).

var (
	lowerMap = map[rune]rune{}
	upperMap = map[rune]rune{}
)

func init() {
	for _, p := range lowerPairs {
		lowerMap[p[0]] = p[1]
	}
	for _, p := range upperPairs {
		upperMap[p[0]] = p[1]
	}
}

// fullDiffers: characters of the table ranges whose full case mapping is not one-to-one.
var fullDiffersUpper = map[rune]bool{0xDF: true, 0x149: true, 0x390: true, 0x3B0: true}
var fullDiffersLower = map[rune]bool{0x130: true}

// versionDependent: characters assigned (or given a case pair) after Unicode 3.1.
func versionDependent(r rune) bool {
	switch r {
	case 0x1E9E, // LATIN CAPITAL LETTER SHARP S, Unicode 5.1
		0x10426, 0x10427, 0x1044E, 0x1044F: // Deseret additions of Unicode 4.0
		return true
	}
	return false
}

// Case-domain verdicts.
const (
	CaseOK          = ""
	CaseFullDiffers = "full case mapping differs from the simple one (appendix B)"
	CaseVersion     = "mapping depends on the Unicode version (appendix B)"
	CaseOutside     = "character outside the committed case table"
)

// InCaseTableDomain reports whether the model commits to a mapping (possibly the identity) for r.
// Inside the tabulated ranges every character is covered; outside them only characters that have
// no case in any Unicode version are accepted (listed explicitly: the shared alphabets).
func InCaseTableDomain(r rune) bool {
	switch {
	case r <= 0x17F, r >= 0x1C4 && r <= 0x1CC, r >= 0x386 && r <= 0x3CE, r >= 0x400 && r <= 0x45F,
		r == 0x2126, r == 0x212A, r == 0x212B, r >= 0xFF21 && r <= 0xFF3A, r >= 0xFF41 && r <= 0xFF5A,
		r >= 0x10400 && r <= 0x1044F, r == 0x1E9E:
		return true
	}
	return uncased[r]
}

// uncased: characters outside the tabulated ranges that the generators use and that have no case
// mapping in any version of the Unicode Character Database.
var uncased = map[rune]bool{
	0x7FF: true, 0x800: true, 0x1680: true, 0x2000: true, 0x2001: true, 0x2002: true, 0x2003: true, 0x2004: true, 0x2005: true,
	0x2006: true, 0x2007: true, 0x2008: true, 0x2009: true, 0x200A: true, 0x200B: true, 0x2028: true, 0x2029: true, 0x202F: true,
	0x205F: true, 0x20AC: true, 0x3000: true, 0x4E2D: true, 0xD7FF: true, 0xE000: true, 0xFEFF: true, 0xFFFD: true, 0xFFFE: true,
	0xFFFF: true, 0x10000: true, 0x1D4B3: true, 0x1F600: true, 0x10FFFF: true,
}

// definitelyUncased: characters that are neither cased nor case-ignorable in any Unicode version
// (used only to decide whether the Final_Sigma condition of SpecialCasing.txt can apply).
func definitelyUncased(r rune) bool {
	switch {
	case r >= '0' && r <= '9', r == ' ', r == '\t', r == '\n', r == '\r', r == '-', r == '_', r == '!', r == '~', r == '*',
		r == '(', r == ')', r == ';', r == '/', r == '?', r == '@', r == '&', r == '=', r == '+', r == '$', r == ',', r == '#',
		r == '%', r == '"', r == '\\', r == '<', r == '>', r == '[', r == ']', r == '{', r == '}', r == '|', r == 0, r == 0x1f, r == 0x7f,
		r == 0x4E2D, r == 0x3000, r == 0x20AC, r == 0x2028, r == 0x2029, r == 0xE000, r == 0xFFFD:
		return true
	}
	return false
}

func definitelyCased(r rune) bool {
	if r >= 'a' && r <= 'z' || r >= 'A' && r <= 'Z' {
		return true
	}
	_, l := lowerMap[r]
	_, u := upperMap[r]
	return l || u
}

func decode(u []uint16) []rune {
	var out []rune
	for i := 0; i < len(u); i++ {
		c := rune(u[i])
		if c >= 0xD800 && c < 0xDC00 && i+1 < len(u) && u[i+1] >= 0xDC00 && u[i+1] < 0xE000 {
			out = append(out, 0x10000+(c-0xD800)<<10+(rune(u[i+1])-0xDC00))
			i++
			continue
		}
		out = append(out, c) // lone surrogates stay as they are
	}
	return out
}

func encode(rs []rune) []uint16 {
	out := make([]uint16, 0, len(rs))
	for _, r := range rs {
		if r >= 0x10000 {
			r -= 0x10000
			out = append(out, uint16(0xD800+(r>>10)), uint16(0xDC00+(r&0x3ff)))
		} else {
			out = append(out, uint16(r))
		}
	}
	return out
}

// ToLower is 15.5.4.16 on the simple mappings; verdict != CaseOK means "no committed answer".
func ToLower(s []uint16) (out []uint16, verdict string) {
	rs := decode(s)
	res := make([]rune, len(rs))
	for i, r := range rs {
		switch {
		case r >= 0xD800 && r < 0xE000: // lone surrogate: no mapping
			res[i] = r
			continue
		case !InCaseTableDomain(r):
			return nil, CaseOutside
		case versionDependent(r):
			return nil, CaseVersion
		case fullDiffersLower[r]:
			return nil, CaseFullDiffers
		}
		if r == 0x3A3 {
			// Final_Sigma (SpecialCasing.txt): Σ maps to ς when preceded by a cased letter (skipping
			// case-ignorables) and not followed by one. Commit to σ only where that cannot hold.
			before := true
			for _, b := range rs[:i] {
				if !definitelyUncased(b) {
					before = false
				}
			}
			after := i+1 < len(rs) && definitelyCased(rs[i+1])
			if !before && !after {
				return nil, CaseFullDiffers
			}
		}
		if m, ok := lowerMap[r]; ok {
			res[i] = m
		} else {
			res[i] = r
		}
	}
	return encode(res), CaseOK
}

// ToUpper is 15.5.4.18 on the simple mappings.
func ToUpper(s []uint16) (out []uint16, verdict string) {
	rs := decode(s)
	res := make([]rune, len(rs))
	for i, r := range rs {
		switch {
		case r >= 0xD800 && r < 0xE000:
			res[i] = r
			continue
		case !InCaseTableDomain(r):
			return nil, CaseOutside
		case versionDependent(r):
			return nil, CaseVersion
		case fullDiffersUpper[r]:
			return nil, CaseFullDiffers
		}
		if m, ok := upperMap[r]; ok {
			res[i] = m
		} else {
			res[i] = r
		}
	}
	return encode(res), CaseOK
}

// CaseLetters lists the code points that have a committed non-identity mapping in either
// direction (generators draw from it), in table order.
func CaseLetters() []rune {
	seen := map[rune]bool{}
	var out []rune
	for _, p := range lowerPairs {
		if !seen[p[0]] && !versionDependent(p[0]) {
			seen[p[0]] = true
			out = append(out, p[0])
		}
	}
	for _, p := range upperPairs {
		if !seen[p[0]] && !versionDependent(p[0]) {
			seen[p[0]] = true
			out = append(out, p[0])
		}
	}
	return out
}
