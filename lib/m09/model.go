// Package m09 is the reference model of property C09: the String built-ins of ECMA-262 5.1
// (15.5.3.2, 15.5.4.4-15.5.4.20, 15.5.5, B.2.3) over UTF-16 code unit sequences. It is written from
// the text of the standard, step by step, and shares no code with otto.
//
// Conventions: a String is a []uint16. Position arguments arrive as the result of ToNumber (so an
// undefined or omitted argument is NaN) unless the clause treats `undefined` specially, in which
// case an explicit flag says so. Integer results are Go ints, "NaN" results are float64.
package m09

import (
	"math"

	"verif/lib/es5"
)

// clamp is min(max(p, 0), n) for a ToInteger result p (which may be ±Inf).
func clamp(p float64, n int) int {
	if p <= 0 {
		return 0
	}
	if p >= float64(n) {
		return n
	}
	return int(p)
}

// relative resolves a slice-style position: negative counts from the end (15.5.4.13 steps 6-7).
func relative(p float64, n int) int {
	if p < 0 {
		q := float64(n) + p // -Inf stays -Inf
		if q <= 0 {
			return 0
		}
		return int(q)
	}
	if p >= float64(n) {
		return n
	}
	return int(p)
}

func cp(u []uint16) []uint16 { return append([]uint16{}, u...) }

// CharAt is 15.5.4.4: pos is ToNumber(pos argument).
func CharAt(s []uint16, pos float64) []uint16 {
	p := es5.ToInteger(pos)
	if p < 0 || p >= float64(len(s)) {
		return []uint16{}
	}
	return []uint16{s[int(p)]}
}

// CharCodeAt is 15.5.4.5; NaN when the position is out of range.
func CharCodeAt(s []uint16, pos float64) float64 {
	p := es5.ToInteger(pos)
	if p < 0 || p >= float64(len(s)) {
		return math.NaN()
	}
	return float64(s[int(p)])
}

// Concat is 15.5.4.6 on already converted arguments.
func Concat(s []uint16, args ...[]uint16) []uint16 {
	out := cp(s)
	for _, a := range args {
		out = append(out, a...)
	}
	return out
}

func matchAt(s, search []uint16, k int) bool {
	if k < 0 || k+len(search) > len(s) {
		return false
	}
	for j, c := range search {
		if s[k+j] != c {
			return false
		}
	}
	return true
}

// IndexOf is 15.5.4.7: pos is ToNumber(position) (NaN for undefined: ToInteger gives 0).
func IndexOf(s, search []uint16, pos float64) int {
	start := clamp(es5.ToInteger(pos), len(s))
	for k := start; k+len(search) <= len(s); k++ {
		if matchAt(s, search, k) {
			return k
		}
	}
	return -1
}

// LastIndexOf is 15.5.4.8: numPos is ToNumber(position); NaN means +Infinity (step 6).
func LastIndexOf(s, search []uint16, numPos float64) int {
	p := math.Inf(1)
	if !math.IsNaN(numPos) {
		p = es5.ToInteger(numPos)
	}
	start := clamp(p, len(s))
	for k := start; k >= 0; k-- {
		if matchAt(s, search, k) {
			return k
		}
	}
	return -1
}

// Slice is 15.5.4.13. endUndef: the end argument is undefined (or omitted).
func Slice(s []uint16, start, end float64, endUndef bool) []uint16 {
	n := len(s)
	from := relative(es5.ToInteger(start), n)
	to := n
	if !endUndef {
		to = relative(es5.ToInteger(end), n)
	}
	if to <= from {
		return []uint16{}
	}
	return cp(s[from:to])
}

// Substring is 15.5.4.15.
func Substring(s []uint16, start, end float64, endUndef bool) []uint16 {
	n := len(s)
	a := clamp(es5.ToInteger(start), n)
	b := n
	if !endUndef {
		b = clamp(es5.ToInteger(end), n)
	}
	if a > b {
		a, b = b, a
	}
	return cp(s[a:b])
}

// Substr is B.2.3. lengthUndef: the length argument is undefined (or omitted): use +Infinity.
func Substr(s []uint16, start, length float64, lengthUndef bool) []uint16 {
	n := float64(len(s))
	r2 := es5.ToInteger(start)
	r3 := math.Inf(1)
	if !lengthUndef {
		r3 = es5.ToInteger(length)
	}
	r5 := r2
	if r2 < 0 {
		r5 = math.Max(n+r2, 0)
	}
	r6 := math.Min(math.Max(r3, 0), n-r5)
	if r6 <= 0 {
		return []uint16{}
	}
	return cp(s[int(r5) : int(r5)+int(r6)])
}

// splitMatch is the SplitMatcher of 15.5.4.14 for a String separator: end index or -1 (failure).
func splitMatch(s []uint16, q int, r []uint16) int {
	if q+len(r) > len(s) {
		return -1
	}
	if !matchAt(s, r, q) {
		return -1
	}
	return q + len(r)
}

// Split is 15.5.4.14 for a separator that is a String or undefined. lim is the already computed
// limit (2^32-1 when the limit argument is undefined, else ToUint32(limit)).
func Split(s []uint16, sep []uint16, sepUndef bool, lim uint32) [][]uint16 {
	a := [][]uint16{}
	if lim == 0 {
		return a
	}
	if sepUndef {
		return append(a, cp(s))
	}
	size := len(s)
	if size == 0 {
		if splitMatch(s, 0, sep) >= 0 {
			return a
		}
		return append(a, cp(s))
	}
	p := 0
	q := p
	for q < size {
		e := splitMatch(s, q, sep)
		if e < 0 || e == p {
			q++
			continue
		}
		a = append(a, cp(s[p:q]))
		if uint32(len(a)) == lim {
			return a
		}
		p = e
		q = p
	}
	return append(a, cp(s[p:size]))
}

// Limit is step 5 of 15.5.4.14.
func Limit(num float64, undef bool) uint32 {
	if undef {
		return math.MaxUint32
	}
	return es5.ToUint32(num)
}

// Trim is 15.5.4.20.
func Trim(s []uint16) []uint16 { return cp(es5.TrimWS(s)) }

// FromCharCode is 15.5.3.2 on ToNumber'ed arguments.
func FromCharCode(args []float64) []uint16 {
	out := make([]uint16, len(args))
	for i, x := range args {
		out[i] = es5.ToUint16(x)
	}
	return out
}

// CanonicalName is step 3 of 15.5.5.2: ToString(abs(ToInteger(P))) is the same value as P. It
// returns ToInteger(P) (step 5) as well.
func CanonicalName(name []uint16) (index float64, ok bool) {
	n := es5.ToInteger(es5.StringToNumber(name))
	canon := es5.NumberToString(math.Abs(n))
	if len(canon) != len(name) {
		return 0, false
	}
	for i := range name {
		if name[i] != uint16(canon[i]) {
			return 0, false
		}
	}
	return n, true // n >= 0 here: a name carrying a sign is never canonical
}

// OwnIndex is [[GetOwnProperty]] of a String object for a property name that is not an ordinary
// own property (15.5.5.2 steps 3-9): the code unit the name denotes, if any.
func OwnIndex(s []uint16, name []uint16) (unit uint16, ok bool) {
	n, canonical := CanonicalName(name)
	if !canonical {
		return 0, false
	}
	if float64(len(s)) <= n { // step 7
		return 0, false
	}
	return s[int(n)], true
}

// HasLoneSurrogate reports whether u is not well-formed UTF-16.
func HasLoneSurrogate(u []uint16) bool {
	for i := 0; i < len(u); i++ {
		c := u[i]
		switch {
		case c >= 0xD800 && c < 0xDC00:
			if i+1 < len(u) && u[i+1] >= 0xDC00 && u[i+1] < 0xE000 {
				i++
				continue
			}
			return true
		case c >= 0xDC00 && c < 0xE000:
			return true
		}
	}
	return false
}

// Equal compares code unit sequences.
func Equal(a, b []uint16) bool {
	if len(a) != len(b) {
		return false
	}
	for i := range a {
		if a[i] != b[i] {
			return false
		}
	}
	return true
}

// Compare orders code unit sequences lexicographically by unit value (used only to state laws).
func Compare(a, b []uint16) int {
	for i := 0; i < len(a) && i < len(b); i++ {
		if a[i] != b[i] {
			if a[i] < b[i] {
				return -1
			}
			return 1
		}
	}
	switch {
	case len(a) < len(b):
		return -1
	case len(a) > len(b):
		return 1
	}
	return 0
}
