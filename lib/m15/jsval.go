package m15

import (
	"fmt"
	"math"
	"math/big"
	"strconv"
	"strings"
	"unicode/utf16"

	"pgregory.net/rapid"

	"verif/lib/gen"
	"verif/lib/harness"
)

// JSVal describes one JavaScript value by the expression that produces it; for primitives the
// denoted value is carried too, so that the ES5 model can be applied.
type JSVal struct {
	Kind string `json:"kind"`          // undefined null boolean number string object
	Src  string `json:"src"`           // expression (evaluated with the prelude Prelude in scope)
	Num  string `json:"num,omitempty"` // number: FloatLit of the double it denotes
	Int  string `json:"int,omitempty"` // number written as an integer literal: its digits (otto keeps an int64)
	Str  string `json:"str,omitempty"` // string: the content
	B    bool   `json:"b,omitempty"`
	Tag  string `json:"tag"` // class label: how it was built
}

// Prelude defines what the pooled expressions need: a call log and programmable converters.
const Prelude = `var G = this, LOG = [];
function c15fn(tag, spec) {
  if (spec[0] === "noncallable") return 5;
  return function () {
    LOG.push(tag);
    if (spec[0] === "throw") throw new RangeError("boom-" + tag);
    if (spec[0] === "obj") return {};
    return spec[1];
  };
}
function c15mk(v, s) {
  var o = {};
  if (v !== 0) o.valueOf = c15fn("v", v);
  if (s !== 0) o.toString = c15fn("s", s);
  return o;
}`

// ObjectPool: objects, arrays, functions, Date/RegExp/Error objects, wrapper objects, built-ins.
var ObjectPool = []struct{ Src, Tag string }{
	{`({})`, "plain"}, {`({a:1})`, "plain"}, {`Object.create(null)`, "plain-noproto"}, {`Object.create({toString:function(){return "inh"}})`, "plain"},
	{`({length:2,0:"x"})`, "plain"}, {`({valueOf:1,toString:2})`, "plain-noncallable"},
	{`[]`, "array"}, {`[1]`, "array"}, {`[1,2]`, "array"}, {`["7"]`, "array"}, {`[[]]`, "array"}, {`[null]`, "array"}, {`[undefined]`, "array"}, {`[,]`, "array"}, {`new Array(3)`, "array"},
	{`[1.5]`, "array"}, {`["a","b"]`, "array"}, {`[{}]`, "array"}, {`[[1,2],[3]]`, "array"}, {`[-0]`, "array"}, {`["0x10"]`, "array"}, {`[" 12 "]`, "array"},
	{`(function(){})`, "function"}, {`(function f(a,b){return a})`, "function"}, {`Math.max`, "function"}, {`Object`, "function"}, {`parseInt`, "function"},
	{`(function(){}).bind(null)`, "function"}, {`Function.prototype`, "function"}, {`Date`, "function"}, {`c15mk`, "function"},
	{`new Date(0)`, "date"}, {`new Date(NaN)`, "date"}, {`new Date(8.64e15)`, "date"}, {`new Date(1e12)`, "date"}, {`new Date(-1)`, "date"},
	{`/a/g`, "regexp"}, {`new RegExp("x","i")`, "regexp"}, {`/(?:)/`, "regexp"},
	{`new Error("m")`, "error"}, {`new TypeError("t")`, "error"}, {`new RangeError()`, "error"}, {`(function(){try{null.x}catch(e){return e}})()`, "error"},
	{`new Number(5)`, "wrapper"}, {`new Number(-0)`, "wrapper"}, {`new Number(NaN)`, "wrapper"}, {`new Number(1e21)`, "wrapper"}, {`new String("12")`, "wrapper"}, {`new String("")`, "wrapper"},
	{`new String("aé")`, "wrapper"}, {`new Boolean(false)`, "wrapper"}, {`new Boolean(true)`, "wrapper"}, {`Object(1)`, "wrapper"}, {`Object("s")`, "wrapper"}, {`Object(true)`, "wrapper"},
	{`Math`, "builtin"}, {`JSON`, "builtin"}, {`G`, "builtin"}, {`(function(){return arguments})(1,2)`, "builtin"}, {`Object.prototype`, "builtin"}, {`Array.prototype`, "builtin"},
	{`String.prototype`, "builtin"}, {`Number.prototype`, "builtin"}, {`Boolean.prototype`, "builtin"}, {`Date.prototype`, "builtin"}, {`RegExp.prototype`, "builtin"}, {`Error.prototype`, "builtin"},
}

// converter specs of pool O: what valueOf / toString do.
var convSpecs = []string{`0`, `["ret",42]`, `["ret","7"]`, `["ret",true]`, `["ret",null]`, `["ret",undefined]`, `["ret",NaN]`, `["ret",-0]`, `["ret","abc"]`, `["ret",""]`, `["ret"," 0x10 "]`,
	`["ret",1.5]`, `["ret",1e21]`, `["ret",-1e400]`, `["ret",false]`, `["obj"]`, `["throw"]`, `["noncallable"]`}

func isIntegral(x float64) bool {
	return !math.IsNaN(x) && !math.IsInf(x, 0) && x == math.Trunc(x) && !(x == 0 && math.Signbit(x))
}

// GenJSNumber draws a number and a way of writing it (float literal, integer literal, hex literal,
// results of |0, >>>0, .length: otto holds these as different Go kinds inside Value).
func GenJSNumber(t *rapid.T) JSVal {
	var x float64
	digits := "" // exact digits when the number is drawn as a non-negative integer below 2^63
	switch k := rapid.IntRange(0, 9).Draw(t, "numsrc"); {
	case k < 6:
		x = GenDouble(t)
	case k < 9:
		c := rapid.SampledFrom(intCorners).Draw(t, "intcorner")
		x, _ = new(big.Float).SetInt(c).Float64()
		if c.Sign() >= 0 && c.IsInt64() {
			digits = c.String()
		}
	default:
		x = float64(rapid.IntRange(-5, 40).Draw(t, "small"))
	}
	if digits == "" && isIntegral(x) && x >= 0 && x < 9223372036854775808.0 {
		digits = strconv.FormatInt(int64(x), 10)
	}
	v := JSVal{Kind: "number", Num: FloatLit(x, 64)}
	ways := []string{"float", "float", "expr"}
	if digits != "" {
		ways = append(ways, "intlit", "intlit")
		if x <= 9007199254740992 {
			ways = append(ways, "hexlit")
		}
	}
	if isIntegral(x) {
		if x < 0 && x > -9223372036854775808.0 {
			ways = append(ways, "negintlit")
		}
		if x >= -2147483648 && x <= 2147483647 {
			ways = append(ways, "or0")
		}
		if x >= 0 && x <= 4294967295 {
			ways = append(ways, "shr0")
		}
		if x >= 0 && x <= 6 {
			ways = append(ways, "length", "arrlength")
		}
	}
	v.Tag = rapid.SampledFrom(ways).Draw(t, "way")
	switch v.Tag {
	case "float":
		v.Src = NumLit(x)
	case "expr":
		v.Src = "(" + NumLit(x) + "*1)"
	case "intlit":
		v.Int = digits
		v.Src = digits
	case "hexlit":
		n, _ := strconv.ParseInt(digits, 10, 64)
		v.Int = digits
		v.Src = "0x" + strconv.FormatInt(n, 16)
	case "negintlit": // unary minus applied to an integer literal: computed in doubles
		v.Src = "-" + strconv.FormatInt(int64(-x), 10)
	case "or0":
		v.Src = "(" + NumLit(x) + "|0)"
	case "shr0":
		v.Src = "(" + NumLit(x) + ">>>0)"
	case "length":
		v.Src = JSStr(strings.Repeat("a", int(x))) + ".length"
	case "arrlength":
		v.Src = "new Array(" + strconv.Itoa(int(x)) + ").length"
	}
	return v
}

// GenJSString draws a string and a way of building it (literal, concatenation, String.fromCharCode:
// the latter is held as UTF-16 code units inside Value).
func GenJSString(t *rapid.T) JSVal {
	var s string
	if rapid.IntRange(0, 9).Draw(t, "strsrc") < 5 {
		s = rapid.SampledFrom(GoNumericStrings).Draw(t, "numstr")
	} else {
		s, _ = harness.FromUTF16(gen.Units16(6).Draw(t, "units"))
	}
	v := JSVal{Kind: "string", Str: s}
	v.Tag = rapid.SampledFrom([]string{"literal", "literal", "concat", "fromCharCode"}).Draw(t, "way")
	switch v.Tag {
	case "literal":
		v.Src = JSStr(s)
	case "concat":
		v.Src = `("" + ` + JSStr(s) + `)`
	case "fromCharCode":
		u := utf16.Encode([]rune(s))
		parts := make([]string, len(u))
		for i, c := range u {
			parts[i] = strconv.Itoa(int(c))
		}
		v.Src = "String.fromCharCode(" + strings.Join(parts, ",") + ")"
	}
	return v
}

// GenJSVal draws a JavaScript value from the pools.
func GenJSVal(t *rapid.T) JSVal {
	switch k := rapid.IntRange(0, 19).Draw(t, "jskind"); {
	case k < 6:
		return GenJSNumber(t)
	case k < 11:
		return GenJSString(t)
	case k == 11:
		b := rapid.Bool().Draw(t, "b")
		return JSVal{Kind: "boolean", B: b, Src: strconv.FormatBool(b), Tag: "literal"}
	case k == 12:
		if rapid.Bool().Draw(t, "nullundef") {
			return JSVal{Kind: "null", Src: "null", Tag: "literal"}
		}
		return JSVal{Kind: "undefined", Src: rapid.SampledFrom([]string{"undefined", "void 0", "({}).nothing"}).Draw(t, "undef"), Tag: "literal"}
	case k < 15:
		o := rapid.SampledFrom(ObjectPool).Draw(t, "object")
		return JSVal{Kind: "object", Src: o.Src, Tag: o.Tag}
	case k < 17:
		return genParamObject(t)
	default:
		spec := func(label string) string {
			if rapid.IntRange(0, 2).Draw(t, label+"gen") == 0 {
				return `["ret",` + genPrimSrc(t) + `]`
			}
			return rapid.SampledFrom(convSpecs).Draw(t, label)
		}
		return JSVal{Kind: "object", Src: fmt.Sprintf("c15mk(%s,%s)", spec("valueOf"), spec("toString")), Tag: "converter"}
	}
}

// genPrimSrc draws the source of a primitive (number or string) for use inside objects.
func genPrimSrc(t *rapid.T) string {
	if rapid.Bool().Draw(t, "primIsNum") {
		return GenJSNumber(t).Src
	}
	s := GenJSString(t)
	if s.Tag == "fromCharCode" {
		return JSStr(s.Str) // keep String.fromCharCode results (a separate finding) to the top level
	}
	return s.Src
}

// genParamObject draws wrapper objects, arrays and dates around generated primitives.
func genParamObject(t *rapid.T) JSVal {
	switch rapid.IntRange(0, 5).Draw(t, "paramobj") {
	case 0:
		return JSVal{Kind: "object", Src: "new Number(" + GenJSNumber(t).Src + ")", Tag: "wrapper"}
	case 1:
		return JSVal{Kind: "object", Src: "new String(" + genPrimSrc(t) + ")", Tag: "wrapper"}
	case 2:
		return JSVal{Kind: "object", Src: "Object(" + genPrimSrc(t) + ")", Tag: "wrapper"}
	case 3:
		return JSVal{Kind: "object", Src: "[" + genPrimSrc(t) + "]", Tag: "array"}
	case 4:
		return JSVal{Kind: "object", Src: "[" + genPrimSrc(t) + "," + genPrimSrc(t) + "]", Tag: "array"}
	default:
		ms := rapid.Int64Range(-8640000000000000, 8640000000000000).Draw(t, "time")
		return JSVal{Kind: "object", Src: "new Date(" + strconv.FormatInt(ms, 10) + ")", Tag: "date"}
	}
}

// ---- JSON-like data ------------------------------------------------------------------------------

// J is a JSON-like tree: null, undef (array elements / property values only), hole (array elements
// only), bool, num (V = FloatLit), int (V = digits, |x| <= 2^53), str, arr, obj (keys in K).
type J struct {
	K    string   `json:"k"`
	V    string   `json:"v,omitempty"`
	E    []J      `json:"e,omitempty"`
	Keys []string `json:"keys,omitempty"`
}

// JKeys: property names for generated objects.
var JKeys = []string{"a", "b", "c", "key", "", "0", "1", "01", "length", "constructor", "toString", "valueOf", "é", "\U0001F600", "a b", "x.y", "\ufffd", "A"}

// GenJ draws a JSON-like tree; pure restricts it to what JSON text can carry (no undefined, holes, NaN,
// infinities). want is "" or forces the kind ("arr", "obj", "container").
func GenJ(t *rapid.T, depth int, pure bool, inArray bool) J {
	return genJ(t, depth, pure, inArray, "")
}

// GenJTop draws a container (array or object) at the top.
func GenJTop(t *rapid.T, depth int, pure bool) J { return genJ(t, depth, pure, false, "container") }

func genJ(t *rapid.T, depth int, pure bool, inArray bool, want string) J {
	k := rapid.IntRange(0, 19).Draw(t, "jkind")
	if depth <= 0 && k >= 12 && want == "" {
		k = k % 12
	}
	switch want {
	case "arr":
		k = 12
	case "obj":
		k = 16
	case "container":
		if k < 12 {
			k = 12 + k%8
		}
	}
	switch {
	case k == 0:
		return J{K: "null"}
	case k == 1:
		if pure {
			return J{K: "null"}
		}
		if inArray && rapid.Bool().Draw(t, "hole") {
			return J{K: "hole"}
		}
		return J{K: "undef"}
	case k < 4:
		return J{K: "bool", V: strconv.FormatBool(rapid.Bool().Draw(t, "b"))}
	case k < 6:
		x := GenDouble(t)
		if pure && (math.IsNaN(x) || math.IsInf(x, 0)) {
			x = 0.5
		}
		return J{K: "num", V: FloatLit(x, 64)}
	case k < 9:
		n := rapid.SampledFrom([]int64{0, 1, -1, 2, 3, 7, 42, 255, 65536, 2147483647, -2147483648, 4294967296, 9007199254740991, 9007199254740992, -9007199254740992}).Draw(t, "int")
		return J{K: "int", V: strconv.FormatInt(n, 10)}
	case k < 12:
		s, _ := harness.FromUTF16(gen.Units16(5).Draw(t, "units"))
		return J{K: "str", V: s}
	case k < 16:
		n := rapid.IntRange(0, 4).Draw(t, "len")
		if depth <= 0 {
			n = 0
		}
		out := J{K: "arr"}
		// Export types homogeneous arrays as typed slices: make every element the kind of the first one in a third of the arrays
		homog := n >= 2 && rapid.IntRange(0, 2).Draw(t, "homog") == 0
		for i := 0; i < n; i++ {
			if homog && i > 0 {
				switch first := out.E[0]; first.K {
				case "arr", "obj":
					out.E = append(out.E, genJ(t, depth-1, pure, true, first.K))
				case "hole", "undef", "null":
					out.E = append(out.E, genJ(t, depth-1, pure, true, ""))
				default:
					e := genJ(t, 0, pure, true, "")
					if e.K != first.K && !(e.K == "hole") {
						e = first
					}
					out.E = append(out.E, e)
				}
				continue
			}
			out.E = append(out.E, genJ(t, depth-1, pure, true, ""))
		}
		return out
	default:
		n := rapid.IntRange(0, 4).Draw(t, "len")
		if depth <= 0 {
			n = 0
		}
		out := J{K: "obj"}
		seen := map[string]bool{}
		for i := 0; i < n; i++ {
			key := rapid.SampledFrom(JKeys).Draw(t, "key")
			if seen[key] {
				continue
			}
			seen[key] = true
			out.Keys = append(out.Keys, key)
			out.E = append(out.E, genJ(t, depth-1, pure, false, ""))
		}
		return out
	}
}

// GenJNested draws an array of arrays of arrays whose innermost element kinds vary: the shape on which
// Export's choice of a common slice type is decided two levels down.
func GenJNested(t *rapid.T) J {
	inner := func() J {
		out := J{K: "arr"}
		n := rapid.IntRange(0, 2).Draw(t, "innerlen")
		kind := rapid.SampledFrom([]string{"int", "num", "str", "bool", "null", "mixed", "obj", "arr"}).Draw(t, "innerkind")
		for i := 0; i < n; i++ {
			switch kind {
			case "int":
				out.E = append(out.E, J{K: "int", V: strconv.Itoa(rapid.IntRange(-2, 9).Draw(t, "i"))})
			case "num":
				out.E = append(out.E, J{K: "num", V: FloatLit(float64(rapid.IntRange(-3, 9).Draw(t, "h"))/2+0.25, 64)})
			case "str":
				out.E = append(out.E, J{K: "str", V: rapid.SampledFrom([]string{"", "a", "\u00e9"}).Draw(t, "s")})
			case "bool":
				out.E = append(out.E, J{K: "bool", V: strconv.FormatBool(rapid.Bool().Draw(t, "b"))})
			case "null":
				out.E = append(out.E, J{K: "null"})
			case "obj":
				out.E = append(out.E, J{K: "obj"})
			case "arr":
				out.E = append(out.E, J{K: "arr"})
			default:
				out.E = append(out.E, genJ(t, 0, true, true, ""))
			}
		}
		return out
	}
	outer := J{K: "arr"}
	for i, n := 0, rapid.IntRange(2, 3).Draw(t, "outerlen"); i < n; i++ {
		mid := J{K: "arr"}
		for k, m := 0, rapid.IntRange(1, 2).Draw(t, "midlen"); k < m; k++ {
			mid.E = append(mid.E, inner())
		}
		outer.E = append(outer.E, mid)
	}
	return outer
}

// ---- shared (DAG-shaped) data ----------------------------------------------------------------------

// Shared describes a value in which the same array/object instance is reachable along several paths:
// Defs[i] is a container that may refer to Defs[k], k < i, through {K:"ref",V:"k"} nodes (no cycles);
// Root refers to any of them.
type Shared struct {
	Defs []J `json:"defs"`
	Root J   `json:"root"`
}

// Expand gives the tree-shaped equivalent: every reference replaced by a copy of what it refers to.
func (s Shared) Expand() J {
	var exp func(j J) J
	exp = func(j J) J {
		if j.K == "ref" {
			k, _ := strconv.Atoi(j.V)
			return exp(s.Defs[k])
		}
		out := J{K: j.K, V: j.V, Keys: j.Keys}
		for _, e := range j.E {
			out.E = append(out.E, exp(e))
		}
		return out
	}
	return exp(s.Root)
}

// RefCounts gives, per definition, how many reference nodes point at it (in Root and in later Defs).
func (s Shared) RefCounts() []int {
	n := make([]int, len(s.Defs))
	var walk func(j J)
	walk = func(j J) {
		if j.K == "ref" {
			k, _ := strconv.Atoi(j.V)
			n[k]++
		}
		for _, e := range j.E {
			walk(e)
		}
	}
	walk(s.Root)
	for _, d := range s.Defs {
		walk(d)
	}
	return n
}

// injectRefs replaces / adds elements of the containers of j by references to Defs[0..max).
func injectRefs(t *rapid.T, j *J, max int) {
	if max <= 0 || (j.K != "arr" && j.K != "obj") {
		return
	}
	ref := func() J { return J{K: "ref", V: strconv.Itoa(rapid.IntRange(0, max-1).Draw(t, "refidx"))} }
	for i := range j.E {
		switch rapid.IntRange(0, 3).Draw(t, "inject") {
		case 0:
			j.E[i] = ref()
		default:
			injectRefs(t, &j.E[i], max)
		}
	}
	if rapid.IntRange(0, 2).Draw(t, "append") == 0 {
		if j.K == "arr" {
			j.E = append(j.E, ref())
		} else {
			key := "ref" + strconv.Itoa(len(j.E))
			j.Keys = append(j.Keys, key)
			j.E = append(j.E, ref())
		}
	}
}

// GenShared draws DAG-shaped data: 1-3 shared containers (later ones may contain earlier ones) and a
// root in which at least one of them occurs twice - as sibling properties, array slots, or at
// different depths.
func GenShared(t *rapid.T) Shared {
	var s Shared
	n := rapid.IntRange(1, 3).Draw(t, "ndefs")
	for i := 0; i < n; i++ {
		d := genJ(t, 2, false, false, "container")
		injectRefs(t, &d, i)
		s.Defs = append(s.Defs, d)
	}
	switch rapid.IntRange(0, 4).Draw(t, "rootshape") {
	case 0: // sibling properties
		s.Root = J{K: "obj", Keys: []string{"first", "second"}, E: []J{{K: "ref", V: "0"}, {K: "ref", V: "0"}}}
	case 1: // array slots and one level down
		s.Root = J{K: "arr", E: []J{{K: "ref", V: "0"}, {K: "ref", V: "0"}, {K: "arr", E: []J{{K: "ref", V: "0"}}}}}
	case 2: // outer object and inner array of objects
		last := strconv.Itoa(n - 1)
		s.Root = J{K: "obj", Keys: []string{"defaults", "items"}, E: []J{{K: "ref", V: last}, {K: "arr", E: []J{
			{K: "obj", Keys: []string{"id", "cfg"}, E: []J{{K: "int", V: "1"}, {K: "ref", V: last}}},
			{K: "obj", Keys: []string{"id", "cfg"}, E: []J{{K: "int", V: "2"}, {K: "ref", V: last}}}}}}}
	default:
		s.Root = genJ(t, 3, false, false, "container")
		injectRefs(t, &s.Root, n)
	}
	// make sure some definition is reached at least twice
	twice := false
	for _, c := range s.RefCounts() {
		if c >= 2 {
			twice = true
		}
	}
	if !twice {
		k := strconv.Itoa(rapid.IntRange(0, n-1).Draw(t, "forced"))
		if s.Root.K == "arr" {
			s.Root.E = append(s.Root.E, J{K: "ref", V: k}, J{K: "ref", V: k})
		} else {
			s.Root.Keys = append(s.Root.Keys, "again1", "again2")
			s.Root.E = append(s.Root.E, J{K: "ref", V: k}, J{K: "ref", V: k})
		}
	}
	return s
}

func jNum(j J) float64 {
	if j.K == "int" {
		n, _ := strconv.ParseInt(j.V, 10, 64)
		return float64(n)
	}
	return ParseFloatLit(j.V, 64)
}

// Pure reports whether JSON text can carry the tree.
func (j J) Pure() bool {
	switch j.K {
	case "undef", "hole":
		return false
	case "num":
		x := jNum(j)
		return !math.IsNaN(x) && !math.IsInf(x, 0)
	}
	for _, e := range j.E {
		if !e.Pure() {
			return false
		}
	}
	return true
}

// HasHole reports whether some array of the tree has a hole.
func (j J) HasHole() bool {
	if j.K == "hole" {
		return true
	}
	for _, e := range j.E {
		if e.HasHole() {
			return true
		}
	}
	return false
}

// Depth of nesting (primitives 0).
func (j J) Depth() int {
	if j.K != "arr" && j.K != "obj" {
		return 0
	}
	m := 0
	for _, e := range j.E {
		if d := e.Depth(); d > m {
			m = d
		}
	}
	return m + 1
}

// Literal renders the tree as an ES5 expression (array/object literals; holes as elisions).
func (j J) Literal() string { return j.LiteralRefs("s%s") }

// LiteralRefs is Literal for trees with "ref" nodes (K "ref", V = index of a shared container):
// a reference is written as refFmt applied to the index ("s%s", "get(%s)", "S[%s]").
func (j J) LiteralRefs(refFmt string) string {
	switch j.K {
	case "ref":
		return fmt.Sprintf(refFmt, j.V)
	case "null":
		return "null"
	case "undef":
		return "undefined"
	case "hole":
		return ""
	case "bool":
		return j.V
	case "num":
		return NumLit(ParseFloatLit(j.V, 64))
	case "int":
		if strings.HasPrefix(j.V, "-") {
			return "(" + j.V + ")"
		}
		return j.V
	case "str":
		return JSStr(j.V)
	case "arr":
		parts := make([]string, len(j.E))
		for i, e := range j.E {
			parts[i] = e.LiteralRefs(refFmt)
		}
		s := strings.Join(parts, ",")
		if n := len(j.E); n > 0 && j.E[n-1].K == "hole" {
			s += "," // a trailing elision needs its own comma
		}
		return "[" + s + "]"
	}
	parts := make([]string, len(j.E))
	for i, e := range j.E {
		parts[i] = JSStr(j.Keys[i]) + ":" + e.LiteralRefs(refFmt)
	}
	return "({" + strings.Join(parts, ",") + "})"
}

// Imperative renders the tree as statements building it step by step (index assignment, push, length).
func (j J) Imperative() string {
	var b strings.Builder
	n := 0
	var emit func(j J) string
	emit = func(j J) string {
		if j.K != "arr" && j.K != "obj" {
			return j.Literal()
		}
		n++
		name := "t" + strconv.Itoa(n)
		if j.K == "arr" {
			fmt.Fprintf(&b, "var %s = [];\n", name)
			for i, e := range j.E {
				if e.K == "hole" {
					continue
				}
				fmt.Fprintf(&b, "%s[%d] = %s;\n", name, i, emit(e))
			}
			fmt.Fprintf(&b, "%s.length = %d;\n", name, len(j.E))
			return name
		}
		fmt.Fprintf(&b, "var %s = new Object();\n", name)
		for i, e := range j.E {
			fmt.Fprintf(&b, "%s[%s] = %s;\n", name, JSStr(j.Keys[i]), emit(e))
		}
		return name
	}
	root := emit(j)
	return "(function(){\n" + b.String() + "return " + root + ";\n})()"
}

// JSONText renders a pure tree as JSON text.
func (j J) JSONText() string {
	switch j.K {
	case "null", "undef", "hole":
		return "null"
	case "bool":
		return j.V
	case "num":
		x := ParseFloatLit(j.V, 64)
		if x == 0 && math.Signbit(x) {
			return "-0"
		}
		return strconv.FormatFloat(x, 'e', -1, 64)
	case "int":
		return j.V
	case "str":
		return jsonStr(j.V)
	case "arr":
		parts := make([]string, len(j.E))
		for i, e := range j.E {
			parts[i] = e.JSONText()
		}
		return "[" + strings.Join(parts, ",") + "]"
	}
	parts := make([]string, len(j.E))
	for i, e := range j.E {
		parts[i] = jsonStr(j.Keys[i]) + ":" + e.JSONText()
	}
	return "{" + strings.Join(parts, ",") + "}"
}

func jsonStr(s string) string {
	var b strings.Builder
	b.WriteByte('"')
	for _, r := range s {
		switch {
		case r == '"' || r == '\\':
			b.WriteByte('\\')
			b.WriteRune(r)
		case r < 0x20 || r == 0x7f || r == 0x2028 || r == 0x2029:
			fmt.Fprintf(&b, "\\u%04x", r)
		default:
			b.WriteRune(r)
		}
	}
	b.WriteByte('"')
	return b.String()
}

// StringifyText is what JSON.stringify must produce for the tree, up to white space and number
// spelling (15.12.3): undefined/holes in arrays and non-finite numbers become null, undefined
// property values are dropped, -0 prints as 0. The second result is false when the whole value
// is undefined (no JSON text).
func (j J) StringifyText() (string, bool) {
	switch j.K {
	case "undef", "hole":
		return "", false
	case "num":
		x := ParseFloatLit(j.V, 64)
		if math.IsNaN(x) || math.IsInf(x, 0) {
			return "null", true
		}
		if x == 0 {
			return "0", true
		}
		return strconv.FormatFloat(x, 'e', -1, 64), true
	case "arr":
		parts := make([]string, len(j.E))
		for i, e := range j.E {
			s, ok := e.StringifyText()
			if !ok {
				s = "null"
			}
			parts[i] = s
		}
		return "[" + strings.Join(parts, ",") + "]", true
	case "obj":
		var parts []string
		for i, e := range j.E {
			s, ok := e.StringifyText()
			if ok {
				parts = append(parts, jsonStr(j.Keys[i])+":"+s)
			}
		}
		return "{" + strings.Join(parts, ",") + "}", true
	}
	return j.JSONText(), true
}
