package m15

import (
	"math"
	"math/big"
	"strconv"

	"pgregory.net/rapid"

	"verif/lib/gen"
	"verif/lib/harness"
)

// ScalarTypes are the predeclared scalar kinds of the domain.
var ScalarTypes = []string{"bool", "int", "int8", "int16", "int32", "int64", "uint", "uint8", "uint16", "uint32", "uint64", "float32", "float64", "string"}

// NamedTypes are named scalar types (they reach otto's reflect path instead of the type switch).
var NamedTypes = []string{"MyInt", "MyU16", "MyF32", "MyStr", "MyBool"}

// PtrScalarTypes are pointers to scalars (dereferenced by otto; nil gives undefined).
var PtrScalarTypes = []string{"*int", "*int64", "*uint8", "*float32", "*float64", "*string", "*bool", "*MyInt"}

// ContainerTypes are the typed containers, arrays, structs and pointers to them.
var ContainerTypes = []string{
	"[]any", "map[string]any", "[]any", "map[string]any",
	"[]int", "[]string", "[]float64", "[][]int", "map[string]int", "map[string][]string",
	"[]bool", "[]int8", "[]uint8", "[]uint16", "[]int64", "[]uint64", "[]float32", "[][]string", "[][]any", "[]map[string]any", "[]map[string]int",
	"map[string]string", "map[string]float64", "map[string]bool", "map[string]map[string]int", "map[string][]any", "map[string]uint64",
	"[3]int", "[2]string", "[0]int", "[2]float64", "[2][2]int", "[2]any", "*[3]int", "*[2]string", "*[2]any",
	"Pt", "*Pt", "Rec", "*Rec", "Emb", "*Emb", "[]Pt", "[]*Pt", "map[string]Pt", "map[string]*Pt", "[2]Pt",
}

// bounds of the integer kinds
var intBounds = map[string][2]*big.Int{}

func init() {
	for _, b := range []struct {
		n    string
		bits uint
		sig  bool
	}{{"int8", 8, true}, {"int16", 16, true}, {"int32", 32, true}, {"int64", 64, true}, {"int", 64, true},
		{"uint8", 8, false}, {"uint16", 16, false}, {"uint32", 32, false}, {"uint64", 64, false}, {"uint", 64, false}} {
		lo, hi := new(big.Int), new(big.Int)
		if b.sig {
			hi.Lsh(big.NewInt(1), b.bits-1)
			lo.Neg(hi)
			hi.Sub(hi, big.NewInt(1))
		} else {
			hi.Lsh(big.NewInt(1), b.bits)
			hi.Sub(hi, big.NewInt(1))
		}
		intBounds[b.n] = [2]*big.Int{lo, hi}
	}
}

// integer corners: 0, ±1, width boundaries and both neighbours, 2^53±1/2, values beyond 2^53 that are
// (not) doubles, decimal layout thresholds.
var intCorners = func() []*big.Int {
	var out []*big.Int
	add := func(x *big.Int) {
		out = append(out, new(big.Int).Set(x), new(big.Int).Neg(x))
	}
	for _, k := range []uint{0, 1, 7, 8, 15, 16, 24, 31, 32, 52, 53, 54, 60, 62, 63, 64} {
		p := new(big.Int).Lsh(big.NewInt(1), k)
		for _, d := range []int64{-2, -1, 0, 1, 2} {
			add(new(big.Int).Add(p, big.NewInt(d)))
		}
	}
	for _, s := range []string{"0", "7", "10", "100", "255", "1000000", "123456789", "1000000000000000", "9999999999999998", "10000000000000001", "123456789012345678",
		"1152921504606846977", "999999999999999999", "1000000000000000000", "9223372036854775296", "9223372036854774784", "18446744073709549568", "12345678901234567890"} {
		x, _ := new(big.Int).SetString(s, 10)
		add(x)
	}
	return out
}()

func genInt(t *rapid.T, kind string) string {
	b := intBounds[kind]
	switch k := rapid.IntRange(0, 9).Draw(t, "intkind"); {
	case k < 6:
		var fit []*big.Int
		for _, c := range intCorners {
			if c.Cmp(b[0]) >= 0 && c.Cmp(b[1]) <= 0 {
				fit = append(fit, c)
			}
		}
		return rapid.SampledFrom(fit).Draw(t, "corner").String()
	case k < 7:
		return rapid.SampledFrom([]*big.Int{b[0], b[1]}).Draw(t, "bound").String()
	case k < 8:
		return strconv.Itoa(rapid.IntRange(-3, 20).Filter(func(n int) bool { return n >= 0 || b[0].Sign() < 0 }).Draw(t, "small"))
	default:
		if b[0].Sign() < 0 {
			x := rapid.Int64().Draw(t, "i64")
			shift := 64 - b[1].BitLen() - 1
			return strconv.FormatInt(x>>uint(shift), 10)
		}
		x := rapid.Uint64().Draw(t, "u64")
		shift := 64 - b[1].BitLen()
		return strconv.FormatUint(x>>uint(shift), 10)
	}
}

// TextCorner: the doubles just below 1e21 / 1e-6 whose decimal layout property C06 decides, not this one.
func TextCorner(x float64) bool {
	a := math.Abs(x)
	return (a >= 9.99999999999999e20 && a < 1e21) || (a >= 9.99999999999999e-7 && a < 1e-6)
}

var doubleSpecials = []float64{math.NaN(), 0, math.Copysign(0, -1), math.Inf(1), math.Inf(-1), math.MaxFloat64, -math.MaxFloat64, 5e-324, -5e-324, 2.2250738585072014e-308,
	9007199254740991, 9007199254740992, 9007199254740994, -9007199254740992, 9223372036854775808, -9223372036854775808, 9223372036854774784, 18446744073709551616, 18446744073709549568,
	1e21, 1e-7, 0.1, -0.1, 0.5, -0.5, 1.5, -1.5, 0.9999999999999999, -0.9999999999999999, 4294967295.5, -2147483648.5, 1e300, 123456789012345680000}

// GenDouble draws special values (20 %) or from the shared boundary pool, avoiding the C06 text corners.
func GenDouble(t *rapid.T) float64 {
	if rapid.IntRange(0, 4).Draw(t, "special") == 0 {
		return rapid.SampledFrom(doubleSpecials).Draw(t, "specialdouble")
	}
	return gen.Double().Filter(func(x float64) bool { return !TextCorner(x) }).Draw(t, "double")
}

var float32Corners = []float32{0, float32(math.Copysign(0, -1)), 1, -1, 0.5, 1.5, 0.1, -0.1, 0.3, 16777216, 16777215, -16777217, 3.4028235e38, -3.4028235e38, 1e-45, -1e-45, 1.1754944e-38, 1.1754942e-38,
	float32(math.Inf(1)), float32(math.Inf(-1)), float32(math.NaN()), 2147483648, 4294967296, 9.223372e18, 1.8446744e19, 1e21, 1e-7, 123456.79, 65504, 255, 256}

func genFloat32(t *rapid.T) string {
	var x float32
	switch k := rapid.IntRange(0, 9).Draw(t, "f32kind"); {
	case k < 5:
		x = rapid.SampledFrom(float32Corners).Draw(t, "f32corner")
	case k < 7:
		x = float32(GenDouble(t))
	default:
		x = math.Float32frombits(rapid.Uint32().Draw(t, "f32bits"))
	}
	if TextCorner(float64(x)) {
		x = 1.25
	}
	return FloatLit(float64(x), 32)
}

// GoNumericStrings: strings that make Value.ToFloat/ToInteger interesting when a Go string is set
// (every alternative of StringNumericLiteral, white space, near misses, the Go-only spellings).
var GoNumericStrings = []string{"", " ", "0", "-0", "+0", "1", "-1", "12", "007", "1.5", "-1.5", ".5", "5.", "1e3", "1E3", "1e+3", "1e-3", "1e400", "-1e400", "1e-400",
	"Infinity", "+Infinity", "-Infinity", "0x10", "0X1f", "0xffffffff", "0x7fffffffffffffff", "4294967296", "-2147483649", "9007199254740993", "9223372036854775808",
	"-9223372036854775809", "18446744073709551616", "1e21", "123456789012345678901234567890", "0.1", "4.9e-324", "2.4703282292062327e-324", "1.7976931348623159e308",
	"3.5", "-3.5", " 12 ", "\t7\n", "\u00a01", "1\ufeff", "\u2028 3 \u2029", "\u30001", "  -3.5e1  ", " 0x10 ",
	"0x", "+0x10", "-0x10", "1e", ".", "+", "-", "e5", "Infinityx", "+ 1", "1 2", "1,5", "\u0661", "NaN", "abc", "1f", "--1", "1e5.5", "true", "null", "12px", "1..", "\u200b1", "1\u0000", "0b1", "0o7",
	"infinity", "INFINITY", "inf", "+inf", "1_0", "0x1_0", "0x1.8p1", "-0x1p1", "0x8000000000000000", "0xffffffffffffffff"}

// SpecialStrings: U+FFFD (what a lone surrogate would decay to), astral characters, NUL, line separators.
var SpecialStrings = []string{"\ufffd", "a\ufffdb", "\ufffd\ufffd", "\U0001F600", "a\U0001F600", "\U00010000", "\U0010FFFF", "\U0001D4B3x\U0001D4B3", "\u00e9", "\u0000", "a\u0000b", "\u2028", "\uffff", "\ud7ff\ue000",
	"\U0001F600\ufffd\u00e9a", "undefined", "null", "[object Object]", "NaN"}

// GenString draws a valid UTF-8 string: numeric-looking (30 %) or over the four alphabets incl. astral and U+FFFD.
func GenString(t *rapid.T) string {
	switch k := rapid.IntRange(0, 9).Draw(t, "strkind"); {
	case k < 3:
		return rapid.SampledFrom(GoNumericStrings).Draw(t, "numstr")
	case k < 5:
		return rapid.SampledFrom(SpecialStrings).Draw(t, "special")
	}
	s, _ := harness.FromUTF16(gen.Units16(8).Draw(t, "units"))
	return s
}

// MapKeys: property names a Go map may carry, incl. ones that collide with Object.prototype members
// ("toString"/"valueOf" are left out: they would change what String(map) does, which is C16's business).
var MapKeys = []string{"a", "b", "c", "k1", "", "length", "0", "1", "-0", "01", "constructor", "hasOwnProperty", "__proto__", "prototype", "é", "\U0001F600", "a b", "x.y", "\ufffd", "A", "undefined", "null"}

func genScalar(t *rapid.T, typ string) D {
	switch u := Underlying(typ); u {
	case "bool":
		return D{T: typ, V: strconv.FormatBool(rapid.Bool().Draw(t, "bool"))}
	case "string":
		return D{T: typ, V: GenString(t)}
	case "float32":
		return D{T: typ, V: genFloat32(t)}
	case "float64":
		return D{T: typ, V: FloatLit(GenDouble(t), 64)}
	default:
		return D{T: typ, V: genInt(t, u)}
	}
}

// GenAny draws a value for an interface{} slot: its dynamic type is chosen here.
func GenAny(t *rapid.T, depth int) D {
	k := rapid.IntRange(0, 19).Draw(t, "anykind")
	switch {
	case k == 0:
		return D{T: "nil"}
	case k < 10 || depth <= 0 && k < 16:
		return genScalar(t, rapid.SampledFrom(ScalarTypes).Draw(t, "scalar"))
	case k < 11:
		return GenTyped(t, rapid.SampledFrom(NamedTypes).Draw(t, "named"), depth)
	case k < 12:
		return GenTyped(t, rapid.SampledFrom(PtrScalarTypes).Draw(t, "ptrscalar"), depth)
	default:
		return GenTyped(t, rapid.SampledFrom(ContainerTypes).Draw(t, "container"), depth)
	}
}

// GenTyped draws a value of static type typ; depth bounds the nesting of containers below it.
func GenTyped(t *rapid.T, typ string, depth int) D {
	switch Shape(typ) {
	case "any":
		return GenAny(t, depth)
	case "scalar":
		return genScalar(t, typ)
	case "ptr":
		if rapid.IntRange(0, 5).Draw(t, "nilptr") == 0 {
			return D{T: typ, Nil: true}
		}
		return D{T: typ, E: []D{GenTyped(t, ElemT(typ), depth)}}
	case "slice":
		if rapid.IntRange(0, 7).Draw(t, "nilslice") == 0 {
			return D{T: typ, Nil: true}
		}
		n := 0
		if depth > 0 {
			n = rapid.IntRange(0, 4).Draw(t, "len")
		}
		d := D{T: typ}
		for i := 0; i < n; i++ {
			d.E = append(d.E, GenTyped(t, ElemT(typ), depth-1))
		}
		return d
	case "array":
		d := D{T: typ}
		for i := 0; i < ArrayLen(typ); i++ {
			d.E = append(d.E, GenTyped(t, ElemT(typ), depth-1))
		}
		return d
	case "map":
		if rapid.IntRange(0, 7).Draw(t, "nilmap") == 0 {
			return D{T: typ, Nil: true}
		}
		n := 0
		if depth > 0 {
			n = rapid.IntRange(0, 4).Draw(t, "len")
		}
		d := D{T: typ}
		seen := map[string]bool{}
		for i := 0; i < n; i++ {
			k := rapid.SampledFrom(MapKeys).Draw(t, "key")
			if seen[k] {
				continue
			}
			seen[k] = true
			d.K = append(d.K, k)
			d.E = append(d.E, GenTyped(t, ElemT(typ), depth-1))
		}
		return d
	case "struct":
		d := D{T: typ}
		for _, f := range StructFields(typ) {
			d.E = append(d.E, GenTyped(t, f[1], depth-1))
		}
		return d
	}
	panic("m15: cannot generate " + typ)
}

// weighted scalar kinds for top-level values: numbers and strings carry the interesting classes
var topScalars = []string{"bool", "int", "int8", "int16", "int32", "int64", "int64", "uint", "uint8", "uint16", "uint32", "uint64", "uint64", "float32", "float32", "float64", "float64", "float64", "string", "string", "string"}

// GenTop draws a top-level Go value of any supported kind (containers nested to depth 3).
func GenTop(t *rapid.T) D {
	k := rapid.IntRange(0, 19).Draw(t, "topkind")
	switch {
	case k < 7:
		return genScalar(t, rapid.SampledFrom(topScalars).Draw(t, "scalar"))
	case k < 9:
		if rapid.Bool().Draw(t, "nilOrNamed") {
			return D{T: "nil"}
		}
		return GenTyped(t, rapid.SampledFrom(NamedTypes).Draw(t, "named"), 0)
	case k < 10:
		return GenTyped(t, rapid.SampledFrom(PtrScalarTypes).Draw(t, "ptrscalar"), 0)
	default:
		return GenTyped(t, rapid.SampledFrom(ContainerTypes).Draw(t, "container"), 3)
	}
}

// Depth is the container nesting depth of a described value (scalars 0).
func Depth(d D) int {
	switch Shape(d.T) {
	case "scalar", "nil":
		return 0
	}
	m := 0
	for _, e := range d.E {
		if x := Depth(e); x > m {
			m = x
		}
	}
	if Shape(d.T) == "ptr" {
		return m
	}
	return m + 1
}

// Walk calls f on d and every described value below it.
func Walk(d D, f func(D)) {
	f(d)
	for _, e := range d.E {
		Walk(e, f)
	}
}
