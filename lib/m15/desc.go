// Package m15 is the model side of property C15 (Go -> JavaScript -> Go round trip): JSON-serialisable
// descriptors of Go values (materialised by reflection), their JavaScript counterparts with the ES5
// conversions, comparison helpers, and descriptors of JavaScript values for the opposite direction.
// It shares no code with otto.
package m15

import (
	"fmt"
	"math"
	"reflect"
	"strconv"
	"strings"
	"unsafe"
)

// D describes one Go value. T is its (dynamic) Go type in a tiny grammar:
//
//	bool int int8 … uint64 float32 float64 string   scalars, V holds the literal
//	MyInt MyU16 MyF32 MyStr MyBool                    named scalar types
//	nil                                               the nil interface
//	[]X [n]X map[string]X *X                          X any type of the grammar, or "any" (interface{})
//	Pt Rec Emb                                        struct types declared below
//
// E holds slice/array elements, map values (keys in K), struct fields in declaration order, or the
// pointee of a pointer; Nil marks a nil slice, map or pointer. An element standing in an "any" slot
// carries its own dynamic type.
type D struct {
	T   string   `json:"t"`
	V   string   `json:"v,omitempty"`
	Nil bool     `json:"nil,omitempty"`
	E   []D      `json:"e,omitempty"`
	K   []string `json:"k,omitempty"`
}

// ---- the Go types of the domain ------------------------------------------------------------------

type (
	MyInt  int
	MyU16  uint16
	MyF32  float32
	MyStr  string
	MyBool bool
)

// Pt is a small struct with a method (methods show up in for-in, fields must still read correctly).
type Pt struct{ X, Y int }

// Sum is only there to give Pt a method set.
func (p Pt) Sum() int { return p.X + p.Y }

// Rec has one field of every shape, a json tag and an unexported field.
type Rec struct {
	B      bool
	I8     int8
	U16    uint16
	I64    int64
	U64    uint64
	F32    float32
	F64    float64
	S      string
	Any    interface{}
	Ints   []int
	M      map[string]string
	P      *Pt
	Arr    [2]int
	Tagged string `json:"tagged"`
	hidden int
}

// Emb embeds Pt.
type Emb struct {
	Pt
	Z int
}

// StructFields gives (name, type) of every field of a struct type of the grammar, in order.
func StructFields(t string) [][2]string {
	switch t {
	case "Pt":
		return [][2]string{{"X", "int"}, {"Y", "int"}}
	case "Rec":
		return [][2]string{{"B", "bool"}, {"I8", "int8"}, {"U16", "uint16"}, {"I64", "int64"}, {"U64", "uint64"}, {"F32", "float32"}, {"F64", "float64"}, {"S", "string"},
			{"Any", "any"}, {"Ints", "[]int"}, {"M", "map[string]string"}, {"P", "*Pt"}, {"Arr", "[2]int"}, {"Tagged", "string"}, {"hidden", "int"}}
	case "Emb":
		return [][2]string{{"Pt", "Pt"}, {"Z", "int"}}
	}
	return nil
}

var baseTypes = map[string]reflect.Type{
	"bool": reflect.TypeOf(false), "string": reflect.TypeOf(""),
	"int": reflect.TypeOf(int(0)), "int8": reflect.TypeOf(int8(0)), "int16": reflect.TypeOf(int16(0)), "int32": reflect.TypeOf(int32(0)), "int64": reflect.TypeOf(int64(0)),
	"uint": reflect.TypeOf(uint(0)), "uint8": reflect.TypeOf(uint8(0)), "uint16": reflect.TypeOf(uint16(0)), "uint32": reflect.TypeOf(uint32(0)), "uint64": reflect.TypeOf(uint64(0)),
	"float32": reflect.TypeOf(float32(0)), "float64": reflect.TypeOf(float64(0)),
	"MyInt": reflect.TypeOf(MyInt(0)), "MyU16": reflect.TypeOf(MyU16(0)), "MyF32": reflect.TypeOf(MyF32(0)), "MyStr": reflect.TypeOf(MyStr("")), "MyBool": reflect.TypeOf(MyBool(false)),
	"Pt": reflect.TypeOf(Pt{}), "Rec": reflect.TypeOf(Rec{}), "Emb": reflect.TypeOf(Emb{}),
	"any": reflect.TypeOf((*interface{})(nil)).Elem(),
}

// ElemT gives the element type of a "[]X", "[n]X", "map[string]X" or "*X" type string.
func ElemT(t string) string {
	switch {
	case strings.HasPrefix(t, "[]"):
		return t[2:]
	case strings.HasPrefix(t, "map[string]"):
		return t[len("map[string]"):]
	case strings.HasPrefix(t, "*"):
		return t[1:]
	case strings.HasPrefix(t, "["):
		return t[strings.IndexByte(t, ']')+1:]
	}
	return ""
}

// Shape classifies a type string: "slice", "array", "map", "ptr", "struct", "any", "nil" or "scalar".
func Shape(t string) string {
	switch {
	case t == "nil":
		return "nil"
	case t == "any":
		return "any"
	case strings.HasPrefix(t, "[]"):
		return "slice"
	case strings.HasPrefix(t, "map[string]"):
		return "map"
	case strings.HasPrefix(t, "*"):
		return "ptr"
	case strings.HasPrefix(t, "["):
		return "array"
	case t == "Pt" || t == "Rec" || t == "Emb":
		return "struct"
	}
	return "scalar"
}

// ArrayLen gives n of "[n]X".
func ArrayLen(t string) int {
	n, _ := strconv.Atoi(t[1:strings.IndexByte(t, ']')])
	return n
}

// TypeOf maps a type string to its reflect.Type.
func TypeOf(t string) reflect.Type {
	if b, ok := baseTypes[t]; ok {
		return b
	}
	switch Shape(t) {
	case "slice":
		return reflect.SliceOf(TypeOf(ElemT(t)))
	case "map":
		return reflect.MapOf(baseTypes["string"], TypeOf(ElemT(t)))
	case "ptr":
		return reflect.PointerTo(TypeOf(ElemT(t)))
	case "array":
		return reflect.ArrayOf(ArrayLen(t), TypeOf(ElemT(t)))
	}
	panic("m15: unknown type " + t)
}

// Underlying gives the predeclared kind name behind a scalar type of the grammar ("MyInt" -> "int").
func Underlying(t string) string {
	switch t {
	case "MyInt":
		return "int"
	case "MyU16":
		return "uint16"
	case "MyF32":
		return "float32"
	case "MyStr":
		return "string"
	case "MyBool":
		return "bool"
	}
	return t
}

// ---- literals ------------------------------------------------------------------------------------

// FloatLit renders a float so that ParseFloatLit(…, bits) returns exactly it (NaN payloads collapse).
func FloatLit(x float64, bits int) string {
	switch {
	case math.IsNaN(x):
		return "NaN"
	case math.IsInf(x, 1):
		return "Infinity"
	case math.IsInf(x, -1):
		return "-Infinity"
	case x == 0 && math.Signbit(x):
		return "-0"
	}
	return strconv.FormatFloat(x, 'g', -1, bits)
}

// ParseFloatLit is the inverse of FloatLit.
func ParseFloatLit(s string, bits int) float64 {
	switch s {
	case "NaN":
		return math.NaN()
	case "Infinity":
		return math.Inf(1)
	case "-Infinity":
		return math.Inf(-1)
	case "-0":
		return math.Copysign(0, -1)
	}
	x, err := strconv.ParseFloat(s, bits)
	if err != nil {
		panic(fmt.Sprintf("m15: bad float literal %q: %v", s, err))
	}
	return x
}

// ---- materialisation -----------------------------------------------------------------------------

// Build materialises the described value (a fresh copy on every call).
func Build(d D) interface{} {
	if d.T == "nil" {
		return nil
	}
	return build(d).Interface()
}

func build(d D) reflect.Value {
	t := TypeOf(d.T)
	v := reflect.New(t).Elem()
	switch t.Kind() {
	case reflect.Bool:
		v.SetBool(d.V == "true")
	case reflect.Int, reflect.Int8, reflect.Int16, reflect.Int32, reflect.Int64:
		n, err := strconv.ParseInt(d.V, 10, 64)
		if err != nil {
			panic(err)
		}
		v.SetInt(n)
	case reflect.Uint, reflect.Uint8, reflect.Uint16, reflect.Uint32, reflect.Uint64:
		n, err := strconv.ParseUint(d.V, 10, 64)
		if err != nil {
			panic(err)
		}
		v.SetUint(n)
	case reflect.Float32:
		v.SetFloat(ParseFloatLit(d.V, 32))
	case reflect.Float64:
		v.SetFloat(ParseFloatLit(d.V, 64))
	case reflect.String:
		v.SetString(d.V)
	case reflect.Slice:
		if d.Nil {
			return v
		}
		v.Set(reflect.MakeSlice(t, len(d.E), len(d.E)))
		for i := range d.E {
			setSlot(v.Index(i), d.E[i])
		}
	case reflect.Array:
		for i := range d.E {
			setSlot(v.Index(i), d.E[i])
		}
	case reflect.Map:
		if d.Nil {
			return v
		}
		v.Set(reflect.MakeMapWithSize(t, len(d.E)))
		for i := range d.E {
			slot := reflect.New(t.Elem()).Elem()
			setSlot(slot, d.E[i])
			v.SetMapIndex(reflect.ValueOf(d.K[i]), slot)
		}
	case reflect.Ptr:
		if d.Nil {
			return v
		}
		p := reflect.New(t.Elem())
		setSlot(p.Elem(), d.E[0])
		return p
	case reflect.Struct:
		for i := range d.E {
			f := v.Field(i)
			if !f.CanSet() { // unexported: write through its address
				f = reflect.NewAt(f.Type(), unsafe.Pointer(f.UnsafeAddr())).Elem()
			}
			setSlot(f, d.E[i])
		}
	default:
		panic("m15: cannot build " + d.T)
	}
	return v
}

func setSlot(slot reflect.Value, d D) {
	if d.T == "nil" {
		slot.Set(reflect.Zero(slot.Type()))
		return
	}
	slot.Set(build(d))
}

// ---- comparison of Go values -----------------------------------------------------------------------

// SameFloat: identical doubles, all NaNs equal, +0 and -0 different.
func SameFloat(a, b float64) bool {
	if math.IsNaN(a) || math.IsNaN(b) {
		return math.IsNaN(a) && math.IsNaN(b)
	}
	return math.Float64bits(a) == math.Float64bits(b)
}

// DeepSame is reflect.DeepEqual with identical dynamic types required at every level, NaN equal to
// NaN, -0 different from +0, nil slices/maps different from empty ones, and unexported fields compared.
// It returns "" or the path of the first difference.
func DeepSame(want, got interface{}) string {
	return deepSame(reflect.ValueOf(want), reflect.ValueOf(got), "value")
}

func deepSame(a, b reflect.Value, p string) string {
	if !a.IsValid() || !b.IsValid() {
		if a.IsValid() != b.IsValid() {
			return fmt.Sprintf("%s: nil-ness differs (want valid=%v, got valid=%v)", p, a.IsValid(), b.IsValid())
		}
		return ""
	}
	if a.Type() != b.Type() {
		return fmt.Sprintf("%s: type %v, want %v", p, b.Type(), a.Type())
	}
	switch a.Kind() {
	case reflect.Bool:
		if a.Bool() != b.Bool() {
			return fmt.Sprintf("%s: %v, want %v", p, b.Bool(), a.Bool())
		}
	case reflect.Int, reflect.Int8, reflect.Int16, reflect.Int32, reflect.Int64:
		if a.Int() != b.Int() {
			return fmt.Sprintf("%s: %d, want %d", p, b.Int(), a.Int())
		}
	case reflect.Uint, reflect.Uint8, reflect.Uint16, reflect.Uint32, reflect.Uint64:
		if a.Uint() != b.Uint() {
			return fmt.Sprintf("%s: %d, want %d", p, b.Uint(), a.Uint())
		}
	case reflect.Float32, reflect.Float64:
		if !SameFloat(a.Float(), b.Float()) {
			return fmt.Sprintf("%s: %v, want %v", p, FloatLit(b.Float(), 64), FloatLit(a.Float(), 64))
		}
	case reflect.String:
		if a.String() != b.String() {
			return fmt.Sprintf("%s: %q, want %q", p, b.String(), a.String())
		}
	case reflect.Slice:
		if a.IsNil() != b.IsNil() {
			return fmt.Sprintf("%s: nil slice %v, want %v", p, b.IsNil(), a.IsNil())
		}
		fallthrough
	case reflect.Array:
		if a.Len() != b.Len() {
			return fmt.Sprintf("%s: length %d, want %d", p, b.Len(), a.Len())
		}
		for i := 0; i < a.Len(); i++ {
			if r := deepSame(a.Index(i), b.Index(i), fmt.Sprintf("%s[%d]", p, i)); r != "" {
				return r
			}
		}
	case reflect.Map:
		if a.IsNil() != b.IsNil() {
			return fmt.Sprintf("%s: nil map %v, want %v", p, b.IsNil(), a.IsNil())
		}
		if a.Len() != b.Len() {
			return fmt.Sprintf("%s: %d keys, want %d", p, b.Len(), a.Len())
		}
		for _, k := range a.MapKeys() {
			bv := b.MapIndex(k)
			if !bv.IsValid() {
				return fmt.Sprintf("%s: key %q missing", p, k.String())
			}
			if r := deepSame(a.MapIndex(k), bv, fmt.Sprintf("%s[%q]", p, k.String())); r != "" {
				return r
			}
		}
	case reflect.Ptr:
		if a.IsNil() != b.IsNil() {
			return fmt.Sprintf("%s: nil pointer %v, want %v", p, b.IsNil(), a.IsNil())
		}
		if !a.IsNil() {
			return deepSame(a.Elem(), b.Elem(), "*"+p)
		}
	case reflect.Interface:
		if a.IsNil() != b.IsNil() {
			return fmt.Sprintf("%s: nil interface %v, want %v", p, b.IsNil(), a.IsNil())
		}
		if !a.IsNil() {
			return deepSame(a.Elem(), b.Elem(), p)
		}
	case reflect.Struct:
		for i := 0; i < a.NumField(); i++ {
			if r := deepSame(a.Field(i), b.Field(i), p+"."+a.Type().Field(i).Name); r != "" {
				return r
			}
		}
	default:
		return fmt.Sprintf("%s: kind %v not comparable here", p, a.Kind())
	}
	return ""
}
