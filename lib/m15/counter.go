package m15

import (
	"bytes"
	"encoding/json"
	"fmt"
	"math"
	"math/big"
	"sort"
	"strconv"
	"strings"
	"unicode/utf16"

	"verif/lib/es5"
)

// JV is the JavaScript counterpart of a Go value, as far as reading goes: what a script must see.
type JV struct {
	Kind      string // "undefined" "boolean" "number" "string" "array" "object"
	B         bool
	N         float64
	Exact     string // numbers that come from int/int64/uint/uint64: the exact decimal digits
	S         string
	Elems     []JV     // array elements, object values
	Keys      []string // object keys, parallel to Elems
	ExactKeys bool     // object: for-in yields exactly Keys (maps); false for structs (methods also show up)
}

// Units is the length of s in UTF-16 code units.
func Units(s string) int { return len(utf16.Encode([]rune(s))) }

// Counterpart maps a described Go value to the JavaScript value scripts must see.
func Counterpart(d D) JV {
	switch Shape(d.T) {
	case "nil":
		return JV{Kind: "undefined"}
	case "ptr":
		if d.Nil {
			return JV{Kind: "undefined"}
		}
		return Counterpart(d.E[0])
	case "slice", "array":
		out := JV{Kind: "array"}
		for _, e := range d.E {
			out.Elems = append(out.Elems, Counterpart(e))
		}
		return out
	case "map":
		out := JV{Kind: "object", ExactKeys: true}
		for i, e := range d.E {
			out.Keys = append(out.Keys, d.K[i])
			out.Elems = append(out.Elems, Counterpart(e))
		}
		return out
	case "struct":
		out := JV{Kind: "object"}
		for i, f := range StructFields(d.T) {
			if f[0][0] < 'A' || f[0][0] > 'Z' {
				continue // unexported fields are not visible
			}
			out.Keys = append(out.Keys, f[0])
			out.Elems = append(out.Elems, Counterpart(d.E[i]))
		}
		return out
	}
	switch u := Underlying(d.T); u {
	case "bool":
		return JV{Kind: "boolean", B: d.V == "true"}
	case "string":
		return JV{Kind: "string", S: d.V}
	case "float32":
		return JV{Kind: "number", N: ParseFloatLit(d.V, 32)}
	case "float64":
		return JV{Kind: "number", N: ParseFloatLit(d.V, 64)}
	case "int", "int64":
		n, _ := strconv.ParseInt(d.V, 10, 64)
		return JV{Kind: "number", N: float64(n), Exact: d.V}
	case "uint", "uint64":
		n, _ := strconv.ParseUint(d.V, 10, 64)
		return JV{Kind: "number", N: float64(n), Exact: d.V}
	case "int8", "int16", "int32":
		n, _ := strconv.ParseInt(d.V, 10, 64)
		return JV{Kind: "number", N: float64(n)}
	case "uint8", "uint16", "uint32":
		n, _ := strconv.ParseUint(d.V, 10, 64)
		return JV{Kind: "number", N: float64(n)}
	}
	panic("m15: no counterpart for " + d.T)
}

// ToString is ES5 9.8 on the counterpart (arrays: 15.4.4.2/15.4.4.5 join; other objects "[object Object]").
// With unrounded set, numbers that otto holds as 64-bit Go integers print all their digits (the
// distortion of finding C15-INT64-UNROUNDED).
func (v JV) ToString(unrounded bool) string {
	switch v.Kind {
	case "undefined":
		return "undefined"
	case "null":
		return "null"
	case "boolean":
		return strconv.FormatBool(v.B)
	case "number":
		if unrounded && v.Exact != "" {
			return v.Exact
		}
		return es5.NumberToString(v.N)
	case "string":
		return v.S
	case "array":
		parts := make([]string, len(v.Elems))
		for i, e := range v.Elems {
			if e.Kind != "undefined" && e.Kind != "null" {
				parts[i] = e.ToString(unrounded)
			}
		}
		return strings.Join(parts, ",")
	}
	return "[object Object]"
}

// ToNumber is ES5 9.3 on the counterpart.
func (v JV) ToNumber() float64 {
	switch v.Kind {
	case "undefined":
		return math.NaN()
	case "null":
		return 0
	case "boolean":
		if v.B {
			return 1
		}
		return 0
	case "number":
		return v.N
	}
	return es5.StringToNumber(utf16.Encode([]rune(v.ToString(false))))
}

// ToBoolean is ES5 9.2.
func (v JV) ToBoolean() bool {
	switch v.Kind {
	case "undefined", "null":
		return false
	case "boolean":
		return v.B
	case "number":
		return !(math.IsNaN(v.N) || v.N == 0)
	case "string":
		return v.S != ""
	}
	return true
}

// ToInt64 is Value.ToInteger as documented: ToNumber, NaN gives 0, truncation toward zero,
// saturation at the int64 range.
func ToInt64(x float64) int64 {
	switch {
	case math.IsNaN(x):
		return 0
	case x >= 9223372036854775808.0:
		return math.MaxInt64
	case x <= -9223372036854775808.0:
		return math.MinInt64
	}
	return int64(math.Trunc(x))
}

// NumLit renders a double as an ES5 expression denoting exactly it, never as an integer literal
// (otto keeps integer literals as int64).
func NumLit(x float64) string {
	switch {
	case math.IsNaN(x):
		return "NaN"
	case math.IsInf(x, 1):
		return "Infinity"
	case math.IsInf(x, -1):
		return "-Infinity"
	case x == 0 && math.Signbit(x):
		return "-0"
	}
	return strconv.FormatFloat(x, 'e', -1, 64)
}

// JSStr renders a valid UTF-8 string as an ES5 string literal (astral characters raw, see harness.JSString).
func JSStr(s string) string {
	var b strings.Builder
	b.WriteByte('"')
	for _, r := range s {
		switch {
		case r == '"' || r == '\\':
			b.WriteByte('\\')
			b.WriteRune(r)
		case r >= 0x20 && r < 0x7f:
			b.WriteRune(r)
		case r < 0x10000:
			fmt.Fprintf(&b, "\\u%04X", r)
		default:
			b.WriteRune(r)
		}
	}
	b.WriteByte('"')
	return b.String()
}

// ExpectSrc renders the counterpart as the tagged tree the in-script comparer c15eq understands:
// ["u"] ["b",bool] ["n",number] ["s",string,units] ["a",[nodes]] ["m",[[key,node]…],exactKeys].
func (v JV) ExpectSrc() string {
	switch v.Kind {
	case "undefined", "null":
		return `["u"]`
	case "boolean":
		return `["b",` + strconv.FormatBool(v.B) + `]`
	case "number":
		return `["n",` + NumLit(v.N) + `]`
	case "string":
		return `["s",` + JSStr(v.S) + `,` + strconv.Itoa(Units(v.S)) + `]`
	case "array":
		parts := make([]string, len(v.Elems))
		for i, e := range v.Elems {
			parts[i] = e.ExpectSrc()
		}
		return `["a",[` + strings.Join(parts, ",") + `]]`
	}
	parts := make([]string, len(v.Elems))
	for i, e := range v.Elems {
		parts[i] = `[` + JSStr(v.Keys[i]) + `,` + e.ExpectSrc() + `]`
	}
	return `["m",[` + strings.Join(parts, ",") + `],` + strconv.FormatBool(v.ExactKeys) + `]`
}

// HasUnrounded reports whether the value's string form differs between ES5 and otto's un-rounded
// 64-bit integers.
func (v JV) HasUnrounded() bool { return v.ToString(true) != v.ToString(false) }

// EqSrc is the in-script comparer: c15eq(actual, expectedTree, path) returns "" or the first difference.
const EqSrc = `function c15eq(a, e, p) {
  var i, r, n;
  switch (e[0]) {
  case "u":
    return a == null ? "" : p + ": expected undefined/null, got typeof " + typeof a;
  case "b":
    if (typeof a !== "boolean") return p + ": typeof " + typeof a + ", expected boolean";
    return a === e[1] ? "" : p + ": boolean differs";
  case "n":
    if (typeof a !== "number") return p + ": typeof " + typeof a + ", expected number";
    if (e[1] !== e[1]) return a !== a ? "" : p + ": expected NaN";
    if (!(a === e[1])) return p + ": number differs";
    if (e[1] === 0 && 1 / a !== 1 / e[1]) return p + ": sign of zero differs";
    return "";
  case "s":
    if (typeof a !== "string") return p + ": typeof " + typeof a + ", expected string";
    if (a !== e[1]) return p + ": string differs";
    if (a.length !== e[2]) return p + ": length " + a.length + ", expected " + e[2] + " UTF-16 units";
    return "";
  case "a":
    if (typeof a !== "object" || a === null) return p + ": typeof " + typeof a + ", expected an array-like object";
    if (a.length !== e[1].length) return p + ": length " + a.length + ", expected " + e[1].length;
    for (i = 0; i < e[1].length; i++) {
      if (!(i in a)) return p + ": index " + i + " not in array";
      r = c15eq(a[i], e[1][i], p + "[" + i + "]");
      if (r) return r;
    }
    if (a[e[1].length] !== undefined) return p + ": element past the end";
    return "";
  case "m":
    if (typeof a !== "object" || a === null) return p + ": typeof " + typeof a + ", expected an object";
    for (i = 0; i < e[1].length; i++) {
      if (!(e[1][i][0] in a)) return p + ": key " + e[1][i][0] + " missing";
      r = c15eq(a[e[1][i][0]], e[1][i][1], p + "[" + e[1][i][0] + "]");
      if (r) return r;
    }
    if (e[2]) {
      n = 0;
      for (r in a) n++;
      if (n !== e[1].length) return p + ": for-in yields " + n + " keys, expected " + e[1].length;
    }
    return "";
  }
  return p + ": bad expectation";
}`

// ---- JSON trees ------------------------------------------------------------------------------------

func decodeJSON(b []byte) (interface{}, error) {
	dec := json.NewDecoder(bytes.NewReader(b))
	dec.UseNumber()
	var v interface{}
	if err := dec.Decode(&v); err != nil {
		return nil, err
	}
	if dec.More() {
		return nil, fmt.Errorf("trailing data")
	}
	return v, nil
}

// SameJSON reports "" when the two JSON texts denote the same tree. exact: numbers are compared by
// exact decimal value and "-0" differs from "0" (Go data: uint64 digits matter); otherwise as the
// doubles they denote (JavaScript data: the spelling of a double is JSON.stringify's business).
func SameJSON(want, got []byte, exact bool) string {
	w, err := decodeJSON(want)
	if err != nil {
		return "reference JSON does not parse: " + err.Error()
	}
	g, err := decodeJSON(got)
	if err != nil {
		return fmt.Sprintf("not valid JSON (%v): %.80s", err, got)
	}
	return sameTree(w, g, "$", exact)
}

func sameTree(w, g interface{}, p string, exact bool) string {
	switch wv := w.(type) {
	case nil:
		if g != nil {
			return fmt.Sprintf("%s: %v, want null", p, g)
		}
	case bool:
		if gv, ok := g.(bool); !ok || gv != wv {
			return fmt.Sprintf("%s: %v, want %v", p, g, wv)
		}
	case string:
		if gv, ok := g.(string); !ok || gv != wv {
			return fmt.Sprintf("%s: %q, want %q", p, g, wv)
		}
	case json.Number:
		gv, ok := g.(json.Number)
		if !ok {
			return fmt.Sprintf("%s: %v, want number %s", p, g, wv)
		}
		if !exact {
			x, e1 := strconv.ParseFloat(string(wv), 64)
			y, e2 := strconv.ParseFloat(string(gv), 64)
			if e1 != nil || e2 != nil || x != y {
				return fmt.Sprintf("%s: %s, want %s", p, gv, wv)
			}
			return ""
		}
		a, ok1 := new(big.Rat).SetString(string(wv))
		b, ok2 := new(big.Rat).SetString(string(gv))
		if !ok1 || !ok2 || a.Cmp(b) != 0 || (strings.HasPrefix(string(wv), "-") != strings.HasPrefix(string(gv), "-")) {
			return fmt.Sprintf("%s: %s, want %s", p, gv, wv)
		}
	case []interface{}:
		gv, ok := g.([]interface{})
		if !ok || len(gv) != len(wv) {
			return fmt.Sprintf("%s: %v, want array of %d", p, g, len(wv))
		}
		for i := range wv {
			if r := sameTree(wv[i], gv[i], fmt.Sprintf("%s[%d]", p, i), exact); r != "" {
				return r
			}
		}
	case map[string]interface{}:
		gv, ok := g.(map[string]interface{})
		if !ok || len(gv) != len(wv) {
			return fmt.Sprintf("%s: %v, want object with %d keys", p, g, len(wv))
		}
		keys := make([]string, 0, len(wv))
		for k := range wv {
			keys = append(keys, k)
		}
		sort.Strings(keys)
		for _, k := range keys {
			ge, ok := gv[k]
			if !ok {
				return fmt.Sprintf("%s: key %q missing", p, k)
			}
			if r := sameTree(wv[k], ge, p+"."+k, exact); r != "" {
				return r
			}
		}
	}
	return ""
}
