package m19

import (
	"fmt"
	"sort"
	"strings"
)

// Link kinds. Every link transfers control from the current frame to the next context.
//
//	decl     function declaration, called by name                 frame name = declared name
//	nexpr    named function expression in a var, called by var    frame name = the expression's own name
//	aexpr    anonymous function expression in a var               frame name = ""
//	method   object-literal method, o.m() or o["m"]()             frame name = "" / own name
//	ctor     constructor, `new C()` or `new C`                    call site = the C after `new`
//	foreach map sort filter some every reduce   array callback    native frame in between
//	getter setter  accessor invoked by a property read / write    (finding C19-PROPERTY-ACCESS-SITE)
//	eval     direct eval: no frame, the enclosing frame continues in the eval code
//	evalind  indirect eval: native frame `eval` + anonymous global-code frame
//	bound    f.bind(null) called: one frame, the target's
//	call apply     f.call(null) / f.apply(null, []): native frame in between
//	host     Go function that calls its argument back: native Go frame in between
//	notref   callee is not an identifier/member expression: pick(f)()   (finding C19-CALLEE-NOT-REFERENCE)
var LinkKinds = []string{"decl", "nexpr", "aexpr", "method", "ctor", "foreach", "map", "sort", "filter", "some", "every", "reduce",
	"getter", "setter", "eval", "evalind", "bound", "call", "apply", "host", "notref"}

var Noises = []string{"noop", "var", "obj", "eval0", "newobj", "ustr", "evalthrow"}
var Wraps = []string{"", "", "", "try-rethrow", "try-finally", "block"}
var StmtForms = []string{"expr", "return", "var", "if", "binary", "arg", "cond", "comma", "paren"}

type Link struct {
	Kind  string   `json:"kind"`
	Var   int      `json:"var,omitempty"` // variant selector
	Rec   int      `json:"rec,omitempty"` // extra recursive activations (decl/nexpr/aexpr only)
	Wrap  string   `json:"wrap,omitempty"`
	Stmt  string   `json:"stmt,omitempty"`
	Noise []string `json:"noise,omitempty"` // statements executed in the calling context before the call
}

type Raise struct {
	Kind  string   `json:"kind"`
	Var   int      `json:"var"`
	Wrap  string   `json:"wrap,omitempty"`
	Stmt  string   `json:"stmt,omitempty"`
	Noise []string `json:"noise,omitempty"`
}

type Case struct {
	Links    []Link `json:"links"`
	Raise    Raise  `json:"raise"`
	Tape     []byte `json:"tape"`
	Limit    int    `json:"limit"`
	File     string `json:"file"`
	Route    string `json:"route"` // compile | run-string | program
	LT       string `json:"lt,omitempty"`
	NonASCII bool   `json:"nonascii,omitempty"`
}

// Frame is one expected line of the stack trace.
type Frame struct {
	Name   string   // function name ("" = anonymous function or global code)
	Native bool     // built-in frame: "Name (<native code>)"
	Host   bool     // Go host function frame: "<go name> (<file>.go:<line>)"
	Label  string   // file label of the executing construct ("<anonymous>" or the file name)
	At     Pos      // start of the construct executing in this frame
	End    Pos      // just after that construct
	Exact  bool     // At is the documented position; otherwise any position within [At, End) is accepted
	Wild   []string // known-finding ids that make this frame's location unreliable
	Drop   string   // known-finding id under which this frame is missing from the trace
	set    bool
}

// Expect is what ES5 prescribes for the raised value.
type Expect struct {
	Class      string  // native error constructor name; "" for thrown non-Error values
	Thrown     string  // for non-Error values: typeof
	Text       string  // for non-Error values: String(value); for user-constructed errors "Name: message" at throw time
	UserMsg    bool    // the message was chosen by the script (may be empty)
	Name       string  // expected e.name at the time of the throw
	Message    *string // expected e.message when known (user-constructed), nil otherwise
	CtorName   string  // name and message at construction (finding C19-RENAMED-ERROR-TEXT compares modulo these)
	CtorMsg    string
	Renamed    bool
	Heads      []string // native frames that may sit on top of the innermost script frame
	EmptyMsgID string   // known finding: the message is missing for this construct
}

type Rendered struct {
	Src      string
	Frames   []Frame // outermost (global code) first
	Expect   Expect
	Features []string
	// Syntax-error constructs: position of the offending token in the text that fails to parse.
	Syntax     bool
	ParseError bool // the program itself does not parse (otherwise: the innermost eval code)
	SynAt      Pos
}

type raiseSpec struct {
	toks        func(at, end *Pos) []tk
	class       string
	heads       []string
	exact       bool
	wild        string
	assign      bool // an assignment expression: only statement-level forms
	stmt        bool // a statement (throw …): only statement-level forms
	emptyID     string
	expect      func(e *Expect)
	syntax      bool // the construct is a syntax error: the enclosing program (or eval code) does not parse
	eof         bool // … reported at the end of the enclosing text
	noRet       bool // variant needs a context where `return` is illegal
	openComment bool // the construct is an unterminated block comment
}

func mk(s string, markIdx int, at, end *Pos) []tk {
	ts := words(s)
	ts[markIdx].start = at
	ts[len(ts)-1].end = end
	return ts
}

var NativeCtors = []string{"Error", "EvalError", "RangeError", "ReferenceError", "SyntaxError", "TypeError", "URIError"}

const (
	KOperator  = "C19-OPERATOR-NO-POSITION"
	KAccessor  = "C19-PROPERTY-ACCESS-SITE"
	KNotRef    = "C19-CALLEE-NOT-REFERENCE"
	KEvalFile  = "C19-EVAL-FILE-STICKS"
	KRenamed   = "C19-RENAMED-ERROR-TEXT"
	KArrayMsg  = "C19-ARRAY-LENGTH-NO-MESSAGE"
	KEmptyArg  = "C19-EMPTY-MESSAGE-UNDEFINED"
	KColBytes  = "C19-COLUMN-BYTES"
	KColBytesP = "C19-PARSER-COLUMN-BYTES"
	KLineTerm  = "C19-RUNTIME-LINE-TERMINATORS"
)

// RaiseKinds lists the kinds with their number of variants.
var RaiseKinds = []struct {
	Kind string
	N    int
}{
	{"call-nonfn", 8}, {"member-nullish", 7}, {"unresolvable", 8}, {"array-length", 7}, {"number-format", NumberFormatVariants},
	{"eval-syntax", 5}, {"instanceof-in", 6}, {"json-cycle", 4}, {"uri", 2}, {"object-api", 7},
	{"throw-native", 7 * 2 * 5}, {"throw-renamed", 7 * 3}, {"throw-prim", 7}, {"throw-object", 6},
	{"syntax", SyntaxVariants},
}

// receivers of the bad radix / bad precision calls: ordinary numbers, NaN, the infinities, both zeros,
// as primitives (variables, global names, a parenthesised literal) and as Number objects
var numberReceivers = []struct {
	src       string
	mark      int // token at which the member expression starts (parentheses are not part of it)
	nonFinite bool
}{
	{"num", 0, false}, {"n5", 0, false}, {"big", 0, false}, {"oNum", 0, false},
	{"rNaN", 0, true}, {"NaN", 0, true}, {"oNaN", 0, true},
	{"rInf", 0, true}, {"Infinity", 0, true}, {"rNegInf", 0, true}, {"oInf", 0, true}, {"oNegInf", 0, true},
	{"rZero", 0, false}, {"rNegZero", 0, false}, {"( 0 )", 1, false}, {"oZero", 0, false}, {"oNegZero", 0, false},
}

const numberToStringCalls = 9 // the first entries of numberCalls are toString with a bad radix

var numberCalls = []struct{ method, arg string }{
	{"toString", "1"}, {"toString", "37"}, {"toString", "0"}, {"toString", "- 1"}, {"toString", "Infinity"},
	{"toString", "- Infinity"}, {"toString", "NaN"}, {"toString", "1.9"}, {"toString", `"x"`},
	{"toFixed", "101"}, {"toFixed", "- 1"}, {"toFixed", "Infinity"}, {"toFixed", "- Infinity"},
	{"toExponential", "- 1"}, {"toExponential", "101"}, {"toExponential", "Infinity"},
	{"toPrecision", "0"}, {"toPrecision", "101"}, {"toPrecision", "- 1"}, {"toPrecision", "Infinity"}, {"toPrecision", "NaN"},
}

// NumberFormatVariants is the number of (receiver, call) combinations of the number-format kind.
var NumberFormatVariants = len(numberReceivers) * len(numberCalls)

func simple(class, s string, markIdx int, heads ...string) raiseSpec {
	return raiseSpec{class: class, exact: true, heads: heads, toks: func(at, end *Pos) []tk { return mk(s, markIdx, at, end) }}
}

func raiseOf(r Raise) raiseSpec {
	v := r.Var
	if v < 0 {
		v = -v
	}
	switch r.Kind {
	case "call-nonfn": // ES5 11.2.3 step 5 / 11.2.2 step 5: TypeError; position documented: start of the callee
		src := []struct {
			s string
			m int
		}{{"und ( )", 0}, {"n5 ( )", 0}, {"obj . nope ( )", 0}, {`obj [ "nope" ] ( )`, 0}, {"str . nope ( 1 , 2 )", 0}, {"new n5 ( )", 1}, {"new obj . nope", 1}, {"new und", 1}}[v%8]
		return simple("TypeError", src.s, src.m)
	case "member-nullish": // 11.2.1 CheckObjectCoercible: TypeError; position: start of the member expression
		s := []string{"nul . x", "und . x", "nul [ 0 ]", "und . x . y", "nul . x = 1", "und . f ( )", `und [ "k" ] ( 3 )`}[v%7]
		sp := simple("TypeError", s, 0)
		sp.assign = v%7 == 4
		return sp
	case "unresolvable": // 8.7.1 GetValue: ReferenceError; position: the identifier
		src := []struct {
			s string
			m int
		}{{"nope1", 0}, {"1 + nope1", 2}, {"nope1 ( )", 0}, {"nope1 . x", 0}, {"nope1 ++", 0}, {"typeof nope1 . x", 1}, {"noop ( 0 , nope1 )", 4}, {"new nope1", 1}}[v%8]
		sp := simple("ReferenceError", src.s, src.m)
		if v%8 == 4 {
			sp.toks = func(at, end *Pos) []tk {
				return []tk{{s: "nope1", start: at, noNL: true}, {s: "++", end: end}}
			}
		}
		return sp
	case "array-length": // 15.4.2.2, 15.4.5.1 step 3.d: RangeError
		switch v % 7 {
		case 0:
			sp := simple("RangeError", "new Array ( - 1 )", 1, "Array")
			sp.emptyID = KArrayMsg
			return sp
		case 1:
			sp := simple("RangeError", "Array ( - 1 )", 0, "Array")
			sp.emptyID = KArrayMsg
			return sp
		case 2:
			sp := simple("RangeError", "new Array ( 1.5 )", 1, "Array")
			sp.emptyID = KArrayMsg
			return sp
		case 3:
			sp := simple("RangeError", "new Array ( 4294967296 )", 1, "Array")
			sp.emptyID = KArrayMsg
			return sp
		case 4:
			sp := simple("RangeError", "arr0 . length = - 1", 0)
			sp.emptyID, sp.assign, sp.exact, sp.wild = KArrayMsg, true, false, KAccessor
			return sp
		case 5:
			sp := simple("RangeError", "arr0 . length = 1.5", 0)
			sp.emptyID, sp.assign, sp.exact, sp.wild = KArrayMsg, true, false, KAccessor
			return sp
		default:
			sp := simple("RangeError", `arr0 [ "length" ] = 4294967296`, 0)
			sp.emptyID, sp.assign, sp.exact, sp.wild = KArrayMsg, true, false, KAccessor
			return sp
		}
	case "number-format":
		// 15.7.4.2: ToInteger(radix) outside 2..36 -> RangeError, whatever the receiver (the test comes
		// before the value is looked at). 15.7.4.5 steps 1-2: toFixed digits outside 0..20 -> RangeError,
		// before the NaN test of step 4. 15.7.4.6 step 7 / 15.7.4.7 step 8: toExponential / toPrecision
		// test the range only AFTER returning "NaN"/"Infinity" (steps 3-6 / 4-7), so non-finite receivers
		// raise nothing there and are not combined with those two methods. Only arguments far outside
		// any range an implementation may extend to (15.7.4.5 note) are used for the digit counts.
		recv := numberReceivers[v%len(numberReceivers)]
		call := numberCalls[(v/len(numberReceivers))%len(numberCalls)]
		if recv.nonFinite && (call.method == "toExponential" || call.method == "toPrecision") {
			call = numberCalls[(v/len(numberReceivers))%numberToStringCalls] // a bad radix instead
		}
		sp := raiseSpec{class: "RangeError", exact: true, heads: []string{call.method}}
		sp.toks = func(at, end *Pos) []tk {
			ts := words(recv.src)
			ts[recv.mark].start = at
			ts = append(ts, t("."), t(call.method), t("("))
			ts = append(ts, words(call.arg)...)
			return append(ts, tk{s: ")", end: end})
		}
		return sp
	case "eval-syntax": // 15.1.2.1 step 2, 15.3.2.1 step 11: SyntaxError
		src := []struct {
			s string
			m int
			h string
		}{{`eval ( "var = ;" )`, 0, "eval"}, {`new Function ( "}{" )`, 1, "Function"}, {`Function ( "a b" , "" )`, 0, "Function"}, {`ev ( "1 +" )`, 0, "eval"}, {`eval ( "3 4" )`, 0, "eval"}}[v%5]
		return simple("SyntaxError", src.s, src.m, src.h)
	case "instanceof-in": // 11.8.6 steps 5-6, 11.8.7 step 5: TypeError; otto documents no position for these
		s := []string{"1 instanceof 2", "obj instanceof obj", `"x" in 5`, `"x" in str`, "n5 instanceof und", `"k" in nul`}[v%6]
		sp := simple("TypeError", s, 0)
		sp.exact, sp.wild = false, KOperator
		return sp
	case "json-cycle": // 15.12.3 JO/JA step 1: TypeError
		s := []string{"JSON . stringify ( cyc )", "JSON . stringify ( cycArr )", "JSON . stringify ( [ 1 , cyc ] )", "JSON . stringify ( { a : cyc } )"}[v%4]
		return simple("TypeError", s, 0, "stringify")
	case "uri": // 15.1.3: URIError
		if v%2 == 0 {
			return simple("URIError", `decodeURIComponent ( "%" )`, 0, "decodeURIComponent")
		}
		return simple("URIError", `decodeURI ( "%E0%A4%A" )`, 0, "decodeURI")
	case "object-api": // 15.2.3.x step 1, 15.4.4.21 step 8.c, 15.4.4.18 step 4, 8.12.9 reject: TypeError
		src := []struct{ s, h string }{{`Object . defineProperty ( 1 , "x" , { } )`, "defineProperty"}, {"Object . create ( 1 )", "create"}, {"Object . keys ( 1 )", "keys"},
			{"Object . getPrototypeOf ( 1 )", "getPrototypeOf"}, {`Object . defineProperty ( frozen , "x" , { value : 1 } )`, "defineProperty"},
			{"arr0 . reduce ( noop )", "reduce"}, {"arr . forEach ( 5 )", "forEach"}}[v%7]
		return simple("TypeError", src.s, 0, src.h)
	case "throw-native": // 15.11.1/2, 15.11.7: user-constructed native errors; the trace is captured where the object is constructed
		ctor := NativeCtors[v%7]
		withNew := (v/7)%2 == 0
		mi := (v / 14) % 5
		arg := []string{`"boom"`, `""`, "", "5", `"a: b %s %d"`}[mi]
		msg := []string{"boom", "", "", "5", "a: b %s %d"}[mi]
		sp := raiseSpec{class: ctor, exact: true, stmt: true}
		if !withNew {
			sp.heads = []string{ctor}
		}
		sp.toks = func(at, end *Pos) []tk {
			ts := []tk{{s: "throw", noNL: true}}
			if withNew {
				ts = append(ts, t("new"))
			}
			ts = append(ts, tk{s: ctor, start: at}, t("("))
			if arg != "" {
				ts = append(ts, t(arg))
			}
			ts = append(ts, tk{s: ")", end: end}, t(";"))
			return ts
		}
		sp.expect = func(e *Expect) {
			e.UserMsg = true
			e.Name = ctor
			m := msg
			e.Message = &m
			e.CtorName, e.CtorMsg = ctor, msg
			if mi == 1 {
				e.EmptyMsgID = KEmptyArg // an explicit empty message
			}
		}
		return sp
	case "throw-renamed": // the thrown value's name/message are changed after construction
		ctor := NativeCtors[v%7]
		mode := (v / 7) % 3
		sp := raiseSpec{class: ctor, exact: true, stmt: true}
		sp.toks = func(at, end *Pos) []tk {
			ts := []tk{t("var"), t("e1"), t("="), t("new"), {s: ctor, start: at}, t("("), t(`"made"`), {s: ")", end: end}, t(";")}
			if mode == 0 || mode == 2 {
				ts = append(ts, words(`e1 . name = "Custom" ;`)...)
			}
			if mode == 1 || mode == 2 {
				ts = append(ts, words(`e1 . message = "changed" ;`)...)
			}
			ts = append(ts, tk{s: "throw", noNL: true}, t("e1"), t(";"))
			return ts
		}
		sp.expect = func(e *Expect) {
			e.UserMsg, e.Renamed = true, true
			e.Name = ctor
			m := "made"
			if mode == 0 || mode == 2 {
				e.Name = "Custom"
			}
			if mode == 1 || mode == 2 {
				m = "changed"
			}
			e.Message = &m
			e.CtorName, e.CtorMsg = ctor, "made"
		}
		return sp
	case "throw-prim":
		src := []struct{ s, typ, text string }{{"5", "number", "5"}, {`"str"`, "string", "str"}, {"null", "object", "null"}, {"und", "undefined", "undefined"},
			{"true", "boolean", "true"}, {"1.5", "number", "1.5"}, {`""`, "string", ""}}[v%7]
		sp := raiseSpec{stmt: true, exact: true}
		sp.toks = func(at, end *Pos) []tk {
			return []tk{{s: "throw", noNL: true, start: at}, {s: src.s, end: end}, t(";")}
		}
		sp.expect = func(e *Expect) { e.Thrown, e.Text = src.typ, src.text }
		return sp
	case "throw-object":
		src := []struct{ s, text string }{{"{ a : 1 }", "[object Object]"}, {`{ toString : function ( ) { return "custom" ; } }`, "custom"},
			{`{ name : "N" , message : "M" }`, "[object Object]"}, {"[ 1 , 2 ]", "1,2"}, {`new MyErr ( "mine" )`, "MyErr: mine"}, {"obj", "[object Object]"}}[v%6]
		sp := raiseSpec{stmt: true, exact: true}
		sp.toks = func(at, end *Pos) []tk {
			ts := []tk{{s: "throw", noNL: true, start: at}}
			ts = append(ts, words(src.s)...)
			ts[len(ts)-1].end = end
			return append(ts, t(";"))
		}
		sp.expect = func(e *Expect) { e.Thrown, e.Text = "object", src.text }
		return sp
	case "syntax": // 15.1.2.1: SyntaxError from eval; parser.ErrorList from the API. Position: the offending token.
		sp := raiseSpec{class: "SyntaxError", exact: true, stmt: true, syntax: true}
		vs := syntaxForms
		x := vs[v%len(vs)]
		sp.eof, sp.noRet = x.eof, x.noRet
		sp.openComment = strings.HasPrefix(x.bad, "/*")
		sp.toks = func(at, end *Pos) []tk {
			ts := words(x.pre)
			if x.glue && len(ts) > 0 {
				ts[len(ts)-1].noNL = true
			}
			ts = append(ts, tk{s: x.bad, start: at, end: end, nl: x.nl, noNL: x.bad == "return"})
			return append(ts, words(x.post)...)
		}
		return sp
	}
	panic("m19: unknown raise kind " + r.Kind)
}

// syntaxForm is one injected syntax error: tokens before the offending token, the offending token,
// tokens after it.
type syntaxForm struct {
	pre   string // tokens before the offending token
	bad   string // the offending token
	post  string // tokens after it
	glue  bool   // no line terminator between the last `pre` token and `bad` (otherwise ASI would repair it)
	nl    bool   // a line terminator must follow `bad` (unterminated literal)
	eof   bool
	noRet bool
}

// Indices of the forms that are reported at the end of the input.
const (
	SyntaxEOFFirst = 19
	SyntaxEOFLast  = 27
)

var syntaxForms = append([]syntaxForm{
	{pre: "var s1 =", bad: `"abc`, nl: true, post: ";"},
	{pre: "tmp =", bad: `'a b`, nl: true, post: ";"},
	{pre: "tmp = 1 +", bad: ")", post: ";"},
	{pre: "tmp = 1 +", bad: "]", post: ";"},
	{pre: "tmp = 1 +", bad: ";"},
	{pre: "tmp = ( 1 ,", bad: "}", post: ";"},
	{pre: "tmp = 3", bad: "4", post: ";", glue: true},
	{pre: "tmp = n5", bad: `"s"`, post: ";", glue: true},
	{pre: "tmp = n5", bad: "obj", post: ";", glue: true},
	{pre: "tmp = obj", bad: "true", post: ";", glue: true},
	{pre: "tmp = 1", bad: "@", post: "2 ;"},
	{pre: "tmp =", bad: "#", post: ";"},
	{bad: "break", post: ";"},
	{bad: "continue", post: ";"},
	{bad: "return", post: "5 ;", noRet: true},
	{pre: "tmp =", bad: "/(/", post: ";"},
	{pre: "tmp =", bad: "/a**/", post: ". test ( str ) ;"},
	{pre: "tmp =", bad: "/[b-a]/", post: ";"},
	{pre: "tmp =", bad: "/abc", nl: true, post: ";"},
	{pre: "if ( ok ) {", bad: "noop", post: "( ) ;", eof: true},
	// truncated programs: the error is at the end of the input
	{pre: "tmp = ( 1", bad: "+", eof: true},
	{pre: "tmp = [ 1", bad: ",", eof: true},
	{pre: "noop ( 1", bad: ",", eof: true},
	{pre: "tmp = 1", bad: "+", eof: true},
	{pre: "function g1 ( )", bad: "{", eof: true},
	{bad: "/* abc", eof: true},
	{pre: "tmp = { a : 1", bad: ",", eof: true},
	{pre: "tmp = ok", bad: "?", eof: true},
}, positionForms()...)

// positionForms: one offending token in many grammatical positions, written "pre|bad|post"; a leading
// "~" forbids a line terminator before the offending token. Every form has exactly one token at which
// no ES5 production can continue (checked against the grammar by hand, and against a fully laid-out
// enumeration on the unchanged tree). Not used, because otto reports a defensible other position or
// accepts the text (C04's subject): `{get g(v){}}` (reported at the parenthesis), `break nolabel`
// (reported at break), `try{} x` (reported at try), `{a:1 b:2}`, `{set s(){}}`, `f(1,)` (accepted).
func positionForms() []syntaxForm {
	src := []string{
		// property-name position of object literals (first, middle, last, accessor name), rest of a property
		"tmp = {|*|: 2 }", "tmp = { a : 1 ,|*|: 2 }", "tmp = { a : 1 , b : 2 ,|;|: 3 }", "tmp = { a : 1 ,|(|: 2 }", "tmp = {|,|a : 1 }",
		"tmp = { a : 1 ,|,|b : 2 }", "tmp = { get|*|( ) { } }", "tmp = { set|=|( v ) { } }", "~tmp = { a|1|}", "tmp = { a :|}|;", "tmp = {|@|: 1 }",
		"tmp = { get g ( )|;|{ } }",
		// after `.`
		"tmp = obj .|(|1 ) ;", "tmp = obj .|;|", `tmp = obj .|"s"|;`, "tmp = obj .|[|0 ] ;", "tmp = obj .|*|2 ;", "tmp = obj . k .|)|;", "tmp = obj .|@|;",
		// parameter lists, function heads
		"function g2 (|1|) { }", "function g2 ( a ,|)|{ }", "~function g2 ( a|b|) { }", "function g2 (|*|) { }", "function|(|) { }", "function g2|{|}",
		"tmp = function ( a ,|,|b ) { } ;", "function g2 ( )|;|", "tmp = function ( )|;|", "function g2 ( ) {|)|}",
		// var declarations
		"var|5|= 1 ;", "var|=|1 ;", "var a1 =|,|b1 ;", "var a1 ,|;|", "~var a1|b1|;", "var|if|= 1 ;", "var a1 = 1 ,|2|;", "var|class|= 1 ;",
		// switch / case clauses
		"switch ( n5 ) { case|:|1 ; }", "switch ( n5 ) { case 1|;|}", "~switch ( n5 ) { default|1|; }", "switch ( n5 ) {|noop|( ) ; }", "~switch|n5|{ }",
		"switch ( n5 ) { case 1 : break ; default : ;|default|: ; }", "switch ( n5 )|;|", "|case|1 : ;", "|default|: ;",
		// try / catch parameter
		"try { } catch (|1|) { }", "try { } catch|{|}", "try { } catch (|)|{ }", "try { } catch ( e1|,|e2 ) { }", "~try|noop|( ) ; catch ( e1 ) { }", "try { } finally|noop|( ) ;",
		// labels
		"lb1 :|lb1|: ;", "1|:|;",
		// argument lists
		"noop (|,|1 ) ;", "noop ( 1 ,|,|2 ) ;", "~noop ( 1|2|) ;", "noop ( 1|;|", "noop (|*|) ;",
		// array literals
		"~tmp = [ 1|2|] ;", "tmp = [ 1 ,|;|] ;", "tmp = [ , ,|*|] ;", "tmp = [ 1|:|2 ] ;",
		// new
		"tmp = new|;|", "tmp = new|*|2 ;", "tmp = new (|)|;", "tmp = new|.|x ;",
		// unary and binary operands, conditional, comma, assignment
		"tmp = !|;|", "tmp = typeof|)|;", "tmp = -|*|2 ;", "tmp = void|;|", "delete|;|",
		"tmp = 1 &&|OROR|2 ;", "tmp = 1 <|>|2 ;", "tmp = 1 instanceof|;|", "tmp = ok ? 1|;|2", "tmp = ok ?|:|2 ;", "tmp = 1 ,|,|2 ;", "tmp =|=|1 ;", "tmp +=|;|",
		"tmp = 1 +|#|;",
		// for / while / do / if / with headers
		"for ( ; ;|;|) { }", "for ( var i1 = 0 ; i1 < 1|)|{ }", "for (|)|{ }", "for ( var i1 in|)|{ }", "~for ( var i1|of|arr ) { }", "for|var|i1 ;", "while (|)|{ }", "~while|ok|{ }",
		"do { }|(|ok ) ;", "if (|)|{ }", "~if|ok|{ }", "with (|)|{ }", "if ( ok ) { } else|else|{ }",
		// parentheses, brackets, throw
		"tmp = (|)|;", "tmp = ( 1 ,|)|;", "throw|;|", "tmp = obj [|]|;", "tmp = obj [ 1|;|",
		// a token that cannot start a statement
		"|in|obj ;", "|instanceof|obj ;", "|)|;", "|]|;", "|:|;", "|,|1 ;", "|.|x ;", "|=|1 ;", "|*|2 ;", "|?|1 : 2 ;",
		"|enum|x1 ;", "tmp =|enum|;", "|class|X1 { }",
	}
	var out []syntaxForm
	for _, c := range src {
		f := syntaxForm{}
		if strings.HasPrefix(c, "~") {
			f.glue, c = true, c[1:]
		}
		p := strings.Split(c, "|")
		if len(p) != 3 {
			panic("m19: bad syntax form " + c)
		}
		f.pre, f.bad, f.post = p[0], strings.ReplaceAll(p[1], "OROR", "||"), p[2]
		out = append(out, f)
	}
	return out
}

// SyntaxVariants is the number of injected syntax errors.
var SyntaxVariants = len(syntaxForms)

// ---- rendering -------------------------------------------------------------------------------------

type renderer struct {
	c       Case
	caught  bool
	catchAt int
	frames  []Frame
	site    []int   // per link: frame whose position is the call site of this link (-1: none)
	recs    [][]int // per link: frames of the recursive activations
	ctx     []int   // per context k (0…len(links)): frame executing that context
	tp      *tape
	feat    map[string]bool
	exp     Expect
	syntax  bool
	synEOF  bool
	synAt   Pos
}

func fname(i int) string { return fmt.Sprintf("F%d", i+1) }

func isCallback(k string) bool {
	switch k {
	case "foreach", "map", "sort", "filter", "some", "every", "reduce":
		return true
	}
	return false
}

var nativeOf = map[string]string{"foreach": "forEach", "map": "map", "sort": "sort", "filter": "filter", "some": "some", "every": "every", "reduce": "reduce",
	"call": "call", "apply": "apply", "evalind": "eval"}

// defKind says how the function of link i is defined: decl | nexpr | aexpr | method | nmethod | getter | setter | none
func defKind(l Link) string {
	switch l.Kind {
	case "decl", "ctor":
		return "decl"
	case "nexpr", "aexpr", "getter", "setter":
		return l.Kind
	case "method":
		if l.Var%4 >= 2 {
			return "nmethod"
		}
		return "method"
	case "eval", "evalind":
		return "none"
	}
	// callbacks, bound, call, apply, host, notref: any plain function form
	return []string{"decl", "nexpr", "aexpr"}[l.Var%3]
}

func frameName(i int, l Link) string {
	switch defKind(l) {
	case "decl":
		return fname(i)
	case "nexpr", "nmethod":
		return fmt.Sprintf("N%d", i+1)
	}
	return ""
}

// accessorPlace says where the accessor of a getter/setter link is defined (0 own literal, 1 literal
// assigned to constructor.prototype, 2 Object.create chain of the returned depth, 3 defineProperty on
// constructor.prototype, 4 defineProperty on the object itself).
func accessorPlace(l Link) (place, depth int) {
	return l.Var % 5, 1 + (l.Var/15)%3
}

// accessorRead says how it is reached: 0 `o.g`, 1 `o["g"]`, 2 identifier inside `with (o)`.
func accessorRead(l Link) int { return (l.Var / 5) % 3 }

func isWithAccess(l Link) bool {
	return (l.Kind == "getter" || l.Kind == "setter") && accessorRead(l) == 2
}

func canRecurse(l Link) bool { return l.Kind == "decl" || l.Kind == "nexpr" || l.Kind == "aexpr" }

// Render produces the program text and the expected trace. caught = the sibling program in which
// the exception is caught by the script and handed to __probe.
func Render(c Case, caught bool) Rendered {
	r := &renderer{c: c, caught: caught, feat: map[string]bool{}}
	r.tp = &tape{b: c.Tape}
	n := len(c.Links)
	r.site = make([]int, n)
	r.recs = make([][]int, n)
	r.ctx = make([]int, n+1)
	r.frames = []Frame{{Name: ""}}
	cur := 0
	for i, l := range c.Links {
		r.ctx[i] = cur
		r.feat["link:"+l.Kind] = true
		if l.Kind == "host" {
			r.catchAt = i + 1
		}
		if l.Kind == "eval" {
			r.site[i] = -1
			continue
		}
		r.site[i] = cur
		if nn, ok := nativeOf[l.Kind]; ok {
			r.frames = append(r.frames, Frame{Name: nn, Native: true})
		}
		if l.Kind == "host" {
			r.frames = append(r.frames, Frame{Host: true})
		}
		if l.Kind == "evalind" {
			if i == len(c.Links)-1 && c.Raise.Kind == "syntax" {
				// the code never starts: only the native frame exists
				cur = -1
				continue
			}
			r.frames = append(r.frames, Frame{Name: ""})
			cur = len(r.frames) - 1
			continue
		}
		name := frameName(i, l)
		if canRecurse(l) {
			for k := 0; k < l.Rec; k++ {
				r.frames = append(r.frames, Frame{Name: name})
				r.recs[i] = append(r.recs[i], len(r.frames)-1)
			}
			if l.Rec > 0 {
				r.feat["recursion"] = true
			}
		}
		r.frames = append(r.frames, Frame{Name: name})
		cur = len(r.frames) - 1
	}
	r.ctx[n] = cur

	label := c.File
	if label == "" || c.Route == "run-string" {
		label = "<anonymous>"
	}
	w := newWriter(label, r.tp, c.LT, c.NonASCII)
	w.noReturn = true

	// definitions in a tape-chosen order, then the kick-off context
	var defs []int
	for i, l := range c.Links {
		if defKind(l) != "none" {
			defs = append(defs, i)
		}
	}
	for i := len(defs) - 1; i > 0; i-- {
		j := r.tp.next(i + 1)
		defs[i], defs[j] = defs[j], defs[i]
	}
	if r.tp.next(4) == 0 {
		w.raw("// " + w.commentText())
		w.newline()
	}
	for _, i := range defs {
		r.define(w, i)
		w.sep()
	}
	r.context(w, 0)
	if r.tp.next(2) == 0 && !(r.synEOF && r.tp.next(4) != 0) {
		w.newline()
	}
	var feats []string
	for f := range r.feat {
		feats = append(feats, f)
	}
	sort.Strings(feats)
	out := Rendered{Src: w.b.String(), Frames: r.frames, Expect: r.exp, Features: feats, Syntax: r.syntax, SynAt: r.synAt}
	if r.syntax {
		last := ""
		if n > 0 {
			last = c.Links[n-1].Kind
		}
		out.ParseError = last != "eval" && last != "evalind"
		if out.ParseError && r.synEOF {
			out.SynAt = w.p
		}
	}
	return out
}

func (r *renderer) setFrame(w *writer, idx int, at, end Pos, exact bool, wild string) {
	if idx < 0 {
		return
	}
	f := &r.frames[idx]
	f.At, f.End, f.Label, f.Exact, f.set = at, end, w.label, exact, true
	if wild != "" {
		f.Wild = append(f.Wild, wild)
	}
}

// define writes the definition of the function of link i; its body performs context i+1.
func (r *renderer) define(w *writer, i int) {
	l := r.c.Links[i]
	fn := fname(i)
	param := "n"
	body := func() {
		w.ind++
		w.sep()
		if canRecurse(l) && l.Rec > 0 {
			var at, end Pos
			toks := words("if ( n > 0 ) { return")
			toks[len(toks)-1].noNL = true // return
			toks = append(toks, tk{s: fn, start: &at}, t("("), t("n"), t("-"), t("1"), tk{s: ")", end: &end}, t(";"), t("}"))
			w.emit(toks)
			for _, fi := range r.recs[i] {
				r.setFrame(w, fi, at, end, true, "")
			}
			w.sep()
		}
		saved := w.noReturn
		w.noReturn = false
		r.context(w, i+1)
		w.noReturn = saved
		w.ind--
		w.sep()
	}
	switch defKind(l) {
	case "decl":
		w.emit(words("function " + fn + " ( " + param + " ) {"))
		body()
		w.emit(words("}"))
	case "nexpr":
		w.emit(words(fmt.Sprintf("var %s = function N%d ( %s ) {", fn, i+1, param)))
		body()
		w.emit(words("} ;"))
	case "aexpr":
		w.emit(words(fmt.Sprintf("var %s = function ( %s ) {", fn, param)))
		body()
		w.emit(words("} ;"))
	case "method":
		w.emit(words(fmt.Sprintf("var O%d = { k : 1 , m : function ( ) {", i+1)))
		body()
		w.emit(words("} } ;"))
	case "nmethod":
		w.emit(words(fmt.Sprintf("var O%d = { m : function N%d ( ) {", i+1, i+1)))
		body()
		w.emit(words("} , k : 2 } ;"))
	case "getter", "setter":
		// where the accessor lives: own (literal / defineProperty) or on the prototype chain
		// (constructor.prototype literal, Object.create chain of depth 1-3, defineProperty on a prototype)
		o, k, pr := fmt.Sprintf("O%d", i+1), fmt.Sprintf("K%d", i+1), fmt.Sprintf("P%d", i+1)
		lit, key, fun := "get g ( ) {", `"g"`, "get : function ( ) {"
		if l.Kind == "setter" {
			lit, key, fun = "set s ( v ) {", `"s"`, "set : function ( v ) {"
		}
		place, depth := accessorPlace(l)
		r.feat["accessor-read:"+[]string{"dot", "bracket", "with"}[accessorRead(l)]] = true
		r.feat["accessor:"+[]string{"own-literal", "ctor-prototype", "object-create", "defineProperty-prototype", "defineProperty-own"}[place]] = true
		switch place {
		case 0:
			w.emit(words("var " + o + " = { " + lit))
			body()
			w.emit(words("} } ;"))
		case 1:
			w.emit(words("function " + k + " ( ) { } " + k + " . prototype = { k : 1 , " + lit))
			body()
			w.emit(words("} } ; var " + o + " = new " + k + " ( ) ;"))
		case 2:
			w.emit(words("var " + pr + " = { " + lit))
			body()
			chain := pr
			for d := 0; d < depth; d++ {
				chain = "Object . create ( " + chain + " )"
			}
			w.emit(words("} } ; var " + o + " = " + chain + " ;"))
		case 3:
			w.emit(words("function " + k + " ( ) { } Object . defineProperty ( " + k + " . prototype , " + key + " , { " + fun))
			body()
			w.emit(words("} } ) ; var " + o + " = new " + k + " ( ) ;"))
		default:
			w.emit(words("var " + o + " = { } ; Object . defineProperty ( " + o + " , " + key + " , { " + fun))
			body()
			w.emit(words("} , configurable : true } ) ;"))
		}
	}
	if l.Kind == "bound" {
		w.sep()
		w.emit(words(fmt.Sprintf("var B%d = %s . bind ( null ) ;", i+1, fn)))
	}
}

// invoke returns the tokens of the expression that performs link i.
func (r *renderer) invoke(i int, at, end *Pos) (toks []tk, assign bool) {
	l := r.c.Links[i]
	fn := fname(i)
	o := fmt.Sprintf("O%d", i+1)
	switch l.Kind {
	case "decl", "nexpr", "aexpr":
		arg := "0"
		if canRecurse(l) {
			arg = fmt.Sprint(l.Rec)
		}
		if l.Var%3 == 0 {
			// a call inside the argument list: the call site must still be the callee's
			return []tk{{s: fn, start: at}, t("("), t(arg), t(","), t("noop"), t("("), t(")"), {s: ")", end: end}}, false
		}
		return []tk{{s: fn, start: at}, t("("), t(arg), {s: ")", end: end}}, false
	case "method":
		if l.Var%2 == 0 {
			return []tk{{s: o, start: at}, t("."), t("m"), t("("), {s: ")", end: end}}, false
		}
		return []tk{{s: o, start: at}, t("["), t(`"m"`), t("]"), t("("), {s: ")", end: end}}, false
	case "ctor":
		if l.Var%4 == 2 {
			return []tk{t("new"), {s: fn, start: at}, t("("), t("pick"), t("("), t("1"), t(")"), {s: ")", end: end}}, false
		}
		if l.Var%2 == 0 {
			return []tk{t("new"), {s: fn, start: at}, t("("), {s: ")", end: end}}, false
		}
		return []tk{t("new"), {s: fn, start: at, end: end}}, false
	case "foreach", "map", "filter", "some", "every":
		return []tk{{s: "arr", start: at}, t("."), t(nativeOf[l.Kind]), t("("), t(fn), {s: ")", end: end}}, false
	case "reduce":
		return []tk{{s: "arr", start: at}, t("."), t("reduce"), t("("), t(fn), t(","), t("0"), {s: ")", end: end}}, false
	case "sort":
		return []tk{{s: "arr2", start: at}, t("."), t("sort"), t("("), t(fn), {s: ")", end: end}}, false
	case "getter":
		switch accessorRead(l) {
		case 1:
			return []tk{{s: o, start: at}, t("["), t(`"g"`), {s: "]", end: end}}, false
		case 2: // identifier resolved through a with scope (a statement, flagged by the caller)
			return []tk{t("with"), t("("), t(o), t(")"), t("{"), t("tmp"), t("="), {s: "g", start: at, end: end}, t(";"), t("}")}, false
		}
		return []tk{{s: o, start: at}, t("."), {s: "g", end: end}}, false
	case "setter":
		switch accessorRead(l) {
		case 1:
			return []tk{{s: o, start: at}, t("["), t(`"s"`), t("]"), t("="), {s: "1", end: end}}, true
		case 2:
			return []tk{t("with"), t("("), t(o), t(")"), t("{"), {s: "s", start: at}, t("="), {s: "1", end: end}, t(";"), t("}")}, false
		}
		return []tk{{s: o, start: at}, t("."), t("s"), t("="), {s: "1", end: end}}, true
	case "bound":
		return []tk{{s: fmt.Sprintf("B%d", i+1), start: at}, t("("), {s: ")", end: end}}, false
	case "call":
		return []tk{{s: fn, start: at}, t("."), t("call"), t("("), t("null"), {s: ")", end: end}}, false
	case "apply":
		return []tk{{s: fn, start: at}, t("."), t("apply"), t("("), t("null"), t(","), t("["), t("]"), {s: ")", end: end}}, false
	case "host":
		return []tk{{s: "host", start: at}, t("("), t(fn), {s: ")", end: end}}, false
	case "notref":
		return []tk{{s: "pick", start: at}, t("("), t(fn), t(")"), t("("), {s: ")", end: end}}, false
	}
	panic("m19: invoke " + l.Kind)
}

func (r *renderer) noise(w *writer, kinds []string, k int) {
	for _, nz := range kinds {
		switch nz {
		case "noop":
			w.emit(words("noop ( ) ;"))
		case "var":
			w.emit(words("var t1 = 1 + 2 ;"))
		case "obj":
			w.emit(words("tmp = obj . k ;"))
		case "newobj":
			w.emit(words("tmp = new Object ( ) ;"))
		case "ustr":
			lit := `"ab"`
			if w.uni {
				lit = `"` + uniWords[r.tp.next(len(uniWords))] + `"`
			}
			w.emit(append(words("tmp ="), t(lit), t(";")))
		case "eval0", "evalthrow":
			if nz == "eval0" {
				w.emit(words(`eval ( "0" ) ;`))
			} else {
				// a direct eval whose code throws, caught by the same frame: the frame must
				// be back in its own file afterwards on this path too
				code := []string{"throw 1 ;", "nope2 ;", "\n  nul . x ;", "und ( ) ;", "var q = 1 ;\n throw new Error ( \"in eval\" ) ;"}[r.tp.next(5)]
				toks := append(words("try { eval ("), t(jsLiteral(code)))
				w.emit(append(toks, words(") ; } catch ( ex1 ) { }")...))
				r.feat["noise:evalthrow"] = true
			}
			// finding C19-EVAL-FILE-STICKS: the frame keeps the eval code's file afterwards
			// (unless the noise sits in text that never runs because it does not parse)
			if fi := r.ctx[k]; fi >= 0 && !(k == len(r.c.Links) && r.c.Raise.Kind == "syntax") {
				r.frames[fi].Wild = append(r.frames[fi].Wild, KEvalFile)
				r.feat["noise:eval0"] = true
			}
		default:
			continue
		}
		w.sep()
	}
}

// statement wraps expression tokens into a statement form legal in this writer's context.
func statement(w *writer, form string, expr []tk, assign, isStmt bool) []tk {
	if isStmt {
		if form == "if" {
			return append(append(words("if ( ok ) {"), expr...), t("}"))
		}
		return expr
	}
	if assign {
		switch form {
		case "if":
			return append(append(words("if ( ok ) {"), expr...), t(";"), t("}"))
		case "paren":
			return append(append([]tk{t("(")}, expr...), t(")"), t(";"))
		}
		return append(expr, t(";"))
	}
	switch form {
	case "return":
		if !w.noReturn {
			return append(append([]tk{{s: "return", noNL: true}}, expr...), t(";"))
		}
	case "var":
		return append(append(words("var r1 ="), expr...), t(";"))
	case "if":
		return append(append(words("if ( ok ) {"), expr...), t(";"), t("}"))
	case "binary":
		return append(append(words("tmp = 1 +"), expr...), t(";"))
	case "arg":
		return append(append(words("noop ( 7 ,"), expr...), t(")"), t(";"))
	case "cond":
		return append(append(words("tmp = ok ?"), expr...), t(":"), t("0"), t(";"))
	case "comma":
		return append(append(words("tmp = ( 0 ,"), expr...), t(")"), t(";"))
	case "paren":
		return append(append([]tk{t("(")}, expr...), t(")"), t(";"))
	}
	return append(expr, t(";"))
}

func wrap(wr string, st []tk) []tk {
	switch wr {
	case "try-rethrow":
		return append(append(words("try {"), st...), append(words("} catch ( ex ) {"), tk{s: "throw", noNL: true}, t("ex"), t(";"), t("}"))...)
	case "try-finally":
		return append(append(words("try {"), st...), words("} finally { noop ( ) ; }")...)
	case "block":
		return append(append(words("{"), st...), t("}"))
	}
	return st
}

// context writes the statements that perform link k (or the raising construct when k == len(links)).
func (r *renderer) context(w *writer, k int) {
	n := len(r.c.Links)
	var st []tk
	var wr string
	var after func()
	noTail := false
	if k == n {
		r.noise(w, r.c.Raise.Noise, k)
		sp := raiseOf(r.c.Raise)
		wr = r.c.Raise.Wrap
		if (sp.eof || sp.noRet) && !w.noReturn {
			// needs global or eval code; inside a function body use the `break` variant
			r2 := r.c.Raise
			r2.Var = 12
			sp = raiseOf(r2)
		}
		eofTail := false
		if sp.eof {
			wr = ""
			eofTail = true
		}
		var at, end Pos
		toks := sp.toks(&at, &end)
		form := r.c.Raise.Stmt
		if sp.eof {
			form = "expr"
		}
		if !sp.exact && form == "binary" {
			form = "paren" // keep a construct without a documented position syntactically isolated
		}
		st = statement(w, form, toks, sp.assign, sp.stmt)
		r.feat["raise:"+r.c.Raise.Kind] = true
		r.exp = Expect{Class: sp.class, Heads: sp.heads, EmptyMsgID: sp.emptyID, Name: sp.class}
		if sp.expect != nil {
			sp.expect(&r.exp)
		}
		if sp.syntax {
			r.syntax, r.synEOF = true, sp.eof
			after = func() {
				r.synAt = at
				if eofTail {
					// text after the truncation point, still on the last line
					inComment := sp.openComment
					switch r.tp.next(6) {
					case 0, 1, 4:
						if inComment { // the comment is the thing left open: stay inside it
							w.raw(" " + w.commentText())
						} else {
							w.raw(" /* " + w.commentText() + " */")
						}
					case 2:
						w.raw(" // " + w.commentText())
					case 3:
						w.raw("\t")
					}
				}
			}
			noTail = eofTail
		} else {
			after = func() { r.setFrame(w, r.ctx[n], at, end, sp.exact, sp.wild) }
		}
	} else {
		l := r.c.Links[k]
		r.noise(w, l.Noise, k)
		wr = l.Wrap
		// a script-level try around a host link would change what the Go function's re-panic means
		for j := k; j < n; j++ {
			if r.c.Links[j].Kind == "host" && wr != "block" {
				wr = ""
			}
		}
		switch l.Kind {
		case "eval", "evalind":
			sub := newWriter("<anonymous>", r.tp, w.lt, w.uni)
			sub.noReturn = true
			sub.ind = 1
			if r.tp.next(3) == 0 {
				sub.newline()
			}
			r.context(sub, k+1)
			if r.tp.next(3) == 0 {
				sub.newline()
			}
			var at, end Pos
			callee := "eval"
			if l.Kind == "evalind" {
				callee = "ev"
			}
			toks := []tk{{s: callee, start: &at}, t("("), t(jsLiteral(sub.b.String())), {s: ")", end: &end}}
			st = statement(w, l.Stmt, toks, false, false)
			if r.synEOF && k == n-1 {
				r.synAt = sub.p
			}
			if l.Kind == "evalind" {
				after = func() { r.setFrame(w, r.site[k], at, end, true, "") }
			} else if r.syntax && k == n-1 {
				// the eval code does not parse: the error is raised at the call site of eval
				after = func() { r.setFrame(w, r.ctx[k], at, end, true, "") }
			}
		default:
			var at, end Pos
			toks, assign := r.invoke(k, &at, &end)
			st = statement(w, l.Stmt, toks, assign, isWithAccess(l))
			exact, wild, drop := true, "", ""
			switch l.Kind {
			case "getter", "setter":
				exact, wild = false, KAccessor
			case "notref":
				drop = KNotRef
			}
			after = func() {
				r.setFrame(w, r.site[k], at, end, exact, wild)
				if drop != "" {
					r.frames[r.site[k]].Drop = drop
				}
			}
		}
	}
	st = wrap(wr, st)
	if wr != "" {
		r.feat["wrap:"+wr] = true
	}
	if r.caught && k == r.catchAt {
		// the wrapper is laid out from a tape of its own, so that everything else (in particular the
		// text of eval code) is laid out exactly as in the uncaught program
		real := w.tape
		w.tape = &tape{}
		w.emit(words("try {"))
		w.tape = real
		w.emit(st)
		w.tape = &tape{}
		w.emit(words("} catch ( cx ) { __obs = __probe ( cx ) ; }"))
		w.tape = real
	} else {
		w.emit(st)
	}
	if after != nil {
		after()
	}
	if !noTail && r.tp.next(3) == 0 {
		w.sep()
		w.emit(words("noop ( ) ;"))
	}
}

// Prelude is run on the runtime before the generated program (as a separate program, so that it
// never shifts a position). `host` is installed from Go.
const Prelude = `
var ok = true, und, nul = null, n5 = 5, obj = { k: 1 }, str = "s", num = 1.5, tmp, __obs;
var cyc = {}; cyc.self = cyc; var cycArr = []; cycArr[0] = cycArr;
var arr = [1], arr2 = [2, 1], arr0 = [], frozen = Object.freeze({});
var big = 1e21, oNum = new Number(255), rNaN = NaN, oNaN = new Number(NaN), rInf = Infinity, rNegInf = -Infinity;
var oInf = new Number(Infinity), oNegInf = new Number(-Infinity), rZero = 0, rNegZero = -0, oZero = new Number(0), oNegZero = new Number(-0);
function noop() {} function pick(f) { return f; } var ev = eval;
function MyErr(m) { this.message = m; } MyErr.prototype = new Error(); MyErr.prototype.name = "MyErr"; MyErr.prototype.constructor = MyErr;
function __probe(e) {
  var G = (function () { return this; })();
  var names = ["Error", "EvalError", "RangeError", "ReferenceError", "SyntaxError", "TypeError", "URIError"];
  var r = { type: typeof e, isnull: e === null };
  try { r.str = String(e); } catch (x) { r.str = "<String(e) throws>"; }
  if (e !== null && (typeof e === "object" || typeof e === "function")) {
    r.cls = Object.prototype.toString.call(e);
    var inst = [], ctor = "other", i;
    for (i = 0; i < names.length; i++) {
      if (e instanceof G[names[i]]) inst.push(names[i]);
      if (e.constructor === G[names[i]]) ctor = names[i];
    }
    r.inst = inst.join(","); r.ctor = ctor;
    var chain = [], p = Object.getPrototypeOf(e), depth = 0;
    while (depth++ < 6) {
      var lab = "other";
      if (p === null) lab = "null";
      else if (p === Object.prototype) lab = "Object.prototype";
      else for (i = 0; i < names.length; i++) if (p === G[names[i]].prototype) lab = names[i] + ".prototype";
      chain.push(lab);
      if (p === null) break;
      p = Object.getPrototypeOf(p);
    }
    r.chain = chain.join(" > ");
    r.nameType = typeof e.name; r.name = String(e.name);
    r.msgType = typeof e.message; r.msg = String(e.message);
    r.ownMsg = Object.prototype.hasOwnProperty.call(e, "message");
  }
  return r;
}
`

// Describe is a short human-readable summary of the chain for messages.
func (c Case) Describe() string {
	var ks []string
	for _, l := range c.Links {
		k := l.Kind
		if l.Rec > 0 && canRecurse(l) {
			k += fmt.Sprintf("*%d", l.Rec+1)
		}
		ks = append(ks, k)
	}
	return fmt.Sprintf("chain[%s] raise=%s/%d limit=%d file=%q route=%s", strings.Join(ks, ">"), c.Raise.Kind, c.Raise.Var, c.Limit, c.File, c.Route)
}
