// Package m19 is the program generator/renderer of property C19 (errors: class, message, position).
//
// A Case describes a call chain global → F1 → … → Fn built from links of many kinds, one
// error-raising construct in the innermost frame, a layout tape, a trace limit and a file name.
// Render turns it into JavaScript text and — because it writes the text itself — reports the
// (line, column) of every call site and of the raising construct, from which the expected stack
// trace is assembled. Nothing in this package looks at otto.
package m19

import (
	"fmt"
	"strings"
	"unicode/utf8"
)

// Pos is a source position in several coordinate systems (all 1-based).
//
//	Line/Col/BCol    lines separated by the ES5 line terminators (LF, CR, CRLF as one, LS, PS);
//	                 Col counts characters (UTF-16 code units; only BMP text is generated),
//	                 BCol counts UTF-8 bytes
//	NLine/NCol/NBCol the same when only LF separates lines (the distortion of finding
//	                 C19-RUNTIME-LINE-TERMINATORS)
type Pos struct {
	Line, Col, BCol    int
	NLine, NCol, NBCol int
}

func (p Pos) String() string { return fmt.Sprintf("%d:%d", p.Line, p.Col) }

// writer accumulates text and tracks the position of the next character.
type writer struct {
	b       strings.Builder
	p       Pos
	prevC   bool // previous character was CR (a following LF belongs to it)
	sinceCR int  // bytes written since the last CR (-1: none yet)
	label   string
	tape    *tape
	lt      string // line terminator style: "\n", "\r\n", "\r", "\u2028", "\u2029", "mix"
	uni     bool   // sprinkle non-ASCII text into comments
	ind     int
	// noReturn: `return` is not legal in this text (global code, eval code)
	noReturn bool
}

type tape struct {
	b []byte
	i int
}

func (t *tape) next(n int) int {
	if n <= 1 {
		return 0
	}
	if len(t.b) == 0 {
		return 0
	}
	v := int(t.b[t.i%len(t.b)])
	t.i++
	return v % n
}

func newWriter(label string, tp *tape, lt string, uni bool) *writer {
	return &writer{p: Pos{1, 1, 1, 1, 1, 1}, label: label, tape: tp, lt: lt, uni: uni, sinceCR: -1}
}

func (w *writer) raw(s string) {
	for _, r := range s {
		n := utf8.RuneLen(r)
		w.b.WriteRune(r)
		if r == '\r' {
			w.sinceCR = 0
		} else if w.sinceCR >= 0 {
			w.sinceCR += n
		}
		switch r {
		case '\n':
			if w.prevC { // CRLF: already counted as one ES5 line terminator
				w.p.Col, w.p.BCol = 1, 1
			} else {
				w.p.Line++
				w.p.Col, w.p.BCol = 1, 1
			}
			w.p.NLine++
			w.p.NCol, w.p.NBCol = 1, 1
			w.prevC = false
			continue
		case '\r', '\u2028', '\u2029':
			w.p.Line++
			w.p.Col, w.p.BCol = 1, 1
			w.p.NCol++
			w.p.NBCol += n
			w.prevC = r == '\r'
			continue
		}
		w.prevC = false
		w.p.Col++
		w.p.BCol += n
		w.p.NCol++
		w.p.NBCol += n
	}
}

func (w *writer) newline() {
	lt := w.lt
	if lt == "mix" {
		lt = []string{"\n", "\r\n", "\r", "\u2028", "\u2029"}[w.tape.next(5)]
	}
	if lt == "" {
		lt = "\n"
	}
	if lt == "\n" && w.sinceCR == 1 {
		// CR, one byte, LF is misread by otto's scanner (finding C03-ASI-CR-PEEK, not this property's
		// concern): never generated
		lt = "\r\n"
	}
	w.raw(lt)
	unit := " "
	if w.tape.next(4) == 3 {
		unit = "\t" // a tab is one column, like any other character
	}
	w.raw(strings.Repeat(unit, w.ind*(1+w.tape.next(3))+w.tape.next(4)))
}

var asciiWords = []string{"c", "note", "x y", "call()", "a.b", "1:2"}
var uniWords = []string{"é", "€uro", "naïve ü", "Ω", "日本", "ж()", "a\u00a0b"}

func (w *writer) commentText() string {
	if w.uni && w.tape.next(3) != 0 {
		return uniWords[w.tape.next(len(uniWords))]
	}
	return asciiWords[w.tape.next(len(asciiWords))]
}

func isWord(c byte) bool {
	return c == '_' || c == '$' || c >= '0' && c <= '9' || c >= 'a' && c <= 'z' || c >= 'A' && c <= 'Z'
}

// gap writes the white space / comments between two tokens.
func (w *writer) gap(prev, next string, noNL bool) {
	need := prev != "" && next != "" && isWord(prev[len(prev)-1]) && isWord(next[0])
	// never glue operators into other operators ("+ +", "= =", "< >", "/ /")
	if prev != "" && next != "" && !need {
		a, b := prev[len(prev)-1], next[0]
		const ops = "+-*/=<>!&|?:%^~"
		if strings.IndexByte(ops, a) >= 0 && strings.IndexByte(ops, b) >= 0 {
			need = true
		}
	}
	switch w.tape.next(16) {
	case 0, 1, 2, 3, 4, 5:
		if need {
			w.raw(" ")
		}
	case 6, 7, 8:
		w.raw(" ")
	case 9:
		w.raw("  ")
	case 10:
		w.raw("\t")
	case 11, 12:
		if noNL {
			w.raw(" ")
		} else {
			w.newline()
		}
	case 13:
		w.raw(" /* " + w.commentText() + " */ ")
	case 14:
		if noNL {
			w.raw(" /*" + w.commentText() + "*/")
			if need {
				w.raw(" ")
			}
		} else {
			w.raw(" // " + w.commentText())
			w.newline()
		}
	case 15:
		if noNL {
			w.raw(" ")
		} else {
			w.newline()
			w.newline()
		}
	}
}

// tk is one token of a statement.
type tk struct {
	s     string
	noNL  bool // no line terminator may follow (return/throw, operand of postfix ++)
	nl    bool // a line terminator must follow (unterminated literal)
	start *Pos // receives the position of the token's first character
	end   *Pos // receives the position just after the token
}

func t(s string) tk { return tk{s: s} }

// words splits a template into tokens at spaces; a double-quoted string literal stays one token.
func words(s string) []tk {
	var out []tk
	add := func(f string) {
		if f != "" {
			out = append(out, tk{s: f, noNL: f == "return" || f == "throw"})
		}
	}
	start, inStr := 0, false
	for i := 0; i < len(s); i++ {
		switch {
		case s[i] == '"':
			inStr = !inStr
		case s[i] == ' ' && !inStr:
			add(s[start:i])
			start = i + 1
		}
	}
	add(s[start:])
	return out
}

func (w *writer) emit(toks []tk) {
	prev := ""
	noNL, forceNL := false, false
	for _, k := range toks {
		if k.s == "" {
			continue
		}
		if forceNL {
			w.newline()
		} else if prev != "" {
			w.gap(prev, k.s, noNL)
		}
		if k.start != nil {
			*k.start = w.p
		}
		w.raw(k.s)
		if k.end != nil {
			*k.end = w.p
		}
		prev, noNL, forceNL = k.s, k.noNL, k.nl
	}
	if forceNL {
		w.newline()
	}
}

// sep separates two statements.
func (w *writer) sep() {
	switch w.tape.next(10) {
	case 0, 1, 2, 3, 4, 5:
		w.newline()
	case 6, 7:
		w.raw(" ")
	case 8:
		w.newline()
		w.newline()
	case 9:
		w.raw(" // " + w.commentText())
		w.newline()
	}
}

// jsLiteral renders text as a double-quoted ES5 string literal. Line terminators and control
// characters are escaped; other non-ASCII characters are written raw.
func jsLiteral(s string) string {
	var b strings.Builder
	b.WriteByte('"')
	for _, r := range s {
		switch {
		case r == '"' || r == '\\':
			b.WriteByte('\\')
			b.WriteRune(r)
		case r == '\n':
			b.WriteString(`\n`)
		case r == '\r':
			b.WriteString(`\r`)
		case r == '\t':
			b.WriteString(`\t`)
		case r == '\u2028' || r == '\u2029' || r < 0x20:
			fmt.Fprintf(&b, `\u%04X`, r)
		default:
			b.WriteRune(r)
		}
	}
	b.WriteByte('"')
	return b.String()
}
