// Package m03 adapts otto's ast to the /verif syntax tree (lib/minijs), so that "the tree the
// parser built" can be compared with "the tree the text was rendered from" node by node.
// The mapping encodes otto's representation choices, read off ast/node.go and the parser:
//
//   - parentheses are not nodes;
//   - a for-statement's initialiser is always a *SequenceExpression wrapping either nothing, the
//     VariableExpressions of a "var" head, or the single initialiser expression;
//   - "var" declarations are VariableExpression values inside VariableStatement.List / ForIn.Into;
//   - compound assignment carries the binary operator token (PLUS for "+="), plain assignment ASSIGN;
//   - prefix and postfix operators are both UnaryExpression (Postfix flag);
//   - elisions in array literals are *EmptyExpression;
//   - property keys are already evaluated to strings, kinds are "value" / "get" / "set";
//   - "new X" without arguments has LeftParenthesis == 0;
//   - break/continue are BranchStatement with the keyword token;
//   - absent optional children are nil interfaces or nil pointers (both handled).
package m03

import (
	"fmt"
	"math"
	"reflect"
	"strconv"

	"github.com/robertkrimen/otto/ast"
	"github.com/robertkrimen/otto/token"

	"verif/lib/minijs"
)

type conv struct{ err error }

func (c *conv) fail(format string, a ...interface{}) *minijs.Node {
	if c.err == nil {
		c.err = fmt.Errorf(format, a...)
	}
	return &minijs.Node{K: "bad"}
}

func isNil(v interface{}) bool {
	if v == nil {
		return true
	}
	rv := reflect.ValueOf(v)
	return rv.Kind() == reflect.Ptr && rv.IsNil()
}

// FromOtto converts a parsed program. The error reports Bad* nodes and shapes the mapping does
// not know (a parser change that introduces them is a finding in itself).
func FromOtto(p *ast.Program) (*minijs.Node, error) {
	c := &conv{}
	n := &minijs.Node{K: "program", HasDecls: true, Decls: c.decls(p.DeclarationList)}
	for _, s := range p.Body {
		n.Kids = append(n.Kids, c.stmt(s))
	}
	return n, c.err
}

func (c *conv) decls(l []ast.Declaration) []string {
	var out []string
	for _, d := range l {
		switch d := d.(type) {
		case *ast.FunctionDeclaration:
			name := ""
			if d.Function != nil && d.Function.Name != nil {
				name = d.Function.Name.Name
			}
			out = append(out, "func "+name)
		case *ast.VariableDeclaration:
			for _, v := range d.List {
				out = append(out, "var "+v.Name)
			}
		default:
			c.fail("unknown declaration %T", d)
		}
	}
	return out
}

func rawStr(s string) *minijs.Node {
	n := &minijs.Node{K: "str", Quote: "\""}
	for _, r := range s {
		if r >= 0x10000 {
			r -= 0x10000
			n.Str = append(n.Str, minijs.StrPiece{U: uint16(0xD800 + (r >> 10))}, minijs.StrPiece{U: uint16(0xDC00 + (r & 0x3ff))})
		} else {
			n.Str = append(n.Str, minijs.StrPiece{U: uint16(r)})
		}
	}
	return n
}

// NumberValue converts the value otto stores in a NumberLiteral (int64 or float64) to a double.
func NumberValue(v interface{}) (float64, bool) {
	switch v := v.(type) {
	case int64:
		return float64(v), true
	case float64:
		return v, true
	case int:
		return float64(v), true
	}
	return math.NaN(), false
}

var assignOps = map[token.Token]string{
	token.ASSIGN: "=", token.PLUS: "+=", token.MINUS: "-=", token.MULTIPLY: "*=", token.SLASH: "/=", token.REMAINDER: "%=",
	token.AND: "&=", token.OR: "|=", token.EXCLUSIVE_OR: "^=", token.SHIFT_LEFT: "<<=", token.SHIFT_RIGHT: ">>=",
	token.UNSIGNED_SHIFT_RIGHT: ">>>=",
}

func (c *conv) exprs(l []ast.Expression) []*minijs.Node {
	var out []*minijs.Node
	for _, e := range l {
		out = append(out, c.expr(e))
	}
	return out
}

func (c *conv) function(f *ast.FunctionLiteral, kind string) *minijs.Node {
	n := &minijs.Node{K: kind, HasDecls: true, Decls: c.decls(f.DeclarationList)}
	if f.Name != nil {
		n.Name = f.Name.Name
	}
	if f.ParameterList != nil {
		for _, p := range f.ParameterList.List {
			if p == nil {
				c.fail("nil parameter")
				continue
			}
			n.Params = append(n.Params, p.Name)
		}
	}
	b, ok := f.Body.(*ast.BlockStatement)
	if !ok || b == nil {
		return c.fail("function body is %T", f.Body)
	}
	for _, s := range b.List {
		n.Kids = append(n.Kids, c.stmt(s))
	}
	return n
}

func (c *conv) varDecl(v *ast.VariableExpression) *minijs.Node {
	d := &minijs.Node{K: "decl", Name: v.Name, Kids: []*minijs.Node{nil}}
	if !isNil(v.Initializer) {
		d.Kids[0] = c.expr(v.Initializer)
	}
	return d
}

func (c *conv) expr(e ast.Expression) *minijs.Node {
	if isNil(e) {
		return c.fail("nil expression")
	}
	switch e := e.(type) {
	case *ast.Identifier:
		return &minijs.Node{K: "id", Name: e.Name}
	case *ast.ThisExpression:
		return &minijs.Node{K: "this"}
	case *ast.NullLiteral:
		return &minijs.Node{K: "null"}
	case *ast.BooleanLiteral:
		if e.Value {
			return &minijs.Node{K: "true"}
		}
		return &minijs.Node{K: "false"}
	case *ast.NumberLiteral:
		f, ok := NumberValue(e.Value)
		if !ok {
			return c.fail("number literal %q carries a %T", e.Literal, e.Value)
		}
		return &minijs.Node{K: "num", Lit: e.Literal, Val: minijs.NumRepr(f)}
	case *ast.StringLiteral:
		n := rawStr(e.Value)
		n.Lit = e.Literal
		return n
	case *ast.RegExpLiteral:
		return &minijs.Node{K: "regex", Lit: e.Pattern, Op: e.Flags}
	case *ast.ArrayLiteral:
		n := &minijs.Node{K: "arr"}
		for _, v := range e.Value {
			if _, empty := v.(*ast.EmptyExpression); empty {
				n.Kids = append(n.Kids, nil)
			} else {
				n.Kids = append(n.Kids, c.expr(v))
			}
		}
		return n
	case *ast.ObjectLiteral:
		n := &minijs.Node{K: "obj"}
		for _, p := range e.Value {
			pr := &minijs.Node{K: "prop", Kids: []*minijs.Node{rawStr(p.Key), nil}}
			switch p.Kind {
			case "value":
				pr.Op = "init"
				pr.Kids[1] = c.expr(p.Value)
			case "get", "set":
				pr.Op = p.Kind
				f, ok := p.Value.(*ast.FunctionLiteral)
				if !ok {
					return c.fail("accessor value is %T", p.Value)
				}
				pr.Kids[1] = c.function(f, "func")
			default:
				return c.fail("property kind %q", p.Kind)
			}
			n.Kids = append(n.Kids, pr)
		}
		return n
	case *ast.FunctionLiteral:
		return c.function(e, "func")
	case *ast.DotExpression:
		if e.Identifier == nil {
			return c.fail("dot expression without identifier")
		}
		return &minijs.Node{K: "dot", Name: e.Identifier.Name, Kids: []*minijs.Node{c.expr(e.Left)}}
	case *ast.BracketExpression:
		return &minijs.Node{K: "idx", Kids: []*minijs.Node{c.expr(e.Left), c.expr(e.Member)}}
	case *ast.CallExpression:
		return &minijs.Node{K: "call", Kids: append([]*minijs.Node{c.expr(e.Callee)}, c.exprs(e.ArgumentList)...)}
	case *ast.NewExpression:
		n := &minijs.Node{K: "new", Kids: append([]*minijs.Node{c.expr(e.Callee)}, c.exprs(e.ArgumentList)...)}
		n.NoArgs = e.LeftParenthesis == 0
		if n.NoArgs && len(e.ArgumentList) > 0 {
			return c.fail("new without parentheses has arguments")
		}
		return n
	case *ast.UnaryExpression:
		k := "unary"
		if e.Postfix {
			k = "postfix"
		}
		return &minijs.Node{K: k, Op: e.Operator.String(), Kids: []*minijs.Node{c.expr(e.Operand)}}
	case *ast.BinaryExpression:
		return &minijs.Node{K: "bin", Op: e.Operator.String(), Kids: []*minijs.Node{c.expr(e.Left), c.expr(e.Right)}}
	case *ast.ConditionalExpression:
		return &minijs.Node{K: "cond", Kids: []*minijs.Node{c.expr(e.Test), c.expr(e.Consequent), c.expr(e.Alternate)}}
	case *ast.AssignExpression:
		op, ok := assignOps[e.Operator]
		if !ok {
			return c.fail("assignment operator token %v", e.Operator)
		}
		return &minijs.Node{K: "assign", Op: op, Kids: []*minijs.Node{c.expr(e.Left), c.expr(e.Right)}}
	case *ast.SequenceExpression:
		return &minijs.Node{K: "seq", Kids: c.exprs(e.Sequence)}
	case *ast.VariableExpression:
		return c.fail("VariableExpression %q outside a var list", e.Name)
	case *ast.BadExpression:
		return c.fail("BadExpression %d..%d", e.From, e.To)
	}
	return c.fail("unknown expression %T", e)
}

func (c *conv) block(s ast.Statement) *minijs.Node {
	b, ok := s.(*ast.BlockStatement)
	if !ok || b == nil {
		return c.fail("expected a block, got %T", s)
	}
	return c.stmt(b)
}

func (c *conv) stmt(s ast.Statement) *minijs.Node {
	if isNil(s) {
		return c.fail("nil statement")
	}
	switch s := s.(type) {
	case *ast.BlockStatement:
		n := &minijs.Node{K: "block"}
		for _, x := range s.List {
			n.Kids = append(n.Kids, c.stmt(x))
		}
		return n
	case *ast.ExpressionStatement:
		return &minijs.Node{K: "expr", Kids: []*minijs.Node{c.expr(s.Expression)}}
	case *ast.VariableStatement:
		n := &minijs.Node{K: "var"}
		for _, e := range s.List {
			v, ok := e.(*ast.VariableExpression)
			if !ok {
				return c.fail("var list holds %T", e)
			}
			n.Kids = append(n.Kids, c.varDecl(v))
		}
		return n
	case *ast.EmptyStatement:
		return &minijs.Node{K: "empty"}
	case *ast.DebuggerStatement:
		return &minijs.Node{K: "debugger"}
	case *ast.IfStatement:
		n := &minijs.Node{K: "if", Kids: []*minijs.Node{c.expr(s.Test), c.stmt(s.Consequent), nil}}
		if !isNil(s.Alternate) {
			n.Kids[2] = c.stmt(s.Alternate)
		}
		return n
	case *ast.WhileStatement:
		return &minijs.Node{K: "while", Kids: []*minijs.Node{c.expr(s.Test), c.stmt(s.Body)}}
	case *ast.DoWhileStatement:
		return &minijs.Node{K: "dowhile", Kids: []*minijs.Node{c.stmt(s.Body), c.expr(s.Test)}}
	case *ast.ForStatement:
		n := &minijs.Node{K: "for", Kids: []*minijs.Node{nil, nil, nil, nil}}
		if !isNil(s.Initializer) {
			seq, ok := s.Initializer.(*ast.SequenceExpression)
			if !ok {
				return c.fail("for initializer is %T", s.Initializer)
			}
			vars := 0
			for _, e := range seq.Sequence {
				if _, ok := e.(*ast.VariableExpression); ok {
					vars++
				}
			}
			switch {
			case len(seq.Sequence) == 0:
			case vars == len(seq.Sequence):
				v := &minijs.Node{K: "var"}
				for _, e := range seq.Sequence {
					v.Kids = append(v.Kids, c.varDecl(e.(*ast.VariableExpression)))
				}
				n.Kids[0] = v
			case vars == 0 && len(seq.Sequence) == 1:
				n.Kids[0] = c.expr(seq.Sequence[0])
			default:
				return c.fail("for initializer wrapper holds %d entries, %d of them var", len(seq.Sequence), vars)
			}
		}
		if !isNil(s.Test) {
			n.Kids[1] = c.expr(s.Test)
		}
		if !isNil(s.Update) {
			n.Kids[2] = c.expr(s.Update)
		}
		n.Kids[3] = c.stmt(s.Body)
		return n
	case *ast.ForInStatement:
		n := &minijs.Node{K: "forin", Kids: []*minijs.Node{nil, c.expr(s.Source), c.stmt(s.Body)}}
		if v, ok := s.Into.(*ast.VariableExpression); ok {
			n.Kids[0] = &minijs.Node{K: "var", Kids: []*minijs.Node{c.varDecl(v)}}
		} else {
			n.Kids[0] = c.expr(s.Into)
		}
		return n
	case *ast.BranchStatement:
		n := &minijs.Node{}
		switch s.Token {
		case token.BREAK:
			n.K = "break"
		case token.CONTINUE:
			n.K = "continue"
		default:
			return c.fail("branch token %v", s.Token)
		}
		if s.Label != nil {
			n.Name = s.Label.Name
			if n.Name == "" {
				return c.fail("empty label")
			}
		}
		return n
	case *ast.ReturnStatement:
		n := &minijs.Node{K: "return", Kids: []*minijs.Node{nil}}
		if !isNil(s.Argument) {
			n.Kids[0] = c.expr(s.Argument)
		}
		return n
	case *ast.ThrowStatement:
		return &minijs.Node{K: "throw", Kids: []*minijs.Node{c.expr(s.Argument)}}
	case *ast.WithStatement:
		return &minijs.Node{K: "with", Kids: []*minijs.Node{c.expr(s.Object), c.stmt(s.Body)}}
	case *ast.SwitchStatement:
		n := &minijs.Node{K: "switch", Kids: []*minijs.Node{c.expr(s.Discriminant)}}
		def := -1
		for i, cs := range s.Body {
			if cs == nil {
				return c.fail("nil case clause")
			}
			cn := &minijs.Node{K: "case", Kids: []*minijs.Node{nil}}
			if !isNil(cs.Test) {
				cn.Kids[0] = c.expr(cs.Test)
			} else {
				def = i
			}
			for _, x := range cs.Consequent {
				cn.Kids = append(cn.Kids, c.stmt(x))
			}
			n.Kids = append(n.Kids, cn)
		}
		if s.Default != def {
			return c.fail("switch.Default = %d but the default clause is at %d", s.Default, def)
		}
		return n
	case *ast.LabelledStatement:
		if s.Label == nil {
			return c.fail("label without identifier")
		}
		return &minijs.Node{K: "label", Name: s.Label.Name, Kids: []*minijs.Node{c.stmt(s.Statement)}}
	case *ast.TryStatement:
		n := &minijs.Node{K: "try", Kids: []*minijs.Node{c.block(s.Body), nil, nil}}
		if s.Catch != nil {
			if s.Catch.Parameter == nil {
				return c.fail("catch without parameter")
			}
			n.Name = s.Catch.Parameter.Name
			n.Kids[1] = c.block(s.Catch.Body)
		}
		if !isNil(s.Finally) {
			n.Kids[2] = c.block(s.Finally)
		}
		return n
	case *ast.FunctionStatement:
		if s.Function == nil {
			return c.fail("function statement without literal")
		}
		return c.function(s.Function, "funcdecl")
	case *ast.BadStatement:
		return c.fail("BadStatement %d..%d", s.From, s.To)
	}
	return c.fail("unknown statement %T", s)
}

// Quote is strconv.Quote (kept here so callers need one import less).
func Quote(s string) string { return strconv.Quote(s) }
