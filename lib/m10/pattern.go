// Package m10 is the reference model of property C10: an ES5.1 15.10.1 pattern parser, a
// backtracking matcher transcribed from 15.10.2, and the protocol algorithms 15.10.6.2-3 and
// 15.5.4.10-14 on UTF-16 code units. Nothing here calls otto or Go's regexp package.
package m10

import (
	"fmt"
	"strings"
)

// Kind of a pattern tree node.
type Kind int

const (
	KEmpty    Kind = iota // the empty Alternative
	KAlt                  // Disjunction: Kids are the alternatives
	KSeq                  // Alternative: Kids are the terms
	KChar                 // a single character atom (literal or escaped)
	KDot                  // .
	KClassEsc             // \d \D \w \W \s \S as an atom
	KClass                // [...]
	KGroup                // ( Disjunction )
	KNCGroup              // (?: Disjunction )
	KQuant                // Atom Quantifier: Kids[0] is the atom
	KBOL                  // ^
	KEOL                  // $
	KWordB                // \b
	KNWordB               // \B
	KLook                 // (?= ) (?! )   - valid ES5, unsupported by otto
	KBackRef              // \1 …         - valid ES5, unsupported by otto
)

// Node is one node of a pattern tree (15.10.1).
type Node struct {
	Kind  Kind
	Kids  []*Node
	Ch    uint16 // KChar
	Form  string // KChar: how it is written: lit, x, u, c, ctl, id, nul
	Esc   byte   // KClassEsc: d D w W s S
	Neg   bool   // KClass: [^ ; KLook: (?!
	Items []ClassItem
	Min   int
	Max   int // -1 = infinity
	Lazy  bool
	QForm int // 0 * 1 + 2 ? 3 {n} 4 {n,} 5 {n,m}
	Index int // KGroup: 1-based capture index; KBackRef: the number

	// filled by the parser / Number(): captures to the left of this term and inside it (15.10.2.5)
	ParenIndex int
	ParenCount int

	ZeroPad bool // KQuant: a bound is written with a leading zero ({01}, {0,00})
}

// ClassItem is a ClassAtom or a ClassAtom-ClassAtom range. Lo/Hi are KChar or (Lo only) KClassEsc nodes.
type ClassItem struct {
	Lo, Hi *Node
	Range  bool
}

// Status is the verdict of the parser on a pattern source.
type Status int

const (
	// Valid: derivable from the ES5.1 15.10.1 grammar, inside the portable subset.
	Valid Status = iota
	// Unsupported: valid ES5.1, but uses look-ahead or a back-reference (otto documents these as rejected).
	Unsupported
	// Invalid: a SyntaxError under ES5.1 15.10.1/15.10.2 AND under the web-compatibility grammar (ES2015 Annex B.1.4).
	Invalid
	// Lenient: a SyntaxError under the ES5.1 text, accepted by the web-compatibility grammar with the
	// meaning the returned tree has (literal { } ], identity escapes of letters). Either outcome is accepted.
	Lenient
	// Outside: ES5.1 rejects it, web engines give it a meaning this model does not implement
	// (legacy octal escapes, \c without a letter, class escapes as range ends, quantified look-ahead).
	Outside
)

func (s Status) String() string {
	return [...]string{"valid", "unsupported", "invalid", "lenient", "outside"}[s]
}

// Parsed is the result of parsing a pattern.
type Parsed struct {
	Tree   *Node
	NCaps  int
	Status Status
	Why    string // for Invalid/Lenient/Outside/Unsupported: the first reason
	// EmptyClass: an empty class [] or [^] was read (also set when the pattern is Invalid for another
	// reason further right): engines that take a leading ] as a literal see a different pattern.
	EmptyClass bool
	// ZeroPad: a {n,m} quantifier (or text that is one by 15.10.1) has a bound with a leading zero.
	ZeroPad bool
}

type pparser struct {
	s       []uint16
	i       int
	ncaps   int // total number of capturing parentheses in the pattern (pre-scan)
	seen    int // capturing parentheses opened so far
	status  Status
	why     string
	empty   bool
	zeroPad bool
}

type syntaxErr struct{ msg string }

func (p *pparser) fail(format string, a ...interface{}) {
	panic(syntaxErr{fmt.Sprintf(format, a...)})
}

// note records a non-fatal downgrade of the status (Unsupported < Lenient < Outside in priority).
func (p *pparser) note(s Status, format string, a ...interface{}) {
	rank := func(s Status) int {
		switch s {
		case Valid:
			return 0
		case Unsupported:
			return 1
		case Lenient:
			return 2
		case Outside:
			return 3
		}
		return 4
	}
	if rank(s) > rank(p.status) {
		p.status = s
		p.why = fmt.Sprintf(format, a...)
	}
}

// Parse parses pattern source text (UTF-16 code units) by the ES5.1 grammar.
func Parse(src []uint16) (res Parsed) {
	p := &pparser{s: src}
	p.ncaps = countCaps(src)
	defer func() {
		if r := recover(); r != nil {
			if se, ok := r.(syntaxErr); ok {
				if p.status == Outside {
					// something to the left was read with a meaning web engines do not give it:
					// the error may be an artefact of that reading
					res = Parsed{Status: Outside, Why: p.why, NCaps: p.ncaps, EmptyClass: p.empty, ZeroPad: p.zeroPad}
					return
				}
				res = Parsed{Status: Invalid, Why: se.msg, NCaps: p.ncaps, EmptyClass: p.empty, ZeroPad: p.zeroPad}
				return
			}
			panic(r)
		}
	}()
	n := p.disjunction()
	if p.i < len(p.s) {
		// only an unmatched ')' can stop the top-level disjunction
		p.fail("unmatched ) at %d", p.i)
	}
	Number(n)
	return Parsed{Tree: n, NCaps: p.seen, Status: p.status, Why: p.why, EmptyClass: p.empty, ZeroPad: p.zeroPad}
}

// ParseString is Parse on a Go string.
func ParseString(s string) Parsed { return Parse(U16(s)) }

// countCaps counts capturing left parentheses (needed up front for DecimalEscape, 15.10.2.11).
func countCaps(s []uint16) int {
	n := 0
	inClass := false
	for i := 0; i < len(s); i++ {
		switch s[i] {
		case '\\':
			i++
		case '[':
			inClass = true
		case ']':
			inClass = false
		case '(':
			if !inClass && !(i+1 < len(s) && s[i+1] == '?') {
				n++
			}
		}
	}
	return n
}

func (p *pparser) eof() bool { return p.i >= len(p.s) }
func (p *pparser) peek() uint16 {
	if p.i < len(p.s) {
		return p.s[p.i]
	}
	return 0
}
func (p *pparser) peekAt(k int) (uint16, bool) {
	if p.i+k < len(p.s) {
		return p.s[p.i+k], true
	}
	return 0, false
}

func (p *pparser) disjunction() *Node {
	alts := []*Node{p.alternative()}
	for !p.eof() && p.peek() == '|' {
		p.i++
		alts = append(alts, p.alternative())
	}
	if len(alts) == 1 {
		return alts[0]
	}
	return &Node{Kind: KAlt, Kids: alts}
}

func (p *pparser) alternative() *Node {
	var terms []*Node
	for !p.eof() && p.peek() != '|' && p.peek() != ')' {
		terms = append(terms, p.term())
	}
	switch len(terms) {
	case 0:
		return &Node{Kind: KEmpty}
	case 1:
		return terms[0]
	}
	return &Node{Kind: KSeq, Kids: terms}
}

func isDigit(c uint16) bool { return c >= '0' && c <= '9' }
func isHex(c uint16) bool {
	return isDigit(c) || c >= 'a' && c <= 'f' || c >= 'A' && c <= 'F'
}
func hexv(c uint16) int {
	switch {
	case isDigit(c):
		return int(c - '0')
	case c >= 'a':
		return int(c-'a') + 10
	}
	return int(c-'A') + 10
}

// quantifierAt recognises a QuantifierPrefix at position i; ok=false when the text is not one.
func (p *pparser) quantifierAt(i int) (min, max, form, end int, ok bool) {
	if i >= len(p.s) {
		return
	}
	switch p.s[i] {
	case '*':
		return 0, -1, 0, i + 1, true
	case '+':
		return 1, -1, 1, i + 1, true
	case '?':
		return 0, 1, 2, i + 1, true
	case '{':
		j := i + 1
		num := func() (int, bool) {
			st := j
			v := 0
			if j+1 < len(p.s) && p.s[j] == '0' && isDigit(p.s[j+1]) {
				p.zeroPad = true
			}
			for j < len(p.s) && isDigit(p.s[j]) {
				if v < 1<<20 {
					v = v*10 + int(p.s[j]-'0')
				}
				j++
			}
			return v, j > st
		}
		a, okA := num()
		if !okA || j >= len(p.s) {
			return
		}
		if p.s[j] == '}' {
			return a, a, 3, j + 1, true
		}
		if p.s[j] != ',' {
			return
		}
		j++
		if j < len(p.s) && p.s[j] == '}' {
			return a, -1, 4, j + 1, true
		}
		b, okB := num()
		if !okB || j >= len(p.s) || p.s[j] != '}' {
			return
		}
		return a, b, 5, j + 1, true
	}
	return
}

func (p *pparser) term() *Node {
	c := p.peek()
	var atom *Node
	assertion := false
	switch c {
	case '^':
		p.i++
		atom, assertion = &Node{Kind: KBOL}, true
	case '$':
		p.i++
		atom, assertion = &Node{Kind: KEOL}, true
	case '*', '+', '?':
		p.fail("nothing to repeat at %d", p.i)
	case '{':
		if _, _, _, _, ok := p.quantifierAt(p.i); ok {
			p.fail("nothing to repeat at %d", p.i)
		}
		p.note(Lenient, "literal { at %d (not a PatternCharacter in ES5.1)", p.i)
		p.i++
		atom = &Node{Kind: KChar, Ch: '{', Form: "lit"}
	case '}', ']':
		p.note(Lenient, "literal %c at %d (not a PatternCharacter in ES5.1)", rune(c), p.i)
		p.i++
		atom = &Node{Kind: KChar, Ch: c, Form: "lit"}
	case '.':
		p.i++
		atom = &Node{Kind: KDot}
	case '[':
		atom = p.class()
	case '(':
		atom, assertion = p.group()
	case '\\':
		p.i++
		if p.eof() {
			p.fail("\\ at end of pattern")
		}
		switch p.peek() {
		case 'b':
			p.i++
			atom, assertion = &Node{Kind: KWordB}, true
		case 'B':
			p.i++
			atom, assertion = &Node{Kind: KNWordB}, true
		default:
			atom = p.atomEscape()
		}
	default:
		p.i++
		atom = &Node{Kind: KChar, Ch: c, Form: "lit"}
	}
	min, max, form, end, ok := p.quantifierAt(p.i)
	if !ok {
		return atom
	}
	if assertion {
		if atom.Kind == KLook {
			// ES5.1: Term :: Assertion has no quantifier; web engines allow it on look-aheads
			p.note(Outside, "quantified look-ahead")
		} else {
			p.fail("quantifier after an assertion at %d", p.i)
		}
	}
	if max != -1 && min > max {
		p.fail("numbers out of order in {%d,%d}", min, max)
	}
	zeroPad := false
	for k := p.i; k+1 < end; k++ {
		if p.s[k] == '0' && isDigit(p.s[k+1]) && (k == p.i || !isDigit(p.s[k-1])) {
			zeroPad = true
		}
	}
	p.i = end
	q := &Node{Kind: KQuant, Kids: []*Node{atom}, Min: min, Max: max, QForm: form, ZeroPad: zeroPad}
	if !p.eof() && p.peek() == '?' {
		p.i++
		q.Lazy = true
	}
	return q
}

func (p *pparser) group() (*Node, bool) {
	p.i++ // (
	kind := KGroup
	neg := false
	if !p.eof() && p.peek() == '?' {
		c, ok := p.peekAt(1)
		switch {
		case ok && c == ':':
			kind = KNCGroup
			p.i += 2
		case ok && (c == '=' || c == '!'):
			kind = KLook
			neg = c == '!'
			p.i += 2
			p.note(Unsupported, "look-ahead")
		default:
			p.fail("invalid group (? at %d", p.i)
		}
	}
	n := &Node{Kind: kind, Neg: neg}
	if kind == KGroup {
		p.seen++
		n.Index = p.seen
	}
	n.Kids = []*Node{p.disjunction()}
	if p.eof() || p.peek() != ')' {
		p.fail("unterminated group")
	}
	p.i++
	return n, kind == KLook
}

func isIdentifierPartASCII(c uint16) bool {
	return c >= 'a' && c <= 'z' || c >= 'A' && c <= 'Z' || isDigit(c) || c == '$' || c == '_'
}

// characterEscape parses CharacterEscape / CharacterClassEscape after the backslash (shared by
// AtomEscape and ClassEscape). DecimalEscape, b and B are handled by the callers.
func (p *pparser) characterEscape() *Node {
	c := p.peek()
	p.i++
	switch c {
	case 'd', 'D', 'w', 'W':
		return &Node{Kind: KClassEsc, Esc: byte(c)}
	case 's', 'S':
		return &Node{Kind: KClassEsc, Esc: byte(c)}
	case 't':
		return &Node{Kind: KChar, Ch: 9, Form: "ctl"}
	case 'n':
		return &Node{Kind: KChar, Ch: 10, Form: "ctl"}
	case 'v':
		return &Node{Kind: KChar, Ch: 11, Form: "ctl"}
	case 'f':
		return &Node{Kind: KChar, Ch: 12, Form: "ctl"}
	case 'r':
		return &Node{Kind: KChar, Ch: 13, Form: "ctl"}
	case 'c':
		if l := p.peek(); !p.eof() && (l >= 'a' && l <= 'z' || l >= 'A' && l <= 'Z') {
			p.i++
			return &Node{Kind: KChar, Ch: l % 32, Form: "c"}
		}
		p.note(Outside, "\\c without a control letter")
		return &Node{Kind: KChar, Ch: '\\', Form: "lit"}
	case 'x':
		if a, ok := p.peekAt(0); ok && isHex(a) {
			if b, ok := p.peekAt(1); ok && isHex(b) {
				p.i += 2
				return &Node{Kind: KChar, Ch: uint16(hexv(a)*16 + hexv(b)), Form: "x"}
			}
		}
		p.note(Lenient, "\\x without two hex digits")
		return &Node{Kind: KChar, Ch: 'x', Form: "id"}
	case 'u':
		v, ok := 0, true
		for k := 0; k < 4; k++ {
			h, has := p.peekAt(k)
			if !has || !isHex(h) {
				ok = false
				break
			}
			v = v*16 + hexv(h)
		}
		if ok {
			p.i += 4
			return &Node{Kind: KChar, Ch: uint16(v), Form: "u"}
		}
		p.note(Lenient, "\\u without four hex digits")
		return &Node{Kind: KChar, Ch: 'u', Form: "id"}
	}
	// IdentityEscape :: SourceCharacter but not IdentifierPart
	if isIdentifierPartASCII(c) || c >= 0x80 {
		// (non-ASCII: deciding IdentifierPart needs the Unicode tables; kept out of the subset)
		if c >= 0x80 {
			p.note(Outside, "identity escape of a non-ASCII character")
		} else {
			p.note(Lenient, "identity escape of IdentifierPart %q", rune(c))
		}
	}
	return &Node{Kind: KChar, Ch: c, Form: "id"}
}

func (p *pparser) atomEscape() *Node {
	c := p.peek()
	if isDigit(c) {
		if c == '0' {
			p.i++
			if !p.eof() && isDigit(p.peek()) {
				p.note(Outside, "\\0 followed by a digit (legacy octal)")
			}
			return &Node{Kind: KChar, Ch: 0, Form: "nul"}
		}
		v := 0
		for !p.eof() && isDigit(p.peek()) {
			if v < 1<<20 {
				v = v*10 + int(p.peek()-'0')
			}
			p.i++
		}
		if v > p.ncaps {
			// 15.10.2.9: SyntaxError; web engines re-read it as octal / identity escape
			p.note(Outside, "\\%d exceeds the number of groups (%d)", v, p.ncaps)
			return &Node{Kind: KEmpty}
		}
		p.note(Unsupported, "back-reference \\%d", v)
		return &Node{Kind: KBackRef, Index: v}
	}
	return p.characterEscape()
}

func (p *pparser) classAtom() *Node {
	c := p.peek()
	if c != '\\' {
		p.i++
		return &Node{Kind: KChar, Ch: c, Form: "lit"}
	}
	p.i++
	if p.eof() {
		p.fail("\\ at end of pattern")
	}
	c = p.peek()
	switch {
	case c == 'b':
		p.i++
		return &Node{Kind: KChar, Ch: 8, Form: "ctl"}
	case c == '0':
		p.i++
		if !p.eof() && isDigit(p.peek()) {
			p.note(Outside, "\\0 followed by a digit in a class (legacy octal)")
		}
		return &Node{Kind: KChar, Ch: 0, Form: "nul"}
	case isDigit(c):
		// 15.10.2.19: DecimalEscape in a class that is not a character -> SyntaxError; web: octal
		p.i++
		p.note(Outside, "decimal escape in a class")
		return &Node{Kind: KChar, Ch: c, Form: "id"}
	}
	return p.characterEscape()
}

func (p *pparser) class() *Node {
	p.i++ // [
	n := &Node{Kind: KClass}
	if !p.eof() && p.peek() == '^' {
		n.Neg = true
		p.i++
	}
	for {
		if p.eof() {
			p.fail("unterminated character class")
		}
		if p.peek() == ']' {
			p.i++
			if len(n.Items) == 0 {
				p.empty = true
			}
			return n
		}
		lo := p.classAtom()
		if !p.eof() && p.peek() == '-' {
			if nx, ok := p.peekAt(1); ok && nx != ']' {
				p.i++
				hi := p.classAtom()
				if lo.Kind != KChar || hi.Kind != KChar {
					// 15.10.2.15 CharacterRange: both ends must be single characters -> SyntaxError; web: literal -
					p.note(Outside, "class escape as an end of a range")
					n.Items = append(n.Items, ClassItem{Lo: lo}, ClassItem{Lo: &Node{Kind: KChar, Ch: '-', Form: "lit"}}, ClassItem{Lo: hi})
					continue
				}
				if lo.Ch > hi.Ch {
					p.fail("range out of order in character class")
				}
				n.Items = append(n.Items, ClassItem{Lo: lo, Hi: hi, Range: true})
				continue
			}
		}
		n.Items = append(n.Items, ClassItem{Lo: lo})
	}
}

// Number fills Index, ParenIndex and ParenCount (15.10.2.5: parenIndex = capturing left parentheses
// to the left of the term, parenCount = those inside its atom) and returns the number of groups.
func Number(root *Node) int {
	count := 0
	var walk func(n *Node)
	walk = func(n *Node) {
		n.ParenIndex = count
		if n.Kind == KGroup {
			count++
			n.Index = count
		}
		for _, k := range n.Kids {
			walk(k)
		}
		n.ParenCount = count - n.ParenIndex
	}
	walk(root)
	return count
}

// ---- rendering ---------------------------------------------------------------------------------

// Render writes the tree as pattern source text.
func Render(n *Node) string {
	var b strings.Builder
	render(&b, n, false)
	return b.String()
}

func renderChar(b *strings.Builder, n *Node, inClass bool) {
	switch n.Form {
	case "x":
		fmt.Fprintf(b, "\\x%02X", n.Ch)
	case "u":
		fmt.Fprintf(b, "\\u%04X", n.Ch)
	case "c":
		fmt.Fprintf(b, "\\c%c", rune('A'+n.Ch-1))
	case "cl": // lower-case control letter
		fmt.Fprintf(b, "\\c%c", rune('a'+n.Ch-1))
	case "ctl":
		switch n.Ch {
		case 8:
			b.WriteString("\\b") // only inside a class
		case 9:
			b.WriteString("\\t")
		case 10:
			b.WriteString("\\n")
		case 11:
			b.WriteString("\\v")
		case 12:
			b.WriteString("\\f")
		case 13:
			b.WriteString("\\r")
		}
	case "id":
		b.WriteByte('\\')
		b.WriteRune(rune(n.Ch))
	case "nul":
		b.WriteString("\\0")
	default:
		b.WriteRune(rune(n.Ch))
	}
}

func renderQuant(b *strings.Builder, n *Node) {
	switch n.QForm {
	case 0:
		b.WriteByte('*')
	case 1:
		b.WriteByte('+')
	case 2:
		b.WriteByte('?')
	case 3:
		fmt.Fprintf(b, "{%d}", n.Min)
	case 4:
		fmt.Fprintf(b, "{%d,}", n.Min)
	case 5:
		fmt.Fprintf(b, "{%d,%d}", n.Min, n.Max)
	}
	if n.Lazy {
		b.WriteByte('?')
	}
}

func render(b *strings.Builder, n *Node, inClass bool) {
	switch n.Kind {
	case KEmpty:
	case KAlt:
		for i, k := range n.Kids {
			if i > 0 {
				b.WriteByte('|')
			}
			render(b, k, false)
		}
	case KSeq:
		for _, k := range n.Kids {
			render(b, k, false)
		}
	case KChar:
		renderChar(b, n, inClass)
	case KDot:
		b.WriteByte('.')
	case KClassEsc:
		b.WriteByte('\\')
		b.WriteByte(n.Esc)
	case KClass:
		b.WriteByte('[')
		if n.Neg {
			b.WriteByte('^')
		}
		for _, it := range n.Items {
			render(b, it.Lo, true)
			if it.Range {
				b.WriteByte('-')
				render(b, it.Hi, true)
			}
		}
		b.WriteByte(']')
	case KGroup:
		b.WriteByte('(')
		render(b, n.Kids[0], false)
		b.WriteByte(')')
	case KNCGroup:
		b.WriteString("(?:")
		render(b, n.Kids[0], false)
		b.WriteByte(')')
	case KLook:
		if n.Neg {
			b.WriteString("(?!")
		} else {
			b.WriteString("(?=")
		}
		render(b, n.Kids[0], false)
		b.WriteByte(')')
	case KQuant:
		render(b, n.Kids[0], false)
		renderQuant(b, n)
	case KBOL:
		b.WriteByte('^')
	case KEOL:
		b.WriteByte('$')
	case KWordB:
		b.WriteString("\\b")
	case KNWordB:
		b.WriteString("\\B")
	case KBackRef:
		fmt.Fprintf(b, "\\%d", n.Index)
	}
}

// ---- static analysis -----------------------------------------------------------------------------

// Features summarises what a pattern uses (for the non-triviality rule and the histograms).
type Features struct {
	Class, Quant, Lazy, Group, NCGroup, Alt, Anchor, WordB, Escape, Dot, ClassEsc, NegClass, Range, EmptyClass bool
	Space                                                                                                      bool // \s \S
	FoldPair                                                                                                   bool // see FoldPairHazard
	ZeroPadQuant                                                                                               bool // {01}
	// the two structural ES5-vs-RE2 classes (DESIGN C10): a capture inside a group quantified with
	// max > 1, and a nullable body under a quantifier with max > 1 or unbounded
	CaptureInRepeat, NullableRepeat bool
	Constructs                      int
}

// Analyse computes Features of a tree.
func Analyse(root *Node) Features {
	var f Features
	var walk func(n *Node)
	walk = func(n *Node) {
		switch n.Kind {
		case KAlt:
			f.Alt = true
		case KChar:
			if n.Form != "lit" {
				f.Escape = true
			}
		case KDot:
			f.Dot = true
		case KClassEsc:
			f.ClassEsc = true
			f.Escape = true
			if n.Esc == 's' || n.Esc == 'S' {
				f.Space = true
			}
		case KClass:
			f.Class = true
			if n.Neg {
				f.NegClass = true
			}
			if len(n.Items) == 0 {
				f.EmptyClass = true
			}
			for _, it := range n.Items {
				if it.Range {
					f.Range = true
				}
				if it.Lo.Kind == KClassEsc {
					f.ClassEsc = true
					if it.Lo.Esc == 's' || it.Lo.Esc == 'S' {
						f.Space = true
					}
				}
			}
		case KGroup:
			f.Group = true
		case KNCGroup:
			f.NCGroup = true
		case KQuant:
			f.Quant = true
			if n.Lazy {
				f.Lazy = true
			}
			if n.ZeroPad {
				f.ZeroPadQuant = true
			}
			if n.Max == -1 || n.Max > 1 {
				if n.ParenCount > 0 {
					f.CaptureInRepeat = true
				}
				if Nullable(n.Kids[0]) {
					f.NullableRepeat = true
				}
			}
		case KBOL, KEOL:
			f.Anchor = true
		case KWordB, KNWordB:
			f.WordB = true
			f.Escape = true
		}
		for _, k := range n.Kids {
			walk(k)
		}
	}
	walk(root)
	f.FoldPair = FoldPairHazard(root)
	for _, b := range []bool{f.Class, f.Quant, f.Group || f.NCGroup, f.Alt, f.Anchor || f.WordB, f.Escape} {
		if b {
			f.Constructs++
		}
	}
	return f
}

// classMembers returns the members of a non-negated class made only of characters and short ranges
// (ok=false for class escapes, negation or more than 64 members).
func classMembers(n *Node) (set map[uint16]bool, ok bool) {
	if n.Neg {
		return nil, false
	}
	set = map[uint16]bool{}
	for _, it := range n.Items {
		if it.Lo.Kind != KChar {
			return nil, false
		}
		hi := it.Lo.Ch
		if it.Range {
			hi = it.Hi.Ch
		}
		if int(hi)-int(it.Lo.Ch) > 64 {
			return nil, false
		}
		for c := int(it.Lo.Ch); c <= int(hi); c++ {
			set[uint16(c)] = true
		}
		if len(set) > 64 {
			return nil, false
		}
	}
	return set, true
}

// FoldPairHazard reports the static shape that triggers a defect of Go's regexp/syntax (seen with
// go1.23): a class that is exactly the two cases of one letter ([aA]) is parsed as a case-folded
// literal, and the prefix factoring of alternations then treats it as equal to the plain literal
// (A|[aA]b becomes A(?:|b)). The predicate is: the pattern has an alternation, such a class, and the
// same letter (either case) as a literal or one-member class somewhere.
func FoldPairHazard(root *Node) bool {
	alt := false
	pairs := map[uint16]bool{} // both cases of every fold-pair class
	lits := map[uint16]bool{}
	var walk func(n *Node)
	walk = func(n *Node) {
		switch n.Kind {
		case KAlt:
			alt = true
		case KChar:
			lits[n.Ch] = true
		case KClass:
			if set, ok := classMembers(n); ok {
				switch len(set) {
				case 1:
					for c := range set {
						lits[c] = true
					}
				case 2:
					var m []uint16
					for c := range set {
						m = append(m, c)
					}
					if Canonicalize(m[0], true) == Canonicalize(m[1], true) {
						pairs[m[0]], pairs[m[1]] = true, true
					}
				}
			}
		}
		for _, k := range n.Kids {
			walk(k)
		}
	}
	walk(root)
	if !alt {
		return false
	}
	for c := range pairs {
		if lits[c] {
			return true
		}
	}
	return false
}

// Nullable reports whether the node can match the empty string.
func Nullable(n *Node) bool {
	switch n.Kind {
	case KEmpty, KBOL, KEOL, KWordB, KNWordB, KLook:
		return true
	case KAlt:
		for _, k := range n.Kids {
			if Nullable(k) {
				return true
			}
		}
		return false
	case KSeq:
		for _, k := range n.Kids {
			if !Nullable(k) {
				return false
			}
		}
		return true
	case KGroup, KNCGroup:
		return Nullable(n.Kids[0])
	case KQuant:
		return n.Min == 0 || Nullable(n.Kids[0])
	case KBackRef:
		return true
	}
	return false
}

// HasAssertionNeedingLeftContext reports whether the pattern contains ^, \b or \B: the assertions
// whose value at position i depends on the character before i.
func HasAssertionNeedingLeftContext(n *Node) bool {
	switch n.Kind {
	case KBOL, KWordB, KNWordB:
		return true
	}
	for _, k := range n.Kids {
		if HasAssertionNeedingLeftContext(k) {
			return true
		}
	}
	return false
}

// U16 converts a Go string to UTF-16 code units.
func U16(s string) []uint16 {
	out := make([]uint16, 0, len(s))
	for _, r := range s {
		if r >= 0x10000 {
			r -= 0x10000
			out = append(out, uint16(0xD800+(r>>10)), uint16(0xDC00+(r&0x3ff)))
		} else {
			out = append(out, uint16(r))
		}
	}
	return out
}
