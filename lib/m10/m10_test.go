package m10

import (
	"encoding/json"
	"fmt"
	"os"
	"strings"
	"testing"

	"pgregory.net/rapid"
)

func show(mr *MatchResult) string {
	if mr == nil {
		return "null"
	}
	var p []string
	for k := range mr.Caps {
		if !mr.Def[k] {
			p = append(p, "undefined")
		} else {
			p = append(p, fmt.Sprintf("%q", string(runes(mr.Caps[k]))))
		}
	}
	return fmt.Sprintf("%d:[%s]", mr.Index, strings.Join(p, ","))
}

func unitsStr(u []uint16) string {
	p := make([]string, len(u))
	for i, c := range u {
		p[i] = fmt.Sprint(c)
	}
	return "<" + strings.Join(p, " ") + ">"
}

func showU(mr *MatchResult) string {
	if mr == nil {
		return "null"
	}
	var p []string
	for k := range mr.Caps {
		if !mr.Def[k] {
			p = append(p, "undefined")
		} else {
			p = append(p, unitsStr(mr.Caps[k]))
		}
	}
	return fmt.Sprintf("%d:[%s]", mr.Index, strings.Join(p, ","))
}

func showSplitU(it []SplitItem) string {
	var p []string
	for _, x := range it {
		if !x.Def {
			p = append(p, "undefined")
		} else {
			p = append(p, unitsStr(x.S))
		}
	}
	return "[" + strings.Join(p, ",") + "]"
}

func runes(u []uint16) []rune {
	r := make([]rune, len(u))
	for i, c := range u {
		r[i] = rune(c)
	}
	return r
}

func mk(t *testing.T, src, flags string) *RegExp {
	p := ParseString(src)
	if p.Tree == nil {
		t.Fatalf("%q: %s (%s)", src, p.Status, p.Why)
	}
	return &RegExp{Prog: Compile(p.Tree, p.NCaps, strings.Contains(flags, "i"), strings.Contains(flags, "m")), Global: strings.Contains(flags, "g"), LastIndex: NumVal(0)}
}

// Examples taken from the notes of ES5.1 15.10.2.3, 15.10.2.5, 15.10.2.8, 15.10.2.9 and 15.5.4.14.
func TestSpecExamples(t *testing.T) {
	for _, c := range []struct{ src, flags, subj, want string }{
		{"a|ab", "", "abc", `0:["a"]`},
		{"((a)|(ab))((c)|(bc))", "", "abc", `0:["abc","a","a",undefined,"bc",undefined,"bc"]`},
		{"a[a-z]{2,4}", "", "abcdefghi", `0:["abcde"]`},
		{"a[a-z]{2,4}?", "", "abcdefghi", `0:["abc"]`},
		{"(aa|aabaac|ba|b|c)*", "", "aabaac", `0:["aaba","ba"]`},
		{"(z)((a+)?(b+)?(c))*", "", "zaacbbbcac", `0:["zaacbbbcac","z","ac","a",undefined,"c"]`},
		{"(a*)*", "", "b", `0:["",undefined]`},
		{"(a*)b\\1+", "", "baaaac", `0:["b",""]`},
		{"(?=(a+))", "", "baaabac", `1:["","aaa"]`},
		{"(?=(a+))a*b\\1", "", "baaabac", `3:["aba","a"]`},
		{"(.*?)a(?!(a+)b\\2c)\\2(.*)", "", "baaabaac", `0:["baaabaac","ba",undefined,"abaac"]`},
		{"^(a+)\\1*,\\1+$", "", "aaaaaaaaaa,aaaaaaaaaaaaaaa", `0:["aaaaaaaaaa,aaaaaaaaaaaaaaa","aaaaa"]`},
		{"[^]", "", "\n", `0:["\n"]`},
		{"[]", "", "a", `null`},
		{".", "", "\r a", `2:["a"]`},
		{"^b", "m", "a b", `2:["b"]`},
		{"a$", "m", "a\rb", `0:["a"]`},
		{"\\bb", "", "a b", `2:["b"]`},
		{"\\Bb", "", "ab b", `1:["b"]`},
		{"[a-c]+", "i", "xABCd", `1:["ABC"]`},
		{"[^a]", "i", "Aab", `2:["b"]`},
		{"\\u00e9", "i", "É", `0:["É"]`},
		{"s", "i", "ſ", `null`},
		{"[\\b]", "", "a\bb", `1:["\b"]`},
		{"\\cJ", "", "a\n", `1:["\n"]`},
		{"a{0}b", "", "ab", `1:["b"]`},
		{"(?:a|())*?b", "", "aab", `0:["aab",undefined]`},
		{"(a|b)*?c", "", "abc", `0:["abc","b"]`},
	} {
		re := mk(t, c.src, c.flags)
		got := show(re.Exec(U16(c.subj), nil))
		if got != c.want {
			t.Errorf("/%s/%s on %q: got %s want %s", c.src, c.flags, c.subj, got, c.want)
		}
	}
}

func showSplit(it []SplitItem) string {
	var p []string
	for _, x := range it {
		if !x.Def {
			p = append(p, "undefined")
		} else {
			p = append(p, fmt.Sprintf("%q", string(runes(x.S))))
		}
	}
	return "[" + strings.Join(p, ",") + "]"
}

func TestSplitExamples(t *testing.T) {
	for _, c := range []struct {
		src, subj string
		lim       uint32
		want      string
	}{
		{"a*?", "ab", 0xffffffff, `["a","b"]`},
		{"a*", "ab", 0xffffffff, `["","b"]`},
		{"<(\\/)?([^<>]+)>", "A<B>bold</B>and<CODE>coded</CODE>", 0xffffffff, `["A",undefined,"B","bold","/","B","and",undefined,"CODE","coded","/","CODE",""]`},
		{"(?:)", "abc", 2, `["a","b"]`},
		{"(?:)", "", 5, `[]`},
		{"a", "", 5, `[""]`},
		{"(b)", "abc", 2, `["a","b"]`},
	} {
		re := mk(t, c.src, "")
		if got := showSplit(re.Split(U16(c.subj), c.lim, nil)); got != c.want {
			t.Errorf("%q.split(/%s/,%d): got %s want %s", c.subj, c.src, c.lim, got, c.want)
		}
	}
}

func TestReplaceExamples(t *testing.T) {
	for _, c := range []struct{ src, flags, subj, repl, want string }{
		{"a*", "g", "baaab", "-", "-b--b-"},
		{"(a)(b)?", "g", "xaby-az", "[$1|$2|$&|$`|$'|$$|$0|$]", "x[a|b|ab|x|y-az|$|$0|$]y-[a||a|xaby-|z|$|$0|$]z"},
		{"(a)", "", "xay", "$01-$1a-$001", "xa-aa-$001y"},
	} {
		re := mk(t, c.src, c.flags)
		outs, _ := re.Replace(U16(c.subj), U16(c.repl), nil, nil, false)
		if len(outs) != 1 || string(runes(outs[0])) != c.want {
			t.Errorf("%q.replace(/%s/%s,%q): got %q want %q", c.subj, c.src, c.flags, c.repl, outs, c.want)
		}
	}
	re := mk(t, "a", "g")
	outs, _ := re.Replace(U16("aXa"), U16("$10"), nil, nil, false)
	if len(outs) < 2 {
		t.Errorf("$10 with no groups must be implementation-defined, got %v", outs)
	}
}

func TestStatus(t *testing.T) {
	for _, c := range []struct {
		src  string
		want Status
	}{
		{"", Valid}, {"a|", Valid}, {"(?:)", Valid}, {"a{2,3}?", Valid}, {"[a-]", Valid}, {"[--a]", Valid}, {"[]", Valid}, {"[^]", Valid}, {"\\/", Valid}, {"()|", Valid}, {"a{0}", Valid},
		{"(?=a)", Unsupported}, {"(?!a)b", Unsupported}, {"(a)\\1", Unsupported}, {"\\1(a)", Unsupported},
		{"(", Invalid}, {")", Invalid}, {"a)", Invalid}, {"*", Invalid}, {"a**", Invalid}, {"a+*", Invalid}, {"a???", Invalid}, {"|*", Invalid}, {"(*)", Invalid}, {"a{2,1}", Invalid}, {"[a", Invalid}, {"a\\", Invalid}, {"[b-a]", Invalid},
		{"^*", Invalid}, {"$+", Invalid}, {"\\b*", Invalid}, {"(?i)a", Invalid}, {"(?P<n>a)", Invalid}, {"(?<n>a)", Invalid}, {"(?", Invalid}, {"a{1}{2}", Invalid}, {"{1}", Invalid}, {"[a-\\", Invalid},
		{"a{", Lenient}, {"a}", Lenient}, {"a]", Lenient}, {"\\a", Lenient}, {"\\$", Lenient}, {"a{,2}", Lenient}, {"{", Lenient}, {"\\xg", Lenient},
		{"\\1", Outside}, {"\\08", Outside}, {"[\\d-a]", Outside}, {"\\c1", Outside}, {"(?=a)*", Outside}, {"[\\1]", Outside},
	} {
		if got := ParseString(c.src); got.Status != c.want {
			t.Errorf("%q: status %s (%s), want %s", c.src, got.Status, got.Why, c.want)
		}
	}
}

// dump is a canonical, form-independent rendering of a tree.
func dump(n *Node) string {
	var b strings.Builder
	var w func(n *Node)
	w = func(n *Node) {
		fmt.Fprintf(&b, "(%d", n.Kind)
		switch n.Kind {
		case KChar:
			fmt.Fprintf(&b, " %d", n.Ch)
		case KClassEsc:
			fmt.Fprintf(&b, " %c", n.Esc)
		case KClass:
			fmt.Fprintf(&b, " %v", n.Neg)
			for _, it := range n.Items {
				b.WriteString(" {")
				w(it.Lo)
				if it.Range {
					w(it.Hi)
				}
				b.WriteString("}")
			}
		case KQuant:
			fmt.Fprintf(&b, " %d %d %v", n.Min, n.Max, n.Lazy)
		case KGroup:
			fmt.Fprintf(&b, " #%d", n.Index)
		}
		for _, k := range n.Kids {
			w(k)
		}
		b.WriteString(")")
	}
	w(n)
	return b.String()
}

// The generator only produces Valid patterns and the renderer and the parser are inverse.
func TestRoundTrip(t *testing.T) {
	rapid.Check(t, func(rt *rapid.T) {
		o := GenOpts{Unicode: rapid.Bool().Draw(rt, "u"), Space: true, RawNewline: true, EmptyClass: true, Big: true}
		tree := GenTree(rt, o)
		src := Render(tree)
		p := ParseString(src)
		if p.Status != Valid {
			rt.Fatalf("%q: status %s (%s)", src, p.Status, p.Why)
		}
		if Render(p.Tree) != strings.ReplaceAll(src, "\\cj", "\\cJ") && !strings.Contains(src, "\\c") {
			rt.Fatalf("%q re-renders as %q", src, Render(p.Tree))
		}
		a, b := dump(normalize(tree)), dump(p.Tree)
		if a != b {
			rt.Fatalf("%q: tree\n%s\nparsed\n%s", src, a, b)
		}
		if n := Number(tree); n != p.NCaps {
			rt.Fatalf("%q: %d groups, parser counted %d", src, n, p.NCaps)
		}
	})
}

// normalize flattens what the grammar cannot distinguish (nothing at the moment: the generator
// never nests Seq in Seq or Alt in Alt without a group).
func normalize(n *Node) *Node { return n }

// Development aid (not run by ./check): M10_DUMP=<file> writes random cases with the model's
// expectations as JSON lines, to be compared against another ES implementation on the sub-domain
// where ES5.1 and later editions agree.
func TestDumpCases(t *testing.T) {
	path := os.Getenv("M10_DUMP")
	if path == "" {
		t.Skip("M10_DUMP not set")
	}
	f, err := os.Create(path)
	if err != nil {
		t.Fatal(err)
	}
	defer f.Close()
	enc := json.NewEncoder(f)
	n := 0
	rapid.Check(t, func(rt *rapid.T) {
		uni := rapid.Bool().Draw(rt, "u")
		tree := GenTree(rt, GenOpts{Unicode: uni, Space: !uni, RawNewline: true, EmptyClass: true, Big: true})
		src := Render(tree)
		flags := GenFlags(rt)
		ic := strings.Contains(flags, "i")
		subj := GenSubject(rt, tree, ic, uni, 8)
		p := ParseString(src)
		re := &RegExp{Prog: Compile(p.Tree, p.NCaps, ic, strings.Contains(flags, "m")), Global: strings.Contains(flags, "g"), LastIndex: NumVal(0)}
		tr := &Trace{}
		li := rapid.IntRange(0, len(subj)+1).Draw(rt, "li")
		re.LastIndex = NumVal(float64(li))
		mr := re.Exec(subj, tr)
		if tr.OverBudget {
			return
		}
		rec := map[string]interface{}{"src": src, "flags": flags, "subj": subj, "li": li, "exec": showU(mr), "liAfter": re.LastIndex.Num}
		re2 := &RegExp{Prog: re.Prog, Global: re.Global, LastIndex: NumVal(0)}
		rec["split"] = showSplitU(re2.Split(subj, 0xffffffff, nil))
		repl := rapid.SampledFrom([]string{"-", "[$&]", "$1", "$`|$'", "$$", "$2$1", "<$01>"}).Draw(rt, "repl")
		outs, _ := re2.Replace(subj, U16(repl), nil, nil, false)
		rec["repl"] = repl
		if len(outs) == 1 {
			rec["replaced"] = outs[0]
		}
		if ms := re2.Search(subj, nil); ms != nil {
			rec["search"] = ms.Index
		} else {
			rec["search"] = -1
		}
		n++
		_ = enc.Encode(rec)
	})
	t.Logf("%d cases", n)
}
