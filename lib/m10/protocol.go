package m10

import (
	"math"
	"strconv"

	"verif/lib/es5"
)

// JSVal is the small model of an ECMAScript value that can sit in lastIndex or be a limit argument.
type JSVal struct {
	Kind string  `json:"k"`           // num str undef null bool obj
	Num  string  `json:"n,omitempty"` // num: exact literal (NaN, Infinity, -0, 1.5 …); obj: the number its valueOf returns
	Str  string  `json:"s,omitempty"`
	Bool bool    `json:"b,omitempty"`
	ID   int     `json:"id,omitempty"` // obj: which logging object
	f    float64 // cache
}

// NumVal makes a number value.
func NumVal(x float64) JSVal { return JSVal{Kind: "num", Num: numLit(x)} }

func numLit(x float64) string {
	switch {
	case math.IsNaN(x):
		return "NaN"
	case math.IsInf(x, 1):
		return "Infinity"
	case math.IsInf(x, -1):
		return "-Infinity"
	case x == 0 && math.Signbit(x):
		return "-0"
	}
	return strconv.FormatFloat(x, 'e', -1, 64)
}

func parseNumLit(l string) float64 {
	switch l {
	case "NaN":
		return math.NaN()
	case "Infinity":
		return math.Inf(1)
	case "-Infinity":
		return math.Inf(-1)
	case "-0":
		return math.Copysign(0, -1)
	}
	f, _ := strconv.ParseFloat(l, 64)
	return f
}

// Float is the number of a num value / the valueOf result of an obj value.
func (v JSVal) Float() float64 { return parseNumLit(v.Num) }

// ToNumber is 9.3 on the modelled values; calls counts valueOf invocations on logging objects.
func (v JSVal) ToNumber(log *[]int) float64 {
	switch v.Kind {
	case "num":
		return v.Float()
	case "str":
		return es5.StringToNumber(U16(v.Str))
	case "undef":
		return math.NaN()
	case "null":
		return 0
	case "bool":
		if v.Bool {
			return 1
		}
		return 0
	case "obj":
		if log != nil {
			*log = append(*log, v.ID)
		}
		return v.Float()
	}
	return math.NaN()
}

// RegExp is the model of a RegExp instance (15.10.7).
type RegExp struct {
	Prog      *Program
	Global    bool
	LastIndex JSVal
	Log       []int // ids of logging objects whose valueOf ran
}

// MatchResult is the array returned by exec (15.10.6.2 steps 12-20). Caps[k] is nil for undefined.
type MatchResult struct {
	Index int
	End   int
	Caps  [][]uint16 // Caps[0] is the matched substring; len = NCaps+1
	Def   []bool     // Def[k]: capture k participated
	Start []int      // start offset of capture k (-1 when undefined); model-internal
}

func (re *RegExp) result(S []uint16, i int, r *State) *MatchResult {
	n := re.Prog.NCaps
	mr := &MatchResult{Index: i, End: r.End, Caps: make([][]uint16, n+1), Def: make([]bool, n+1), Start: make([]int, n+1)}
	mr.Caps[0] = S[i:r.End]
	mr.Def[0] = true
	mr.Start[0] = i
	for k := 1; k <= n; k++ {
		s, e := r.Caps[2*k], r.Caps[2*k+1]
		mr.Start[k] = s
		if s != -1 {
			mr.Caps[k] = S[s:e]
			mr.Def[k] = true
		}
	}
	return mr
}

// Exec is RegExp.prototype.exec (15.10.6.2).
func (re *RegExp) Exec(S []uint16, tr *Trace) *MatchResult {
	length := len(S)
	// 4, 5
	li := es5.ToInteger(re.LastIndex.ToNumber(&re.Log))
	// 6, 7
	if !re.Global {
		li = 0
	}
	// 9
	for {
		if li < 0 || li > float64(length) {
			re.LastIndex = NumVal(0)
			return nil
		}
		i := int(li)
		r := re.Prog.MatchAt(S, i, tr)
		if tr != nil && tr.OverBudget {
			return nil
		}
		if r != nil {
			// 10, 11
			if re.Global {
				re.LastIndex = NumVal(float64(r.End))
			}
			return re.result(S, i, r)
		}
		li++
	}
}

// Search finds the first match scanning from 0 without touching lastIndex (15.5.4.12).
func (re *RegExp) Search(S []uint16, tr *Trace) *MatchResult {
	for i := 0; i <= len(S); i++ {
		r := re.Prog.MatchAt(S, i, tr)
		if tr != nil && tr.OverBudget {
			return nil
		}
		if r != nil {
			return re.result(S, i, r)
		}
	}
	return nil
}

// MatchAll is the loop of String.prototype.match for a global regexp (15.5.4.10 step 8), also used
// by replace (15.5.4.11 "in the same manner as in String.prototype.match, including the update of
// searchValue.lastIndex"). It leaves lastIndex = 0.
//
// literal=true follows step 8.f.ii of the ES5.1 text to the letter: lastIndex is advanced only when
// thisIndex = previousLastIndex. That test misses an empty match that exec found after scanning
// forward ("c-".match(/$/g): the empty match at 2 is reported twice); every engine, and the
// corrected text of the 6th edition (21.1.3.11/21.2.5.6: "if matchStr is the empty String"), advances
// whenever the match is empty. literal=false is that reading. The two differ only by duplicated
// empty matches; callers accept either.
func (re *RegExp) MatchAll(S []uint16, tr *Trace, literal bool) []*MatchResult {
	re.LastIndex = NumVal(0)
	previousLastIndex := 0
	var out []*MatchResult
	for {
		r := re.Exec(S, tr)
		if r == nil {
			return out
		}
		thisIndex := int(re.LastIndex.Float())
		if literal {
			if thisIndex == previousLastIndex {
				re.LastIndex = NumVal(float64(thisIndex + 1))
				previousLastIndex = thisIndex + 1
			} else {
				previousLastIndex = thisIndex
			}
		} else if r.End == r.Index {
			re.LastIndex = NumVal(float64(thisIndex + 1))
		}
		out = append(out, r)
	}
}

// ExpandSegs is the $-substitution table of 15.5.4.11. The result is a sequence of segments; a
// segment with more than one alternative is a reference whose result ES5.1 leaves
// implementation-defined ($n or $nn with n > m): the reference dropped, the text kept literally, or
// - for $nn - read as $n followed by a digit.
func ExpandSegs(repl, S []uint16, mr *MatchResult) [][][]uint16 {
	m := len(mr.Caps) - 1
	var segs [][][]uint16
	emit := func(alts ...[]uint16) { segs = append(segs, alts) }
	for i := 0; i < len(repl); i++ {
		c := repl[i]
		if c != '$' || i+1 >= len(repl) {
			emit([]uint16{c})
			continue
		}
		d := repl[i+1]
		switch {
		case d == '$':
			emit([]uint16{'$'})
			i++
		case d == '&':
			emit(mr.Caps[0])
			i++
		case d == '`':
			emit(S[:mr.Index])
			i++
		case d == '\'':
			emit(S[mr.End:])
			i++
		case isDigit(d):
			two := i+2 < len(repl) && isDigit(repl[i+2])
			if two {
				// $nn, nn in 01..99
				nn := int(d-'0')*10 + int(repl[i+2]-'0')
				if nn == 0 {
					emit([]uint16{'$'}) // "$00" is not in the table: literal, continue after the $
					continue
				}
				if nn <= m {
					emit(mr.Caps[nn]) // undefined -> empty
				} else {
					// implementation-defined
					alts := [][]uint16{{}, {'$', d, repl[i+2]}}
					if n := int(d - '0'); n >= 1 && n <= m {
						alts = append(alts, append(append([]uint16(nil), mr.Caps[n]...), repl[i+2]))
					} else if n >= 1 {
						alts = append(alts, []uint16{repl[i+2]}) // $n dropped, digit kept
					}
					emit(alts...)
				}
				i += 2
				continue
			}
			n := int(d - '0')
			if n == 0 {
				emit([]uint16{'$'}) // "$0" is not in the table
				continue
			}
			if n <= m {
				emit(mr.Caps[n])
			} else {
				emit([]uint16{}, []uint16{'$', d})
			}
			i++
		default:
			emit([]uint16{'$'})
		}
	}
	return segs
}

// MatchSegs reports whether got is a concatenation of one alternative per segment.
func MatchSegs(got []uint16, segs [][][]uint16) bool {
	reach := map[int]bool{0: true}
	for _, alts := range segs {
		next := map[int]bool{}
		for pos := range reach {
			for _, a := range alts {
				if pos+len(a) > len(got) {
					continue
				}
				ok := true
				for k := range a {
					if got[pos+k] != a[k] {
						ok = false
						break
					}
				}
				if ok {
					next[pos+len(a)] = true
				}
			}
		}
		if len(next) == 0 {
			return false
		}
		reach = next
	}
	return reach[len(got)]
}

// Expand returns every admissible expansion (more than one only with implementation-defined references).
func Expand(repl, S []uint16, mr *MatchResult) [][]uint16 {
	outs := [][]uint16{nil}
	for _, alts := range ExpandSegs(repl, S, mr) {
		var next [][]uint16
		for _, o := range outs {
			for _, a := range alts {
				next = append(next, append(append([]uint16(nil), o...), a...))
			}
		}
		if len(next) > 64 {
			next = next[:64]
		}
		outs = next
	}
	return outs
}

// ReplaceCall is one invocation of a function replaceValue: the argument list (15.5.4.11).
type ReplaceCall struct {
	Match  *MatchResult
	Offset int
}

// Replace is String.prototype.replace with a RegExp searchValue (15.5.4.11). fn == nil: repl is the
// replacement text; otherwise fn receives each match and returns the replacement.
// All admissible results are returned (more than one only with implementation-defined $ references).
func (re *RegExp) Replace(S, repl []uint16, fn func(call ReplaceCall) []uint16, tr *Trace, literal bool) (results [][]uint16, matches []*MatchResult) {
	if re.Global {
		matches = re.MatchAll(S, tr, literal)
	} else {
		// "search string for the first match of the regular expression": lastIndex is not mentioned
		if r := re.Search(S, tr); r != nil {
			matches = []*MatchResult{r}
		}
	}
	outs := [][]uint16{nil}
	pos := 0
	for _, mr := range matches {
		var alts [][]uint16
		if fn != nil {
			alts = [][]uint16{fn(ReplaceCall{Match: mr, Offset: mr.Index})}
		} else {
			alts = Expand(repl, S, mr)
		}
		var next [][]uint16
		for _, o := range outs {
			for _, a := range alts {
				n := append(append(append([]uint16(nil), o...), S[pos:mr.Index]...), a...)
				next = append(next, n)
			}
		}
		if len(next) > 256 {
			next = next[:256]
		}
		outs = next
		pos = mr.End
	}
	for i := range outs {
		outs[i] = append(outs[i], S[pos:]...)
	}
	return outs, matches
}

// SplitItem is one element of the array split returns: a string or undefined.
type SplitItem struct {
	Def bool
	S   []uint16
}

// Split is String.prototype.split with a RegExp separator (15.5.4.14); lim is ToUint32(limit) or
// 2^32-1 when limit is undefined.
func (re *RegExp) Split(S []uint16, lim uint32, tr *Trace) []SplitItem {
	A := []SplitItem{}
	if lim == 0 {
		return A
	}
	s := len(S)
	// SplitMatcher calls [[Match]] at q directly (no scanning, lastIndex and global ignored)
	if s == 0 {
		if z := re.Prog.MatchAt(S, 0, tr); z != nil {
			return A
		}
		return append(A, SplitItem{true, S})
	}
	p := 0
	q := p
	for q < s {
		z := re.Prog.MatchAt(S, q, tr)
		if tr != nil && tr.OverBudget {
			return nil
		}
		if z == nil {
			q++
			continue
		}
		e := z.End
		if e == p {
			q++
			continue
		}
		A = append(A, SplitItem{true, S[p:q]})
		if uint32(len(A)) == lim {
			return A
		}
		p = e
		for k := 1; k <= re.Prog.NCaps; k++ {
			if z.Caps[2*k] == -1 {
				A = append(A, SplitItem{})
			} else {
				A = append(A, SplitItem{true, S[z.Caps[2*k]:z.Caps[2*k+1]]})
			}
			if uint32(len(A)) == lim {
				return A
			}
		}
		q = p
	}
	return append(A, SplitItem{true, S[p:]})
}

// SplitString is split with a string separator (15.5.4.14 SplitMatcher on a String R).
func SplitString(S, R []uint16, lim uint32) []SplitItem {
	A := []SplitItem{}
	if lim == 0 {
		return A
	}
	at := func(q int) int {
		if q+len(R) > len(S) {
			return -1
		}
		for i := range R {
			if S[q+i] != R[i] {
				return -1
			}
		}
		return q + len(R)
	}
	if len(S) == 0 {
		if at(0) != -1 {
			return A
		}
		return append(A, SplitItem{true, S})
	}
	p, q := 0, 0
	for q < len(S) {
		e := at(q)
		if e == -1 || e == p {
			q++
			continue
		}
		A = append(A, SplitItem{true, S[p:q]})
		if uint32(len(A)) == lim {
			return A
		}
		p = e
		q = p
	}
	return append(A, SplitItem{true, S[p:]})
}
