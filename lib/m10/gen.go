package m10

import (
	"strings"

	"pgregory.net/rapid"
)

// GenOpts steers the pattern generator.
type GenOpts struct {
	Unicode    bool // allow é / É / U+2028 in the pattern (as escapes, é also raw)
	Space      bool // allow \s \S (only sound on subjects where ES5 and RE2 agree on white space)
	RawNewline bool // allow a raw U+000A as a PatternCharacter (not renderable as a literal)
	EmptyClass bool // allow [] and [^]
	Big        bool // occasionally more than nine groups
}

// literal PatternCharacters of the subset that need no escaping outside a class
var litChars = []uint16{'a', 'b', 'c', 'A', '1', '_', ' ', '-'}

// characters that may be written as identity escapes (not IdentifierPart, so IdentityEscape applies)
var idChars = []uint16{'.', '-', ' ', '*', '+', '?', '(', ')', '[', ']', '{', '}', '|', '^', '/', '\\', ',', '=', '!', ':'}

// all characters an atom may denote
var atomChars = []uint16{'a', 'b', 'c', 'A', '1', '_', ' ', '-', '.', '\n', '\t'}

func genChar(t *rapid.T, o GenOpts, inClass bool) *Node {
	pool := atomChars
	if o.Unicode {
		pool = append(append([]uint16(nil), atomChars...), 0xE9, 0xE9, 0xC9, 0x2028)
	}
	c := rapid.SampledFrom(pool).Draw(t, "char")
	var forms []string
	switch {
	case c == '.':
		forms = []string{"id", "x", "u"}
		if inClass {
			forms = append(forms, "lit")
		}
	case c == '-':
		forms = []string{"id", "x", "u"}
		if !inClass {
			forms = append(forms, "lit", "lit")
		}
	case c == ' ':
		forms = []string{"lit", "lit", "id", "x", "u"}
	case c == '\n':
		forms = []string{"ctl", "ctl", "x", "u", "c", "cl"}
		if o.RawNewline {
			forms = append(forms, "lit")
		}
	case c == '\t':
		forms = []string{"ctl", "x", "u", "c", "cl", "lit"}
	case c == 0x2028:
		forms = []string{"u"}
	case c == 0xE9 || c == 0xC9:
		forms = []string{"lit", "x", "u"}
	default:
		forms = []string{"lit", "lit", "lit", "lit", "x", "u"}
	}
	f := rapid.SampledFrom(forms).Draw(t, "form")
	return &Node{Kind: KChar, Ch: c, Form: f}
}

func genIdentityEscape(t *rapid.T) *Node {
	return &Node{Kind: KChar, Ch: rapid.SampledFrom(idChars).Draw(t, "idc"), Form: "id"}
}

func genClassEsc(t *rapid.T, o GenOpts) *Node {
	pool := []byte{'d', 'D', 'w', 'W', 'd', 'w'}
	if o.Space {
		pool = append(pool, 's', 'S')
	}
	return &Node{Kind: KClassEsc, Esc: rapid.SampledFrom(pool).Draw(t, "cesc")}
}

// sorted pool for range ends
var rangeEnds = []uint16{' ', '-', '.', '1', 'A', '_', 'a', 'b', 'c'}

func genClass(t *rapid.T, o GenOpts) *Node {
	n := &Node{Kind: KClass, Neg: rapid.IntRange(0, 3).Draw(t, "neg") == 3}
	if rapid.IntRange(0, 9).Draw(t, "delimclass") == 9 {
		// a class made of the characters that matter to whoever has to find the end of a class or of a
		// literal: escaped ] and \, bare and escaped /, bare [, in any order (7.8.5 RegularExpressionClass)
		k := rapid.IntRange(2, 5).Draw(t, "ndelim")
		for i := 0; i < k; i++ {
			var it *Node
			switch rapid.SampledFrom([]string{"a", "\\]", "/", "\\/", "[", "\\\\", "\\-", "^", "\\["}).Draw(t, "delim") {
			case "a":
				it = &Node{Kind: KChar, Ch: 'a', Form: "lit"}
			case "\\]":
				it = &Node{Kind: KChar, Ch: ']', Form: "id"}
			case "/":
				it = &Node{Kind: KChar, Ch: '/', Form: "lit"}
			case "\\/":
				it = &Node{Kind: KChar, Ch: '/', Form: "id"}
			case "[":
				it = &Node{Kind: KChar, Ch: '[', Form: "lit"}
			case "\\\\":
				it = &Node{Kind: KChar, Ch: '\\', Form: "id"}
			case "\\-":
				it = &Node{Kind: KChar, Ch: '-', Form: "id"}
			case "\\[":
				it = &Node{Kind: KChar, Ch: '[', Form: "id"}
			default:
				if len(n.Items) > 0 {
					it = &Node{Kind: KChar, Ch: '^', Form: "lit"}
				} else {
					it = &Node{Kind: KChar, Ch: '^', Form: "id"}
				}
			}
			n.Items = append(n.Items, ClassItem{Lo: it})
		}
		return n
	}
	if o.EmptyClass && rapid.IntRange(0, 59).Draw(t, "emptyclass") == 59 {
		return n
	}
	k := rapid.IntRange(1, 4).Draw(t, "nitems")
	for i := 0; i < k; i++ {
		switch rapid.IntRange(0, 11).Draw(t, "item") {
		case 9, 10, 11:
			lo := rapid.IntRange(0, len(rangeEnds)-1).Draw(t, "lo")
			hi := rapid.IntRange(lo, len(rangeEnds)-1).Draw(t, "hi")
			mk := func(c uint16) *Node {
				f := "lit"
				switch {
				case c == '-':
					f = "id"
				case rapid.IntRange(0, 5).Draw(t, "rform") == 5:
					f = "x"
				}
				return &Node{Kind: KChar, Ch: c, Form: f}
			}
			n.Items = append(n.Items, ClassItem{Lo: mk(rangeEnds[lo]), Hi: mk(rangeEnds[hi]), Range: true})
		case 7, 8:
			n.Items = append(n.Items, ClassItem{Lo: genClassEsc(t, o)})
		case 6:
			// specials: \b (backspace), escaped ] ^ \ -, a ^ that is not first
			sp := rapid.SampledFrom([]string{"bs", "]", "^", "\\", "-", "rawcaret"}).Draw(t, "special")
			switch sp {
			case "bs":
				n.Items = append(n.Items, ClassItem{Lo: &Node{Kind: KChar, Ch: 8, Form: "ctl"}})
			case "rawcaret":
				if len(n.Items) > 0 {
					n.Items = append(n.Items, ClassItem{Lo: &Node{Kind: KChar, Ch: '^', Form: "lit"}})
				} else {
					n.Items = append(n.Items, ClassItem{Lo: &Node{Kind: KChar, Ch: '^', Form: "id"}})
				}
			default:
				n.Items = append(n.Items, ClassItem{Lo: &Node{Kind: KChar, Ch: uint16(sp[0]), Form: "id"}})
			}
		default:
			n.Items = append(n.Items, ClassItem{Lo: genChar(t, o, true)})
		}
	}
	// a literal dash first or last
	switch rapid.IntRange(0, 11).Draw(t, "dash") {
	case 10:
		n.Items = append([]ClassItem{{Lo: &Node{Kind: KChar, Ch: '-', Form: "lit"}}}, n.Items...)
	case 11:
		n.Items = append(n.Items, ClassItem{Lo: &Node{Kind: KChar, Ch: '-', Form: "lit"}})
	}
	return n
}

func genAtom(t *rapid.T, o GenOpts, depth int) *Node {
	max := 13
	if depth <= 0 {
		max = 9
	}
	switch rapid.IntRange(0, max).Draw(t, "atom") {
	case 0, 1, 2, 3:
		return genChar(t, o, false)
	case 4:
		return &Node{Kind: KDot}
	case 5:
		return genClassEsc(t, o)
	case 6, 7:
		return genClass(t, o)
	case 8:
		return genIdentityEscape(t)
	case 9:
		return genChar(t, o, false)
	case 10, 11:
		return &Node{Kind: KGroup, Kids: []*Node{genDisjunction(t, o, depth-1)}}
	default:
		return &Node{Kind: KNCGroup, Kids: []*Node{genDisjunction(t, o, depth-1)}}
	}
}

func genQuant(t *rapid.T, atom *Node) *Node {
	q := &Node{Kind: KQuant, Kids: []*Node{atom}}
	q.QForm = rapid.SampledFrom([]int{0, 0, 1, 1, 2, 2, 3, 4, 5}).Draw(t, "qform")
	switch q.QForm {
	case 0:
		q.Min, q.Max = 0, -1
	case 1:
		q.Min, q.Max = 1, -1
	case 2:
		q.Min, q.Max = 0, 1
	case 3:
		q.Min = rapid.IntRange(0, 3).Draw(t, "n")
		q.Max = q.Min
	case 4:
		q.Min, q.Max = rapid.IntRange(0, 2).Draw(t, "n"), -1
	case 5:
		q.Min = rapid.IntRange(0, 2).Draw(t, "n")
		q.Max = rapid.IntRange(q.Min, 3).Draw(t, "m")
	}
	q.Lazy = rapid.IntRange(0, 3).Draw(t, "lazy") == 3
	return q
}

func genTerm(t *rapid.T, o GenOpts, depth int) *Node {
	switch k := rapid.IntRange(0, 19).Draw(t, "term"); {
	case k < 9:
		return genAtom(t, o, depth)
	case k < 16:
		return genQuant(t, genAtom(t, o, depth))
	case k == 16:
		return &Node{Kind: KBOL}
	case k == 17:
		return &Node{Kind: KEOL}
	case k == 18:
		return &Node{Kind: KWordB}
	default:
		return &Node{Kind: KNWordB}
	}
}

func genAlternative(t *rapid.T, o GenOpts, depth int) *Node {
	n := rapid.SampledFrom([]int{0, 1, 1, 2, 2, 2, 3, 3, 4}).Draw(t, "nterms")
	if n == 0 {
		return &Node{Kind: KEmpty}
	}
	if n == 1 {
		return genTerm(t, o, depth)
	}
	s := &Node{Kind: KSeq}
	for i := 0; i < n; i++ {
		s.Kids = append(s.Kids, genTerm(t, o, depth))
	}
	return s
}

func genDisjunction(t *rapid.T, o GenOpts, depth int) *Node {
	n := rapid.SampledFrom([]int{1, 1, 1, 1, 2, 2, 3}).Draw(t, "nalts")
	if n == 1 {
		return genAlternative(t, o, depth)
	}
	a := &Node{Kind: KAlt}
	for i := 0; i < n; i++ {
		a.Kids = append(a.Kids, genAlternative(t, o, depth))
	}
	return a
}

// GenTree draws a pattern tree of the portable subset.
func GenTree(t *rapid.T, o GenOpts) *Node {
	depth := rapid.IntRange(0, 3).Draw(t, "depth")
	n := genDisjunction(t, o, depth)
	if o.Big && rapid.IntRange(0, 15).Draw(t, "big") == 15 {
		// ten or eleven groups, so that $10 / $11 are real references
		s := &Node{Kind: KSeq}
		k := rapid.IntRange(10, 11).Draw(t, "ngroups")
		for i := 0; i < k; i++ {
			var g *Node = &Node{Kind: KGroup, Kids: []*Node{genChar(t, o, false)}}
			if rapid.IntRange(0, 2).Draw(t, "optgroup") == 2 {
				g = &Node{Kind: KQuant, Kids: []*Node{g}, Min: 0, Max: 1, QForm: 2}
			}
			s.Kids = append(s.Kids, g)
		}
		n = s
	}
	Number(n)
	return n
}

// GenFlags draws a valid flags string: a subset of g i m in any order.
func GenFlags(t *rapid.T) string {
	return rapid.SampledFrom([]string{"", "", "g", "g", "i", "m", "gi", "ig", "gm", "mg", "im", "mi", "gim", "mig", "igm"}).Draw(t, "flags")
}

// ---- subjects ------------------------------------------------------------------------------------

// ASCIISubjectAlphabet is the subject alphabet of the first matching facet.
var ASCIISubjectAlphabet = []uint16{'a', 'b', 'c', 'A', '1', '_', ' ', '-', '.', '\n', 'a', 'b', 'B', 'C', '\t'}

// UnicodeExtra is added in the second facet: é É U+2028 CR and (as a pair) an astral character.
var UnicodeExtra = []uint16{0xE9, 0xC9, 0x2028, '\r'}

// Astral is U+1F600 as a surrogate pair.
var Astral = [2]uint16{0xD83D, 0xDE00}

func genUnit(t *rapid.T, unicode bool, out []uint16) []uint16 {
	if unicode {
		switch k := rapid.IntRange(0, 9).Draw(t, "ualpha"); {
		case k < 3:
			return append(out, rapid.SampledFrom(UnicodeExtra).Draw(t, "uextra"))
		case k == 3:
			return append(out, Astral[0], Astral[1])
		}
	}
	return append(out, rapid.SampledFrom(ASCIISubjectAlphabet).Draw(t, "unit"))
}

// sample appends a string the node matches (approximately: assertions are ignored).
func sample(t *rapid.T, n *Node, ic bool, unicode bool, out []uint16) []uint16 {
	if len(out) > 12 {
		return out
	}
	switch n.Kind {
	case KAlt:
		return sample(t, n.Kids[rapid.IntRange(0, len(n.Kids)-1).Draw(t, "salt")], ic, unicode, out)
	case KSeq:
		for _, k := range n.Kids {
			out = sample(t, k, ic, unicode, out)
		}
	case KChar:
		c := n.Ch
		if ic && rapid.Bool().Draw(t, "swapcase") {
			switch {
			case c >= 'a' && c <= 'z':
				c -= 32
			case c >= 'A' && c <= 'Z':
				c += 32
			case c == 0xE9:
				c = 0xC9
			case c == 0xC9:
				c = 0xE9
			}
		}
		out = append(out, c)
	case KDot:
		out = genUnit(t, unicode, out)
	case KClassEsc:
		out = append(out, sampleEsc(t, n.Esc))
	case KClass:
		if len(n.Items) == 0 || n.Neg {
			return genUnit(t, unicode, out)
		}
		it := n.Items[rapid.IntRange(0, len(n.Items)-1).Draw(t, "sitem")]
		switch {
		case it.Lo.Kind == KClassEsc:
			out = append(out, sampleEsc(t, it.Lo.Esc))
		case it.Range:
			out = append(out, uint16(rapid.IntRange(int(it.Lo.Ch), int(it.Hi.Ch)).Draw(t, "inrange")))
		default:
			out = append(out, it.Lo.Ch)
		}
	case KGroup, KNCGroup, KLook:
		return sample(t, n.Kids[0], ic, unicode, out)
	case KQuant:
		hi := n.Min + 2
		if n.Max != -1 && hi > n.Max {
			hi = n.Max
		}
		k := rapid.IntRange(n.Min, hi).Draw(t, "reps")
		for i := 0; i < k; i++ {
			out = sample(t, n.Kids[0], ic, unicode, out)
		}
	}
	return out
}

func sampleEsc(t *rapid.T, esc byte) uint16 {
	switch esc {
	case 'd':
		return rapid.SampledFrom([]uint16{'1', '0', '9'}).Draw(t, "sd")
	case 'w':
		return rapid.SampledFrom([]uint16{'a', 'A', '1', '_', 'z'}).Draw(t, "sw")
	case 's':
		return rapid.SampledFrom([]uint16{' ', '\n', '\t'}).Draw(t, "ss")
	case 'D':
		return rapid.SampledFrom([]uint16{'a', ' ', '-', '_'}).Draw(t, "sD")
	case 'W':
		return rapid.SampledFrom([]uint16{' ', '-', '.', '\n'}).Draw(t, "sW")
	}
	return rapid.SampledFrom([]uint16{'a', '1', '-', '_'}).Draw(t, "sS")
}

// GenSubject draws a subject of at most maxUnits code units: derived from the pattern (a string it
// matches, embedded in random context, then possibly damaged) or random over the alphabet.
func GenSubject(t *rapid.T, tree *Node, ignoreCase, unicode bool, maxUnits int) []uint16 {
	return GenSubjectRep(t, tree, ignoreCase, unicode, maxUnits, []int{1, 1, 1, 2})
}

// GenSubjectRep is GenSubject with the pool for the number of occurrences of a matching string.
func GenSubjectRep(t *rapid.T, tree *Node, ignoreCase, unicode bool, maxUnits int, repsPool []int) []uint16 {
	var out []uint16
	if tree != nil && rapid.IntRange(0, 9).Draw(t, "derived") < 7 {
		pre := rapid.IntRange(0, 2).Draw(t, "pre")
		for i := 0; i < pre; i++ {
			out = genUnit(t, unicode, out)
		}
		reps := rapid.SampledFrom(repsPool).Draw(t, "occurrences")
		for r := 0; r < reps; r++ {
			out = sample(t, tree, ignoreCase, unicode, out)
			if r+1 < reps {
				out = genUnit(t, unicode, out)
			}
		}
		post := rapid.IntRange(0, 2).Draw(t, "post")
		for i := 0; i < post; i++ {
			out = genUnit(t, unicode, out)
		}
		// damage: replace or delete one unit
		if len(out) > 0 && rapid.IntRange(0, 3).Draw(t, "damage") == 3 {
			i := rapid.IntRange(0, len(out)-1).Draw(t, "dpos")
			if rapid.Bool().Draw(t, "ddel") {
				out = append(append([]uint16(nil), out[:i]...), out[i+1:]...)
			} else {
				out = append([]uint16(nil), out...)
				out[i] = rapid.SampledFrom(ASCIISubjectAlphabet).Draw(t, "dunit")
			}
		}
	} else {
		n := rapid.IntRange(0, maxUnits).Draw(t, "slen")
		for len(out) < n {
			out = genUnit(t, unicode, out)
		}
	}
	if len(out) > maxUnits {
		out = out[:maxUnits]
	}
	return FixSurrogates(out)
}

// FixSurrogates replaces lone surrogate units (left by truncation or damage) by 'x' so that the
// subject is well-formed UTF-16 (otto cannot represent lone surrogates).
func FixSurrogates(u []uint16) []uint16 {
	out := append([]uint16(nil), u...)
	for i := 0; i < len(out); i++ {
		c := out[i]
		switch {
		case c >= 0xD800 && c < 0xDC00:
			if i+1 < len(out) && out[i+1] >= 0xDC00 && out[i+1] < 0xE000 {
				i++
			} else {
				out[i] = 'x'
			}
		case c >= 0xDC00 && c < 0xE000:
			out[i] = 'x'
		}
	}
	return out
}

// ---- mutations -----------------------------------------------------------------------------------

// Mutations into unsupported and malformed forms, applied to the source text. The model parser
// decides afterwards what the result is (a mutation can land inside a class and be harmless).
var insertions = []string{
	"(", ")", "[", "]", "*", "+", "?", "{2,1}", "{1}{2}", "**", "+*", "?*", "{", "}", "|*", "(*", "(?", "(?=a)", "(?!a)", "(?=", "(?!b|",
	"\\1", "\\2", "(a)\\1", "\\", "^*", "$+", "\\b*", "\\B{2}", "(?i)", "(?i:a)", "(?s:.)", "(?U:a*)", "(?P<n>a)", "(?<n>a)", "(?-m:a)", "(?#c)", "[b-a]", "[a", "[]", "[^]", "x{3,2}", "(?:", "a{1,2}{3}", "a???",
}

// Mutate applies one or two string-level mutations.
func Mutate(t *rapid.T, src string) (string, string) {
	r := []rune(src)
	kind := rapid.SampledFrom([]string{"insert", "insert", "insert", "delete", "append-backslash", "dup", "wrap-look", "backref"}).Draw(t, "mutation")
	pos := 0
	if len(r) > 0 {
		pos = rapid.IntRange(0, len(r)).Draw(t, "mpos")
	}
	switch kind {
	case "insert":
		ins := rapid.SampledFrom(insertions).Draw(t, "ins")
		return string(r[:pos]) + ins + string(r[pos:]), "insert " + ins
	case "delete":
		if len(r) == 0 {
			return "(", "insert ("
		}
		if pos == len(r) {
			pos--
		}
		return string(r[:pos]) + string(r[pos+1:]), "delete " + string(r[pos])
	case "append-backslash":
		return src + "\\", "trailing backslash"
	case "dup":
		if len(r) == 0 {
			return "*", "insert *"
		}
		if pos == len(r) {
			pos--
		}
		return string(r[:pos+1]) + string(r[pos:]), "duplicate " + string(r[pos])
	case "wrap-look":
		open := rapid.SampledFrom([]string{"(?=", "(?!"}).Draw(t, "look")
		return open + src + ")" + "a", "wrap in " + open
	default:
		k := strings.Count(src, "(") // rough; the parser decides
		if k == 0 {
			return "(" + src + ")\\1", "back-reference \\1"
		}
		return src + "\\1", "back-reference \\1"
	}
}

// BadFlags are flags strings ES5.1 15.10.4.1 rejects (unknown character or a repeated one).
var BadFlags = []string{"x", "gx", "y", "s", "u", "G", "I", "gg", "gig", "ii", "mm", "mgm", " ", "g ", "gi,", "gimg", "null", "0", "/"}
