package m10

import "unicode"

// The matcher is a transcription of ES5.1 15.10.2 in continuation-passing style. A State is
// (endIndex, captures); a Continuation maps a State to a MatchResult (State or failure = nil); a
// Matcher takes a State and a Continuation.

// State is the ES5 regular-expression State: endIndex plus the captures array. Captures are stored
// as [start,end) pairs of code-unit offsets (caps[2k], caps[2k+1]); -1,-1 is undefined. Index 0 is unused.
type State struct {
	End  int
	Caps []int
}

type cont func(x *State) *State
type matcher func(x *State, c cont) *State

// Trace collects facts about one search that decide whether the two structural differences between
// ES5 15.10.2.5 and leftmost-first (Perl/RE2) matching, and the code-unit/code-point difference,
// were exercised.
type Trace struct {
	EmptyCheck    int  // RepeatMatcher step 2.1 rejected an empty iteration
	ResetCleared  int  // RepeatMatcher step 4 cleared a capture that was defined
	SurrogateUnit int  // an atom consumed a surrogate code unit (half of an astral character)
	LTDiff        int  // '.' or a multiline ^/$ looked at CR, U+2028 or U+2029 (line terminators that are not LF)
	Steps         int  // matcher invocations
	OverBudget    bool // the step budget ran out: result not usable
}

// Program is a compiled pattern.
type Program struct {
	Tree       *Node
	NCaps      int
	IgnoreCase bool
	Multiline  bool
	m          matcher

	input  []uint16
	tr     *Trace
	budget int
}

type overBudget struct{}

// Compile builds the matcher for a tree (15.10.2.2 Pattern).
func Compile(tree *Node, ncaps int, ignoreCase, multiline bool) *Program {
	p := &Program{Tree: tree, NCaps: ncaps, IgnoreCase: ignoreCase, Multiline: multiline}
	p.m = p.compile(tree)
	return p
}

// StepBudget bounds one MatchAt call.
const StepBudget = 400000

// MatchAt is the [[Match]] internal method (15.10.2.2): match input at index, no scanning.
// It returns nil on failure.
func (p *Program) MatchAt(input []uint16, index int, tr *Trace) (res *State) {
	p.input = input
	if tr == nil {
		tr = &Trace{}
	}
	p.tr = tr
	p.budget = StepBudget
	caps := make([]int, 2*(p.NCaps+1))
	for i := range caps {
		caps[i] = -1
	}
	defer func() {
		if r := recover(); r != nil {
			if _, ok := r.(overBudget); ok {
				tr.OverBudget = true
				res = nil
				return
			}
			panic(r)
		}
	}()
	x := &State{End: index, Caps: caps}
	return p.m(x, func(y *State) *State { return y })
}

func (p *Program) step() {
	p.tr.Steps++
	p.budget--
	if p.budget < 0 {
		panic(overBudget{})
	}
}

// IsLineTerminator: 7.3.
func IsLineTerminator(c uint16) bool { return c == 0x0A || c == 0x0D || c == 0x2028 || c == 0x2029 }

func isOtherLT(c uint16) bool { return c == 0x0D || c == 0x2028 || c == 0x2029 }

// isWordChar is IsWordChar(e) of 15.10.2.6 on a character.
func isWordCharUnit(c uint16) bool {
	return c >= 'a' && c <= 'z' || c >= 'A' && c <= 'Z' || c >= '0' && c <= '9' || c == '_'
}

func (p *Program) isWordChar(e int) bool {
	if e == -1 || e == len(p.input) {
		return false
	}
	return isWordCharUnit(p.input[e])
}

// IsWhiteSpaceOrLT is the \s set of 15.10.2.12: WhiteSpace (7.2) or LineTerminator (7.3).
func IsWhiteSpaceOrLT(c uint16) bool {
	switch c {
	case 9, 11, 12, 32, 0xA0, 0xFEFF, 10, 13, 0x2028, 0x2029:
		return true
	}
	if c < 0x80 {
		return false
	}
	return unicode.Is(unicode.Zs, rune(c))
}

// Canonicalize is 15.10.2.8 Canonicalize on one code unit.
func Canonicalize(ch uint16, ignoreCase bool) uint16 {
	if !ignoreCase {
		return ch
	}
	if ch < 0x80 {
		if ch >= 'a' && ch <= 'z' {
			return ch - 32
		}
		return ch
	}
	if ch >= 0xD800 && ch < 0xE000 {
		return ch
	}
	// String.prototype.toUpperCase on a one-character string: the result may be several characters
	// (SpecialCasing) - then ch is returned unchanged.
	if multiUpper[ch] {
		return ch
	}
	cu := unicode.ToUpper(rune(ch))
	if cu >= 0x10000 {
		return ch
	}
	if cu < 128 {
		return ch // step 5: a non-ASCII character never canonicalizes to an ASCII one
	}
	return uint16(cu)
}

// characters whose full upper-case mapping (SpecialCasing.txt) is more than one character
var multiUpper = func() map[uint16]bool {
	m := map[uint16]bool{0xDF: true, 0x149: true, 0x1F0: true, 0x390: true, 0x3B0: true, 0x587: true, 0x1E96: true, 0x1E97: true, 0x1E98: true, 0x1E99: true, 0x1E9A: true}
	for c := 0xFB00; c <= 0xFB06; c++ {
		m[uint16(c)] = true
	}
	for c := 0xFB13; c <= 0xFB17; c++ {
		m[uint16(c)] = true
	}
	return m
}()

func classEscHas(esc byte, c uint16) bool {
	switch esc {
	case 'd':
		return c >= '0' && c <= '9'
	case 'D':
		return !(c >= '0' && c <= '9')
	case 'w':
		return isWordCharUnit(c)
	case 'W':
		return !isWordCharUnit(c)
	case 's':
		return IsWhiteSpaceOrLT(c)
	case 'S':
		return !IsWhiteSpaceOrLT(c)
	}
	return false
}

// setHas decides "there exists a member a of set A such that Canonicalize(a) is cc" (15.10.2.8
// CharacterSetMatcher step 2.4) for one class item; ch is the input character, cc = Canonicalize(ch).
func (p *Program) itemHas(it ClassItem, ch, cc uint16) bool {
	if it.Lo.Kind == KClassEsc {
		// For the class escapes membership of ch itself is equivalent: the sets are closed under
		// Canonicalize on ASCII and a non-ASCII character never canonicalizes to an ASCII one.
		return classEscHas(it.Lo.Esc, ch)
	}
	lo, hi := it.Lo.Ch, it.Lo.Ch
	if it.Range {
		hi = it.Hi.Ch
	}
	if !p.IgnoreCase {
		return ch >= lo && ch <= hi
	}
	for a := int(lo); a <= int(hi); a++ {
		if Canonicalize(uint16(a), true) == cc {
			return true
		}
	}
	return false
}

// charSetMatcher is CharacterSetMatcher(A, invert) of 15.10.2.8 with A given as a predicate.
func (p *Program) charSetMatcher(has func(ch, cc uint16) bool, invert bool) matcher {
	return func(x *State, c cont) *State {
		p.step()
		e := x.End
		if e == len(p.input) {
			return nil
		}
		ch := p.input[e]
		cc := Canonicalize(ch, p.IgnoreCase)
		if has(ch, cc) == invert {
			return nil
		}
		if ch >= 0xD800 && ch < 0xE000 {
			p.tr.SurrogateUnit++
		}
		y := &State{End: e + 1, Caps: x.Caps}
		return c(y)
	}
}

func (p *Program) compile(n *Node) matcher {
	switch n.Kind {
	case KEmpty:
		return func(x *State, c cont) *State { return c(x) }
	case KAlt:
		ms := make([]matcher, len(n.Kids))
		for i, k := range n.Kids {
			ms[i] = p.compile(k)
		}
		return func(x *State, c cont) *State {
			p.step()
			for _, m := range ms {
				if r := m(x, c); r != nil {
					return r
				}
			}
			return nil
		}
	case KSeq:
		ms := make([]matcher, len(n.Kids))
		for i, k := range n.Kids {
			ms[i] = p.compile(k)
		}
		var seq func(i int) matcher
		seq = func(i int) matcher {
			if i == len(ms)-1 {
				return ms[i]
			}
			rest := seq(i + 1)
			m1 := ms[i]
			return func(x *State, c cont) *State {
				return m1(x, func(y *State) *State { return rest(y, c) })
			}
		}
		return seq(0)
	case KChar:
		want := n.Ch
		return p.charSetMatcher(func(ch, cc uint16) bool { return Canonicalize(want, p.IgnoreCase) == cc }, false)
	case KDot:
		return p.charSetMatcher(func(ch, cc uint16) bool {
			// the set of all characters except LineTerminator; every member canonicalizes to
			// something, so test the set through its members: ch is a member unless a line terminator
			// (line terminators have no case mappings)
			if ch == 0x0D || ch == 0x2028 || ch == 0x2029 {
				p.tr.LTDiff++
			}
			return !IsLineTerminator(ch)
		}, false)
	case KClassEsc:
		esc := n.Esc
		return p.charSetMatcher(func(ch, cc uint16) bool { return classEscHas(esc, ch) }, false)
	case KClass:
		items := n.Items
		return p.charSetMatcher(func(ch, cc uint16) bool {
			for _, it := range items {
				if p.itemHas(it, ch, cc) {
					return true
				}
			}
			return false
		}, n.Neg)
	case KGroup:
		m := p.compile(n.Kids[0])
		idx := n.Index
		return func(x *State, c cont) *State {
			p.step()
			return m(x, func(y *State) *State {
				caps := append([]int(nil), y.Caps...)
				caps[2*idx], caps[2*idx+1] = x.End, y.End
				return c(&State{End: y.End, Caps: caps})
			})
		}
	case KNCGroup:
		return p.compile(n.Kids[0])
	case KQuant:
		m := p.compile(n.Kids[0])
		min, max, greedy := n.Min, n.Max, !n.Lazy
		parenIndex, parenCount := n.ParenIndex, n.ParenCount
		return func(x *State, c cont) *State {
			return p.repeatMatcher(m, min, max, greedy, x, c, parenIndex, parenCount)
		}
	case KBOL:
		return p.assertion(func(e int) bool {
			if e == 0 {
				return true
			}
			if p.Multiline && isOtherLT(p.input[e-1]) {
				p.tr.LTDiff++
			}
			return p.Multiline && IsLineTerminator(p.input[e-1])
		})
	case KEOL:
		return p.assertion(func(e int) bool {
			if e == len(p.input) {
				return true
			}
			if p.Multiline && isOtherLT(p.input[e]) {
				p.tr.LTDiff++
			}
			return p.Multiline && IsLineTerminator(p.input[e])
		})
	case KWordB:
		return p.assertion(func(e int) bool { return p.isWordChar(e-1) != p.isWordChar(e) })
	case KNWordB:
		return p.assertion(func(e int) bool { return p.isWordChar(e-1) == p.isWordChar(e) })
	case KLook:
		m := p.compile(n.Kids[0])
		neg := n.Neg
		return func(x *State, c cont) *State {
			p.step()
			r := m(x, func(y *State) *State { return y })
			if neg {
				if r != nil {
					return nil
				}
				return c(x)
			}
			if r == nil {
				return nil
			}
			return c(&State{End: x.End, Caps: r.Caps})
		}
	case KBackRef:
		idx := n.Index
		return func(x *State, c cont) *State {
			p.step()
			s, e := x.Caps[2*idx], x.Caps[2*idx+1]
			if s == -1 {
				return c(x)
			}
			l := e - s
			if x.End+l > len(p.input) {
				return nil
			}
			for i := 0; i < l; i++ {
				if Canonicalize(p.input[s+i], p.IgnoreCase) != Canonicalize(p.input[x.End+i], p.IgnoreCase) {
					return nil
				}
			}
			return c(&State{End: x.End + l, Caps: x.Caps})
		}
	}
	panic("m10: unknown node kind")
}

func (p *Program) assertion(t func(e int) bool) matcher {
	return func(x *State, c cont) *State {
		p.step()
		if !t(x.End) {
			return nil
		}
		return c(x)
	}
}

// repeatMatcher is RepeatMatcher of 15.10.2.5, step by step. max == -1 is infinity.
func (p *Program) repeatMatcher(m matcher, min, max int, greedy bool, x *State, c cont, parenIndex, parenCount int) *State {
	p.step()
	// 1
	if max == 0 {
		return c(x)
	}
	// 2
	d := func(y *State) *State {
		if min == 0 && y.End == x.End {
			p.tr.EmptyCheck++
			return nil
		}
		min2 := 0
		if min != 0 {
			min2 = min - 1
		}
		max2 := -1
		if max != -1 {
			max2 = max - 1
		}
		return p.repeatMatcher(m, min2, max2, greedy, y, c, parenIndex, parenCount)
	}
	// 3, 4
	caps := x.Caps
	if parenCount > 0 {
		caps = append([]int(nil), x.Caps...)
		for k := parenIndex + 1; k <= parenIndex+parenCount; k++ {
			if caps[2*k] != -1 {
				p.tr.ResetCleared++
			}
			caps[2*k], caps[2*k+1] = -1, -1
		}
	}
	// 5, 6
	xr := &State{End: x.End, Caps: caps}
	// 7
	if min != 0 {
		return m(xr, d)
	}
	// 8
	if !greedy {
		if z := c(x); z != nil {
			return z
		}
		return m(xr, d)
	}
	// 9, 10
	if z := m(xr, d); z != nil {
		return z
	}
	return c(x)
}
