package m05

import (
	"math"
	"strings"
	"testing"

	"verif/lib/gen"
)

func same(a, b float64) bool {
	if math.IsNaN(a) || math.IsNaN(b) {
		return math.IsNaN(a) && math.IsNaN(b)
	}
	return math.Float64bits(a) == math.Float64bits(b)
}

// Fmod is written with integers; the C-library-style function must agree with it everywhere
// (a disagreement means one of the two is wrong and the "%" oracle cannot be trusted).
func TestFmodAgainstLibrary(t *testing.T) {
	pool := gen.BoundaryDoubles
	for i, n := range pool {
		for j, d := range pool {
			if (i+j)%3 != 0 {
				continue
			}
			if got, lib := Fmod(n, d), math.Mod(n, d); !same(got, lib) {
				t.Fatalf("Fmod(%v,%v) = %v, math.Mod = %v", n, d, got, lib)
			}
		}
	}
	for _, c := range [][3]float64{{-9, 2, -1}, {9, -2, 1}, {5.5, 2, 1.5}, {math.Copysign(0, -1), 5, math.Copysign(0, -1)}, {5, math.Inf(1), 5}, {1e21, 7, 6}, {-6, 3, math.Copysign(0, -1)}} {
		if got := Fmod(c[0], c[1]); !same(got, c[2]) {
			t.Errorf("Fmod(%v,%v) = %v, want %v", c[0], c[1], got, c[2])
		}
	}
}

func logging(id string, vm, tm string, vr, tr Value) Value {
	return ObjV(&Obj{ID: id, ValueOf: Method{Mode: vm, Ret: vr}, ToString: Method{Mode: tm, Ret: tr}})
}

// A few fixed points of §9/§11 taken from the text of the standard.
func TestSpecExamples(t *testing.T) {
	type row struct {
		op   string
		a, b Value
		want Value
		thr  string
		log  string
	}
	o := func(id string) Value { return logging(id, MPrim, MPrim, Num(1), StrASCII("s")) }
	both := logging("A", MObj, MObj, Value{}, Value{})
	rows := []row{
		{"+", Num(1), StrASCII("2"), StrASCII("12"), "", ""},
		{"+", NullV(), Undef(), Num(math.NaN()), "", ""},
		{"+", o("A"), o("B"), Num(2), "", "A.valueOf,B.valueOf"},
		{"-", StrASCII(" 0x10 "), Bool(true), Num(15), "", ""},
		{"<", StrASCII("10"), StrASCII("9"), Bool(true), "", ""},
		{"<", StrASCII("10"), Num(9), Bool(false), "", ""},
		{"<=", Num(math.NaN()), Num(1), Bool(false), "", ""},
		{">=", Undef(), Undef(), Bool(false), "", ""},
		{">", o("A"), o("B"), Bool(false), "", "A.valueOf,B.valueOf"},
		{"<=", o("A"), o("B"), Bool(true), "", "A.valueOf,B.valueOf"},
		{"<", Str([]uint16{0xFFFF}), Str([]uint16{0xD800, 0xDC00}), Bool(false), "", ""},
		{"==", NullV(), Undef(), Bool(true), "", ""},
		{"==", NullV(), Num(0), Bool(false), "", ""},
		{"==", Bool(true), StrASCII("1"), Bool(true), "", ""},
		{"==", Bool(true), StrASCII("true"), Bool(false), "", ""},
		{"==", o("A"), StrASCII("1"), Bool(true), "", "A.valueOf"},
		{"===", Num(0), Num(math.Copysign(0, -1)), Bool(true), "", ""},
		{"!==", Num(math.NaN()), Num(math.NaN()), Bool(true), "", ""},
		{"|", Num(9223372036854775808 + 2048), Num(0), Num(2048), "", ""},
		{">>>", Num(-1), Num(0), Num(4294967295), "", ""},
		{"<<", Num(1), Num(32), Num(1), "", ""},
		{">>", Num(-8), Num(33), Num(-4), "", ""},
		{"%", Num(-1), Num(1), Num(math.Copysign(0, -1)), "", ""},
		{"in", Num(1), Num(2), Value{}, "TypeError", ""},
		{"instanceof", Num(1), Num(2), Value{}, "TypeError", ""},
		{"-", both, Num(1), Value{}, "TypeError", "A.valueOf,A.toString"},
		{"+", logging("A", MThrow, MPrim, Value{}, Num(1)), o("B"), Value{}, "boom:A.valueOf", "A.valueOf"},
	}
	for _, r := range rows {
		c := &Ctx{}
		got, thr := c.Binary(r.op, r.a, r.b)
		lg := strings.Join(c.Log, ",")
		switch {
		case r.thr != "":
			if thr == nil || thr.Name != r.thr || lg != r.log {
				t.Errorf("%v %s %v: got %v / %v / [%s], want throw %s [%s]", r.a, r.op, r.b, got, thr, lg, r.thr, r.log)
			}
		case thr != nil || !Same(got, r.want) || lg != r.log:
			t.Errorf("%v %s %v: got %v / %v / [%s], want %v [%s]", r.a, r.op, r.b, got, thr, lg, r.want, r.log)
		}
	}
	// hint String order and the Date exception of 8.12.8
	c := &Ctx{}
	if _, thr := c.ToString(both); thr == nil || strings.Join(c.Log, ",") != "A.toString,A.valueOf" {
		t.Errorf("ToString order: %v", c.Log)
	}
	d := logging("D", MPrim, MPrim, Num(1), StrASCII("s"))
	d.O.Date = true
	c = &Ctx{}
	if v, _ := c.Binary("+", d, Num(1)); !Same(v, StrASCII("s1")) || strings.Join(c.Log, ",") != "D.toString" {
		t.Errorf("Date + 1: %v %v", v, c.Log)
	}
	c = &Ctx{}
	if v, _ := c.Binary("-", d, Num(1)); !Same(v, Num(0)) || strings.Join(c.Log, ",") != "D.valueOf" {
		t.Errorf("Date - 1: %v %v", v, c.Log)
	}
}
