package m05

import (
	"math"
	"math/big"
)

// BinaryOps are the binary operators of §11.5–11.9 that evaluate both operands (11.11 && and ||
// and 11.12 ?: are handled by the caller because they do not always evaluate both).
var BinaryOps = []string{"+", "-", "*", "/", "%", "<<", ">>", ">>>", "&", "|", "^", "==", "!=", "===", "!==", "<", ">", "<=", ">=", "in", "instanceof"}

// UnaryOps of 11.4 that the property lists.
var UnaryOps = []string{"+", "-", "~", "!", "typeof"}

// Fmod is the "%" of 11.5.3 on finite non-zero operands computed exactly: the result has the sign
// of the dividend and magnitude |n| - |d|*q with q the largest integer not exceeding |n|/|d|. It is
// computed with integers so that it does not lean on the C library function otto calls.
func Fmod(n, d float64) float64 {
	switch {
	case math.IsNaN(n) || math.IsNaN(d) || math.IsInf(n, 0) || d == 0:
		return math.NaN()
	case math.IsInf(d, 0):
		return n
	case n == 0:
		return n
	}
	mn, en := decompose(math.Abs(n))
	md, ed := decompose(math.Abs(d))
	e := en
	if ed < e {
		e = ed
	}
	if en-e > 2200 || ed-e > 2200 {
		panic("m05: fmod exponent range")
	}
	N := new(big.Int).Lsh(new(big.Int).SetUint64(mn), uint(en-e))
	D := new(big.Int).Lsh(new(big.Int).SetUint64(md), uint(ed-e))
	R := new(big.Int).Mod(N, D) // both non-negative
	// R * 2^e is exactly representable: R < D means it has no more significant bits than d allows at that scale
	f, acc := new(big.Float).SetPrec(2300).SetInt(R).Float64()
	_ = acc
	r := math.Ldexp(f, e)
	if r == 0 {
		r = 0
	}
	if math.Signbit(n) {
		r = -r
		if r == 0 {
			r = math.Copysign(0, -1)
		}
	}
	return r
}

// decompose returns m, e with x = m * 2^e exactly (x finite, positive).
func decompose(x float64) (uint64, int) {
	bits := math.Float64bits(x)
	exp := int(bits>>52) & 0x7ff
	man := bits & (1<<52 - 1)
	if exp == 0 {
		return man, -1074
	}
	return man | 1<<52, exp - 1075
}

// lessThan is the abstract relational comparison x < y of 11.8.5: 0 false, 1 true, 2 undefined.
func (c *Ctx) lessThan(x, y Value, leftFirst bool) (int, *Throw) {
	var px, py Value
	var t *Throw
	if leftFirst {
		if px, t = c.ToPrimitive(x, HintNumber); t != nil {
			return 0, t
		}
		if py, t = c.ToPrimitive(y, HintNumber); t != nil {
			return 0, t
		}
	} else {
		if py, t = c.ToPrimitive(y, HintNumber); t != nil {
			return 0, t
		}
		if px, t = c.ToPrimitive(x, HintNumber); t != nil {
			return 0, t
		}
	}
	if !(px.K == String && py.K == String) {
		nx, _ := c.ToNumber(px)
		ny, _ := c.ToNumber(py)
		if math.IsNaN(nx) || math.IsNaN(ny) {
			return 2, nil
		}
		if nx < ny { // IEEE comparison covers steps e–l (+0 = −0, infinities)
			return 1, nil
		}
		return 0, nil
	}
	r := lessUnits(px.S, py.S)
	if r != lessCodePoints(px.S, py.S) {
		c.hazard(HazStrOrder)
	}
	if r {
		return 1, nil
	}
	return 0, nil
}

// lessUnits: step 4 of 11.8.5, comparison of code unit values.
func lessUnits(a, b []uint16) bool {
	for i := 0; i < len(a) && i < len(b); i++ {
		if a[i] != b[i] {
			return a[i] < b[i]
		}
	}
	return len(a) < len(b)
}

// lessCodePoints orders by code points (what a UTF-8 byte comparison gives); only used to
// recognise the inputs on which the two orders disagree.
func lessCodePoints(a, b []uint16) bool {
	ra, rb := runes(a), runes(b)
	for i := 0; i < len(ra) && i < len(rb); i++ {
		if ra[i] != rb[i] {
			return ra[i] < rb[i]
		}
	}
	return len(ra) < len(rb)
}

func runes(u []uint16) []rune {
	var out []rune
	for i := 0; i < len(u); i++ {
		c := rune(u[i])
		if c >= 0xD800 && c < 0xDC00 && i+1 < len(u) && u[i+1] >= 0xDC00 && u[i+1] < 0xE000 {
			out = append(out, 0x10000+(c-0xD800)<<10+(rune(u[i+1])-0xDC00))
			i++
			continue
		}
		out = append(out, c)
	}
	return out
}

// StrictEquals is 11.9.6.
func StrictEquals(x, y Value) bool {
	if x.K != y.K {
		return false
	}
	switch x.K {
	case Undefined, Null:
		return true
	case Number:
		return x.N == y.N // NaN ≠ anything, +0 = −0
	case String:
		return eq16(x.S, y.S)
	case Boolean:
		return x.B == y.B
	}
	return x.O == y.O
}

// AbstractEquals is 11.9.3.
func (c *Ctx) AbstractEquals(x, y Value) (bool, *Throw) {
	if x.K == y.K {
		return StrictEquals(x, y), nil
	}
	switch {
	case x.K == Null && y.K == Undefined, x.K == Undefined && y.K == Null:
		return true, nil
	case x.K == Number && y.K == String:
		n, _ := c.ToNumber(y)
		return c.AbstractEquals(x, Num(n))
	case x.K == String && y.K == Number:
		n, _ := c.ToNumber(x)
		return c.AbstractEquals(Num(n), y)
	case x.K == Boolean:
		n, _ := c.ToNumber(x)
		return c.AbstractEquals(Num(n), y)
	case y.K == Boolean:
		n, _ := c.ToNumber(y)
		return c.AbstractEquals(x, Num(n))
	case (x.K == String || x.K == Number) && y.K == Object:
		p, t := c.ToPrimitive(y, HintNone)
		if t != nil {
			return false, t
		}
		return c.AbstractEquals(x, p)
	case x.K == Object && (y.K == String || y.K == Number):
		p, t := c.ToPrimitive(x, HintNone)
		if t != nil {
			return false, t
		}
		return c.AbstractEquals(p, y)
	}
	return false, nil
}

// HasProperty of the scenery and O objects, over the names the generator uses.
func HasProperty(o *Obj, name string) bool {
	for p := o; p != nil; p = p.Proto {
		if p.Props[name] {
			return true
		}
	}
	return false
}

// Binary applies operator op to two already evaluated operand values (the GetValue results): the
// conversions and the computation of 11.5–11.9, in the order the standard prescribes.
func (c *Ctx) Binary(op string, a, b Value) (Value, *Throw) {
	switch op {
	case "+": // 11.6.1
		pa, t := c.ToPrimitive(a, HintNone)
		if t != nil {
			return Value{}, t
		}
		pb, t := c.ToPrimitive(b, HintNone)
		if t != nil {
			return Value{}, t
		}
		if pa.K == String || pb.K == String {
			sa, _ := c.ToString(pa)
			sb, _ := c.ToString(pb)
			out := make([]uint16, 0, len(sa)+len(sb))
			out = append(append(out, sa...), sb...)
			return Str(out), nil
		}
		na, _ := c.ToNumber(pa)
		nb, _ := c.ToNumber(pb)
		return Num(na + nb), nil
	case "-", "*", "/", "%": // 11.6.2, 11.5
		na, t := c.ToNumber(a)
		if t != nil {
			return Value{}, t
		}
		nb, t := c.ToNumber(b)
		if t != nil {
			return Value{}, t
		}
		switch op {
		case "-":
			return Num(na - nb), nil
		case "*":
			return Num(na * nb), nil
		case "/":
			return Num(na / nb), nil
		}
		return Num(Fmod(na, nb)), nil
	case "<<", ">>": // 11.7.1, 11.7.2
		l, t := c.ToInt32(a)
		if t != nil {
			return Value{}, t
		}
		r, t := c.ToUint32(b)
		if t != nil {
			return Value{}, t
		}
		if op == "<<" {
			return Num(float64(int32(uint32(l) << (r & 0x1f)))), nil
		}
		return Num(float64(l >> (r & 0x1f))), nil
	case ">>>": // 11.7.3
		l, t := c.ToUint32(a)
		if t != nil {
			return Value{}, t
		}
		r, t := c.ToUint32(b)
		if t != nil {
			return Value{}, t
		}
		return Num(float64(l >> (r & 0x1f))), nil
	case "&", "|", "^": // 11.10
		l, t := c.ToInt32(a)
		if t != nil {
			return Value{}, t
		}
		r, t := c.ToInt32(b)
		if t != nil {
			return Value{}, t
		}
		switch op {
		case "&":
			return Num(float64(l & r)), nil
		case "|":
			return Num(float64(l | r)), nil
		}
		return Num(float64(l ^ r)), nil
	case "==", "!=":
		r, t := c.AbstractEquals(a, b)
		if t != nil {
			return Value{}, t
		}
		return Bool(r == (op == "==")), nil
	case "===", "!==":
		return Bool(StrictEquals(a, b) == (op == "===")), nil
	case "<": // 11.8.1
		r, t := c.lessThan(a, b, true)
		if t != nil {
			return Value{}, t
		}
		return Bool(r == 1), nil
	case ">": // 11.8.2: rval < lval with LeftFirst false
		r, t := c.lessThan(b, a, false)
		if t != nil {
			return Value{}, t
		}
		return Bool(r == 1), nil
	case "<=": // 11.8.3: rval < lval with LeftFirst false; true or undefined → false
		r, t := c.lessThan(b, a, false)
		if t != nil {
			return Value{}, t
		}
		return Bool(r == 0), nil
	case ">=": // 11.8.4: lval < rval; true or undefined → false
		r, t := c.lessThan(a, b, true)
		if t != nil {
			return Value{}, t
		}
		return Bool(r == 0), nil
	case "in": // 11.8.7
		if b.K != Object {
			return Value{}, &Throw{"TypeError"}
		}
		k, t := c.ToString(a)
		if t != nil {
			return Value{}, t
		}
		if b.O.Indexed && nonCanonicalIndex(k) {
			c.hazard(HazIndexName)
		}
		return Bool(HasProperty(b.O, asciiKey(k))), nil
	case "instanceof": // 11.8.6 + 15.3.5.3
		if b.K != Object {
			return Value{}, &Throw{"TypeError"}
		}
		if !b.O.Callable {
			return Value{}, &Throw{"TypeError"}
		}
		f := b.O
		for f.Bound != nil { // 15.3.4.5.3: the target's [[HasInstance]]
			f = f.Bound
			if a.K == Object {
				c.hazard(HazBoundInst)
			}
		}
		if a.K != Object {
			return Bool(false), nil
		}
		if f.ProtoProp == nil || f.ProtoProp.K != Object {
			return Value{}, &Throw{"TypeError"}
		}
		for p := a.O.Proto; p != nil; p = p.Proto {
			if p == f.ProtoProp.O {
				return Bool(true), nil
			}
		}
		return Bool(false), nil
	}
	panic("m05: unknown binary operator " + op)
}

// nonCanonicalIndex: an optionally signed run of decimal digits that is not the canonical text of
// a non-negative integer ("01", "-0", "+1", "-5"): never an array index by 15.4.
func nonCanonicalIndex(k []uint16) bool {
	i := 0
	if len(k) > 0 && (k[0] == '+' || k[0] == '-') {
		i = 1
	}
	if i == len(k) {
		return false
	}
	for _, ch := range k[i:] {
		if ch < '0' || ch > '9' {
			return false
		}
	}
	return i == 1 || (len(k) > 1 && k[0] == '0')
}

// asciiKey renders a property name for the Props tables (names there are ASCII; anything else
// cannot be a member and maps to a name no table contains).
func asciiKey(u []uint16) string {
	b := make([]byte, len(u))
	for i, c := range u {
		if c >= 0x80 {
			return "\x00non-ascii"
		}
		b[i] = byte(c)
	}
	return string(b)
}

// Unary applies a unary operator of 11.4 to an evaluated operand value. For typeof of an
// unresolvable reference the caller answers "undefined" itself (11.4.3 step 2).
func (c *Ctx) Unary(op string, a Value) (Value, *Throw) {
	switch op {
	case "+":
		n, t := c.ToNumber(a)
		if t != nil {
			return Value{}, t
		}
		return Num(n), nil
	case "-":
		n, t := c.ToNumber(a)
		if t != nil {
			return Value{}, t
		}
		return Num(-n), nil // NaN stays NaN; otherwise same magnitude, opposite sign
	case "~":
		n, t := c.ToInt32(a)
		if t != nil {
			return Value{}, t
		}
		return Num(float64(^n)), nil
	case "!":
		return Bool(!ToBoolean(a)), nil
	case "typeof":
		return StrASCII(TypeOf(a)), nil
	}
	panic("m05: unknown unary operator " + op)
}

// TypeOf is table 20 of 11.4.3.
func TypeOf(a Value) string {
	switch a.K {
	case Undefined:
		return "undefined"
	case Null:
		return "object"
	case Boolean:
		return "boolean"
	case Number:
		return "number"
	case String:
		return "string"
	}
	if a.O.Callable {
		return "function"
	}
	return "object"
}

// Same reports whether two values are the same ES5 value in the sense the check compares
// results: same type; numbers by bit class (all NaNs alike, +0 ≠ −0); strings by code units;
// objects by identity.
func Same(x, y Value) bool {
	if x.K != y.K {
		return false
	}
	switch x.K {
	case Number:
		if math.IsNaN(x.N) || math.IsNaN(y.N) {
			return math.IsNaN(x.N) && math.IsNaN(y.N)
		}
		return math.Float64bits(x.N) == math.Float64bits(y.N)
	case String:
		return eq16(x.S, y.S)
	case Boolean:
		return x.B == y.B
	case Object:
		return x.O == y.O || (x.O != nil && y.O != nil && x.O.ID == y.O.ID)
	}
	return true
}
