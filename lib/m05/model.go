// Package m05 is the reference model of property C05: ES5.1 §9 (type conversion) and the §11
// operators built on it, written from the text of the standard over a small value type. It
// shares no code with otto. Objects are "O" objects with programmable valueOf/toString that log
// their invocation, plus a little fixed scenery (functions, instances, plain objects) for
// typeof / in / instanceof.
package m05

import (
	"math"
	"math/big"

	"verif/lib/es5"
)

// Kind is the ES5 type of a Value (8.1–8.6).
type Kind uint8

const (
	Undefined Kind = iota
	Null
	Boolean
	Number
	String
	Object
)

func (k Kind) String() string {
	return [...]string{"undefined", "null", "boolean", "number", "string", "object"}[k]
}

// Value is an ES5 language value. Strings are sequences of UTF-16 code units (8.4).
type Value struct {
	K Kind
	B bool
	N float64
	S []uint16
	O *Obj

	// Held is set for a number the implementation under test is known to hold as a 64-bit integer
	// beyond 2^53 (integer literal or Go integer handed in): the decimal digits of that integer. It
	// does not change the value; it only lets ToString raise HazWideText when those digits are not
	// the 9.8.1 text of N.
	Held string
}

func Undef() Value            { return Value{K: Undefined} }
func NullV() Value            { return Value{K: Null} }
func Bool(b bool) Value       { return Value{K: Boolean, B: b} }
func Num(x float64) Value     { return Value{K: Number, N: x} }
func Str(u []uint16) Value    { return Value{K: String, S: u} }
func StrASCII(s string) Value { return Value{K: String, S: units(s)} }
func ObjV(o *Obj) Value       { return Value{K: Object, O: o} }

func units(s string) []uint16 {
	u := make([]uint16, len(s))
	for i := 0; i < len(s); i++ {
		u[i] = uint16(s[i])
	}
	return u
}

// Method modes of an O object's valueOf / toString property.
const (
	MInherit = "inherit" // no own property: Object.prototype's method applies (valueOf returns the object, toString returns "[object Object]"); not logged
	MUndef   = "undef"   // own property whose value is undefined: not callable, skipped (8.12.8 step 2/4)
	MNonCall = "noncall" // own property whose value is a non-callable object: skipped
	MPrim    = "prim"    // logs, returns the primitive Ret
	MObj     = "obj"     // logs, returns an object: [[DefaultValue]] falls through to the other method
	MThrow   = "throw"   // logs, throws
)

// Method is one programmable conversion method.
type Method struct {
	Mode  string
	Ret   Value // for MPrim
	Quiet bool  // a built-in method (Number.prototype.valueOf, Array.prototype.toString, …): not logged
}

// Obj is an object operand.
type Obj struct {
	ID       string // identity; also the prefix of its log entries
	ValueOf  Method
	ToString Method
	Date     bool // [[Class]] "Date": [[DefaultValue]] without hint behaves as hint String (8.12.8)

	// scenery only (objects that never take part in ToPrimitive):
	Scenery   bool
	Indexed   bool            // Array or String object: array-index named properties (15.4, 15.5.5.2)
	Callable  bool            // has [[Call]] → typeof "function"; has [[HasInstance]] (15.3.5.3)
	Props     map[string]bool // names for which [[HasProperty]] is true among the names the generator uses
	Proto     *Obj            // [[Prototype]]
	Bound     *Obj            // target function of a bound function (15.3.4.5)
	ProtoProp *Value          // value of the own "prototype" property of a function
}

// Throw is an abrupt completion: Name is "TypeError" for errors the standard prescribes, or the
// marker a throwing conversion method threw.
type Throw struct{ Name string }

// Hazards: named input classes in which otto is known to deviate for one recorded root cause.
// The model raises them at the step where the root cause sits; the check maps them to finding ids.
const (
	HazToInt63     = "toint-beyond-2^63"         // ToInt32/ToUint32/ToUint16 of a finite |x| >= 2^63
	HazStrOrder    = "string-order-utf16"        // string < string where code-unit order and code-point order disagree
	HazLenientNum  = "tonumber-go-syntax"        // ToNumber of a string only Go's strconv accepts (inf, 1_0, 0x1.8p1, …)
	HazHexOverflow = "tonumber-hex-2^63"         // ToNumber of a hex literal string with value >= 2^63
	HazNumText     = "number-text-corner"        // ToString of a number whose text is a C06 matter (just below 1e21)
	HazIndexName   = "non-canonical-index-name"  // `in` on an Array/String object with a name like "01", "-0", "+1"
	HazBoundInst   = "instanceof-bound-function" // object instanceof (bound function): 15.3.4.5.3 delegates to the target
	HazWideText    = "int64-held-number-text"    // ToString of a number held as a 64-bit integer whose digits are not its 9.8.1 text
)

// Ctx carries the observable side effects of one evaluation.
type Ctx struct {
	Log     []string
	Hazards []string
}

func (c *Ctx) log(s string) { c.Log = append(c.Log, s) }

func (c *Ctx) hazard(h string) {
	for _, x := range c.Hazards {
		if x == h {
			return
		}
	}
	c.Hazards = append(c.Hazards, h)
}

// Hints of ToPrimitive (9.1).
type Hint int

const (
	HintNone Hint = iota
	HintNumber
	HintString
)

var objectObject = units("[object Object]")

// callMethod performs steps "Let f be [[Get]](name); if IsCallable(f) then call it; if the result
// is primitive return it" of 8.12.8 for one method. done reports a primitive result.
func (c *Ctx) callMethod(o *Obj, name string, m Method) (v Value, done bool, t *Throw) {
	switch m.Mode {
	case MInherit:
		if name == "valueOf" {
			return Value{}, false, nil // Object.prototype.valueOf returns the object itself (15.2.4.4)
		}
		return Str(objectObject), true, nil // Object.prototype.toString (15.2.4.2)
	case MUndef, MNonCall, "":
		return Value{}, false, nil
	case MPrim:
		if !m.Quiet {
			c.log(o.ID + "." + name)
		}
		return m.Ret, true, nil
	case MObj:
		c.log(o.ID + "." + name)
		return Value{}, false, nil
	case MThrow:
		c.log(o.ID + "." + name)
		return Value{}, false, &Throw{"boom:" + o.ID + "." + name}
	}
	panic("m05: bad method mode " + m.Mode)
}

// DefaultValue is [[DefaultValue]](hint) of 8.12.8.
func (c *Ctx) DefaultValue(o *Obj, hint Hint) (Value, *Throw) {
	if o.Scenery {
		panic("m05: scenery object " + o.ID + " must not be converted")
	}
	if hint == HintNone {
		if o.Date {
			hint = HintString
		} else {
			hint = HintNumber
		}
	}
	type step struct {
		name string
		m    Method
	}
	seq := []step{{"valueOf", o.ValueOf}, {"toString", o.ToString}}
	if hint == HintString {
		seq[0], seq[1] = seq[1], seq[0]
	}
	for _, s := range seq {
		v, done, t := c.callMethod(o, s.name, s.m)
		if t != nil {
			return Value{}, t
		}
		if done {
			return v, nil
		}
	}
	return Value{}, &Throw{"TypeError"}
}

// ToPrimitive (9.1).
func (c *Ctx) ToPrimitive(v Value, hint Hint) (Value, *Throw) {
	if v.K != Object {
		return v, nil
	}
	return c.DefaultValue(v.O, hint)
}

// ToBoolean (9.2).
func ToBoolean(v Value) bool {
	switch v.K {
	case Undefined, Null:
		return false
	case Boolean:
		return v.B
	case Number:
		return !(v.N == 0 || math.IsNaN(v.N))
	case String:
		return len(v.S) != 0
	}
	return true
}

// ToNumber (9.3).
func (c *Ctx) ToNumber(v Value) (float64, *Throw) {
	switch v.K {
	case Undefined:
		return math.NaN(), nil
	case Null:
		return 0, nil
	case Boolean:
		if v.B {
			return 1, nil
		}
		return 0, nil
	case Number:
		return v.N, nil
	case String:
		c.noteNumericString(v.S)
		return es5.StringToNumber(v.S), nil
	}
	p, t := c.ToPrimitive(v, HintNumber)
	if t != nil {
		return 0, t
	}
	return c.ToNumber(p)
}

// ToString (9.8).
func (c *Ctx) ToString(v Value) ([]uint16, *Throw) {
	switch v.K {
	case Undefined:
		return units("undefined"), nil
	case Null:
		return units("null"), nil
	case Boolean:
		if v.B {
			return units("true"), nil
		}
		return units("false"), nil
	case Number:
		if TextCorner(v.N) {
			c.hazard(HazNumText)
		}
		if v.Held != "" && v.Held != es5.NumberToString(v.N) {
			c.hazard(HazWideText)
		}
		return units(es5.NumberToString(v.N)), nil
	case String:
		return v.S, nil
	}
	p, t := c.ToPrimitive(v, HintString)
	if t != nil {
		return nil, t
	}
	return c.ToString(p)
}

// TextCorner marks the doubles whose decimal text is decided by property C06, not here: the few
// values just below 10^21 where the choice between fixed and exponent layout hangs on the last ulp.
func TextCorner(x float64) bool {
	a := math.Abs(x)
	return (a >= 9.99999999999999e20 && a < 1e21) || (a >= 9.99999999999999e-7 && a < 1e-6)
}

// ToInteger (9.4).
func (c *Ctx) ToInteger(v Value) (float64, *Throw) {
	n, t := c.ToNumber(v)
	if t != nil {
		return 0, t
	}
	return es5.ToInteger(n), nil
}

func (c *Ctx) noteWide(n float64) {
	if !math.IsNaN(n) && !math.IsInf(n, 0) && math.Abs(n) >= 9223372036854775808 {
		c.hazard(HazToInt63)
	}
}

// ToInt32 (9.5).
func (c *Ctx) ToInt32(v Value) (int32, *Throw) {
	n, t := c.ToNumber(v)
	if t != nil {
		return 0, t
	}
	c.noteWide(n)
	return es5.ToInt32(n), nil
}

// ToUint32 (9.6).
func (c *Ctx) ToUint32(v Value) (uint32, *Throw) {
	n, t := c.ToNumber(v)
	if t != nil {
		return 0, t
	}
	c.noteWide(n)
	return es5.ToUint32(n), nil
}

// ToUint16 (9.7).
func (c *Ctx) ToUint16(v Value) (uint16, *Throw) {
	n, t := c.ToNumber(v)
	if t != nil {
		return 0, t
	}
	c.noteWide(n)
	return es5.ToUint16(n), nil
}

// ---------------------------------------------------------------------------------------------
// numeric strings: where Go's strconv grammar is wider than StringNumericLiteral (9.3.1)

func lower(c uint16) uint16 {
	if c >= 'A' && c <= 'Z' {
		return c + 32
	}
	return c
}

func (c *Ctx) noteNumericString(u []uint16) {
	t := es5.TrimWS(u)
	if len(t) == 0 {
		return
	}
	body := t
	if body[0] == '+' || body[0] == '-' {
		body = body[1:]
	}
	hex := len(body) >= 2 && body[0] == '0' && lower(body[1]) == 'x'
	hasUnderscore, hasP := false, false
	for _, ch := range t {
		if ch == '_' {
			hasUnderscore = true
		}
		if lower(ch) == 'p' {
			hasP = true
		}
	}
	if hasUnderscore || (hex && hasP) {
		c.hazard(HazLenientNum)
	}
	// inf / infinity in any letter case other than the one spelling ES5 has
	word := make([]uint16, len(body))
	for i, ch := range body {
		word[i] = lower(ch)
	}
	if eq16(word, units("inf")) || (eq16(word, units("infinity")) && !eq16(body, units("Infinity"))) {
		c.hazard(HazLenientNum)
	}
	// unsigned hex integer of 2^63 or more
	if hex && len(t) == len(body) && len(body) > 2 {
		v := new(big.Int)
		ok := true
		for _, ch := range body[2:] {
			d := hexDigit(ch)
			if d < 0 {
				ok = false
				break
			}
			v.Lsh(v, 4).Or(v, big.NewInt(int64(d)))
		}
		if ok && v.BitLen() > 63 {
			c.hazard(HazHexOverflow)
		}
	}
}

func hexDigit(c uint16) int {
	switch {
	case c >= '0' && c <= '9':
		return int(c - '0')
	case c >= 'a' && c <= 'f':
		return int(c-'a') + 10
	case c >= 'A' && c <= 'F':
		return int(c-'A') + 10
	}
	return -1
}

func eq16(a, b []uint16) bool {
	if len(a) != len(b) {
		return false
	}
	for i := range a {
		if a[i] != b[i] {
			return false
		}
	}
	return true
}

// Eq16 compares two code unit sequences.
func Eq16(a, b []uint16) bool { return eq16(a, b) }
