package minijs

import "fmt"

// ValidateOpts tunes Validate.
type ValidateOpts struct {
	// FunctionsInBlocks: accept function declarations in statement position (not ES5 grammar,
	// but accepted by every implementation including otto).
	FunctionsInBlocks bool
}

// Validate checks the static well-formedness rules ES5 attaches to a syntactically shaped tree
// (the parse-time early errors): break / continue / return context (12.7-12.9), label
// declaration, duplication and iteration-label rules (12.12), assignment / update / for-in
// targets (11.13.1, 11.3, 11.4.4-5, 12.6.4; the early ReferenceError of clause 16), try needs
// catch or finally (12.14), at most one default clause (12.11), object literal name clashes
// (11.1.5), accessor arity, reserved words used as identifiers (7.6.1), child counts.
// It returns nil for every tree the generator produces.
func Validate(prog *Node, o ValidateOpts) error {
	if prog == nil || prog.K != "program" {
		return fmt.Errorf("not a program node")
	}
	v := &validator{o: o}
	v.sourceElements(prog.Kids, vctx{})
	return v.err
}

type vctx struct {
	inFunc, inIter, inSwitch bool
	labels                   []glabel
}

type validator struct {
	o   ValidateOpts
	err error
}

func (v *validator) fail(format string, a ...interface{}) {
	if v.err == nil {
		v.err = fmt.Errorf(format, a...)
	}
}

func (v *validator) ident(name, what string) {
	if name == "" {
		v.fail("empty %s", what)
	}
	if IsReserved(name) {
		v.fail("reserved word %q used as %s", name, what)
	}
}

func (v *validator) need(n *Node, min, max int) bool {
	if len(n.Kids) < min || (max >= 0 && len(n.Kids) > max) {
		v.fail("%s node has %d children", n.K, len(n.Kids))
		return false
	}
	return true
}

func (v *validator) sourceElements(l []*Node, c vctx) {
	for _, s := range l {
		if s != nil && s.K == "funcdecl" {
			v.function(s, true)
			continue
		}
		v.stmt(s, c)
	}
}

func (v *validator) function(f *Node, needName bool) {
	if needName || f.Name != "" {
		v.ident(f.Name, "function name")
	}
	for _, p := range f.Params {
		v.ident(p, "parameter")
	}
	v.sourceElements(f.Kids, vctx{inFunc: true})
}

func (v *validator) target(e *Node, what string) {
	if e == nil || !(e.K == "id" || e.K == "dot" || e.K == "idx") {
		k := "nil"
		if e != nil {
			k = e.K
		}
		v.fail("invalid %s target (%s)", what, k)
	}
}

func (v *validator) expr(e *Node) {
	if e == nil {
		v.fail("missing expression")
		return
	}
	if !e.IsExpr() {
		v.fail("%s in expression position", e.K)
		return
	}
	switch e.K {
	case "id":
		v.ident(e.Name, "identifier")
	case "num":
		if _, err := NumValue(e.Lit); err != nil {
			v.fail("numeric literal %q: %v", e.Lit, err)
		}
	case "arr":
		for _, k := range e.Kids {
			if k != nil {
				v.expr(k)
			}
		}
	case "obj":
		for _, p := range e.Kids {
			if p == nil || p.K != "prop" || len(p.Kids) != 2 || p.Kids[0] == nil || p.Kids[1] == nil {
				v.fail("malformed property")
				return
			}
			switch p.Op {
			case "init":
				v.expr(p.Kids[1])
			case "get", "set":
				f := p.Kids[1]
				if f.K != "func" || (p.Op == "get" && len(f.Params) != 0) || (p.Op == "set" && len(f.Params) != 1) {
					v.fail("malformed %ster", p.Op)
					return
				}
				v.function(f, false)
			default:
				v.fail("property kind %q", p.Op)
			}
		}
		if v.err == nil && !PropsOK(e) {
			v.fail("object literal defines a name twice in conflicting ways")
		}
	case "func":
		v.function(e, false)
	case "dot":
		if v.need(e, 1, 1) {
			v.expr(e.Kids[0])
		}
		if e.Name == "" {
			v.fail("empty property name")
		}
	case "idx", "bin":
		if v.need(e, 2, 2) {
			v.expr(e.Kids[0])
			v.expr(e.Kids[1])
		}
	case "call", "new":
		if v.need(e, 1, -1) {
			if e.K == "new" && e.NoArgs && len(e.Kids) > 1 {
				v.fail("new without parentheses has arguments")
			}
			for _, k := range e.Kids {
				v.expr(k)
			}
		}
	case "unary":
		if v.need(e, 1, 1) {
			if e.Op == "++" || e.Op == "--" {
				v.target(e.Kids[0], "prefix "+e.Op)
			}
			v.expr(e.Kids[0])
		}
	case "postfix":
		if v.need(e, 1, 1) {
			v.target(e.Kids[0], "postfix "+e.Op)
			v.expr(e.Kids[0])
		}
	case "assign":
		if v.need(e, 2, 2) {
			v.target(e.Kids[0], "assignment")
			v.expr(e.Kids[0])
			v.expr(e.Kids[1])
		}
	case "cond":
		if v.need(e, 3, 3) {
			for _, k := range e.Kids {
				v.expr(k)
			}
		}
	case "seq":
		if v.need(e, 2, -1) {
			for _, k := range e.Kids {
				v.expr(k)
			}
		}
	}
}

func (v *validator) decls(n *Node, max int) {
	if len(n.Kids) == 0 || (max > 0 && len(n.Kids) > max) {
		v.fail("var with %d declarations", len(n.Kids))
	}
	for _, d := range n.Kids {
		if d == nil || d.K != "decl" {
			v.fail("malformed declaration")
			return
		}
		v.ident(d.Name, "variable name")
		if i := kid(d, 0); i != nil {
			v.expr(i)
		}
	}
}

func hasLabel(c vctx, name string) (found, iter bool) {
	for _, l := range c.labels {
		if l.name == name {
			return true, l.iter
		}
	}
	return false, false
}

// labelledIteration: does the statement under a label chain end in an iteration statement?
func labelledIteration(s *Node) bool {
	for s != nil && s.K == "label" && len(s.Kids) == 1 {
		s = s.Kids[0]
	}
	return s != nil && (s.K == "while" || s.K == "dowhile" || s.K == "for" || s.K == "forin")
}

func (v *validator) stmt(s *Node, c vctx) {
	if s == nil {
		v.fail("missing statement")
		return
	}
	iter := c
	iter.inIter = true
	switch s.K {
	case "var":
		v.decls(s, 0)
	case "expr", "throw":
		if v.need(s, 1, 1) {
			v.expr(s.Kids[0])
		}
	case "if":
		if v.need(s, 2, 3) {
			v.expr(s.Kids[0])
			v.stmt(s.Kids[1], c)
			if a := kid(s, 2); a != nil {
				v.stmt(a, c)
			}
		}
	case "for":
		if v.need(s, 4, 4) {
			if i := s.Kids[0]; i != nil {
				if i.K == "var" {
					v.decls(i, 0)
				} else {
					v.expr(i)
				}
			}
			if s.Kids[1] != nil {
				v.expr(s.Kids[1])
			}
			if s.Kids[2] != nil {
				v.expr(s.Kids[2])
			}
			v.stmt(s.Kids[3], iter)
		}
	case "forin":
		if v.need(s, 3, 3) {
			if l := s.Kids[0]; l != nil && l.K == "var" {
				v.decls(l, 1)
			} else {
				v.target(l, "for-in")
				v.expr(l)
			}
			v.expr(s.Kids[1])
			v.stmt(s.Kids[2], iter)
		}
	case "while":
		if v.need(s, 2, 2) {
			v.expr(s.Kids[0])
			v.stmt(s.Kids[1], iter)
		}
	case "dowhile":
		if v.need(s, 2, 2) {
			v.stmt(s.Kids[0], iter)
			v.expr(s.Kids[1])
		}
	case "continue":
		if !c.inIter {
			v.fail("continue outside an iteration statement")
		}
		if s.Name != "" {
			found, it := hasLabel(c, s.Name)
			if !found {
				v.fail("continue to undefined label %q", s.Name)
			} else if !it {
				v.fail("continue to label %q, which does not label an iteration statement", s.Name)
			}
		}
	case "break":
		if s.Name != "" {
			if found, _ := hasLabel(c, s.Name); !found {
				v.fail("break to undefined label %q", s.Name)
			}
		} else if !c.inIter && !c.inSwitch {
			v.fail("break outside an iteration or switch statement")
		}
	case "return":
		if !c.inFunc {
			v.fail("return outside a function")
		}
		if a := kid(s, 0); a != nil {
			v.expr(a)
		}
	case "with":
		if v.need(s, 2, 2) {
			v.expr(s.Kids[0])
			v.stmt(s.Kids[1], c)
		}
	case "switch":
		if v.need(s, 1, -1) {
			v.expr(s.Kids[0])
			inner := c
			inner.inSwitch = true
			defaults := 0
			for _, cs := range s.Kids[1:] {
				if cs == nil || cs.K != "case" || len(cs.Kids) < 1 {
					v.fail("malformed case clause")
					return
				}
				if cs.Kids[0] == nil {
					defaults++
				} else {
					v.expr(cs.Kids[0])
				}
				for _, x := range cs.Kids[1:] {
					v.stmt(x, inner)
				}
			}
			if defaults > 1 {
				v.fail("more than one default clause")
			}
		}
	case "label":
		if v.need(s, 1, 1) {
			v.ident(s.Name, "label")
			if found, _ := hasLabel(c, s.Name); found {
				v.fail("label %q is already in the label set", s.Name)
			}
			inner := c
			inner.labels = append(append([]glabel(nil), c.labels...), glabel{name: s.Name, iter: labelledIteration(s)})
			v.stmt(s.Kids[0], inner)
		}
	case "try":
		if v.need(s, 1, 3) {
			blocks := []*Node{s.Kids[0], kid(s, 1), kid(s, 2)}
			if blocks[1] == nil && blocks[2] == nil {
				v.fail("try without catch or finally")
			}
			if blocks[1] != nil {
				v.ident(s.Name, "catch parameter")
			}
			for i, b := range blocks {
				if b == nil {
					if i == 0 {
						v.fail("try without block")
					}
					continue
				}
				if b.K != "block" {
					v.fail("try part is a %s, not a block", b.K)
					continue
				}
				v.stmt(b, c)
			}
		}
	case "block":
		for _, x := range s.Kids {
			v.stmt(x, c)
		}
	case "funcdecl":
		if !v.o.FunctionsInBlocks {
			v.fail("function declaration %q in statement position", s.Name)
		}
		v.function(s, true)
	case "debugger", "empty":
	default:
		v.fail("%s in statement position", s.K)
	}
}
