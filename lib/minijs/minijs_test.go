package minijs

import (
	"encoding/json"
	"math"
	"strconv"
	"strings"
	"testing"

	"pgregory.net/rapid"
)

// Self-checks of the library (go test ./lib/minijs); they do not involve otto.

// Every rendered string literal, read back by the independent decoder, gives the units it was
// rendered from; so (unit, form) fall-backs and the octal look-ahead rule are consistent.
func TestStringRenderDecode(t *testing.T) {
	rapid.Check(t, func(rt *rapid.T) {
		g := &G{t: rt}
		n := g.strNode()
		info := RenderStr(n)
		got, ok := DecodeStringLiteral(info.Text)
		if !ok {
			rt.Fatalf("rendered literal is not well formed: %q", info.Text)
		}
		if len(got) != len(info.Units) {
			rt.Fatalf("%q: decoded %v, rendered from %v", info.Text, got, info.Units)
		}
		for i := range got {
			if got[i] != info.Units[i] {
				rt.Fatalf("%q: decoded %v, rendered from %v", info.Text, got, info.Units)
			}
		}
	})
}

// The rational model agrees with strconv (an independent correctly-rounding implementation) on
// decimal spellings and with exact integer arithmetic on hex / octal ones.
func TestNumValue(t *testing.T) {
	for lit, want := range map[string]float64{
		"0": 0, "1": 1, ".5": 0.5, "5.": 5, "1e3": 1000, "1E-3": 0.001, "0x10": 16, "0XfF": 255, "010": 8, "00": 0, "0777": 511,
		"9007199254740993": 9007199254740992, "0x20000000000001": 9007199254740992, "0x20000000000003": 9007199254740996,
		"0x8000000000000401": 9223372036854777856, "01000000000000000000001": 9223372036854775808,
		"1e400": math.Inf(1), "1e-400": 0, "5e-324": 5e-324, "2e-324": 0, "3e-324": 5e-324, "1.7976931348623159e308": math.Inf(1),
	} {
		got, err := NumValue(lit)
		if err != nil || got != want {
			t.Errorf("NumValue(%q) = %v, %v; want %v", lit, got, err, want)
		}
	}
	rapid.Check(t, func(rt *rapid.T) {
		g := &G{t: rt}
		lit := g.numLit()
		got, err := NumValue(lit)
		if err != nil {
			rt.Fatalf("NumValue(%q): %v", lit, err)
		}
		if c := NumClass(lit); c == "hex" || c == "octal" {
			return
		}
		s := lit
		if strings.HasPrefix(s, ".") {
			s = "0" + s
		}
		want, perr := strconv.ParseFloat(s, 64)
		if perr != nil && !(math.IsInf(want, 0)) {
			rt.Fatalf("strconv rejects %q: %v", s, perr)
		}
		if got != want {
			rt.Fatalf("NumValue(%q) = %v, strconv says %v", lit, got, want)
		}
	})
}

// Layout keeps the syntactic token sequence, positions index the text, restricted gaps hold no
// line terminator, and an omitted semicolon is followed by a line terminator, "}" or the end.
func TestLayoutInvariants(t *testing.T) {
	rapid.Check(t, func(rt *rapid.T) {
		prog := GenProgram(rt, GenCfg{UnicodeIdent: true})
		decor := rapid.SliceOfN(rapid.Byte(), 0, 16).Draw(rt, "decor")
		trivia := rapid.SliceOfN(rapid.Byte(), 0, 32).Draw(rt, "trivia")
		// the case must survive JSON (replay files)
		b, err := json.Marshal(prog)
		if err != nil {
			rt.Fatal(err)
		}
		var back Node
		if err := json.Unmarshal(b, &back); err != nil {
			rt.Fatal(err)
		}
		if Dump(&back, DumpOpts{Decls: true, Spelling: true}) != Dump(prog, DumpOpts{Decls: true, Spelling: true}) {
			rt.Fatalf("tree changes through JSON")
		}
		syn := Tokens(prog, decor)
		toks := Layout(syn, LayoutOpts{Trivia: trivia})
		text := Text(toks)
		var kept []Token
		for _, tk := range toks {
			if tk.Off < 0 || tk.Off+len(tk.Text) > len(text) || text[tk.Off:tk.Off+len(tk.Text)] != tk.Text {
				rt.Fatalf("token %+v does not index the text", tk)
			}
			if !tk.IsTrivia() {
				kept = append(kept, tk)
			}
		}
		if len(kept) != len(syn) {
			rt.Fatalf("layout changed the number of syntactic tokens: %d -> %d", len(syn), len(kept))
		}
		for i := range syn {
			if kept[i].Omitted {
				if !syn[i].Semi {
					rt.Fatalf("omitted a token that is not an ASI-eligible semicolon: %+v", syn[i])
				}
				continue
			}
			if kept[i].Text != syn[i].Text || kept[i].Kind != syn[i].Kind {
				rt.Fatalf("token %d changed: %+v -> %+v", i, syn[i], kept[i])
			}
		}
		// gaps
		sawLT, pendingASI := false, false
		for _, tk := range toks {
			switch {
			case tk.Kind == TLT, tk.Kind == TComment && strings.ContainsAny(tk.Text, "\n\r\u2028\u2029"):
				sawLT = true
			case tk.IsTrivia():
			case tk.Omitted:
				pendingASI = true
				sawLT = false
			default:
				if tk.NoLTBefore && sawLT {
					rt.Fatalf("line terminator in a restricted gap before %+v in %q", tk, text)
				}
				if pendingASI && !sawLT && !(tk.Kind == TPunct && tk.Text == "}") {
					rt.Fatalf("semicolon omitted without line terminator before %+v in %q", tk, text)
				}
				pendingASI, sawLT = false, false
			}
		}
	})
}

func TestValidate(t *testing.T) {
	rapid.Check(t, func(rt *rapid.T) {
		prog := GenProgram(rt, GenCfg{UnicodeIdent: true})
		if err := Validate(prog, ValidateOpts{}); err != nil {
			rt.Fatalf("generator produced an invalid tree: %v\n%s", err, Dump(prog, DumpOpts{}))
		}
	})
	loop := func(body *Node) *Node { return &Node{K: "while", Kids: []*Node{Id("a"), body}} }
	bad := map[string]*Node{
		"break outside":       Program(&Node{K: "break"}),
		"continue outside":    Program(&Node{K: "continue"}),
		"return outside":      Program(&Node{K: "return", Kids: []*Node{nil}}),
		"undefined label":     Program(loop(&Node{K: "break", Name: "L"})),
		"duplicate label":     Program(Label("L", Label("L", &Node{K: "empty"}))),
		"continue non-loop":   Program(Label("L", &Node{K: "block", Kids: []*Node{loop(&Node{K: "continue", Name: "L"})}})),
		"label across func":   Program(Label("L", loop(ExprStmt(&Node{K: "func", Kids: []*Node{&Node{K: "break", Name: "L"}}})))),
		"assign to literal":   Program(ExprStmt(Assign("=", Num("1"), Id("a")))),
		"update call":         Program(ExprStmt(Postfix("++", N("call", Id("f"))))),
		"try alone":           Program(&Node{K: "try", Kids: []*Node{{K: "block"}, nil, nil}}),
		"reserved identifier": Program(ExprStmt(Id("class"))),
		"two defaults":        Program(&Node{K: "switch", Kids: []*Node{Id("a"), {K: "case", Kids: []*Node{nil}}, {K: "case", Kids: []*Node{nil}}}}),
		"getter and data":     Program(ExprStmt(&Node{K: "obj", Kids: []*Node{{K: "prop", Op: "init", Kids: []*Node{Id("a"), Num("1")}}, {K: "prop", Op: "get", Kids: []*Node{Id("a"), {K: "func"}}}}})),
		"function in block":   Program(&Node{K: "block", Kids: []*Node{{K: "funcdecl", Name: "f"}}}),
		"for-in target":       Program(&Node{K: "forin", Kids: []*Node{N("call", Id("f")), Id("o"), {K: "empty"}}}),
	}
	for name, p := range bad {
		if err := Validate(p, ValidateOpts{}); err == nil {
			t.Errorf("%s: accepted", name)
		}
	}
	good := Program(Label("L", loop(&Node{K: "block", Kids: []*Node{{K: "continue", Name: "L"}, {K: "break", Name: "L"}, {K: "break"}}})))
	if err := Validate(good, ValidateOpts{}); err != nil {
		t.Errorf("valid program rejected: %v", err)
	}
}
