package minijs

import (
	"fmt"

	"pgregory.net/rapid"
)

// Syntactic generator: well-formed ES5 programs to a bounded depth. Every tree it returns is a
// valid ES5 (non-strict) Program once rendered by Tokens/Layout:
//   - break / continue / return only where 12.7-12.9 allow them, labels declared, not duplicated
//     in the enclosing chain and not crossing function boundaries, "continue L" only for labels of
//     iteration statements;
//   - assignment / ++ / -- / for-in targets are identifiers or property accessors;
//   - function declarations only as source elements (program or function body level);
//   - an if-with-else never has a consequent that ends in an else-less if (the else would re-attach);
//   - decimal literals have at most 20 significant digits (7.8.3 lets implementations round
//     longer ones either way), no "08"/"09" spellings (appendix B of DESIGN.md).

// GenCfg tunes the generator.
type GenCfg struct {
	MaxDepth     int  // overall nesting bound (<= 6 by default)
	UnicodeIdent bool // non-ASCII identifiers and \uXXXX spellings
	NoRegex      bool
}

type gctx struct {
	inFunc, inIter, inSwitch bool
	labels                   []glabel
}

type glabel struct {
	name string
	iter bool
}

func (c gctx) with(f func(*gctx)) gctx {
	n := c
	n.labels = append([]glabel(nil), c.labels...)
	f(&n)
	return n
}

type G struct {
	t   *rapid.T
	cfg GenCfg
	n   int
}

func (g *G) lbl(s string) string { g.n++; return fmt.Sprintf("%s%d", s, g.n) }

func (g *G) int(lo, hi int) int { return rapid.IntRange(lo, hi).Draw(g.t, g.lbl("i")) }
func (g *G) bool() bool         { return rapid.Bool().Draw(g.t, g.lbl("b")) }
func (g *G) chance(pct int) bool {
	return rapid.IntRange(0, 99).Draw(g.t, g.lbl("p")) < pct
}
func (g *G) from(pool []string) string { return pool[g.int(0, len(pool)-1)] }

// pick draws an index with the given weights.
func (g *G) pick(w []int) int {
	tot := 0
	for _, x := range w {
		tot += x
	}
	r := g.int(0, tot-1)
	for i, x := range w {
		if r < x {
			return i
		}
		r -= x
	}
	return len(w) - 1
}

// Identifier pools. All are valid ES5 Identifiers in non-strict code.
var identPool = []string{"a", "b", "c", "f", "g", "o", "x", "y", "$", "_", "$0", "_a", "A", "arguments", "eval", "undefined",
	"get", "set", "static", "yield", "of", "async", "NaN", "Infinity", "ifx", "in_", "newt", "varx", "thisx", "nul", "tru"}

var labelPool = []string{"L", "M", "N", "outer", "inner", "a", "get", "x"}

// unicodeIdents: name, spelling.
var unicodeIdents = [][2]string{
	{"\u00e9", "\u00e9"}, {"\u03c0", "\u03c0"}, {"\u2135x", "\u2135x"}, {"\u01c5", "\u01c5"}, {"\u02b0x", "\u02b0x"}, // Ll Ll Lo Lt Lm
	{"\u16ee", "\u16ee"},     // Nl (runic arlaug symbol)
	{"a\u0301", "a\u0301"},   // Mn in part position
	{"a\u0663", "a\u0663"},   // Nd in part position
	{"a\u203fb", "a\u203fb"}, // Pc in part position
	{"a\u200cb", "a\u200cb"}, // ZWNJ (7.6 IdentifierPart)
	{"a\u200db", "a\u200db"}, // ZWJ
	{"a", "\\u0061"}, {"ab", "a\\u0062"}, {"\u00e9", "\\u00e9"}, {"\u03c0x", "\\u03C0x"}, {"$a", "\\u0024a"}, {"a_", "a\\u005F"},
	{"\u4e2d\u6587", "\u4e2d\u6587"},
}

// UnicodeIdentClass labels why an identifier is unusual ("" for plain ASCII).
func UnicodeIdentClass(name, spell string) string {
	if spell != "" && spell != name {
		return "escape"
	}
	cls := ""
	for _, r := range name {
		if r < 0x80 {
			continue
		}
		switch {
		case r == 0x200c || r == 0x200d:
			return "zwj"
		case r == 0x0301:
			cls = "Mn"
		case r == 0x0663:
			cls = "Nd"
		case r == 0x203f:
			cls = "Pc"
		case r == 0x16ee:
			cls = "Nl"
		default:
			if cls == "" {
				cls = "letter"
			}
		}
	}
	return cls
}

func (g *G) identNode(k string) *Node {
	if g.cfg.UnicodeIdent && g.chance(2) {
		u := unicodeIdents[g.int(0, len(unicodeIdents)-1)]
		n := &Node{K: k, Name: u[0]}
		if u[1] != u[0] {
			n.Spell = u[1]
		}
		return n
	}
	return &Node{K: k, Name: g.from(identPool)}
}

// propName: any IdentifierName, reserved words included.
func (g *G) propName(n *Node) {
	switch {
	case g.chance(30):
		n.Name = g.from(ReservedWords)
	case g.cfg.UnicodeIdent && g.chance(2):
		u := unicodeIdents[g.int(0, len(unicodeIdents)-1)]
		n.Name = u[0]
		if u[1] != u[0] {
			n.Spell = u[1]
		}
	default:
		n.Name = g.from(identPool)
	}
}

// ---------------------------------------------------------------------------------------------
// literals

var numPool = []string{
	"0", "1", "7", "10", "255", "0.5", ".5", "5.", "0.", "1e3", "1E3", "1e+3", "1e-3", "1.5e3", ".5e1", "5.e1", "0e0", "0.0e-0",
	"0x0", "0x1F", "0Xff", "0xABCDEF", "0xabcdef", "00", "07", "010", "0777", "0000017",
	"9007199254740991", "9007199254740992", "9007199254740993", "9007199254740995", "18014398509481985",
	"9223372036854775807", "9223372036854775808", "9223372036854775809", "18446744073709551615", "18446744073709551616",
	"0x1fffffffffffff", "0x20000000000001", "0x7fffffffffffffff", "0x8000000000000000", "0x8000000000000400", "0x8000000000000401",
	"0x8000000000000c00", "0xffffffffffffffff", "0xfffffffffffff800", "0xfffffffffffffbff", "0xfffffffffffffc00", "0x10000000000000000", "0x123456789abcdef012",
	"0777777777777777777777", "01000000000000000000000", "01000000000000000000001", "0400000000000000001", "02000000000000000000001",
	"1e308", "1.7976931348623157e308", "1.7976931348623158e308", "1.7976931348623159e308", "1.8e308", "2e308", "1e309", "1e400",
	"5e-324", "4.9e-324", "2.5e-324", "2.4e-324", "2e-324", "1e-324", "1e-400", "2.2250738585072014e-308", "2.2250738585072011e-308",
	"0.1", "0.2", "0.30000000000000004", "123456789012345678", "12345678901234567890", "0.00000000000000000001", "4.35", "0.000001", "1e21", "1e-7",
	"100000000000000000000", "1.0", "1.50", "3.14159", "1e0", "1e1", "1e22", "1e23", "8.5", "9e9", "0.8", "0.9", "1.8", "90", "80", "809",
}

func (g *G) numLit() string {
	digits := func(lo, hi int, set string) string {
		n := g.int(lo, hi)
		b := make([]byte, n)
		for i := range b {
			b[i] = set[g.int(0, len(set)-1)]
		}
		return string(b)
	}
	switch g.pick([]int{40, 12, 12, 12, 10, 8}) {
	case 0:
		return g.from(numPool)
	case 1: // decimal integer
		return string("123456789"[g.int(0, 8)]) + digits(0, 18, "0123456789")
	case 2: // fraction forms
		ip := ""
		switch g.int(0, 2) {
		case 0:
			ip = "0"
		case 1:
			ip = string("123456789"[g.int(0, 8)]) + digits(0, 8, "0123456789")
		}
		fr := digits(0, 10, "0123456789")
		if ip == "" && fr == "" {
			fr = "5"
		}
		return ip + "." + fr
	case 3: // exponent forms
		m := ""
		switch g.int(0, 3) {
		case 0:
			m = string("123456789"[g.int(0, 8)]) + digits(0, 6, "0123456789")
		case 1:
			m = string("0123456789"[g.int(0, 9)]) + "." + digits(0, 8, "0123456789")
		case 2:
			m = "." + digits(1, 8, "0123456789")
		case 3:
			m = "0"
		}
		e := []string{"e", "E"}[g.int(0, 1)] + []string{"", "+", "-"}[g.int(0, 2)]
		switch g.int(0, 2) {
		case 0:
			e += digits(1, 1, "0123456789")
		case 1:
			e += digits(2, 2, "0123456789")
		case 2:
			e += string("0123"[g.int(0, 3)]) + digits(2, 2, "0123456789")
		}
		return m + e
	case 4: // hex
		return []string{"0x", "0X"}[g.int(0, 1)] + digits(1, 18, "0123456789abcdefABCDEF")
	default: // legacy octal
		return "0" + digits(1, 24, "01234567")
	}
}

var strUnitPools = [][]uint16{
	{'a', 'b', 'z', 'A', ' ', '!', '#', '/', '*', '(', ')', '{', '}', ';', '+', '-', '=', '<', '>', '?', ':', ',', '.', '[', ']', '~', '`', '@', '$', '_', '|', '&', '^', '%'},
	{0, 1, 7, 8, 9, 10, 11, 12, 13, 0x1b, 0x1f, 0x7f, '"', '\'', '\\'},
	{'0', '1', '3', '4', '7', '8', '9', 'x', 'u', 'n', 'b', 'f', 'r', 't', 'v'},
	{0x80, 0x85, 0xa0, 0xe9, 0xff, 0x100, 0x17f, 0x3c0, 0x4e2d, 0x2028, 0x2029, 0xfeff, 0xfffd, 0xfffe, 0xffff, 0x200c, 0xd7ff, 0xe000},
}

func (g *G) strNode() *Node {
	n := &Node{K: "str", Quote: []string{"\"", "'"}[g.int(0, 1)]}
	cnt := g.pick([]int{1, 3, 3, 2, 2, 1, 1})
	for i := 0; i < cnt; i++ {
		switch g.pick([]int{30, 14, 14, 12, 6, 2, 8, 8, 3}) {
		case 7: // single-character escapes
			n.Str = append(n.Str, StrPiece{U: []uint16{8, 9, 10, 11, 12, 13, '"', '\'', '\\'}[g.int(0, 8)], F: FormSingle})
		case 8: // \0
			n.Str = append(n.Str, StrPiece{U: 0, F: FormOctal})
		case 0, 1, 2, 3:
			var pool []uint16
			switch g.pick([]int{30, 14, 14, 12}) {
			case 0:
				pool = strUnitPools[0]
			case 1:
				pool = strUnitPools[1]
			case 2:
				pool = strUnitPools[2]
			default:
				pool = strUnitPools[3]
			}
			n.Str = append(n.Str, StrPiece{U: pool[g.int(0, len(pool)-1)], F: g.strForm()})
		case 4: // surrogate pair, both halves in the same family of forms
			hi := uint16(0xD800 + g.int(0, 0x3ff))
			lo := uint16(0xDC00 + g.int(0, 0x3ff))
			if g.chance(50) {
				n.Str = append(n.Str, StrPiece{U: hi, F: FormRaw}, StrPiece{U: lo, F: FormRaw})
			} else {
				n.Str = append(n.Str, StrPiece{U: hi, F: FormUniLo + g.int(0, 1)}, StrPiece{U: lo, F: FormUniLo + g.int(0, 1)})
			}
		case 5: // lone surrogate
			n.Str = append(n.Str, StrPiece{U: uint16(0xD800 + g.int(0, 0x7ff)), F: FormUniUp})
		case 6: // line continuation
			n.Str = append(n.Str, StrPiece{U: uint16(g.int(0, 4)), F: FormCont})
		}
	}
	return n
}

func (g *G) strForm() int {
	return []int{FormRaw, FormRaw, FormRaw, FormSingle, FormHexLo, FormHexUp, FormUniLo, FormUniUp, FormOctal, FormOctal, FormOctal3, FormIdent}[g.int(0, 11)]
}

// regexPool: pattern bodies that are valid ES5 patterns, valid RegularExpressionLiteral bodies,
// and inside the subset otto's translator to RE2 accepts (no look-ahead, no back-references:
// those are C10's findings). They stress the lexical side: "/" inside classes, escaped "/",
// brackets, a body starting with "=", quotes and comment openers inside the body.
var regexPool = []string{"a", "ab+c", "[/]", "\\/", "[^\\]/]x", "a|b", "(?:x)", "\\d+", "[a-z]*", "=", "=a", "\\[", "x{1,2}", "^$", ".",
	"[/*]", "a\\/\\/b", "\"", "'", "[\"']", "\\\\", "[\\\\/]", "(a)(b)", "[)]", "[(]", "\\(", "a{2}", "[+]", "\\?", "[?+*]",
	"\\u0041", "\\x41", "\\cA", "\\s\\S", "\\w\\W\\b", "a,b", "a;b", "[[]", "[\\]]x"}

var regexFlags = []string{"", "", "g", "i", "m", "gi", "gim", "mg", "ig"}

func (g *G) leaf() *Node {
	w := []int{40, 14, 14, 6, 4, 3, 3, 3}
	if g.cfg.NoRegex {
		w[3] = 0
	}
	switch g.pick(w) {
	case 0:
		return g.identNode("id")
	case 1:
		return &Node{K: "num", Lit: g.numLit()}
	case 2:
		return g.strNode()
	case 3:
		return &Node{K: "regex", Lit: g.from(regexPool), Op: g.from(regexFlags)}
	case 4:
		return &Node{K: "this"}
	case 5:
		return &Node{K: "null"}
	case 6:
		return &Node{K: "true"}
	default:
		return &Node{K: "false"}
	}
}

// target: an expression that may be assigned to (11.13.1, 11.3, 11.4.4-5, 12.6.4).
func (g *G) target(d int) *Node {
	if d <= 0 {
		return g.identNode("id")
	}
	switch g.pick([]int{50, 30, 20}) {
	case 0:
		return g.identNode("id")
	case 1:
		n := &Node{K: "dot", Kids: []*Node{g.expr(d - 1)}}
		g.propName(n)
		return n
	default:
		return &Node{K: "idx", Kids: []*Node{g.expr(d - 1), g.expr(d - 1)}}
	}
}

// Expr generates an expression of depth <= d.
func (g *G) expr(d int) *Node {
	if d <= 0 {
		return g.leaf()
	}
	switch g.pick([]int{22, 24, 8, 4, 7, 6, 3, 6, 4, 6, 5, 3, 4, 3}) {
	case 0:
		return g.leaf()
	case 1:
		return Bin(g.from(BinaryOps), g.expr(d-1), g.expr(d-1))
	case 2:
		op := g.from(UnaryOps)
		if op == "++" || op == "--" {
			return Unary(op, g.target(d-1))
		}
		return Unary(op, g.expr(d-1))
	case 3:
		return Postfix([]string{"++", "--"}[g.int(0, 1)], g.target(d-1))
	case 4:
		return Assign(g.from(AssignOps), g.target(d-1), g.expr(d-1))
	case 5:
		return Cond(g.expr(d-1), g.expr(d-1), g.expr(d-1))
	case 6:
		n := &Node{K: "seq"}
		for i, c := 0, g.int(2, 3); i < c; i++ {
			n.Kids = append(n.Kids, g.expr(d-1))
		}
		return n
	case 7:
		n := &Node{K: "dot", Kids: []*Node{g.expr(d - 1)}}
		g.propName(n)
		return n
	case 8:
		return &Node{K: "idx", Kids: []*Node{g.expr(d - 1), g.expr(d - 1)}}
	case 9:
		n := &Node{K: "call", Kids: []*Node{g.expr(d - 1)}}
		for i, c := 0, g.pick([]int{4, 4, 2, 1}); i < c; i++ {
			n.Kids = append(n.Kids, g.expr(d-1))
		}
		return n
	case 10:
		n := &Node{K: "new", Kids: []*Node{nil}}
		if g.chance(40) {
			n.Kids[0] = g.memberChain(d - 1)
		} else {
			n.Kids[0] = g.expr(d - 1)
		}
		if g.chance(40) {
			n.NoArgs = true
		} else {
			for i, c := 0, g.pick([]int{4, 4, 2}); i < c; i++ {
				n.Kids = append(n.Kids, g.expr(d-1))
			}
		}
		return n
	case 11:
		n := &Node{K: "arr"}
		for i, c := 0, g.pick([]int{2, 3, 3, 2, 1}); i < c; i++ {
			if g.chance(25) {
				n.Kids = append(n.Kids, nil)
			} else {
				n.Kids = append(n.Kids, g.expr(d-1))
			}
		}
		return n
	case 12:
		return g.object(d)
	default:
		return g.funcNode("func", d-1, g.chance(40))
	}
}

// memberChain builds a MemberExpression-shaped callee for "new": a base followed by property
// accessors whose bracketed parts (index expressions, array / object literal elements, function
// bodies, arguments of an inner new) hold full expressions - calls above all, since inside
// brackets every restriction of the enclosing position is lifted again.
func (g *G) memberChain(d int) *Node {
	if d < 1 {
		d = 1
	}
	inner := func() *Node { // a full expression that is or contains a call
		c := &Node{K: "call", Kids: []*Node{g.expr(d - 1)}}
		for i, k := 0, g.pick([]int{3, 3, 1}); i < k; i++ {
			c.Kids = append(c.Kids, g.expr(d-1))
		}
		switch g.pick([]int{5, 2, 1, 1, 1, 1}) {
		case 1:
			return Bin(g.from(BinaryOps), c, g.expr(d-1))
		case 2:
			return Cond(g.expr(d-1), c, g.expr(d-1))
		case 3:
			return &Node{K: "seq", Kids: []*Node{g.expr(d - 1), c}}
		case 4:
			return &Node{K: "call", Kids: []*Node{c}}
		case 5:
			return Unary("!", c)
		}
		return c
	}
	var base *Node
	switch g.pick([]int{5, 1, 2, 2, 1, 2}) {
	case 0:
		base = g.identNode("id")
	case 1:
		base = &Node{K: "this"}
	case 2:
		base = &Node{K: "arr", Kids: []*Node{inner()}}
	case 3:
		base = &Node{K: "obj", Kids: []*Node{{K: "prop", Op: "init", Kids: []*Node{g.key(), inner()}}}}
	case 4:
		base = &Node{K: "func", Kids: []*Node{ExprStmt(inner())}}
	default:
		base = &Node{K: "new", Kids: []*Node{g.identNode("id"), inner()}}
	}
	for i, k := 0, g.int(1, 3); i < k; i++ {
		if g.chance(35) {
			n := &Node{K: "dot", Kids: []*Node{base}}
			g.propName(n)
			base = n
		} else if g.chance(75) {
			base = &Node{K: "idx", Kids: []*Node{base, inner()}}
		} else {
			base = &Node{K: "idx", Kids: []*Node{base, g.expr(d - 1)}}
		}
	}
	return base
}

func (g *G) key() *Node {
	switch g.pick([]int{50, 25, 25}) {
	case 0:
		n := &Node{K: "id"}
		if g.chance(25) {
			n.Name = []string{"get", "set"}[g.int(0, 1)]
		} else {
			g.propName(n)
		}
		return n
	case 1:
		return g.strNode()
	default:
		return &Node{K: "num", Lit: g.numLit()}
	}
}

func (g *G) object(d int) *Node {
	n := &Node{K: "obj"}
	for i, c := 0, g.pick([]int{2, 4, 3, 2}); i < c; i++ {
		var p *Node
		switch g.pick([]int{60, 20, 20}) {
		case 0:
			p = &Node{K: "prop", Op: "init", Kids: []*Node{g.key(), g.expr(d - 1)}}
		case 1:
			f := g.funcNode("func", d-1, false)
			f.Params = nil
			p = &Node{K: "prop", Op: "get", Kids: []*Node{g.key(), f}}
		default:
			f := g.funcNode("func", d-1, false)
			f.Params = []string{g.from(identPool)}
			p = &Node{K: "prop", Op: "set", Kids: []*Node{g.key(), f}}
		}
		n.Kids = append(n.Kids, p)
		if !PropsOK(n) {
			n.Kids = n.Kids[:len(n.Kids)-1]
		}
	}
	return n
}

// PropsOK checks the early errors of 11.1.5 for an object literal: a name must not be defined
// both as data property and as accessor, nor by two getters or by two setters (duplicate data
// properties are fine in non-strict code).
func PropsOK(obj *Node) bool {
	seen := map[string]map[string]int{}
	for _, p := range obj.Kids {
		name := string(utf16Runes(KeyUnits(p.Kids[0], DumpOpts{})))
		if seen[name] == nil {
			seen[name] = map[string]int{}
		}
		seen[name][p.Op]++
		k := seen[name]
		if (k["init"] > 0 && k["get"]+k["set"] > 0) || k["get"] > 1 || k["set"] > 1 {
			return false
		}
	}
	return true
}

func utf16Runes(u []uint16) []rune {
	out := make([]rune, len(u))
	for i, c := range u {
		out[i] = rune(c)
	}
	return out
}

func (g *G) funcNode(kind string, d int, named bool) *Node {
	n := &Node{K: kind}
	if named || kind == "funcdecl" {
		id := g.identNode("id")
		n.Name, n.Spell = id.Name, id.Spell
	}
	for i, c := 0, g.pick([]int{4, 3, 2, 1}); i < c; i++ {
		n.Params = append(n.Params, g.from(identPool))
	}
	n.Kids = g.sourceElements(d, gctx{inFunc: true}, g.pick([]int{3, 4, 3, 1}))
	return n
}

// sourceElements: statements and (only here) function declarations.
func (g *G) sourceElements(d int, c gctx, count int) []*Node {
	var out []*Node
	for i := 0; i < count; i++ {
		if d > 0 && g.chance(7) {
			out = append(out, g.funcNode("funcdecl", d-1, true))
		} else {
			out = append(out, g.stmt(d, c))
		}
	}
	return out
}

func (g *G) block(d int, c gctx) *Node {
	n := &Node{K: "block"}
	if d <= 0 {
		return n
	}
	for i, cnt := 0, g.pick([]int{3, 4, 3, 1}); i < cnt; i++ {
		n.Kids = append(n.Kids, g.stmt(d-1, c))
	}
	return n
}

// EndsWithOpenIf: would an "else" following s attach to an if inside s?
func EndsWithOpenIf(s *Node) bool {
	if s == nil {
		return false
	}
	switch s.K {
	case "if":
		if kid(s, 2) == nil {
			return true
		}
		return EndsWithOpenIf(s.Kids[2])
	case "label":
		return EndsWithOpenIf(s.Kids[0])
	case "while", "with":
		return EndsWithOpenIf(s.Kids[1])
	case "for":
		return EndsWithOpenIf(s.Kids[3])
	case "forin":
		return EndsWithOpenIf(s.Kids[2])
	}
	return false
}

func (g *G) varNode(d int, max int) *Node {
	v := &Node{K: "var"}
	for i, c := 0, g.int(1, max); i < c; i++ {
		id := g.identNode("decl")
		id.Kids = []*Node{nil}
		if g.chance(60) {
			id.Kids[0] = g.expr(d)
		}
		v.Kids = append(v.Kids, id)
	}
	return v
}

func (g *G) freshLabel(c gctx) string {
	for tries := 0; tries < 20; tries++ {
		name := g.from(labelPool)
		dup := false
		for _, l := range c.labels {
			if l.name == name {
				dup = true
			}
		}
		if !dup {
			return name
		}
	}
	return fmt.Sprintf("L%d", len(c.labels))
}

// branchy: a loop body that ends in a break / continue, labelled when a label is in reach.
func (g *G) branchy(d int, c gctx) *Node {
	b := &Node{K: "block"}
	if d > 1 && g.chance(60) {
		b.Kids = append(b.Kids, g.stmt(d-2, c))
	}
	br := &Node{K: []string{"break", "continue"}[g.int(0, 1)]}
	var names []string
	for _, l := range c.labels {
		if l.iter || br.K == "break" {
			names = append(names, l.name)
		}
	}
	if len(names) > 0 && g.chance(70) {
		br.Name = g.from(names)
	}
	if g.chance(50) {
		b.Kids = append(b.Kids, &Node{K: "if", Kids: []*Node{g.expr(1), br, nil}})
	} else {
		b.Kids = append(b.Kids, br)
	}
	return b
}

func (g *G) loop(d int, c gctx) *Node {
	n := g.loop0(d, c)
	if g.chance(25) {
		body := c.with(func(n *gctx) { n.inIter = true })
		n.Kids[len(n.Kids)-1+map[string]int{"dowhile": -1}[n.K]] = g.branchy(d, body)
	}
	return n
}

func (g *G) loop0(d int, c gctx) *Node {
	body := c.with(func(n *gctx) { n.inIter = true })
	switch g.pick([]int{3, 3, 3, 3}) {
	case 0:
		return &Node{K: "while", Kids: []*Node{g.expr(d - 1), g.stmt(d-1, body)}}
	case 1:
		return &Node{K: "dowhile", Kids: []*Node{g.stmt(d-1, body), g.expr(d - 1)}}
	case 2:
		n := &Node{K: "for", Kids: []*Node{nil, nil, nil, nil}}
		switch g.pick([]int{2, 4, 4}) {
		case 1:
			n.Kids[0] = g.exprMaybeIn(d - 1)
		case 2:
			v := g.varNode(d-1, 2)
			if g.chance(50) {
				v.Kids[0].Kids[0] = g.exprMaybeIn(d - 1)
				if v.Kids[0].Kids[0].K == "seq" {
					v.Kids[0].Kids[0] = v.Kids[0].Kids[0].Kids[0]
				}
			}
			n.Kids[0] = v
		}
		if g.chance(70) {
			n.Kids[1] = g.expr(d - 1)
		}
		if g.chance(70) {
			n.Kids[2] = g.expr(d - 1)
		}
		n.Kids[3] = g.stmt(d-1, body)
		return n
	default:
		n := &Node{K: "forin", Kids: []*Node{nil, nil, nil}}
		if g.chance(50) {
			v := g.varNode(d-1, 1)
			switch g.pick([]int{5, 3, 2}) {
			case 0:
				v.Kids[0].Kids[0] = nil
			case 2:
				v.Kids[0].Kids[0] = g.exprMaybeIn(d - 1)
				if v.Kids[0].Kids[0].K == "seq" {
					v.Kids[0].Kids[0] = v.Kids[0].Kids[0].Kids[0]
				}
			}
			n.Kids[0] = v
		} else {
			n.Kids[0] = g.target(d - 1)
		}
		n.Kids[1] = g.expr(d - 1)
		n.Kids[2] = g.stmt(d-1, body)
		return n
	}
}

// exprMaybeIn: an expression that uses the "in" operator in one of the positions that matter for
// the NoIn grammar (top level, under other operators, in the three operands of ?:, under
// assignment and comma, inside brackets).
func (g *G) exprMaybeIn(d int) *Node {
	if d < 1 {
		d = 1
	}
	in := Bin("in", g.expr(d-1), g.expr(d-1))
	switch g.pick([]int{3, 3, 3, 2, 2, 2, 2, 2, 2, 3}) {
	case 0:
		return in
	case 1:
		return Bin(g.from(BinaryOps), in, g.expr(d-1))
	case 2:
		return Bin(g.from(BinaryOps), g.expr(d-1), in)
	case 3:
		return Cond(in, g.expr(d-1), g.expr(d-1))
	case 4:
		return Cond(g.expr(d-1), in, g.expr(d-1))
	case 5:
		return Cond(g.expr(d-1), g.expr(d-1), in)
	case 6:
		return Assign(g.from(AssignOps), g.target(d-1), in)
	case 7:
		return &Node{K: "seq", Kids: []*Node{g.expr(d - 1), in}}
	case 8:
		return &Node{K: "idx", Kids: []*Node{g.expr(d - 1), in}}
	default:
		return g.expr(d)
	}
}

// stmt generates a Statement (never a function declaration) of depth <= d.
func (g *G) stmt(d int, c gctx) *Node {
	if d <= 0 {
		switch g.pick([]int{6, 1, 1}) {
		case 0:
			return ExprStmt(g.expr(0))
		case 1:
			return &Node{K: "empty"}
		default:
			return &Node{K: "debugger"}
		}
	}
	canBreak := c.inIter || c.inSwitch
	iterLabels, anyLabels := []string{}, []string{}
	for _, l := range c.labels {
		anyLabels = append(anyLabels, l.name)
		if l.iter {
			iterLabels = append(iterLabels, l.name)
		}
	}
	w := []int{24, 10, 9, 12, 5, 5, 0, 0, 0, 3, 5, 5, 6, 2, 1, 2}
	if c.inFunc {
		w[6] = 12
	}
	if canBreak || len(anyLabels) > 0 {
		w[7] = 14
	}
	if c.inIter {
		w[8] = 12
	}
	switch g.pick(w) {
	case 0:
		if g.chance(8) {
			return ExprStmt(Unary([]string{"++", "--"}[g.int(0, 1)], g.target(d-1)))
		}
		return ExprStmt(g.expr(d - 1))
	case 1:
		return g.varNode(d-1, 3)
	case 2:
		n := &Node{K: "if", Kids: []*Node{g.expr(d - 1), g.stmt(d-1, c), nil}}
		if g.chance(15) && d > 1 {
			// the classic: the else belongs to the inner if
			n.Kids[1] = &Node{K: "if", Kids: []*Node{g.expr(d - 2), g.stmt(d-2, c), g.stmt(d-2, c)}}
			if EndsWithOpenIf(n.Kids[1].Kids[1]) {
				n.Kids[1].Kids[1] = &Node{K: "block", Kids: []*Node{n.Kids[1].Kids[1]}}
			}
			return n
		}
		if g.chance(50) {
			n.Kids[2] = g.stmt(d-1, c)
			if EndsWithOpenIf(n.Kids[1]) {
				n.Kids[1] = &Node{K: "block", Kids: []*Node{n.Kids[1]}}
			}
		}
		return n
	case 3:
		return g.loop(d, c)
	case 4:
		return g.block(d, c)
	case 5: // labelled statement(s)
		names := []string{g.freshLabel(c)}
		inner := c.with(func(n *gctx) { n.labels = append(n.labels, glabel{name: names[0]}) })
		if g.chance(20) {
			names = append(names, g.freshLabel(inner))
		}
		isLoop := g.chance(65)
		inner = c.with(func(n *gctx) {
			for _, nm := range names {
				n.labels = append(n.labels, glabel{name: nm, iter: isLoop})
			}
		})
		var body *Node
		if isLoop {
			body = g.loop(d, inner)
		} else {
			switch g.pick([]int{3, 2, 1}) {
			case 0:
				body = g.block(d, inner)
			case 1:
				body = &Node{K: "if", Kids: []*Node{g.expr(d - 1), g.stmt(d-1, inner), nil}}
			default:
				body = g.stmt(d-1, inner)
				if body.K == "while" || body.K == "dowhile" || body.K == "for" || body.K == "forin" || body.K == "label" {
					// the labels were announced as non-iteration labels; keep that true
					body = &Node{K: "block", Kids: []*Node{body}}
				}
			}
		}
		for i := len(names) - 1; i >= 0; i-- {
			body = Label(names[i], body)
		}
		return body
	case 6:
		n := &Node{K: "return", Kids: []*Node{nil}}
		if g.chance(70) {
			n.Kids[0] = g.expr(d - 1)
		}
		return n
	case 7:
		n := &Node{K: "break"}
		if len(anyLabels) > 0 && (!canBreak || g.chance(50)) {
			n.Name = g.from(anyLabels)
		}
		return n
	case 8:
		n := &Node{K: "continue"}
		if len(iterLabels) > 0 && g.chance(50) {
			n.Name = g.from(iterLabels)
		}
		return n
	case 9:
		return &Node{K: "throw", Kids: []*Node{g.expr(d - 1)}}
	case 10:
		n := &Node{K: "try", Kids: []*Node{g.block(d-1, c), nil, nil}}
		k := g.int(0, 2)
		if k != 1 {
			id := g.identNode("id")
			n.Name, n.Spell = id.Name, id.Spell
			n.Kids[1] = g.block(d-1, c)
		}
		if k != 0 {
			n.Kids[2] = g.block(d-1, c)
		}
		return n
	case 11:
		n := &Node{K: "switch", Kids: []*Node{g.expr(d - 1)}}
		cnt := g.pick([]int{1, 3, 3, 2}) // number of clauses
		def := -1
		if cnt > 0 && g.chance(60) {
			def = g.int(0, cnt-1)
		}
		inner := c.with(func(n *gctx) { n.inSwitch = true })
		for i := 0; i < cnt; i++ {
			cs := &Node{K: "case", Kids: []*Node{nil}}
			if i != def {
				cs.Kids[0] = g.expr(d - 1)
			}
			for j, k := 0, g.pick([]int{3, 4, 2}); j < k; j++ {
				cs.Kids = append(cs.Kids, g.stmt(d-1, inner))
			}
			n.Kids = append(n.Kids, cs)
		}
		return n
	case 12:
		return &Node{K: "with", Kids: []*Node{g.expr(d - 1), g.stmt(d-1, c)}}
	case 13:
		return &Node{K: "debugger"}
	case 14:
		return &Node{K: "empty"}
	default:
		return ExprStmt(g.strNode()) // directive-like statement
	}
}

// GenProgram draws a well-formed program.
func GenProgram(t *rapid.T, cfg GenCfg) *Node {
	if cfg.MaxDepth <= 0 || cfg.MaxDepth > 6 {
		cfg.MaxDepth = 6
	}
	g := &G{t: t, cfg: cfg}
	d := g.int(1, cfg.MaxDepth-1)
	if g.chance(35) {
		// expression-centred program
		p := &Node{K: "program"}
		for i, c := 0, g.int(1, 2); i < c; i++ {
			p.Kids = append(p.Kids, ExprStmt(g.expr(d)))
		}
		return p
	}
	return &Node{K: "program", Kids: g.sourceElements(d, gctx{}, g.int(1, 4))}
}

// GenExpr draws one expression of depth <= d (for callers that build their own statements).
func GenExpr(t *rapid.T, cfg GenCfg, d int) *Node {
	g := &G{t: t, cfg: cfg}
	return g.expr(d)
}

// GenLiteral draws a number, string or regular expression literal node.
func GenLiteral(t *rapid.T, cfg GenCfg) *Node {
	g := &G{t: t, cfg: cfg}
	switch g.pick([]int{45, 45, 10}) {
	case 0:
		return &Node{K: "num", Lit: g.numLit()}
	case 1:
		return g.strNode()
	default:
		return &Node{K: "regex", Lit: g.from(regexPool), Op: g.from(regexFlags)}
	}
}

// GenKey draws a property key node (IdentifierName, string or numeric literal).
func GenKey(t *rapid.T, cfg GenCfg) *Node {
	g := &G{t: t, cfg: cfg}
	return g.key()
}

// RegexBodies returns the pool of regular expression bodies (for enumerations).
func RegexBodies() []string { return append([]string(nil), regexPool...) }
