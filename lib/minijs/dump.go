package minijs

import (
	"fmt"
	"math"
	"strconv"
	"strings"

	"verif/lib/es5"
)

// DumpOpts selects what the canonical dump shows.
type DumpOpts struct {
	// NumKeySpelling: numeric property keys are shown by their source spelling instead of
	// ToString(value) (comparison modulo otto finding A17).
	NumKeySpelling bool
	// SurrogateFFFD: code units of string literals that are written as escaped surrogates are shown
	// as U+FFFD (comparison modulo the UTF-8 string store: lone surrogates; escaped pairs while that
	// finding stands). PairsOnlyLone restricts this to lone surrogates.
	SurrogateFFFD bool
	PairsOnlyLone bool
	// ContLSUnit: a line continuation written with U+2028 / U+2029 contributes that character
	// (comparison modulo a known finding).
	ContLSUnit bool
	// NumDistort: when it returns ok, its value replaces the model value of a numeric literal
	// (comparison modulo a known finding about that literal form).
	NumDistort func(lit string) (float64, bool)
	// Decls: include the hoisted declaration lists of programs and functions.
	Decls bool
	// Plain: names, patterns and flags as code-unit lists and numbers as IEEE bit patterns, and no
	// distinction between "new X" and "new X()" - a form that a second, foreign parser's output can
	// be brought to easily (development-time cross-checks of the renderer).
	Plain bool
	// Spelling: include the source spelling of numeric and string literals (expected: what the
	// renderer wrote; observed: the Literal field the parser recorded).
	Spelling bool
}

func numRepr(x float64) string {
	switch {
	case math.IsNaN(x):
		return "NaN"
	case x == 0 && math.Signbit(x):
		return "-0"
	}
	return strconv.FormatFloat(x, 'g', -1, 64)
}

// NumRepr is the canonical text of a double used in dumps (same as harness.NumRepr).
func NumRepr(x float64) string { return numRepr(x) }

func unitsText(u []uint16) string {
	var b strings.Builder
	for i, c := range u {
		if i > 0 {
			b.WriteByte(' ')
		}
		if c >= 0x21 && c < 0x7f && c != '"' && c != '(' && c != ')' {
			b.WriteByte('\'')
			b.WriteByte(byte(c))
		} else {
			fmt.Fprintf(&b, "%04X", c)
		}
	}
	return b.String()
}

// StrUnits is the string value a str node denotes (with the distortions selected in o).
func StrUnits(n *Node, o DumpOpts) []uint16 {
	info := RenderStr(n)
	u := append([]uint16(nil), info.Units...)
	if o.SurrogateFFFD {
		for i := range u {
			if !info.Escaped[i] || !(isHighSur(u[i]) || isLowSur(u[i])) {
				continue
			}
			if o.PairsOnlyLone {
				// well-formed escaped pairs are kept
				if isHighSur(info.Units[i]) && i+1 < len(u) && isLowSur(info.Units[i+1]) {
					continue
				}
				if isLowSur(info.Units[i]) && i > 0 && isHighSur(info.Units[i-1]) {
					continue
				}
			}
			u[i] = 0xFFFD
		}
	}
	if o.ContLSUnit && info.HasCont {
		var w []uint16
		j := 0
		for _, p := range n.Str {
			switch {
			case p.F != FormCont:
				w = append(w, u[j])
				j++
			case p.U%5 == 3:
				w = append(w, 0x2028)
			case p.U%5 == 4:
				w = append(w, 0x2029)
			}
		}
		return w
	}
	return u
}

func utf16Of(s string) []uint16 {
	var out []uint16
	for _, r := range s {
		if r >= 0x10000 {
			r -= 0x10000
			out = append(out, uint16(0xD800+(r>>10)), uint16(0xDC00+(r&0x3ff)))
		} else {
			out = append(out, uint16(r))
		}
	}
	return out
}

// KeyUnits is the property name a key node denotes (11.1.5): IdentifierName -> its characters,
// StringLiteral -> its value, NumericLiteral -> ToString(value).
func KeyUnits(k *Node, o DumpOpts) []uint16 {
	switch k.K {
	case "id":
		return utf16Of(k.Name)
	case "str":
		return StrUnits(k, o)
	case "num":
		if o.NumKeySpelling {
			return utf16Of(k.Lit)
		}
		v, err := NumValue(k.Lit)
		if err != nil {
			return utf16Of("!" + err.Error())
		}
		return utf16Of(es5.NumberToString(v))
	}
	return utf16Of("!bad key kind " + k.K)
}

// head is the text of the node without its children.
func head(n *Node, o DumpOpts) string {
	if o.Plain {
		nm := func(s string) string { return "[" + unitsText(utf16Of(s)) + "]" }
		switch n.K {
		case "id", "dot", "label", "decl", "continue", "break":
			return n.K + " " + nm(n.Name)
		case "try":
			if kid(n, 1) != nil {
				return "try catch:" + nm(n.Name)
			}
			return "try"
		case "num":
			v, err := NumValue(n.Lit)
			if err != nil {
				return "num !" + err.Error()
			}
			return fmt.Sprintf("num %016x", math.Float64bits(v))
		case "regex":
			return "regex " + nm(n.Lit) + " " + nm(n.Op)
		case "func", "funcdecl":
			ps := make([]string, len(n.Params))
			for i, p := range n.Params {
				ps[i] = nm(p)
			}
			return n.K + " " + nm(n.Name) + " (" + strings.Join(ps, ",") + ")"
		case "new":
			return "new"
		}
	}
	switch n.K {
	case "id", "dot", "label", "decl", "continue", "break":
		return n.K + " " + strconv.Quote(n.Name)
	case "try":
		if kid(n, 1) != nil {
			return "try catch:" + strconv.Quote(n.Name)
		}
		return "try"
	case "num":
		sp := ""
		if o.Spelling {
			sp = " " + n.Lit
		}
		if n.Val != "" {
			return "num " + n.Val + sp
		}
		v, err := NumValue(n.Lit)
		if err != nil {
			return "num !" + err.Error()
		}
		if o.NumDistort != nil {
			if d, ok := o.NumDistort(n.Lit); ok {
				v = d
			}
		}
		return "num " + numRepr(v) + sp
	case "str":
		sp := ""
		if o.Spelling {
			if n.Lit != "" {
				sp = " " + strconv.QuoteToASCII(n.Lit)
			} else {
				sp = " " + strconv.QuoteToASCII(RenderStr(n).Text)
			}
		}
		return "str [" + unitsText(StrUnits(n, o)) + "]" + sp
	case "regex":
		return "regex " + strconv.Quote(n.Lit) + " " + strconv.Quote(n.Op)
	case "func", "funcdecl":
		s := n.K + " " + strconv.Quote(n.Name) + " (" + strings.Join(n.Params, ",") + ")"
		if o.Decls {
			s += " decls[" + strings.Join(DeclsOf(n), ",") + "]"
		}
		return s
	case "program":
		if o.Decls {
			return "program decls[" + strings.Join(DeclsOf(n), ",") + "]"
		}
		return "program"
	case "prop":
		return "prop " + n.Op + " [" + unitsText(KeyUnits(n.Kids[0], o)) + "]"
	case "new":
		if n.NoArgs {
			return "new noargs"
		}
		return "new"
	case "unary", "postfix", "bin", "assign":
		return n.K + " " + n.Op
	}
	return n.K
}

// canonical child counts (absent optional children are nil entries)
var kidCount = map[string]int{"if": 3, "return": 1, "decl": 1, "try": 3, "for": 4}

func dumpKids(n *Node) []*Node {
	if n.K == "prop" {
		return n.Kids[1:]
	}
	if want, ok := kidCount[n.K]; ok && len(n.Kids) < want {
		k := append([]*Node(nil), n.Kids...)
		for len(k) < want {
			k = append(k, nil)
		}
		return k
	}
	return n.Kids
}

// Dump writes the canonical S-expression of a tree.
func Dump(n *Node, o DumpOpts) string {
	var b strings.Builder
	dump(&b, n, o)
	return b.String()
}

func dump(b *strings.Builder, n *Node, o DumpOpts) {
	if n == nil {
		b.WriteString("_")
		return
	}
	b.WriteByte('(')
	b.WriteString(head(n, o))
	for _, k := range dumpKids(n) {
		b.WriteByte(' ')
		dump(b, k, o)
	}
	b.WriteByte(')')
}

// Diff compares two trees by their dumps and describes the first (outermost, leftmost) node at
// which they differ; "" when equal. a is the expected tree, b the observed one.
func Diff(a, b *Node, o DumpOpts) string {
	return diff(a, b, o, "")
}

func short(s string) string {
	if len(s) > 300 {
		return s[:300] + "…"
	}
	return s
}

func diff(a, b *Node, o DumpOpts, path string) string {
	if a == nil || b == nil {
		if a == nil && b == nil {
			return ""
		}
		return fmt.Sprintf("at %s: expected %s, got %s", path, short(Dump(a, o)), short(Dump(b, o)))
	}
	ha, hb := head(a, o), head(b, o)
	ka, kb := dumpKids(a), dumpKids(b)
	if ha != hb || len(ka) != len(kb) {
		return fmt.Sprintf("at %s: expected %s, got %s", path, short(Dump(a, o)), short(Dump(b, o)))
	}
	for i := range ka {
		if d := diff(ka[i], kb[i], o, fmt.Sprintf("%s/%s[%d]", path, a.K, i)); d != "" {
			return d
		}
	}
	return ""
}

// DeclsOf lists what ES5 10.5 hoists in the scope of a program / function node, in source order:
// "var x" for every VariableDeclaration (also in for / for-in heads, nested blocks ...) and
// "func f" for every FunctionDeclaration; nested functions are separate scopes. Converted trees
// carry the list their parser recorded.
func DeclsOf(n *Node) []string {
	if n.HasDecls {
		return n.Decls
	}
	var out []string
	var visit func(*Node)
	visit = func(x *Node) {
		if x == nil {
			return
		}
		switch x.K {
		case "func":
			return
		case "funcdecl":
			out = append(out, "func "+x.Name)
			return
		case "decl":
			out = append(out, "var "+x.Name)
		}
		for _, k := range x.Kids {
			visit(k)
		}
	}
	for _, k := range n.Kids {
		visit(k)
	}
	return out
}
