package minijs

import (
	"strings"
	"unicode/utf8"
)

// Rendering step 2: syntactic tokens -> text. Layout inserts the separators the lexical grammar
// needs (so that adjacent tokens are not read as one), optionally random trivia (white space,
// comments, line terminators) and optionally replaces statement-terminating semicolons by a
// line terminator where ES5 7.9.1 guarantees automatic semicolon insertion, and computes the
// position of every token.

var punctuators = func() map[string]bool {
	m := map[string]bool{}
	for _, p := range strings.Fields("{ } ( ) [ ] . ; , < > <= >= == != === !== + - * % ++ -- << >> >>> & | ^ ! ~ && || ? : = += -= *= %= <<= >>= >>>= &= |= ^= / /=") {
		m[p] = true
	}
	return m
}()

func isIdentChar(r rune) bool {
	return r == '$' || r == '_' || r == '\\' || r >= '0' && r <= '9' || r >= 'a' && r <= 'z' || r >= 'A' && r <= 'Z' || r >= 0x80
}

func wordLike(k TokKind) bool { return k == TKeyword || k == TIdent || k == TNum || k == TRegex }

// NeedSep reports whether tokens a and b, written without anything between them, would be read
// differently by the ES5 lexical grammar (longest match), so that white space is required.
func NeedSep(a, b Token) bool {
	if a.Text == "" || b.Text == "" {
		return false
	}
	bf, _ := utf8.DecodeRuneInString(b.Text)
	if wordLike(a.Kind) && isIdentChar(bf) {
		// identifier/keyword/number/regexp-flags run into an identifier part, or a number is directly
		// followed by an IdentifierStart or DecimalDigit (forbidden by 7.8.3)
		return true
	}
	if a.Kind == TNum && bf == '.' {
		// "1" + ".x" would read "1." "x": only a decimal integer literal absorbs the dot; stay
		// conservative for legacy octal spellings as well
		if NumIsPlainDecimalInteger(a.Text) {
			return true
		}
		return false
	}
	if a.Kind == TPunct {
		two := a.Text + string(bf)
		if punctuators[two] || two == "//" || two == "/*" {
			return true
		}
		if a.Text == "<" && bf == '!' {
			return true // "<!--" is a comment to web engines (outside ES5); avoided for clarity
		}
		if b.Kind == TNum && a.Text == "." {
			return true
		}
	}
	return false
}

// LayoutOpts controls Layout.
type LayoutOpts struct {
	// Trivia: choice stream for random white space / comments / line terminators and for
	// dropping semicolons. Empty = canonical minimal text (single spaces only where required).
	Trivia []byte
	// NoCommentLT: never rely on a line terminator inside a multi-line comment for ASI, and do not
	// put such comments where a line terminator matters (steering around a known finding).
	NoCommentLT bool
	// NoASI: keep every semicolon.
	NoASI bool
	// KeepSemi: veto on dropping the ASI-eligible semicolon that stands between prev and next
	// (next == nil at the end of input). Used to steer around known findings.
	KeepSemi func(prev Token, next *Token) bool
	// NoLTBeforeSemi: no line terminator in front of a kept statement-terminating semicolon of
	// the listed statement kinds (Token.SemiOf).
	NoLTBeforeSemi map[string]bool
	// ForceASI: deterministic mode for enumerations (Trivia must be empty): every statement
	// terminator that 7.9.1 lets go is dropped - before "}" and at the end of input without anything,
	// otherwise replaced by exactly this text, which must be a line terminator sequence, a
	// multi-line comment containing one ("/*\n*/") or a single-line comment ("//c", closed by LF).
	ForceASI string
	// AvoidCRxLF: a lone CR line terminator followed by exactly one byte and then LF is written
	// as LF instead (steering around a known finding).
	AvoidCRxLF bool
}

// ES5 WhiteSpace (7.2): TAB VT FF SP NBSP BOM and other Zs (U+180E is kept out, DESIGN appendix B).
var wsChars = []string{" ", " ", " ", "\t", "\v", "\f", "\u00a0", "\ufeff", "\u2003", "\u3000", "\u1680", "\u202f", "\u205f", "  "}

// ES5 LineTerminatorSequence (7.3).
var ltSeqs = []string{"\n", "\n", "\r", "\r\n", "\u2028", "\u2029"}
var commentBodies = []string{"", " c ", "*", "/", "// x", "/* y", "'", "\"", "a+b;", "é中", " * / ", "}{)(", "\\", "return", "<!--", "-->"}

// asiHazard: may a statement-terminating semicolon in front of token b be replaced by a line
// terminator? Not if b could continue the previous statement: "(" "[" "+" "-" and "/" (division
// or the start of a regular expression literal, which would be read as division).
// "++"/"--" are fine: the restricted production for postfix operators ends the statement first.
func asiHazard(b Token) bool {
	if b.Kind == TRegex {
		return true
	}
	if b.Kind == TPunct {
		switch b.Text {
		case "(", "[", "+", "-", "/", "/=":
			return true
		case ";":
			// an empty statement follows: its ";" would be taken as the terminator itself
			return true
		}
	}
	return false
}

// Layout produces the final token list (with trivia tokens and positions). The input slice is
// not modified.
func Layout(syn []Token, opt LayoutOpts) []Token {
	var ch *Choices
	if len(opt.Trivia) > 0 {
		ch = &Choices{B: opt.Trivia}
	}
	var out []Token
	var prev Token // previous syntactic token present in the text
	havePrev := false
	forced := false                   // ForceASI just wrote the separating line terminator
	needLT := false                   // the previous semicolon was dropped and only a line terminator stands for it
	emitTrivia := func(next *Token) { // next == nil: end of input
		ltOK := next == nil || !next.NoLTBefore
		if next != nil && next.Semi && opt.NoLTBeforeSemi[next.SemiOf] {
			ltOK = false
		}
		var items []Token
		realLT, commentLT := false, false
		if ch != nil {
			n := 0
			switch b := ch.Next(); {
			case b%4 == 0:
				n = 0
			case b%4 == 1:
				n = 1
			case b%16 < 12:
				n = 2
			default:
				n = 4
			}
			for i := 0; i < n; i++ {
				b := ch.Next()
				sel := ch.Next()
				switch k := b % 10; {
				case k <= 3:
					items = append(items, Token{Kind: TWS, Text: wsChars[int(sel)%len(wsChars)]})
				case k == 4:
					body := strings.ReplaceAll(commentBodies[int(sel)%len(commentBodies)], "*/", "* /")
					items = append(items, Token{Kind: TComment, Text: "/*" + body + "*/"})
				case k <= 6 && ltOK:
					items = append(items, Token{Kind: TLT, Text: ltSeqs[int(sel)%len(ltSeqs)]})
					realLT = true
				case k == 7 && ltOK:
					body := commentBodies[int(sel)%len(commentBodies)]
					items = append(items, Token{Kind: TComment, Text: "//" + body})
					// a single-line comment is closed by a line terminator (optional only at the very end)
					if next != nil || sel%2 == 0 || i < n-1 {
						items = append(items, Token{Kind: TLT, Text: ltSeqs[int(sel/16)%len(ltSeqs)]})
						realLT = true
					}
				case k == 8 && ltOK:
					body := strings.ReplaceAll(commentBodies[int(sel)%len(commentBodies)], "*/", "* /")
					items = append(items, Token{Kind: TComment, Text: "/*" + body + ltSeqs[int(sel/16)%len(ltSeqs)] + body + "*/"})
					commentLT = true
				default:
					items = append(items, Token{Kind: TWS, Text: " "})
				}
			}
		}
		if needLT && !realLT && (opt.NoCommentLT || !commentLT) {
			// ASI needs a LineTerminator between the two tokens; a multi-line comment containing one
			// counts (7.4) unless the caller steers around otto's handling of exactly that
			items = append(items, Token{Kind: TLT, Text: "\n"})
		}
		if havePrev && len(items) > 0 && items[0].Kind == TComment && prev.Kind == TPunct && strings.HasSuffix(prev.Text, "/") {
			items = append([]Token{{Kind: TWS, Text: " "}}, items...) // "/" + "/*" would open a line comment
		}
		if forced {
			forced = false // the forced line terminator already separates the two tokens
		} else if havePrev && next != nil && len(items) == 0 && NeedSep(prev, *next) {
			items = append(items, Token{Kind: TWS, Text: " "})
		}
		out = append(out, items...)
		needLT = false
	}

	for i := range syn {
		t := syn[i]
		if t.Semi && ch == nil && opt.ForceASI != "" {
			var nb *Token
			if i+1 < len(syn) {
				nb = &syn[i+1]
			}
			bare := nb == nil || (nb.Kind == TPunct && nb.Text == "}")
			viaLT := nb != nil && !asiHazard(*nb) && !nb.NoLTBefore
			if opt.KeepSemi != nil && havePrev && opt.KeepSemi(prev, nb) {
				bare, viaLT = false, false
			}
			if bare || viaLT {
				t.Omitted = true
				t.Text = ""
				out = append(out, t)
				if !bare {
					switch {
					case strings.HasPrefix(opt.ForceASI, "//"):
						out = append(out, Token{Kind: TComment, Text: opt.ForceASI}, Token{Kind: TLT, Text: "\n"})
					case strings.HasPrefix(opt.ForceASI, "/*"):
						if havePrev && prev.Kind == TPunct && strings.HasSuffix(prev.Text, "/") {
							out = append(out, Token{Kind: TWS, Text: " "})
						}
						out = append(out, Token{Kind: TComment, Text: opt.ForceASI})
					default:
						out = append(out, Token{Kind: TLT, Text: opt.ForceASI})
					}
					forced = true
				}
				continue
			}
		}
		if t.Semi && ch != nil && !opt.NoASI {
			var nb *Token
			if i+1 < len(syn) {
				nb = &syn[i+1]
			}
			bare := nb == nil || (nb.Kind == TPunct && nb.Text == "}") // 7.9.1: offending token "}" or end of input
			viaLT := nb != nil && !asiHazard(*nb) && !nb.NoLTBefore    // 7.9.1: offending token after a LineTerminator
			b := ch.Next()
			if opt.KeepSemi != nil && havePrev && opt.KeepSemi(prev, nb) {
				bare, viaLT = false, false
			}
			if b%3 != 0 && (bare || viaLT) {
				t.Omitted = true
				t.Text = ""
				if !bare || (viaLT && b%2 == 0) {
					needLT = true
				}
				out = append(out, t) // keeps its place in the list, where ASI inserts it
				continue
			}
		}
		emitTrivia(&syn[i])
		out = append(out, t)
		prev, havePrev = t, true
	}
	if ch != nil {
		emitTrivia(nil)
	}
	position(out)
	for opt.AvoidCRxLF {
		// to a fixpoint: rewriting one CR can complete the pattern for an earlier one
		text := Text(out)
		changed := false
		for i := range out {
			t := &out[i]
			if t.Kind == TLT && t.Text == "\r" && t.Off+2 < len(text) && text[t.Off+2] == '\n' {
				t.Text = "\n"
				changed = true
			}
		}
		if !changed {
			break
		}
		position(out)
	}
	return out
}

// HasCRxLF reports a CR that is followed by exactly one byte and then LF.
func HasCRxLF(text string) bool {
	for i := 0; i+2 < len(text); i++ {
		if text[i] == '\r' && text[i+2] == '\n' {
			return true
		}
	}
	return false
}

// position fills Off/Line/Col.
func position(toks []Token) {
	off, line, lineStart := 0, 1, 0
	for i := range toks {
		t := &toks[i]
		t.Off, t.Line, t.Col = off, line, off-lineStart+1
		s := t.Text
		for j := 0; j < len(s); {
			r, sz := utf8.DecodeRuneInString(s[j:])
			switch r {
			case '\r':
				if j+1 < len(s) && s[j+1] == '\n' {
					sz = 2
				}
				line++
				lineStart = off + j + sz
			case '\n', 0x2028, 0x2029:
				line++
				lineStart = off + j + sz
			}
			j += sz
		}
		off += len(s)
	}
}

// Text concatenates the token texts.
func Text(toks []Token) string {
	var b strings.Builder
	for _, t := range toks {
		b.WriteString(t.Text)
	}
	return b.String()
}

// Syntactic filters out trivia and omitted tokens.
func Syntactic(toks []Token) []Token {
	var out []Token
	for _, t := range toks {
		if !t.IsTrivia() && !t.Omitted {
			out = append(out, t)
		}
	}
	return out
}

// Render is the convenience composition used by the checks: tokens of n with the given
// decoration, laid out with the given options.
func Render(n *Node, decor []byte, opt LayoutOpts) ([]Token, string) {
	toks := Layout(Tokens(n, decor), opt)
	return toks, Text(toks)
}
