package minijs

import (
	"fmt"
	"math/big"
	"strings"
	"unicode/utf8"
)

// ---------------------------------------------------------------------------------------------
// Numeric literals (ES5 7.8.3, B.1.1)

// NumValue computes the Number value of a NumericLiteral spelling: the exact mathematical value
// as a rational, rounded once to the nearest double (ties to even), as 7.8.3 demands for
// literals with at most 20 significant digits. Forms: decimal (with optional fraction and
// exponent, leading or trailing dot), 0x/0X hex, legacy octal (a leading 0 followed by octal digits).
func NumValue(lit string) (float64, error) {
	r, err := NumRat(lit)
	if err != nil {
		return 0, err
	}
	f, _ := r.Float64() // nearest, ties to even; overflows to +Inf
	return f, nil
}

// NumRat is the exact mathematical value (MV) of the literal.
func NumRat(lit string) (*big.Rat, error) {
	if lit == "" {
		return nil, fmt.Errorf("empty literal")
	}
	if len(lit) > 2 && lit[0] == '0' && (lit[1] == 'x' || lit[1] == 'X') {
		v := new(big.Int)
		for _, c := range lit[2:] {
			d := hexDigit(c)
			if d < 0 {
				return nil, fmt.Errorf("bad hex digit %q", c)
			}
			v.Mul(v, big.NewInt(16)).Add(v, big.NewInt(int64(d)))
		}
		return new(big.Rat).SetInt(v), nil
	}
	if len(lit) > 1 && lit[0] == '0' && lit[1] >= '0' && lit[1] <= '9' {
		// legacy octal integer literal (B.1.1); 8 and 9 are kept out of the domain
		v := new(big.Int)
		for _, c := range lit[1:] {
			if c < '0' || c > '7' {
				return nil, fmt.Errorf("bad octal digit %q", c)
			}
			v.Mul(v, big.NewInt(8)).Add(v, big.NewInt(int64(c-'0')))
		}
		return new(big.Rat).SetInt(v), nil
	}
	// DecimalLiteral
	mant := lit
	exp := 0
	if i := strings.IndexAny(lit, "eE"); i >= 0 {
		mant = lit[:i]
		e := lit[i+1:]
		neg := false
		if strings.HasPrefix(e, "+") {
			e = e[1:]
		} else if strings.HasPrefix(e, "-") {
			neg = true
			e = e[1:]
		}
		if e == "" {
			return nil, fmt.Errorf("empty exponent")
		}
		for _, c := range e {
			if c < '0' || c > '9' {
				return nil, fmt.Errorf("bad exponent digit %q", c)
			}
			exp = exp*10 + int(c-'0')
			if exp > 100000 {
				return nil, fmt.Errorf("exponent too large for the model")
			}
		}
		if neg {
			exp = -exp
		}
	}
	intPart, frac := mant, ""
	if i := strings.IndexByte(mant, '.'); i >= 0 {
		intPart, frac = mant[:i], mant[i+1:]
	}
	if intPart == "" && frac == "" {
		return nil, fmt.Errorf("no digits")
	}
	v := new(big.Int)
	for _, c := range intPart + frac {
		if c < '0' || c > '9' {
			return nil, fmt.Errorf("bad digit %q", c)
		}
		v.Mul(v, big.NewInt(10)).Add(v, big.NewInt(int64(c-'0')))
	}
	exp -= len(frac)
	r := new(big.Rat).SetInt(v)
	p := new(big.Int).Exp(big.NewInt(10), big.NewInt(int64(abs(exp))), nil)
	if exp >= 0 {
		r.Mul(r, new(big.Rat).SetInt(p))
	} else {
		r.Quo(r, new(big.Rat).SetInt(p))
	}
	return r, nil
}

func abs(x int) int {
	if x < 0 {
		return -x
	}
	return x
}

func hexDigit(c rune) int {
	switch {
	case c >= '0' && c <= '9':
		return int(c - '0')
	case c >= 'a' && c <= 'f':
		return int(c-'a') + 10
	case c >= 'A' && c <= 'F':
		return int(c-'A') + 10
	}
	return -1
}

// NumClass labels the lexical form of a numeric literal (for histograms).
func NumClass(lit string) string {
	switch {
	case len(lit) > 2 && lit[0] == '0' && (lit[1] == 'x' || lit[1] == 'X'):
		return "hex"
	case len(lit) > 1 && lit[0] == '0' && lit[1] >= '0' && lit[1] <= '9':
		return "octal"
	}
	c := "dec"
	if strings.HasPrefix(lit, ".") {
		c += "-leaddot"
	} else if strings.HasSuffix(lit, ".") || strings.Contains(lit, ".e") || strings.Contains(lit, ".E") {
		c += "-traildot"
	} else if strings.Contains(lit, ".") {
		c += "-frac"
	}
	if strings.ContainsAny(lit, "eE") {
		c += "-exp"
	}
	return c
}

// NumIsPlainDecimalInteger: decimal digits only, not legacy octal ("1.x" would absorb the dot).
func NumIsPlainDecimalInteger(lit string) bool {
	if lit == "" {
		return false
	}
	for _, c := range lit {
		if c < '0' || c > '9' {
			return false
		}
	}
	return true
}

// ---------------------------------------------------------------------------------------------
// String literals (ES5 7.8.4, B.1.2)

func isLT(u uint16) bool { return u == 0x0A || u == 0x0D || u == 0x2028 || u == 0x2029 }

func isHighSur(u uint16) bool { return u >= 0xD800 && u < 0xDC00 }
func isLowSur(u uint16) bool  { return u >= 0xDC00 && u < 0xE000 }

var singleEscapes = map[uint16]byte{0x08: 'b', 0x09: 't', 0x0A: 'n', 0x0B: 'v', 0x0C: 'f', 0x0D: 'r', '"': '"', '\'': '\'', '\\': '\\'}

// identityOK: c may be written as \c meaning c (NonEscapeCharacter: not a SingleEscapeCharacter,
// DecimalDigit, x, u or LineTerminator). Surrogates are kept out (a SourceCharacter is a code unit,
// but the source text is UTF-8 here).
func identityOK(u uint16) bool {
	if isLT(u) || isHighSur(u) || isLowSur(u) {
		return false
	}
	switch u {
	case '\'', '"', '\\', 'b', 'f', 'n', 'r', 't', 'v', 'x', 'u':
		return false
	}
	if u >= '0' && u <= '9' {
		return false
	}
	return true
}

// StrInfo describes a rendered string literal.
type StrInfo struct {
	Text       string   // source text including the quotes
	Units      []uint16 // the string value, UTF-16
	Escaped    []bool   // per unit: written with an escape sequence (not raw)
	Forms      []string // distinct form labels used (for histograms)
	HasCont    bool
	HasOctal   bool
	RawAstral  bool
	EscSurPair bool // a well-formed surrogate pair written with escapes
	LoneSur    bool // a lone surrogate (necessarily escaped)
}

// RenderStr renders a str node. Requested forms that cannot denote the unit fall back to \uXXXX
// (or to the raw character when that is always valid), so every (unit, form) combination is legal.
func RenderStr(n *Node) StrInfo {
	q := byte('"')
	if n.Quote == "'" {
		q = '\''
	}
	var info StrInfo
	var b strings.Builder
	b.WriteByte(q)
	forms := map[string]bool{}
	// units only (to find pairs)
	var ps []strUP
	for _, p := range n.Str {
		ps = append(ps, strUP{p.U, p.F})
	}
	// firstChar of the rendering of piece i, needed for the octal look-ahead rule; computed lazily
	// by rendering from the end.
	out := make([]string, len(ps))
	nextFirst := func(i int) byte { // first byte of what follows piece i
		for j := i + 1; j < len(ps); j++ {
			if out[j] != "" {
				return out[j][0]
			}
		}
		return q
	}
	// which units are members of a well-formed pair
	pairHi := make([]bool, len(ps))
	pairLo := make([]bool, len(ps))
	{
		prev := -1 // index of previous non-continuation piece
		for i, p := range ps {
			if p.f == FormCont {
				continue
			}
			if prev >= 0 && isHighSur(ps[prev].u) && isLowSur(p.u) && !pairLo[prev] {
				pairHi[prev], pairLo[i] = true, true
			}
			prev = i
		}
	}
	// rawPair: both halves requested raw and adjacent, so the astral character itself is written
	rawPair := make([]bool, len(ps))
	for i := range ps {
		if pairHi[i] && ps[i].f == FormRaw {
			if j := lowOf(ps, pairLo, i); j == i+1 && ps[j].f == FormRaw {
				rawPair[i], rawPair[j] = true, true
			}
		}
	}
	esc := make([]bool, len(ps))
	for i := len(ps) - 1; i >= 0; i-- {
		p := ps[i]
		u := p.u
		uni := func(upper bool) string {
			if upper {
				return fmt.Sprintf("\\u%04X", u)
			}
			return fmt.Sprintf("\\u%04x", u)
		}
		if p.f == FormCont {
			switch u % 5 {
			case 0:
				out[i] = "\\\n"
			case 1:
				// a lone CR must not be followed by LF (it would read as CRLF): harmless either way,
				// both are one LineTerminatorSequence and contribute nothing.
				out[i] = "\\\r"
			case 2:
				out[i] = "\\\r\n"
			case 3:
				out[i] = "\\\u2028"
			case 4:
				out[i] = "\\\u2029"
			}
			info.HasCont = true
			forms["cont"] = true
			continue
		}
		f := p.f
		if f < 0 || f >= numStrForms {
			f = FormUniLo
		}
		s := ""
		label := ""
		switch f {
		case FormRaw:
			switch {
			case pairLo[i] && rawPair[i]:
				// emitted together with its high half
				s = ""
				label = "raw-astral"
			case pairHi[i] && rawPair[i]:
				lo := ps[lowOf(ps, pairLo, i)].u
				r := 0x10000 + (rune(u)-0xD800)<<10 + (rune(lo) - 0xDC00)
				s = string(r)
				info.RawAstral = true
				label = "raw-astral"
			case isHighSur(u) || isLowSur(u):
				s = uni(true)
				label = "uni"
			case isLT(u) || u == uint16(q) || u == '\\':
				s = uni(false)
				label = "uni"
			default:
				s = string(rune(u))
				label = "raw"
			}
		case FormSingle:
			if c, ok := singleEscapes[u]; ok {
				s = "\\" + string(c)
				label = "single"
			} else {
				s = uni(false)
				label = "uni"
			}
		case FormHexLo, FormHexUp:
			if u <= 0xFF {
				if f == FormHexUp {
					s = fmt.Sprintf("\\x%02X", u)
				} else {
					s = fmt.Sprintf("\\x%02x", u)
				}
				label = "hex"
			} else {
				s = uni(f == FormHexUp)
				label = "uni"
			}
		case FormUniLo, FormUniUp:
			s = uni(f == FormUniUp)
			label = "uni"
		case FormOctal, FormOctal3:
			if u > 0xFF {
				s = uni(true)
				label = "uni"
				break
			}
			nf := nextFirst(i)
			nextDigit := nf >= '0' && nf <= '9'
			three := fmt.Sprintf("\\%03o", u)
			short := fmt.Sprintf("\\%o", u)
			switch {
			case f == FormOctal3:
				s = three
			case u < 0o40 && nextDigit:
				// OctalDigit / ZeroToThree OctalDigit need [lookahead not DecimalDigit]
				s = three
			default:
				s = short // FourToSeven OctalDigit and three-digit forms carry no look-ahead condition
			}
			info.HasOctal = true
			label = "octal"
			if u == 0 && s == "\\0" {
				label = "nul"
			}
		case FormIdent:
			if identityOK(u) {
				s = "\\" + string(rune(u))
				label = "identity"
			} else {
				s = uni(false)
				label = "uni"
			}
		}
		out[i] = s
		esc[i] = !(label == "raw" || label == "raw-astral")
		forms[label] = true
	}
	for i, p := range ps {
		b.WriteString(out[i])
		if p.f == FormCont {
			continue
		}
		info.Units = append(info.Units, p.u)
		info.Escaped = append(info.Escaped, esc[i])
		if esc[i] && (isHighSur(p.u) || isLowSur(p.u)) {
			if pairHi[i] || pairLo[i] {
				info.EscSurPair = true
			} else {
				info.LoneSur = true
			}
		}
	}
	b.WriteByte(q)
	info.Text = b.String()
	for _, l := range []string{"raw", "raw-astral", "single", "hex", "uni", "octal", "nul", "identity", "cont"} {
		if forms[l] {
			info.Forms = append(info.Forms, l)
		}
	}
	return info
}

type strUP struct {
	u uint16
	f int
}

// lowOf: index of the low half belonging to the high half at i (-1 if none).
func lowOf(ps []strUP, pairLo []bool, i int) int {
	for j := i + 1; j < len(ps); j++ {
		if pairLo[j] {
			return j
		}
		if ps[j].f != FormCont {
			return -1
		}
	}
	return -1
}

// DecodeStringLiteral is an independent reading of a string literal's source text (with quotes)
// by the rules of 7.8.4 and B.1.2; it is used to self-check the renderer (render, decode, compare)
// and by C04. ok is false when the text is not a well-formed ES5 string literal.
func DecodeStringLiteral(text string) (units []uint16, ok bool) {
	if len(text) < 2 {
		return nil, false
	}
	q := text[0]
	if (q != '"' && q != '\'') || text[len(text)-1] != q {
		return nil, false
	}
	s := text[1 : len(text)-1]
	put := func(r rune) {
		if r >= 0x10000 {
			r -= 0x10000
			units = append(units, uint16(0xD800+(r>>10)), uint16(0xDC00+(r&0x3ff)))
		} else {
			units = append(units, uint16(r))
		}
	}
	for len(s) > 0 {
		r, sz := utf8.DecodeRuneInString(s)
		if r == utf8.RuneError && sz == 1 {
			return nil, false
		}
		if r == rune(q) || r == '\n' || r == '\r' || r == 0x2028 || r == 0x2029 {
			return nil, false
		}
		if r != '\\' {
			put(r)
			s = s[sz:]
			continue
		}
		s = s[1:]
		if s == "" {
			return nil, false
		}
		r, sz = utf8.DecodeRuneInString(s)
		s = s[sz:]
		switch {
		case r == '\r':
			if strings.HasPrefix(s, "\n") {
				s = s[1:]
			}
		case r == '\n' || r == 0x2028 || r == 0x2029:
		case r == 'b':
			put(8)
		case r == 't':
			put(9)
		case r == 'n':
			put(10)
		case r == 'v':
			put(11)
		case r == 'f':
			put(12)
		case r == 'r':
			put(13)
		case r == 'x' || r == 'u':
			n := 2
			if r == 'u' {
				n = 4
			}
			if len(s) < n {
				return nil, false
			}
			v := 0
			for i := 0; i < n; i++ {
				d := hexDigit(rune(s[i]))
				if d < 0 {
					return nil, false
				}
				v = v*16 + d
			}
			units = append(units, uint16(v))
			s = s[n:]
		case r >= '0' && r <= '7':
			// B.1.2 OctalEscapeSequence (and 7.8.4 \0)
			v := int(r - '0')
			oct := func(i int) bool { return len(s) > i && s[i] >= '0' && s[i] <= '7' }
			dig := func(i int) bool { return len(s) > i && s[i] >= '0' && s[i] <= '9' }
			switch {
			case r <= '3' && oct(0) && oct(1):
				v = v*64 + int(s[0]-'0')*8 + int(s[1]-'0')
				s = s[2:]
			case r <= '3' && oct(0):
				if dig(1) {
					return nil, false
				}
				v = v*8 + int(s[0]-'0')
				s = s[1:]
			case r >= '4' && oct(0):
				v = v*8 + int(s[0]-'0')
				s = s[1:]
			default:
				if dig(0) {
					return nil, false
				}
			}
			units = append(units, uint16(v))
		case r == '8' || r == '9':
			return nil, false
		default:
			put(r) // SingleEscapeCharacter quotes/backslash and NonEscapeCharacter
		}
	}
	return units, true
}
