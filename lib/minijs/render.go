package minijs

// Rendering step 1: tree -> syntactic token list (no trivia, no positions yet).
//
// Parentheses are emitted exactly where the ES5 grammar needs them for the text to denote the
// tree (precedence and associativity 11.x, MemberExpression/NewExpression/CallExpression
// structure 11.2, the NoIn grammar variant inside for-headers 12.6, an ExpressionStatement must
// not start with "{" or "function" 12.4), plus - when a decoration stream is given - redundant
// ones and optional trailing commas, which leave the tree unchanged.

// TokKind classifies tokens.
type TokKind int

const (
	TPunct   TokKind = iota // punctuator
	TKeyword                // reserved word used as such (incl. this/null/true/false, in, instanceof, typeof ...)
	TIdent                  // IdentifierName (identifiers, labels, property names - these may be reserved words)
	TNum                    // NumericLiteral
	TStr                    // StringLiteral
	TRegex                  // RegularExpressionLiteral
	TWS                     // trivia: white space
	TComment                // trivia: comment
	TLT                     // trivia: line terminator sequence
)

func (k TokKind) String() string {
	return [...]string{"punct", "keyword", "ident", "num", "str", "regex", "ws", "comment", "lt"}[k]
}

// Token is one element of a rendering. Syntactic tokens come out of Tokens(); Layout() inserts
// trivia tokens and fills in the positions.
type Token struct {
	Kind TokKind `json:"kind"`
	Text string  `json:"text"`
	Off  int     `json:"off"`  // byte offset in the text, 0-based
	Line int     `json:"line"` // 1-based; CRLF counts once; LS and PS count
	Col  int     `json:"col"`  // 1-based, in bytes from the start of the line

	// NoLTBefore: restricted production - no LineTerminator may stand between the previous
	// syntactic token and this one (operand/label after return/throw/break/continue; postfix ++/--).
	NoLTBefore bool `json:"nolt,omitempty"`
	// Semi: this ";" terminates a statement to which automatic semicolon insertion applies
	// (var, expression, do-while, continue, break, return, throw, debugger). Header semicolons of
	// "for" and the empty statement are not Semi.
	Semi bool `json:"semi,omitempty"`
	// SemiOf: for Semi tokens, the statement kind terminated: expr var dowhile debugger return throw
	// break continue (bare) break-label continue-label.
	SemiOf string `json:"semiof,omitempty"`
	// Omitted: a Semi token that Layout left out of the text (ASI supplies it). Text is "".
	Omitted bool `json:"omitted,omitempty"`
	// Paren: a grouping parenthesis (required or redundant), as opposed to the parentheses of
	// calls, arguments, if/for/while/with/switch/catch headers and parameter lists.
	Paren bool `json:"paren,omitempty"`
	// Redundant: decoration that could be deleted without changing the tree (extra parenthesis,
	// trailing comma).
	Redundant bool `json:"redundant,omitempty"`
}

// IsTrivia reports white space, comments and line terminators.
func (t Token) IsTrivia() bool { return t.Kind == TWS || t.Kind == TComment || t.Kind == TLT }

// Choices is a deterministic stream of small decisions. It is drawn by the rapid generator as a
// byte slice (so that it shrinks towards "no decoration") and consumed cyclically.
type Choices struct {
	B []byte
	i int
}

// Next returns the next byte (0 when the stream is empty).
func (c *Choices) Next() byte {
	if c == nil || len(c.B) == 0 {
		return 0
	}
	b := c.B[c.i%len(c.B)]
	// later laps are perturbed so that a short stream does not repeat verbatim
	b += byte(c.i / len(c.B) * 37)
	c.i++
	return b
}

type emitter struct {
	toks     []Token
	decor    *Choices
	noLTNext bool
}

func (e *emitter) tok(k TokKind, text string) *Token {
	e.toks = append(e.toks, Token{Kind: k, Text: text, NoLTBefore: e.noLTNext})
	e.noLTNext = false
	return &e.toks[len(e.toks)-1]
}
func (e *emitter) p(text string)  { e.tok(TPunct, text) }
func (e *emitter) kw(text string) { e.tok(TKeyword, text) }
func (e *emitter) semi(of string) {
	t := e.tok(TPunct, ";")
	t.Semi, t.SemiOf = true, of
}

// Tokens renders a program (or any statement / expression node) to its syntactic tokens.
// decor == nil (or empty) gives minimal parentheses.
func Tokens(n *Node, decor []byte) []Token {
	e := &emitter{}
	if len(decor) > 0 {
		e.decor = &Choices{B: decor}
	}
	switch {
	case n.K == "program":
		for _, s := range n.Kids {
			e.stmt(s)
		}
	case n.IsExpr():
		e.expr(n, PrecSeq, ectx{})
	default:
		e.stmt(n)
	}
	return e.toks
}

type ectx struct {
	noIn      bool // inside a for-header: an unbracketed "in" operator must be parenthesised
	stmtStart bool // leftmost position of an ExpressionStatement: no "{" / "function" here
	force     bool // the position needs a primary (structural reasons, e.g. callee of new)
}

func (e *emitter) extraParens() int {
	if e.decor == nil {
		return 0
	}
	b := e.decor.Next()
	switch {
	case b%7 == 1:
		return 1
	case b%61 == 2:
		return 2
	}
	return 0
}

func isNewNoArgs(n *Node) bool { return n.K == "new" && n.NoArgs }

// isMemberExpr: can n be written, without enclosing parentheses, as an ES5 MemberExpression?
func isMemberExpr(n *Node) bool {
	switch n.K {
	case "dot", "idx":
		o := n.Kids[0]
		return Prec(o) < PrecLHS || isNewNoArgs(o) || isMemberExpr(o) // the first two get parentheses
	case "new":
		return !n.NoArgs
	case "call":
		return false
	}
	return Prec(n) == PrecPrimary
}

func (e *emitter) expr(n *Node, minPrec int, c ectx) {
	need := 0
	if Prec(n) < minPrec || c.force ||
		(c.noIn && n.K == "bin" && n.Op == "in") ||
		(c.stmtStart && (n.K == "obj" || n.K == "func")) {
		need = 1
	}
	extra := e.extraParens()
	for i := 0; i < need+extra; i++ {
		t := e.tok(TPunct, "(")
		t.Paren = true
		t.Redundant = i < extra
	}
	if need+extra > 0 {
		c = ectx{}
	}
	e.bare(n, c)
	for i := 0; i < need+extra; i++ {
		t := e.tok(TPunct, ")")
		t.Paren = true
		t.Redundant = i >= need
	}
}

func wordOp(op string) bool {
	switch op {
	case "delete", "void", "typeof", "in", "instanceof":
		return true
	}
	return false
}

func (e *emitter) op(op string) {
	if wordOp(op) {
		e.kw(op)
	} else {
		e.p(op)
	}
}

func (e *emitter) ident(n *Node) { e.tok(TIdent, n.Spelling()) }

// bare emits n without parentheses of its own.
func (e *emitter) bare(n *Node, c ectx) {
	left := ectx{noIn: c.noIn, stmtStart: c.stmtStart} // leftmost child keeps both
	rest := ectx{noIn: c.noIn}
	switch n.K {
	case "id":
		e.ident(n)
	case "this", "null", "true", "false":
		e.kw(n.K)
	case "num":
		e.tok(TNum, n.Lit)
	case "str":
		e.tok(TStr, RenderStr(n).Text)
	case "regex":
		e.tok(TRegex, "/"+n.Lit+"/"+n.Op)
	case "arr":
		e.p("[")
		for i, el := range n.Kids {
			if el != nil {
				e.expr(el, PrecAssign, ectx{})
			}
			if i < len(n.Kids)-1 || el == nil {
				e.p(",")
			} else if e.decor != nil && e.decor.Next()%5 == 1 {
				e.tok(TPunct, ",").Redundant = true
			}
		}
		e.p("]")
	case "obj":
		e.p("{")
		for i, pr := range n.Kids {
			e.prop(pr)
			if i < len(n.Kids)-1 {
				e.p(",")
			} else if e.decor != nil && e.decor.Next()%5 == 1 {
				e.tok(TPunct, ",").Redundant = true
			}
		}
		e.p("}")
	case "func":
		e.function(n)
	case "dot":
		o := n.Kids[0]
		e.expr(o, PrecLHS, ectx{stmtStart: c.stmtStart, force: isNewNoArgs(o)})
		e.p(".")
		e.ident(n)
	case "idx":
		o := n.Kids[0]
		e.expr(o, PrecLHS, ectx{stmtStart: c.stmtStart, force: isNewNoArgs(o)})
		e.p("[")
		e.expr(n.Kids[1], PrecSeq, ectx{})
		e.p("]")
	case "call":
		o := n.Kids[0]
		e.expr(o, PrecLHS, ectx{stmtStart: c.stmtStart, force: isNewNoArgs(o)})
		e.args(n.Kids[1:])
	case "new":
		e.kw("new")
		o := n.Kids[0]
		ok := isMemberExpr(o) || (n.NoArgs && isNewNoArgs(o))
		e.expr(o, PrecLHS, ectx{force: !ok})
		if !n.NoArgs {
			e.args(n.Kids[1:])
		}
	case "unary":
		e.op(n.Op)
		e.expr(n.Kids[0], PrecUnary, ectx{})
	case "postfix":
		e.expr(n.Kids[0], PrecLHS, ectx{stmtStart: c.stmtStart})
		e.noLTNext = true
		e.p(n.Op)
	case "bin":
		l := BinLevel(n.Op)
		e.expr(n.Kids[0], l, left)
		e.op(n.Op)
		e.expr(n.Kids[1], l+1, rest)
	case "cond":
		e.expr(n.Kids[0], PrecBinBase, left)
		e.p("?")
		e.expr(n.Kids[1], PrecAssign, ectx{}) // the middle operand is a full AssignmentExpression even in NoIn context
		e.p(":")
		e.expr(n.Kids[2], PrecAssign, rest)
	case "assign":
		e.expr(n.Kids[0], PrecLHS, left)
		e.p(n.Op)
		e.expr(n.Kids[1], PrecAssign, rest)
	case "seq":
		for i, k := range n.Kids {
			if i == 0 {
				e.expr(k, PrecAssign, left)
			} else {
				e.p(",")
				e.expr(k, PrecAssign, rest)
			}
		}
	default:
		panic("minijs: not an expression kind: " + n.K)
	}
}

func (e *emitter) args(a []*Node) {
	e.p("(")
	for i, x := range a {
		if i > 0 {
			e.p(",")
		}
		e.expr(x, PrecAssign, ectx{})
	}
	e.p(")")
}

func (e *emitter) key(k *Node) {
	switch k.K {
	case "id":
		e.ident(k)
	case "str":
		e.tok(TStr, RenderStr(k).Text)
	case "num":
		e.tok(TNum, k.Lit)
	default:
		panic("minijs: bad property key kind " + k.K)
	}
}

func (e *emitter) prop(pr *Node) {
	switch pr.Op {
	case "init":
		e.key(pr.Kids[0])
		e.p(":")
		e.expr(pr.Kids[1], PrecAssign, ectx{})
	case "get", "set":
		e.tok(TIdent, pr.Op)
		e.key(pr.Kids[0])
		f := pr.Kids[1]
		e.params(f.Params)
		e.body(f.Kids)
	default:
		panic("minijs: bad property kind " + pr.Op)
	}
}

func (e *emitter) params(ps []string) {
	e.p("(")
	for i, p := range ps {
		if i > 0 {
			e.p(",")
		}
		e.tok(TIdent, p)
	}
	e.p(")")
}

func (e *emitter) body(stmts []*Node) {
	e.p("{")
	for _, s := range stmts {
		e.stmt(s)
	}
	e.p("}")
}

func (e *emitter) function(n *Node) {
	e.kw("function")
	if n.Name != "" {
		e.ident(n)
	}
	e.params(n.Params)
	e.body(n.Kids)
}

func (e *emitter) varDecls(v *Node, noIn bool) {
	e.kw("var")
	for i, d := range v.Kids {
		if i > 0 {
			e.p(",")
		}
		e.ident(d)
		if len(d.Kids) > 0 && d.Kids[0] != nil {
			e.p("=")
			e.expr(d.Kids[0], PrecAssign, ectx{noIn: noIn})
		}
	}
}

func kid(n *Node, i int) *Node {
	if i < len(n.Kids) {
		return n.Kids[i]
	}
	return nil
}

func (e *emitter) stmt(n *Node) {
	switch n.K {
	case "var":
		e.varDecls(n, false)
		e.semi("var")
	case "expr":
		e.expr(n.Kids[0], PrecSeq, ectx{stmtStart: true})
		e.semi("expr")
	case "if":
		e.kw("if")
		e.p("(")
		e.expr(n.Kids[0], PrecSeq, ectx{})
		e.p(")")
		e.stmt(n.Kids[1])
		if alt := kid(n, 2); alt != nil {
			e.kw("else")
			e.stmt(alt)
		}
	case "for":
		e.kw("for")
		e.p("(")
		if init := n.Kids[0]; init != nil {
			if init.K == "var" {
				e.varDecls(init, true)
			} else {
				e.expr(init, PrecSeq, ectx{noIn: true})
			}
		}
		e.p(";")
		if t := n.Kids[1]; t != nil {
			e.expr(t, PrecSeq, ectx{})
		}
		e.p(";")
		if u := n.Kids[2]; u != nil {
			e.expr(u, PrecSeq, ectx{})
		}
		e.p(")")
		e.stmt(n.Kids[3])
	case "forin":
		e.kw("for")
		e.p("(")
		if l := n.Kids[0]; l.K == "var" {
			e.varDecls(l, true)
		} else {
			e.expr(l, PrecLHS, ectx{noIn: true})
		}
		e.kw("in")
		e.expr(n.Kids[1], PrecSeq, ectx{})
		e.p(")")
		e.stmt(n.Kids[2])
	case "while":
		e.kw("while")
		e.p("(")
		e.expr(n.Kids[0], PrecSeq, ectx{})
		e.p(")")
		e.stmt(n.Kids[1])
	case "dowhile":
		e.kw("do")
		e.stmt(n.Kids[0])
		e.kw("while")
		e.p("(")
		e.expr(n.Kids[1], PrecSeq, ectx{})
		e.p(")")
		e.semi("dowhile")
	case "continue", "break":
		e.kw(n.K)
		of := n.K
		if n.Name != "" {
			e.noLTNext = true
			e.ident(n)
			of += "-label"
		}
		e.semi(of)
	case "return":
		e.kw("return")
		if a := kid(n, 0); a != nil {
			e.noLTNext = true
			e.expr(a, PrecSeq, ectx{})
		}
		e.semi("return")
	case "throw":
		e.kw("throw")
		e.noLTNext = true
		e.expr(n.Kids[0], PrecSeq, ectx{})
		e.semi("throw")
	case "with":
		e.kw("with")
		e.p("(")
		e.expr(n.Kids[0], PrecSeq, ectx{})
		e.p(")")
		e.stmt(n.Kids[1])
	case "switch":
		e.kw("switch")
		e.p("(")
		e.expr(n.Kids[0], PrecSeq, ectx{})
		e.p(")")
		e.p("{")
		for _, c := range n.Kids[1:] {
			if c.Kids[0] != nil {
				e.kw("case")
				e.expr(c.Kids[0], PrecSeq, ectx{})
			} else {
				e.kw("default")
			}
			e.p(":")
			for _, s := range c.Kids[1:] {
				e.stmt(s)
			}
		}
		e.p("}")
	case "label":
		e.ident(n)
		e.p(":")
		e.stmt(n.Kids[0])
	case "try":
		e.kw("try")
		e.body(n.Kids[0].Kids)
		if c := kid(n, 1); c != nil {
			e.kw("catch")
			e.p("(")
			e.ident(n)
			e.p(")")
			e.body(c.Kids)
		}
		if f := kid(n, 2); f != nil {
			e.kw("finally")
			e.body(f.Kids)
		}
	case "block":
		e.body(n.Kids)
	case "funcdecl":
		e.function(n)
	case "debugger":
		e.kw("debugger")
		e.semi("debugger")
	case "empty":
		e.p(";")
	default:
		panic("minijs: not a statement kind: " + n.K)
	}
}
