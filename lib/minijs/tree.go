// Package minijs is an ES5 syntax tree of /verif's own, with a generator of well-formed trees
// (gen.go), a renderer to a positioned token list with three text variants (render.go, layout.go),
// a canonical S-expression dump (dump.go) and independent literal-value models (literal.go).
// It shares no code with otto; props/c03 and props/c04 are built on it.
package minijs

// Node is one node of the tree. The struct is deliberately generic (a kind tag plus a few
// payload fields) so that a whole program is JSON-serialisable and replayable.
//
// Expressions (K):
//
//	id      Name (decoded), Spell (source spelling when it uses \uXXXX escapes; "" = Name)
//	this null true false
//	num     Lit (source spelling, e.g. "0x1F", ".5e-3", "017")
//	str     Str (pieces), Quote ("\"" or "'")
//	regex   Lit = pattern body, Op = flags
//	arr     Kids (nil entry = elision)
//	obj     Kids = prop nodes
//	prop    Op = init|get|set; Kids[0] = key (id: any IdentifierName incl. reserved words | str | num);
//	        Kids[1] = value expression (init) or func node (get: no params, set: one param)
//	func    Name ("" = anonymous), Spell, Params, Kids = body source elements
//	dot     Kids[0] object, Name = IdentifierName (reserved words allowed), Spell
//	idx     Kids[0] object, Kids[1] index expression
//	call    Kids[0] callee, Kids[1:] arguments
//	new     Kids[0] callee, Kids[1:] arguments, NoArgs = written without "()" (then no arguments)
//	unary   Op = delete void typeof ++ -- + - ~ !   Kids[0]
//	postfix Op = ++ --                               Kids[0]
//	bin     Op = * / % + - << >> >>> < > <= >= instanceof in == != === !== & ^ | && ||   Kids[0..1]
//	cond    Kids[0..2]
//	assign  Op = = *= /= %= += -= <<= >>= >>>= &= ^= |=   Kids[0..1]
//	seq     Kids (>= 2)
//
// Statements (K):
//
//	program   Kids = source elements
//	var       Kids = decl nodes;   decl: Name, Spell, Kids[0] = initialiser or nil
//	expr      Kids[0]
//	if        Kids[0] test, Kids[1] consequent, Kids[2] alternate or nil
//	for       Kids[0] init (nil | expression | var node), Kids[1] test|nil, Kids[2] update|nil, Kids[3] body
//	forin     Kids[0] left (expression | var node with exactly one decl), Kids[1] object, Kids[2] body
//	while     Kids[0] test, Kids[1] body
//	dowhile   Kids[0] body, Kids[1] test
//	continue break   Name = label or ""
//	return    Kids[0] or nil
//	throw     Kids[0]
//	with      Kids[0] object, Kids[1] body
//	switch    Kids[0] discriminant, Kids[1:] = case nodes;  case: Kids[0] test (nil = default), Kids[1:] statements
//	label     Name, Spell, Kids[0] statement
//	try       Kids[0] block, Kids[1] catch block or nil (Name/Spell = parameter), Kids[2] finally block or nil
//	block     Kids
//	funcdecl  Name, Spell, Params, Kids = body
//	debugger empty
type Node struct {
	K      string     `json:"k"`
	Op     string     `json:"op,omitempty"`
	Name   string     `json:"name,omitempty"`
	Spell  string     `json:"spell,omitempty"`
	Lit    string     `json:"lit,omitempty"`
	Str    []StrPiece `json:"str,omitempty"`
	Quote  string     `json:"q,omitempty"`
	Params []string   `json:"params,omitempty"`
	NoArgs bool       `json:"noargs,omitempty"`
	Kids   []*Node    `json:"kids,omitempty"`

	// Set only on trees converted from another parser's output (lib/m03.FromOtto):
	// Val = the literal value that parser computed (num: harness.NumRepr form; regex: unused),
	// Decls = the declaration list it recorded for a program / function ("var a", "func f").
	Val      string   `json:"val,omitempty"`
	Decls    []string `json:"decls,omitempty"`
	HasDecls bool     `json:"hasdecls,omitempty"`
}

// StrPiece is one element of a string literal: a UTF-16 code unit written in a chosen form, or a
// line continuation (F == FormCont; U then selects the line terminator sequence and the piece
// contributes no code unit).
type StrPiece struct {
	U uint16 `json:"u"`
	F int    `json:"f"`
}

// Escape forms of a string piece. The renderer falls back to a \uXXXX escape when the requested
// form cannot denote the unit (see literal.go).
const (
	FormRaw     = 0 // the character itself
	FormSingle  = 1 // \b \t \n \v \f \r \" \' \\
	FormHexLo   = 2 // \xhh
	FormHexUp   = 3 // \xHH
	FormUniLo   = 4 // \uhhhh
	FormUniUp   = 5 // \uHHHH
	FormOctal   = 6 // legacy octal, shortest spelling the following character permits
	FormOctal3  = 7 // legacy octal, three digits
	FormIdent   = 8 // identity escape \c
	FormCont    = 9 // line continuation; U: 0 LF, 1 CR, 2 CRLF, 3 LS, 4 PS
	numStrForms = 10
)

// Convenience constructors (used by generators and by hand-written cases).
func N(k string, kids ...*Node) *Node      { return &Node{K: k, Kids: kids} }
func Op(k, op string, kids ...*Node) *Node { return &Node{K: k, Op: op, Kids: kids} }
func Id(name string) *Node                 { return &Node{K: "id", Name: name} }
func Num(lit string) *Node                 { return &Node{K: "num", Lit: lit} }
func Bin(op string, l, r *Node) *Node      { return &Node{K: "bin", Op: op, Kids: []*Node{l, r}} }
func Unary(op string, x *Node) *Node       { return &Node{K: "unary", Op: op, Kids: []*Node{x}} }
func Postfix(op string, x *Node) *Node     { return &Node{K: "postfix", Op: op, Kids: []*Node{x}} }
func Assign(op string, l, r *Node) *Node   { return &Node{K: "assign", Op: op, Kids: []*Node{l, r}} }
func Cond(a, b, c *Node) *Node             { return &Node{K: "cond", Kids: []*Node{a, b, c}} }
func Dot(o *Node, name string) *Node       { return &Node{K: "dot", Name: name, Kids: []*Node{o}} }
func ExprStmt(e *Node) *Node               { return &Node{K: "expr", Kids: []*Node{e}} }
func Program(stmts ...*Node) *Node         { return &Node{K: "program", Kids: stmts} }
func Label(name string, s *Node) *Node     { return &Node{K: "label", Name: name, Kids: []*Node{s}} }
func StrASCII(s string) *Node {
	n := &Node{K: "str", Quote: "\""}
	for i := 0; i < len(s); i++ {
		n.Str = append(n.Str, StrPiece{U: uint16(s[i]), F: FormRaw})
	}
	return n
}

// Spelling returns the source spelling of an identifier-like node.
func (n *Node) Spelling() string {
	if n.Spell != "" {
		return n.Spell
	}
	return n.Name
}

// IsExpr reports whether the node kind is an expression.
func (n *Node) IsExpr() bool {
	switch n.K {
	case "id", "this", "null", "true", "false", "num", "str", "regex", "arr", "obj", "func", "dot", "idx",
		"call", "new", "unary", "postfix", "bin", "cond", "assign", "seq":
		return true
	}
	return false
}

// Walk visits n and all descendants (pre-order), skipping nil children.
func Walk(n *Node, f func(*Node)) {
	if n == nil {
		return
	}
	f(n)
	for _, k := range n.Kids {
		Walk(k, f)
	}
}

// Count is the number of nodes.
func Count(n *Node) int {
	c := 0
	Walk(n, func(*Node) { c++ })
	return c
}

// Binary operators by ES5 precedence level (11.5 - 11.11). Higher binds tighter.
var BinaryLevels = [][]string{
	{"||"},
	{"&&"},
	{"|"},
	{"^"},
	{"&"},
	{"==", "!=", "===", "!=="},
	{"<", ">", "<=", ">=", "instanceof", "in"},
	{"<<", ">>", ">>>"},
	{"+", "-"},
	{"*", "/", "%"},
}

// BinaryOps lists every binary operator.
var BinaryOps = func() []string {
	var out []string
	for _, l := range BinaryLevels {
		out = append(out, l...)
	}
	return out
}()

// AssignOps lists every assignment operator (11.13).
var AssignOps = []string{"=", "*=", "/=", "%=", "+=", "-=", "<<=", ">>=", ">>>=", "&=", "^=", "|="}

// UnaryOps lists every prefix operator (11.4).
var UnaryOps = []string{"delete", "void", "typeof", "++", "--", "+", "-", "~", "!"}

// Precedence levels used by the renderer. A child is parenthesised when its level is lower than
// the level its position requires.
const (
	PrecSeq     = 0
	PrecAssign  = 1
	PrecCond    = 2
	PrecBinBase = 3 // "||"; BinaryLevels[i] has level PrecBinBase+i
	PrecUnary   = 13
	PrecPostfix = 14
	PrecLHS     = 15 // call / new / member
	PrecPrimary = 16
)

var binLevel = func() map[string]int {
	m := map[string]int{}
	for i, l := range BinaryLevels {
		for _, op := range l {
			m[op] = PrecBinBase + i
		}
	}
	return m
}()

// BinLevel is the precedence level of a binary operator.
func BinLevel(op string) int { return binLevel[op] }

// IsRelational reports the 11.8 operators.
func IsRelational(op string) bool { return binLevel[op] == PrecBinBase+6 }

// Prec is the precedence level of an expression node.
func Prec(n *Node) int {
	switch n.K {
	case "seq":
		return PrecSeq
	case "assign":
		return PrecAssign
	case "cond":
		return PrecCond
	case "bin":
		return binLevel[n.Op]
	case "unary":
		return PrecUnary
	case "postfix":
		return PrecPostfix
	case "call", "new", "dot", "idx":
		return PrecLHS
	}
	return PrecPrimary
}

// ReservedWords are the ES5 ReservedWords (7.6.1): keywords, future reserved words (non-strict),
// null and the boolean literals. They are IdentifierNames (allowed after "." and as property keys)
// but not Identifiers.
var ReservedWords = []string{
	"break", "case", "catch", "continue", "debugger", "default", "delete", "do", "else", "finally", "for",
	"function", "if", "in", "instanceof", "new", "return", "switch", "this", "throw", "try", "typeof", "var",
	"void", "while", "with",
	"class", "const", "enum", "export", "extends", "import", "super",
	"null", "true", "false",
}

var reserved = func() map[string]bool {
	m := map[string]bool{}
	for _, w := range ReservedWords {
		m[w] = true
	}
	return m
}()

// IsReserved reports whether s is an ES5 ReservedWord.
func IsReserved(s string) bool { return reserved[s] }
