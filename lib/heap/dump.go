package heap

import (
	"fmt"
	"strconv"
	"strings"

	"github.com/robertkrimen/otto"

	"verif/lib/harness"
)

// Helpers is evaluated by the prelude, before any history runs, so that the dump still has the native
// reflection functions when a history rebinds Object, Date, RegExp … ; Copy() clones it with the heap.
const Helpers = `var __h = {gopn: Object.getOwnPropertyNames, gopd: Object.getOwnPropertyDescriptor, gpo: Object.getPrototypeOf,
  ots: Object.prototype.toString, fts: Function.prototype.toString, isExt: Object.isExtensible,
  dateGet: Date.prototype.getTime, reStr: RegExp.prototype.toString,
  numVal: Number.prototype.valueOf, strVal: String.prototype.valueOf, boolVal: Boolean.prototype.valueOf};
`

// DumpGo walks the whole reachable heap of vm from Go (identity through a Go map, reflection through the
// native functions saved in __h) and returns the canonical description documented at Dump. It creates no
// script-visible object other than the descriptor objects the native functions return.
func DumpGo(vm *otto.Otto) (string, error) {
	hv, err := vm.Get("__h")
	if err != nil || !hv.IsObject() {
		return "", fmt.Errorf("helpers missing: %v", err)
	}
	h := hv.Object()
	fn := func(name string) otto.Value { v, _ := h.Get(name); return v }
	gopn, gopd, gpo, ots, fts, isExt := fn("gopn"), fn("gopd"), fn("gpo"), fn("ots"), fn("fts"), fn("isExt")
	dateGet, reStr := fn("dateGet"), fn("reStr")
	primOf := map[string]otto.Value{"[object Number]": fn("numVal"), "[object String]": fn("strVal"), "[object Boolean]": fn("boolVal")}
	undef := otto.UndefinedValue()

	global, err := vm.Run("this")
	if err != nil {
		return "", err
	}
	ids := map[otto.Value]int{global: 0}
	objs := []otto.Value{global}
	idOf := func(v otto.Value) int {
		if id, ok := ids[v]; ok {
			return id
		}
		ids[v] = len(objs)
		objs = append(objs, v)
		return len(objs) - 1
	}
	val := func(v otto.Value) string {
		switch {
		case v.IsNull():
			return "null"
		case v.IsObject():
			return "#" + strconv.Itoa(idOf(v))
		case v.IsUndefined():
			return "undefined:undefined"
		case v.IsNumber():
			f, _ := v.ToFloat()
			return "n:" + harness.NumRepr(f)
		case v.IsString():
			s, _ := v.ToString()
			return "s:" + strconv.QuoteToASCII(s)
		case v.IsBoolean():
			b, _ := v.ToBoolean()
			return "boolean:" + strconv.FormatBool(b)
		}
		return "?"
	}
	call := func(f otto.Value, this otto.Value, args ...interface{}) (otto.Value, string) {
		r := harness.Guard(func() (otto.Value, error) { return f.Call(this, args...) })
		if r.Panicked {
			return undef, "panic:" + fmt.Sprint(r.Panic)
		}
		if r.Err != nil {
			return undef, "!" + harness.ErrName(r.Err)
		}
		return r.Value, ""
	}
	var out []string
	for i := 0; i < len(objs); i++ {
		o := objs[i]
		kind := "object"
		if o.IsFunction() {
			kind = "function"
		}
		line := []string{strconv.Itoa(i), kind}
		cls, bad := call(ots, o)
		if bad != "" {
			if strings.HasPrefix(bad, "panic:") {
				return "", fmt.Errorf("Object.prototype.toString.call: %s", bad)
			}
			line = append(line, bad)
		} else {
			line = append(line, cls.String())
		}
		if p, bad := call(gpo, undef, o); bad != "" {
			return "", fmt.Errorf("getPrototypeOf: %s", bad)
		} else if p.IsNull() {
			line = append(line, "proto=null")
		} else {
			line = append(line, "proto=#"+strconv.Itoa(idOf(p)))
		}
		if e, _ := call(isExt, undef, o); e.IsBoolean() {
			if b, _ := e.ToBoolean(); b {
				line = append(line, "ext")
			} else {
				line = append(line, "nonext")
			}
		}
		if kind == "function" {
			if src, bad := call(fts, o); bad == "" {
				if s := src.String(); !strings.Contains(s, "[native code]") {
					line = append(line, "src="+strconv.QuoteToASCII(s))
				}
			} else {
				line = append(line, "src"+bad)
			}
		}
		names, bad := call(gopn, undef, o)
		if bad != "" {
			return "", fmt.Errorf("getOwnPropertyNames: %s", bad)
		}
		no := names.Object()
		lv, _ := no.Get("length")
		n, _ := lv.ToInteger()
		for j := int64(0); j < n; j++ {
			nv, _ := no.Get(strconv.FormatInt(j, 10))
			name := nv.String()
			d, bad := call(gopd, undef, o, name)
			if strings.HasPrefix(bad, "panic:") {
				return "", fmt.Errorf("getOwnPropertyDescriptor(#%d, %q): %s", i, name, bad)
			}
			if bad != "" {
				line = append(line, strconv.Quote(name)+":"+bad)
				continue
			}
			if !d.IsObject() {
				line = append(line, strconv.Quote(name)+":?")
				continue
			}
			do := d.Object()
			get := func(k string) otto.Value { v, _ := do.Get(k); return v }
			flag := func(k, on string) string {
				if b, _ := get(k).ToBoolean(); b {
					return on
				}
				return "-"
			}
			attrs := flag("enumerable", "e") + flag("configurable", "c")
			hasValue := false
			for _, k := range do.Keys() {
				if k == "value" || k == "writable" {
					hasValue = true
				}
			}
			if hasValue {
				line = append(line, strconv.Quote(name)+":"+flag("writable", "w")+attrs+"="+val(get("value")))
			} else {
				line = append(line, strconv.Quote(name)+":acc"+attrs+" get="+val(get("get"))+" set="+val(get("set")))
			}
		}
		switch cls.String() {
		case "[object Date]":
			if t, bad := call(dateGet, o); bad == "" {
				line = append(line, "time="+val(t))
			}
		case "[object RegExp]":
			if t, bad := call(reStr, o); bad == "" {
				line = append(line, "re="+val(t))
			}
		case "[object Number]", "[object String]", "[object Boolean]":
			if t, bad := call(primOf[cls.String()], o); bad == "" && !t.IsObject() {
				line = append(line, "prim="+val(t))
			}
		}
		out = append(out, strings.Join(line, " "))
		if len(objs) > 20000 {
			return "", fmt.Errorf("heap too large")
		}
	}
	return strings.Join(out, "\n"), nil
}
