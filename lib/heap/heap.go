// Package heap holds the pieces shared by C17 (Copy) and C20 (independent runtimes): a JS-side
// host-free prelude (log into a heap array), heap-building and heap-mutating program templates,
// and a canonical heap dump written in JavaScript.
package heap

import (
	"strconv"
	"strings"

	"pgregory.net/rapid"

	"verif/lib/prog"
)

// Prelude defines log() purely inside the JavaScript heap (host functions are shared between a
// runtime and its copies by design and are therefore kept out of C17/C20).
const Prelude = Helpers + `var __builtins = Object.getOwnPropertyNames(this); var __nativeFns = []; (function(g){ for (var i = 0; i < __builtins.length; i++) { var v = g[__builtins[i]]; if (typeof v === "function") __nativeFns.push(v); } })(this); var __trace = [];
function log() { var a = []; for (var i = 0; i < arguments.length; i++) { var v = arguments[i]; a.push(typeof v === "object" || typeof v === "function" ? typeof v : String(v)); } __trace.push(a.join("|")); }
`

// Dump is an expression evaluating to a canonical description of the whole reachable heap: every
// object reachable from the global object through property values, accessor halves and prototype
// links, numbered in discovery order, with [[Class]], [[Prototype]], extensibility, every own
// property in own-property order with its attributes and its value (primitive rendering or object
// number), and the source text of script functions. It creates no global and mutates nothing.
const Dump = `(function (global) {
  var gopn = Object.getOwnPropertyNames, gopd = Object.getOwnPropertyDescriptor, gpo = Object.getPrototypeOf;
  var ots = Object.prototype.toString, fts = Function.prototype.toString, has = Object.prototype.hasOwnProperty;
  var objs = [global], out = [];
  function idOf(o) { for (var i = 0; i < objs.length; i++) if (objs[i] === o) return i; objs.push(o); return objs.length - 1; }
  function val(v) {
    var t = typeof v;
    if (v === null) return "null";
    if (t === "object" || t === "function") return "#" + idOf(v);
    if (t === "number") return "n:" + (v === 0 && 1 / v < 0 ? "-0" : String(v));
    if (t === "string") return "s:" + JSON.stringify(v);
    return t + ":" + String(v);
  }
  for (var i = 0; i < objs.length; i++) {
    var o = objs[i], line = [i, typeof o];
    var cls = "?"; try { cls = ots.call(o); } catch (e) { cls = "!" + e.name; }
    line.push(cls);
    var p = gpo(o); line.push("proto=" + (p === null ? "null" : "#" + idOf(p)));
    line.push(Object.isExtensible(o) ? "ext" : "nonext");
    if (typeof o === "function") {
      var src = ""; try { src = fts.call(o); } catch (e) { src = "!" + e.name; }
      if (src.indexOf("[native code]") < 0) line.push("src=" + JSON.stringify(src));
    }
    var names = gopn(o);
    for (var j = 0; j < names.length; j++) {
      var n = names[j], d;
      try { d = gopd(o, n); } catch (e) { line.push(JSON.stringify(n) + ":!" + e.name); continue; }
      if (!d) { line.push(JSON.stringify(n) + ":?"); continue; }
      var a = (d.enumerable ? "e" : "-") + (d.configurable ? "c" : "-");
      if (has.call(d, "value") || has.call(d, "writable")) line.push(JSON.stringify(n) + ":" + (d.writable ? "w" : "-") + a + "=" + val(d.value));
      else line.push(JSON.stringify(n) + ":acc" + a + " get=" + val(d.get) + " set=" + val(d.set));
    }
    if (cls === "[object Date]") { try { line.push("time=" + Date.prototype.getTime.call(o)); } catch (e) {} }
    if (cls === "[object RegExp]") { try { line.push("re=" + RegExp.prototype.toString.call(o)); } catch (e) {} }
    if (cls === "[object Number]" || cls === "[object String]" || cls === "[object Boolean]") { try { line.push("prim=" + val(o.valueOf())); } catch (e) {} }
    out.push(line.join(" "));
  }
  return out.join("\n");
})(this)`

// Exercise calls every global function that is not a built-in binding (script functions, bound functions, aliases of natives) with no arguments and records what comes
// back, then dumps. It changes closure state — identically on equivalent runtimes.
const Exercise = `(function (global) {
  var r = [], names = Object.getOwnPropertyNames(global).sort();
  for (var i = 0; i < names.length; i++) {
    var n = names[i], v;
    if (n === "log" || n.charAt(0) === "_" ) continue;
    try { v = global[n]; } catch (e) { r.push(n + " get!" + e.name); continue; }
    if (typeof v !== "function" || __builtins.indexOf(n) >= 0 || __nativeFns.indexOf(v) >= 0) continue; // every function the history put there (bound ones included), but no built-in under another name (Date() reads the clock)
    try { var x = v(); r.push(n + "()=" + (typeof x === "object" || typeof x === "function" ? typeof x : String(x))); }
    catch (e) { r.push(n + "() threw " + (e && e.name)); }
  }
  return r.join(";");
})(this)`

// Builders: heap-building program pieces for the constructs the property names.
var Builders = []string{
	// counters in closures / closures sharing an environment
	`var counter = (function(){ var n = %N; return function(){ return ++n } })(); counter(); counter();`,
	`var pair = (function(){ var s = %N; return { inc: function(){ return ++s }, get: function(){ return s } } })(); var pinc = pair.inc, pget = pair.get; pinc();`,
	`var adders = []; for (var i = 0; i < 3; i++) { adders.push((function(k){ return function(x){ return (x||0) + k + %N } })(i)) } var add0 = adders[0], add2 = adders[2];`,
	// prototype chains and constructors
	`function Animal(n){ this.name = n } Animal.prototype.speak = function(){ return this.name + "!" }; function Dog(n){ Animal.call(this, n) } Dog.prototype = Object.create(Animal.prototype); Dog.prototype.constructor = Dog; var dog = new Dog("rex%N"); var speak = function(){ return dog.speak() };`,
	`var base = {b: %N}; var mid = Object.create(base); mid.m = 2; var leaf = Object.create(mid); leaf.l = 3; var chainSum = function(){ return leaf.b + leaf.m + leaf.l };`,
	// accessors closing over state
	`var acc = (function(){ var hidden = %N; var o = {}; Object.defineProperty(o, "v", { get: function(){ return hidden }, set: function(x){ hidden = x * 2 }, enumerable: true, configurable: true }); return o })(); acc.v = 5; var readAcc = function(){ return acc.v };`,
	`var lit = { _q: %N, get q(){ return this._q + 1 }, set q(x){ this._q = x } }; lit.q = 10;`,
	// attributes, order, frozen / sealed / non-extensible
	`var attrs = {}; Object.defineProperty(attrs, "hid", {value: %N, enumerable: false, writable: false, configurable: false}); attrs.z = 1; attrs.a = 2; delete attrs.z; attrs.z = 3; Object.defineProperty(attrs, "ro", {value: "r", writable: false, enumerable: true, configurable: true});`,
	`var frozen = Object.freeze({f: %N, inner: {x: 1}}); var sealed = Object.seal({s: 1}); var nonext = Object.preventExtensions({n: 1}); frozen.f = 99; sealed.t = 1; delete sealed.s;`,
	// bound functions with bound arguments
	`function three(a, b, c){ return [this && this.tag, a, b, c].join() } var bound = three.bind({tag: "T%N"}, 1, 2); var rebound = bound.bind(null, 3); var callBound = function(){ return bound(9) + "/" + rebound() };`,
	// leaked arguments objects
	`var leaked = (function(a, b){ arguments[0] = "changed%N"; return arguments })(1, 2, 3); var leakedLen = function(){ return leaked.length + ":" + leaked[0] + ":" + leaked[2] };`,
	`var aliasing = (function(p){ var args = arguments; return { set: function(v){ args[0] = v }, get: function(){ return p } } })(%N); aliasing.set(7); var aliasGet = aliasing.get;`,
	// functions with own properties
	`function withProps(){ return withProps.count = (withProps.count || 0) + 1 } withProps.label = "L%N"; withProps.nested = {deep: [1, 2, {three: 3}]}; withProps();`,
	// modified built-ins
	`Array.prototype.last = function(){ return this[this.length - 1] }; var useLast = function(){ return [1, 2, %N].last() };`,
	`delete Array.prototype.reverse; String.prototype.shout = function(){ return this.toUpperCase() + "!" }; var shout = function(){ return "a%N".shout() + typeof [].reverse };`,
	`var __ots = Object.prototype.toString; Object.prototype.toString = function(){ return "custom" }; var strOf = function(){ return String({}) }; Object.prototype.toString = __ots;`,
	`Math.extra = %N; JSON.tag = "j"; Number.prototype.double = function(){ return this * 2 }; var dbl = function(){ return (21).double() + Math.extra };`,
	// RegExp lastIndex state, Date, Error objects
	`var re = /a/g; re.test("aXa"); var reState = function(){ return re.lastIndex + ":" + re.test("aaaa") + ":" + re.lastIndex }; var re2 = new RegExp("b+", "gi"); re2.lastIndex = %N;`,
	`var when = new Date(86400000 * %N); when.extra = 1; var whenT = function(){ return when.getTime() + ":" + when.getUTCDate() }; var bad = new Date(NaN);`,
	`var err = new TypeError("boom%N"); err.code = 42; var errS = function(){ return err.name + ":" + err.message + ":" + (err instanceof TypeError) + ":" + (err instanceof Error) }; var err2; try { null.x } catch (e) { err2 = e }`,
	// cyclic graphs
	`var cycA = {name: "a%N"}, cycB = {name: "b", peer: cycA}; cycA.peer = cycB; cycA.self = cycA; var arrCyc = [1]; arrCyc.push(arrCyc); var cycWalk = function(){ return cycA.peer.peer.self.name + arrCyc[1][1][0] };`,
	// wrapper objects, arrays with holes and extra props, strings
	`var wrapN = new Number(%N), wrapS = new String("str"), wrapB = new Boolean(false); wrapS.extra = 1; var holes = [1, , 3]; holes.tag = "t"; holes.length = 5; var sparse = []; sparse[7] = "x";`,
	// String objects with non-ASCII text that the setup never reads by index: the first indexed read (and whatever
	// the implementation builds for it) happens in the runtimes that share the object's internal value after Copy()
	`var wideS = new String("żółć😀x%N"), wideO = Object("日本語%N"); wideS.tag = 1; var wideRead = function(){ return wideS[1] + wideS[6] + wideO[2] + wideS.hasOwnProperty("3") + ":" + Object.keys(wideO).length + ":" + wideS.charCodeAt(4) + ":" + JSON.stringify(Object.getOwnPropertyDescriptor(wideO, "0")) };`,
	// two closures over one catch parameter / one named-function-expression scope: they must keep sharing it in a copy
	`var catchW, catchR; try { throw %N } catch (cv) { catchW = function(v){ cv = v }; catchR = function(){ return cv } } var catchPair = function(){ catchW(catchR() + 10); return catchR() }; var nfePair = (function nf(){ return [function(){ return typeof nf }, function(){ return nf === nfePair.self }] })(); nfePair.self = null; var nfeRead = function(){ return nfePair[0]() + ":" + nfePair[1]() };`,
	// a constructor already used with new before the copy, used again afterwards: instances made in the copy must
	// inherit from the copy's prototype object, see later edits of it, and leave the original's alone
	`function Pt(){ this.k = %N } Pt.prototype.m = function(){ return "m" + this.k }; var pt0 = new Pt(); var ptMake = function(){ var p = new Pt(); Pt.prototype.extra = (Pt.prototype.extra || 0) + 1; return (p instanceof Pt) + ":" + (Object.getPrototypeOf(p) === Pt.prototype) + ":" + (p.constructor === Pt) + ":" + p.m() + ":" + p.extra + ":" + pt0.extra + ":" + (Object.getPrototypeOf(pt0) === Object.getPrototypeOf(p)) };`,
	// getters on prototypes, inherited setters
	`function Temp(){ this._c = %N } Object.defineProperty(Temp.prototype, "f", { get: function(){ return this._c * 2 }, set: function(v){ this._c = v / 2 }, configurable: true }); var temp = new Temp(); temp.f = 100; var tempF = function(){ return temp.f + ":" + temp._c };`,
	// immutable and special bindings: named function expression, catch parameter, arguments in closures
	`var selfRef = function me(){ me = %N; return typeof me + ":" + (me === selfRef) }; var fact = function f(n){ return n < 2 ? 1 : n * f(n - 1) }; var useFact = function(){ return fact(4) };`,
	`var fromCatch; try { throw {c: %N} } catch (ex) { fromCatch = function(){ ex.c++; return ex.c } } fromCatch();`,
	`var argsClosure = (function(a, b){ return function(){ a.n++; arguments; return a.n + ":" + b } })({n: %N}, "b");`,
	// objects held only by closures, bound functions with object this / object arguments, nested binds
	`var holder = (function(){ var priv = {n: %N, list: [1, 2]}; return function(){ priv.n++; priv.list.push(priv.n); return priv.n + ":" + priv.list.length } })(); holder();`,
	`var box = {n: %N}; var bumpBox = function(b, k){ b.n += (k || 1); return b.n }.bind(null, box); var bumpTwice = bumpBox.bind(null, 2); var selfBox = function(){ this.n++; return this.n }.bind(box); bumpBox();`,
	`var shared = {hits: %N}; var incA = (function(o){ return function(){ return ++o.hits } })(shared), incB = (function(o){ return function(){ return o.hits += 10 } })(shared); incA();`,
	// objects whose key lists grew one by one (spare capacity), arrays of objects, deep chains
	`var grown = {}; grown.k1 = 1; grown.k2 = 2; grown.k3 = %N; var grownArr = []; grownArr.push({i: 0}); grownArr.push({i: 1}); grownArr.push({i: 2}); var grownFn = function(){}; grownFn.a = 1; grownFn.b = 2; grownFn.c = 3;`,
	`var lvl0 = {depth: 0, tag: %N}; var lvl1 = Object.create(lvl0); lvl1.depth = 1; var lvl2 = Object.create(lvl1); lvl2.depth = 2; var lvl3 = Object.create(lvl2); var deepGet = function(){ return lvl3.depth + ":" + lvl3.tag };`,
	// eval-created bindings, Function constructor, with
	`eval("var fromEval = %N; function evalFn(){ return fromEval + 1 }"); var made = new Function("a", "b", "return a + b + " + %N); var useMade = function(){ return made(1, 2) + evalFn() };`,
	`var scopeObj = {sv: %N}; var inWith; with (scopeObj) { inWith = function(){ return sv++ } } inWith();`,
}

// AddKeys adds one fresh property (named with the tag) to every object and function reachable as a global,
// built-ins included: both sides of a copy get different tags, so storage shared between the clones
// (property maps, key-order slices with spare capacity) shows up as a wrong key list on one side.
const AddKeys = `(function (g) { var names = Object.getOwnPropertyNames(g).sort(), n = 0;
  for (var i = 0; i < names.length; i++) { var v; try { v = g[names[i]]; } catch (e) { continue; }
    if ((typeof v === "object" && v !== null) || typeof v === "function") { try { v["added_%TAG"] = i; n++; } catch (e) {} } }
  return n; })(this)`

// ProbeKeys counts the global objects and functions on which a property named with the OTHER side's tag can be
// found by name (own or inherited) although this side never added it: a property table shared between the clones
// answers lookups by name even when the key list (what getOwnPropertyNames and the dump see) is per clone.
const ProbeKeys = `(function (g) { var names = Object.getOwnPropertyNames(g).sort(), seen = [];
  for (var i = 0; i < names.length; i++) { var v; try { v = g[names[i]]; } catch (e) { continue; }
    if ((typeof v === "object" && v !== null) || typeof v === "function") { try { if (("added_%TAG" in v) || v["added_%TAG"] !== undefined || Object.getOwnPropertyDescriptor(v, "added_%TAG") !== undefined) seen.push(names[i]); } catch (e) {} } }
  return seen.join(); })(this)`

// Mutators: programs that change the heap built by the builders (assignments, deletions,
// defineProperty, freezing, prototype edits, closure state changes, built-in edits). Every
// statement is guarded so that a missing name does not stop the rest.
var Mutators = []string{
	`try { counter(); counter() } catch (e) {} try { pinc(); pinc() } catch (e) {}`,
	`try { dog.name = "mut"; Animal.prototype.speak = function(){ return "changed" }; Dog.prototype.extra = 1 } catch (e) {}`,
	`try { base.b = 1000; delete mid.m; leaf.l = -1 } catch (e) {}`,
	`try { acc.v = 50; lit.q = 77 } catch (e) {}`,
	`try { attrs.a = "mut"; delete attrs.ro; Object.defineProperty(attrs, "z", {enumerable: false}) } catch (e) {}`,
	`try { Object.freeze(attrs); Object.seal(base) } catch (e) {}`,
	`try { leaked[1] = "m"; aliasing.set("mut") } catch (e) {}`,
	`try { withProps(); withProps.nested.deep[2].three = "mut"; delete withProps.label } catch (e) {}`,
	`try { Array.prototype.last = function(){ return "mutlast" }; Array.prototype.extra = 1; delete String.prototype.shout } catch (e) {}`,
	`try { Object.prototype.toString = function(){ return "mutated" } } catch (e) {}`,
	`try { Math.extra = -1; delete JSON.tag; Number.prototype.double = null } catch (e) {}`,
	`try { re.lastIndex = 0; re.test("a"); re2.lastIndex = 9 } catch (e) {}`,
	`try { when.setTime(0); when.extra = 2; err.message = "mut"; err.code++ } catch (e) {}`,
	`try { cycA.peer = null; arrCyc.push("m"); cycB.name = "mut" } catch (e) {}`,
	`try { holes[1] = "filled"; sparse.length = 0; wrapS.extra = 2 } catch (e) {}`,
	`try { temp.f = 2; Object.defineProperty(Temp.prototype, "f", {get: function(){ return "mutget" }}) } catch (e) {}`,
	`try { fromEval = -5; scopeObj.sv = 100; inWith() } catch (e) {}`,
	`var brandNew = {fresh: true}; this.alsoNew = [1, 2, 3]; undeclaredNew = 1;`,
	`try { delete this.counter; delete this.dog; Animal = null } catch (e) {}`,
	`try { Object.defineProperty(this, "definedGlobal", {value: 1, enumerable: false, configurable: true}); Object.defineProperty(Array.prototype, "hiddenExtra", {value: 2}) } catch (e) {}`,
	`try { log("mutator ran", typeof counter) } catch (e) {}`,
	`try { bound.extra = 1; three.prototype.mark = 1; Function.prototype.fpExtra = function(){ return 1 } } catch (e) {}`,
}

// Targeted triples: a setup, a program for the copy and a program for the original chosen so that storage
// shared between the clones (or a clone path that loses something) shows up on one of the sides.
type Triple struct{ Setup, OnCopy, OnOrig string }

var Targeted = []Triple{
	// arguments objects: parameter mapping shared between the clones
	{`var amap = (function(p, q){ var args = arguments; return { del: function(i){ return delete args[i] }, set: function(i, v){ args[i] = v }, setP: function(v){ p = v }, get: function(){ return p + ":" + q + ":" + args[0] + ":" + args[1] + ":" + args.length } } })(1, 2); var amapGet = amap.get;`,
		`amap.del(0); amap.set(1, "c"); amap.get()`, `amap.setP("o"); amap.set(0, "z"); amap.get()`},
	{`var amap2 = (function(p){ var args = arguments; return { del: function(){ return delete args[0] }, setP: function(v){ p = v; return args[0] }, get: function(){ return p + ":" + args[0] } } })(5); var amap2Get = amap2.get;`,
		`amap2.setP("c")`, `amap2.del(); amap2.setP("o")`},
	// accessor halves: setter only, getter only, both, redefinition on one side
	{`var halves = {}; Object.defineProperty(halves, "w", {set: function(v){ this._w = v }, configurable: true, enumerable: true}); Object.defineProperty(halves, "r", {get: function(){ return this._w }, configurable: true}); Object.defineProperty(halves, "rw", {get: function(){ return 1 }, set: function(v){ this._rw = v }, configurable: true}); function HalfProto(){} Object.defineProperty(HalfProto.prototype, "pw", {set: function(v){ this._pw = v }, configurable: true}); var halfInst = new HalfProto(); var halvesRead = function(){ halves.w = 4; halfInst.pw = 6; return halves.r + ":" + halves._w + ":" + halfInst._pw };`,
		`halves.w = "c"; halfInst.pw = "c"; Object.defineProperty(halves, "r", {get: function(){ return "copy" }}); halvesRead()`, `halves.w = "o"; halves.rw = "o"; halfInst.pw = "o"; halvesRead()`},
	// rebinding the global names of built-in constructors (natives kept aside)
	{`var NativeArray = Array, NativeTypeError = TypeError, NativeDate = Date; Array = function FakeArray(){ this.fake = true }; TypeError = function FakeTypeError(){}; Date = function FakeDate(){ this.fake = true }; var litKinds = function(){ var e; try { null.x } catch (x) { e = x } return ([] instanceof NativeArray) + ":" + ("a,b".split(",") instanceof NativeArray) + ":" + (e instanceof NativeTypeError) + ":" + (typeof new NativeDate(5).getTime) + ":" + (new Array().fake) };`,
		`litKinds(); Array = NativeArray; litKinds()`, `litKinds(); TypeError = 5; litKinds()`},
	{`var NativeObject = Object, NativeFunction = Function, NativeError = Error, NativeRegExp = RegExp, NativeString = String; Error = function FakeError(){}; RegExp = function FakeRegExp(){}; String = function FakeString(){ return "fake" }; var litKinds2 = function(){ return (/x/ instanceof NativeRegExp) + ":" + (typeof "a".length) + ":" + (new NativeError("m") instanceof NativeError) + ":" + ((function(){}) instanceof NativeFunction) + ":" + ({} instanceof NativeObject) };`,
		`litKinds2(); RegExp = NativeRegExp; litKinds2()`, `litKinds2(); delete this.Error; litKinds2()`},
	// key lists with spare capacity on functions, arrays, arguments, prototypes
	{`function KL(){} KL.prototype.a = 1; KL.prototype.b = 2; KL.prototype.c = 3; var klArgs = (function(){ arguments.x = 1; arguments.y = 2; arguments.z = 3; return arguments })(1); var klArr = [1]; klArr.p = 1; klArr.q = 2; klArr.r = 3;`,
		`KL.prototype.onCopy = 1; klArgs.onCopy = 1; klArr.onCopy = 1; KL.onCopy = 1; Object.keys(KL.prototype).concat(Object.keys(klArgs), Object.keys(klArr)).join()`, `KL.prototype.onOrig = 1; klArgs.onOrig = 1; klArr.onOrig = 1; KL.onOrig = 1; Object.keys(KL.prototype).concat(Object.keys(klArgs), Object.keys(klArr)).join()`},
	// attributes and extensibility changed on one side only
	{`var attrO = {x: 1, y: 2}; Object.defineProperty(attrO, "h", {value: 3, enumerable: false, writable: true, configurable: true}); var attrRead = function(){ return Object.keys(attrO).join() + ":" + Object.isFrozen(attrO) + ":" + Object.isExtensible(attrO) + ":" + JSON.stringify(Object.getOwnPropertyDescriptor(attrO, "h")) };`,
		`Object.freeze(attrO); attrRead()`, `Object.defineProperty(attrO, "h", {enumerable: true, writable: false}); Object.preventExtensions(attrO); attrRead()`},
	// closures over with/catch scopes, named function expressions, eval-declared bindings
	{`var scopeFns = (function(){ var fs = {}; with ({wv: 1}) { fs.w = function(d){ wv += d; return wv } } try { throw {cv: 1} } catch (ce) { fs.c = function(d){ ce.cv += d; return ce.cv } } fs.n = function nfe(d){ nfe = d; return typeof nfe }; eval("var ev = 1"); fs.e = function(d){ ev += d; return ev }; return fs })(); var scopeRun = function(){ return scopeFns.w(1) + ":" + scopeFns.c(1) + ":" + scopeFns.n(1) + ":" + scopeFns.e(1) };`,
		`scopeFns.w(10); scopeFns.c(10); scopeFns.e(10); scopeRun()`, `scopeFns.w(100); scopeFns.c(100); scopeFns.e(100); scopeRun()`},
	// RegExp / Date / Error / wrapper internals changed on one side
	{`var intRe = /ab+/g, intDate = new Date(1000), intErr = new RangeError("r"), intNum = new Number(5), intStr = new String("s"); intRe.exec("xabbb"); var intRead = function(){ return intRe.lastIndex + ":" + intRe.source + ":" + intDate.getTime() + ":" + intErr.message + ":" + intErr.name + ":" + (intNum + 1) + ":" + intStr.length };`,
		`intRe.lastIndex = 0; intDate.setTime(5); intErr.message = "c"; intRead()`, `intRe.exec("abab"); intDate.setUTCFullYear(2001); intErr.name = "o"; intRead()`},
	// bound functions: this, arguments and targets that are objects of the heap
	{`var bThis = {n: 0}, bArg = {k: 0}, bTarget = function(a, b){ this.n++; a.k++; return this.n + ":" + a.k + ":" + b }; var bFn = bTarget.bind(bThis, bArg); var bFn2 = bFn.bind(null, "x"); bFn2();`,
		`bFn2(); bThis.n = 50; bFn("c")`, `bArg.k = 70; bFn2(); bFn("o")`},
}

// RichSetup is every builder (with a fixed number) except those that remove or replace built-ins other
// programs rely on: a template whose copies exercise every clone path at once.
func RichSetup() []string {
	var out []string
	for i, b := range Builders {
		if strings.Contains(b, "delete Array.prototype") || strings.Contains(b, "Object.prototype.toString =") {
			continue
		}
		out = append(out, strings.ReplaceAll(b, "%N", strconv.Itoa(i%10)))
	}
	return out
}

// Piece draws one builder/mutator with its number filled in, or a generated program.
func Piece(t *rapid.T, pool []string, label string) string {
	if rapid.IntRange(0, 9).Draw(t, label+"-gen") < 3 {
		return prog.Print(prog.GenProgram(t))
	}
	s := rapid.SampledFrom(pool).Draw(t, label)
	return strings.ReplaceAll(s, "%N", strconv.Itoa(rapid.IntRange(0, 9).Draw(t, label+"-n")))
}
