// Package m11 is the reference model behind property C11 (JSON): a JSON value tree, a strict
// reader/recogniser for the ES5.1 15.12.1 grammar (written from the grammar, not encoding/json),
// several independent renderers of a tree to JSON text, a one-edit mutator, and models of
// 15.12.2 (parse + reviver Walk) and 15.12.3 (stringify: Str / Quote / JO / JA).
package m11

import (
	"fmt"
	"math"
	"strconv"
	"strings"
)

// Kind of a JSON value.
type Kind int

const (
	Null Kind = iota
	Bool
	Num
	Str
	Arr
	Obj
)

// Member is one name/value pair of an object, in text order.
type Member struct {
	Key []uint16
	Val *Node
}

// Node is a JSON value: numbers are exact doubles (−0 is distinct from +0), strings are UTF-16
// code unit sequences, objects keep their members in text order (duplicates possible before Dedupe).
type Node struct {
	K   Kind
	B   bool
	N   float64
	S   []uint16
	Arr []*Node
	Obj []Member
}

func NullNode() *Node            { return &Node{K: Null} }
func BoolNode(b bool) *Node      { return &Node{K: Bool, B: b} }
func NumNode(x float64) *Node    { return &Node{K: Num, N: x} }
func StrNode(s []uint16) *Node   { return &Node{K: Str, S: s} }
func ArrNode(e ...*Node) *Node   { return &Node{K: Arr, Arr: e} }
func ObjNode(m ...Member) *Node  { return &Node{K: Obj, Obj: m} }
func U(s string) []uint16        { return utf16Of(s) }
func Eq16(a, b []uint16) bool    { return eq16(a, b) }
func Show16(u []uint16) string   { return show16(u) }
func HasLone(u []uint16) bool    { return hasLone(u) }
func Key16(u []uint16) string    { return key16(u) }
func SameDouble(a, b float64) bool { return math.Float64bits(a) == math.Float64bits(b) }

func utf16Of(s string) []uint16 {
	out := make([]uint16, 0, len(s))
	for _, r := range s {
		if r >= 0x10000 {
			r -= 0x10000
			out = append(out, uint16(0xD800+(r>>10)), uint16(0xDC00+(r&0x3ff)))
		} else {
			out = append(out, uint16(r))
		}
	}
	return out
}

func eq16(a, b []uint16) bool {
	if len(a) != len(b) {
		return false
	}
	for i := range a {
		if a[i] != b[i] {
			return false
		}
	}
	return true
}

// key16 maps a code unit sequence injectively to a Go string usable as a map key.
func key16(u []uint16) string {
	b := make([]byte, 2*len(u))
	for i, c := range u {
		b[2*i] = byte(c >> 8)
		b[2*i+1] = byte(c)
	}
	return string(b)
}

func show16(u []uint16) string {
	var b strings.Builder
	b.WriteByte('"')
	for _, c := range u {
		switch {
		case c == '"' || c == '\\':
			b.WriteByte('\\')
			b.WriteByte(byte(c))
		case c >= 0x20 && c < 0x7f:
			b.WriteByte(byte(c))
		default:
			fmt.Fprintf(&b, "\\u%04X", c)
		}
	}
	b.WriteByte('"')
	return b.String()
}

func hasLone(u []uint16) bool {
	for i := 0; i < len(u); i++ {
		c := u[i]
		switch {
		case c >= 0xD800 && c < 0xDC00:
			if i+1 < len(u) && u[i+1] >= 0xDC00 && u[i+1] < 0xE000 {
				i++
				continue
			}
			return true
		case c >= 0xDC00 && c < 0xE000:
			return true
		}
	}
	return false
}

// Dedupe returns the value the text denotes under 15.12.2 (evaluation of the JSON text as an
// ES5 object literal: [[DefineOwnProperty]] per member, so a later duplicate replaces the value
// of an earlier one and keeps the earlier one's position). Arrays and members are copied.
func (n *Node) Dedupe() *Node {
	switch n.K {
	case Arr:
		out := &Node{K: Arr, Arr: make([]*Node, len(n.Arr))}
		for i, e := range n.Arr {
			out.Arr[i] = e.Dedupe()
		}
		return out
	case Obj:
		out := &Node{K: Obj}
		pos := map[string]int{}
		for _, m := range n.Obj {
			k := key16(m.Key)
			v := m.Val.Dedupe()
			if i, ok := pos[k]; ok {
				out.Obj[i].Val = v
				continue
			}
			pos[k] = len(out.Obj)
			out.Obj = append(out.Obj, Member{Key: m.Key, Val: v})
		}
		return out
	}
	c := *n
	return &c
}

// NormZero returns a copy with every −0 replaced by +0 (what JSON.stringify can transport).
func (n *Node) NormZero() *Node {
	switch n.K {
	case Num:
		if n.N == 0 {
			return NumNode(0)
		}
		return NumNode(n.N)
	case Arr:
		out := &Node{K: Arr, Arr: make([]*Node, len(n.Arr))}
		for i, e := range n.Arr {
			out.Arr[i] = e.NormZero()
		}
		return out
	case Obj:
		out := &Node{K: Obj}
		for _, m := range n.Obj {
			out.Obj = append(out.Obj, Member{Key: m.Key, Val: m.Val.NormZero()})
		}
		return out
	}
	c := *n
	return &c
}

// Diff compares two deduplicated trees: numbers by bits, strings by code units, object members as
// a set of keys. It returns "" when equal, else the path and what differs.
func Diff(want, got *Node) string { return diff("$", want, got) }

func diff(path string, w, g *Node) string {
	if w.K != g.K {
		return fmt.Sprintf("%s: want %s, got %s", path, w.Brief(), g.Brief())
	}
	switch w.K {
	case Bool:
		if w.B != g.B {
			return fmt.Sprintf("%s: want %v, got %v", path, w.B, g.B)
		}
	case Num:
		if math.Float64bits(w.N) != math.Float64bits(g.N) {
			return fmt.Sprintf("%s: want number %s, got %s", path, numRepr(w.N), numRepr(g.N))
		}
	case Str:
		if !eq16(w.S, g.S) {
			return fmt.Sprintf("%s: want string %s, got %s", path, show16(w.S), show16(g.S))
		}
	case Arr:
		if len(w.Arr) != len(g.Arr) {
			return fmt.Sprintf("%s: want array of %d, got array of %d", path, len(w.Arr), len(g.Arr))
		}
		for i := range w.Arr {
			if d := diff(fmt.Sprintf("%s[%d]", path, i), w.Arr[i], g.Arr[i]); d != "" {
				return d
			}
		}
	case Obj:
		gm := map[string]*Node{}
		for _, m := range g.Obj {
			gm[key16(m.Key)] = m.Val
		}
		if len(gm) != len(g.Obj) {
			return fmt.Sprintf("%s: got object repeats a key", path)
		}
		for _, m := range w.Obj {
			v, ok := gm[key16(m.Key)]
			if !ok {
				return fmt.Sprintf("%s: member %s missing (got keys %s)", path, show16(m.Key), g.keyList())
			}
			if d := diff(path+"."+show16(m.Key), m.Val, v); d != "" {
				return d
			}
			delete(gm, key16(m.Key))
		}
		if len(gm) != 0 {
			return fmt.Sprintf("%s: unexpected members: got keys %s, want keys %s", path, g.keyList(), w.keyList())
		}
	}
	return ""
}

func (n *Node) keyList() string {
	p := make([]string, len(n.Obj))
	for i, m := range n.Obj {
		p[i] = show16(m.Key)
	}
	return "[" + strings.Join(p, ",") + "]"
}

func numRepr(x float64) string {
	if x == 0 && math.Signbit(x) {
		return "-0"
	}
	return strconv.FormatFloat(x, 'g', -1, 64)
}

// Brief is a short description for messages.
func (n *Node) Brief() string {
	switch n.K {
	case Null:
		return "null"
	case Bool:
		return strconv.FormatBool(n.B)
	case Num:
		return "number " + numRepr(n.N)
	case Str:
		return "string " + show16(n.S)
	case Arr:
		return fmt.Sprintf("array(%d)", len(n.Arr))
	}
	return fmt.Sprintf("object%s", n.keyList())
}

// Stats summarises a tree for non-triviality rules and histograms.
type Stats struct {
	Nodes, Depth                                  int
	Containers, EscapeStrings, NonIntNumbers      int
	NegZero, DupKeys, EmptyKeys, EmptyContainers  int
	Astral, Controls, LineSeps, LoneSurrogates    int
	LoneInKey                                     bool
}

func (n *Node) Stats() Stats {
	var s Stats
	n.stats(&s, 1)
	return s
}

func strStats(u []uint16, s *Stats, isKey bool) {
	esc := false
	for i := 0; i < len(u); i++ {
		c := u[i]
		switch {
		case c < 0x20:
			s.Controls++
			esc = true
		case c == '"' || c == '\\':
			esc = true
		case c == 0x2028 || c == 0x2029:
			s.LineSeps++
		case c >= 0xD800 && c < 0xDC00 && i+1 < len(u) && u[i+1] >= 0xDC00 && u[i+1] < 0xE000:
			s.Astral++
			i++
		case c >= 0xD800 && c < 0xE000:
			s.LoneSurrogates++
			if isKey {
				s.LoneInKey = true
			}
		}
	}
	if esc {
		s.EscapeStrings++
	}
}

func (n *Node) stats(s *Stats, d int) {
	s.Nodes++
	if d > s.Depth {
		s.Depth = d
	}
	switch n.K {
	case Num:
		if n.N != math.Trunc(n.N) || math.Abs(n.N) >= 1e21 {
			s.NonIntNumbers++
		}
		if n.N == 0 && math.Signbit(n.N) {
			s.NegZero++
		}
	case Str:
		strStats(n.S, s, false)
	case Arr:
		s.Containers++
		if len(n.Arr) == 0 {
			s.EmptyContainers++
		}
		for _, e := range n.Arr {
			e.stats(s, d+1)
		}
	case Obj:
		s.Containers++
		if len(n.Obj) == 0 {
			s.EmptyContainers++
		}
		seen := map[string]bool{}
		for _, m := range n.Obj {
			if seen[key16(m.Key)] {
				s.DupKeys++
			}
			seen[key16(m.Key)] = true
			if len(m.Key) == 0 {
				s.EmptyKeys++
			}
			strStats(m.Key, s, true)
			m.Val.stats(s, d+1)
		}
	}
}

// ---- compact, exact, JSON-serialisable encoding of a tree (for replay files) ---------------------

// Enc is the replay-file form of a Node: {"n":"-0"} {"s":[…units]} {"a":[…]} {"o":[{"k":[…],"v":…}]} {"b":true} {"z":true}
type Enc struct {
	Z bool      `json:"z,omitempty"` // null
	B *bool     `json:"b,omitempty"`
	N *string   `json:"n,omitempty"` // exact literal of the double
	S *[]uint16 `json:"s,omitempty"`
	A *[]*Enc   `json:"a,omitempty"`
	O *[]EncMem `json:"o,omitempty"`
}

type EncMem struct {
	K []uint16 `json:"k"`
	V *Enc     `json:"v"`
}

func NumLit(x float64) string {
	switch {
	case math.IsNaN(x):
		return "NaN"
	case math.IsInf(x, 1):
		return "Infinity"
	case math.IsInf(x, -1):
		return "-Infinity"
	case x == 0 && math.Signbit(x):
		return "-0"
	}
	return strconv.FormatFloat(x, 'e', -1, 64)
}

func ParseLit(l string) float64 {
	switch l {
	case "NaN":
		return math.NaN()
	case "Infinity":
		return math.Inf(1)
	case "-Infinity":
		return math.Inf(-1)
	case "-0":
		return math.Copysign(0, -1)
	}
	f, _ := strconv.ParseFloat(l, 64)
	return f
}

func (n *Node) Encode() *Enc {
	switch n.K {
	case Null:
		return &Enc{Z: true}
	case Bool:
		b := n.B
		return &Enc{B: &b}
	case Num:
		l := NumLit(n.N)
		return &Enc{N: &l}
	case Str:
		s := append([]uint16{}, n.S...)
		return &Enc{S: &s}
	case Arr:
		a := make([]*Enc, len(n.Arr))
		for i, e := range n.Arr {
			a[i] = e.Encode()
		}
		return &Enc{A: &a}
	}
	o := make([]EncMem, len(n.Obj))
	for i, m := range n.Obj {
		o[i] = EncMem{K: append([]uint16{}, m.Key...), V: m.Val.Encode()}
	}
	return &Enc{O: &o}
}

func (e *Enc) Decode() *Node {
	switch {
	case e == nil || e.Z:
		return NullNode()
	case e.B != nil:
		return BoolNode(*e.B)
	case e.N != nil:
		return NumNode(ParseLit(*e.N))
	case e.S != nil:
		return StrNode(*e.S)
	case e.A != nil:
		n := &Node{K: Arr}
		for _, x := range *e.A {
			n.Arr = append(n.Arr, x.Decode())
		}
		return n
	case e.O != nil:
		n := &Node{K: Obj}
		for _, m := range *e.O {
			n.Obj = append(n.Obj, Member{Key: m.K, Val: m.V.Decode()})
		}
		return n
	}
	return NullNode()
}
