package m11

import (
	"fmt"
	"math"
	"strings"
	"time"
)

// ---- description of a JS value handed to JSON.stringify ------------------------------------------------
//
// SV is a JSON-serialisable description of a JS value graph. It is rendered to ES5 source that
// builds the value (BuildJS) and interpreted by the model of 15.12.3 (Stringify). Functions have a
// fixed behaviour so that the model needs no evaluator.

type SV struct {
	K   string   `json:"k"`            // undef null bool num str func wnum wstr wbool arr obj ref date
	B   bool     `json:"b,omitempty"`  // bool, wbool
	N   string   `json:"n,omitempty"`  // num, wnum: exact literal; date: time value (integer ms)
	S   []uint16 `json:"s,omitempty"`  // str, wstr
	ID  int      `json:"id,omitempty"` // arr, obj: identity (creation order, unique in the whole case)
	El  []*SV    `json:"el,omitempty"` // arr: elements, null = hole
	Mem []SMem   `json:"m,omitempty"`  // obj: members in creation order; arr: extra named (non-index) members
	Ref int      `json:"ref,omitempty"`
	Fn  *Fn      `json:"fn,omitempty"` // func: what it does when called (as toJSON)
	Ov  *Ov      `json:"ov,omitempty"` // wnum/wstr: own valueOf/toString override
}

// SMem is a member of an object (or a named extra member of an array).
type SMem struct {
	Key  []uint16 `json:"k"`
	Val  *SV      `json:"v"`
	Attr string   `json:"a,omitempty"` // "" own enumerable data | "hidden" own non-enumerable data | "getter" own enumerable accessor returning Val | "proto" enumerable data property of the prototype object
}

// Fn is the behaviour of a generated function: it logs ["tj", key] and then
// "const": returns Ret (built once, when the graph is built) — Ret nil means undefined;
// "key": returns "K:"+key; "this": returns this; "throw": throws a RangeError.
type Fn struct {
	Mode string `json:"mode"`
	Ret  *SV    `json:"ret,omitempty"`
}

// Ov overrides a conversion method on a wrapper object with a function returning a constant.
type Ov struct {
	Which string   `json:"which"`       // "valueOf" or "toString"
	N     string   `json:"n,omitempty"` // wnum: number literal returned
	S     []uint16 `json:"s,omitempty"` // wstr: string returned
}

// Replacer describes the replacer argument.
type Replacer struct {
	Kind string `json:"kind"` // "none" "func" "list" "other"
	// func: function(k,v){ log; if(k===Drop)return undefined; if(k===SubKey)return <Sub>; if(Dbl&&typeof v==="number")return v*2; return v }
	Drop   *[]uint16 `json:"drop,omitempty"`
	SubKey *[]uint16 `json:"subkey,omitempty"`
	Sub    *SV       `json:"sub,omitempty"`
	Dbl    bool      `json:"dbl,omitempty"`
	// list: array of items (null entry = hole): str, num, wstr, wnum are candidates; everything else is junk
	List []*SV `json:"list,omitempty"`
	// other: a non-callable, non-array value (ignored by 15.12.3 step 4)
	Other *SV `json:"other,omitempty"`
}

// Space describes the space argument.
type Space struct {
	Kind string   `json:"kind"`        // "none" "num" "str" "wnum" "wstr" "other"
	N    string   `json:"n,omitempty"` // num, wnum
	S    []uint16 `json:"s,omitempty"` // str, wstr
	O    *SV      `json:"o,omitempty"` // other: null, bool, object … (ignored)
}

// ---- JS source -------------------------------------------------------------------------------------------

// Builder renders value descriptions to ES5 statements. All statements go to Stmts; expression
// strings returned by Expr refer to variables declared there.
type Builder struct {
	Stmts strings.Builder
	Quote func([]uint16) string // string literal writer (harness.JSString16)
	tmp   int
}

func (b *Builder) fresh(p string) string {
	b.tmp++
	return fmt.Sprintf("%s%d", p, b.tmp)
}

func jsNum(l string) string {
	if l == "-0" {
		return "(-0)"
	}
	if strings.HasPrefix(l, "-") {
		return "(" + l + ")"
	}
	return l
}

// Expr emits the statements that build v and returns an expression denoting it.
func (b *Builder) Expr(v *SV) string {
	if v == nil {
		return "undefined"
	}
	switch v.K {
	case "undef":
		return "undefined"
	case "null":
		return "null"
	case "bool":
		return fmt.Sprint(v.B)
	case "num":
		return jsNum(v.N)
	case "str":
		return b.Quote(v.S)
	case "func":
		return b.fn(v.Fn)
	case "wbool":
		return fmt.Sprintf("new Boolean(%v)", v.B)
	case "wnum", "wstr":
		var ctor string
		if v.K == "wnum" {
			ctor = "new Number(" + jsNum(v.N) + ")"
		} else {
			ctor = "new String(" + b.Quote(v.S) + ")"
		}
		if v.Ov == nil {
			return ctor
		}
		w := b.fresh("w")
		ret := jsNum(v.Ov.N)
		if v.K == "wstr" {
			ret = b.Quote(v.Ov.S)
		}
		fmt.Fprintf(&b.Stmts, "var %s=%s;%s.%s=function(){return %s};\n", w, ctor, w, v.Ov.Which, ret)
		return w
	case "date":
		return "new Date(" + v.N + ")"
	case "ref":
		return fmt.Sprintf("v%d", v.Ref)
	case "arr":
		name := fmt.Sprintf("v%d", v.ID)
		fmt.Fprintf(&b.Stmts, "var %s=[];\n", name)
		for i, e := range v.El {
			if e == nil {
				continue
			}
			x := b.Expr(e)
			fmt.Fprintf(&b.Stmts, "%s[%d]=%s;\n", name, i, x)
		}
		fmt.Fprintf(&b.Stmts, "%s.length=%d;\n", name, len(v.El))
		for _, m := range v.Mem {
			x := b.Expr(m.Val)
			fmt.Fprintf(&b.Stmts, "%s[%s]=%s;\n", name, b.Quote(m.Key), x)
		}
		return name
	case "obj":
		name := fmt.Sprintf("v%d", v.ID)
		hasProto := false
		for _, m := range v.Mem {
			if m.Attr == "proto" {
				hasProto = true
			}
		}
		if hasProto {
			fmt.Fprintf(&b.Stmts, "var p%d={};var %s=Object.create(p%d);\n", v.ID, name, v.ID)
		} else {
			fmt.Fprintf(&b.Stmts, "var %s={};\n", name)
		}
		for _, m := range v.Mem {
			x := b.Expr(m.Val)
			k := b.Quote(m.Key)
			switch m.Attr {
			case "proto":
				fmt.Fprintf(&b.Stmts, "p%d[%s]=%s;\n", v.ID, k, x)
			case "hidden":
				fmt.Fprintf(&b.Stmts, "Object.defineProperty(%s,%s,{value:%s,enumerable:false,writable:true,configurable:true});\n", name, k, x)
			case "getter":
				g := b.fresh("g")
				fmt.Fprintf(&b.Stmts, "var %s=%s;Object.defineProperty(%s,%s,{get:function(){return %s},enumerable:true,configurable:true});\n", g, x, name, k, g)
			default:
				fmt.Fprintf(&b.Stmts, "%s[%s]=%s;\n", name, k, x)
			}
		}
		return name
	}
	panic("m11: unknown SV kind " + v.K)
}

func (b *Builder) fn(f *Fn) string {
	if f == nil {
		f = &Fn{Mode: "const"}
	}
	switch f.Mode {
	case "key":
		return `function(k){__log.push(["tj",k]);return "K:"+k}`
	case "this":
		return `function(k){__log.push(["tj",k]);return this}`
	case "throw":
		return `function(k){__log.push(["tj",k]);throw new RangeError("tj")}`
	}
	if f.Ret == nil {
		return `function(k){__log.push(["tj",k]);return undefined}`
	}
	x := b.Expr(f.Ret)
	r := b.fresh("r")
	fmt.Fprintf(&b.Stmts, "var %s=%s;\n", r, x)
	return fmt.Sprintf(`function(k){__log.push(["tj",k]);return %s}`, r)
}

// ReplacerExpr renders the replacer argument.
func (b *Builder) ReplacerExpr(r *Replacer) string {
	switch r.Kind {
	case "func":
		var s strings.Builder
		s.WriteString(`function(k,v){var c=Object.prototype.toString.call(this),e;` +
			`if(v===undefined)e=["rp",c,k,"undefined"];else if(v===null)e=["rp",c,k,"null"];` +
			`else if(typeof v==="object"||typeof v==="function")e=["rp",c,k,"object",Object.prototype.toString.call(v)];` +
			`else e=["rp",c,k,typeof v,v];__log.push(e);`)
		if r.Drop != nil {
			fmt.Fprintf(&s, "if(k===%s)return undefined;", b.Quote(*r.Drop))
		}
		if r.SubKey != nil {
			x := b.Expr(r.Sub)
			sv := b.fresh("s")
			fmt.Fprintf(&b.Stmts, "var %s=%s;\n", sv, x)
			fmt.Fprintf(&s, "if(k===%s)return %s;", b.Quote(*r.SubKey), sv)
		}
		if r.Dbl {
			s.WriteString(`if(typeof v==="number")return v*2;`)
		}
		s.WriteString("return v}")
		return s.String()
	case "list":
		name := b.fresh("l")
		fmt.Fprintf(&b.Stmts, "var %s=[];\n", name)
		for i, it := range r.List {
			if it == nil {
				continue
			}
			x := b.Expr(it)
			fmt.Fprintf(&b.Stmts, "%s[%d]=%s;\n", name, i, x)
		}
		fmt.Fprintf(&b.Stmts, "%s.length=%d;\n", name, len(r.List))
		return name
	case "other":
		return b.Expr(r.Other)
	}
	return "undefined"
}

// SpaceExpr renders the space argument.
func (b *Builder) SpaceExpr(s *Space) string {
	switch s.Kind {
	case "num":
		return jsNum(s.N)
	case "wnum":
		return "new Number(" + jsNum(s.N) + ")"
	case "str":
		return b.Quote(s.S)
	case "wstr":
		return "new String(" + b.Quote(s.S) + ")"
	case "other":
		return b.Expr(s.O)
	}
	return "undefined"
}

// ---- the model of 15.12.3 ------------------------------------------------------------------------------------

// Ser is the serialisation the model computes: the structure behind the text, so that the text
// can be compared without fixing the order of object members.
type Ser struct {
	K    string // "lit" (null true false or number text) "str" "arr" "obj"
	Lit  string
	S    []uint16
	Arr  []*Ser
	Keys [][]uint16 // obj, in K order (PropertyList order or enumeration order)
	Vals []*Ser
}

// LogEntry is one logged call during stringify: toJSON ("tj", key) or replacer ("rp", class of this, key, value summary).
type LogEntry struct {
	Kind  string // tj rp
	Class string // rp: class of the holder, "[object Object]" / "[object Array]"
	Key   []uint16
	Val   string // rp: canonical summary of the value argument
}

func (e LogEntry) String() string {
	if e.Kind == "tj" {
		return "toJSON(" + show16(e.Key) + ")"
	}
	return fmt.Sprintf("replacer(this:%s, %s, %s)", e.Class, show16(e.Key), e.Val)
}

// CallTree is the nesting of logged calls: the calls made directly by Str(key, holder), then the
// calls of the members it serialises (array: ascending; object: PropertyList order when there is
// one, else the implementation's enumeration order).
type CallTree struct {
	Own      []LogEntry
	Children []*CallTree
	Ordered  bool
}

func (c *CallTree) size() int {
	n := len(c.Own)
	for _, ch := range c.Children {
		n += ch.size()
	}
	return n
}

// Outcome of the model.
type StringifyResult struct {
	Throws    string // "" | "TypeError" (cycle) | "RangeError" (a generated toJSON throws)
	Undefined bool   // the result is undefined
	Ser       *Ser
	Gap       []uint16
	Calls     *CallTree
	PropList  [][]uint16 // nil when no property list
	// facts for classification / exclusions
	ListIrregular bool // the replacer array has a rejected (junk, duplicate, hole) entry before an accepted one
	UsedToJSON, UsedReplacer, Unboxed, Omitted, NullInArray, NonFinite, Inherited, Hidden, Getter, Shared bool
}

type strCtx struct {
	rep      *Replacer
	propList [][]uint16
	hasList  bool
	heap     map[int]*SV
	stack    []int
	visited  []int
	res      *StringifyResult
}

type abrupt struct{ name string }

func collectHeap(v *SV, heap map[int]*SV) {
	if v == nil {
		return
	}
	switch v.K {
	case "arr", "obj":
		heap[v.ID] = v
		for _, e := range v.El {
			collectHeap(e, heap)
		}
		for _, m := range v.Mem {
			collectHeap(m.Val, heap)
		}
	case "func":
		if v.Fn != nil {
			collectHeap(v.Fn.Ret, heap)
		}
	}
}

func isObjectKind(v *SV) bool {
	switch v.K {
	case "func", "wnum", "wstr", "wbool", "arr", "obj", "date":
		return true
	}
	return false
}

var undefSV = &SV{K: "undef"}

func (c *strCtx) deref(v *SV) *SV {
	if v == nil {
		return undefSV
	}
	if v.K == "ref" {
		t := c.heap[v.Ref]
		if t == nil {
			panic(fmt.Sprintf("m11: dangling ref %d", v.Ref))
		}
		return t
	}
	return v
}

func isIndexKey(k []uint16) (int, bool) {
	if len(k) == 0 || len(k) > 9 || (len(k) > 1 && k[0] == '0') {
		return 0, false
	}
	n := 0
	for _, c := range k {
		if c < '0' || c > '9' {
			return 0, false
		}
		n = n*10 + int(c-'0')
	}
	return n, true
}

// get is [[Get]] on a generated object: own properties (the last write to a key wins, any attribute), then the prototype.
func (c *strCtx) get(o *SV, key []uint16) *SV {
	switch o.K {
	case "arr":
		if i, ok := isIndexKey(key); ok {
			if i < len(o.El) && o.El[i] != nil {
				return c.deref(o.El[i])
			}
			return undefSV
		}
		var found *SV
		for _, m := range o.Mem {
			if eq16(m.Key, key) {
				found = m.Val
			}
		}
		if found != nil {
			return c.deref(found)
		}
		return undefSV // Array.prototype has no toJSON; "length" is never looked up through here
	case "obj":
		var found *SV
		for _, m := range o.Mem {
			if m.Attr != "proto" && eq16(m.Key, key) {
				found = m.Val
				if found == nil {
					found = undefSV
				}
				switch m.Attr {
				case "hidden":
					c.res.Hidden = true
				case "getter":
					c.res.Getter = true
				}
			}
		}
		if found != nil {
			return c.deref(found)
		}
		for _, m := range o.Mem {
			if m.Attr == "proto" && eq16(m.Key, key) {
				found = m.Val
				if found == nil {
					found = undefSV
				}
			}
		}
		if found != nil {
			c.res.Inherited = true
			return c.deref(found)
		}
	}
	return undefSV
}

// ownEnumerableKeys: the own properties with [[Enumerable]] true in creation order (a key keeps the
// position and the attribute of its first definition: a later plain assignment only changes the value).
func ownEnumerableKeys(o *SV) [][]uint16 {
	var keys [][]uint16
	seen := map[string]bool{}
	for _, m := range o.Mem {
		if m.Attr == "proto" || seen[key16(m.Key)] {
			continue
		}
		seen[key16(m.Key)] = true
		if m.Attr != "hidden" {
			keys = append(keys, m.Key)
		}
	}
	return keys
}

func classOf(v *SV) string {
	switch v.K {
	case "func":
		return "[object Function]"
	case "wnum":
		return "[object Number]"
	case "wstr":
		return "[object String]"
	case "wbool":
		return "[object Boolean]"
	case "arr":
		return "[object Array]"
	case "date":
		return "[object Date]"
	}
	return "[object Object]"
}

// Summary is the canonical text of a replacer value argument (also produced from otto's log by the check).
func Summary(kind string, b bool, n float64, s []uint16, class string) string {
	switch kind {
	case "boolean":
		return fmt.Sprintf("boolean:%v", b)
	case "number":
		if math.IsNaN(n) {
			return "number:NaN"
		}
		return "number:" + numRepr(n)
	case "string":
		return "string:" + show16(s)
	case "object":
		return "object:" + class
	}
	return kind
}

func summaryOf(v *SV) string {
	switch v.K {
	case "undef":
		return "undefined"
	case "null":
		return "null"
	case "bool":
		return Summary("boolean", v.B, 0, nil, "")
	case "num":
		return Summary("number", false, ParseLit(v.N), nil, "")
	case "str":
		return Summary("string", false, 0, v.S, "")
	}
	return Summary("object", false, 0, nil, classOf(v))
}

// ISODate is Date.prototype.toISOString for time values inside 1970..2099 (the only ones generated).
func ISODate(ms int64) string {
	return time.UnixMilli(ms).UTC().Format("2006-01-02T15:04:05.000Z")
}

// str is the abstract operation Str(key, holder) (15.12.3). holder is a generated arr/obj, or nil for the wrapper {"": value}.
func (c *strCtx) str(key []uint16, holder *SV, root *SV, tree *CallTree) *Ser {
	// 1. value = holder.[[Get]](key)
	var value *SV
	holderClass := "[object Object]"
	if holder == nil {
		value = c.deref(root)
	} else {
		value = c.get(holder, key)
		holderClass = classOf(holder)
	}
	// 2. toJSON
	if isObjectKind(value) {
		switch value.K {
		case "date":
			// Date.prototype.toJSON (15.9.5.44) → toISOString for a finite time value
			var ms int64
			fmt.Sscan(value.N, &ms)
			value = &SV{K: "str", S: ASCII(ISODate(ms))}
			c.res.UsedToJSON = true
		case "arr", "obj":
			tj := c.get(value, ASCII("toJSON"))
			if tj.K == "func" {
				c.res.UsedToJSON = true
				tree.Own = append(tree.Own, LogEntry{Kind: "tj", Key: key})
				f := tj.Fn
				if f == nil {
					f = &Fn{Mode: "const"}
				}
				switch f.Mode {
				case "key":
					value = &SV{K: "str", S: append(ASCII("K:"), key...)}
				case "this":
					// value unchanged
				case "throw":
					panic(abrupt{"RangeError"})
				default:
					value = c.deref(f.Ret)
				}
			}
		}
	}
	// 3. replacer function
	if c.rep != nil && c.rep.Kind == "func" {
		c.res.UsedReplacer = true
		tree.Own = append(tree.Own, LogEntry{Kind: "rp", Class: holderClass, Key: key, Val: summaryOf(value)})
		switch {
		case keyIs(c.rep.Drop, key):
			value = undefSV
		case keyIs(c.rep.SubKey, key):
			value = c.deref(c.rep.Sub)
		case c.rep.Dbl && value.K == "num":
			value = &SV{K: "num", N: NumLit(ParseLit(value.N) * 2)}
		}
	}
	// 4. unbox
	switch value.K {
	case "wnum": // ToNumber(value): ToPrimitive hint Number → valueOf
		c.res.Unboxed = true
		n := value.N
		if value.Ov != nil && value.Ov.Which == "valueOf" {
			n = value.Ov.N
		}
		value = &SV{K: "num", N: n}
	case "wstr": // ToString(value): ToPrimitive hint String → toString
		c.res.Unboxed = true
		s := value.S
		if value.Ov != nil && value.Ov.Which == "toString" {
			s = value.Ov.S
		}
		value = &SV{K: "str", S: s}
	case "wbool":
		c.res.Unboxed = true
		value = &SV{K: "bool", B: value.B}
	}
	// 5–9 primitives
	switch value.K {
	case "null":
		return &Ser{K: "lit", Lit: "null"}
	case "bool":
		if value.B {
			return &Ser{K: "lit", Lit: "true"}
		}
		return &Ser{K: "lit", Lit: "false"}
	case "str":
		return &Ser{K: "str", S: value.S}
	case "num":
		x := ParseLit(value.N)
		if math.IsNaN(x) || math.IsInf(x, 0) {
			c.res.NonFinite = true
			return &Ser{K: "lit", Lit: "null"}
		}
		if x == 0 {
			return &Ser{K: "lit", Lit: "0"} // ToString(−0) is "0" (9.8.1 step 2)
		}
		return &Ser{K: "lit", Lit: es5Number(x)}
	case "arr":
		return c.ja(value, tree)
	case "obj":
		return c.jo(value, tree)
	case "date":
		// a Date object that reaches step 10 (returned by a toJSON or by the replacer, so its own toJSON is not consulted):
		// not callable, not an array → JO; it has no own enumerable properties and nothing a property list names → "{}"
		return &Ser{K: "obj"}
	}
	// 10/11: undefined and functions → undefined
	return nil
}

func (c *strCtx) push(v *SV) {
	for _, id := range c.stack {
		if id == v.ID {
			panic(abrupt{"TypeError"}) // JO/JA step 1: stack contains value
		}
	}
	for _, id := range c.visited {
		if id == v.ID {
			c.res.Shared = true // serialised before and no longer on the stack: a shared, acyclic reference
		}
	}
	c.visited = append(c.visited, v.ID)
	c.stack = append(c.stack, v.ID)
}

func (c *strCtx) pop() { c.stack = c.stack[:len(c.stack)-1] }

func (c *strCtx) jo(v *SV, tree *CallTree) *Ser {
	c.push(v)
	defer c.pop()
	var keys [][]uint16
	if c.hasList {
		keys = c.propList
		tree.Ordered = true
	} else {
		keys = ownEnumerableKeys(v)
	}
	out := &Ser{K: "obj"}
	for _, p := range keys {
		child := &CallTree{}
		s := c.str(p, v, nil, child)
		tree.Children = append(tree.Children, child)
		if s == nil {
			c.res.Omitted = true
			continue
		}
		out.Keys = append(out.Keys, p)
		out.Vals = append(out.Vals, s)
	}
	return out
}

func (c *strCtx) ja(v *SV, tree *CallTree) *Ser {
	c.push(v)
	defer c.pop()
	tree.Ordered = true
	out := &Ser{K: "arr", Arr: []*Ser{}}
	for i := range v.El {
		child := &CallTree{}
		s := c.str(idxKey(i), v, nil, child)
		tree.Children = append(tree.Children, child)
		if s == nil {
			c.res.NullInArray = true
			s = &Ser{K: "lit", Lit: "null"}
		}
		out.Arr = append(out.Arr, s)
	}
	return out
}
