package m11

import (
	"fmt"
	"math"

	"pgregory.net/rapid"
)

// SVOpts steers the generator of stringify inputs.
type SVOpts struct {
	MaxDepth int
	Abrupt   string // "" (no abrupt completion possible), "cycle" (references to enclosing containers allowed), "throw" (a toJSON may throw)
}

var svKeys = [][]uint16{ASCII("a"), ASCII("b"), ASCII("c"), ASCII(""), ASCII("0"), ASCII("1"), ASCII("1.5"), ASCII("NaN"), ASCII("k"), {0xE9}, {'<'}, {0x2028}, {'"', 'q', '"'}, ASCII("x y"), ASCII("length"), ASCII("null"), {0x0A}, {0x1F}, ASCII("\\u003c"), ASCII("\\u2029>"), ASCII("\\\\u0026")}

var svNumbers = []float64{0, math.Copysign(0, -1), 1, -1, 1.5, 10, 1e21, 1e-7, 123456789012345680000, 0.000001, 1.5e300, 5e-324, math.MaxFloat64, math.NaN(), math.Inf(1), math.Inf(-1), 4294967296, 9007199254740992, -2147483648, 0.1, 1e-6, 99.5}

type svState struct {
	t      *rapid.T
	o      SVOpts
	nextID int
	open   []int // containers under construction (enclosing the current position)
	done   []int // completed containers
	nodes  int
}

func genSVString(t *rapid.T) []uint16 {
	return GenString(t, 6, false)
}

func genSVNumber(t *rapid.T) float64 {
	if rapid.IntRange(0, 2).Draw(t, "svnumkind") == 0 {
		return GenNumber(t)
	}
	return rapid.SampledFrom(svNumbers).Draw(t, "svnum")
}

// GenSV draws a description of a JS value graph. startID is the first container identity to use;
// it returns the next free identity.
func GenSV(t *rapid.T, o SVOpts, startID int, done []int) (*SV, int, []int) {
	st := &svState{t: t, o: o, nextID: startID, done: append([]int{}, done...)}
	v := st.gen(o.MaxDepth, true)
	return v, st.nextID, st.done
}

func (st *svState) refTargets() []int {
	var ts []int
	ts = append(ts, st.done...)
	if st.o.Abrupt == "cycle" {
		ts = append(ts, st.open...)
	}
	return ts
}

func (st *svState) gen(depth int, top bool) *SV {
	t := st.t
	st.nodes++
	k := rapid.IntRange(0, 39).Draw(t, "svkind")
	if top && rapid.IntRange(0, 4).Draw(t, "svtop") > 0 {
		k = 26 + k%14 // mostly containers at the top
	}
	if depth <= 0 || st.nodes > 30 {
		k = k % 26
	}
	switch {
	case k < 2:
		return &SV{K: "undef"}
	case k < 4:
		return &SV{K: "null"}
	case k < 6:
		return &SV{K: "bool", B: rapid.Bool().Draw(t, "b")}
	case k < 12:
		return &SV{K: "num", N: NumLit(genSVNumber(t))}
	case k < 17:
		return &SV{K: "str", S: genSVString(t)}
	case k < 19:
		return &SV{K: "func", Fn: &Fn{Mode: "const"}}
	case k < 21:
		w := &SV{K: "wnum", N: NumLit(genSVNumber(t))}
		if rapid.IntRange(0, 3).Draw(t, "ov") == 0 {
			w.Ov = &Ov{Which: rapid.SampledFrom([]string{"valueOf", "toString"}).Draw(t, "which"), N: NumLit(rapid.SampledFrom(svNumbers).Draw(t, "ovn"))}
		}
		return w
	case k < 23:
		w := &SV{K: "wstr", S: genSVString(t)}
		if rapid.IntRange(0, 3).Draw(t, "ov") == 0 {
			w.Ov = &Ov{Which: rapid.SampledFrom([]string{"valueOf", "toString"}).Draw(t, "which"), S: genSVString(t)}
		}
		return w
	case k < 24:
		return &SV{K: "wbool", B: rapid.Bool().Draw(t, "b")}
	case k < 25:
		ms := rapid.SampledFrom([]int64{0, 1, 999, 86400000, 951782400000, 1582934400123, 2147483647000, 4102444799999}).Draw(t, "ms")
		return &SV{K: "date", N: fmt.Sprint(ms)}
	case k < 26 || k == 39:
		ts := st.refTargets()
		if len(ts) == 0 {
			return &SV{K: "num", N: "7"}
		}
		return &SV{K: "ref", Ref: rapid.SampledFrom(ts).Draw(t, "ref")}
	case k < 32:
		return st.genArr(depth)
	default:
		return st.genObj(depth)
	}
}

func (st *svState) openC() int {
	id := st.nextID
	st.nextID++
	st.open = append(st.open, id)
	return id
}

func (st *svState) closeC(id int) {
	st.open = st.open[:len(st.open)-1]
	st.done = append(st.done, id)
}

func (st *svState) genFn(depth int) *SV {
	t := st.t
	modes := []string{"const", "const", "key", "this"}
	if st.o.Abrupt == "throw" {
		modes = append(modes, "throw", "throw")
	}
	f := &Fn{Mode: rapid.SampledFrom(modes).Draw(t, "fnmode")}
	if f.Mode == "const" && rapid.IntRange(0, 5).Draw(t, "retundef") > 0 {
		f.Ret = st.gen(depth-1, false)
	}
	return &SV{K: "func", Fn: f}
}

func (st *svState) genToJSONMember(depth int, allowProto bool) SMem {
	t := st.t
	m := SMem{Key: ASCII("toJSON")}
	if rapid.IntRange(0, 6).Draw(t, "tjcallable") == 0 {
		m.Val = rapid.SampledFrom([]*SV{{K: "num", N: "5"}, {K: "null"}, {K: "str", S: ASCII("x")}, {K: "bool", B: true}}).Draw(t, "tjjunk")
	} else {
		m.Val = st.genFn(depth)
	}
	_ = allowProto
	return m
}

func (st *svState) genArr(depth int) *SV {
	t := st.t
	id := st.openC()
	v := &SV{K: "arr", ID: id, El: []*SV{}}
	n := rapid.IntRange(0, 4).Draw(t, "alen")
	for i := 0; i < n; i++ {
		if rapid.IntRange(0, 9).Draw(t, "hole") == 0 {
			v.El = append(v.El, nil)
			continue
		}
		v.El = append(v.El, st.gen(depth-1, false))
	}
	switch rapid.IntRange(0, 11).Draw(t, "aextra") {
	case 0:
		v.Mem = append(v.Mem, st.genToJSONMember(depth, false))
	case 1:
		v.Mem = append(v.Mem, SMem{Key: ASCII("x"), Val: &SV{K: "num", N: "1"}})
	}
	st.closeC(id)
	return v
}

func (st *svState) genObj(depth int) *SV {
	t := st.t
	id := st.openC()
	v := &SV{K: "obj", ID: id}
	n := rapid.IntRange(0, 4).Draw(t, "olen")
	usedOwn := map[string]bool{}
	usedProto := map[string]bool{}
	tjAt := -1
	if rapid.IntRange(0, 5).Draw(t, "hastj") == 0 {
		tjAt = rapid.IntRange(0, n).Draw(t, "tjat")
	}
	free := func(key []uint16, attr string) bool {
		set := usedOwn
		if attr == "proto" {
			set = usedProto
		}
		if set[key16(key)] {
			return false
		}
		set[key16(key)] = true
		return true
	}
	for i := 0; i <= n; i++ {
		if i == tjAt {
			// the key is reserved before the value is generated: a value that is generated but not attached would leave
			// container identities behind that later references could name
			attr := rapid.SampledFrom([]string{"", "", "proto", "proto", "hidden", "getter"}).Draw(t, "tjattr")
			if free(ASCII("toJSON"), attr) {
				m := st.genToJSONMember(depth, false)
				m.Attr = attr
				v.Mem = append(v.Mem, m)
			}
		}
		if i == n {
			break
		}
		m := SMem{Key: rapid.SampledFrom(svKeys).Draw(t, "key")}
		switch a := rapid.IntRange(0, 13).Draw(t, "attr"); {
		case a == 0:
			m.Attr = "hidden"
		case a == 1:
			m.Attr = "getter"
		case a < 4:
			m.Attr = "proto"
		}
		if !free(m.Key, m.Attr) {
			continue
		}
		m.Val = st.gen(depth-1, false)
		v.Mem = append(v.Mem, m)
	}
	st.closeC(id)
	return v
}

// GenReplacer draws the replacer argument. nextID/done continue the identities of the value graph.
func GenReplacer(t *rapid.T, abrupt string, nextID int, done []int) *Replacer {
	switch k := rapid.IntRange(0, 9).Draw(t, "repkind"); {
	case k < 4:
		return &Replacer{Kind: "none"}
	case k < 7:
		r := &Replacer{Kind: "func"}
		if rapid.IntRange(0, 2).Draw(t, "drop") == 0 {
			key := rapid.SampledFrom(svKeys).Draw(t, "dropkey")
			r.Drop = &key
		}
		if rapid.IntRange(0, 2).Draw(t, "sub") == 0 {
			key := rapid.SampledFrom(svKeys).Draw(t, "subkey")
			r.SubKey = &key
			var d []int
			if abrupt == "cycle" {
				d = done
			}
			sub, _, _ := GenSV(t, SVOpts{MaxDepth: 1, Abrupt: ""}, nextID, d)
			r.Sub = sub
		}
		r.Dbl = rapid.Bool().Draw(t, "dbl")
		return r
	case k < 9:
		r := &Replacer{Kind: "list", List: []*SV{}}
		n := rapid.IntRange(0, 6).Draw(t, "listlen")
		for i := 0; i < n; i++ {
			switch j := rapid.IntRange(0, 15).Draw(t, "item"); {
			case j < 8:
				r.List = append(r.List, &SV{K: "str", S: rapid.SampledFrom(svKeys).Draw(t, "lkey")})
			case j < 10:
				r.List = append(r.List, &SV{K: "num", N: NumLit(rapid.SampledFrom([]float64{0, 1, 1.5, math.Copysign(0, -1), math.NaN(), 2, 1e21}).Draw(t, "lnum"))})
			case j < 11:
				r.List = append(r.List, &SV{K: "wstr", S: rapid.SampledFrom(svKeys).Draw(t, "lwkey")})
			case j < 12:
				r.List = append(r.List, &SV{K: "wnum", N: NumLit(rapid.SampledFrom([]float64{0, 1, 1.5}).Draw(t, "lwnum"))})
			case j < 13:
				r.List = append(r.List, nil) // hole
			default:
				r.List = append(r.List, rapid.SampledFrom([]*SV{{K: "null"}, {K: "undef"}, {K: "bool", B: true}, {K: "wbool", B: true}, {K: "func"}, {K: "date", N: "0"}}).Draw(t, "junk"))
			}
		}
		return r
	default:
		return &Replacer{Kind: "other", Other: rapid.SampledFrom([]*SV{{K: "null"}, {K: "str", S: ASCII("a")}, {K: "num", N: "1"}, {K: "bool", B: true}, {K: "wstr", S: ASCII("a")}, {K: "date", N: "0"}}).Draw(t, "other")}
	}
}

// GenSpace draws the space argument: numbers −1…12, 3.7, NaN, ±Infinity; strings of length 0…12
// over JSON white space, other ASCII and non-ASCII BMP characters; wrappers; ignored values.
func GenSpace(t *rapid.T) *Space {
	switch k := rapid.IntRange(0, 13).Draw(t, "spacekind"); {
	case k < 4:
		return &Space{Kind: "none"}
	case k < 7:
		return &Space{Kind: "num", N: NumLit(genSpaceNum(t))}
	case k < 10:
		return &Space{Kind: "str", S: genSpaceStr(t)}
	case k < 11:
		return &Space{Kind: "wnum", N: NumLit(genSpaceNum(t))}
	case k < 12:
		return &Space{Kind: "wstr", S: genSpaceStr(t)}
	default:
		return &Space{Kind: "other", O: rapid.SampledFrom([]*SV{{K: "null"}, {K: "bool", B: true}, {K: "wbool", B: true}, {K: "func"}, {K: "date", N: "5"}}).Draw(t, "spaceother")}
	}
}

func genSpaceNum(t *rapid.T) float64 {
	if rapid.IntRange(0, 3).Draw(t, "spaceint") > 0 {
		return float64(rapid.IntRange(-1, 12).Draw(t, "spacen"))
	}
	return rapid.SampledFrom([]float64{3.7, 0.5, 0.99, 1.01, 9.99, 10.5, -0.5, math.NaN(), math.Inf(1), math.Inf(-1), math.Copysign(0, -1), 1e21, 4294967297, -4294967295}).Draw(t, "spacex")
}

func genSpaceStr(t *rapid.T) []uint16 {
	if rapid.IntRange(0, 4).Draw(t, "spaceastral") == 0 {
		// 8-14 code units mixing astral and BMP characters: the cut after 10 code units falls before, inside or after a
		// surrogate pair (code units, code points and bytes all give different cuts)
		n := rapid.IntRange(8, 14).Draw(t, "spaceunits")
		var out []uint16
		for len(out) < n {
			if len(out)+2 <= n && rapid.IntRange(0, 2).Draw(t, "spacepair") > 0 {
				out = append(out, 0xD83D, 0xDE00)
			} else {
				out = append(out, rapid.SampledFrom([]uint16{' ', 0xE9, 0x4E2D, '\t'}).Draw(t, "spacebmp"))
			}
		}
		return out
	}
	n := rapid.IntRange(0, 12).Draw(t, "spacelen")
	var alpha []uint16
	switch rapid.IntRange(0, 3).Draw(t, "spacealpha") {
	case 0:
		alpha = []uint16{' '}
	case 1:
		alpha = []uint16{' ', '\t', '\n', '\r'}
	case 2:
		alpha = []uint16{'-', '.', ' ', 'a', '"', '\\', '<'}
	default:
		alpha = []uint16{0xE9, ' ', 0x4E2D, 0xA0, 0x2028, '\t'}
	}
	out := make([]uint16, n)
	for i := range out {
		out[i] = rapid.SampledFrom(alpha).Draw(t, "spacech")
	}
	return out
}
