package m11

import (
	"math"

	"pgregory.net/rapid"

	"verif/lib/gen"
)

// TreeOpts bounds the generated trees.
type TreeOpts struct {
	MaxDepth int  // containers nested at most this deep
	MaxNodes int  // soft bound on the number of nodes
	Lone     bool // allow lone surrogates inside string values (never in keys)
	Overflow bool // allow ±Infinity as a number (only an overflowing JSONNumber such as 1e400 denotes it)
}

// string alphabets: every code-unit class the statement names
var (
	ctrlUnits    = []uint16{0x00, 0x01, 0x07, 0x08, 0x09, 0x0A, 0x0B, 0x0C, 0x0D, 0x0E, 0x1B, 0x1F}
	specialUnits = []uint16{'"', '\\', '/', 0x7F, 0x2028, 0x2029, '<', '>', '&', '\'', 0x80, 0x9F, 0xA0, 0xFEFF, 0xFFFD, 0xFFFE, 0xFFFF, 0xD7FF, 0xE000, 'u', 'b', 'n'}
	plainUnits   = []uint16{'a', 'b', 'z', 'A', '0', '9', ' ', '-', '_', '.', ':', ',', '{', '}', '[', ']', 0xE9, 0x3A3, 0x4E2D, 0x20AC}
	loneUnits    = []uint16{0xD800, 0xDBFF, 0xDC00, 0xDFFF, 0xD83D}
	commonKeys   = [][]uint16{ASCII("a"), ASCII("b"), ASCII("c"), ASCII(""), ASCII("0"), ASCII("1"), ASCII("length"), ASCII("toJSON"), ASCII("__proto__"), ASCII("constructor"), ASCII("a b"), {0xE9}, {'"'}, {'\\', 'n'}, {0x0A}, {0x2028}, {'<'}, ASCII("\\u003c"), ASCII("\\u2028&"), ASCII("a\\")}
)

var escapeLookalikes = []string{"u003c", "u003e", "u0026", "u2028", "u2029", "u003C", "u0041", "uD800", "ud83d\\ude00", "n", "\"", "\\", "b", "/", "u", "x41", "u00"}

// GenString draws a string over all code-unit classes; lone surrogates only when allowed.
func GenString(t *rapid.T, maxLen int, lone bool) []uint16 {
	n := rapid.IntRange(0, maxLen).Draw(t, "slen")
	out := []uint16{}
	for len(out) < n {
		switch k := rapid.IntRange(0, 22).Draw(t, "sclass"); {
		case k < 6:
			out = append(out, rapid.SampledFrom(plainUnits).Draw(t, "plain"))
		case k < 10:
			out = append(out, rapid.SampledFrom(ctrlUnits).Draw(t, "ctrl"))
		case k < 14:
			out = append(out, rapid.SampledFrom(specialUnits).Draw(t, "special"))
		case k < 16:
			p := rapid.SampledFrom(gen.AstralPairs).Draw(t, "astral")
			out = append(out, p[0], p[1])
		case k < 17:
			c := uint16(rapid.IntRange(0, 0xFFFF).Draw(t, "anyunit"))
			if c >= 0xD800 && c < 0xE000 {
				c = 0x41
			}
			out = append(out, c)
		case k < 18:
			c := uint16(rapid.IntRange(0, 0x1F).Draw(t, "anyctrl"))
			out = append(out, c)
		case k >= 20:
			// a literal backslash followed by text that looks like an escape sequence: the writer must escape the backslash
			// and nothing may later rewrite the "escape" (e.g. turning \\u003c into \\<)
			out = append(out, '\\')
			out = append(out, ASCII(rapid.SampledFrom(escapeLookalikes).Draw(t, "lookalike"))...)
		default:
			if lone {
				// a lone half never directly before/after a matching half, so it stays lone
				c := rapid.SampledFrom(loneUnits).Draw(t, "lone")
				if len(out) > 0 && out[len(out)-1] >= 0xD800 && out[len(out)-1] < 0xE000 {
					out = append(out, 'x')
				}
				out = append(out, c, 'y')
			} else {
				out = append(out, 'q')
			}
		}
	}
	return out
}

// GenKey draws a member name: often from a tiny pool (so duplicates and replacer hits happen), else a string without lone surrogates.
func GenKey(t *rapid.T) []uint16 {
	if rapid.IntRange(0, 9).Draw(t, "keykind") < 6 {
		return rapid.SampledFrom(commonKeys).Draw(t, "ckey")
	}
	return GenString(t, 5, false)
}

// GenNumber draws a finite double: boundary pool, integer and decimal neighbours, random bit patterns.
func GenNumber(t *rapid.T) float64 {
	switch k := rapid.IntRange(0, 9).Draw(t, "nkind"); {
	case k < 4:
		x := rapid.SampledFrom(gen.BoundaryDoubles).Draw(t, "boundary")
		if math.IsNaN(x) || math.IsInf(x, 0) {
			return math.MaxFloat64
		}
		return x
	case k < 6:
		return float64(rapid.IntRange(-1000, 1000).Draw(t, "int"))
	case k < 8:
		m := rapid.IntRange(-99999, 99999).Draw(t, "mant")
		e := rapid.IntRange(-30, 30).Draw(t, "dexp")
		return float64(m) * math.Pow(10, float64(e))
	default:
		x := math.Float64frombits(rapid.Uint64().Draw(t, "bits"))
		if math.IsNaN(x) || math.IsInf(x, 0) {
			return math.Copysign(0, -1)
		}
		return x
	}
}

// GenTree draws a JSON value tree.
func GenTree(t *rapid.T, o TreeOpts) *Node {
	budget := o.MaxNodes
	return genNode(t, o, o.MaxDepth, &budget, true)
}

func genNode(t *rapid.T, o TreeOpts, depth int, budget *int, top bool) *Node {
	*budget--
	k := rapid.IntRange(0, 11).Draw(t, "kind")
	if top && k < 7 && rapid.IntRange(0, 7).Draw(t, "topcontainer") > 0 {
		k = 8 + k%4 // the root is a container seven times out of eight
	}
	if depth <= 0 || *budget <= 0 {
		k = k % 7
	}
	switch {
	case k == 0:
		return NullNode()
	case k == 1:
		return BoolNode(rapid.Bool().Draw(t, "bool"))
	case k < 5:
		if o.Overflow && rapid.IntRange(0, 39).Draw(t, "overflow") == 0 {
			return NumNode(math.Inf(rapid.SampledFrom([]int{1, -1}).Draw(t, "infsign")))
		}
		return NumNode(GenNumber(t))
	case k < 8:
		return StrNode(GenString(t, 8, o.Lone))
	case k < 10:
		n := &Node{K: Arr, Arr: []*Node{}}
		cnt := rapid.IntRange(0, 4).Draw(t, "alen")
		for i := 0; i < cnt && *budget > 0; i++ {
			n.Arr = append(n.Arr, genNode(t, o, depth-1, budget, false))
		}
		return n
	default:
		n := &Node{K: Obj}
		cnt := rapid.IntRange(0, 4).Draw(t, "olen")
		for i := 0; i < cnt && *budget > 0; i++ {
			n.Obj = append(n.Obj, Member{Key: GenKey(t), Val: genNode(t, o, depth-1, budget, false)})
		}
		return n
	}
}
