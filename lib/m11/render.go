package m11

import (
	"fmt"
	"math"
	"strconv"
	"strings"

	"pgregory.net/rapid"
)

// Three renderers of a tree to JSON text. They share nothing with the reader except the grammar
// they were written from; the package's own tests check Parse(Render(tree)) == tree for all of them.
//
//   Canonical: no white space, ES5 Quote escapes (15.12.3), shortest number text.
//   Random:    random JSON white space between all tokens, every code unit drawn from all of its
//              legal spellings (raw / short escape / \uXXXX in either hex case), numbers in
//              alternative spellings that denote the same double.
//   Escaped:   every string code unit as \uXXXX, every number in exponent form, one white-space
//              character between all tokens.

// Style selects a renderer.
type Style int

const (
	Canonical Style = iota
	Random
	Escaped
)

var StyleNames = []string{"canonical", "random", "escaped"}

var jsonWS = []uint16{0x20, 0x09, 0x0A, 0x0D}

type renderer struct {
	t     *rapid.T
	style Style
	out   []uint16
}

// Render draws one text for the tree in the given style. Object members are written in tree order
// (duplicates included).
func Render(t *rapid.T, n *Node, style Style) []uint16 {
	r := &renderer{t: t, style: style}
	r.gap()
	r.node(n)
	r.gap()
	return r.out
}

func (r *renderer) ascii(s string) {
	for i := 0; i < len(s); i++ {
		r.out = append(r.out, uint16(s[i]))
	}
}

func (r *renderer) gap() {
	switch r.style {
	case Random:
		n := rapid.IntRange(0, 5).Draw(r.t, "wsn")
		if n > 3 {
			n = 0
		}
		for i := 0; i < n; i++ {
			r.out = append(r.out, rapid.SampledFrom(jsonWS).Draw(r.t, "ws"))
		}
	case Escaped:
		r.out = append(r.out, rapid.SampledFrom(jsonWS).Draw(r.t, "ws"))
	}
}

func (r *renderer) node(n *Node) {
	switch n.K {
	case Null:
		r.ascii("null")
	case Bool:
		if n.B {
			r.ascii("true")
		} else {
			r.ascii("false")
		}
	case Num:
		r.ascii(r.number(n.N))
	case Str:
		r.str(n.S)
	case Arr:
		r.ascii("[")
		for i, e := range n.Arr {
			if i > 0 {
				r.gap()
				r.ascii(",")
			}
			r.gap()
			r.node(e)
		}
		r.gap()
		r.ascii("]")
	case Obj:
		r.ascii("{")
		for i, m := range n.Obj {
			if i > 0 {
				r.gap()
				r.ascii(",")
			}
			r.gap()
			r.str(m.Key)
			r.gap()
			r.ascii(":")
			r.gap()
			r.node(m.Val)
		}
		r.gap()
		r.ascii("}")
	}
}

var shortEsc = map[uint16]byte{'"': '"', '\\': '\\', '/': '/', 0x08: 'b', 0x0C: 'f', 0x0A: 'n', 0x0D: 'r', 0x09: 't'}

func (r *renderer) uEscape(c uint16, mode int) {
	var h string
	switch mode {
	case 0:
		h = fmt.Sprintf("%04x", c)
	case 1:
		h = fmt.Sprintf("%04X", c)
	default: // mixed case
		h = fmt.Sprintf("%04x", c)
		b := []byte(h)
		for i := range b {
			if i%2 == 0 && b[i] >= 'a' {
				b[i] -= 32
			}
		}
		h = string(b)
	}
	r.ascii("\\u" + h)
}

func (r *renderer) str(u []uint16) {
	r.ascii("\"")
	for i := 0; i < len(u); i++ {
		c := u[i]
		pair := c >= 0xD800 && c < 0xDC00 && i+1 < len(u) && u[i+1] >= 0xDC00 && u[i+1] < 0xE000
		lone := !pair && c >= 0xD800 && c < 0xE000
		switch r.style {
		case Canonical:
			// ES5 Quote: \" \\ \b \f \n \r \t, other controls \u00xx lower case, the rest raw
			switch {
			case pair:
				r.out = append(r.out, c, u[i+1])
				i++
			case lone:
				r.uEscape(c, 0) // a raw lone surrogate cannot be carried into otto; escaped form denotes the same unit
			case c == '"' || c == '\\':
				r.ascii("\\" + string(rune(c)))
			case c == 0x08 || c == 0x0C || c == 0x0A || c == 0x0D || c == 0x09:
				r.ascii("\\" + string(rune(shortEsc[c])))
			case c < 0x20:
				r.uEscape(c, 0)
			default:
				r.out = append(r.out, c)
			}
		case Escaped:
			r.uEscape(c, rapid.IntRange(0, 2).Draw(r.t, "hexcase"))
		default:
			if pair {
				// both halves raw or both escaped: a raw half next to an escaped one would put a raw lone surrogate into the text
				if rapid.IntRange(0, 2).Draw(r.t, "astral") == 0 {
					m := rapid.IntRange(0, 2).Draw(r.t, "hexcase")
					r.uEscape(c, m)
					r.uEscape(u[i+1], m)
				} else {
					r.out = append(r.out, c, u[i+1])
				}
				i++
				continue
			}
			mustEscape := c < 0x20 || c == '"' || c == '\\' || lone
			_, hasShort := shortEsc[c]
			// choices: 0 raw, 1 short, 2 \u
			var opts []int
			if !mustEscape {
				opts = append(opts, 0, 0, 0)
			}
			if hasShort {
				opts = append(opts, 1, 1)
			}
			opts = append(opts, 2)
			switch rapid.SampledFrom(opts).Draw(r.t, "form") {
			case 0:
				r.out = append(r.out, c)
			case 1:
				r.ascii("\\" + string(rune(shortEsc[c])))
			default:
				r.uEscape(c, rapid.IntRange(0, 2).Draw(r.t, "hexcase"))
			}
		}
	}
	r.ascii("\"")
}

// shortest returns the shortest round-trip digits d (no trailing zeros) and n with |x| = 0.d × 10^n.
func shortest(x float64) (string, int) {
	s := strconv.FormatFloat(math.Abs(x), 'e', -1, 64)
	mant, exps, _ := strings.Cut(s, "e")
	e, _ := strconv.Atoi(exps)
	d := strings.TrimRight(strings.Replace(mant, ".", "", 1), "0")
	if d == "" {
		d = "0"
	}
	return d, e + 1
}

// es5Number is ToString(x) of 9.8.1 for finite x, except that −0 keeps its sign ("-0" is the JSON
// spelling that denotes −0).
func es5Number(x float64) string {
	if x == 0 {
		if math.Signbit(x) {
			return "-0"
		}
		return "0"
	}
	sign := ""
	if x < 0 {
		sign = "-"
	}
	s, n := shortest(x)
	k := len(s)
	switch {
	case k <= n && n <= 21:
		return sign + s + strings.Repeat("0", n-k)
	case 0 < n && n <= 21:
		return sign + s[:n] + "." + s[n:]
	case -6 < n && n <= 0:
		return sign + "0." + strings.Repeat("0", -n) + s
	}
	e := n - 1
	es := "+"
	if e < 0 {
		es = "-"
		e = -e
	}
	if k == 1 {
		return sign + s + "e" + es + strconv.Itoa(e)
	}
	return sign + s[:1] + "." + s[1:] + "e" + es + strconv.Itoa(e)
}

func (r *renderer) expPart(e int, force bool) string {
	if e == 0 && !force && r.style == Random && rapid.Bool().Draw(r.t, "omitexp") {
		return ""
	}
	ind := "e"
	if rapid.Bool().Draw(r.t, "E") {
		ind = "E"
	}
	sign := ""
	if e < 0 {
		sign = "-"
		e = -e
	} else {
		switch rapid.IntRange(0, 2).Draw(r.t, "esign") {
		case 0:
			sign = "+"
		case 1:
			if e == 0 {
				sign = "-"
			}
		}
	}
	zeros := ""
	if rapid.IntRange(0, 4).Draw(r.t, "ezeros") == 0 {
		zeros = "00"
	}
	return ind + sign + zeros + strconv.Itoa(e)
}

// overflowForms are JSONNumbers whose mathematical value lies at or beyond 2^1024 − 2^970 (the
// rounding boundary above the largest double): "the Number value for MV" (8.5) is +Infinity.
var overflowForms = []string{"1e400", "1E+309", "1.7976931348623159e308", "17976931348623158079372897140530341507993413271003782693617377898044496829276475094664901797758720709633028641669288791094655554785194040263065748867150582068190890200070838367627385484581771153176447573027006985557136695962284291481986083493647529271907416844436551070434271155969950809304288017790417449779200000.0e-5", "2e308", "0.1e310", "9e999999", "1797693134862315900000000000000000000000000000e263"}

func (r *renderer) number(x float64) string {
	if math.IsInf(x, 0) {
		s := rapid.SampledFrom(overflowForms).Draw(r.t, "overflowform")
		if x < 0 {
			return "-" + s
		}
		return s
	}
	if r.style == Canonical {
		return es5Number(x)
	}
	sign := ""
	if math.Signbit(x) {
		sign = "-"
	}
	if x == 0 {
		forms := []string{"0", "0.0", "0e0", "0E+5", "0.000e-7", "0.00", "0e-0", "0E00"}
		if r.style == Escaped {
			return sign + "0" + r.expPart(rapid.IntRange(-3, 3).Draw(r.t, "zexp"), true)
		}
		return sign + rapid.SampledFrom(forms).Draw(r.t, "zero")
	}
	if r.style == Random {
		switch rapid.IntRange(0, 5).Draw(r.t, "numform") {
		case 0:
			return es5Number(x)
		case 1: // 17 significant digits always round-trip
			s := strconv.FormatFloat(math.Abs(x), 'e', 16, 64)
			mant, exps, _ := strings.Cut(s, "e")
			e, _ := strconv.Atoi(exps)
			return sign + mant + r.expPart(e, true)
		case 2: // plain positional notation when it stays short
			if a := math.Abs(x); a < 1e25 && a > 1e-12 {
				return sign + strconv.FormatFloat(a, 'f', -1, 64)
			}
		}
	}
	// general form: shortest digits, optional trailing zeros, decimal point anywhere, matching exponent
	d, n := shortest(x)
	if r.style == Random {
		d += strings.Repeat("0", rapid.IntRange(0, 2).Draw(r.t, "tz"))
	}
	p := 1
	if r.style == Random {
		p = rapid.IntRange(0, len(d)).Draw(r.t, "point")
	}
	var m string
	switch {
	case p == 0:
		m = "0." + d
	case p == len(d):
		m = d
		if r.style == Random && rapid.Bool().Draw(r.t, "dot0") {
			m += ".0"
		}
	default:
		m = d[:p] + "." + d[p:]
	}
	return sign + m + r.expPart(n-p, r.style == Escaped)
}

// Text helpers -------------------------------------------------------------------------------------

// ASCII converts an ASCII Go string to code units.
func ASCII(s string) []uint16 {
	out := make([]uint16, len(s))
	for i := 0; i < len(s); i++ {
		out[i] = uint16(s[i])
	}
	return out
}

// ShowText renders a text for messages: printable ASCII raw, everything else as \uXXXX.
func ShowText(u []uint16) string {
	var b strings.Builder
	for _, c := range u {
		if c >= 0x20 && c < 0x7f {
			b.WriteByte(byte(c))
		} else {
			fmt.Fprintf(&b, "\\u%04X", c)
		}
	}
	return b.String()
}
