package m11

import (
	"encoding/json"
	"testing"
	"unicode/utf16"

	"pgregory.net/rapid"
)

func TestRenderParseRoundTrip(t *testing.T) {
	rapid.Check(t, func(rt *rapid.T) {
		tree := GenTree(rt, TreeOpts{MaxDepth: 4, MaxNodes: 30, Lone: true, Overflow: true})
		style := Style(rapid.IntRange(0, 2).Draw(rt, "style"))
		text := Render(rt, tree, style)
		res, err := Parse(text)
		if err != nil {
			rt.Fatalf("style %d: rendered text rejected: %v\n%s", style, err, ShowText(text))
		}
		if d := orderedDiff(tree, res.Value); d != "" {
			rt.Fatalf("style %d: %s\n%s", style, d, ShowText(text))
		}
	})
}

// orderedDiff: exact equality including member order and duplicates.
func orderedDiff(a, b *Node) string {
	if a.K != b.K {
		return "kind " + a.Brief() + " vs " + b.Brief()
	}
	switch a.K {
	case Bool:
		if a.B != b.B {
			return "bool"
		}
	case Num:
		if !SameDouble(a.N, b.N) {
			return "number " + a.Brief() + " vs " + b.Brief()
		}
	case Str:
		if !eq16(a.S, b.S) {
			return "string " + a.Brief() + " vs " + b.Brief()
		}
	case Arr:
		if len(a.Arr) != len(b.Arr) {
			return "array length"
		}
		for i := range a.Arr {
			if d := orderedDiff(a.Arr[i], b.Arr[i]); d != "" {
				return d
			}
		}
	case Obj:
		if len(a.Obj) != len(b.Obj) {
			return "object size"
		}
		for i := range a.Obj {
			if !eq16(a.Obj[i].Key, b.Obj[i].Key) {
				return "key"
			}
			if d := orderedDiff(a.Obj[i].Val, b.Obj[i].Val); d != "" {
				return d
			}
		}
	}
	return ""
}

// Development-time sanity: on mutated texts the recogniser agrees with encoding/json about
// validity (Go's decoder implements RFC 8259, whose grammar equals ES5's for UTF-8 input), except
// for number overflow (Go rejects, ES5 gives Infinity) and texts that are not valid UTF-16.
func TestValidityAgreesWithEncodingJSON(t *testing.T) {
	rapid.Check(t, func(rt *rapid.T) {
		tree := GenTree(rt, TreeOpts{MaxDepth: 3, MaxNodes: 20})
		text := Render(rt, tree, Style(rapid.IntRange(0, 2).Draw(rt, "style")))
		res, err := Parse(text)
		if err != nil {
			rt.Fatal(err)
		}
		m := Mutate(rt, text, res.Tokens)
		if hasLone(m.Text) {
			return
		}
		mine, merr := Parse(m.Text)
		var v interface{}
		gerr := json.Unmarshal([]byte(string(utf16.Decode(m.Text))), &v)
		if merr == nil && mine.Overflow {
			return
		}
		if (merr == nil) != (gerr == nil) {
			rt.Fatalf("%s: mine=%v go=%v text=%s", m.Name, merr, gerr, ShowText(m.Text))
		}
	})
}

func TestNumberValues(t *testing.T) {
	for _, c := range []struct {
		s string
		v string
	}{{"-0", "-0"}, {"-0.0e5", "-0"}, {"1E+2", "1e+02"}, {"0e0", "0e+00"}, {"1e400", "Infinity"}, {"-1e400", "-Infinity"}, {"1e-400", "0e+00"},
		{"1.7976931348623158e308", "1.7976931348623157e+308"}, {"1.7976931348623159e308", "Infinity"}, {"5e-324", "5e-324"}, {"2.4703282292062327e-324", "0e+00"}, {"2.4703282292062328e-324", "5e-324"},
		{"9007199254740993", "9.007199254740992e+15"}, {"9007199254740993.0000001", "9.007199254740994e+15"}, {"123456789012345678901234567890", "1.2345678901234568e+29"}, {"1e0000000000000000000001", "1e+01"}, {"0e999999999999", "0e+00"}, {"1e999999999999", "Infinity"}} {
		r, err := Parse(ASCII(c.s))
		if err != nil {
			t.Fatalf("%s: %v", c.s, err)
		}
		if got := NumLit(r.Value.N); got != c.v {
			t.Errorf("%s: got %s want %s", c.s, got, c.v)
		}
	}
	for _, bad := range []string{"", " ", "01", "-", "+1", ".5", "1.", "1.e1", "1e", "1e+", "'a'", "\"\\a\"", "\"\t\"", "\u00a01", "[1,]", "{\"a\":1,}", "[,]", "{,}", "nul", "True", "1 2", "{a:1}", "\"a", "[", "]", "NaN", "0x10", "1/**/", "--1", "- 1", "\"\\u12\"", "\"\\U0041\"", "[1 2]", "{\"a\"}", "{\"a\":}", "{1:1}", "1,", "\ufeff1", "\v1", "\f1"} {
		if Valid(U(bad)) {
			t.Errorf("accepted %q", bad)
		}
	}
	for _, good := range []string{"0", "-0", "0.0", "1E+2", "1e-2", "1e05", " \t\r\n1 \t\r\n", "\"\u007f\"", "\"\u2028\u2029\"", "\"\\/\\b\\f\\n\\r\\t\\\"\\\\\\u00e9\\u00E9\"", "[]", "{}", "[[]]", "{\"\":{}}", "{\"a\":1,\"a\":2}", "null", "true", "false", "[ ]", "{ }", "[1 , 2]"} {
		if !Valid(U(good)) {
			t.Errorf("rejected %q", good)
		}
	}
}

func TestRenderingsCarryNoRawLoneSurrogate(t *testing.T) {
	rapid.Check(t, func(rt *rapid.T) {
		tree := GenTree(rt, TreeOpts{MaxDepth: 4, MaxNodes: 30, Lone: true, Overflow: true})
		style := Style(rapid.IntRange(0, 2).Draw(rt, "style"))
		if text := Render(rt, tree, style); hasLone(text) {
			rt.Fatalf("style %d: raw lone surrogate in %s", style, ShowText(text))
		}
	})
}
