package m11

import (
	"fmt"
	"math"
	"math/big"
	"strings"
)

// Stringify is JSON.stringify(value, replacer, space) of 15.12.3 on the described arguments.
func Stringify(value *SV, rep *Replacer, space *Space) (res *StringifyResult) {
	res = &StringifyResult{Calls: &CallTree{}}
	c := &strCtx{rep: rep, heap: map[int]*SV{}, res: res}
	collectHeap(value, c.heap)
	if rep != nil {
		collectHeap(rep.Sub, c.heap)
	}
	// step 4: replacer
	if rep != nil && rep.Kind == "list" {
		c.hasList = true
		c.propList = [][]uint16{}
		rejectedBefore := false
		for _, it := range rep.List {
			var item []uint16
			ok := false
			if it != nil {
				switch it.K {
				case "str":
					item, ok = it.S, true
				case "num":
					item, ok = ASCII(es5ToString(ParseLit(it.N))), true
				case "wstr": // ToString(object): ToPrimitive hint String → toString
					item, ok = it.S, true
					if it.Ov != nil && it.Ov.Which == "toString" {
						item = it.Ov.S
					}
				case "wnum": // ToString(object) → Number.prototype.toString unless overridden
					item, ok = ASCII(es5ToString(ParseLit(it.N))), true
					if it.Ov != nil && it.Ov.Which == "toString" {
						item = ASCII(es5ToString(ParseLit(it.Ov.N)))
					}
				}
			}
			if ok && hasKey(c.propList, item) {
				ok = false
			}
			if !ok {
				rejectedBefore = true
				continue
			}
			if rejectedBefore {
				res.ListIrregular = true
			}
			c.propList = append(c.propList, item)
		}
		res.PropList = c.propList
	}
	// steps 5–8: gap
	res.Gap = gapOf(space)
	// steps 9–11
	func() {
		defer func() {
			if p := recover(); p != nil {
				if a, ok := p.(abrupt); ok {
					res.Throws = a.name
					return
				}
				panic(p)
			}
		}()
		res.Ser = c.str([]uint16{}, nil, value, res.Calls)
		if res.Ser == nil {
			res.Undefined = true
		}
	}()
	return res
}

// es5ToString is ToString on a number including the non-finite ones (9.8.1).
func es5ToString(x float64) string {
	switch {
	case math.IsNaN(x):
		return "NaN"
	case math.IsInf(x, 1):
		return "Infinity"
	case math.IsInf(x, -1):
		return "-Infinity"
	case x == 0:
		return "0"
	}
	return es5Number(x)
}

func gapOf(space *Space) []uint16 {
	if space == nil {
		return nil
	}
	switch space.Kind {
	case "num", "wnum": // min(10, ToInteger(space)) spaces
		x := ParseLit(space.N)
		n := 0
		switch {
		case math.IsNaN(x):
			n = 0
		case x >= 10:
			n = 10
		case x < 1:
			n = 0
		default:
			n = int(math.Floor(x))
		}
		g := make([]uint16, n)
		for i := range g {
			g[i] = ' '
		}
		return g
	case "str", "wstr":
		if len(space.S) > 10 {
			return space.S[:10]
		}
		return space.S
	}
	return nil
}

// ---- Quote and the exact text ---------------------------------------------------------------------------------

// Quote is the abstract operation Quote (15.12.3): \" \\ \b \f \n \r \t, other code units below
// space as \u00xx with lower-case hex digits, everything else unchanged.
func Quote(u []uint16) []uint16 {
	out := []uint16{'"'}
	for _, c := range u {
		switch {
		case c == '"' || c == '\\':
			out = append(out, '\\', c)
		case c == 0x08:
			out = append(out, '\\', 'b')
		case c == 0x0C:
			out = append(out, '\\', 'f')
		case c == 0x0A:
			out = append(out, '\\', 'n')
		case c == 0x0D:
			out = append(out, '\\', 'r')
		case c == 0x09:
			out = append(out, '\\', 't')
		case c < 0x20:
			out = append(out, ASCII(fmt.Sprintf("\\u%04x", c))...)
		default:
			out = append(out, c)
		}
	}
	return append(out, '"')
}

// QuoteHTMLSafe is Quote followed by the distortion of finding C11-STRINGIFY-ESCAPES: '<' '>' '&'
// U+2028 U+2029 written as \u003c \u003e \u0026 \u2028 \u2029 (what Go's encoding/json emits).
func QuoteHTMLSafe(u []uint16) []uint16 {
	q := Quote(u)
	out := make([]uint16, 0, len(q))
	for _, c := range q {
		switch c {
		case '<', '>', '&', 0x2028, 0x2029:
			out = append(out, ASCII(fmt.Sprintf("\\u%04x", c))...)
		default:
			out = append(out, c)
		}
	}
	return out
}

// Text lays the serialisation out exactly as 15.12.3 JO/JA do, members in K order.
func (s *Ser) Text(gap []uint16) []uint16 {
	var out []uint16
	s.text(&out, gap, nil)
	return out
}

func (s *Ser) text(out *[]uint16, gap, indent []uint16) {
	switch s.K {
	case "lit":
		*out = append(*out, ASCII(s.Lit)...)
	case "str":
		*out = append(*out, Quote(s.S)...)
	case "arr", "obj":
		open, close := uint16('['), uint16(']')
		n := len(s.Arr)
		if s.K == "obj" {
			open, close = '{', '}'
			n = len(s.Keys)
		}
		*out = append(*out, open)
		if n == 0 {
			*out = append(*out, close)
			return
		}
		inner := append(append([]uint16{}, indent...), gap...)
		for i := 0; i < n; i++ {
			if i > 0 {
				*out = append(*out, ',')
			}
			if len(gap) > 0 {
				*out = append(*out, '\n')
				*out = append(*out, inner...)
			}
			if s.K == "obj" {
				*out = append(*out, Quote(s.Keys[i])...)
				*out = append(*out, ':')
				if len(gap) > 0 {
					*out = append(*out, ' ')
				}
				s.Vals[i].text(out, gap, inner)
			} else {
				s.Arr[i].text(out, gap, inner)
			}
		}
		if len(gap) > 0 {
			*out = append(*out, '\n')
			*out = append(*out, indent...)
		}
		*out = append(*out, close)
	}
}

// Node converts the serialisation to the JSON value it denotes (numbers through the reader's
// own decimal conversion).
func (s *Ser) Node() *Node {
	switch s.K {
	case "lit":
		switch s.Lit {
		case "null":
			return NullNode()
		case "true":
			return BoolNode(true)
		case "false":
			return BoolNode(false)
		}
		r, err := Parse(ASCII(s.Lit))
		if err != nil {
			panic("m11: model produced a bad number text " + s.Lit)
		}
		return r.Value
	case "str":
		return StrNode(s.S)
	case "arr":
		n := &Node{K: Arr, Arr: []*Node{}}
		for _, e := range s.Arr {
			n.Arr = append(n.Arr, e.Node())
		}
		return n
	}
	n := &Node{K: Obj}
	for i, k := range s.Keys {
		n.Obj = append(n.Obj, Member{Key: k, Val: s.Vals[i].Node()})
	}
	return n
}

// MatchOpts selects the known distortions tolerated by MatchText.
type MatchOpts struct {
	HTMLEscapes bool // accept QuoteHTMLSafe spellings of strings (finding C11-STRINGIFY-ESCAPES)
	IntDigits   bool // accept the exact integer digits of an integral number with 2^53 <= |x| < 2^63 (finding C11-STRINGIFY-INT64-DIGITS)
}

// ExactIntDigits returns the exact decimal expansion of an integral double with 2^53 <= |x| < 2^63
// (what formatting it through int64 gives), or "" when x is outside that class.
func ExactIntDigits(x float64) string {
	if x != math.Trunc(x) || math.Abs(x) < 9007199254740992 || math.Abs(x) >= 9223372036854775808 {
		return ""
	}
	f := new(big.Float).SetFloat64(x)
	i, _ := f.Int(nil)
	return i.String()
}

// LitIsBigInt reports whether a model literal is a number of the ExactIntDigits class whose two spellings differ.
func LitIsBigInt(lit string) bool {
	if lit == "null" || lit == "true" || lit == "false" {
		return false
	}
	r, err := Parse(ASCII(lit))
	if err != nil {
		return false
	}
	alt := ExactIntDigits(r.Value.N)
	return alt != "" && alt != lit
}

// MatchText compares an emitted text with the model's serialisation and gap: the layout must be
// exactly that of 15.12.3 (punctuation, line breaks, indentation = nesting depth × gap, ": " vs
// ":"), strings must be spelled exactly as Quote spells them, numbers exactly as ToString does;
// only the order of object members is free. Returns "" or the first difference.
func MatchText(text []uint16, s *Ser, gap []uint16, o MatchOpts) string {
	m := &matcher{t: text, gap: gap, o: o}
	if err := m.value(s, nil); err != "" {
		return err
	}
	if m.p != len(text) {
		return fmt.Sprintf("offset %d: %d extra code unit(s) after the value: %s", m.p, len(text)-m.p, ShowText(clip(text[m.p:])))
	}
	return ""
}

func clip(u []uint16) []uint16 {
	if len(u) > 40 {
		return u[:40]
	}
	return u
}

type matcher struct {
	t   []uint16
	p   int
	gap []uint16
	o   MatchOpts
}

func (m *matcher) expect(u []uint16, what string) string {
	if m.p+len(u) > len(m.t) || !eq16(m.t[m.p:m.p+len(u)], u) {
		return fmt.Sprintf("offset %d: expected %s %q, found %q", m.p, what, ShowText(u), ShowText(clip(m.t[m.p:])))
	}
	m.p += len(u)
	return ""
}

// stringToken reads a strictly lexed JSONString at m.p and returns its value and spelling.
func (m *matcher) stringToken() (val, spelling []uint16, err string) {
	if m.p >= len(m.t) || m.t[m.p] != '"' {
		return nil, nil, fmt.Sprintf("offset %d: expected a string, found %q", m.p, ShowText(clip(m.t[m.p:])))
	}
	r := &reader{t: m.t, p: m.p}
	v, e := r.str()
	if e != nil {
		return nil, nil, fmt.Sprintf("offset %d: malformed string token: %v", m.p, e)
	}
	sp := m.t[m.p:r.p]
	m.p = r.p
	return v, sp, ""
}

func (m *matcher) checkSpelling(val, spelling []uint16, at int) string {
	if eq16(spelling, Quote(val)) {
		return ""
	}
	if m.o.HTMLEscapes && eq16(spelling, QuoteHTMLSafe(val)) {
		return ""
	}
	return fmt.Sprintf("offset %d: string %s is spelled %q, Quote (15.12.3) spells it %q", at, show16(val), ShowText(spelling), ShowText(Quote(val)))
}

func (m *matcher) value(s *Ser, indent []uint16) string {
	switch s.K {
	case "lit":
		if m.o.IntDigits && LitIsBigInt(s.Lit) {
			r, _ := Parse(ASCII(s.Lit))
			save := m.p
			if m.expect(ASCII(ExactIntDigits(r.Value.N)), "literal") == "" {
				return ""
			}
			m.p = save
		}
		return m.expect(ASCII(s.Lit), "literal")
	case "str":
		at := m.p
		v, sp, err := m.stringToken()
		if err != "" {
			return err
		}
		if !eq16(v, s.S) {
			return fmt.Sprintf("offset %d: string denotes %s, the model's serialisation has %s", at, show16(v), show16(s.S))
		}
		return m.checkSpelling(v, sp, at)
	case "arr":
		if err := m.expect(ASCII("["), "array start"); err != "" {
			return err
		}
		if len(s.Arr) == 0 {
			return m.expect(ASCII("]"), "end of empty array")
		}
		inner := append(append([]uint16{}, indent...), m.gap...)
		for i, e := range s.Arr {
			if i > 0 {
				if err := m.expect(ASCII(","), "separator"); err != "" {
					return err
				}
			}
			if err := m.newline(inner); err != "" {
				return err
			}
			if err := m.value(e, inner); err != "" {
				return err
			}
		}
		if err := m.newline(indent); err != "" {
			return err
		}
		return m.expect(ASCII("]"), "array end")
	case "obj":
		if err := m.expect(ASCII("{"), "object start"); err != "" {
			return err
		}
		if len(s.Keys) == 0 {
			return m.expect(ASCII("}"), "end of empty object")
		}
		inner := append(append([]uint16{}, indent...), m.gap...)
		remaining := map[string]*Ser{}
		for i, k := range s.Keys {
			remaining[key16(k)] = s.Vals[i]
		}
		for i := range s.Keys {
			if i > 0 {
				if err := m.expect(ASCII(","), "separator"); err != "" {
					return err
				}
			}
			if err := m.newline(inner); err != "" {
				return err
			}
			at := m.p
			k, sp, err := m.stringToken()
			if err != "" {
				return err
			}
			v, ok := remaining[key16(k)]
			if !ok {
				return fmt.Sprintf("offset %d: member %s is not (or no longer) expected here; the model's object has keys %s", at, show16(k), keyListOf(s.Keys))
			}
			delete(remaining, key16(k))
			if err := m.checkSpelling(k, sp, at); err != "" {
				return err
			}
			sep := ":"
			if len(m.gap) > 0 {
				sep = ": "
			}
			if err := m.expect(ASCII(sep), "member separator"); err != "" {
				return err
			}
			if err := m.value(v, inner); err != "" {
				return err
			}
		}
		if err := m.newline(indent); err != "" {
			return err
		}
		return m.expect(ASCII("}"), "object end")
	}
	return "bad Ser"
}

func (m *matcher) newline(indent []uint16) string {
	if len(m.gap) == 0 {
		return ""
	}
	if err := m.expect([]uint16{'\n'}, "line break"); err != "" {
		return err
	}
	if len(indent) == 0 {
		return ""
	}
	return m.expect(indent, "indentation")
}

func keyListOf(keys [][]uint16) string {
	p := make([]string, len(keys))
	for i, k := range keys {
		p[i] = show16(k)
	}
	return "[" + strings.Join(p, ",") + "]"
}

// MatchCalls checks the flat call log against the call tree. Returns "" or a description.
func MatchCalls(root *CallTree, log []LogEntry) string {
	var fail string
	var match func(n *CallTree, pos int) (int, bool)
	var matchSet func(rem []*CallTree, pos int) (int, bool)
	same := func(a, b LogEntry) bool {
		return a.Kind == b.Kind && a.Class == b.Class && eq16(a.Key, b.Key) && a.Val == b.Val
	}
	match = func(n *CallTree, pos int) (int, bool) {
		for _, e := range n.Own {
			if pos >= len(log) {
				fail = fmt.Sprintf("log ends after %d call(s); the model expects %s next", len(log), e)
				return 0, false
			}
			if !same(log[pos], e) {
				fail = fmt.Sprintf("call #%d is %s, the model expects %s", pos, log[pos], e)
				return 0, false
			}
			pos++
		}
		if n.Ordered {
			for _, ch := range n.Children {
				var ok bool
				if pos, ok = match(ch, pos); !ok {
					return 0, false
				}
			}
			return pos, true
		}
		var rem []*CallTree
		for _, ch := range n.Children {
			if ch.size() > 0 {
				rem = append(rem, ch)
			}
		}
		return matchSet(rem, pos)
	}
	matchSet = func(rem []*CallTree, pos int) (int, bool) {
		if len(rem) == 0 {
			return pos, true
		}
		for i, ch := range rem {
			if end, ok := match(ch, pos); ok {
				rest := append(append([]*CallTree{}, rem[:i]...), rem[i+1:]...)
				if end2, ok2 := matchSet(rest, end); ok2 {
					return end2, true
				}
			}
		}
		if fail == "" {
			fail = fmt.Sprintf("call #%d does not start any member still to be serialised", pos)
		}
		return 0, false
	}
	end, ok := match(root, 0)
	if !ok {
		return fail
	}
	if end != len(log) {
		return fmt.Sprintf("%d extra call(s) at the end of the log, first %s", len(log)-end, log[end])
	}
	return ""
}
