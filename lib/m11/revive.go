package m11

import (
	"fmt"
	"math"
	"strings"
)

// ---- JS values as far as JSON.parse with a reviver can produce them ---------------------------------

type JK int

const (
	JUndef JK = iota
	JNull
	JBool
	JNum
	JStr
	JArr
	JObj
)

type JMem struct {
	Key []uint16
	Val *JV
}

// JV is a JS value: arrays may have holes (nil element), objects keep insertion order.
type JV struct {
	K   JK
	B   bool
	N   float64
	S   []uint16
	Arr []*JV // nil = hole
	Obj []JMem
}

// FromNode converts a (deduplicated) JSON tree to the JS value 15.12.2 step 2–3 evaluates it to.
func FromNode(n *Node) *JV {
	switch n.K {
	case Null:
		return &JV{K: JNull}
	case Bool:
		return &JV{K: JBool, B: n.B}
	case Num:
		return &JV{K: JNum, N: n.N}
	case Str:
		return &JV{K: JStr, S: n.S}
	case Arr:
		v := &JV{K: JArr, Arr: make([]*JV, len(n.Arr))}
		for i, e := range n.Arr {
			v.Arr[i] = FromNode(e)
		}
		return v
	}
	v := &JV{K: JObj}
	for _, m := range n.Obj {
		v.Obj = append(v.Obj, JMem{Key: m.Key, Val: FromNode(m.Val)})
	}
	return v
}

func (v *JV) Brief() string {
	if v == nil {
		return "<hole>"
	}
	switch v.K {
	case JUndef:
		return "undefined"
	case JNull:
		return "null"
	case JBool:
		return fmt.Sprint(v.B)
	case JNum:
		return "number " + numRepr(v.N)
	case JStr:
		return "string " + show16(v.S)
	case JArr:
		present := 0
		for _, e := range v.Arr {
			if e != nil {
				present++
			}
		}
		return fmt.Sprintf("array(length %d, %d present)", len(v.Arr), present)
	}
	p := make([]string, len(v.Obj))
	for i, m := range v.Obj {
		p[i] = show16(m.Key)
	}
	return "object[" + strings.Join(p, ",") + "]"
}

// DiffJV compares JS values: numbers by bits (NaN equal to NaN), strings by units, array holes,
// object members as a set.
func DiffJV(want, got *JV) string { return diffJV("$", want, got) }

func diffJV(path string, w, g *JV) string {
	if (w == nil) != (g == nil) {
		return fmt.Sprintf("%s: want %s, got %s", path, w.Brief(), g.Brief())
	}
	if w == nil {
		return ""
	}
	if w.K != g.K {
		return fmt.Sprintf("%s: want %s, got %s", path, w.Brief(), g.Brief())
	}
	switch w.K {
	case JBool:
		if w.B != g.B {
			return fmt.Sprintf("%s: want %v, got %v", path, w.B, g.B)
		}
	case JNum:
		if !(math.IsNaN(w.N) && math.IsNaN(g.N)) && math.Float64bits(w.N) != math.Float64bits(g.N) {
			return fmt.Sprintf("%s: want number %s, got %s", path, numRepr(w.N), numRepr(g.N))
		}
	case JStr:
		if !eq16(w.S, g.S) {
			return fmt.Sprintf("%s: want string %s, got %s", path, show16(w.S), show16(g.S))
		}
	case JArr:
		if len(w.Arr) != len(g.Arr) {
			return fmt.Sprintf("%s: want %s, got %s", path, w.Brief(), g.Brief())
		}
		for i := range w.Arr {
			if d := diffJV(fmt.Sprintf("%s[%d]", path, i), w.Arr[i], g.Arr[i]); d != "" {
				return d
			}
		}
	case JObj:
		gm := map[string]*JV{}
		for _, m := range g.Obj {
			gm[key16(m.Key)] = m.Val
		}
		if len(gm) != len(g.Obj) {
			return fmt.Sprintf("%s: got object repeats a key", path)
		}
		for _, m := range w.Obj {
			v, ok := gm[key16(m.Key)]
			if !ok {
				return fmt.Sprintf("%s: member %s missing: want %s, got %s", path, show16(m.Key), w.Brief(), g.Brief())
			}
			if d := diffJV(path+"."+show16(m.Key), m.Val, v); d != "" {
				return d
			}
			delete(gm, key16(m.Key))
		}
		if len(gm) != 0 {
			return fmt.Sprintf("%s: unexpected members: want %s, got %s", path, w.Brief(), g.Brief())
		}
	}
	return ""
}

// MapLone replaces every lone surrogate in string values by U+FFFD (what a UTF-8 string store
// makes of it); used only while the lone-surrogate finding is active.
func (v *JV) MapLone() *JV {
	if v == nil {
		return nil
	}
	switch v.K {
	case JStr:
		return &JV{K: JStr, S: mapLone(v.S)}
	case JArr:
		o := &JV{K: JArr, Arr: make([]*JV, len(v.Arr))}
		for i, e := range v.Arr {
			o.Arr[i] = e.MapLone()
		}
		return o
	case JObj:
		o := &JV{K: JObj}
		for _, m := range v.Obj {
			o.Obj = append(o.Obj, JMem{Key: m.Key, Val: m.Val.MapLone()})
		}
		return o
	}
	return v
}

// MapLone16 replaces lone surrogates by U+FFFD.
func MapLone16(u []uint16) []uint16 { return mapLone(u) }

func mapLone(u []uint16) []uint16 {
	out := make([]uint16, len(u))
	for i := 0; i < len(u); i++ {
		c := u[i]
		switch {
		case c >= 0xD800 && c < 0xDC00 && i+1 < len(u) && u[i+1] >= 0xDC00 && u[i+1] < 0xE000:
			out[i], out[i+1] = c, u[i+1]
			i++
		case c >= 0xD800 && c < 0xE000:
			out[i] = 0xFFFD
		default:
			out[i] = c
		}
	}
	return out
}

// ---- the reviver family ---------------------------------------------------------------------------------

// Reviver describes one member of the reviver family. The generated function always logs its
// call (key, class of the holder, a summary of the value) and then, in this order:
//
//	if (k === DelWhen) delete this[DelKey];
//	if (v === undefined) return v;
//	if (k === Drop) return undefined;
//	if (k === Wrap) return {w: v};
//	if (Neg && typeof v === "number") return -v;
//	if (ArrLen && Array.isArray(v)) return v.length;
//	return v;
type Reviver struct {
	Drop    *[]uint16 `json:"drop,omitempty"`
	Wrap    *[]uint16 `json:"wrap,omitempty"`
	Neg     bool      `json:"neg,omitempty"`
	ArrLen  bool      `json:"arrlen,omitempty"`
	DelWhen *[]uint16 `json:"delwhen,omitempty"`
	DelKey  *[]uint16 `json:"delkey,omitempty"`
	// NonCallable, when set, is an ES5 expression for a value that is not callable ({} 5 null "f" [] /x/ true):
	// 15.12.2 step 4 applies the reviver only "if IsCallable(reviver)", so the result is the plain parse and nothing is called.
	NonCallable string `json:"noncallable,omitempty"`
}

// RevEntry is one logged reviver call.
type RevEntry struct {
	Key       []uint16
	HolderArr bool
	Kind      string // undefined null boolean number string array object
	B         bool
	N         float64
	S         []uint16
	Len, Keys int // array: length and number of present indices; object: Keys = number of own enumerable keys
}

func (e RevEntry) String() string {
	h := "Object"
	if e.HolderArr {
		h = "Array"
	}
	s := fmt.Sprintf("(this:%s, key %s, ", h, show16(e.Key))
	switch e.Kind {
	case "boolean":
		s += fmt.Sprint(e.B)
	case "number":
		s += numRepr(e.N)
	case "string":
		s += show16(e.S)
	case "array":
		s += fmt.Sprintf("array length %d/%d present", e.Len, e.Keys)
	case "object":
		s += fmt.Sprintf("object with %d keys", e.Keys)
	default:
		s += e.Kind
	}
	return s + ")"
}

func sameEntry(a, b RevEntry) bool {
	if !eq16(a.Key, b.Key) || a.HolderArr != b.HolderArr || a.Kind != b.Kind {
		return false
	}
	switch a.Kind {
	case "boolean":
		return a.B == b.B
	case "number":
		return (math.IsNaN(a.N) && math.IsNaN(b.N)) || math.Float64bits(a.N) == math.Float64bits(b.N)
	case "string":
		return eq16(a.S, b.S)
	case "array":
		return a.Len == b.Len && a.Keys == b.Keys
	case "object":
		return a.Keys == b.Keys
	}
	return true
}

// RevLog is the call tree of Walk (15.12.2): the children are walked first, then the node's own
// call is made. For arrays the children are in ascending index order (mandated); for objects the
// order of the children is the implementation's enumeration order (not mandated by ES5.1).
type RevLog struct {
	Entry    RevEntry
	Children []*RevLog
	Ordered  bool
	// AltUndef: a sibling's call deletes this property of an object holder. When the implementation
	// enumerates that sibling first, Walk finds undefined here, does not descend, and calls the
	// reviver with undefined; when it enumerates this property first the real value is walked.
	// ES5.1 does not fix the enumeration order, so both shapes are correct (the final result is the same).
	AltUndef bool
}

func summarize(key []uint16, holderArr bool, v *JV) RevEntry {
	e := RevEntry{Key: key, HolderArr: holderArr}
	if v == nil {
		e.Kind = "undefined"
		return e
	}
	switch v.K {
	case JUndef:
		e.Kind = "undefined"
	case JNull:
		e.Kind = "null"
	case JBool:
		e.Kind, e.B = "boolean", v.B
	case JNum:
		e.Kind, e.N = "number", v.N
	case JStr:
		e.Kind, e.S = "string", v.S
	case JArr:
		e.Kind, e.Len = "array", len(v.Arr)
		for _, x := range v.Arr {
			if x != nil {
				e.Keys++
			}
		}
	case JObj:
		e.Kind, e.Keys = "object", len(v.Obj)
	}
	return e
}

func idxKey(i int) []uint16 { return ASCII(fmt.Sprint(i)) }

func keyIs(p *[]uint16, k []uint16) bool { return p != nil && eq16(*p, k) }

// call models the generated reviver function body applied to (holder, key, value); del reports the
// key it deleted from the holder (nil when none).
func (r *Reviver) call(key []uint16, v *JV) (result *JV, del *[]uint16) {
	if keyIs(r.DelWhen, key) && r.DelKey != nil && !eq16(*r.DelKey, key) {
		del = r.DelKey // deleting the property being revived has no lasting effect: Walk's caller redefines it (or deletes it anyway)
	}
	switch {
	case v == nil || v.K == JUndef:
		return &JV{K: JUndef}, del
	case keyIs(r.Drop, key):
		return &JV{K: JUndef}, del
	case keyIs(r.Wrap, key):
		return &JV{K: JObj, Obj: []JMem{{Key: ASCII("w"), Val: v}}}, del
	case r.Neg && v.K == JNum:
		return &JV{K: JNum, N: -v.N}, del
	case r.ArrLen && v.K == JArr:
		return &JV{K: JNum, N: float64(len(v.Arr))}, del
	}
	return v, del
}

// Revive is the abstract operation Walk of 15.12.2 applied to the root holder {"": value} with the
// generated reviver. It returns the final result (JUndef possible) and the call tree.
func (r *Reviver) Revive(root *JV) (result *JV, log *RevLog, flags RevFlags) {
	holder := &JV{K: JObj, Obj: []JMem{{Key: []uint16{}, Val: root}}}
	flags.root = holder
	res, lg, _ := r.walk(holder, []uint16{}, false, &flags)
	flags.root = nil
	return res, lg, flags
}

// RevFlags are facts about one Revive run.
type RevFlags struct {
	OrderDependent bool // a member of an object is deleted by a sibling's call: the log depends on the enumeration order
	ObjectDeletion bool // some property was deleted from an object (not array) holder while its members were being walked
	ArrayDeletion  bool // same for an array holder (leaves a hole)
	root           *JV
}

func getProp(holder *JV, key []uint16) *JV {
	if holder.K == JArr {
		for i := range holder.Arr {
			if eq16(idxKey(i), key) {
				return holder.Arr[i]
			}
		}
		return nil
	}
	for _, m := range holder.Obj {
		if eq16(m.Key, key) {
			return m.Val
		}
	}
	return nil
}

func deleteProp(holder *JV, key []uint16) {
	if holder.K == JArr {
		for i := range holder.Arr {
			if eq16(idxKey(i), key) {
				holder.Arr[i] = nil
			}
		}
		return
	}
	for i, m := range holder.Obj {
		if eq16(m.Key, key) {
			holder.Obj = append(holder.Obj[:i:i], holder.Obj[i+1:]...)
			return
		}
	}
}

func putProp(holder *JV, key []uint16, v *JV) {
	if holder.K == JArr {
		for i := range holder.Arr {
			if eq16(idxKey(i), key) {
				holder.Arr[i] = v
			}
		}
		return
	}
	for i, m := range holder.Obj {
		if eq16(m.Key, key) {
			holder.Obj[i].Val = v
			return
		}
	}
	holder.Obj = append(holder.Obj, JMem{Key: key, Val: v})
}

func hasKey(keys [][]uint16, k []uint16) bool {
	for _, x := range keys {
		if eq16(x, k) {
			return true
		}
	}
	return false
}

// walk is Walk(holder, name); it mutates the value in place like the specification does. The
// deletion the reviver call performs on the holder is returned to the caller (del), which applies
// it at once for array holders (index order is mandated, so the effect on later indices is
// determined) and after all members for object holders (where either order is legitimate: the
// member concerned is marked AltUndef and the final state is the same).
func (r *Reviver) walk(holder *JV, name []uint16, holderArr bool, fl *RevFlags) (res *JV, lg *RevLog, del *[]uint16) {
	isRootHolder := holder == fl.root
	val := getProp(holder, name) // step 1: val = holder.[[Get]](name)
	lg = &RevLog{}
	if val != nil && (val.K == JArr || val.K == JObj) {
		// step 2: the keys are fixed before any member is walked (array: I from 0 to len-1, len read once; object: list of own enumerable keys)
		var keys [][]uint16
		if val.K == JArr {
			lg.Ordered = true
			for i := range val.Arr {
				keys = append(keys, idxKey(i))
			}
		} else {
			for _, m := range val.Obj {
				keys = append(keys, m.Key)
			}
		}
		var deferred [][]uint16
		for _, k := range keys {
			newElement, child, d := r.walk(val, k, val.K == JArr, fl)
			if val.K == JObj && r.DelWhen != nil && r.DelKey != nil && eq16(*r.DelKey, k) && !eq16(*r.DelWhen, k) && hasKey(keys, *r.DelWhen) {
				child.AltUndef = true
				fl.OrderDependent = true
			}
			if newElement == nil || newElement.K == JUndef {
				if getProp(val, k) != nil {
					if val.K == JObj {
						fl.ObjectDeletion = true
					} else {
						fl.ArrayDeletion = true
					}
				}
				deleteProp(val, k)
			} else {
				putProp(val, k, newElement)
			}
			if d != nil {
				if val.K == JArr {
					if getProp(val, *d) != nil {
						fl.ArrayDeletion = true
					}
					deleteProp(val, *d)
				} else {
					if hasKey(keys, *d) {
						fl.ObjectDeletion = true
					}
					deferred = append(deferred, *d)
				}
			}
			lg.Children = append(lg.Children, child)
		}
		for _, d := range deferred {
			deleteProp(val, d)
		}
	}
	lg.Entry = summarize(name, holderArr, val)
	res, del = r.call(name, val)
	if keyIs(r.DelWhen, name) && r.DelKey != nil && eq16(*r.DelKey, name) && val != nil && holder.K == JObj && !isRootHolder {
		fl.ObjectDeletion = true // the property is deleted (and redefined by the caller) while its holder's members are being walked
	}
	return res, lg, del
}

// MatchRevLog checks a flat call log (in call order) against the call tree: post-order, array
// members ascending, object members in any order, AltUndef members in either shape. It returns ""
// or a description of the first mismatch (scanning from the end of the log, where the root call is).
func MatchRevLog(root *RevLog, log []RevEntry) string {
	worst := len(log)
	var worstMsg string
	note := func(pos int, msg string) {
		if pos < worst || worstMsg == "" {
			worst, worstMsg = pos, msg
		}
	}
	var match func(n *RevLog, pos int) []int
	var matchSet func(rem []*RevLog, pos int) []int
	match = func(n *RevLog, pos int) []int {
		if pos < 0 {
			note(-1, fmt.Sprintf("log ends early: the call %s is missing", n.Entry))
			return nil
		}
		e := log[pos]
		var out []int
		if n.AltUndef && e.Kind == "undefined" && eq16(e.Key, n.Entry.Key) && e.HolderArr == n.Entry.HolderArr {
			out = append(out, pos-1)
		}
		if !sameEntry(e, n.Entry) {
			if len(out) == 0 {
				note(pos, fmt.Sprintf("call #%d is %s, the model expects %s", pos, e, n.Entry))
			}
			return out
		}
		if n.Ordered {
			ps := []int{pos - 1}
			for i := len(n.Children) - 1; i >= 0 && len(ps) > 0; i-- {
				var next []int
				for _, p := range ps {
					next = append(next, match(n.Children[i], p)...)
				}
				ps = next
			}
			return append(out, ps...)
		}
		return append(out, matchSet(n.Children, pos-1)...)
	}
	matchSet = func(rem []*RevLog, pos int) []int {
		if len(rem) == 0 {
			return []int{pos}
		}
		if pos < 0 {
			note(-1, fmt.Sprintf("log ends early: %d member call(s) missing, e.g. %s", len(rem), rem[0].Entry))
			return nil
		}
		var out []int
		found := false
		for i, c := range rem {
			if !eq16(c.Entry.Key, log[pos].Key) {
				continue
			}
			found = true
			rest := append(append([]*RevLog{}, rem[:i]...), rem[i+1:]...)
			for _, q := range match(c, pos) {
				out = append(out, matchSet(rest, q)...)
			}
		}
		if !found {
			note(pos, fmt.Sprintf("call #%d is %s, but the members still to be visited are %s", pos, log[pos], keysOf(rem)))
		}
		return out
	}
	for _, end := range match(root, len(log)-1) {
		if end == -1 {
			return ""
		}
		note(end, fmt.Sprintf("%d extra call(s) before the expected log, e.g. %s", end+1, log[end]))
	}
	if worstMsg == "" {
		worstMsg = "log does not match the call tree"
	}
	return worstMsg
}

func keysOf(rem []*RevLog) string {
	p := make([]string, len(rem))
	for i, c := range rem {
		p[i] = show16(c.Entry.Key)
	}
	return "[" + strings.Join(p, ",") + "]"
}

// JS renders the reviver as an ES5 function expression; it pushes its calls on the global array __log.
func (r *Reviver) JS(quote func([]uint16) string) string {
	var b strings.Builder
	b.WriteString(`(function(k,v){var c=Object.prototype.toString.call(this),e;` +
		`if(v===undefined)e=[k,c,"undefined"];else if(v===null)e=[k,c,"null"];` +
		`else if(Array.isArray(v))e=[k,c,"array",v.length,Object.keys(v).length];` +
		`else if(typeof v==="object")e=[k,c,"object",Object.keys(v).length];else e=[k,c,typeof v,v];__log.push(e);`)
	if r.DelWhen != nil && r.DelKey != nil {
		fmt.Fprintf(&b, "if(k===%s)delete this[%s];", quote(*r.DelWhen), quote(*r.DelKey))
	}
	b.WriteString("if(v===undefined)return v;")
	if r.Drop != nil {
		fmt.Fprintf(&b, "if(k===%s)return undefined;", quote(*r.Drop))
	}
	if r.Wrap != nil {
		fmt.Fprintf(&b, "if(k===%s)return {w:v};", quote(*r.Wrap))
	}
	if r.Neg {
		b.WriteString(`if(typeof v==="number")return -v;`)
	}
	if r.ArrLen {
		b.WriteString("if(Array.isArray(v))return v.length;")
	}
	b.WriteString("return v})")
	return b.String()
}
