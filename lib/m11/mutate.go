package m11

import (
	"pgregory.net/rapid"
)

// Mutation is the result of applying one edit to a valid JSON text. Whether the result is still a
// JSONText is decided by Parse (the recogniser), never by the intent of the edit.
type Mutation struct {
	Text        []uint16
	Name        string
	InsideToken bool // the edit changed code units strictly inside a string/number/word token (not just between tokens)
}

// MutationNames lists every edit kind (for histograms).
var MutationNames = []string{
	"trailing-comma", "leading-zero", "plus-sign", "drop-int-part", "trailing-dot", "single-quotes",
	"raw-control", "nonfinite-word", "hex-number", "comment", "bare-word", "truncate", "bad-whitespace",
	"unescaped-quote", "delete-unit", "insert-unit", "replace-unit", "dup-token", "colon-comma-swap",
	"drop-punct", "double-comma", "case-literal", "unquoted-key", "bad-escape", "second-value", "broken-exponent",
	"minus-alone", "space-in-number", "leading-comma", "elision",
}

func splice(text []uint16, from, to int, ins []uint16) []uint16 {
	out := make([]uint16, 0, len(text)-(to-from)+len(ins))
	out = append(out, text[:from]...)
	out = append(out, ins...)
	out = append(out, text[to:]...)
	return out
}

func toksOf(toks []Token, k TokKind) []Token {
	var out []Token
	for _, t := range toks {
		if t.Kind == k {
			out = append(out, t)
		}
	}
	return out
}

func punctsOf(text []uint16, toks []Token, cs ...uint16) []Token {
	var out []Token
	for _, t := range toks {
		if t.Kind != TPunct {
			continue
		}
		for _, c := range cs {
			if text[t.Start] == c {
				out = append(out, t)
			}
		}
	}
	return out
}

var badWS = []uint16{0x00A0, 0xFEFF, 0x000B, 0x000C, 0x2028, 0x2029, 0x0085, 0x3000, 0x1680, 0x2003, 0x0000, 0x001F}
var insertAlphabet = []uint16{'"', '\\', ',', ':', '{', '}', '[', ']', '0', '1', '9', '-', '+', '.', 'e', 'E', 'a', 'u', 'n', 't', 'f', '/', '*', '\'', ' ', 0x09, 0x0A, 0x0D, 0x00, 0x1F, 0x7F, 0xA0, 0x2028, 0xFEFF, 'x', 'N', 'I', '#', '$', '_'}

// Mutate applies one randomly chosen edit. toks are the tokens of text (from Parse).
func Mutate(t *rapid.T, text []uint16, toks []Token) Mutation {
	for attempt := 0; attempt < 8; attempt++ {
		name := rapid.SampledFrom(MutationNames).Draw(t, "mutation")
		if m, ok := mutateOne(t, name, text, toks); ok {
			return m
		}
	}
	// always applicable
	m, _ := mutateOne(t, "truncate", text, toks)
	return m
}

func pickTok(t *rapid.T, ts []Token) (Token, bool) {
	if len(ts) == 0 {
		return Token{}, false
	}
	return ts[rapid.IntRange(0, len(ts)-1).Draw(t, "tok")], true
}

func mutateOne(t *rapid.T, name string, text []uint16, toks []Token) (Mutation, bool) {
	mk := func(out []uint16, inside bool) (Mutation, bool) {
		return Mutation{Text: out, Name: name, InsideToken: inside}, true
	}
	nums := toksOf(toks, TNumber)
	strs := toksOf(toks, TString)
	words := toksOf(toks, TWord)
	var values []Token
	values = append(values, nums...)
	values = append(values, strs...)
	values = append(values, words...)
	switch name {
	case "trailing-comma":
		tk, ok := pickTok(t, punctsOf(text, toks, ']', '}'))
		if !ok {
			return Mutation{}, false
		}
		return mk(splice(text, tk.Start, tk.Start, ASCII(",")), false)
	case "leading-comma":
		tk, ok := pickTok(t, punctsOf(text, toks, '[', '{'))
		if !ok {
			return Mutation{}, false
		}
		return mk(splice(text, tk.End, tk.End, ASCII(",")), false)
	case "elision", "double-comma":
		tk, ok := pickTok(t, punctsOf(text, toks, ','))
		if !ok {
			return Mutation{}, false
		}
		return mk(splice(text, tk.End, tk.End, ASCII(",")), false)
	case "leading-zero":
		tk, ok := pickTok(t, nums)
		if !ok {
			return Mutation{}, false
		}
		p := tk.Start
		if text[p] == '-' {
			p++
		}
		return mk(splice(text, p, p, ASCII("0")), true)
	case "plus-sign":
		tk, ok := pickTok(t, nums)
		if !ok {
			return Mutation{}, false
		}
		if text[tk.Start] == '-' && rapid.Bool().Draw(t, "replaceMinus") {
			return mk(splice(text, tk.Start, tk.Start+1, ASCII("+")), true)
		}
		return mk(splice(text, tk.Start, tk.Start, ASCII("+")), true)
	case "drop-int-part": // 0.5 → .5, 12.5 → .5
		for _, tk := range shuffled(t, nums) {
			for i := tk.Start; i < tk.End; i++ {
				if text[i] == '.' {
					p := tk.Start
					if text[p] == '-' {
						p++
					}
					return mk(splice(text, p, i, nil), true)
				}
			}
		}
		return Mutation{}, false
	case "trailing-dot": // 1 → 1.   1e5 → 1.e5
		tk, ok := pickTok(t, nums)
		if !ok {
			return Mutation{}, false
		}
		p := tk.Start
		if text[p] == '-' {
			p++
		}
		for p < tk.End && text[p] >= '0' && text[p] <= '9' {
			p++
		}
		if p < tk.End && text[p] == '.' {
			// already has a fraction: cut the fraction digits instead (1.5 → 1.)
			q := p + 1
			for q < tk.End && text[q] >= '0' && text[q] <= '9' {
				q++
			}
			return mk(splice(text, p+1, q, nil), true)
		}
		return mk(splice(text, p, p, ASCII(".")), true)
	case "single-quotes":
		tk, ok := pickTok(t, strs)
		if !ok {
			return Mutation{}, false
		}
		out := append([]uint16{}, text...)
		out[tk.Start] = '\''
		out[tk.End-1] = '\''
		return mk(out, true)
	case "raw-control":
		tk, ok := pickTok(t, strs)
		if !ok {
			return Mutation{}, false
		}
		p := rapid.IntRange(tk.Start+1, tk.End-1).Draw(t, "pos")
		if !escapeBoundaryOK(text, tk, p) {
			return Mutation{}, false
		}
		c := uint16(rapid.IntRange(0, 0x1F).Draw(t, "ctrl"))
		return mk(splice(text, p, p, []uint16{c}), true)
	case "unescaped-quote":
		tk, ok := pickTok(t, strs)
		if !ok {
			return Mutation{}, false
		}
		p := rapid.IntRange(tk.Start+1, tk.End-1).Draw(t, "pos")
		return mk(splice(text, p, p, ASCII("\"")), true)
	case "nonfinite-word", "hex-number", "bare-word":
		tk, ok := pickTok(t, values)
		if !ok {
			return Mutation{}, false
		}
		var pool []string
		switch name {
		case "nonfinite-word":
			pool = []string{"NaN", "Infinity", "-Infinity", "+Infinity", "-NaN"}
		case "hex-number":
			pool = []string{"0x10", "0X1F", "0x", "-0x1", "0b1", "0o7", "017", "1n", "1_0", "0x1.8p1"}
		default:
			pool = []string{"undefined", "nul", "nulll", "tru", "truee", "fals", "abc", "None", "nil", "void 0", "new Date(0)", "function(){}", "(1)", "1+1", "`a`", "a"}
		}
		w := rapid.SampledFrom(pool).Draw(t, "word")
		return mk(splice(text, tk.Start, tk.End, ASCII(w)), true)
	case "comment":
		p := boundaryPos(t, text, toks)
		c := rapid.SampledFrom([]string{"/**/", "/* c */", "//c\n", "// c", "#c\n", "<!--c-->"}).Draw(t, "comment")
		return mk(splice(text, p, p, ASCII(c)), false)
	case "truncate":
		if len(text) == 0 {
			return mk([]uint16{}, false)
		}
		p := rapid.IntRange(0, len(text)-1).Draw(t, "cut")
		return mk(append([]uint16{}, text[:p]...), insideAny(toks, p))
	case "bad-whitespace":
		c := rapid.SampledFrom(badWS).Draw(t, "badws")
		// replace an existing white-space unit between tokens when there is one, else insert at a token boundary
		var wsPos []int
		for i, u := range text {
			if (u == 0x20 || u == 0x09 || u == 0x0A || u == 0x0D) && !insideAny(toks, i) && !startsTok(toks, i) {
				wsPos = append(wsPos, i)
			}
		}
		if len(wsPos) > 0 && rapid.Bool().Draw(t, "replacews") {
			p := wsPos[rapid.IntRange(0, len(wsPos)-1).Draw(t, "wspos")]
			out := append([]uint16{}, text...)
			out[p] = c
			return mk(out, false)
		}
		p := boundaryPos(t, text, toks)
		return mk(splice(text, p, p, []uint16{c}), false)
	case "delete-unit":
		if len(text) == 0 {
			return Mutation{}, false
		}
		p := rapid.IntRange(0, len(text)-1).Draw(t, "pos")
		if surrogateAt(text, p) {
			return Mutation{}, false // would leave a raw lone surrogate, which cannot be carried into otto
		}
		return mk(splice(text, p, p+1, nil), insideAny(toks, p) || startsTok(toks, p))
	case "insert-unit":
		p := rapid.IntRange(0, len(text)).Draw(t, "pos")
		if p > 0 && p < len(text) && surrogateAt(text, p-1) && surrogateAt(text, p) && text[p-1] < 0xDC00 {
			return Mutation{}, false // between the halves of a raw astral character
		}
		c := rapid.SampledFrom(insertAlphabet).Draw(t, "unit")
		return mk(splice(text, p, p, []uint16{c}), insideAny(toks, p))
	case "replace-unit":
		if len(text) == 0 {
			return Mutation{}, false
		}
		p := rapid.IntRange(0, len(text)-1).Draw(t, "pos")
		if surrogateAt(text, p) {
			return Mutation{}, false
		}
		c := rapid.SampledFrom(insertAlphabet).Draw(t, "unit")
		if c == text[p] {
			return Mutation{}, false
		}
		out := append([]uint16{}, text...)
		out[p] = c
		return mk(out, insideAny(toks, p) || startsTok(toks, p))
	case "dup-token":
		tk, ok := pickTok(t, toks)
		if !ok {
			return Mutation{}, false
		}
		return mk(splice(text, tk.End, tk.End, text[tk.Start:tk.End]), false)
	case "colon-comma-swap":
		tk, ok := pickTok(t, punctsOf(text, toks, ':', ','))
		if !ok {
			return Mutation{}, false
		}
		out := append([]uint16{}, text...)
		if out[tk.Start] == ':' {
			out[tk.Start] = rapid.SampledFrom([]uint16{',', '=', ';'}).Draw(t, "swap")
		} else {
			out[tk.Start] = rapid.SampledFrom([]uint16{':', ';', ' '}).Draw(t, "swap")
		}
		return mk(out, false)
	case "drop-punct":
		tk, ok := pickTok(t, toksOf(toks, TPunct))
		if !ok {
			return Mutation{}, false
		}
		return mk(splice(text, tk.Start, tk.End, ASCII(" ")), false)
	case "case-literal":
		tk, ok := pickTok(t, words)
		if !ok {
			return Mutation{}, false
		}
		out := append([]uint16{}, text...)
		if rapid.Bool().Draw(t, "allcaps") {
			for i := tk.Start; i < tk.End; i++ {
				out[i] -= 32
			}
		} else {
			out[tk.Start] -= 32
		}
		return mk(out, true)
	case "unquoted-key":
		for _, tk := range shuffled(t, strs) {
			// a key is a string token directly followed (after white space) by ':'
			q := tk.End
			for q < len(text) && (text[q] == 0x20 || text[q] == 0x09 || text[q] == 0x0A || text[q] == 0x0D) {
				q++
			}
			if q < len(text) && text[q] == ':' {
				out := splice(text, tk.End-1, tk.End, nil)
				out = splice(out, tk.Start, tk.Start+1, nil)
				return mk(out, true)
			}
		}
		return Mutation{}, false
	case "bad-escape":
		tk, ok := pickTok(t, strs)
		if !ok {
			return Mutation{}, false
		}
		p := rapid.IntRange(tk.Start+1, tk.End-1).Draw(t, "pos")
		if !escapeBoundaryOK(text, tk, p) {
			return Mutation{}, false
		}
		e := rapid.SampledFrom([]string{"\\a", "\\x41", "\\u12G4", "\\U0041", "\\u12", "\\'", "\\0", "\\v", "\\u{41}", "\\ ", "\\\n", "\\u 041", "\\u+041", "\\u-041"}).Draw(t, "esc")
		return mk(splice(text, p, p, ASCII(e)), true)
	case "second-value":
		w := rapid.SampledFrom([]string{" 1", " null", "[]", "{}", " \"a\"", ",", "]", "}", ";", "\x00"}).Draw(t, "extra")
		return mk(splice(text, len(text), len(text), ASCII(w)), false)
	case "broken-exponent":
		tk, ok := pickTok(t, nums)
		if !ok {
			return Mutation{}, false
		}
		e := rapid.SampledFrom([]string{"e", "E", "e+", "e-", "E+", "ee1", "e1.5", "e+-1", "e 1", "f1", "d0", "e1e1"}).Draw(t, "exp")
		// cut an existing exponent first so that the suffix lands in exponent position
		end := tk.End
		for i := tk.Start; i < tk.End; i++ {
			if text[i] == 'e' || text[i] == 'E' {
				end = i
				break
			}
		}
		return mk(splice(text, end, tk.End, ASCII(e)), true)
	case "minus-alone":
		tk, ok := pickTok(t, nums)
		if !ok {
			return Mutation{}, false
		}
		w := rapid.SampledFrom([]string{"-", "--1", "- 1", "-.5", "-e1", "-a", "+-1", "-+1"}).Draw(t, "minus")
		return mk(splice(text, tk.Start, tk.End, ASCII(w)), true)
	case "space-in-number":
		tk, ok := pickTok(t, nums)
		if !ok || tk.End-tk.Start < 2 {
			return Mutation{}, false
		}
		p := rapid.IntRange(tk.Start+1, tk.End-1).Draw(t, "pos")
		return mk(splice(text, p, p, []uint16{rapid.SampledFrom(jsonWS).Draw(t, "ws")}), true)
	}
	return Mutation{}, false
}

func shuffled(t *rapid.T, ts []Token) []Token {
	if len(ts) < 2 {
		return ts
	}
	k := rapid.IntRange(0, len(ts)-1).Draw(t, "rot")
	out := append([]Token{}, ts[k:]...)
	return append(out, ts[:k]...)
}

func insideAny(toks []Token, p int) bool {
	for _, tk := range toks {
		if tk.Kind != TPunct && p > tk.Start && p < tk.End {
			return true
		}
	}
	return false
}

func startsTok(toks []Token, p int) bool {
	for _, tk := range toks {
		if tk.Kind != TPunct && p == tk.Start {
			return true
		}
	}
	return false
}

func surrogateAt(text []uint16, p int) bool {
	return p >= 0 && p < len(text) && text[p] >= 0xD800 && text[p] < 0xE000
}

// boundaryPos picks a position between tokens (or at either end of the text).
func boundaryPos(t *rapid.T, text []uint16, toks []Token) int {
	var ps []int
	for p := 0; p <= len(text); p++ {
		if !insideAny(toks, p) {
			ps = append(ps, p)
		}
	}
	return ps[rapid.IntRange(0, len(ps)-1).Draw(t, "bpos")]
}

// escapeBoundaryOK: position p inside string token tk is not in the middle of an escape sequence or of a raw astral pair.
func escapeBoundaryOK(text []uint16, tk Token, p int) bool {
	i := tk.Start + 1
	for i < tk.End-1 {
		if i == p {
			return true
		}
		switch {
		case text[i] == '\\':
			if i+1 < tk.End-1 && text[i+1] == 'u' {
				i += 6
			} else {
				i += 2
			}
		case text[i] >= 0xD800 && text[i] < 0xDC00:
			i += 2
		default:
			i++
		}
		if i > p {
			return false
		}
	}
	return p == tk.End-1
}
