package m11

import (
	"fmt"
	"math"
	"math/big"
)

// Strict reader for the ES5.1 15.12.1 JSON grammar over UTF-16 code units.
//
// Lexical grammar (15.12.1.1): JSONWhiteSpace is exactly <TAB> <CR> <LF> <SP>; JSONString is
// double-quoted, its characters are any code unit except '"', '\' and U+0000..U+001F (so U+007F,
// U+2028, U+2029 and surrogate halves are allowed raw) or an escape \" \/ \\ \b \f \n \r \t \uXXXX;
// JSONNumber is -? (0 | [1-9][0-9]*) (. [0-9]+)? ([eE] [+-]? [0-9]+)?; the literals null true false.
// Syntactic grammar (15.12.1.2): JSONText is one JSONValue; objects are { } or { "k" : v , ... };
// arrays are [ ] or [ v , ... ]; no trailing or leading commas, no elisions.

// TokKind classifies lexical tokens.
type TokKind int

const (
	TPunct TokKind = iota
	TString
	TNumber
	TWord
)

// Token is one lexical token with its half-open span in the text.
type Token struct {
	Kind       TokKind
	Start, End int
}

// SyntaxError is what Parse returns for a text outside the grammar.
type SyntaxError struct {
	Pos int
	Msg string
}

func (e *SyntaxError) Error() string { return fmt.Sprintf("JSON syntax error at %d: %s", e.Pos, e.Msg) }

type reader struct {
	t      []uint16
	p      int
	toks   []Token
	depth  int
	numInf bool // some JSONNumber's value rounds to an infinity
}

// Result of reading a text.
type Result struct {
	Value    *Node   // as written (duplicate keys kept, text order); use Value.Dedupe() for the denoted value
	Tokens   []Token // lexical tokens
	Overflow bool    // a JSONNumber token's mathematical value rounds to ±Infinity (8.5)
}

const maxDepth = 2000

// Parse recognises text as a JSONText and builds the tree it denotes.
func Parse(text []uint16) (*Result, error) {
	r := &reader{t: text}
	r.ws()
	v, err := r.value()
	if err != nil {
		return nil, err
	}
	r.ws()
	if r.p != len(r.t) {
		return nil, r.errf("unexpected %s after the JSON value", r.describe())
	}
	return &Result{Value: v, Tokens: r.toks, Overflow: r.numInf}, nil
}

// Valid reports whether text is in the language of JSONText.
func Valid(text []uint16) bool {
	_, err := Parse(text)
	return err == nil
}

func (r *reader) errf(f string, a ...interface{}) error {
	return &SyntaxError{Pos: r.p, Msg: fmt.Sprintf(f, a...)}
}

func (r *reader) describe() string {
	if r.p >= len(r.t) {
		return "end of text"
	}
	return fmt.Sprintf("code unit U+%04X", r.t[r.p])
}

func (r *reader) ws() {
	for r.p < len(r.t) {
		switch r.t[r.p] {
		case 0x09, 0x0A, 0x0D, 0x20:
			r.p++
		default:
			return
		}
	}
}

func (r *reader) tok(k TokKind, start int) { r.toks = append(r.toks, Token{k, start, r.p}) }

func (r *reader) value() (*Node, error) {
	if r.p >= len(r.t) {
		return nil, r.errf("unexpected end of text, a value is required")
	}
	c := r.t[r.p]
	switch {
	case c == '{':
		return r.object()
	case c == '[':
		return r.array()
	case c == '"':
		s, err := r.str()
		if err != nil {
			return nil, err
		}
		return StrNode(s), nil
	case c == '-' || (c >= '0' && c <= '9'):
		return r.number()
	case c == 'n':
		return r.word("null", NullNode())
	case c == 't':
		return r.word("true", BoolNode(true))
	case c == 'f':
		return r.word("false", BoolNode(false))
	}
	return nil, r.errf("unexpected %s, a value is required", r.describe())
}

func (r *reader) word(w string, n *Node) (*Node, error) {
	start := r.p
	for i := 0; i < len(w); i++ {
		if r.p >= len(r.t) || r.t[r.p] != uint16(w[i]) {
			return nil, r.errf("invalid literal, expected %q", w)
		}
		r.p++
	}
	r.tok(TWord, start)
	return n, nil
}

func (r *reader) punct(c uint16) bool {
	if r.p < len(r.t) && r.t[r.p] == c {
		start := r.p
		r.p++
		r.tok(TPunct, start)
		return true
	}
	return false
}

func (r *reader) object() (*Node, error) {
	r.depth++
	defer func() { r.depth-- }()
	if r.depth > maxDepth {
		return nil, r.errf("nesting deeper than the model's limit")
	}
	r.punct('{')
	n := &Node{K: Obj}
	r.ws()
	if r.punct('}') {
		return n, nil
	}
	for {
		r.ws()
		if r.p >= len(r.t) || r.t[r.p] != '"' {
			return nil, r.errf("unexpected %s, a member name (string) is required", r.describe())
		}
		k, err := r.str()
		if err != nil {
			return nil, err
		}
		r.ws()
		if !r.punct(':') {
			return nil, r.errf("unexpected %s, ':' is required", r.describe())
		}
		r.ws()
		v, err := r.value()
		if err != nil {
			return nil, err
		}
		n.Obj = append(n.Obj, Member{Key: k, Val: v})
		r.ws()
		if r.punct(',') {
			continue
		}
		if r.punct('}') {
			return n, nil
		}
		return nil, r.errf("unexpected %s, ',' or '}' is required", r.describe())
	}
}

func (r *reader) array() (*Node, error) {
	r.depth++
	defer func() { r.depth-- }()
	if r.depth > maxDepth {
		return nil, r.errf("nesting deeper than the model's limit")
	}
	r.punct('[')
	n := &Node{K: Arr, Arr: []*Node{}}
	r.ws()
	if r.punct(']') {
		return n, nil
	}
	for {
		r.ws()
		v, err := r.value()
		if err != nil {
			return nil, err
		}
		n.Arr = append(n.Arr, v)
		r.ws()
		if r.punct(',') {
			continue
		}
		if r.punct(']') {
			return n, nil
		}
		return nil, r.errf("unexpected %s, ',' or ']' is required", r.describe())
	}
}

func hexv(c uint16) int {
	switch {
	case c >= '0' && c <= '9':
		return int(c - '0')
	case c >= 'a' && c <= 'f':
		return int(c-'a') + 10
	case c >= 'A' && c <= 'F':
		return int(c-'A') + 10
	}
	return -1
}

// str reads a JSONString at r.p (which holds '"') and returns its string value (15.12.1.1 / 7.8.4 SV).
func (r *reader) str() ([]uint16, error) {
	start := r.p
	r.p++
	out := []uint16{}
	for {
		if r.p >= len(r.t) {
			return nil, r.errf("unterminated string")
		}
		c := r.t[r.p]
		switch {
		case c == '"':
			r.p++
			r.tok(TString, start)
			return out, nil
		case c < 0x20:
			return nil, r.errf("raw control character U+%04X in a string", c)
		case c == '\\':
			r.p++
			if r.p >= len(r.t) {
				return nil, r.errf("unterminated escape")
			}
			e := r.t[r.p]
			r.p++
			switch e {
			case '"':
				out = append(out, '"')
			case '/':
				out = append(out, '/')
			case '\\':
				out = append(out, '\\')
			case 'b':
				out = append(out, 0x08)
			case 'f':
				out = append(out, 0x0C)
			case 'n':
				out = append(out, 0x0A)
			case 'r':
				out = append(out, 0x0D)
			case 't':
				out = append(out, 0x09)
			case 'u':
				v := 0
				for i := 0; i < 4; i++ {
					if r.p >= len(r.t) {
						return nil, r.errf("truncated \\u escape")
					}
					h := hexv(r.t[r.p])
					if h < 0 {
						return nil, r.errf("bad hex digit in \\u escape")
					}
					v = v*16 + h
					r.p++
				}
				out = append(out, uint16(v))
			default:
				r.p--
				return nil, r.errf("invalid escape character U+%04X", e)
			}
		default:
			out = append(out, c)
			r.p++
		}
	}
}

func (r *reader) digits() int {
	n := 0
	for r.p < len(r.t) && r.t[r.p] >= '0' && r.t[r.p] <= '9' {
		r.p++
		n++
	}
	return n
}

func (r *reader) number() (*Node, error) {
	start := r.p
	neg := false
	if r.t[r.p] == '-' {
		neg = true
		r.p++
	}
	if r.p >= len(r.t) || r.t[r.p] < '0' || r.t[r.p] > '9' {
		return nil, r.errf("a digit is required after '-'")
	}
	intStart := r.p
	if r.t[r.p] == '0' {
		r.p++ // DecimalIntegerLiteral :: 0 — a following digit starts another token, which the syntactic grammar rejects
	} else {
		r.digits()
	}
	intEnd := r.p
	fracStart, fracEnd := r.p, r.p
	if r.p < len(r.t) && r.t[r.p] == '.' {
		r.p++
		fracStart = r.p
		if r.digits() == 0 {
			return nil, r.errf("a digit is required after '.'")
		}
		fracEnd = r.p
	}
	exp := 0
	expHuge := false
	if r.p < len(r.t) && (r.t[r.p] == 'e' || r.t[r.p] == 'E') {
		r.p++
		eneg := false
		if r.p < len(r.t) && (r.t[r.p] == '+' || r.t[r.p] == '-') {
			eneg = r.t[r.p] == '-'
			r.p++
		}
		es := r.p
		if r.digits() == 0 {
			return nil, r.errf("a digit is required in the exponent")
		}
		for _, c := range r.t[es:r.p] {
			if exp < 1_000_000 {
				exp = exp*10 + int(c-'0')
			} else {
				expHuge = true
			}
		}
		if eneg {
			exp = -exp
		}
	}
	r.tok(TNumber, start)
	_ = expHuge
	x := decimalValue(r.t[intStart:intEnd], r.t[fracStart:fracEnd], exp)
	if math.IsInf(x, 0) {
		r.numInf = true
	}
	if neg {
		x = -x // includes 0 → −0 (11.4.7 applied to the literal, as 15.12.2 evaluates the text as ES5 source)
	}
	return NumNode(x), nil
}

// decimalValue is "the Number value for MV" (7.8.3 + 8.5): the double nearest to
// intDigits.fracDigits × 10^exp, ties to even, ±Infinity beyond the range; computed with exact
// rational arithmetic (math/big), not strconv.
func decimalValue(intDigits, fracDigits []uint16, exp int) float64 {
	ds := make([]byte, 0, len(intDigits)+len(fracDigits))
	for _, c := range intDigits {
		ds = append(ds, byte(c))
	}
	for _, c := range fracDigits {
		ds = append(ds, byte(c))
	}
	exp -= len(fracDigits)
	// strip leading zeros; trailing zeros move into the exponent
	i := 0
	for i < len(ds)-1 && ds[i] == '0' {
		i++
	}
	ds = ds[i:]
	for len(ds) > 1 && ds[len(ds)-1] == '0' {
		ds = ds[:len(ds)-1]
		exp++
	}
	m := new(big.Int)
	m.SetString(string(ds), 10)
	if m.Sign() == 0 {
		return 0
	}
	// magnitude shortcuts keep the big arithmetic bounded: value = m × 10^exp with m < 10^len(ds)
	if exp+len(ds) > 400 {
		return math.Inf(1)
	}
	if exp+len(ds) < -400 {
		return 0
	}
	q := new(big.Rat)
	if exp >= 0 {
		p := new(big.Int).Exp(big.NewInt(10), big.NewInt(int64(exp)), nil)
		q.SetInt(m.Mul(m, p))
	} else {
		p := new(big.Int).Exp(big.NewInt(10), big.NewInt(int64(-exp)), nil)
		q.SetFrac(m, p)
	}
	f, _ := q.Float64()
	return f
}
