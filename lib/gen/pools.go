// Package gen holds the shared rapid generators: boundary-directed value pools.
package gen

import (
	"math"

	"pgregory.net/rapid"
)

// BoundaryDoubles is pool B of DESIGN.md §3: IEEE special values, powers of two and ten with both
// neighbours, layout thresholds, halves, extremes.
var BoundaryDoubles = buildBoundary()

func buildBoundary() []float64 {
	seen := map[uint64]bool{}
	var out []float64
	add := func(x float64) {
		b := math.Float64bits(x)
		if math.IsNaN(x) {
			b = 0x7ff8000000000001
		}
		if !seen[b] {
			seen[b] = true
			out = append(out, x)
		}
	}
	both := func(x float64) {
		add(x)
		add(-x)
	}
	nb := func(x float64) {
		both(x)
		both(math.Nextafter(x, math.Inf(1)))
		both(math.Nextafter(x, 0))
	}
	add(math.NaN())
	both(0)
	both(math.Inf(1))
	for _, x := range []float64{1, 2, 3, 0.5, 1.5, 2.5, 3.5, 0.25, 0.75, 0.1, 0.3, 7, 8, 9, 10, 15, 16, 17, 31, 32, 33, 36, 37, 100, 255, 256, 65535, 65536, 1e21, 1e-6, 1e-7, 123456789, 0.49999999999999994, 0.5000000000000001} {
		both(x)
	}
	for _, k := range []int{-1074, -1073, -1023, -1022, -1021, -53, -52, -1, 0, 1, 7, 8, 15, 16, 23, 24, 30, 31, 32, 33, 51, 52, 53, 54, 62, 63, 64, 65, 127, 128, 1022, 1023} {
		nb(math.Ldexp(1, k))
		if k >= 2 && k <= 64 {
			both(math.Ldexp(1, k) - 1)
			both(math.Ldexp(1, k) + 1)
			both(math.Ldexp(1, k) - 0.5)
			both(math.Ldexp(1, k) + 0.5)
		}
	}
	for k := -324; k <= 308; k++ {
		if k < -30 && k > -300 && k%7 != 0 {
			continue
		}
		if k > 30 && k < 300 && k%7 != 0 {
			continue
		}
		x := math.Pow(10, float64(k))
		if x == 0 || math.IsInf(x, 0) {
			continue
		}
		nb(x)
	}
	nb(math.MaxFloat64)
	nb(math.SmallestNonzeroFloat64)
	nb(1e21)
	nb(1e-6)
	nb(1e-7)
	nb(math.Pi)
	nb(math.Pi / 2)
	nb(math.E)
	both(4503599627370497)   // 2^52+1
	both(4503599627370495.5) // largest with a .5 fraction
	both(9007199254740991)
	both(9007199254740993) // rounds to even
	both(2147483647.5)
	both(-2147483648.5)
	both(4294967295.5)
	return out
}

// Double draws from the boundary pool (60 %), small integers and halves (15 %), or random bit patterns (25 %).
func Double() *rapid.Generator[float64] {
	return rapid.Custom(func(t *rapid.T) float64 {
		switch k := rapid.IntRange(0, 19).Draw(t, "dkind"); {
		case k < 12:
			return rapid.SampledFrom(BoundaryDoubles).Draw(t, "boundary")
		case k < 15:
			return float64(rapid.IntRange(-40, 40).Draw(t, "half")) / 2
		default:
			return math.Float64frombits(rapid.Uint64().Draw(t, "bits"))
		}
	})
}

// FiniteDouble is Double without NaN and infinities.
func FiniteDouble() *rapid.Generator[float64] {
	return Double().Filter(func(x float64) bool { return !math.IsNaN(x) && !math.IsInf(x, 0) })
}

// IsPlain reports "small integer in plain decimal": the trivial class for numeric arguments.
func IsPlain(x float64) bool {
	return x == math.Trunc(x) && math.Abs(x) < 1000 && !(x == 0 && math.Signbit(x))
}

// Code unit alphabets (DESIGN §3 pool P).
var (
	ASCIIUnits  = []uint16{'a', 'b', 'c', 'A', 'Z', '0', '9', ' ', '-', '_', '.', '!', '~', '*', '\'', '(', ')', ';', '/', '?', ':', '@', '&', '=', '+', '$', ',', '#', '%', '"', '\\', '<', '>', '[', ']', '{', '}', '|', '^', '`', '\t', '\n', '\r', 0x00, 0x1f, 0x7f}
	Latin1Units = []uint16{0x80, 0x85, 0x9f, 0xa0, 0xa9, 0xaa, 0xb2, 0xb5, 0xbd, 0xc0, 0xdf, 0xe9, 0xf7, 0xff}
	// BMPUnits includes characters on which the Go predicates a developer might reach for (unicode.IsDigit,
	// IsNumber, IsLetter, IsSpace, IsUpper) disagree with the ASCII-only sets of ES5: decimal digits of other
	// scripts (U+0660, U+0669, U+0966, U+0E50, U+FF10, U+FF19), other numerics (U+2167), letters (U+03B1, U+0430,
	// U+FF21, U+212A, U+0130) and spaces (U+1680, U+2003). U+180E is left out on purpose: it was a space separator (Zs) up to Unicode 6.2 and is a format
	// character since 6.3, so whether it is WhiteSpace is up to the implementation (ES5.1 7.2: "Unicode 3.0 or later").
	BMPUnits = []uint16{0x100, 0x130, 0x131, 0x17f, 0x3a3, 0x3b1, 0x3c2, 0x3c3, 0x430, 0x660, 0x669, 0x7ff, 0x800, 0x966, 0xe50, 0x1680, 0x1e9e, 0x2003, 0x2028, 0x2029, 0x20ac, 0x212a, 0x2167, 0x3000, 0x4e2d, 0xd7ff, 0xe000, 0xfeff, 0xff10, 0xff19, 0xff21, 0xfffd, 0xfffe, 0xffff}
	// astral characters as (high, low) pairs: U+10000, U+10400 (a cased letter), U+1D4B3, U+1D7CE (a decimal digit), U+1F600, U+20000, U+10FFFF
	AstralPairs = [][2]uint16{{0xd800, 0xdc00}, {0xd801, 0xdc00}, {0xd835, 0xdcb3}, {0xd835, 0xdfce}, {0xd83d, 0xde00}, {0xd840, 0xdc00}, {0xdbff, 0xdfff}}
)

// Units16 draws a well-formed UTF-16 string (no lone surrogates) of at most maxUnits code units
// over the four alphabets.
func Units16(maxUnits int) *rapid.Generator[[]uint16] {
	return rapid.Custom(func(t *rapid.T) []uint16 {
		n := rapid.IntRange(0, maxUnits).Draw(t, "len")
		var out []uint16
		for len(out) < n {
			switch k := rapid.IntRange(0, 9).Draw(t, "alpha"); {
			case k < 5:
				out = append(out, rapid.SampledFrom(ASCIIUnits).Draw(t, "ascii"))
			case k < 7:
				out = append(out, rapid.SampledFrom(Latin1Units).Draw(t, "latin1"))
			case k < 9:
				out = append(out, rapid.SampledFrom(BMPUnits).Draw(t, "bmp"))
			default:
				if len(out)+2 <= n {
					p := rapid.SampledFrom(AstralPairs).Draw(t, "astral")
					out = append(out, p[0], p[1])
				} else {
					out = append(out, 'x')
				}
			}
		}
		return out
	})
}

// HasLoneSurrogate reports whether u is not well-formed UTF-16.
func HasLoneSurrogate(u []uint16) bool {
	for i := 0; i < len(u); i++ {
		c := u[i]
		switch {
		case c >= 0xD800 && c < 0xDC00:
			if i+1 < len(u) && u[i+1] >= 0xDC00 && u[i+1] < 0xE000 {
				i++
				continue
			}
			return true
		case c >= 0xDC00 && c < 0xE000:
			return true
		}
	}
	return false
}

// AllASCII reports whether every unit is below 0x80.
func AllASCII(u []uint16) bool {
	for _, c := range u {
		if c >= 0x80 {
			return false
		}
	}
	return true
}
