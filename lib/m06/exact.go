// Package m06 is the exact-arithmetic reference model of property C06: conversions between
// doubles and their text forms (ES5.1 9.8.1, 9.3.1, 7.8.3, 15.1.2.2-3, 15.7.4.2, 15.7.4.5-7).
// Everything is computed with math/big integers; no strconv float formatting or parsing is used,
// so the package can also serve to verify lib/es5 (which uses strconv / big.Rat for speed).
package m06

import (
	"math"
	"math/big"
	"strings"
)

var (
	bigOne = big.NewInt(1)
	bigTen = big.NewInt(10)
)

func pow10(n int) *big.Int {
	if n < 0 {
		panic("pow10 negative")
	}
	return new(big.Int).Exp(bigTen, big.NewInt(int64(n)), nil)
}

func pow5(n int) *big.Int { return new(big.Int).Exp(big.NewInt(5), big.NewInt(int64(n)), nil) }

// Decompose writes a finite positive double as mant × 2^exp2 with an integer mant (not normalised).
func Decompose(x float64) (mant *big.Int, exp2 int) {
	if !(x > 0) || math.IsInf(x, 0) {
		panic("Decompose: need a finite positive double")
	}
	b := math.Float64bits(x)
	e := int(b>>52) & 0x7ff
	f := b & (1<<52 - 1)
	if e == 0 {
		return new(big.Int).SetUint64(f), -1074
	}
	return new(big.Int).SetUint64(f | 1<<52), e - 1075
}

// Ratio gives the exact value of a finite positive double as num/den (den a power of two).
func Ratio(x float64) (num, den *big.Int) {
	m, e := Decompose(x)
	if e >= 0 {
		return m.Lsh(m, uint(e)), big.NewInt(1)
	}
	return m, new(big.Int).Lsh(bigOne, uint(-e))
}

// Dec is an exact finite decimal 0.Digits × 10^N; Digits has neither leading nor trailing zeros.
type Dec struct {
	Digits string
	N      int
}

// ExactDecimal is the complete decimal expansion of a finite positive double.
func ExactDecimal(x float64) Dec {
	m, e := Decompose(x)
	var s string
	var n int
	if e >= 0 {
		s = m.Lsh(m, uint(e)).String()
		n = len(s)
	} else {
		// m / 2^-e = m·5^-e / 10^-e
		s = m.Mul(m, pow5(-e)).String()
		n = len(s) + e
	}
	return Dec{strings.TrimRight(s, "0"), n}
}

// DecOfBinary is the exact decimal expansion of mant × 2^exp2 (mant > 0).
func DecOfBinary(mant *big.Int, exp2 int) Dec {
	m := new(big.Int).Set(mant)
	var s string
	var n int
	if exp2 >= 0 {
		s = m.Lsh(m, uint(exp2)).String()
		n = len(s)
	} else {
		s = m.Mul(m, pow5(-exp2)).String()
		n = len(s) + exp2
	}
	return Dec{strings.TrimRight(s, "0"), n}
}

// RatioToDouble returns the double nearest to num/den (both positive), ties to even, +Inf on
// overflow, with gradual underflow. Hand-written so that it shares nothing with big.Rat.Float64
// or strconv.ParseFloat.
func RatioToDouble(num, den *big.Int) float64 {
	if num.Sign() == 0 {
		return 0
	}
	if num.Sign() < 0 || den.Sign() <= 0 {
		panic("RatioToDouble: need num >= 0, den > 0")
	}
	// floor(log2(num/den)) is bl-1 or bl
	guess := num.BitLen() - den.BitLen()
	var q, r, sn, sd big.Int
	var u int
	for iter := 0; ; iter++ {
		if iter > 4 {
			panic("RatioToDouble: exponent search does not settle")
		}
		u = guess - 52 // exponent of the unit in the last place
		if u < -1074 {
			u = -1074
		}
		if u > 1100 {
			return math.Inf(1)
		}
		sn.Set(num)
		sd.Set(den)
		if u < 0 {
			sn.Lsh(&sn, uint(-u))
		} else {
			sd.Lsh(&sd, uint(u))
		}
		q.QuoRem(&sn, &sd, &r)
		bl := q.BitLen()
		if bl > 53 {
			guess++
			continue
		}
		if bl < 53 && u > -1074 {
			guess--
			continue
		}
		break
	}
	// round half to even on the remainder
	r.Lsh(&r, 1)
	switch c := r.Cmp(&sd); {
	case c > 0:
		q.Add(&q, bigOne)
	case c == 0:
		if q.Bit(0) == 1 {
			q.Add(&q, bigOne)
		}
	}
	if q.BitLen()+u > 1024 {
		return math.Inf(1)
	}
	return math.Ldexp(float64(q.Uint64()), u) // q <= 2^53: exact; Ldexp by a power of two is exact here
}

// DecimalToDouble gives the double nearest to digits × 10^e10 (digits is an ASCII digit string,
// leading zeros allowed), ties to even.
func DecimalToDouble(digits string, e10 int) float64 {
	digits = strings.TrimLeft(digits, "0")
	if digits == "" {
		return 0
	}
	for len(digits) > 1 && digits[len(digits)-1] == '0' {
		digits = digits[:len(digits)-1]
		e10++
	}
	// 10^(len+e10-1) <= value < 10^(len+e10)
	if len(digits)+e10 > 310 {
		return math.Inf(1)
	}
	if len(digits)+e10 < -330 {
		return 0
	}
	n, ok := new(big.Int).SetString(digits, 10)
	if !ok {
		panic("DecimalToDouble: bad digits " + digits)
	}
	if e10 >= 0 {
		return RatioToDouble(n.Mul(n, pow10(e10)), bigOne)
	}
	return RatioToDouble(n, pow10(-e10))
}

// IntToDouble is the double nearest to a non-negative big integer.
func IntToDouble(v *big.Int) float64 { return RatioToDouble(v, bigOne) }

// incDigits adds one unit in the last place to a decimal digit string; carry reports 99..9 -> 100..0
// (the returned string then has one more digit).
func incDigits(s string) string {
	b := []byte(s)
	for i := len(b) - 1; i >= 0; i-- {
		if b[i] != '9' {
			b[i]++
			return string(b)
		}
		b[i] = '0'
	}
	return "1" + string(b)
}

// Shortest implements the digit selection of 9.8.1 step 5 with the recommendation of its Note 2:
// k as small as possible such that some k-digit decimal s × 10^(n−k) has the Number value x; among
// the candidates with that k the one closest to x (the even one on a tie). The result is given as
// 0.Digits × 10^N (so the n of 9.8.1 is N and k is len(Digits)).
func Shortest(x float64) Dec {
	ex := ExactDecimal(x)
	for k := 1; k < len(ex.Digits) && k <= 17; k++ {
		lo := ex.Digits[:k] // floor to k digits: 0.lo × 10^N
		hi := incDigits(lo) // ceiling; may have k+1 digits (then it is 10^k)
		loOK := DecimalToDouble(lo, ex.N-k) == x
		hiOK := DecimalToDouble(hi, ex.N-k) == x
		if !loOK && !hiOK {
			continue
		}
		pick := lo
		switch {
		case loOK && hiOK:
			rest := ex.Digits[k:]
			// compare 0.rest with 0.5
			c := 0
			switch {
			case rest[0] > '5':
				c = 1
			case rest[0] < '5':
				c = -1
			case len(rest) > 1:
				c = 1
			}
			if c > 0 || (c == 0 && (lo[k-1]-'0')%2 == 1) {
				pick = hi
			}
		case hiOK:
			pick = hi
		}
		n := ex.N
		if len(pick) > k { // carried into a new digit
			n++
		}
		return Dec{strings.TrimRight(pick, "0"), n}
	}
	if len(ex.Digits) > 17 {
		panic("Shortest: no decimal of at most 17 digits reads back (model error)")
	}
	return ex // the exact expansion itself is the shortest
}

// ReadsBack reports whether the decimal 0.digits × 10^n converts to exactly x.
func ReadsBack(d Dec, x float64) bool { return DecimalToDouble(d.Digits, d.N-len(d.Digits)) == x }
