package m06

import (
	"math"
	"math/big"
	"strconv"
	"strings"
)

// Res is the outcome of a Number.prototype formatting call: a string or a thrown error class.
type Res struct {
	S      string
	Throws string // "" or "RangeError"
}

func (r Res) String() string {
	if r.Throws != "" {
		return "throws:" + r.Throws
	}
	return r.S
}

func zeros(n int) string {
	if n <= 0 {
		return ""
	}
	return strings.Repeat("0", n)
}

// Layout981 applies steps 6-10 of 9.8.1 to the digits s (k = len(s)) and the exponent n.
func Layout981(s string, n int) string {
	k := len(s)
	switch {
	case k <= n && n <= 21:
		return s + zeros(n-k)
	case 0 < n && n <= 21:
		return s[:n] + "." + s[n:]
	case -6 < n && n <= 0:
		return "0." + zeros(-n) + s
	}
	e := n - 1
	sign := "+"
	if e < 0 {
		sign = "-"
		e = -e
	}
	if k == 1 {
		return s + "e" + sign + strconv.Itoa(e)
	}
	return s[:1] + "." + s[1:] + "e" + sign + strconv.Itoa(e)
}

// NumberToString is ToString applied to the Number type (9.8.1).
func NumberToString(x float64) string {
	switch {
	case math.IsNaN(x):
		return "NaN"
	case x == 0:
		return "0"
	case x < 0:
		return "-" + NumberToString(-x)
	case math.IsInf(x, 1):
		return "Infinity"
	}
	d := Shortest(x)
	return Layout981(d.Digits, d.N)
}

// ToInteger (9.4) of an already converted number.
func ToInteger(x float64) float64 {
	if math.IsNaN(x) {
		return 0
	}
	if x == 0 || math.IsInf(x, 0) {
		return x
	}
	return math.Trunc(x)
}

// roundHalfUp returns the integer n for which n − num/den is as close to zero as possible,
// the larger n if there are two (15.7.4.5 step 8.a and its siblings).
func roundHalfUp(num, den *big.Int) *big.Int {
	a := new(big.Int).Lsh(num, 1)
	a.Add(a, den)
	b := new(big.Int).Lsh(den, 1)
	n := a.Quo(a, b) // floor, both positive
	if TieToEven && n.Bit(0) == 1 && isTie(num, den) {
		n.Sub(n, bigOne)
	}
	return n
}

// TieToEven switches the model from the ES5 tie rule ("pick the larger n") to round-half-even.
// It is false except while a check computes the documented distortion of finding C06-FORMAT-TIES
// (strconv.FormatFloat rounds exact ties to even) to compare modulo that defect.
var TieToEven = false

// IsTie reports whether num/den lies exactly half way between two integers.
func isTie(num, den *big.Int) bool {
	a := new(big.Int).Lsh(num, 1)
	q, r := new(big.Int).QuoRem(a, den, new(big.Int))
	return r.Sign() == 0 && q.Bit(0) == 1
}

// scaled returns x × 10^s as a ratio.
func scaled(x float64, s int) (num, den *big.Int) {
	num, den = Ratio(x)
	if s >= 0 {
		num = new(big.Int).Mul(num, pow10(s))
	} else {
		den = new(big.Int).Mul(den, pow10(-s))
	}
	return num, den
}

// fixedDigits: the n of 15.7.4.5 step 8.a for positive finite x < 10^21 and 0 <= f <= 20,
// and whether x × 10^f is an exact tie.
func fixedDigits(x float64, f int) (n *big.Int, tie bool) {
	num, den := scaled(x, f)
	return roundHalfUp(num, den), isTie(num, den)
}

// expDigits: the e and the decimal digits of n of 15.7.4.6 step 9.b.i (also 15.7.4.7 step 9.a with
// f = p−1) for positive finite x: 10^f <= n < 10^(f+1), n × 10^(e−f) − x as close to zero as
// possible, the larger n × 10^(e−f) if there are two.
func expDigits(x float64, f int) (digits string, e int, tie bool) {
	e = ExactDecimal(x).N - 1 // 10^e <= x < 10^(e+1)
	num, den := scaled(x, f-e)
	n := roundHalfUp(num, den)
	tie = isTie(num, den)
	digits = n.String()
	if len(digits) == f+2 { // rounded up to 10^(f+1): same value as 10^f with e+1
		digits = digits[:f+1]
		e++
	}
	if len(digits) != f+1 {
		panic("expDigits: wrong digit count")
	}
	// cross-check against rounding the exact expansion digit by digit
	if alt, ae := roundDecString(ExactDecimal(x), f+1); alt != digits || ae != e {
		panic("expDigits: rational and digit-string rounding disagree for " + strconv.FormatFloat(x, 'g', -1, 64))
	}
	return digits, e, tie
}

// roundDecString rounds the exact decimal d to p significant digits, half up, and returns the p
// digits with the exponent e of the first digit (value = d.ddd × 10^e). Independent route.
func roundDecString(d Dec, p int) (string, int) {
	s := d.Digits
	e := d.N - 1
	if len(s) <= p {
		return s + zeros(p-len(s)), e
	}
	head := s[:p]
	exactTie := s[p] == '5' && len(s) == p+1
	if s[p] >= '5' && !(TieToEven && exactTie && (head[p-1]-'0')%2 == 0) {
		head = incDigits(head)
		if len(head) > p {
			head = head[:p]
			e++
		}
	}
	return head, e
}

// ArgUndefined marks an absent / undefined argument of the formatting functions.
var ArgUndefined *float64

// Num is a convenience for building arguments.
func Num(x float64) *float64 { return &x }

// Info describes properties of a formatting case that the check uses for classes and for the
// narrow exclusion classes of known findings.
type Info struct {
	Tie      bool // the requested rounding position is an exact tie
	NegZero  bool // x is −0
	Big      bool // toFixed with |x| >= 1e21 (delegates to ToString)
	Exp      bool // exponential layout chosen (toPrecision)
	E        int  // decimal exponent e of the result (toExponential / toPrecision)
	HasE     bool
	Shortest bool // digits chosen by the shortest rule (undefined argument)
	Digits   string // toPrecision: the p digits of n before punctuation (finite non-zero x)
	Sign     string // "-" or ""
}

// ToFixed is Number.prototype.toFixed (15.7.4.5); fd nil = undefined.
func ToFixed(x float64, fd *float64) (Res, Info) {
	var info Info
	f := 0.0
	if fd != nil {
		f = ToInteger(*fd)
	}
	if f < 0 || f > 20 {
		return Res{Throws: "RangeError"}, info
	}
	if math.IsNaN(x) {
		return Res{S: "NaN"}, info
	}
	info.NegZero = x == 0 && math.Signbit(x)
	s := ""
	if x < 0 {
		s = "-"
		x = -x
	}
	if x >= 1e21 {
		info.Big = true
		return Res{S: s + NumberToString(x)}, info
	}
	fi := int(f)
	m := "0"
	if x != 0 {
		n, tie := fixedDigits(x, fi)
		info.Tie = tie
		m = n.String()
	}
	if fi != 0 {
		k := len(m)
		if k <= fi {
			m = zeros(fi+1-k) + m
			k = fi + 1
		}
		m = m[:k-fi] + "." + m[k-fi:]
	}
	return Res{S: s + m}, info
}

// ExpForm writes digits in the exponential layout of 15.7.4.7 step 10.c: d.ddd e±x.
func ExpForm(digits string, e int) string {
	if len(digits) > 1 {
		digits = digits[:1] + "." + digits[1:]
	}
	return digits + expSuffix(e)
}

func expSuffix(e int) string {
	if e >= 0 {
		return "e+" + strconv.Itoa(e)
	}
	return "e-" + strconv.Itoa(-e)
}

// ToExponential is Number.prototype.toExponential (15.7.4.6); fd nil = undefined.
func ToExponential(x float64, fd *float64) (Res, Info) {
	var info Info
	f := 0.0
	if fd != nil {
		f = ToInteger(*fd)
	}
	if math.IsNaN(x) {
		return Res{S: "NaN"}, info
	}
	info.NegZero = x == 0 && math.Signbit(x)
	s := ""
	if x < 0 {
		s = "-"
		x = -x
	}
	if math.IsInf(x, 1) {
		return Res{S: s + "Infinity"}, info
	}
	if fd != nil && (f < 0 || f > 20) {
		return Res{Throws: "RangeError"}, info
	}
	fi := int(f)
	var m string
	e := 0
	switch {
	case x == 0:
		m = zeros(fi + 1)
	case fd != nil:
		m, e, info.Tie = expDigits(x, fi)
	default:
		d := Shortest(x)
		m, e = d.Digits, d.N-1
		fi = len(m) - 1
		info.Shortest = true
	}
	info.E, info.HasE = e, true
	if fi != 0 {
		m = m[:1] + "." + m[1:]
	}
	return Res{S: s + m + expSuffix(e)}, info
}

// ToPrecision is Number.prototype.toPrecision (15.7.4.7); prec nil = undefined.
func ToPrecision(x float64, prec *float64) (Res, Info) {
	var info Info
	if prec == nil {
		info.Shortest = true
		return Res{S: NumberToString(x)}, info
	}
	p := ToInteger(*prec)
	if math.IsNaN(x) {
		return Res{S: "NaN"}, info
	}
	info.NegZero = x == 0 && math.Signbit(x)
	s := ""
	if x < 0 {
		s = "-"
		x = -x
	}
	if math.IsInf(x, 1) {
		return Res{S: s + "Infinity"}, info
	}
	if p < 1 || p > 21 {
		return Res{Throws: "RangeError"}, info
	}
	pi := int(p)
	var m string
	e := 0
	if x == 0 {
		m = zeros(pi)
	} else {
		m, e, info.Tie = expDigits(x, pi-1)
		info.E, info.HasE = e, true
		info.Digits, info.Sign = m, s
		if e < -6 || e >= pi {
			info.Exp = true
			if pi != 1 {
				m = m[:1] + "." + m[1:]
			}
			return Res{S: s + m + expSuffix(e)}, info
		}
	}
	if e == pi-1 {
		return Res{S: s + m}, info
	}
	if e >= 0 {
		return Res{S: s + m[:e+1] + "." + m[e+1:]}, info
	}
	return Res{S: s + "0." + zeros(-(e + 1)) + m}, info
}

// IsIntegral reports whether the finite double x has an integer value.
func IsIntegral(x float64) bool {
	return !math.IsNaN(x) && !math.IsInf(x, 0) && x == math.Trunc(x)
}

// BigOfIntegral gives the exact integer value of an integer-valued double.
func BigOfIntegral(x float64) *big.Int {
	if x == 0 {
		return new(big.Int)
	}
	neg := x < 0
	if neg {
		x = -x
	}
	num, den := Ratio(x)
	if den.Cmp(bigOne) != 0 {
		q, r := new(big.Int).QuoRem(num, den, new(big.Int))
		if r.Sign() != 0 {
			panic("BigOfIntegral: not an integer")
		}
		num = q
	}
	if neg {
		num.Neg(num)
	}
	return num
}

// IsPow2Radix: radixes whose digits map to whole bits.
func IsPow2Radix(r int) bool { return r == 2 || r == 4 || r == 8 || r == 16 || r == 32 }

// ToStringRadix is Number.prototype.toString(radix) (15.7.4.2) for NaN, infinities and
// integer-valued doubles; radix nil = undefined. unique reports whether ES5 together with universal
// practice fixes the digits: radix 10 (9.8.1), or |x| <= 2^53, or a power-of-two radix (the digits of
// the exact integer). For larger integers in other radixes the algorithm is implementation-dependent
// (15.7.4.2) and only the read-back law is checked by the caller.
func ToStringRadix(x float64, radix *float64) (res Res, unique bool) {
	r := 10.0
	if radix != nil {
		r = ToInteger(*radix)
	}
	if r == 10 {
		return Res{S: NumberToString(x)}, true
	}
	if r < 2 || r > 36 {
		return Res{Throws: "RangeError"}, true
	}
	switch {
	case math.IsNaN(x):
		return Res{S: "NaN"}, true
	case math.IsInf(x, 1):
		return Res{S: "Infinity"}, true
	case math.IsInf(x, -1):
		return Res{S: "-Infinity"}, true
	case x == 0:
		return Res{S: "0"}, true
	}
	if !IsIntegral(x) {
		panic("ToStringRadix: fractions with a radix other than 10 are implementation-defined")
	}
	v := BigOfIntegral(x)
	unique = math.Abs(x) <= 1<<53 || IsPow2Radix(int(r))
	return Res{S: v.Text(int(r))}, unique
}

// ParseRadixInteger reads an optionally signed digit string in the given radix exactly; ok is false
// when a character is not a digit of that radix or the string is empty.
func ParseRadixInteger(s string, radix int) (v *big.Int, ok bool) {
	neg := false
	if strings.HasPrefix(s, "-") {
		neg = true
		s = s[1:]
	}
	if s == "" {
		return nil, false
	}
	v = new(big.Int)
	rb := big.NewInt(int64(radix))
	for i := 0; i < len(s); i++ {
		d := digitVal(uint16(s[i]))
		if d < 0 || d >= radix {
			return nil, false
		}
		v.Mul(v, rb).Add(v, big.NewInt(int64(d)))
	}
	if neg {
		v.Neg(v)
	}
	return v, true
}

// DecimalStringValue parses the output of the formatting functions ("-12.50", "1.5e+20", "0.001")
// into an exact rational; ok false if the text is not of that shape. Used to compare results
// modulo a known layout defect.
func DecimalStringValue(s string) (*big.Rat, bool) {
	neg := false
	if strings.HasPrefix(s, "-") {
		neg = true
		s = s[1:]
	}
	mant, exps, hasE := strings.Cut(s, "e")
	e := 0
	if hasE {
		v, err := strconv.Atoi(exps)
		if err != nil || len(exps) < 2 || (exps[0] != '+' && exps[0] != '-') {
			return nil, false
		}
		e = v
	}
	ip, fp, _ := strings.Cut(mant, ".")
	if ip == "" || (strings.Contains(mant, ".") && fp == "") {
		return nil, false
	}
	for _, c := range ip + fp {
		if c < '0' || c > '9' {
			return nil, false
		}
	}
	n, _ := new(big.Int).SetString(ip+fp, 10)
	e -= len(fp)
	r := new(big.Rat).SetInt(n)
	if e >= 0 {
		r.Mul(r, new(big.Rat).SetInt(pow10(e)))
	} else {
		r.Quo(r, new(big.Rat).SetInt(pow10(-e)))
	}
	if neg {
		r.Neg(r)
	}
	return r, true
}
