package m06

import (
	"math"
	"math/big"
	"strconv"
	"strings"
	"testing"
	"unicode/utf16"

	"verif/lib/es5"
	"verif/lib/gen"
)

func u16(s string) []uint16 { return utf16.Encode([]rune(s)) }

type lcg uint64

func (l *lcg) next() uint64 {
	*l = *l*6364136223846793005 + 1442695040888963407
	x := uint64(*l)
	x ^= x >> 33
	x *= 0xff51afd7ed558ccd
	x ^= x >> 33
	return x
}

func sampleDoubles(n int) []float64 {
	var out []float64
	for _, x := range gen.BoundaryDoubles {
		if !math.IsNaN(x) && !math.IsInf(x, 0) && x != 0 {
			out = append(out, math.Abs(x))
		}
	}
	r := lcg(12345)
	for i := 0; i < n; i++ {
		x := math.Float64frombits(r.next() &^ (1 << 63))
		if math.IsNaN(x) || math.IsInf(x, 0) || x == 0 {
			continue
		}
		out = append(out, x)
	}
	return out
}

// The exact model agrees with strconv's shortest formatting and with lib/es5.NumberToString.
func TestShortestAgainstStrconv(t *testing.T) {
	for _, x := range sampleDoubles(20000) {
		d := Shortest(x)
		ds, n := es5.ShortestDigits(x)
		if d.Digits != ds || d.N != n {
			t.Fatalf("Shortest(%v) = %v, strconv gives %s n=%d", x, d, ds, n)
		}
		if !ReadsBack(d, x) {
			t.Fatalf("Shortest(%v) = %v does not read back", x, d)
		}
		if a, b := NumberToString(x), es5.NumberToString(x); a != b {
			t.Fatalf("NumberToString(%v): m06 %q es5 %q", x, a, b)
		}
	}
}

// The hand-written decimal→double conversion agrees with big.Rat.Float64 and strconv.ParseFloat,
// including exact halfway cases.
func TestDecimalToDouble(t *testing.T) {
	check := func(digits string, e10 int) {
		got := DecimalToDouble(digits, e10)
		if len(digits) <= 800 { // strconv.ParseFloat (Go 1.23) loses the magnitude of mantissas with more than 800 integer digits
			want, _ := strconv.ParseFloat(digits+"e"+strconv.Itoa(e10), 64)
			if got != want {
				t.Fatalf("DecimalToDouble(%s, %d) = %v, strconv %v", digits, e10, got, want)
			}
		}
		n, _ := new(big.Int).SetString(digits, 10)
		r := new(big.Rat).SetInt(n)
		p := new(big.Rat).SetInt(pow10(abs(e10)))
		if e10 >= 0 {
			r.Mul(r, p)
		} else {
			r.Quo(r, p)
		}
		if f, _ := r.Float64(); f != got {
			t.Fatalf("DecimalToDouble(%s, %d) = %v, big.Rat %v", digits, e10, got, f)
		}
	}
	r := lcg(99)
	for i := 0; i < 20000; i++ {
		nd := 1 + int(r.next()%40)
		var b strings.Builder
		for j := 0; j < nd; j++ {
			b.WriteByte(byte('0' + r.next()%10))
		}
		check(b.String(), int(r.next()%700)-350)
	}
	for _, x := range sampleDoubles(3000) {
		// exact expansion, midpoint to the next double, and midpoint ± one unit in a far digit
		d := ExactDecimal(x)
		check(d.Digits, d.N-len(d.Digits))
		y := math.Nextafter(x, math.Inf(1))
		if math.IsInf(y, 0) {
			continue
		}
		nx, dx := Ratio(x)
		ny, dy := Ratio(y)
		// (x+y)/2 = (nx*dy + ny*dx) / (2*dx*dy)
		num := new(big.Int).Add(new(big.Int).Mul(nx, dy), new(big.Int).Mul(ny, dx))
		den := new(big.Int).Mul(dx, dy)
		den.Lsh(den, 1)
		// decimal expansion of the midpoint: den is a power of two 2^k: num*5^k / 10^k
		k := den.BitLen() - 1
		ds := new(big.Int).Mul(num, pow5(k)).String()
		check(ds, -k)
		check(ds+"1", -k-1)
		check(incDigits(ds), -k) // one unit above in the last digit
		mid := RatioToDouble(num, den)
		if mid != x && mid != y {
			t.Fatalf("midpoint of %v and %v rounds to %v", x, y, mid)
		}
		even := x
		if math.Float64bits(x)&1 == 1 {
			even = y
		}
		if mid != even {
			t.Fatalf("midpoint of %v and %v must round to even %v, got %v", x, y, even, mid)
		}
	}
	if DecimalToDouble("1", 400) != math.Inf(1) || DecimalToDouble("1", -400) != 0 || DecimalToDouble("17976931348623158", 292) != math.MaxFloat64 || DecimalToDouble("17976931348623159", 292) != math.Inf(1) {
		t.Fatalf("extremes")
	}
	// 2^1024 - 2^970 is the rounding boundary to Infinity (exclusive below)
	lim := new(big.Int).Sub(new(big.Int).Lsh(bigOne, 1024), new(big.Int).Lsh(bigOne, 970))
	if IntToDouble(lim) != math.Inf(1) {
		t.Fatalf("boundary must round to even = Infinity")
	}
	if IntToDouble(new(big.Int).Sub(lim, bigOne)) != math.MaxFloat64 {
		t.Fatalf("just below the boundary must be MaxFloat64")
	}
	if DecimalToDouble("24703282292062327208", -343) != 0 || DecimalToDouble("24703282292062327209", -343) != 5e-324 {
		t.Fatalf("underflow boundary")
	}
}

func abs(x int) int {
	if x < 0 {
		return -x
	}
	return x
}

func TestFormatTable(t *testing.T) {
	type row struct {
		fn   string
		x    float64
		arg  *float64
		want string
	}
	neg0 := math.Copysign(0, -1)
	rows := []row{
		{"toFixed", 2.5, Num(0), "3"}, {"toFixed", 0.5, Num(0), "1"}, {"toFixed", 1.5, Num(0), "2"}, {"toFixed", neg0, Num(0), "0"}, {"toFixed", neg0, Num(2), "0.00"},
		{"toFixed", -2.5, Num(0), "-3"}, {"toFixed", 1.005, Num(2), "1.00"}, {"toFixed", 1.45, Num(1), "1.4"}, {"toFixed", 8.345, Num(2), "8.35"},
		{"toFixed", 0.000001, Num(7), "0.0000010"}, {"toFixed", 123.456, nil, "123"}, {"toFixed", 1e21, Num(2), "1e+21"}, {"toFixed", -1e21, Num(2), "-1e+21"},
		{"toFixed", 999999999999999900000, Num(0), "999999999999999868928"}, {"toFixed", -0.0001, Num(2), "-0.00"}, {"toFixed", 0.00001, Num(20), "0.00001000000000000000"},
		{"toFixed", 1, Num(21), "throws:RangeError"}, {"toFixed", 1, Num(-1), "throws:RangeError"}, {"toFixed", 1, Num(-0.5), "1"}, {"toFixed", 1, Num(20.9), "1.00000000000000000000"},
		{"toFixed", math.NaN(), Num(2), "NaN"}, {"toFixed", math.NaN(), Num(25), "throws:RangeError"}, {"toFixed", math.Inf(-1), Num(2), "-Infinity"}, {"toFixed", 0.125, Num(2), "0.13"},
		{"toFixed", 1000000000000000128, Num(0), "1000000000000000128"}, {"toFixed", 1, Num(math.NaN()), "1"},
		{"toExponential", 1.5, nil, "1.5e+0"}, {"toExponential", 1, Num(21), "throws:RangeError"}, {"toExponential", 2.5, Num(0), "3e+0"}, {"toExponential", 1.25, Num(1), "1.3e+0"},
		{"toExponential", 0, Num(2), "0.00e+0"}, {"toExponential", neg0, nil, "0e+0"}, {"toExponential", 123456, Num(2), "1.23e+5"}, {"toExponential", 0.00015, Num(0), "1e-4"},
		{"toExponential", 0.00015, nil, "1.5e-4"}, {"toExponential", 9.99, Num(1), "1.0e+1"}, {"toExponential", math.Inf(1), Num(100), "Infinity"}, {"toExponential", math.NaN(), Num(100), "NaN"},
		{"toExponential", -1e-7, Num(3), "-1.000e-7"}, {"toExponential", 5e-324, nil, "5e-324"}, {"toExponential", 5e-324, Num(20), "4.94065645841246544177e-324"},
		{"toExponential", 1, Num(-1), "throws:RangeError"}, {"toExponential", 1, Num(20), "1.00000000000000000000e+0"},
		{"toPrecision", 1, Num(3), "1.00"}, {"toPrecision", 123456, Num(2), "1.2e+5"}, {"toPrecision", 0.00001, Num(1), "0.00001"}, {"toPrecision", 0.000001, Num(2), "0.0000010"},
		{"toPrecision", 0.0000001, Num(2), "1.0e-7"}, {"toPrecision", 0, Num(3), "0.00"}, {"toPrecision", neg0, Num(1), "0"}, {"toPrecision", 123.456, nil, "123.456"},
		{"toPrecision", 1, Num(0), "throws:RangeError"}, {"toPrecision", 1, Num(22), "throws:RangeError"}, {"toPrecision", 1, Num(21), "1.00000000000000000000"},
		{"toPrecision", math.Inf(-1), Num(100), "-Infinity"}, {"toPrecision", math.NaN(), Num(0), "NaN"}, {"toPrecision", 99.99, Num(2), "1.0e+2"}, {"toPrecision", 99.99, Num(3), "100"},
		{"toPrecision", 2.5, Num(1), "3"}, {"toPrecision", 25, Num(1), "3e+1"}, {"toPrecision", 1e21, Num(21), "1.00000000000000000000e+21"}, {"toPrecision", 123456789, Num(9), "123456789"},
		{"toPrecision", -0.000123, Num(2), "-0.00012"}, {"toPrecision", 1.005, Num(3), "1.00"},
	}
	for _, r := range rows {
		var got Res
		switch r.fn {
		case "toFixed":
			got, _ = ToFixed(r.x, r.arg)
		case "toExponential":
			got, _ = ToExponential(r.x, r.arg)
		case "toPrecision":
			got, _ = ToPrecision(r.x, r.arg)
		}
		a := "undefined"
		if r.arg != nil {
			a = strconv.FormatFloat(*r.arg, 'g', -1, 64)
		}
		if got.String() != r.want {
			t.Errorf("(%v).%s(%s) = %s, want %s", r.x, r.fn, a, got, r.want)
		}
	}
}

func TestRadix(t *testing.T) {
	chk := func(x float64, r *float64, want string, uniq bool) {
		got, u := ToStringRadix(x, r)
		if got.String() != want || u != uniq {
			t.Errorf("(%v).toString(%v) = %s/%v want %s/%v", x, r, got, u, want, uniq)
		}
	}
	chk(255, Num(16), "ff", true)
	chk(-255, Num(2), "-11111111", true)
	chk(35, Num(36), "z", true)
	chk(1e21, Num(2), "1101100011010111001001101011011100010111011110101"+strings.Repeat("0", 21), true)
	chk(1e21, nil, "1e+21", true)
	chk(1e21, Num(10.9), "1e+21", true)
	chk(5, Num(1), "throws:RangeError", true)
	chk(5, Num(37), "throws:RangeError", true)
	chk(5, Num(math.NaN()), "throws:RangeError", true)
	chk(math.NaN(), Num(2), "NaN", true)
	chk(math.Copysign(0, -1), Num(2), "0", true)
	if _, u := ToStringRadix(1e21, Num(3)); u {
		t.Errorf("1e21 radix 3 must not be reported as uniquely determined")
	}
}

func TestParseAgainstES5(t *testing.T) {
	strs := []string{"", "  ", "1", " 12 ", "-1.5e3", "+.5", "5.", "0x10", "0X1f", "Infinity", "-Infinity", "+Infinity", "1e400", "1e-400", "9007199254740993", "\ufeff7 ",
		"0x8000000000000000", "infinity", "INFINITY", "inf", "0x", "+0x10", "-0x10", "1e", ".", "1_0", "1 2", "0x1.8p1", "e5", "++1", "1e+", "0b1", "NaN", "-0", "5.e1", ".e1", "1.5.5",
		"Infinityx", "1e5x", "3.14abc", "  -.5e", "1.e5x", "0x1g", "00012", "1e99999999999999999999", "0e99999999999999999999", "1e-99999999999999999999", "  1", "1 ", "\u180e1",
		"1e+5", "1E-5", ".5E+1", "-.5", "- 1", "+", "-", "1e5.5", "0.0000001", "123456789012345678901234567890", "0.1e1", "0x0", "0X", "\t\n\v\f\r 9", "\u0661", "1\u0000", "Infinit", "Inf", "InfinityInfinity"}
	for _, s := range strs {
		u := u16(s)
		a, b := StringToNumber(u), es5.StringToNumber(u)
		if !(a == b && math.Signbit(a) == math.Signbit(b) || math.IsNaN(a) && math.IsNaN(b)) {
			t.Errorf("StringToNumber(%q): m06 %v es5 %v", s, a, b)
		}
		a, b = ParseFloat(u), es5.ParseFloat(u)
		if !(a == b && math.Signbit(a) == math.Signbit(b) || math.IsNaN(a) && math.IsNaN(b)) {
			t.Errorf("ParseFloat(%q): m06 %v es5 %v", s, a, b)
		}
		for _, r := range []float64{0, 2, 8, 10, 16, 36, 37, 1, 4294967298, math.NaN(), -1, 16.9} {
			x := ParseInt(u, r)
			y, _ := es5.ParseInt(u, r)
			if !(x.Value == y && math.Signbit(x.Value) == math.Signbit(y) || math.IsNaN(x.Value) && math.IsNaN(y)) {
				t.Errorf("ParseInt(%q,%v): m06 %v es5 %v", s, r, x.Value, y)
			}
		}
	}
	if v := ParseInt(u16("-0"), 0).Value; !(v == 0 && math.Signbit(v)) {
		t.Errorf("parseInt(-0)")
	}
	if x := ParseInt(u16("1234567890123456789012345"), 10); x.Also != nil || x.Sig != 25 {
		t.Errorf("parseInt >20 digits: %+v", x)
	}
	// 2^70 + 2^17 + 1: just above the halfway point; with the digits after the 20th read as 0 it is below
	if x := ParseInt(u16("-1180591620717411434497"), 10); x.Also == nil || *x.Also != -1180591620717411303424 || x.Value != -1180591620717411565568 {
		t.Errorf("parseInt >20 digits: %+v", x)
	}
}

func TestLiteral(t *testing.T) {
	type row struct {
		s    string
		n    int
		kind LitKind
		v    float64
	}
	for _, r := range []row{{"0", 1, LitDecimal, 0}, {"0.5", 3, LitDecimal, 0.5}, {".5e1", 4, LitDecimal, 5}, {"5.e1", 4, LitDecimal, 50}, {"5.", 2, LitDecimal, 5}, {"0e5", 3, LitDecimal, 0},
		{"1e", 1, LitDecimal, 1}, {"1e+", 1, LitDecimal, 1}, {"0x1F", 4, LitHex, 31}, {"0x", 0, LitNone, 0}, {"010", 3, LitOctal, 8}, {"00", 2, LitOctal, 0}, {"08", 2, LitOctalLike, 0},
		{"0.0", 3, LitDecimal, 0}, {"1.5.5", 3, LitDecimal, 1.5}, {".", 0, LitNone, 0}, {"1e400", 5, LitDecimal, math.Inf(1)}, {"12abc", 2, LitDecimal, 12}, {"0b1", 1, LitDecimal, 0},
		{"0xg", 0, LitNone, 0}, {"0x10000000000000000001", 22, LitHex, 7.555786372591432e22}} {
		n, k, v := ScanNumericLiteral(r.s)
		if n != r.n || k != r.kind || (k != LitNone && v != r.v) {
			t.Errorf("ScanNumericLiteral(%q) = %d,%v,%v want %d,%v,%v", r.s, n, k, v, r.n, r.kind, r.v)
		}
	}
}
