package m06

import (
	"math"
	"math/big"
	"strings"
)

// StrWhiteSpaceChar (9.3.1) = WhiteSpace (7.2: TAB VT FF SP NBSP BOM and every Unicode Zs) |
// LineTerminator (7.3). U+180E is deliberately not listed (its category changed between Unicode
// versions; generated inputs never contain it).
var StrWhiteSpaceChars = []uint16{
	0x0009, 0x000A, 0x000B, 0x000C, 0x000D, 0x0020, 0x00A0, 0x1680,
	0x2000, 0x2001, 0x2002, 0x2003, 0x2004, 0x2005, 0x2006, 0x2007, 0x2008, 0x2009, 0x200A,
	0x2028, 0x2029, 0x202F, 0x205F, 0x3000, 0xFEFF,
}

var wsSet = func() map[uint16]bool {
	m := map[uint16]bool{}
	for _, c := range StrWhiteSpaceChars {
		m[c] = true
	}
	return m
}()

func IsStrWS(c uint16) bool { return wsSet[c] }

func digitVal(c uint16) int {
	switch {
	case c >= '0' && c <= '9':
		return int(c - '0')
	case c >= 'a' && c <= 'z':
		return int(c-'a') + 10
	case c >= 'A' && c <= 'Z':
		return int(c-'A') + 10
	}
	return -1
}

// cursor walks over code units.
type cursor struct {
	u []uint16
	i int
}

func (c *cursor) peek() int {
	if c.i < len(c.u) {
		return int(c.u[c.i])
	}
	return -1
}

func (c *cursor) digits() string {
	var b strings.Builder
	for c.i < len(c.u) && c.u[c.i] >= '0' && c.u[c.i] <= '9' {
		b.WriteByte(byte(c.u[c.i]))
		c.i++
	}
	return b.String()
}

func (c *cursor) lit(s string) bool {
	if c.i+len(s) > len(c.u) {
		return false
	}
	for k := 0; k < len(s); k++ {
		if c.u[c.i+k] != uint16(s[k]) {
			return false
		}
	}
	c.i += len(s)
	return true
}

// strUnsignedDecimal recognises the longest StrUnsignedDecimalLiteral at the cursor (9.3.1):
//
//	Infinity | DecimalDigits . DecimalDigits(opt) ExponentPart(opt) | . DecimalDigits ExponentPart(opt)
//	| DecimalDigits ExponentPart(opt)
//
// and returns its value. An ExponentPart is only taken when it is complete (ExponentIndicator
// SignedInteger), otherwise the literal ends before the 'e'.
func (c *cursor) strUnsignedDecimal() (val float64, ok bool) {
	if c.lit("Infinity") {
		return math.Inf(1), true
	}
	start := c.i
	ip := c.digits()
	fp := ""
	if c.peek() == '.' {
		save := c.i
		c.i++
		fp = c.digits()
		if ip == "" && fp == "" {
			c.i = save
		}
	}
	if ip == "" && fp == "" {
		c.i = start
		return 0, false
	}
	e10 := 0
	if p := c.peek(); p == 'e' || p == 'E' {
		save := c.i
		c.i++
		neg := false
		if q := c.peek(); q == '+' || q == '-' {
			neg = q == '-'
			c.i++
		}
		ed := c.digits()
		if ed == "" {
			c.i = save
		} else {
			e10 = clampExp(ed, neg)
		}
	}
	return DecimalToDouble(ip+fp, e10-len(fp)), true
}

// clampExp converts exponent digits to an int, saturating far outside the double range
// (so that "1e99999999999999999999" is still handled exactly: the value is certainly Infinity or 0
// unless the mantissa is zero, which DecimalToDouble tests first).
func clampExp(ed string, neg bool) int {
	ed = strings.TrimLeft(ed, "0")
	v := 0
	if len(ed) > 7 {
		v = 10_000_000
	} else {
		for i := 0; i < len(ed); i++ {
			v = v*10 + int(ed[i]-'0')
		}
	}
	if neg {
		return -v
	}
	return v
}

func trimWS(u []uint16) []uint16 {
	i, j := 0, len(u)
	for i < j && IsStrWS(u[i]) {
		i++
	}
	for j > i && IsStrWS(u[j-1]) {
		j--
	}
	return u[i:j]
}

// StringToNumber is ToNumber applied to the String type (9.3.1): the whole string must be a
// StringNumericLiteral, otherwise NaN.
func StringToNumber(u []uint16) float64 {
	u = trimWS(u)
	if len(u) == 0 {
		return 0 // StrWhiteSpace(opt) alone: MV is 0
	}
	c := &cursor{u: u}
	// HexIntegerLiteral: 0x / 0X HexDigit+ (no sign)
	if len(u) >= 2 && u[0] == '0' && (u[1] == 'x' || u[1] == 'X') {
		if len(u) == 2 {
			return math.NaN()
		}
		v := new(big.Int)
		for _, ch := range u[2:] {
			d := digitVal(ch)
			if d < 0 || d > 15 {
				return math.NaN()
			}
			v.Lsh(v, 4)
			v.Add(v, big.NewInt(int64(d)))
		}
		return IntToDouble(v)
	}
	neg := false
	if p := c.peek(); p == '+' || p == '-' {
		neg = p == '-'
		c.i++
	}
	v, ok := c.strUnsignedDecimal()
	if !ok || c.i != len(u) {
		return math.NaN()
	}
	if neg {
		v = -v
	}
	return v
}

// ParseFloat is parseFloat (15.1.2.3) applied to an already ToString'ed argument.
func ParseFloat(u []uint16) float64 {
	i := 0
	for i < len(u) && IsStrWS(u[i]) {
		i++
	}
	c := &cursor{u: u[i:]}
	neg := false
	if p := c.peek(); p == '+' || p == '-' {
		neg = p == '-'
		c.i++
	}
	v, ok := c.strUnsignedDecimal()
	if !ok {
		return math.NaN()
	}
	if neg {
		v = -v
	}
	return v
}

// IntResult is what 15.1.2.2 allows parseInt to return.
type IntResult struct {
	Value   float64  // the result computed from the exact mathematical integer
	Also    *float64 // radix 10 with more than 20 significant digits: digits after the 20th may be read as 0
	Approx  bool     // radix not in {2,4,8,10,16,32}: mathInt may be an implementation-dependent approximation
	Sig     int      // significant digits of Z
	Radix   int      // the R finally used (0 when the result is NaN because of the radix)
	Exact   *big.Int // the mathematical integer (nil for NaN results)
	Neg     bool
	IsNaN   bool
	Stripped bool // a 0x prefix was removed
}

// ToInt32 (9.5).
func ToInt32(x float64) int32 {
	if math.IsNaN(x) || math.IsInf(x, 0) || x == 0 {
		return 0
	}
	t := math.Trunc(x)
	neg := t < 0
	if neg {
		t = -t
	}
	v := BigOfIntegral(t)
	if neg {
		v.Neg(v)
	}
	m := new(big.Int).Lsh(bigOne, 32)
	v.Mod(v, m) // Euclidean modulus: 0 <= v < 2^32
	return int32(uint32(v.Uint64()))
}

// ParseInt is parseInt (15.1.2.2) on an already ToString'ed first argument and an already
// ToNumber'ed radix (undefined converts to NaN, which ToInt32 maps to 0).
func ParseInt(u []uint16, radix float64) IntResult {
	i := 0
	for i < len(u) && IsStrWS(u[i]) {
		i++
	}
	s := u[i:]
	res := IntResult{}
	if len(s) > 0 && s[0] == '-' {
		res.Neg = true
	}
	if len(s) > 0 && (s[0] == '+' || s[0] == '-') {
		s = s[1:]
	}
	r := int(ToInt32(radix))
	strip := true
	if r != 0 {
		if r < 2 || r > 36 {
			res.IsNaN, res.Value = true, math.NaN()
			return res
		}
		if r != 16 {
			strip = false
		}
	} else {
		r = 10
	}
	if strip && len(s) >= 2 && s[0] == '0' && (s[1] == 'x' || s[1] == 'X') {
		s = s[2:]
		r = 16
		res.Stripped = true
	}
	res.Radix = r
	v := new(big.Int)
	var v20 *big.Int // radix 10: value with the digits after the 20th significant one read as 0
	rb := big.NewInt(int64(r))
	n := 0
	for _, ch := range s {
		d := digitVal(ch)
		if d < 0 || d >= r {
			break
		}
		v.Mul(v, rb).Add(v, big.NewInt(int64(d)))
		if r == 10 {
			if v20 == nil {
				v20 = new(big.Int)
			}
			v20.Mul(v20, rb)
			if res.Sig < 20 {
				v20.Add(v20, big.NewInt(int64(d)))
			}
		}
		n++
		if res.Sig > 0 || d != 0 {
			res.Sig++
		}
	}
	if n == 0 {
		res.IsNaN, res.Value = true, math.NaN()
		return res
	}
	res.Exact = v
	res.Value = IntToDouble(v)
	switch {
	case r == 10:
		if res.Sig > 20 {
			a := IntToDouble(v20)
			if a != res.Value {
				if res.Neg {
					a = -a
				}
				res.Also = &a
			}
		}
	case !IsPow2Radix(r):
		res.Approx = true
	}
	if res.Neg {
		res.Value = -res.Value // −0 for "-0" (step 16: sign × number)
	}
	return res
}

// ---------------------------------------------------------------------------------------------
// 7.8.3 numeric literals in source text (+ B.1.1 legacy octal)

// LitKind classifies a source text against the NumericLiteral grammar.
type LitKind int

const (
	LitNone    LitKind = iota // not a NumericLiteral
	LitDecimal                // DecimalLiteral
	LitHex                    // HexIntegerLiteral
	LitOctal                  // B.1.1 LegacyOctalIntegerLiteral: 0 OctalDigit+
	LitOctalLike              // 0 followed by decimal digits including 8 or 9 (08, 09): kept out, see DESIGN appendix B
)

// ScanNumericLiteral recognises the longest NumericLiteral at the start of the ASCII text s and
// returns its length, kind and value. It does not apply the "must not be followed by
// IdentifierStart or DecimalDigit" rule; the caller does (FollowOK).
func ScanNumericLiteral(s string) (n int, kind LitKind, val float64) {
	if s == "" {
		return 0, LitNone, 0
	}
	isDig := func(i int) bool { return i < len(s) && s[i] >= '0' && s[i] <= '9' }
	if s[0] == '0' && len(s) >= 2 && (s[1] == 'x' || s[1] == 'X') {
		i := 2
		v := new(big.Int)
		for i < len(s) && digitVal(uint16(s[i])) >= 0 && digitVal(uint16(s[i])) < 16 {
			v.Lsh(v, 4)
			v.Add(v, big.NewInt(int64(digitVal(uint16(s[i])))))
			i++
		}
		if i == 2 {
			return 0, LitNone, 0
		}
		return i, LitHex, IntToDouble(v)
	}
	if s[0] == '0' && isDig(1) {
		// legacy octal or octal-like
		i := 1
		oct := true
		for isDig(i) {
			if s[i] >= '8' {
				oct = false
			}
			i++
		}
		if !oct {
			return i, LitOctalLike, 0
		}
		v := new(big.Int)
		for _, ch := range s[1:i] {
			v.Lsh(v, 3)
			v.Add(v, big.NewInt(int64(ch-'0')))
		}
		return i, LitOctal, IntToDouble(v)
	}
	i := 0
	ip := ""
	if s[0] == '0' {
		ip = "0"
		i = 1
	} else {
		for isDig(i) {
			i++
		}
		ip = s[:i]
	}
	fp := ""
	if i < len(s) && s[i] == '.' {
		j := i + 1
		for isDig(j) {
			j++
		}
		if ip != "" || j > i+1 {
			fp = s[i+1 : j]
			i = j
		}
	}
	if ip == "" && fp == "" {
		return 0, LitNone, 0
	}
	e10 := 0
	if i < len(s) && (s[i] == 'e' || s[i] == 'E') {
		j := i + 1
		neg := false
		if j < len(s) && (s[j] == '+' || s[j] == '-') {
			neg = s[j] == '-'
			j++
		}
		k := j
		for isDig(k) {
			k++
		}
		if k > j {
			e10 = clampExp(s[j:k], neg)
			i = k
		}
		// an incomplete exponent leaves the 'e' behind: the follow rule then rejects the text
	}
	return i, LitDecimal, DecimalToDouble(ip+fp, e10-len(fp))
}

// FollowOK: "The source character immediately following a NumericLiteral must not be an
// IdentifierStart or DecimalDigit" (7.8.3), for ASCII followers.
func FollowOK(next byte) bool {
	switch {
	case next >= '0' && next <= '9', next >= 'a' && next <= 'z', next >= 'A' && next <= 'Z', next == '$', next == '_', next == '\\':
		return false
	}
	return true
}
