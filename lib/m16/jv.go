package m16

import (
	"fmt"
	"math"
	"strconv"
	"strings"
	"unicode/utf16"

	"verif/lib/es5"
)

// JV specifies a JavaScript value structurally, so that the model can compute what it denotes
// and the executor can spell it as source text.
type JV struct {
	K    string   `json:"k"`              // num str bool null undef arr obj fn sp hole
	N    string   `json:"n,omitempty"`    // num: exact literal of the double (NumLit form)
	Form string   `json:"form,omitempty"` // num spelling: lit | flt | i32 | u32 | len | go:<kind> (a Go value of that kind handed to the script)
	S    string   `json:"s,omitempty"`    // str: value; fn: body kind; sp: which special
	B    bool     `json:"b,omitempty"`
	Keys []string `json:"keys,omitempty"` // obj
	E    []JV     `json:"e,omitempty"`    // arr elements | obj values | fn return value | sp arguments
	// Re makes the value re-entrant: converting it runs script code (its toString, or the getter of
	// its property number Get) that first calls the function under test, f, with these arguments.
	Re    []JV `json:"re,omitempty"`
	Get   int  `json:"get,omitempty"`
	HasRe bool `json:"hasRe,omitempty"`
}

// reenter is the script text of the nested call (its failure is the nested call's own business).
func (v JV) reenter() string {
	var a []string
	for _, x := range v.Re {
		a = append(a, x.Src())
	}
	return "try { f(" + strings.Join(a, ",") + ") } catch (e) {}"
}

func JNum(x float64, form string) JV { return JV{K: "num", N: NumLit(x), Form: form} }
func JStr(s string) JV               { return JV{K: "str", S: s} }
func JBool(b bool) JV                { return JV{K: "bool", B: b} }
func JNull() JV                      { return JV{K: "null"} }
func JUndef() JV                     { return JV{K: "undef"} }
func JHole() JV                      { return JV{K: "hole"} }
func JArr(e ...JV) JV                { return JV{K: "arr", E: e} }
func JObj(keys []string, vals []JV) JV {
	return JV{K: "obj", Keys: keys, E: vals}
}
func JFn(body string, ret ...JV) JV  { return JV{K: "fn", S: body, E: ret} }
func JSp(name string, args ...JV) JV { return JV{K: "sp", S: name, E: args} }

// NumLit renders a double as an ES5 expression denoting exactly that double.
func NumLit(x float64) string {
	switch {
	case math.IsNaN(x):
		return "NaN"
	case math.IsInf(x, 1):
		return "Infinity"
	case math.IsInf(x, -1):
		return "-Infinity"
	case x == 0 && math.Signbit(x):
		return "-0"
	}
	return strconv.FormatFloat(x, 'e', -1, 64)
}

// Float is the double a num specification denotes.
func (v JV) Float() float64 {
	switch v.N {
	case "NaN":
		return math.NaN()
	case "Infinity":
		return math.Inf(1)
	case "-Infinity":
		return math.Inf(-1)
	case "-0":
		return math.Copysign(0, -1)
	}
	f, err := strconv.ParseFloat(v.N, 64)
	if err != nil {
		panic("m16: bad number literal " + v.N)
	}
	return f
}

// FormOK says whether the spelling is available for the double.
func FormOK(x float64, form string) bool {
	integral := x == math.Trunc(x) && !math.IsInf(x, 0) && !(x == 0 && math.Signbit(x))
	switch form {
	case "lit", "flt", "":
		return true
	case "i32":
		return integral && x >= -2147483648 && x <= 2147483647
	case "u32":
		return integral && x >= 0 && x <= 4294967295
	case "len":
		return integral && x >= 0 && x <= 40
	}
	if strings.HasPrefix(form, "go:") {
		return goFormOK(x, strings.TrimPrefix(form, "go:"))
	}
	return false
}

// GoForms are the Go kinds a number can originate from (a result, field or element of that kind).
var GoForms = []string{"go:uint64", "go:uint", "go:int64", "go:int", "go:uint32", "go:int32", "go:uint16", "go:int16", "go:uint8", "go:int8", "go:float32"}

var goKindBits = map[string]int{"int8": 8, "int16": 16, "int32": 32, "int64": 64, "int": 64, "uint8": 8, "uint16": 16, "uint32": 32, "uint64": 64, "uint": 64}

func goFormOK(x float64, kind string) bool {
	if kind == "float32" {
		return math.IsNaN(x) || math.IsInf(x, 0) || float64(float32(x)) == x
	}
	bits, ok := goKindBits[kind]
	if !ok || x != math.Trunc(x) || math.IsInf(x, 0) || (x == 0 && math.Signbit(x)) {
		return false
	}
	if kind[0] == 'u' {
		return x >= 0 && x < math.Ldexp(1, bits)
	}
	return x >= -math.Ldexp(1, bits-1) && x < math.Ldexp(1, bits-1)
}

// GoKind is the Go kind otto's Value carries for this spelling (observed, not assumed by the
// oracle: it is only used to label classes and to delimit known-finding classes).
func (v JV) GoKind() string {
	x := v.Float()
	switch v.Form {
	case "i32":
		return "int32"
	case "u32":
		return "uint32"
	case "len":
		return "int"
	case "flt":
		return "float64"
	}
	if strings.HasPrefix(v.Form, "go:") {
		return strings.TrimPrefix(v.Form, "go:")
	}
	if x == math.Trunc(x) && x >= 0 && x < 9007199254740992 && !math.Signbit(x) {
		return "int64"
	}
	return "float64"
}

// Src spells the value as an ES5 expression (safe as an argument or right-hand side).
func (v JV) Src() string {
	switch v.K {
	case "num":
		x := v.Float()
		lit := NumLit(x)
		plain := lit
		if x == math.Trunc(x) && math.Abs(x) < 9007199254740992 && !math.IsInf(x, 0) && !(x == 0 && math.Signbit(x)) {
			plain = strconv.FormatFloat(x, 'f', 0, 64)
		}
		switch v.Form {
		case "flt":
			return "(" + lit + ")"
		case "i32":
			return "(" + plain + "|0)"
		case "u32":
			return "(" + plain + ">>>0)"
		case "len":
			return "(" + strconv.Quote(strings.Repeat("a", int(x))) + ".length)"
		}
		if strings.HasPrefix(v.Form, "go:") {
			// __gonum is a native of the executor: it returns a Value that carries a Go number of
			// that kind (what a Go result / field / element looks like to the script)
			return "__gonum(" + strconv.Quote(strings.TrimPrefix(v.Form, "go:")) + "," + strconv.Quote(CanonFloat(x)) + ")"
		}
		return "(" + plain + ")"
	case "str":
		return JSString(v.S)
	case "bool":
		return strconv.FormatBool(v.B)
	case "null":
		return "null"
	case "undef":
		return "undefined"
	case "hole":
		return ""
	case "arr":
		var b strings.Builder
		b.WriteByte('[')
		for i, e := range v.E {
			if i > 0 {
				b.WriteByte(',')
			}
			b.WriteString(e.Src())
		}
		if n := len(v.E); n > 0 && v.E[n-1].K == "hole" {
			b.WriteByte(',')
		}
		b.WriteByte(']')
		return b.String()
	case "obj":
		var b strings.Builder
		b.WriteString("({")
		for i, k := range v.Keys {
			if i > 0 {
				b.WriteByte(',')
			}
			if v.HasRe && i == v.Get { // an accessor property whose getter re-enters f
				b.WriteString("get " + JSString(k) + "(){ " + v.reenter() + "; return " + v.E[i].Src() + " }")
				continue
			}
			b.WriteString(JSString(k))
			b.WriteByte(':')
			b.WriteString(v.E[i].Src())
		}
		b.WriteString("})")
		return b.String()
	case "fn":
		switch v.S {
		case "ret":
			return "(function(){return " + v.E[0].Src() + "})"
		case "inc":
			return "(function(x){return x+1})"
		case "id":
			return "(function(x){return x})"
		case "throw":
			return "(function(){throw new TypeError(\"inner\")})"
		case "argc":
			return "(function(){return arguments.length})"
		}
		return "(function(){})"
	case "sp":
		arg := func(i int) string {
			if i < len(v.E) {
				return v.E[i].Src()
			}
			return "undefined"
		}
		switch v.S {
		case "date0":
			return "(new Date(0))"
		case "regexp":
			return "(/x/)"
		case "numobj":
			return "(new Number(" + arg(0) + "))"
		case "strobj":
			return "(new String(" + arg(0) + "))"
		case "boolobj":
			return "(new Boolean(false))"
		case "tostr":
			if v.HasRe {
				return "({toString:function(){ " + v.reenter() + "; return " + arg(0) + " }})"
			}
			return "({toString:function(){return " + arg(0) + "}})"
		case "valof":
			return "({valueOf:function(){return " + arg(0) + "}})"
		case "tostr-throw":
			return "({toString:function(){throw new Error(\"boom\")}})"
		case "fn2":
			return "(function(a,b){})"
		case "arraylike": // {length:n, 0:…, 1:…}
			var b strings.Builder
			fmt.Fprintf(&b, "({length:%d", len(v.E))
			for i, e := range v.E {
				fmt.Fprintf(&b, ",%d:%s", i, e.Src())
			}
			b.WriteString("})")
			return b.String()
		case "arraylike-neg":
			return "({length:-1})"
		case "args":
			var a []string
			for _, e := range v.E {
				a = append(a, e.Src())
			}
			return "(function(){return arguments})(" + strings.Join(a, ",") + ")"
		}
		if strings.HasPrefix(v.S, "gosl:") { // a bridged Go slice / *array of that element kind holding these numbers
			var a []string
			for _, e := range v.E {
				a = append(a, strconv.Quote(CanonFloat(e.Float())))
			}
			return "__gosl(" + strconv.Quote(v.S[5:]) + ", [" + strings.Join(a, ",") + "])"
		}
		if strings.HasPrefix(v.S, "go:") {
			return "G_" + v.S[3:]
		}
		if strings.HasPrefix(v.S, "self:") { // histories: a field of the container itself (live Go memory)
			return "G." + v.S[5:]
		}
	}
	panic("m16: cannot spell " + v.K + "/" + v.S)
}

// JSString renders s as an ES5 string literal (ASCII printable raw, BMP as \uXXXX, astral raw
// because otto's lexer does not combine escaped surrogate pairs).
func JSString(s string) string {
	var b strings.Builder
	b.WriteByte('"')
	for _, r := range s {
		switch {
		case r == '"' || r == '\\':
			b.WriteByte('\\')
			b.WriteRune(r)
		case r >= 0x20 && r < 0x7f:
			b.WriteRune(r)
		case r < 0x10000:
			fmt.Fprintf(&b, "\\u%04X", r)
		default:
			b.WriteRune(r)
		}
	}
	b.WriteByte('"')
	return b.String()
}

// IsObject: the value is an object (anything but a primitive).
func (v JV) IsObject() bool { return v.K == "arr" || v.K == "obj" || v.K == "fn" || v.K == "sp" }

// IsGo: a pre-bridged Go object.
func (v JV) IsGo() bool { return v.K == "sp" && strings.HasPrefix(v.S, "go:") }

// IsGoList: a bridged Go slice / array built for the case ("gosl:<elemkind>" or "gosl:*<elemkind>" for a pointer to an array).
func (v JV) IsGoList() bool { return v.K == "sp" && strings.HasPrefix(v.S, "gosl:") }

// GoListElems are the elements of a bridged Go list as numbers that originate in Go.
func (v JV) GoListElems() []JV {
	kind := strings.TrimPrefix(strings.TrimPrefix(v.S, "gosl:"), "*")
	var out []JV
	for _, e := range v.E {
		out = append(out, JNum(e.Float(), "go:"+kind))
	}
	return out
}

// HasReentry: converting the value calls the function under test again.
func (v JV) HasReentry() bool {
	if v.HasRe {
		return true
	}
	for _, e := range v.E {
		if e.HasReentry() {
			return true
		}
	}
	return false
}

// ---- ES5 conversions of specified values (9.1-9.3, 9.8) -------------------------------------------

// ToBoolean (9.2).
func (v JV) ToBoolean() bool {
	switch v.K {
	case "num":
		x := v.Float()
		return !(x == 0 || math.IsNaN(x))
	case "str":
		return v.S != ""
	case "bool":
		return v.B
	case "null", "undef", "hole":
		return false
	}
	return true
}

// ToStringES (9.8); ok is false when the result is implementation-defined or not modelled
// (function source text, dates, throwing toString, bridged Go objects).
func (v JV) ToStringES() (s string, ok bool) {
	switch v.K {
	case "num":
		return es5.NumberToString(v.Float()), true
	case "str":
		return v.S, true
	case "bool":
		return strconv.FormatBool(v.B), true
	case "null":
		return "null", true
	case "undef", "hole":
		return "undefined", true
	case "arr": // 15.4.4.2 -> join(",")
		parts := make([]string, len(v.E))
		for i, e := range v.E {
			if e.K == "null" || e.K == "undef" || e.K == "hole" {
				continue
			}
			p, ok := e.ToStringES()
			if !ok {
				return "", false
			}
			parts[i] = p
		}
		return strings.Join(parts, ","), true
	case "obj":
		return "[object Object]", true
	case "sp":
		switch v.S {
		case "regexp":
			return "/x/", true
		case "numobj":
			if len(v.E) == 1 && v.E[0].K == "num" {
				return v.E[0].ToStringES()
			}
		case "strobj":
			if len(v.E) == 1 && v.E[0].K == "str" {
				return v.E[0].S, true
			}
		case "boolobj":
			return "false", true
		case "tostr":
			if len(v.E) == 1 && !v.E[0].IsObject() {
				return v.E[0].ToStringES()
			}
		case "valof", "arraylike", "arraylike-neg":
			return "[object Object]", true
		case "args":
			return "[object Arguments]", true
		}
	}
	return "", false
}

// ToNumberES (9.3, through ToPrimitive hint Number); ok false when not modelled.
func (v JV) ToNumberES() (x float64, ok bool) {
	switch v.K {
	case "num":
		return v.Float(), true
	case "str":
		return es5.StringToNumber(utf16.Encode([]rune(v.S))), true
	case "bool":
		if v.B {
			return 1, true
		}
		return 0, true
	case "null":
		return 0, true
	case "undef", "hole":
		return math.NaN(), true
	case "arr", "obj", "fn":
		if v.K == "fn" {
			return math.NaN(), true
		}
		s, ok := v.ToStringES()
		if !ok {
			return 0, false
		}
		return es5.StringToNumber(utf16.Encode([]rune(s))), true
	case "sp":
		switch v.S {
		case "date0":
			return 0, true
		case "numobj":
			if len(v.E) == 1 && v.E[0].K == "num" {
				return v.E[0].Float(), true
			}
		case "boolobj":
			return 0, true
		case "valof", "tostr":
			// ToPrimitive (8.12.8, hint Number): valueOf first; Object.prototype.valueOf returns the
			// object itself, so for "tostr" the primitive comes from toString - and it is that
			// primitive (not its string form) that ToNumber converts
			if len(v.E) == 1 && !v.E[0].IsObject() {
				return v.E[0].ToNumberES()
			}
		case "fn2":
			return math.NaN(), true
		case "regexp", "strobj", "arraylike", "arraylike-neg", "args":
			s, ok := v.ToStringES()
			if !ok {
				return 0, false
			}
			return es5.StringToNumber(utf16.Encode([]rune(s))), true
		}
	}
	return 0, false
}
