package m16

import (
	"fmt"
	"math"
	"math/big"
	"reflect"
	"strconv"
	"strings"

	"verif/lib/es5"
)

// Status of a (JavaScript value, Go type) cell.
type Status int

const (
	Exact      Status = iota // the value denotes exactly V in the type (a loud failure is acceptable only if MayFail)
	Impossible               // the value denotes nothing in the type: the conversion must fail loudly
	Any                      // not modelled / ambiguous: no assertion about the value, only "no crash"
)

// Den is the denotation of a JavaScript value in a Go type.
type Den struct {
	St      Status
	V       GV
	Alt     []GV     // further acceptable values (store path only: conversions pinned by otto's own tests)
	MayFail bool     // Exact: a loud failure is also acceptable (cell outside the positive list)
	Class   string   // coarse label for the histogram
	Known   []string // known-finding classes this cell belongs to
	Hard    bool     // the cell needs a checked conversion (out of range / fractional / wrong kind / inexact)
}

// Known-finding ids (root causes; see props/c16/FINDINGS.txt).
const (
	KFloat32    = "C16-FLOAT32-ROUNDS"
	KNumToStr   = "C16-NUMBER-TO-STRING-FORMAT"
	KArrayLike  = "C16-ARRAYLIKE-SLICE"
	KGoToStruct = "C16-GOOBJECT-TO-STRUCT-ZERO"
	KNamedType  = "C16-NAMED-TYPE-PANIC"
	KStoreFrac  = "C16-STORE-FRACTION-CHECK"
	KStoreBound = "C16-STORE-INT64-BOUNDARY"
	KStorePanic = "C16-STORE-ERROR-PANIC"
	KKeyBase0   = "C16-MAP-KEY-BASE0"
	KSetLen     = "C16-SLICE-SETLEN-PANIC"
	KDeleteFat  = "C16-DELETE-FATAL"
	KStructVal  = "C16-STRUCT-VALUE-SET-PANIC"
	KF32Reflect = "C16-FLOAT32-REFLECT-VALUE"
	KNullToAny  = "C16-STORE-NULL-INTO-INTERFACE"
	KShadow     = "C16-STRUCT-SHADOW-PROPERTY"
	KFieldGrow  = "C16-FIELD-SLICE-GROW-LOST"
	KInt64Str   = "C16-INT64-UNROUNDED-STRING"
	KMapMethod  = "C16-MAP-METHOD-NAME-WRITE-DROPPED"
	KNamedKey   = "C16-MAP-NAMED-KEY-PANIC"
	KStoreI64   = "C16-STORE-INT64-VIA-FLOAT"
)

func impossible(class string, known ...string) Den {
	return Den{St: Impossible, Class: class, Known: known, Hard: true}
}
func anyDen(class string, known ...string) Den {
	return Den{St: Any, Class: class, Known: known, MayFail: true}
}

var (
	two53 = new(big.Int).Lsh(big.NewInt(1), 53)
)

func intRange(k reflect.Kind) (lo, hi *big.Int) {
	bits := map[reflect.Kind]uint{reflect.Int8: 8, reflect.Int16: 16, reflect.Int32: 32, reflect.Int64: 64, reflect.Int: strconv.IntSize,
		reflect.Uint8: 8, reflect.Uint16: 16, reflect.Uint32: 32, reflect.Uint64: 64, reflect.Uint: strconv.IntSize}[k]
	one := big.NewInt(1)
	if IsInt(k) {
		hi = new(big.Int).Sub(new(big.Int).Lsh(one, bits-1), one)
		lo = new(big.Int).Neg(new(big.Int).Lsh(one, bits-1))
		return
	}
	return big.NewInt(0), new(big.Int).Sub(new(big.Int).Lsh(one, bits), one)
}

// strictNumber: the exact denotation of the double x in numeric kind k.
func strictNumber(x float64, k reflect.Kind) (GV, string, bool) {
	switch {
	case k == reflect.Float64:
		return NumF(x), "float64", true
	case k == reflect.Float32:
		if math.IsNaN(x) || math.IsInf(x, 0) || float64(float32(x)) == x {
			return NumF(x), "float32-exact", true
		}
		return GV{}, "float32-inexact", false
	}
	if math.IsNaN(x) || math.IsInf(x, 0) {
		return GV{}, "nan-inf-to-int", false
	}
	if x != math.Trunc(x) {
		return GV{}, "fractional", false
	}
	i, _ := new(big.Float).SetFloat64(x).Int(nil)
	lo, hi := intRange(k)
	if i.Cmp(lo) < 0 || i.Cmp(hi) > 0 {
		return GV{}, "out-of-range", false
	}
	return Num(i.String()), "integer-in-range", true
}

func isNearLayoutThreshold(x float64) bool { // C06-TOSTRING-LOG10: ToString layout of the doubles just below 1e21 / 1e-6
	a := math.Abs(x)
	return (a < 1e21 && a > 1e21*(1-1e-13)) || (a < 1e-6 && a > 1e-6*(1-1e-13))
}

// Denote computes what v denotes in t. path is "call" (arguments, struct fields: the checked
// parameter conversion) or "store" (map / slice / array elements); it only widens the accepted
// set (store: conversions of non-Number values pinned by otto's tests) and delimits known classes.
func Denote(v JV, t reflect.Type, path string) Den {
	d := denote0(v, t, path)
	if k := t.Kind(); path == "call" && t.PkgPath() != "" && (k == reflect.String || k == reflect.Bool) {
		has := false
		for _, id := range d.Known {
			has = has || id == KNamedType
		}
		if !has {
			d.Known = append(d.Known, KNamedType)
		}
	}
	return d
}

func denote0(v JV, t reflect.Type, path string) Den {
	k := t.Kind()
	if v.IsGoList() { // element-wise through the checked numeric rule, or (for other targets) unmodelled
		elems := v.GoListElems()
		switch {
		case k == reflect.Slice || k == reflect.Array:
			d := denoteList(JArr(elems...), t, path)
			d.MayFail = true
			d.Hard = true
			d.Class = "bridged-go-list>" + d.Class
			return d
		case k == reflect.Interface && t.NumMethod() == 0:
			g := GV{K: "list"}
			for _, e := range elems {
				g.Elems = append(g.Elems, NumF(e.Float()))
			}
			return Den{St: Exact, V: g, Class: "bridged-go-list>any"}
		case k == reflect.Struct, k == reflect.Func, IsNumeric(k):
			return impossible("bridged-go-list>" + k.String())
		}
		return anyDen("bridged-go-list>" + k.String())
	}
	named := t.PkgPath() != "" && k != reflect.Struct // MyInt, MyStr, … (non-struct named types)

	if v.IsGo() {
		d := denoteGo(v, t)
		if named && path == "call" && (k == reflect.String || k == reflect.Bool) {
			d.Known = append(d.Known, KNamedType)
		}
		return d
	}

	switch {
	case k == reflect.Interface:
		if t.NumMethod() > 0 { // error
			if v.K == "null" || v.K == "undef" {
				return Den{St: Exact, V: Nil(), MayFail: true, Class: "nil-interface"}
			}
			return anyDen("to-nonempty-interface")
		}
		d := denoteAny(v)
		if path == "store" && (v.K == "null" || v.K == "undef") {
			d.Known = append(d.Known, KNullToAny)
		}
		return d

	case k == reflect.Bool:
		d := Den{St: Exact, V: Bool(v.ToBoolean()), MayFail: v.K != "bool", Class: "to-bool:" + v.K, Hard: v.K != "bool"}
		if named && path == "call" {
			d.Known = append(d.Known, KNamedType)
		}
		return d

	case k == reflect.String:
		if v.K == "str" {
			d := Den{St: Exact, V: Str(v.S), Class: "string"}
			if named && path == "call" {
				d.Known = append(d.Known, KNamedType)
			}
			return d
		}
		s, ok := v.ToStringES()
		if !ok {
			return anyDen("to-string:" + v.K)
		}
		d := Den{St: Exact, V: Str(s), MayFail: true, Class: "to-string:" + v.K, Hard: true}
		if named && path == "call" {
			d.Known = append(d.Known, KNamedType)
		}
		if HasUnroundedGoInt(v) {
			// a Go int/int64/uint/uint64 beyond 2^53 stays an un-rounded integer inside the Value and
			// prints all its digits (same root cause as C15-INT64-UNROUNDED); ES5 9.8.1 prints the
			// digits of the double
			d.Known = append(d.Known, KInt64Str)
			d.Class = "to-string:unrounded-go-integer"
		}
		if v.K == "sp" && v.S == "tostr" && len(v.E) == 1 && v.E[0].K == "num" {
			// the Number a toString method returns is formatted by the same code
			x := v.E[0].Float()
			if isNearLayoutThreshold(x) {
				return anyDen("to-string:num-layout-threshold")
			}
			if path == "call" && v.E[0].GoKind() == "float64" && goFormatV(x) != s {
				d.Known = append(d.Known, KNumToStr)
			}
		}
		if v.K == "num" {
			x := v.Float()
			if isNearLayoutThreshold(x) {
				return anyDen("to-string:num-layout-threshold")
			}

			if path == "call" && v.GoKind() == "float64" && goFormatV(x) != s {
				d.Known = append(d.Known, KNumToStr)
			}
		}
		return d

	case IsNumeric(k):
		if v.K == "num" {
			x := v.Float()
			g, class, ok := strictNumber(x, k)
			d := Den{Class: class}
			if ok {
				d.St, d.V = Exact, g
				if !IsFloat(k) && math.Abs(x) > 9007199254740992 {
					d.MayFail = true // beyond 2^53 a loud refusal is tolerated (positive list: |x| <= 2^53)
				}
				if k == reflect.Float32 && math.IsInf(x, 0) {
					d.MayFail = true // refusing an infinity for float32 is loud, hence tolerated
				}
				d.Hard = !(x == math.Trunc(x) && math.Abs(x) < 1000 && !(x == 0 && math.Signbit(x)))
			} else {
				d.St, d.Hard = Impossible, true
			}
			if k == reflect.Float32 && !ok && math.Abs(x) <= math.MaxFloat32 {
				d.Known = append(d.Known, KFloat32) // rounding / underflow; an overflow must still be refused
			}
			if path == "call" && named && v.GoKind() == k.String() {
				d.Known = append(d.Known, KNamedType)
			}
			if path == "store" && !IsFloat(k) {
				if math.IsNaN(x) || (x < 0 && x != math.Trunc(x)) {
					d.Known = append(d.Known, KStoreFrac)
				}
				if (x == 9223372036854775808 && (k == reflect.Int64 || k == reflect.Int)) || (x == 18446744073709551616 && (k == reflect.Uint64 || k == reflect.Uint)) {
					d.Known = append(d.Known, KStoreBound)
				}
			}
			return d
		}
		// a non-Number value for a numeric type: ToNumber, then the same strict rule; never required
		n, ok := v.ToNumberES()
		if !ok {
			return anyDen("to-number:" + v.K)
		}
		g, _, sok := strictNumber(n, k)
		d := Den{Class: "to-number:" + v.K, MayFail: true, Hard: true}
		var alt *GV
		if path == "store" && !IsFloat(k) { // pinned by Test_reflectMap / Test_reflectSlice: "pqr" -> 0, "42" -> 42
			ti := es5.ToInteger(n)
			if a, _, aok := strictNumber(ti, k); aok {
				alt = &a
			}
		}
		switch {
		case sok:
			d.St, d.V = Exact, g
			if alt != nil && !alt.Equal(g) {
				d.Alt = append(d.Alt, *alt)
			}
		case alt != nil:
			d.St, d.V = Exact, *alt
		default:
			d.St = Impossible
		}
		if k == reflect.Float32 && !sok && math.Abs(n) <= math.MaxFloat32 {
			d.Known = append(d.Known, KFloat32)
		}
		if path == "store" && ((n == 9223372036854775808 && (k == reflect.Int64 || k == reflect.Int)) || (n == 18446744073709551616 && (k == reflect.Uint64 || k == reflect.Uint))) {
			d.Known = append(d.Known, KStoreBound)
		}
		return d

	case k == reflect.Ptr:
		if v.K == "null" || v.K == "undef" {
			return Den{St: Exact, V: Nil(), MayFail: true, Class: "nil-pointer"}
		}
		d := Denote(v, t.Elem(), path)
		if d.St == Exact {
			d.V = Ptr(d.V)
			d.Alt = nil
		}
		d.Class = "ptr>" + d.Class
		return d

	case k == reflect.Slice || k == reflect.Array:
		return denoteList(v, t, path)

	case k == reflect.Map:
		return denoteMap(v, t, path)

	case k == reflect.Struct:
		return denoteStruct(v, t, path)

	case k == reflect.Func:
		if v.K == "fn" || (v.K == "sp" && v.S == "fn2") {
			return anyDen("func") // judged by what the Go side observes when it calls it
		}
		return impossible("non-function-to-func")
	}
	return anyDen("unmodelled-kind:" + k.String())
}

// goFormatV is how Go's fmt prints a float64 with %v (what a maintainer gets from Sprintf);
// used only to delimit the known class C16-NUMBER-TO-STRING-FORMAT.
func goFormatV(x float64) string { return strconv.FormatFloat(x, 'g', -1, 64) }

func denoteAny(v JV) Den {
	switch v.K {
	case "num":
		return Den{St: Exact, V: NumF(v.Float()), Class: "any:num"}
	case "str":
		return Den{St: Exact, V: Str(v.S), Class: "any:str"}
	case "bool":
		return Den{St: Exact, V: Bool(v.B), Class: "any:bool"}
	case "null", "undef":
		return Den{St: Exact, V: Nil(), Class: "any:nil"}
	case "arr":
		g := GV{K: "list"}
		d := Den{St: Exact, Class: "any:arr"}
		for _, e := range v.E {
			if e.K == "hole" { // reads as undefined: a nil element, the positions of the others kept
				g.Elems = append(g.Elems, Nil())
				d.Class = "any:arr-with-hole"
				continue
			}
			ed := denoteAny(e)
			if ed.St != Exact {
				return anyDen("any:arr-of-unmodelled")
			}
			g.Elems = append(g.Elems, ed.V)
		}
		d.V = g
		return d
	case "obj":
		var vals []GV
		for _, e := range v.E {
			ed := denoteAny(e)
			if ed.St != Exact || e.K == "undef" {
				return anyDen("any:obj-of-unmodelled")
			}
			vals = append(vals, ed.V)
		}
		return Den{St: Exact, V: MapOf(v.Keys, vals), Class: "any:obj"}
	}
	return anyDen("any:" + v.K + ":" + v.S)
}

func merge(into *Den, e Den) {
	into.Known = append(into.Known, e.Known...)
	into.MayFail = into.MayFail || e.MayFail || len(e.Alt) > 0
	into.Hard = into.Hard || e.Hard
}

func denoteList(v JV, t reflect.Type, path string) Den {
	et := t.Elem()
	var elems []JV
	d := Den{St: Exact, Class: "list:" + v.K}
	switch {
	case v.K == "arr":
		elems = v.E
	case v.K == "sp" && (v.S == "arraylike" || v.S == "args"):
		elems = v.E
		d.MayFail = true
		d.Known = append(d.Known, KArrayLike)
		d.Class = "list:" + v.S
	case v.K == "sp" && v.S == "strobj" && len(v.E) == 1 && v.E[0].K == "str":
		for _, r := range v.E[0].S {
			elems = append(elems, JStr(string(r)))
		}
		d.MayFail = true
		d.Known = append(d.Known, KArrayLike)
		d.Class = "list:strobj"
	case v.K == "fn" || (v.K == "sp" && (v.S == "fn2" || v.S == "arraylike-neg")):
		return impossible("list:"+v.K+":"+v.S, KArrayLike) // an object with a numeric length that is not a list
	case v.K == "null" || v.K == "undef":
		if t.Kind() == reflect.Slice {
			return Den{St: Exact, V: List(), MayFail: true, Class: "list:nil"}
		}
		return impossible("array:nil")
	default:
		return impossible("list:" + v.K + ":" + v.S)
	}
	if t.Kind() == reflect.Array {
		d.MayFail = true
		if len(elems) != t.Len() {
			return impossible("array:length-mismatch")
		}
	}
	g := GV{K: "list"}
	anyElem := false
	for _, e := range elems {
		if e.K == "hole" {
			g.Elems = append(g.Elems, Zero(et)) // a missing element leaves the zero value, like a missing struct property
			d.MayFail = true
			continue
		}
		ed := Denote(e, et, path)
		merge(&d, ed)
		switch ed.St {
		case Impossible:
			r := impossible("list-elem:"+ed.Class, d.Known...)
			return r
		case Any:
			anyElem = true
		}
		g.Elems = append(g.Elems, ed.V)
	}
	if anyElem {
		d.St = Any
		d.MayFail = true
		return d
	}
	d.V = g
	return d
}

func canonicalIntKey(s string) (string, bool) {
	i, ok := new(big.Int).SetString(s, 10)
	if !ok || i.String() != s {
		return "", false
	}
	return s, true
}

func denoteMap(v JV, t reflect.Type, path string) Den {
	d := denoteMap0(v, t, path)
	if t.Key().PkgPath() != "" { // a named key type: keys must be converted to it, not merely be of its kind
		d.Known = append(d.Known, KNamedKey)
		d.Class = "named-key>" + d.Class
	}
	return d
}

func denoteMap0(v JV, t reflect.Type, path string) Den {
	et, kt := t.Elem(), t.Key()
	d := Den{St: Exact, Class: "map:" + v.K}
	var keys []string
	var elems []JV
	switch v.K {
	case "obj":
		keys, elems = v.Keys, v.E
	case "arr":
		d.MayFail = true
		for i, e := range v.E {
			if e.K != "hole" {
				keys = append(keys, strconv.Itoa(i))
				elems = append(elems, e)
			}
		}
	case "null", "undef":
		return Den{St: Exact, V: MapOf(nil, nil), MayFail: true, Class: "map:nil"}
	case "fn", "sp":
		return anyDen("map:" + v.K + ":" + v.S)
	default:
		return impossible("map:" + v.K)
	}
	if kt.Kind() != reflect.String {
		d.MayFail = true // non-string key types are not supported for arguments: refusing is fine
		lo, hi := intRange(kt.Kind())
		for _, k := range keys {
			c, ok := canonicalIntKey(k)
			if !ok {
				return impossible("map:non-integer-key")
			}
			i, _ := new(big.Int).SetString(c, 10)
			if i.Cmp(lo) < 0 || i.Cmp(hi) > 0 {
				return impossible("map:key-out-of-range")
			}
		}
	}
	var vals []GV
	anyElem := false
	for _, e := range elems {
		ed := Denote(e, et, path)
		merge(&d, ed)
		switch ed.St {
		case Impossible:
			return impossible("map-elem:"+ed.Class, d.Known...)
		case Any:
			anyElem = true
		}
		vals = append(vals, ed.V)
	}
	if anyElem {
		d.St, d.MayFail = Any, true
		return d
	}
	d.V = MapOf(keys, vals)
	return d
}

// ResolveField says which Go field a script-side property name selects on struct type t for the
// checked conversion of an object literal and for property writes: the Go name of an exported
// field (promoted fields of embedded structs included) or its json tag name; a json:"-" field and
// unexported fields are not selectable. It returns the index path.
func ResolveField(t reflect.Type, name string) []int {
	for t.Kind() == reflect.Ptr {
		t = t.Elem()
	}
	for i := 0; i < t.NumField(); i++ {
		f := t.Field(i)
		if f.PkgPath != "" { // unexported
			continue
		}
		tag := strings.SplitN(f.Tag.Get("json"), ",", 2)[0]
		if tag == "-" {
			continue
		}
		if f.Name == name || (tag != "" && tag == name) {
			return []int{i}
		}
	}
	for i := 0; i < t.NumField(); i++ { // promoted
		f := t.Field(i)
		if f.Anonymous && f.PkgPath == "" && f.Type.Kind() == reflect.Struct {
			if sub := ResolveField(f.Type, name); sub != nil {
				return append([]int{i}, sub...)
			}
		}
	}
	return nil
}

func setPath(g GV, t reflect.Type, idx []int, v GV) GV {
	c := g.Clone()
	if len(idx) == 1 {
		c.Elems[idx[0]] = v
		return c
	}
	c.Elems[idx[0]] = setPath(c.Elems[idx[0]], t.Field(idx[0]).Type, idx[1:], v)
	return c
}

// SetPath replaces the field at the index path in a struct description.
func SetPath(g GV, t reflect.Type, idx []int, v GV) GV { return setPath(g, t, idx, v) }

// GetPath reads the field at the index path.
func GetPath(g GV, idx []int) GV {
	for _, i := range idx {
		g = g.Elems[i]
	}
	return g
}

// FieldType is the type at the index path.
func FieldType(t reflect.Type, idx []int) reflect.Type {
	for t.Kind() == reflect.Ptr {
		t = t.Elem()
	}
	return t.FieldByIndex(idx).Type
}

func denoteStruct(v JV, t reflect.Type, path string) Den {
	if v.K != "obj" {
		return impossible("struct:" + v.K + ":" + v.S)
	}
	d := Den{St: Exact, Class: "struct:obj"}
	g := Zero(t)
	anyElem := false
	seen := map[string]bool{}
	for i, key := range v.Keys {
		idx := ResolveField(t, key)
		if idx == nil {
			return impossible("struct:no-such-field")
		}
		ft := FieldType(t, idx)
		ed := Denote(v.E[i], ft, path)
		merge(&d, ed)
		switch ed.St {
		case Impossible:
			return impossible("struct-field:"+ed.Class, d.Known...)
		case Any:
			anyElem = true
		}
		ik := fmt.Sprint(idx)
		if seen[ik] {
			d.St, d.MayFail = Any, true // two names for one field: order-dependent, not asserted
			anyElem = true
		}
		seen[ik] = true
		if ed.St == Exact {
			g = setPath(g, t, idx, ed.V)
		}
	}
	if anyElem {
		d.St, d.MayFail = Any, true
		return d
	}
	d.V = g
	return d
}

// ---- pre-bridged Go objects passed back as arguments ----------------------------------------------

// Fixture describes a Go object every runtime of the call facet has under the global name G_<name>.
type Fixture struct {
	Name string
	Make func() interface{}
}

// Fixtures are the bridged objects scripts can pass back into Go functions.
var Fixtures = []Fixture{
	{"ps", func() interface{} { s := NewS(); s.A, s.B, s.U8, s.In2.X = 41, "bee", 7, 3; return s }},
	{"vs", func() interface{} { s := NewS(); s.A, s.B, s.U8, s.In2.X = 41, "bee", 7, 3; return *s }},
	{"sli", func() interface{} { return []int{1, 2, 300} }},
	{"sli8", func() interface{} { return []int8{1, -2, 3} }},
	{"parr", func() interface{} { return &[3]int{4, 5, 6} }},
	{"msi", func() interface{} { return map[string]int{"a": 1, "b": 2} }},
	{"isl", func() interface{} { return IntSl{7, 8} }},
	// two distinct struct types that print the same name; the second is touched first in every runtime
	{"twb", func() interface{} {
		v := reflect.New(TypeOf("TwinB"))
		v.Elem().Field(1).SetString("bq")
		v.Elem().Field(3).SetInt(22)
		return v.Interface()
	}},
	{"twa", func() interface{} {
		v := reflect.New(TypeOf("TwinA"))
		v.Elem().Field(0).SetInt(11)
		v.Elem().Field(1).SetString("aq")
		return v.Interface()
	}},
}

func fixture(name string) (reflect.Value, bool) {
	for _, f := range Fixtures {
		if f.Name == name {
			return reflect.ValueOf(f.Make()), true
		}
	}
	return reflect.Value{}, false
}

func denoteGo(v JV, t reflect.Type) Den {
	fv, ok := fixture(strings.TrimPrefix(v.S, "go:"))
	if !ok {
		return anyDen("go:unknown")
	}
	ft := fv.Type()
	class := "go:" + ft.String() + ">" + t.String()
	switch {
	case ft == t || (t.Kind() == reflect.Interface && t.NumMethod() == 0):
		return Den{St: Exact, V: Describe(fv), MayFail: ft != t, Class: class}
	case ft.Kind() == reflect.Ptr && ft.Elem() == t: // *S where S is wanted: the pointee, or a refusal
		return Den{St: Exact, V: Describe(fv.Elem()), MayFail: true, Class: class, Known: []string{KGoToStruct}, Hard: true}
	case t.Kind() == reflect.Ptr && t.Elem() == ft: // S where *S is wanted: pointer to (a copy of) the contents
		return Den{St: Exact, V: Ptr(Describe(fv)), MayFail: true, Class: class}
	case t.Kind() == reflect.Struct: // any other bridged object where a struct is wanted
		if ft.Kind() == reflect.Slice || ft.Kind() == reflect.Array || (ft.Kind() == reflect.Ptr && ft.Elem().Kind() == reflect.Array) {
			return impossible(class)
		}
		return impossible(class, KGoToStruct)
	case t.Kind() == reflect.Slice && (ft.Kind() == reflect.Slice || (ft.Kind() == reflect.Ptr && ft.Elem().Kind() == reflect.Array)):
		// element-wise through the numeric rule
		src := fv
		if src.Kind() == reflect.Ptr {
			src = src.Elem()
		}
		if !IsNumeric(src.Type().Elem().Kind()) {
			return anyDen(class)
		}
		var e []JV
		for i := 0; i < src.Len(); i++ {
			var x float64
			if IsInt(src.Index(i).Kind()) {
				x = float64(src.Index(i).Int())
			} else if IsUint(src.Index(i).Kind()) {
				x = float64(src.Index(i).Uint())
			} else {
				x = src.Index(i).Float()
			}
			e = append(e, JNum(x, "lit"))
		}
		d := denoteList(JArr(e...), t, "call")
		d.MayFail = true
		d.Class = class
		return d
	}
	return anyDen(class)
}

// HasUnroundedGoInt: somewhere in the value there is a number carried as a Go int/int64/uint/uint64
// whose exact decimal text differs from ToString of the double it denotes (|v| > 2^53 and the
// shortest round-trip digits are fewer than the integer's).
func HasUnroundedGoInt(v JV) bool {
	if v.K == "num" {
		switch v.Form {
		case "go:int64", "go:uint64", "go:int", "go:uint":
			x := v.Float()
			return math.Abs(x) > 9007199254740992 && CanonFloat(x) != es5.NumberToString(x)
		}
		return false
	}
	for _, e := range v.E {
		if HasUnroundedGoInt(e) {
			return true
		}
	}
	return false
}

// IsInexactInt: a Go integer description that no double denotes (|v| > 2^53 and not a double).
func IsInexactInt(g GV) bool {
	if g.K != "num" {
		return false
	}
	i, ok := new(big.Int).SetString(g.N, 10)
	if !ok {
		return false
	}
	f, acc := new(big.Float).SetInt(i).Float64()
	return acc != big.Exact || math.IsInf(f, 0)
}
