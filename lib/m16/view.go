package m16

import (
	"encoding/json"
	"fmt"
	"math/big"
	"reflect"
	"sort"
	"strconv"
	"strings"
)

// ---- building Go values from descriptions (initial contents, Go-side mutations, return samples) ----

// Build constructs a Go value of type t holding the contents g describes. It panics on a
// description that does not fit the type (a malformed case, not a verdict about otto).
func Build(t reflect.Type, g GV) reflect.Value {
	v := reflect.New(t).Elem()
	fill(v, g)
	return v
}

func fill(v reflect.Value, g GV) {
	switch k := v.Kind(); {
	case g.K == "nil":
		v.Set(reflect.Zero(v.Type()))
	case k == reflect.Bool:
		v.SetBool(g.B)
	case IsInt(k):
		i, err := strconv.ParseInt(g.N, 10, 64)
		if err != nil || v.OverflowInt(i) {
			panic(fmt.Sprintf("m16.Build: %q does not fit %v", g.N, v.Type()))
		}
		v.SetInt(i)
	case IsUint(k):
		u, err := strconv.ParseUint(g.N, 10, 64)
		if err != nil || v.OverflowUint(u) {
			panic(fmt.Sprintf("m16.Build: %q does not fit %v", g.N, v.Type()))
		}
		v.SetUint(u)
	case IsFloat(k):
		v.SetFloat(ParseCanon(g.N))
	case k == reflect.String:
		v.SetString(g.S)
	case k == reflect.Slice:
		s := reflect.MakeSlice(v.Type(), len(g.Elems), len(g.Elems))
		for i, e := range g.Elems {
			fill(s.Index(i), e)
		}
		v.Set(s)
	case k == reflect.Array:
		for i, e := range g.Elems {
			fill(v.Index(i), e)
		}
	case k == reflect.Map:
		m := reflect.MakeMap(v.Type())
		for i, key := range g.Keys {
			kv := reflect.New(v.Type().Key()).Elem()
			if kv.Kind() == reflect.String {
				kv.SetString(key)
			} else {
				fill(kv, Num(key))
			}
			ev := reflect.New(v.Type().Elem()).Elem()
			fill(ev, g.Elems[i])
			m.SetMapIndex(kv, ev)
		}
		v.Set(m)
	case k == reflect.Struct:
		for i, name := range g.Keys {
			f := v.FieldByName(name)
			if !f.CanSet() { // unexported: written through its address
				f = reflect.NewAt(f.Type(), f.Addr().UnsafePointer()).Elem()
			}
			fill(f, g.Elems[i])
		}
	case k == reflect.Ptr:
		p := reflect.New(v.Type().Elem())
		if g.K == "ptr" {
			fill(p.Elem(), g.Elems[0])
		} else {
			fill(p.Elem(), g)
		}
		v.Set(p)
	case k == reflect.Interface:
		switch g.K {
		case "num":
			v.Set(reflect.ValueOf(ParseCanon(g.N)))
		case "str":
			v.Set(reflect.ValueOf(g.S))
		case "bool":
			v.Set(reflect.ValueOf(g.B))
		case "list":
			l := make([]interface{}, len(g.Elems))
			for i, e := range g.Elems {
				fill(reflect.ValueOf(&l[i]).Elem(), e)
			}
			v.Set(reflect.ValueOf(l))
		default:
			panic("m16.Build: cannot put " + g.K + " into an interface")
		}
	default:
		panic("m16.Build: unsupported kind " + k.String())
	}
}

// ParseCanon reads CanonFloat text back.
func ParseCanon(s string) float64 {
	switch s {
	case "NaN":
		return JV{N: "NaN"}.Float()
	case "+Inf":
		return JV{N: "Infinity"}.Float()
	case "-Inf":
		return JV{N: "-Infinity"}.Float()
	case "-0":
		return JV{N: "-0"}.Float()
	}
	f, err := strconv.ParseFloat(s, 64)
	if err != nil {
		panic("m16: bad canonical number " + s)
	}
	return f
}

// ---- the script's view ----------------------------------------------------------------------------

// JD is the description of a JavaScript value produced inside the script (helper __D):
// "u" (undefined or null), "fn", {"n":canon}, {"s":…}, {"b":…}, {"c":class,"a":[…]}, {"c":class,"o":[[key,JD]…]}.
type JD struct {
	Atom string // "u", "fn", "deep"
	N    *string
	S    *string
	B    *bool
	C    string
	A    []JD
	O    []JDPair
	IsA  bool
	IsO  bool
}

type JDPair struct {
	Key string
	Val JD
}

func (j *JD) UnmarshalJSON(b []byte) error {
	if len(b) > 0 && b[0] == '"' {
		return json.Unmarshal(b, &j.Atom)
	}
	var raw struct {
		N *string            `json:"n"`
		S *string            `json:"s"`
		B *bool              `json:"b"`
		C string             `json:"c"`
		A *[]JD              `json:"a"`
		O *[]json.RawMessage `json:"o"`
	}
	if err := json.Unmarshal(b, &raw); err != nil {
		return err
	}
	j.N, j.S, j.B, j.C = raw.N, raw.S, raw.B, raw.C
	if raw.A != nil {
		j.IsA, j.A = true, *raw.A
	}
	if raw.O != nil {
		j.IsO = true
		for _, p := range *raw.O {
			var pair []json.RawMessage
			if err := json.Unmarshal(p, &pair); err != nil || len(pair) != 2 {
				return fmt.Errorf("bad pair %s", p)
			}
			var jp JDPair
			if err := json.Unmarshal(pair[0], &jp.Key); err != nil {
				return err
			}
			if err := json.Unmarshal(pair[1], &jp.Val); err != nil {
				return err
			}
			j.O = append(j.O, jp)
		}
	}
	return nil
}

// ParseJD parses helper output.
func ParseJD(s string) (JD, error) {
	var j JD
	err := json.Unmarshal([]byte(s), &j)
	return j, err
}

// String renders a JD compactly for messages.
func (j JD) String() string {
	switch {
	case j.Atom != "":
		return j.Atom
	case j.N != nil:
		return "n:" + *j.N
	case j.S != nil:
		return "s:" + strconv.Quote(*j.S)
	case j.B != nil:
		return "b:" + strconv.FormatBool(*j.B)
	case j.IsA:
		var p []string
		for _, e := range j.A {
			p = append(p, e.String())
		}
		return j.C + "[" + strings.Join(p, ",") + "]"
	case j.IsO:
		var p []string
		for _, e := range j.O {
			p = append(p, e.Key+":"+e.Val.String())
		}
		return j.C + "{" + strings.Join(p, ",") + "}"
	}
	return "?"
}

// Get returns the value listed under key (objects).
func (j JD) Get(key string) (JD, bool) {
	for _, p := range j.O {
		if p.Key == key {
			return p.Val, true
		}
	}
	return JD{}, false
}

// KeyList lists the keys of an object description in enumeration order.
func (j JD) KeyList() []string {
	var k []string
	for _, p := range j.O {
		k = append(k, p.Key)
	}
	return k
}

// jsNumberOf: the canonical text of the JavaScript number that shows a Go number.
func jsNumberOf(canon string) string {
	if canon == "-0" {
		return canon
	}
	if i, ok := new(big.Int).SetString(canon, 10); ok {
		f, _ := new(big.Float).SetInt(i).Float64()
		return CanonFloat(f)
	}
	return canon
}

// ExportedFields lists the Go names of the exported fields of struct type t (declaration order).
func ExportedFields(t reflect.Type) []string {
	for t.Kind() == reflect.Ptr {
		t = t.Elem()
	}
	var out []string
	for i := 0; i < t.NumField(); i++ {
		if t.Field(i).PkgPath == "" {
			out = append(out, t.Field(i).Name)
		}
	}
	return out
}

// MethodNames lists the exported methods in the method set of t.
func MethodNames(t reflect.Type) []string {
	var out []string
	for i := 0; i < t.NumMethod(); i++ {
		out = append(out, t.Method(i).Name)
	}
	return out
}

// MatchJS checks that the script-side description j shows exactly the Go contents g of static
// type t. extra lists script-only properties (name -> expected description text) that may appear
// on the top-level object in addition. It returns "" or a mismatch.
func MatchJS(j JD, g GV, t reflect.Type, extra map[string]string) string {
	return matchJS(j, g, t, extra, "")
}

func matchJS(j JD, g GV, t reflect.Type, extra map[string]string, at string) string {
	bad := func(want string) string {
		return fmt.Sprintf("%s: script sees %s, Go holds %s (%s)", orTop(at), j.String(), g.Render(), want)
	}
	for t != nil && (t.Kind() == reflect.Ptr) && g.K == "ptr" {
		// the view of a pointer is the view of what it points to (methods of the pointer type)
		if t.Elem().Kind() == reflect.Struct {
			return matchStruct(j, g.Elems[0], t, extra, at)
		}
		g, t = g.Elems[0], t.Elem()
	}
	if t != nil && t.Kind() == reflect.Interface {
		t = nil
	}
	if t == nil && g.K == "ptr" { // a pointer held in an interface
		if g.Elems[0].K == "struct" {
			return matchStruct(j, g.Elems[0], reflect.PointerTo(TypeOf(g.Elems[0].T)), extra, at)
		}
		g = g.Elems[0]
	}
	switch g.K {
	case "nil":
		if j.Atom != "u" {
			// a nil slice / map shows as an empty container or as undefined
			if (j.IsA && len(j.A) == 0) || (j.IsO && len(j.O) == 0) {
				return ""
			}
			return bad("want undefined/null")
		}
	case "num":
		if j.N == nil || *j.N != jsNumberOf(g.N) {
			return bad("want number " + jsNumberOf(g.N))
		}
	case "str":
		if j.S == nil || *j.S != g.S {
			return bad("want string")
		}
	case "bool":
		if j.B == nil || *j.B != g.B {
			return bad("want boolean")
		}
	case "func":
		if j.Atom != "fn" {
			return bad("want function")
		}
	case "list":
		if j.Atom == "u" && len(g.Elems) == 0 {
			return "" // nil slice
		}
		if !j.IsA {
			return bad("want an array-like")
		}
		if len(j.A) != len(g.Elems) {
			return bad(fmt.Sprintf("want length %d", len(g.Elems)))
		}
		var et reflect.Type
		if t != nil && (t.Kind() == reflect.Slice || t.Kind() == reflect.Array) {
			et = t.Elem()
		}
		for i := range g.Elems {
			if m := matchJS(j.A[i], g.Elems[i], et, nil, at+"["+strconv.Itoa(i)+"]"); m != "" {
				return m
			}
		}
	case "map":
		if j.Atom == "u" && len(g.Keys) == 0 {
			return ""
		}
		if !j.IsO {
			return bad("want an object")
		}
		var et reflect.Type
		if t != nil && t.Kind() == reflect.Map {
			et = t.Elem()
		}
		want := map[string]GV{}
		for i, k := range g.Keys {
			want[k] = g.Elems[i]
		}
		return matchKeys(j, want, nil, et, extra, at, g)
	case "struct":
		return matchStruct(j, g, t, extra, at)
	default:
		return bad("unmodelled description " + g.K)
	}
	return ""
}

func orTop(at string) string {
	if at == "" {
		return "value"
	}
	return at
}

func matchStruct(j JD, g GV, t reflect.Type, extra map[string]string, at string) string {
	if !j.IsO {
		return fmt.Sprintf("%s: script sees %s, Go holds struct %s", orTop(at), j.String(), g.Render())
	}
	st := t
	if st == nil {
		st = TypeOf(g.T)
	}
	base := st
	for base.Kind() == reflect.Ptr {
		base = base.Elem()
	}
	want := map[string]GV{}
	types := map[string]reflect.Type{}
	for i, name := range g.Keys {
		f, _ := base.FieldByName(name)
		if f.PkgPath != "" {
			continue // unexported: must not appear
		}
		want[name] = g.Elems[i]
		types[name] = f.Type
	}
	methods := map[string]bool{}
	for _, m := range MethodNames(st) {
		methods[m] = true
	}
	return matchKeysT(j, want, methods, types, extra, at, g)
}

func matchKeys(j JD, want map[string]GV, methods map[string]bool, et reflect.Type, extra map[string]string, at string, g GV) string {
	types := map[string]reflect.Type{}
	for k := range want {
		types[k] = et
	}
	return matchKeysT(j, want, methods, types, extra, at, g)
}

func matchKeysT(j JD, want map[string]GV, methods map[string]bool, types map[string]reflect.Type, extra map[string]string, at string, g GV) string {
	seen := map[string]bool{}
	for _, p := range j.O {
		if seen[p.Key] {
			return fmt.Sprintf("%s: key %q is enumerated twice (script sees %s)", orTop(at), p.Key, j.String())
		}
		seen[p.Key] = true
		switch {
		case hasGV(want, p.Key):
			if m := matchJS(p.Val, want[p.Key], types[p.Key], nil, at+"."+p.Key); m != "" {
				return m
			}
		case methods[p.Key]:
			if p.Val.Atom != "fn" {
				return fmt.Sprintf("%s.%s: method shows as %s", orTop(at), p.Key, p.Val.String())
			}
		default:
			if exp, ok := extra[p.Key]; ok {
				if exp != "*" && p.Val.String() != exp {
					return fmt.Sprintf("%s.%s: script-only property shows %s, was set to %s", orTop(at), p.Key, p.Val.String(), exp)
				}
				continue
			}
			return fmt.Sprintf("%s: script enumerates key %q that the Go object does not have (Go holds %s)", orTop(at), p.Key, g.Render())
		}
	}
	var missing []string
	for k := range want {
		if !seen[k] {
			missing = append(missing, k)
		}
	}
	for k := range methods {
		if !seen[k] {
			missing = append(missing, k+"()")
		}
	}
	for k := range extra {
		if !seen[k] {
			missing = append(missing, k+" (script-only)")
		}
	}
	if len(missing) > 0 {
		sort.Strings(missing)
		return fmt.Sprintf("%s: script does not enumerate %v (script sees %s, Go holds %s)", orTop(at), missing, j.String(), g.Render())
	}
	return ""
}

func hasGV(m map[string]GV, k string) bool { _, ok := m[k]; return ok }

// JDOfJV is the description text (JD.String form) a primitive JavaScript value has; ok is false
// for objects.
func JDOfJV(v JV) (string, bool) {
	switch v.K {
	case "num":
		return "n:" + CanonFloat(v.Float()), true
	case "str":
		return "s:" + strconv.Quote(v.S), true
	case "bool":
		return "b:" + strconv.FormatBool(v.B), true
	case "null", "undef":
		return "u", true
	}
	return "", false
}
