package m16

import (
	"fmt"
	"math"
	"math/big"
	"reflect"
	"sort"
	"strconv"
	"strings"
)

// GV is the canonical description of a Go value: what a Go callee recorded, what a bridged
// container holds (read by reflection), or what the model says must have arrived.
// Numbers are described by their exact mathematical value, independent of the Go type that
// carries them (the static type is known from the signature).
type GV struct {
	K     string   `json:"k"`           // num | str | bool | nil | list | map | struct | ptr | func
	N     string   `json:"n,omitempty"` // num: canonical text (CanonInt / CanonFloat)
	S     string   `json:"s,omitempty"` // str
	B     bool     `json:"b,omitempty"` // bool
	T     string   `json:"t,omitempty"` // struct: Go type name ("S", "Inner")
	Keys  []string `json:"keys,omitempty"`
	Elems []GV     `json:"elems,omitempty"` // list elements | map values (parallel to Keys, sorted) | struct fields (parallel to Keys, declaration order) | ptr target
}

// CanonFloat is the canonical text of a double: integers in plain decimal (exact, any magnitude),
// "-0", "NaN", "+Inf", "-Inf", everything else in the shortest form that reads back exactly.
func CanonFloat(x float64) string {
	switch {
	case math.IsNaN(x):
		return "NaN"
	case math.IsInf(x, 1):
		return "+Inf"
	case math.IsInf(x, -1):
		return "-Inf"
	case x == 0 && math.Signbit(x):
		return "-0"
	case x == math.Trunc(x):
		i, _ := new(big.Float).SetFloat64(x).Int(nil)
		return i.String()
	}
	return strconv.FormatFloat(x, 'g', -1, 64)
}

// CanonInt is the canonical text of an integer.
func CanonInt(i *big.Int) string { return i.String() }

func Num(canon string) GV { return GV{K: "num", N: canon} }
func NumF(x float64) GV   { return GV{K: "num", N: CanonFloat(x)} }
func NumI(i int64) GV     { return GV{K: "num", N: strconv.FormatInt(i, 10)} }
func Str(s string) GV     { return GV{K: "str", S: s} }
func Bool(b bool) GV      { return GV{K: "bool", B: b} }
func Nil() GV             { return GV{K: "nil"} }
func List(e ...GV) GV     { return GV{K: "list", Elems: e} }
func Ptr(e GV) GV         { return GV{K: "ptr", Elems: []GV{e}} }
func (g GV) IsNil() bool  { return g.K == "nil" }
func (g GV) Len() int     { return len(g.Elems) }
func (g GV) Clone() GV {
	c := g
	c.Keys = append([]string(nil), g.Keys...)
	c.Elems = nil
	for _, e := range g.Elems {
		c.Elems = append(c.Elems, e.Clone())
	}
	return c
}

// MapOf builds a map description from unsorted pairs.
func MapOf(keys []string, vals []GV) GV {
	idx := make([]int, len(keys))
	for i := range idx {
		idx[i] = i
	}
	sort.SliceStable(idx, func(a, b int) bool { return keys[idx[a]] < keys[idx[b]] })
	g := GV{K: "map"}
	for _, i := range idx {
		g.Keys = append(g.Keys, keys[i])
		g.Elems = append(g.Elems, vals[i])
	}
	return g
}

// Field returns the description of a struct field or map entry.
func (g GV) Field(name string) (GV, bool) {
	for i, k := range g.Keys {
		if k == name && i < len(g.Elems) {
			return g.Elems[i], true
		}
	}
	return GV{}, false
}

// WithField returns a copy with the struct field / map entry replaced (maps: inserted in order).
func (g GV) WithField(name string, v GV) GV {
	c := g.Clone()
	for i, k := range c.Keys {
		if k == name {
			c.Elems[i] = v
			return c
		}
	}
	if c.K == "map" {
		keys := append(c.Keys, name)
		vals := append(c.Elems, v)
		m := MapOf(keys, vals)
		return m
	}
	return c
}

// WithoutField returns a copy of a map description without the entry.
func (g GV) WithoutField(name string) GV {
	c := GV{K: g.K, T: g.T}
	for i, k := range g.Keys {
		if k != name {
			c.Keys = append(c.Keys, k)
			c.Elems = append(c.Elems, g.Elems[i].Clone())
		}
	}
	return c
}

// Render is the compact comparable form.
func (g GV) Render() string {
	var b strings.Builder
	g.render(&b)
	return b.String()
}

func (g GV) render(b *strings.Builder) {
	switch g.K {
	case "num":
		b.WriteString(g.N)
	case "str":
		b.WriteString(strconv.Quote(g.S))
	case "bool":
		b.WriteString(strconv.FormatBool(g.B))
	case "nil":
		b.WriteString("nil")
	case "func":
		b.WriteString("func")
	case "list":
		b.WriteByte('[')
		for i, e := range g.Elems {
			if i > 0 {
				b.WriteByte(' ')
			}
			e.render(b)
		}
		b.WriteByte(']')
	case "ptr":
		b.WriteByte('&')
		if len(g.Elems) > 0 {
			g.Elems[0].render(b)
		}
	case "map", "struct":
		if g.K == "struct" {
			b.WriteString(g.T)
		}
		b.WriteByte('{')
		for i, k := range g.Keys {
			if i > 0 {
				b.WriteByte(' ')
			}
			b.WriteString(strconv.Quote(k))
			b.WriteByte(':')
			if i < len(g.Elems) {
				g.Elems[i].render(b)
			}
		}
		b.WriteByte('}')
	default:
		fmt.Fprintf(b, "?%s", g.K)
	}
}

// Equal compares two descriptions. A nil slice/map and an empty one are the same contents; so are
// a nil pointer/interface and "nil".
func (g GV) Equal(h GV) bool { return g.Render() == h.Render() }

// Describe reads a Go value by reflection (unexported struct fields included: they are part of
// the contents a Go observer sees).
func Describe(v reflect.Value) GV {
	if !v.IsValid() {
		return Nil()
	}
	switch k := v.Kind(); {
	case k == reflect.Bool:
		return Bool(v.Bool())
	case IsInt(k):
		return NumI(v.Int())
	case IsUint(k):
		return Num(strconv.FormatUint(v.Uint(), 10))
	case IsFloat(k):
		return NumF(v.Float()) // float32 widens exactly
	case k == reflect.String:
		return Str(v.String())
	case k == reflect.Slice || k == reflect.Array:
		g := GV{K: "list"}
		for i := 0; i < v.Len(); i++ {
			g.Elems = append(g.Elems, Describe(v.Index(i)))
		}
		return g
	case k == reflect.Map:
		var keys []string
		var vals []GV
		it := v.MapRange()
		for it.Next() {
			keys = append(keys, keyText(it.Key()))
			vals = append(vals, Describe(it.Value()))
		}
		return MapOf(keys, vals)
	case k == reflect.Struct:
		g := GV{K: "struct", T: NameOf(v.Type())}
		for i := 0; i < v.NumField(); i++ {
			g.Keys = append(g.Keys, v.Type().Field(i).Name)
			g.Elems = append(g.Elems, Describe(v.Field(i)))
		}
		return g
	case k == reflect.Ptr:
		if v.IsNil() {
			return Nil()
		}
		return Ptr(Describe(v.Elem()))
	case k == reflect.Interface:
		if v.IsNil() {
			return Nil()
		}
		return Describe(v.Elem())
	case k == reflect.Func:
		if v.IsNil() {
			return Nil()
		}
		return GV{K: "func"}
	}
	return GV{K: "opaque:" + v.Kind().String()}
}

func keyText(k reflect.Value) string {
	switch kk := k.Kind(); {
	case kk == reflect.String:
		return k.String()
	case IsInt(kk):
		return strconv.FormatInt(k.Int(), 10)
	case IsUint(kk):
		return strconv.FormatUint(k.Uint(), 10)
	}
	return fmt.Sprint(k)
}

// Zero describes the zero value of t.
func Zero(t reflect.Type) GV { return Describe(reflect.Zero(t)) }
