// Package m16 is the model side of property C16 (bridged Go functions and containers):
// the family of Go types that is bridged, a canonical description of Go values (read by
// reflection on the real side, built from the JavaScript value specification on the model side),
// JavaScript value specifications with their ES5 conversions, and the "exact denotation" of a
// JavaScript value in a Go type.
//
// Nothing here looks at what otto does: the denotation is derived from the JavaScript value and
// the Go type alone (math/big for numeric exactness, lib/es5 for ToNumber / ToString).
package m16

import (
	"fmt"
	"reflect"
	"sort"
)

// ---- the bridged struct family -------------------------------------------------------------------

// Inner is embedded in S (promoted field X) and used as a named field.
type Inner struct {
	X int
	Y string `json:"why"`
}

// S is the bridged struct: json tags, an embedded struct, an unexported field, a json:"-" field,
// every container kind as a field.
type S struct {
	A    int     `json:"a"`
	B    string  `json:"bee"`
	F    float32 `json:"f32,omitempty"`
	G    float64
	U8   uint8
	I16  int16 `json:"i16"`
	T    bool
	P    *int
	I    interface{}
	hid  int // never visible
	Skip int `json:"-"`
	Inner
	In2 Inner `json:"in2"`
	Sl  []int
	M   map[string]int
}

// HidSentinel is the value the unexported field carries in every test object: it must never show.
const HidSentinel = 770077

// Add is a pointer method: mutates the live object.
func (s *S) Add(x int) int { s.A += x; return s.A }

// Get is a value method: reads the live object.
func (s S) Get() string { return fmt.Sprintf("%d/%s", s.A, s.B) }

// Pair has multiple returns.
func (s S) Pair() (int, string) { return s.A, s.B }

// NewS returns a struct with the sentinel planted in the unexported field.
func NewS() *S { s := &S{}; s.hid = HidSentinel; return s }

// Outer is bridged by pointer; In is live Go memory reached as o.In, PI may be made to point at it.
type Outer struct {
	In Inner `json:"in"`
	PI *Inner
	N  int
}

// Holder is bridged by pointer; its fields are addressable containers reached as h.Items, h.Arr, h.Tab.
type Holder struct {
	Items []int
	Names []string
	Arr   [3]int
	Tab   map[string]int8
}

// twinA / twinB are two DISTINCT struct types with the same name (declared in different function
// scopes, so reflect.Type.String() is "m16.Twin" for both) that lay out the commonly named and
// tagged fields at different indices; Z exists only in the second.
func twinA() reflect.Type {
	type Twin struct {
		P int    `json:"p"`
		Q string `json:"q"`
		R int
	}
	return reflect.TypeOf(Twin{})
}

func twinB() reflect.Type {
	type Twin struct {
		Z bool
		Q string `json:"q"`
		R int
		P int `json:"p"`
	}
	return reflect.TypeOf(Twin{})
}

// Named types: kinds with a different name (reflect.Call needs the exact type).
type (
	MyInt   int16
	MyI64   int64
	MyU8    uint8
	MyF64   float64
	MyStr   string
	MyBool  bool
	IntSl   []int
	StrIntM map[string]int
	KStr    string // named key types
	KInt    int16
	MyU64   uint64
	MyUint  uint
	MyI8    int8
	MyF32   float32
)

// Nums is bridged by pointer: numeric fields of named types, unsigned 64-bit fields and pointers to numbers.
type Nums struct {
	ID MyU64 `json:"id"`
	U  uint64
	UI MyUint
	PU *uint64
	PI *int64
	I8 MyI8
	F  MyF32
	L  MyI64
}

// Hdr is a named map with methods whose names can collide with keys (like http.Header).
type Hdr map[string]string

func (h Hdr) Get(k string) string { return h[k] }
func (h Hdr) Len() int            { return len(h) }
func (h Hdr) Del(k string)        { delete(h, k) }

// Sum is a method on a bridged named slice: sees the live contents.
func (s IntSl) Sum() int {
	t := 0
	for _, v := range s {
		t += v
	}
	return t
}

// Total is a method on a bridged named map.
func (m StrIntM) Total() int {
	t := 0
	for _, v := range m {
		t += v
	}
	return t
}

// ---- type table ----------------------------------------------------------------------------------

var typeTable = map[string]reflect.Type{}
var typeNames []string
var nameOfType = map[reflect.Type]string{}

func reg(name string, sample interface{}) { regT(name, reflect.TypeOf(sample)) }

func regT(name string, t reflect.Type) {
	typeTable[name] = t
	typeNames = append(typeNames, name)
	if _, dup := nameOfType[t]; !dup {
		nameOfType[t] = name
	}
}

// NameOf is the table name of a struct type (distinguishes the two Twin types, whose Go names agree).
func NameOf(t reflect.Type) string {
	if n, ok := nameOfType[t]; ok {
		return n
	}
	return t.Name()
}

func init() {
	reg("int8", int8(0))
	reg("int16", int16(0))
	reg("int32", int32(0))
	reg("int64", int64(0))
	reg("int", int(0))
	reg("uint8", uint8(0))
	reg("uint16", uint16(0))
	reg("uint32", uint32(0))
	reg("uint64", uint64(0))
	reg("uint", uint(0))
	reg("float32", float32(0))
	reg("float64", float64(0))
	reg("string", "")
	reg("bool", false)
	regT("any", reflect.TypeOf((*interface{})(nil)).Elem())
	regT("error", reflect.TypeOf((*error)(nil)).Elem())
	reg("MyInt", MyInt(0))
	reg("MyI64", MyI64(0))
	reg("MyU8", MyU8(0))
	reg("MyF64", MyF64(0))
	reg("MyStr", MyStr(""))
	reg("MyBool", MyBool(false))
	reg("[]int", []int(nil))
	reg("[]int8", []int8(nil))
	reg("[]uint8", []uint8(nil))
	reg("[]uint16", []uint16(nil))
	reg("[]int64", []int64(nil))
	reg("[]float32", []float32(nil))
	reg("[]float64", []float64(nil))
	reg("[]string", []string(nil))
	reg("[]bool", []bool(nil))
	reg("[]any", []interface{}(nil))
	reg("[][]int", [][]int(nil))
	reg("[]Inner", []Inner(nil))
	reg("IntSl", IntSl(nil))
	reg("[3]int", [3]int{})
	reg("map[string]int", map[string]int(nil))
	reg("map[string]int8", map[string]int8(nil))
	reg("map[string]uint16", map[string]uint16(nil))
	reg("map[string]float32", map[string]float32(nil))
	reg("map[string]float64", map[string]float64(nil))
	reg("map[string]string", map[string]string(nil))
	reg("map[string]bool", map[string]bool(nil))
	reg("map[string]any", map[string]interface{}(nil))
	reg("map[string][]int", map[string][]int(nil))
	reg("map[int]string", map[int]string(nil))
	reg("map[int8]string", map[int8]string(nil))
	reg("map[uint16]int", map[uint16]int(nil))
	reg("map[int]int", map[int]int(nil))
	reg("StrIntM", StrIntM(nil))
	reg("Hdr", Hdr(nil))
	reg("MyU64", MyU64(0))
	reg("MyUint", MyUint(0))
	reg("MyI8", MyI8(0))
	reg("MyF32", MyF32(0))
	reg("Nums", Nums{})
	reg("*uint64", (*uint64)(nil))
	reg("*int64", (*int64)(nil))
	reg("*MyU64", (*MyU64)(nil))
	reg("[]MyU64", []MyU64(nil))
	reg("[]uint64", []uint64(nil))
	reg("map[uint64]string", map[uint64]string(nil))
	reg("map[int64]string", map[int64]string(nil))
	reg("map[uint32]int", map[uint32]int(nil))
	reg("map[uint]int", map[uint]int(nil))
	reg("map[string]MyU64", map[string]MyU64(nil))
	reg("map[KStr]int", map[KStr]int(nil))
	reg("map[KInt]string", map[KInt]string(nil))
	reg("map[KStr]MyStr", map[KStr]MyStr(nil))
	reg("map[string]MyInt", map[string]MyInt(nil))
	reg("[]MyInt", []MyInt(nil))
	reg("S", S{})
	reg("*S", (*S)(nil))
	reg("Inner", Inner{})
	reg("Holder", Holder{})
	reg("Outer", Outer{})
	regT("TwinA", twinA())
	regT("TwinB", twinB())
	regT("*TwinA", reflect.PointerTo(twinA()))
	regT("*TwinB", reflect.PointerTo(twinB()))
	reg("*Inner", (*Inner)(nil))
	reg("*int", (*int)(nil))
	reg("*int8", (*int8)(nil))
	reg("*string", (*string)(nil))
	reg("*float32", (*float32)(nil))
	reg("*[3]int", (*[3]int)(nil))
	reg("*[4]int", (*[4]int)(nil))
	reg("*[3]int8", (*[3]int8)(nil))
	reg("*[3]string", (*[3]string)(nil))
	reg("*[3]float32", (*[3]float32)(nil))
	reg("func(int)int", (func(int) int)(nil))
	reg("func(int8)int8", (func(int8) int8)(nil))
	reg("func(string)string", (func(string) string)(nil))
	reg("func(float64)float32", (func(float64) float32)(nil))
	reg("func()", (func())(nil))
	reg("func(int)(int,string)", (func(int) (int, string))(nil))
	sort.Strings(typeNames)
}

// TypeOf resolves a type name of the table; it panics on an unknown name (a malformed case).
func TypeOf(name string) reflect.Type {
	t, ok := typeTable[name]
	if !ok {
		panic("m16: unknown type name " + name)
	}
	return t
}

// TypeNames lists the table (sorted).
func TypeNames() []string { return typeNames }

// IsInt / IsUint / IsFloat classify kinds.
func IsInt(k reflect.Kind) bool {
	return k == reflect.Int || k == reflect.Int8 || k == reflect.Int16 || k == reflect.Int32 || k == reflect.Int64
}
func IsUint(k reflect.Kind) bool {
	return k == reflect.Uint || k == reflect.Uint8 || k == reflect.Uint16 || k == reflect.Uint32 || k == reflect.Uint64
}
func IsFloat(k reflect.Kind) bool { return k == reflect.Float32 || k == reflect.Float64 }
func IsNumeric(k reflect.Kind) bool {
	return IsInt(k) || IsUint(k) || IsFloat(k)
}
