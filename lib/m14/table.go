// Package m14 holds the reference side of property C14: the shape of the ES5.1 standard library
// (ECMA-262 5.1 edition, clause 15 and annex B.2), typed in from the specification text, and the
// JavaScript probes that observe the same facts in a runtime under test.
//
// Nothing in this package is derived from otto: rows come from the clause named in Row.Ref.
// General rules of clause 15 that the helpers below apply to every row:
//
//   - "every built-in Function object described in this clause - whether as a constructor, an
//     ordinary function, or both - has a length property whose value is an integer. Unless
//     otherwise specified, this value is equal to the largest number of named arguments shown in
//     the subclause headings for the function description, including optional parameters."
//     "In every case, the length property of a built-in Function object described in this clause
//     has the attributes { [[Writable]]: false, [[Enumerable]]: false, [[Configurable]]: false }."
//   - "Every other property described in this clause has the attributes { [[Writable]]: true,
//     [[Enumerable]]: false, [[Configurable]]: true } unless otherwise specified."
//   - "Every built-in function and every built-in constructor has the Function prototype object
//     [...] as the value of its [[Prototype]] internal property", [[Class]] "Function".
//   - "None of the built-in functions described in this clause that are not constructors shall
//     implement the [[Construct]] internal method unless otherwise specified", and "none [...]
//     shall have a prototype property unless otherwise specified".
//   - Unless specified otherwise the [[Extensible]] internal property of a built-in object is true.
package m14

import "sort"

// Kind of a property row.
const (
	KFunction    = "function"    // built-in function that is not a constructor
	KConstructor = "constructor" // built-in function with [[Construct]] and a prototype property
	KNumber      = "number"
	KString      = "string"
	KBoolean     = "boolean"
	KUndefined   = "undefined"
	KObject      = "object"      // a non-callable object (Value names which one)
	KCallable    = "callable"    // some function object (not a built-in: no built-in function facts apply)
	KAbsent      = "absent"      // ES5 says the owner has NO such own property
	KThrower     = "thrower"     // accessor whose get and set are the [[ThrowTypeError]] function (13.2.3)
	AttrsAny     = "unspecified" // attributes not fixed by ES5.1
	attrsMethod  = "W-C"         // writable, non-enumerable, configurable
	attrsConst   = "---"         // non-writable, non-enumerable, non-configurable
	attrsLength  = "W--"         // array length / lastIndex / function prototype
	attrsElement = "WEC"         // array element / arguments element
	attrsStrIdx  = "-E-"         // String object index property (15.5.5.2)
)

// Row is one (owner, property) fact of ES5.1.
type Row struct {
	Owner string `json:"owner"` // JavaScript expression denoting the owner object; G is the global object
	Name  string `json:"name"`
	Kind  string `json:"kind"`
	Attrs string `json:"attrs"`           // "W-C" style: Writable, Enumerable, Configurable; "any" = not fixed by ES5.1
	Len   int    `json:"len"`             // function length (functions only; the length *property* has its own derived row)
	Value string `json:"value,omitempty"` // JS expression the value must be the SameValue of (constants, links)
	Call  string `json:"call,omitempty"`  // distinguishing call: JS expression that must evaluate to true
	Ref   string `json:"ref"`             // ES5.1 clause
	Inst  bool   `json:"inst,omitempty"`  // Owner is an instance created for the probe (clause 15.x.5, 10.6, 13.2)
}

// Key identifies the row.
func (r Row) Key() string { return r.Owner + "." + r.Name }

// ObjRow is one built-in object (or instance) with its internal properties.
type ObjRow struct {
	Path     string `json:"path"`  // JS expression
	Class    string `json:"class"` // [[Class]] ("" = implementation-defined: the global object)
	Proto    string `json:"proto"` // JS expression of [[Prototype]] ("null"; "" = implementation-defined)
	Callable bool   `json:"callable"`
	Check    string `json:"check,omitempty"` // further fact about the object (primitive value, behaviour), must be true
	Ref      string `json:"ref"`
	Inst     bool   `json:"inst,omitempty"`
}

// Ext is an extension that ES5.1 does not list. It may be present (clause 16 allows additional
// properties) but must be non-enumerable; when present under a well-known later-edition name it
// must be bound to the operation of that name (the property's "bound to the operation of that
// name" clause applies to every named built-in).
type Ext struct {
	Owner string `json:"owner"`
	Name  string `json:"name"`
	Call  string `json:"call"`
	Ref   string `json:"ref"`
}

var (
	rows    []Row
	objRows []ObjRow
	exts    []Ext
)

func add(r Row) { rows = append(rows, r) }

// fn adds a non-constructor built-in function and the derived row of its length property.
func fn(owner, name string, length int, ref, call string) {
	add(Row{Owner: owner, Name: name, Kind: KFunction, Attrs: attrsMethod, Len: length, Call: call, Ref: ref})
	add(Row{Owner: owner + "." + name, Name: "length", Kind: KNumber, Attrs: attrsConst, Value: itoa(length), Ref: ref + " + 15 (length)"})
}

// ctor adds a built-in constructor binding on the global object, its length row and the
// ctor.prototype row (non-writable, non-enumerable, non-configurable in every 15.x.3.1).
func ctor(name string, length int, ref, protoRef, call string) {
	add(Row{Owner: "G", Name: name, Kind: KConstructor, Attrs: attrsMethod, Len: length, Call: call, Ref: ref})
	add(Row{Owner: name, Name: "length", Kind: KNumber, Attrs: attrsConst, Value: itoa(length), Ref: ref + " + 15 (length)"})
	protoKind := KObject
	if name == "Function" {
		protoKind = KCallable // 15.3.4: the Function prototype object is itself a Function object
	}
	add(Row{Owner: name, Name: "prototype", Kind: protoKind, Attrs: attrsConst, Value: "Object.getPrototypeOf(new " + name + "())", Ref: protoRef,
		Call: name + ".prototype.constructor===" + name})
	// X.prototype.constructor: "The initial value of X.prototype.constructor is the standard built-in X constructor."
	add(Row{Owner: name + ".prototype", Name: "constructor", Kind: KConstructor, Attrs: attrsMethod, Len: length, Value: name, Ref: protoRef + " (prototype.constructor)"})
}

// konst adds a constant: non-writable, non-enumerable, non-configurable.
func konst(owner, name, kind, value, ref string) {
	add(Row{Owner: owner, Name: name, Kind: kind, Attrs: attrsConst, Value: value, Ref: ref})
}

// data adds a data property with explicit attributes.
func data(owner, name, kind, attrs, value, ref string) {
	add(Row{Owner: owner, Name: name, Kind: kind, Attrs: attrs, Value: value, Ref: ref})
}

// inst adds a property of an instance created for the probe.
func inst(owner, name, kind, attrs, value, ref string) {
	add(Row{Owner: owner, Name: name, Kind: kind, Attrs: attrs, Value: value, Ref: ref, Inst: true})
}

func obj(path, class, proto string, callable bool, ref, check string) {
	objRows = append(objRows, ObjRow{Path: path, Class: class, Proto: proto, Callable: callable, Ref: ref, Check: check})
}

func objInst(path, class, proto string, callable bool, ref, check string) {
	objRows = append(objRows, ObjRow{Path: path, Class: class, Proto: proto, Callable: callable, Ref: ref, Check: check, Inst: true})
}

func ext(owner, name, ref, call string) {
	exts = append(exts, Ext{Owner: owner, Name: name, Call: call, Ref: ref})
}

func itoa(n int) string {
	if n == 0 {
		return "0"
	}
	s := ""
	for n > 0 {
		s = string(rune('0'+n%10)) + s
		n /= 10
	}
	return s
}

// Rows returns the ES5.1 property table (a copy, in table order).
func Rows() []Row { return append([]Row(nil), rows...) }

// Objects returns the ES5.1 object table.
func Objects() []ObjRow { return append([]ObjRow(nil), objRows...) }

// Extensions returns the table of tolerated non-ES5 members with a de-facto meaning.
func Extensions() []Ext { return append([]Ext(nil), exts...) }

// FindRow looks a row up by owner expression and name.
func FindRow(owner, name string) (Row, bool) {
	for _, r := range rows {
		if r.Owner == owner && r.Name == name {
			return r, true
		}
	}
	return Row{}, false
}

// FindObj looks an object row up by its path expression.
func FindObj(path string) (ObjRow, bool) {
	for _, o := range objRows {
		if o.Path == path {
			return o, true
		}
	}
	return ObjRow{}, false
}

// FindExt looks an extension up.
func FindExt(owner, name string) (Ext, bool) {
	for _, e := range exts {
		if e.Owner == owner && e.Name == name {
			return e, true
		}
	}
	return Ext{}, false
}

// Owners lists the built-in (non-instance) owner expressions of the table with the names ES5.1
// specifies for each, sorted; used to tell specified members from extras.
func Owners() (owners []string, names map[string]map[string]bool) {
	names = map[string]map[string]bool{}
	for _, r := range rows {
		if r.Inst {
			continue
		}
		if names[r.Owner] == nil {
			names[r.Owner] = map[string]bool{}
			owners = append(owners, r.Owner)
		}
		if r.Kind != KAbsent {
			names[r.Owner][r.Name] = true
		}
	}
	sort.Strings(owners)
	return owners, names
}
