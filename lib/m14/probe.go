package m14

import (
	"fmt"
	"sort"
	"strconv"
	"strings"
)

// The probes are ES5 programs. Each is one expression that evaluates to a string; the global
// object is passed in as G. Observations are "key=value" pairs joined by U+0001.
//
// Only the observation points the property names are used: Object.getOwnPropertyDescriptor,
// typeof, .length, Object.prototype.toString.call, Object.getPrototypeOf (plus hasOwnProperty /
// propertyIsEnumerable / [[Get]] as cross-checks of the same facts).

const sep = "\u0001"

const prelude = `var gopd=Object.getOwnPropertyDescriptor,gopn=Object.getOwnPropertyNames,gpo=Object.getPrototypeOf,ots=Object.prototype.toString,hop=Object.prototype.hasOwnProperty,pie=Object.prototype.propertyIsEnumerable,FP=Function.prototype;
function isObj(v){return v!==null&&(typeof v==="object"||typeof v==="function")}
function prim(v){if(typeof v==="number"){if(v!==v)return "number:NaN";if(v===0)return 1/v<0?"number:-0":"number:0";return "number:"+String(v)}if(typeof v==="string")return "string:"+JSON.stringify(v);return typeof v+":"+String(v)}
function same(a,b){if(a===b)return a!==0||1/a===1/b;return a!==a&&b!==b}
function cls(v){return ots.call(v).slice(8,-1)}
function tte(f){try{f();return "no-throw"}catch(e){return (e instanceof TypeError)?"TypeError":"other:"+e}}
var out=[];function put(k,v){out.push(k+"="+v)}
`

// JSStr renders s as a JavaScript string literal (ASCII only in the table).
func JSStr(s string) string { return strconv.Quote(s) }

// RowProbe builds the observation program of a property row.
func RowProbe(r Row) string {
	value, hasValue := r.Value, "true"
	if value == "" {
		value, hasValue = "void 0", "false"
	}
	call := r.Call
	if call == "" {
		call = "true"
	}
	construct := "false"
	if r.Kind == KFunction {
		construct = "true"
	}
	return `(function(G){` + prelude + `
var O;try{O=(` + r.Owner + `)}catch(e){return "owner=throws:"+e}
if(!isObj(O))return "owner=not-object:"+typeof O;
var n=` + JSStr(r.Name) + `;
var d=gopd(O,n);
put("has",hop.call(O,n));
put("desc",d===undefined?"none":(("value" in d)||("writable" in d))?"data":"accessor");
if(d!==undefined){
 put("attrs",(d.writable?"W":"-")+(d.enumerable?"E":"-")+(d.configurable?"C":"-"));
 put("pie",pie.call(O,n));
 if(("value" in d)||("writable" in d)){
  var v=d.value;
  put("get",same(O[n],v));
  put("type",typeof v);
  put("repr",isObj(v)?cls(v):prim(v));
  if(` + hasValue + `){try{put("same",same(v,(` + value + `)))}catch(e){put("same","throws:"+e)}}
  if(typeof v==="function"){
   put("fnproto",gpo(v)===FP);
   put("fnext",Object.isExtensible(v));
   put("fnownproto",hop.call(v,"prototype"));
   var ld=gopd(v,"length");put("fnlen",ld?prim(ld.value):"none");
   if(` + construct + `){put("construct",tte(function(){new v()}))}
  }
 }else{
  put("gettype",typeof d.get);put("settype",typeof d.set);
  put("getthrows",typeof d.get==="function"?tte(function(){d.get.call(O)}):"n/a");
  put("setthrows",typeof d.set==="function"?tte(function(){d.set.call(O,1)}):"n/a");
  put("readthrows",tte(function(){return O[n]}));
 }
}
try{put("call",String((function(){return (` + call + `)}).call(G)))}catch(e){put("call","throws:"+e)}
return out.join("\u0001");
})(this)`
}

// ObjProbe builds the observation program of an object row.
func ObjProbe(o ObjRow) string {
	proto := o.Proto
	if proto == "" {
		proto = "void 0"
	}
	check := o.Check
	if check == "" {
		check = "true"
	}
	return `(function(G){` + prelude + `
var O;try{O=(` + o.Path + `)}catch(e){return "owner=throws:"+e}
if(!isObj(O))return "owner=not-object:"+typeof O;
put("type",typeof O);
put("class",cls(O));
put("ext",Object.isExtensible(O));
var p=gpo(O);
put("protonull",p===null);
try{put("proto",p===(` + proto + `))}catch(e){put("proto","throws:"+e)}
try{put("check",String((function(){return (` + check + `)}).call(G)))}catch(e){put("check","throws:"+e)}
return out.join("\u0001");
})(this)`
}

// ExtProbe builds the observation program of an extension row.
func ExtProbe(e Ext) string {
	return `(function(G){` + prelude + `
var O;try{O=(` + e.Owner + `)}catch(e){return "owner=throws:"+e}
var d=gopd(O,` + JSStr(e.Name) + `);
if(d===undefined)return "present=false";
put("present",true);put("type",typeof d.value);put("enum",!!d.enumerable);put("pie",pie.call(O,` + JSStr(e.Name) + `));
try{put("call",String((function(){return (` + e.Call + `)}).call(G)))}catch(e){put("call","throws:"+e)}
return out.join("\u0001");
})(this)`
}

// OwnProbe lists the own properties of an owner: one "name attrs pie typeof" record (fields joined
// by U+0002) per property, records joined by U+0001.
func OwnProbe(owner string) string {
	return `(function(G){` + prelude + `
var O;try{O=(` + owner + `)}catch(e){return "owner=throws:"+e}
var ns=gopn(O),r=[];
for(var i=0;i<ns.length;i++){var d=gopd(O,ns[i]);r.push([ns[i],(d.writable?"W":"-")+(d.enumerable?"E":"-")+(d.configurable?"C":"-"),String(pie.call(O,ns[i])),("value" in d)?typeof d.value:"accessor"].join("\u0002"))}
return "names="+r.join("\u0003");
})(this)`
}

// ForInProbe enumerates subject with for-in; names joined by U+0002.
func ForInProbe(subject string) string {
	return `(function(G){var r=[];var S;try{S=(` + subject + `)}catch(e){return "subject=throws:"+e}
for(var k in S){r.push(k)}
return "keys="+r.join("\u0002");
})(this)`
}

// BehaviourProbe observes the attributes of a row through behaviour instead of through the
// descriptor: for-in (Enumerable), assignment (Writable), delete (Configurable). It mutates the
// runtime: run it on a disposable one.
func BehaviourProbe(r Row) string {
	sentinel := "({})"
	if r.Kind == KNumber {
		sentinel = "(O[n]===7?8:7)" // a valid array length that differs from the current value
	}
	return `(function(G){var gopd=Object.getOwnPropertyDescriptor;
var O;try{O=(` + r.Owner + `)}catch(e){return "owner=throws:"+e}
var n=` + JSStr(r.Name) + `,out="";
if(gopd(O,n)===undefined)return "has=false";
var seen=false;for(var k in O){if(k===n)seen=true}
out+="has=true` + sep + `E="+seen;
var s=` + sentinel + `,wrote;
try{O[n]=s;wrote=""+(O[n]===s)}catch(e){wrote="throws:"+e}
out+="` + sep + `W="+wrote;
var del;try{del=""+(delete O[n])}catch(e){del="throws:"+e}
out+="` + sep + `D="+del+"` + sep + `gone="+(gopd(O,n)===undefined);
return out;
})(this)`
}

// Obs is a decoded observation.
type Obs map[string]string

// ParseObs decodes the "k=v" U+0001-joined observation string.
func ParseObs(s string) Obs {
	o := Obs{}
	for _, kv := range strings.Split(s, sep) {
		if i := strings.IndexByte(kv, '='); i >= 0 {
			o[kv[:i]] = kv[i+1:]
		}
	}
	return o
}

// Mismatch is one aspect of a row that differs from ES5.1.
type Mismatch struct {
	Aspect string
	Want   string
	Got    string
}

func (m Mismatch) String() string {
	return fmt.Sprintf("%s: ES5.1 %s, got %s", m.Aspect, m.Want, m.Got)
}

type cmp struct{ out []Mismatch }

func (c *cmp) eq(aspect, want, got string) {
	if want != got {
		c.out = append(c.out, Mismatch{aspect, want, got})
	}
}

func boolStr(b bool) string {
	if b {
		return "true"
	}
	return "false"
}

// CompareRow compares an observation with the row. The aspects are named so that a known finding
// can name exactly what it affects.
func CompareRow(r Row, o Obs) []Mismatch {
	c := &cmp{}
	if v, bad := o["owner"]; bad {
		return []Mismatch{{"owner", "an object", v}}
	}
	if r.Kind == KAbsent {
		c.eq("present", "no own property", map[string]string{"none": "no own property", "data": "own data property", "accessor": "own accessor property"}[o["desc"]])
		if r.Call != "" {
			c.eq("call", "true", o["call"])
		}
		return c.out
	}
	if o["desc"] == "none" || o["has"] != "true" {
		return []Mismatch{{"present", "own property", "desc=" + o["desc"] + " hasOwnProperty=" + o["has"]}}
	}
	if r.Kind == KThrower {
		c.eq("descriptor-kind", "accessor", o["desc"])
		if o["desc"] == "accessor" {
			c.eq("attrs", r.Attrs, o["attrs"])
			c.eq("get", "function throwing TypeError", o["gettype"]+" throwing "+o["getthrows"])
			c.eq("set", "function throwing TypeError", o["settype"]+" throwing "+o["setthrows"])
			c.eq("read", "TypeError", o["readthrows"])
		}
		return c.out
	}
	c.eq("descriptor-kind", "data", o["desc"])
	if o["desc"] != "data" {
		return c.out
	}
	if r.Attrs != AttrsAny {
		c.eq("attrs", r.Attrs, o["attrs"])
	}
	if len(o["attrs"]) == 3 {
		c.eq("propertyIsEnumerable", boolStr(o["attrs"][1] == 'E'), o["pie"])
	}
	c.eq("get", "true", o["get"])
	wantType := r.Kind
	switch r.Kind {
	case KFunction, KConstructor, KCallable:
		wantType = "function"
	}
	c.eq("typeof", wantType, o["type"])
	switch r.Kind {
	case KFunction, KConstructor, KCallable:
		c.eq("class", "Function", o["repr"])
	}
	if r.Value != "" {
		if o["same"] != "true" {
			c.out = append(c.out, Mismatch{"value", "SameValue(" + r.Value + ")", o["repr"] + " (same=" + o["same"] + ")"})
		}
	}
	if (r.Kind == KFunction || r.Kind == KConstructor) && o["type"] == "function" {
		c.eq("fn-proto", "Function.prototype", map[string]string{"true": "Function.prototype", "false": "another object"}[o["fnproto"]])
		c.eq("fn-extensible", "true", o["fnext"])
		c.eq("fn-own-prototype", boolStr(r.Kind == KConstructor), o["fnownproto"])
		c.eq("fn-length", "number:"+itoa(r.Len), o["fnlen"])
		if r.Kind == KFunction {
			c.eq("fn-construct", "TypeError", o["construct"])
		}
	}
	if r.Call != "" {
		c.eq("call", "true", o["call"])
	}
	return c.out
}

// CompareObj compares an object observation with its row.
func CompareObj(r ObjRow, o Obs) []Mismatch {
	c := &cmp{}
	if v, bad := o["owner"]; bad {
		return []Mismatch{{"owner", "an object", v}}
	}
	want := "object"
	if r.Callable {
		want = "function"
	}
	c.eq("typeof", want, o["type"])
	if r.Class != "" {
		c.eq("class", r.Class, o["class"])
	}
	c.eq("extensible", "true", o["ext"])
	switch r.Proto {
	case "":
	case "null":
		c.eq("proto", "null", map[string]string{"true": "null", "false": "an object"}[o["protonull"]])
	default:
		if o["proto"] != "true" {
			c.out = append(c.out, Mismatch{"proto", r.Proto, "another value (identical=" + o["proto"] + ", null=" + o["protonull"] + ")"})
		}
	}
	if r.Check != "" {
		c.eq("check", "true", o["check"])
	}
	return c.out
}

// CompareBehaviour compares the behavioural observation with the row's attributes.
func CompareBehaviour(r Row, o Obs) []Mismatch {
	c := &cmp{}
	if v, bad := o["owner"]; bad {
		return []Mismatch{{"owner", "an object", v}}
	}
	if o["has"] != "true" {
		return []Mismatch{{"present", "own property", "absent"}}
	}
	if len(r.Attrs) != 3 {
		return nil
	}
	c.eq("for-in shows it", boolStr(r.Attrs[1] == 'E'), o["E"])
	c.eq("assignment takes effect", boolStr(r.Attrs[0] == 'W'), o["W"])
	c.eq("delete returns", boolStr(r.Attrs[2] == 'C'), o["D"])
	c.eq("gone after delete", boolStr(r.Attrs[2] == 'C'), o["gone"])
	return c.out
}

// OwnProp is one record of OwnProbe.
type OwnProp struct {
	Name, Attrs, PIE, Type string
}

// ParseOwn decodes OwnProbe output (sorted by name).
func ParseOwn(s string) ([]OwnProp, error) {
	if !strings.HasPrefix(s, "names=") {
		return nil, fmt.Errorf("%s", s)
	}
	s = strings.TrimPrefix(s, "names=")
	var out []OwnProp
	if s == "" {
		return out, nil
	}
	for _, rec := range strings.Split(s, "\u0003") {
		f := strings.Split(rec, "\u0002")
		if len(f) != 4 {
			return nil, fmt.Errorf("bad record %q", rec)
		}
		out = append(out, OwnProp{f[0], f[1], f[2], f[3]})
	}
	sort.Slice(out, func(i, j int) bool { return out[i].Name < out[j].Name })
	return out, nil
}

// ParseKeys decodes ForInProbe output (sorted).
func ParseKeys(s string) ([]string, error) {
	if !strings.HasPrefix(s, "keys=") {
		return nil, fmt.Errorf("%s", s)
	}
	s = strings.TrimPrefix(s, "keys=")
	if s == "" {
		return []string{}, nil
	}
	k := strings.Split(s, "\u0002")
	sort.Strings(k)
	return k, nil
}

// DumpJS walks every object reachable from the global object through own properties (data values,
// getters, setters) and [[Prototype]] links, breadth first, and prints one OBJ line per object and
// one PROP line per own property (names sorted). Objects are named by the first path that reached
// them. A global property named "_" (underscore.js) is not followed: it is reported as SKIP.
const DumpJS = `(function(global){
var gopd=Object.getOwnPropertyDescriptor,gopn=Object.getOwnPropertyNames,gpo=Object.getPrototypeOf,ots=Object.prototype.toString,fts=Function.prototype.toString;
var seen=[],paths=[],queue=[],lines=[];
function idOf(o){for(var i=0;i<seen.length;i++)if(seen[i]===o)return i;return -1}
function visit(o,path){var i=idOf(o);if(i>=0)return paths[i];seen.push(o);paths.push(path);queue.push(o);return path}
function isObj(v){return v!==null&&(typeof v==="object"||typeof v==="function")}
function prim(v){if(typeof v==="number"){if(v!==v)return "number:NaN";if(v===0)return 1/v<0?"number:-0":"number:0";return "number:"+String(v)}if(typeof v==="string")return "string:"+JSON.stringify(v);return typeof v+":"+String(v)}
visit(global,"global");
while(queue.length){
 var o=queue.shift(),p=paths[idOf(o)],proto=gpo(o);
 var head="OBJ "+p+" class="+ots.call(o).slice(8,-1)+" typeof="+typeof o+" ext="+Object.isExtensible(o)+" proto="+(proto===null?"null":visit(proto,p+".[[Prototype]]"));
 if(typeof o==="function"){var src;try{src=fts.call(o)}catch(e){src="throws:"+e}head+=" src="+JSON.stringify(src)}
 lines.push(head);
 var names=gopn(o).slice().sort();
 for(var k=0;k<names.length;k++){var n=names[k];
  if(o===global&&n==="_"){lines.push("SKIP global._");continue}
  var d=gopd(o,n),a,desc;
  if(("value" in d)||("writable" in d)){a=(d.writable?"W":"-")+(d.enumerable?"E":"-")+(d.configurable?"C":"-");desc=isObj(d.value)?"->"+visit(d.value,p+"."+n):prim(d.value)}
  else{a="a"+(d.enumerable?"E":"-")+(d.configurable?"C":"-");desc="get="+(isObj(d.get)?"->"+visit(d.get,p+"."+n+".[[Get]]"):String(d.get))+" set="+(isObj(d.set)?"->"+visit(d.set,p+"."+n+".[[Set]]"):String(d.set))}
  lines.push("PROP "+p+"."+n+" "+a+" "+desc);
 }
}
return lines.join("\n");
})(this)`
