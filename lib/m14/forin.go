package m14

// ForIn is one subject of the enumerability facet: a for-in over Subject must visit exactly the
// names in Want (12.6.4: enumerable properties, own and inherited), in any order, each once.
type ForIn struct {
	Subject string   `json:"subject"` // JS expression (G = global object)
	Want    []string `json:"want"`
	May     []string `json:"may,omitempty"` // names whose enumerability ES5.1 leaves open
	Ref     string   `json:"ref"`
}

// ForInSubjects returns the subjects: ordinary objects, arrays, strings, functions, wrappers,
// dates, regexps, errors, arguments, results of built-ins, and every built-in object of the table.
func ForInSubjects() []ForIn {
	s := []ForIn{
		{Subject: `({})`, Want: nil, Ref: "11.1.5"},
		{Subject: `({a:1,b:2})`, Want: []string{"a", "b"}, Ref: "11.1.5"},
		{Subject: `new Object()`, Want: nil, Ref: "15.2.2.1"},
		{Subject: `Object.create(null)`, Want: nil, Ref: "15.2.3.5"},
		{Subject: `Object.create({x:1})`, Want: []string{"x"}, Ref: "12.6.4 (inherited user property)"},
		{Subject: `(function(){function C(){this.own=1} C.prototype.inh=2; return new C()})()`, Want: []string{"inh", "own"}, Ref: "13.2 (constructor is non-enumerable)"},
		{Subject: `[]`, Want: nil, Ref: "15.4.5.2"},
		{Subject: `[7,8]`, Want: []string{"0", "1"}, Ref: "11.1.4"},
		{Subject: `new Array(3)`, Want: nil, Ref: "15.4.2.2"},
		{Subject: `(function(){var a=[7];a.x=1;return a})()`, Want: []string{"0", "x"}, Ref: "15.4.5"},
		{Subject: `"ab"`, Want: []string{"0", "1"}, Ref: "12.6.4 step 3 ToObject + 15.5.5.2"},
		{Subject: `new String("ab")`, Want: []string{"0", "1"}, Ref: "15.5.5.2"},
		{Subject: `(function(){var s=new String("ab");s.x=1;return s})()`, Want: []string{"0", "1", "x"}, Ref: "15.5.5.2"},
		{Subject: `new String("")`, Want: nil, Ref: "15.5.5.1"},
		{Subject: `(function(a,b){})`, Want: nil, Ref: "13.2"},
		{Subject: `(function(){function f(){} f.x=1; return f})()`, Want: []string{"x"}, Ref: "13.2"},
		{Subject: `(function(){function f(){} return new f()})()`, Want: nil, Ref: "13.2 step 17"},
		{Subject: `(function(a){}).bind(null)`, Want: nil, Ref: "15.3.4.5"},
		{Subject: `new Function("a","return a")`, Want: nil, Ref: "15.3.2.1"},
		{Subject: `new Number(1)`, Want: nil, Ref: "15.7.5"},
		{Subject: `new Boolean(true)`, Want: nil, Ref: "15.6.5"},
		{Subject: `5`, Want: nil, Ref: "12.6.4 ToObject"},
		{Subject: `true`, Want: nil, Ref: "12.6.4 ToObject"},
		{Subject: `new Date(0)`, Want: nil, Ref: "15.9.6"},
		{Subject: `/a/g`, Want: nil, Ref: "15.10.7"},
		{Subject: `new RegExp("a","i")`, Want: nil, Ref: "15.10.7"},
		// 15.11.2.1 does not fix the attributes of an own message property
		{Subject: `new Error("m")`, Want: nil, May: []string{"message"}, Ref: "15.11.5"},
		{Subject: `new Error()`, Want: nil, Ref: "15.11.5"},
		{Subject: `new TypeError("m")`, Want: nil, May: []string{"message"}, Ref: "15.11.7"},
		{Subject: `new RangeError()`, Want: nil, Ref: "15.11.7"},
		{Subject: `(function(){try{null.x}catch(e){return e}})()`, Want: nil, May: []string{"message"}, Ref: "15.11.7"},
		{Subject: `(function(){try{undefinedVariable}catch(e){return e}})()`, Want: nil, May: []string{"message"}, Ref: "15.11.7"},
		{Subject: `(function(){return arguments})(7,8)`, Want: []string{"0", "1"}, Ref: "10.6"},
		{Subject: `(function(a,b){return arguments})()`, Want: nil, Ref: "10.6"},
		// results of built-ins are ordinary objects/arrays
		{Subject: `JSON.parse("{\"a\":[1]}")`, Want: []string{"a"}, Ref: "15.12.2"},
		{Subject: `Object.getOwnPropertyDescriptor({a:1},"a")`, Want: []string{"configurable", "enumerable", "value", "writable"}, Ref: "8.10.4"},
		{Subject: `Object.getOwnPropertyDescriptor({get a(){return 1}},"a")`, Want: []string{"configurable", "enumerable", "get", "set"}, Ref: "8.10.4"},
		{Subject: `"abc".match(/b/)`, Want: []string{"0", "index", "input"}, Ref: "15.10.6.2 steps 20-21"},
		{Subject: `/b(c)/.exec("abc")`, Want: []string{"0", "1", "index", "input"}, Ref: "15.10.6.2 steps 20-21"},
		{Subject: `Object.keys({a:1})`, Want: []string{"0"}, Ref: "15.2.3.14"},
		{Subject: `Object.getOwnPropertyNames({a:1})`, Want: []string{"0"}, Ref: "15.2.3.4"},
		{Subject: `"a,b".split(",")`, Want: []string{"0", "1"}, Ref: "15.5.4.14"},
		{Subject: `[1,2].map(function(x){return x})`, Want: []string{"0", "1"}, Ref: "15.4.4.19"},
		{Subject: `[1,2].concat([3])`, Want: []string{"0", "1", "2"}, Ref: "15.4.4.4"},
		{Subject: `[1,2,3].slice(1)`, Want: []string{"0", "1"}, Ref: "15.4.4.10"},
		{Subject: `Object.create({},{h:{value:1},e:{value:2,enumerable:true}})`, Want: []string{"e"}, Ref: "15.2.3.5 / 8.10.5 (default false)"},
		{Subject: `Object.defineProperty({a:1},"b",{value:2})`, Want: []string{"a"}, Ref: "15.2.3.6"},
		{Subject: `Object.freeze({a:1})`, Want: []string{"a"}, Ref: "15.2.3.9"},
	}
	// every built-in object of the table: nothing is enumerable (clause 15 preamble)
	owners, _ := Owners()
	for _, o := range owners {
		s = append(s, ForIn{Subject: o, Want: nil, Ref: "15 (every property of a built-in is non-enumerable)"})
	}
	return s
}

// FindForIn looks a subject up.
func FindForIn(subject string) (ForIn, bool) {
	for _, f := range ForInSubjects() {
		if f.Subject == subject {
			return f, true
		}
	}
	return ForIn{}, false
}
