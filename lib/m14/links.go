package m14

// Link is one behavioural fact about a binding whose IDENTITY the interpreter itself depends on,
// or about a prototype object being an instance of its own class. The table rows settle what a
// binding looks like (kind, length, attributes, [[Class]], links between built-ins); these settle
// that the interpreter of THIS runtime - fresh or copied - is wired to THIS runtime's built-ins:
// a Copy() that kept a pointer into the original, or a prototype that has the right [[Class]] but
// not the internal methods of its class, has an unchanged shape and still fails here.
//
// Check is a JavaScript expression (G = global object) that must evaluate to true. Checks that
// have to touch a built-in restore it in a finally block, so the runtime of a configuration can
// be shared by all probes.
type Link struct {
	Name  string `json:"name"`
	Group string `json:"group"` // "identity" or "prototype-instance"
	Check string `json:"check"`
	Ref   string `json:"ref"`
}

var links []Link

func link(group, name, ref, check string) {
	links = append(links, Link{Name: name, Group: group, Check: check, Ref: ref})
}

// Links returns the table (a copy, in table order).
func Links() []Link { return append([]Link(nil), links...) }

// FindLink looks a link up by name.
func FindLink(name string) (Link, bool) {
	for _, l := range links {
		if l.Name == name {
			return l, true
		}
	}
	return Link{}, false
}

// LinkProbe builds the observation program of a link: "true", another value, or "throws:…".
func LinkProbe(l Link) string {
	return `(function(G){try{return String((function(){return (` + l.Check + `)}).call(G))}catch(e){return "throws:"+e}})(this)`
}

func init() {
	const id, pi = "identity", "prototype-instance"
	gpo := func(e, p string) string { return `Object.getPrototypeOf(` + e + `)===` + p }

	// ---- the built-in eval of this runtime (15.1.2.1.1 direct call, 10.4.2 eval code) ---------------
	link(id, "direct-eval-reads-local", "15.1.2.1.1 / 10.4.2 step 2",
		`(function(){var c14where="local";return eval("c14where")})()==="local"`)
	link(id, "direct-eval-writes-local", "10.4.2 step 2",
		`(function(){var c14v=1;eval("c14v=2");return c14v})()===2 && !("c14v" in G)`)
	link(id, "direct-eval-declares-local", "10.4.2 step 2 / 10.5",
		`(function(){try{return (function(){eval("var c14decl=1");return typeof c14decl})()==="number" && !("c14decl" in G)}finally{delete G.c14decl}})()`)
	link(id, "direct-eval-this-and-arguments", "10.4.2 step 2.a",
		`(function(){var o={};return (function(a){return eval("this")===o && eval("arguments.length")===2 && eval("a")===7}).call(o,7,8)})()`)
	link(id, "indirect-eval-is-global", "15.1.2.1.1 / 10.4.2 step 1",
		`(function(){var c14ind="local";var e=eval;return e("typeof c14ind")==="undefined" && (0,eval)("typeof c14ind")==="undefined" && (0,eval)("this")===G && (function(){return e("this")}).call({})===G})()`)
	link(id, "member-call-of-eval-is-indirect", "15.1.2.1.1 (the Reference must have an environment record as base)",
		`(function(){var c14mem="local";var o={eval:eval};return G.eval("typeof c14mem")==="undefined" && o.eval("typeof c14mem")==="undefined" && o.eval("this")===G})()`)
	link(id, "shadowed-eval-is-ordinary-call", "15.1.2.1.1 (value must be the standard built-in)",
		`(function(){var eval=function(s){return "shadow:"+s};return eval("1")})()==="shadow:1"`)
	link(id, "eval-binding-is-the-intrinsic", "15.1.2.1",
		`G.eval===eval && (function(){return eval})()===G.eval && eval("eval")===G.eval`)

	// ---- the global object of this runtime (10.2.3, 10.4.1.1, 10.4.3) ------------------------------------
	link(id, "this-of-plain-call-is-global", "10.4.3 step 2", `(function(){return this})()===G && new Function("return this")()===G && eval("this")===G`)
	link(id, "global-object-is-variable-environment", "10.2.3",
		`(function(){try{G.c14glob=5;var seen=c14glob===5&&eval("c14glob")===5&&new Function("return c14glob")()===5;c14glob=6;return seen&&G.c14glob===6}finally{delete G.c14glob}})()`)
	link(id, "identifiers-resolve-to-global-bindings", "10.2.3 / 15.1.4",
		`Object===G.Object&&Function===G.Function&&Array===G.Array&&String===G.String&&Boolean===G.Boolean&&Number===G.Number&&Date===G.Date&&RegExp===G.RegExp&&Error===G.Error&&TypeError===G.TypeError&&Math===G.Math&&JSON===G.JSON&&parseInt===G.parseInt`)
	link(id, "undeclared-assignment-creates-global-property", "8.7.2 step 3 / 10.2.1.2",
		`(function(){try{(function(){c14undecl=3})();var d=Object.getOwnPropertyDescriptor(G,"c14undecl");return !!d&&d.value===3&&d.writable&&d.enumerable&&d.configurable}finally{delete G.c14undecl}})()`)

	// ---- what the interpreter's own objects inherit from ---------------------------------------------------
	link(id, "function-objects-inherit-function-prototype", "13.2 step 4",
		`(function(){function decl(){} var o={get a(){return 1},set a(v){}},d=Object.getOwnPropertyDescriptor(o,"a");return `+
			gpo("decl", "Function.prototype")+`&&`+gpo("(function(){})", "Function.prototype")+`&&`+gpo("(function named(){})", "Function.prototype")+`&&`+
			gpo("d.get", "Function.prototype")+`&&`+gpo("d.set", "Function.prototype")+`&&`+gpo(`eval("(function(){})")`, "Function.prototype")+`&&`+
			gpo(`new Function("a","return a")`, "Function.prototype")+`&&`+gpo(`Function("return 1")`, "Function.prototype")+`&&`+gpo("decl.bind(null)", "Function.prototype")+
			`&& typeof decl.call==="function" && decl.call===Function.prototype.call})()`)
	link(id, "function-prototype-objects-inherit-object-prototype", "13.2 steps 16-18",
		`(function(){function F(){} var o=new F();return `+gpo("F.prototype", "Object.prototype")+`&&`+gpo("o", "F.prototype")+`&&o instanceof F&&o instanceof Object&&F.prototype.constructor===F})()`)
	link(id, "literals-inherit-the-built-in-prototypes", "11.1.4 / 11.1.5 / 7.8.5",
		gpo("({})", "Object.prototype")+`&&`+gpo("({a:1}).valueOf()", "Object.prototype")+`&&`+gpo("[]", "Array.prototype")+`&&`+gpo("[1,[2]][1]", "Array.prototype")+`&&`+
			gpo("/x/", "RegExp.prototype")+`&&[].push===Array.prototype.push&&({}).hasOwnProperty===Object.prototype.hasOwnProperty&&/x/.exec===RegExp.prototype.exec`)
	link(id, "primitives-resolve-members-on-their-prototypes", "8.7.1 / 9.9",
		`"a".charAt===String.prototype.charAt&&(5).toFixed===Number.prototype.toFixed&&true.valueOf===Boolean.prototype.valueOf&&"a".constructor===String&&(5).constructor===Number&&false.constructor===Boolean&&`+
			gpo(`Object("a")`, "String.prototype")+`&&`+gpo("Object(5)", "Number.prototype")+`&&`+gpo("Object(true)", "Boolean.prototype")+`&&`+
			gpo(`(function(){return this}).call("a")`, "String.prototype")+`&&`+gpo(`(function(){return this}).call(5)`, "Number.prototype"))
	link(id, "arguments-object-inherits-object-prototype", "10.6 step 4",
		`(function(){return `+gpo("arguments", "Object.prototype")+`&&arguments.hasOwnProperty===Object.prototype.hasOwnProperty&&Object.prototype.toString.call(arguments)==="[object Arguments]"})(1)`)
	link(id, "interpreter-raised-errors-are-this-runtimes", "15.11.6 / 8.7.1 / 8.7.2 / 11.2.2 / 11.2.3 / 11.8.6 / 11.8.7",
		`(function(){function c(f){try{f()}catch(e){return e}}
var t1=c(function(){null.x}),t2=c(function(){undefined.x=1}),t3=c(function(){(1)()}),t4=c(function(){new (1)}),t5=c(function(){1 instanceof 1}),t6=c(function(){"a" in 1}),r1=c(function(){c14nosuch}),s1=c(function(){eval("(")}),s2=c(function(){new Function("(")});
return t1 instanceof TypeError&&t2 instanceof TypeError&&t3 instanceof TypeError&&t4 instanceof TypeError&&t5 instanceof TypeError&&t6 instanceof TypeError&&`+
			gpo("t1", "TypeError.prototype")+`&&t1.constructor===TypeError&&r1 instanceof ReferenceError&&`+gpo("r1", "ReferenceError.prototype")+
			`&&s1 instanceof SyntaxError&&`+gpo("s1", "SyntaxError.prototype")+`&&s2 instanceof SyntaxError&&t1 instanceof Error&&r1 instanceof Error&&s1 instanceof Error&&!(t1 instanceof RangeError)})()`)
	link(id, "built-in-raised-errors-are-this-runtimes", "15.11.6 + 15.4.2.2 / 15.1.3 / 15.12.2 / 15.2.3.6 / 15.7.4.5 / 15.3.4.3 / 15.10.4.1",
		`(function(){function c(f){try{f()}catch(e){return e}}
var r=c(function(){new Array(-1)}),r2=c(function(){(1).toFixed(101)}),r3=c(function(){[].length=-1}),u=c(function(){decodeURI("%")}),u2=c(function(){decodeURIComponent("%E0")}),s=c(function(){JSON.parse("{")}),
t=c(function(){Object.defineProperty(1,"a",{})}),t2=c(function(){Function.prototype.apply.call(1)}),t3=c(function(){[].reduce(function(){})}),t4=c(function(){Object.create(1)}),t5=c(function(){JSON.stringify((function(){var a=[];a[0]=a;return a})())}),s2=c(function(){new RegExp("(")});
return `+gpo("r", "RangeError.prototype")+`&&`+gpo("r2", "RangeError.prototype")+`&&`+gpo("r3", "RangeError.prototype")+`&&`+gpo("u", "URIError.prototype")+`&&`+gpo("u2", "URIError.prototype")+`&&`+gpo("s", "SyntaxError.prototype")+
			`&&`+gpo("t", "TypeError.prototype")+`&&`+gpo("t2", "TypeError.prototype")+`&&`+gpo("t3", "TypeError.prototype")+`&&`+gpo("t4", "TypeError.prototype")+`&&`+gpo("t5", "TypeError.prototype")+`&&`+gpo("s2", "SyntaxError.prototype")+`})()`)
	link(id, "results-of-built-ins-inherit-this-runtimes-prototypes", "15.2.3.4 / 15.2.3.14 / 15.4.4 / 15.5.4.10 / 15.5.4.14 / 15.10.6.2 / 15.12.2 / 8.10.4",
		gpo(`"a,b".split(",")`, "Array.prototype")+`&&`+gpo(`"ab".match(/a/)`, "Array.prototype")+`&&`+gpo(`"ab".match(/a/g)`, "Array.prototype")+`&&`+gpo(`/a/.exec("a")`, "Array.prototype")+`&&`+
			gpo("Object.keys({a:1})", "Array.prototype")+`&&`+gpo("Object.getOwnPropertyNames({})", "Array.prototype")+`&&`+gpo("[1].concat(2)", "Array.prototype")+`&&`+gpo("[1,2].slice(1)", "Array.prototype")+`&&`+
			gpo("[1,2].splice(0,1)", "Array.prototype")+`&&`+gpo("[1].map(function(x){return x})", "Array.prototype")+`&&`+gpo("[1].filter(function(){return true})", "Array.prototype")+`&&`+
			gpo("Array(2)", "Array.prototype")+`&&`+gpo("new Array(1,2)", "Array.prototype")+`&&`+gpo(`JSON.parse("[]")`, "Array.prototype")+`&&`+gpo(`JSON.parse("{\"a\":{}}").a`, "Object.prototype")+`&&`+
			gpo(`Object.getOwnPropertyDescriptor({a:1},"a")`, "Object.prototype")+`&&`+gpo("Object()", "Object.prototype")+`&&`+gpo("new Object()", "Object.prototype")+`&&`+gpo("Object.create(Object.prototype)", "Object.prototype")+`&&`+
			gpo("new Date(0)", "Date.prototype")+`&&`+gpo(`new RegExp("a")`, "RegExp.prototype")+`&&`+gpo(`RegExp("a")`, "RegExp.prototype")+`&&`+gpo(`new String("a")`, "String.prototype")+`&&`+gpo("new Number(1)", "Number.prototype")+`&&`+
			gpo("new Boolean(true)", "Boolean.prototype")+`&&`+gpo(`Error("m")`, "Error.prototype")+`&&`+gpo(`new TypeError("m")`, "TypeError.prototype")+`&&`+gpo(`RangeError("m")`, "RangeError.prototype")+
			`&&typeof Date()==="string"&&"abc".split("b")instanceof Array`)
	link(id, "callbacks-and-sort-run-in-this-runtime", "15.4.4.11 / 15.4.4.18 / 15.5.4.11 / 15.12.2 / 15.12.3",
		`(function(){var th=[];[1].forEach(function(){th.push(this)});"a".replace(/a/,function(){th.push(this);return ""});[2,1].sort(function(a,b){th.push(this);return a-b});JSON.parse("1",function(k,v){th.push(Object.getPrototypeOf(this));return v});
return th[0]===G&&th[1]===G&&th[2]===G&&th[3]===Object.prototype})()`)

	// ---- prototype objects are instances of their own class (15.2.4 … 15.11.4 first paragraphs) --------------
	link(pi, "array-prototype-is-an-array", "15.4.4 + 15.4.5.1 / 15.4.5.2",
		`(function(){var P=Array.prototype;try{P[2]="x";var grew=P.length===3&&[].hasOwnProperty(2)===false&&[][2]==="x";P.length=1;var cut=!(2 in P)&&P.length===1;P[0]="y";P.length=0;var empty=!(0 in P)&&P.length===0;`+
			`var pushed=P.push("p")===1&&P[0]==="p"&&P.length===1&&P.pop()==="p"&&P.length===0;return grew&&cut&&empty&&pushed}finally{delete P[2];delete P[1];delete P[0];P.length=0}})()`)
	link(pi, "array-prototype-behaves-as-array-argument", "15.4.4.4 / 15.4.3.2 / 15.12.3",
		`Array.isArray(Array.prototype)&&[1].concat(Array.prototype).length===1&&JSON.stringify(Array.prototype)==="[]"&&Array.prototype.join()===""&&Array.prototype.concat(1).length===1&&(function(){try{Array.prototype.length=-1;return false}catch(e){return e instanceof RangeError}})()`)
	link(pi, "string-prototype-is-a-string-object", "15.5.4 + 15.5.5",
		`String.prototype.valueOf()===""&&String.prototype.toString()===""&&String.prototype.length===0&&String.prototype.charAt(0)===""&&isNaN(String.prototype.charCodeAt(0))&&String.prototype.concat("a")==="a"&&String.prototype+"x"==="x"&&!("0" in String.prototype)&&String.prototype.indexOf("")===0&&String.prototype.split(",").length===1&&String.prototype.trim()===""&&Object.prototype.toString.call(String.prototype)==="[object String]"&&(function(){String.prototype.length=5;return String.prototype.length})()===0`)
	link(pi, "number-prototype-is-a-number-object", "15.7.4",
		`Number.prototype.valueOf()===0&&1/Number.prototype.valueOf()===1/0&&Number.prototype.toString()==="0"&&Number.prototype.toFixed(1)==="0.0"&&Number.prototype+1===1&&Number.prototype.toString(2)==="0"&&Object.prototype.toString.call(Number.prototype)==="[object Number]"`)
	link(pi, "boolean-prototype-is-a-boolean-object", "15.6.4",
		`Boolean.prototype.valueOf()===false&&Boolean.prototype.toString()==="false"&&(Boolean.prototype+"")==="false"&&Object.prototype.toString.call(Boolean.prototype)==="[object Boolean]"`)
	link(pi, "date-prototype-is-a-date-object-with-nan", "15.9.5",
		`isNaN(Date.prototype.getTime())&&isNaN(Date.prototype.valueOf())&&isNaN(Date.prototype.getFullYear())&&isNaN(Date.prototype.getUTCDay())&&isNaN(Date.prototype.getTimezoneOffset())&&isNaN(+Date.prototype)&&Date.prototype.toJSON()===null&&Object.prototype.toString.call(Date.prototype)==="[object Date]"`)
	link(pi, "function-prototype-is-a-function-returning-undefined", "15.3.4",
		`typeof Function.prototype==="function"&&Function.prototype()===undefined&&Function.prototype(1,2)===undefined&&Function.prototype.call(null,1)===undefined&&Function.prototype.apply({},[1])===undefined&&Function.prototype.bind(null)()===undefined&&Function.prototype.length===0&&typeof Function.prototype.toString()==="string"&&Object.prototype.toString.call(Function.prototype)==="[object Function]"`)
	link(pi, "error-prototypes-are-error-objects", "15.11.4 / 15.11.7.7-10",
		`Error.prototype.toString()==="Error"&&String(Error.prototype)==="Error"&&Error.prototype.name==="Error"&&Error.prototype.message===""&&TypeError.prototype.toString()==="TypeError"&&String(RangeError.prototype)==="RangeError"&&URIError.prototype.message===""&&`+
			`Object.prototype.toString.call(Error.prototype)==="[object Error]"&&Object.prototype.toString.call(SyntaxError.prototype)==="[object Error]"&&TypeError.prototype instanceof Error&&!(Error.prototype instanceof Error)`)
	link(pi, "object-prototype-is-an-ordinary-object", "15.2.4",
		`Object.prototype.toString()==="[object Object]"&&Object.prototype.valueOf()===Object.prototype&&Object.prototype.hasOwnProperty("hasOwnProperty")&&Object.prototype.isPrototypeOf({})&&!Object.prototype.isPrototypeOf(Object.prototype)&&Object.prototype.toLocaleString()==="[object Object]"&&Object.isExtensible(Object.prototype)`)
}
