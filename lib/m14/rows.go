package m14

// The table. Typed in from ECMA-262 5.1, clause by clause. T is the time value 978293106007
// (2000-12-31T20:05:06.007Z, a Sunday); the probes run with the local time zone fixed at +05:30
// (no DST), where it is Monday 2001-01-01 01:35:06.007, so that every local/UTC pair of Date
// methods is told apart by one call.

const (
	tT = "978293106007"
	// typeErr(f) is true when calling f throws a TypeError.
	typeErr = `(function(f){try{f();return false}catch(e){return e instanceof TypeError}})`
)

func init() {
	globalRows()
	objectRows()
	functionRows()
	arrayRows()
	stringRows()
	booleanRows()
	numberRows()
	mathRows()
	dateRows()
	regexpRows()
	errorRows()
	jsonRows()
	instanceRows()
	extensionRows()
}

// ---- 15.1 The Global Object ---------------------------------------------------------------------

func globalRows() {
	// 15.1: "The values of the [[Prototype]] and [[Class]] internal properties of the global object
	// are implementation-dependent"; no [[Construct]], no [[Call]].
	obj("G", "", "", false, "15.1", `(function(){try{new G();return false}catch(e){return e instanceof TypeError}})() && (function(){try{G();return false}catch(e){return e instanceof TypeError}})()`)

	// 15.1.1 value properties: { [[Writable]]: false, [[Enumerable]]: false, [[Configurable]]: false }
	konst("G", "NaN", KNumber, "0/0", "15.1.1.1")
	konst("G", "Infinity", KNumber, "1/0", "15.1.1.2")
	konst("G", "undefined", KUndefined, "void 0", "15.1.1.3")

	// 15.1.2 function properties
	fn("G", "eval", 1, "15.1.2.1", `eval("1+2")===3 && eval(7)===7 && (function(){var o={};return eval(o)===o})()`)
	fn("G", "parseInt", 2, "15.1.2.2", `parseInt("0x1f")===31 && parseInt("12px",10)===12 && parseInt("11",2)===3 && parseInt("1.9")===1 && isNaN(parseInt("x"))`)
	fn("G", "parseFloat", 1, "15.1.2.3", `parseFloat("1.5e1x")===15 && parseFloat("0x10")===0 && parseFloat("1.9")===1.9`)
	fn("G", "isNaN", 1, "15.1.2.4", `isNaN(0/0)===true && isNaN("x")===true && isNaN(1/0)===false && isNaN("3")===false`)
	fn("G", "isFinite", 1, "15.1.2.5", `isFinite(1/0)===false && isFinite(0/0)===false && isFinite("3")===true && isFinite(-1/0)===false`)
	// 15.1.3 URI handling
	fn("G", "decodeURI", 1, "15.1.3.1", `decodeURI("%41%2F%20%C3%A9")==="A%2F \u00e9"`)
	fn("G", "decodeURIComponent", 1, "15.1.3.2", `decodeURIComponent("%41%2F%20%C3%A9")==="A/ \u00e9"`)
	fn("G", "encodeURI", 1, "15.1.3.3", `encodeURI(" /\u00e9?#a")==="%20/%C3%A9?#a"`)
	fn("G", "encodeURIComponent", 1, "15.1.3.4", `encodeURIComponent(" /\u00e9?#a")==="%20%2F%C3%A9%3F%23a"`)
	// B.2.1, B.2.2
	fn("G", "escape", 1, "B.2.1", `escape(" /\u00e9\u0100+")==="%20/%E9%u0100+"`)
	fn("G", "unescape", 1, "B.2.2", `unescape("%20%E9%u0100%2")===" \u00e9\u0100%2"`)

	// 15.1.4 constructor properties are added by ctor() in their own sections.
	// 15.1.5 other properties
	data("G", "Math", KObject, attrsMethod, "", "15.1.5.1")
	data("G", "JSON", KObject, attrsMethod, "", "15.1.5.2")
}

// ---- 15.2 Object ------------------------------------------------------------------------------------

func objectRows() {
	ctor("Object", 1, "15.2.3 / 15.1.4.1", "15.2.3.1",
		`Object(1) instanceof Number && typeof Object()==="object" && new Object("s") instanceof String && (function(){var o={};return Object(o)===o && new Object(o)===o})() && Object.getPrototypeOf(Object(null))===Object.prototype`)
	obj("Object", "Function", "Function.prototype", true, "15.2.3", "")
	// 15.2.4: [[Prototype]] null, [[Class]] "Object", [[Extensible]] true
	obj("Object.prototype", "Object", "null", false, "15.2.4", "")

	fn("Object", "getPrototypeOf", 1, "15.2.3.2", `Object.getPrototypeOf([])===Array.prototype && Object.getPrototypeOf(Object.prototype)===null && `+typeErr+`(function(){Object.getPrototypeOf(1)})`)
	fn("Object", "getOwnPropertyDescriptor", 2, "15.2.3.3", `(function(){var d=Object.getOwnPropertyDescriptor({a:1},"a");return d.value===1&&d.writable===true&&d.enumerable===true&&d.configurable===true&&Object.getOwnPropertyDescriptor({},"a")===undefined})()`)
	fn("Object", "getOwnPropertyNames", 1, "15.2.3.4", `Object.getOwnPropertyNames([5]).sort().join()==="0,length"`)
	fn("Object", "create", 2, "15.2.3.5", `(function(){var p={x:1};var o=Object.create(p,{y:{value:2}});return Object.getPrototypeOf(o)===p&&o.y===2&&o.x===1&&!o.propertyIsEnumerable("y")&&Object.getPrototypeOf(Object.create(null))===null})()`)
	fn("Object", "defineProperty", 3, "15.2.3.6", `(function(){var o={};var r=Object.defineProperty(o,"a",{value:1});return r===o&&o.a===1&&Object.keys(o).length===0})()`)
	fn("Object", "defineProperties", 2, "15.2.3.7", `(function(){var o={};var r=Object.defineProperties(o,{a:{value:1,enumerable:true},b:{value:2}});return r===o&&o.a===1&&o.b===2&&Object.keys(o).join()==="a"})()`)
	fn("Object", "seal", 1, "15.2.3.8", `(function(){var o={a:1};var r=Object.seal(o);o.a=2;delete o.a;o.b=1;return r===o&&o.a===2&&!("b" in o)&&Object.isSealed(o)&&!Object.isFrozen(o)})()`)
	fn("Object", "freeze", 1, "15.2.3.9", `(function(){var o={a:1};var r=Object.freeze(o);o.a=2;o.b=1;delete o.a;return r===o&&o.a===1&&!("b" in o)&&Object.isFrozen(o)})()`)
	fn("Object", "preventExtensions", 1, "15.2.3.10", `(function(){var o={a:1};var r=Object.preventExtensions(o);o.b=1;o.a=2;var was=o.a;delete o.a;return r===o&&was===2&&!("b" in o)&&!("a" in o)&&!Object.isExtensible(o)})()`)
	fn("Object", "isSealed", 1, "15.2.3.11", `Object.isSealed({})===false && Object.isSealed(Object.seal({a:1}))===true && Object.isSealed(Object.preventExtensions({a:1}))===false && Object.isSealed(Object.preventExtensions({}))===true`)
	fn("Object", "isFrozen", 1, "15.2.3.12", `Object.isFrozen(Object.seal({a:1}))===false && Object.isFrozen(Object.freeze({a:1}))===true && Object.isFrozen({})===false`)
	fn("Object", "isExtensible", 1, "15.2.3.13", `Object.isExtensible({})===true && Object.isExtensible(Object.preventExtensions({}))===false && Object.isExtensible(Object.seal({}))===false`)
	fn("Object", "keys", 1, "15.2.3.14", `(function(){var o=Object.create({z:1});o.a=1;Object.defineProperty(o,"h",{value:1});return Object.keys(o).join()==="a" && Object.keys([7,8]).join()==="0,1"})()`)

	fn("Object.prototype", "toString", 0, "15.2.4.2", `Object.prototype.toString.call([])==="[object Array]"&&Object.prototype.toString.call(new Date(0))==="[object Date]"&&({}).toString()==="[object Object]"&&Object.prototype.toString.call(1)==="[object Number]"`)
	fn("Object.prototype", "toLocaleString", 0, "15.2.4.3", `({toString:function(){return "T"}}).toLocaleString()==="T"`)
	fn("Object.prototype", "valueOf", 0, "15.2.4.4", `(function(){var o={};return o.valueOf()===o && typeof Object.prototype.valueOf.call(1)==="object" && Object.prototype.valueOf.call(1) instanceof Number})()`)
	fn("Object.prototype", "hasOwnProperty", 1, "15.2.4.5", `({a:1}).hasOwnProperty("a")===true&&({}).hasOwnProperty("toString")===false&&[1].hasOwnProperty("length")===true&&Object.create({a:1}).hasOwnProperty("a")===false`)
	fn("Object.prototype", "isPrototypeOf", 1, "15.2.4.6", `Object.prototype.isPrototypeOf([])===true&&Array.prototype.isPrototypeOf([])===true&&Array.prototype.isPrototypeOf({})===false&&Object.prototype.isPrototypeOf(1)===false`)
	fn("Object.prototype", "propertyIsEnumerable", 1, "15.2.4.7", `({a:1}).propertyIsEnumerable("a")===true&&[1].propertyIsEnumerable("length")===false&&({}).propertyIsEnumerable("toString")===false&&Object.create({a:1}).propertyIsEnumerable("a")===false`)
}

// ---- 15.3 Function ----------------------------------------------------------------------------------

func functionRows() {
	ctor("Function", 1, "15.3.3 / 15.1.4.2", "15.3.3.1",
		`Function("a","b","return a*b")(3,4)===12 && new Function("return 7")()===7 && Function("a,b","c","return a+b+c")(1,2,3)===6 && Function()()===undefined`)
	obj("Function", "Function", "Function.prototype", true, "15.3.3", "")
	// 15.3.4: "The Function prototype object is itself a Function object (its [[Class]] is "Function")
	// that, when invoked, accepts any arguments and returns undefined." [[Prototype]] is Object.prototype.
	// "The Function prototype object does not have a valueOf property of its own".
	obj("Function.prototype", "Function", "Object.prototype", true, "15.3.4",
		`Function.prototype()===undefined && Function.prototype(1,{},"x")===undefined && !Function.prototype.hasOwnProperty("valueOf") && !Function.prototype.hasOwnProperty("prototype")`)
	// 15.3.4: "The length property of the Function prototype object is 0" (a built-in function object:
	// attributes of the general rule for length).
	konst("Function.prototype", "length", KNumber, "0", "15.3.4")

	fn("Function.prototype", "toString", 0, "15.3.4.2", `typeof Function.prototype.toString.call(function foo(){})==="string" && Function.prototype.toString.call(function foo(){}).indexOf("foo")>=0 && `+typeErr+`(function(){Function.prototype.toString.call({})})`)
	fn("Function.prototype", "apply", 2, "15.3.4.3", `(function(a,b){return this.x+a+b}).apply({x:1},[2,3])===6 && (function(){return arguments.length}).apply(null,{length:2,0:1,1:2})===2 && (function(){return arguments.length}).apply(null)===0`)
	fn("Function.prototype", "call", 1, "15.3.4.4", `(function(a,b){return this.x+a+b}).call({x:1},2,3)===6 && (function(){return arguments.length}).call(null,[1,2])===1`)
	fn("Function.prototype", "bind", 1, "15.3.4.5", `(function(){var f=function(a,b){return this.x+a+b}.bind({x:1},2);return f(3)===6&&f.length===1&&f.call({x:50},3)===6})()`)
}

// ---- 15.4 Array -----------------------------------------------------------------------------------

func arrayRows() {
	ctor("Array", 1, "15.4.3 / 15.1.4.3", "15.4.3.1",
		`Array(3).length===3 && Array(1,2).length===2 && new Array("3").length===1 && new Array(2).length===2 && Array.prototype.isPrototypeOf(Array()) && Array(1,2)[1]===2`)
	obj("Array", "Function", "Function.prototype", true, "15.4.3", "")
	// 15.4.4: "The Array prototype object is itself an array; its [[Class]] is "Array", and it has
	// a length property (whose initial value is +0)"; [[Prototype]] Object.prototype.
	obj("Array.prototype", "Array", "Object.prototype", false, "15.4.4", `Array.prototype.length===0 && Array.isArray(Array.prototype)`)
	// 15.4.5.2 (the prototype is an array): length { [[Writable]]: true, [[Enumerable]]: false, [[Configurable]]: false }
	data("Array.prototype", "length", KNumber, attrsLength, "0", "15.4.4 + 15.4.5.2")

	fn("Array", "isArray", 1, "15.4.3.2", `Array.isArray([])===true&&Array.isArray({length:0})===false&&Array.isArray("a")===false&&Array.isArray()===false`)

	fn("Array.prototype", "toString", 0, "15.4.4.2", `[1,[2,3]].toString()==="1,2,3" && Array.prototype.toString.call({join:function(){return "J"}})==="J" && Array.prototype.toString.call({})==="[object Object]"`)
	fn("Array.prototype", "toLocaleString", 0, "15.4.4.3", `[{toLocaleString:function(){return "L"},toString:function(){return "S"}}].toLocaleString()==="L" && [null].toLocaleString()===""`)
	fn("Array.prototype", "concat", 1, "15.4.4.4", `[1].concat([2,3],4).join()==="1,2,3,4"&&[1].concat([2,3],4).length===4&&(function(){var a=[1];return a.concat()!==a})()`)
	fn("Array.prototype", "join", 1, "15.4.4.5", `[1,null,undefined,2].join("-")==="1---2"&&[1,2].join()==="1,2"&&[1,2].join(undefined)==="1,2"`)
	fn("Array.prototype", "pop", 0, "15.4.4.6", `(function(){var a=[1,2,3];return a.pop()===3&&a.length===2&&a[0]===1&&[].pop()===undefined})()`)
	fn("Array.prototype", "push", 1, "15.4.4.7", `(function(){var a=[1];return a.push(2,3)===3&&a.join()==="1,2,3"})()`)
	fn("Array.prototype", "reverse", 0, "15.4.4.8", `(function(){var a=[1,2,3];return a.reverse()===a&&a.join()==="3,2,1"})()`)
	fn("Array.prototype", "shift", 0, "15.4.4.9", `(function(){var a=[1,2,3];return a.shift()===1&&a.join()==="2,3"&&a.length===2})()`)
	fn("Array.prototype", "slice", 2, "15.4.4.10", `[1,2,3,4].slice(1,-1).join()==="2,3"&&[1,2,3].slice(1).join()==="2,3"&&(function(){var a=[1,2,3,4];a.slice(1,2);return a.length===4})()`)
	fn("Array.prototype", "sort", 1, "15.4.4.11", `[3,1,2].sort().join()==="1,2,3"&&[1,2,3].sort(function(a,b){return b-a}).join()==="3,2,1"&&[10,9].sort().join()==="10,9"&&(function(){var a=[2,1];return a.sort()===a})()`)
	fn("Array.prototype", "splice", 2, "15.4.4.12", `(function(){var a=[1,2,3,4];var r=a.splice(1,2,"x");return r.join()==="2,3"&&a.join()==="1,x,4"&&a.length===3})()`)
	fn("Array.prototype", "unshift", 1, "15.4.4.13", `(function(){var a=[3];return a.unshift(1,2)===3&&a.join()==="1,2,3"})()`)
	fn("Array.prototype", "indexOf", 1, "15.4.4.14", `[1,2,1].indexOf(1)===0&&[1,2,1].indexOf(1,1)===2&&[1].indexOf(5)===-1&&[0/0].indexOf(0/0)===-1`)
	fn("Array.prototype", "lastIndexOf", 1, "15.4.4.15", `[1,2,1].lastIndexOf(1)===2&&[1,2,1].lastIndexOf(1,1)===0&&[1].lastIndexOf(5)===-1`)
	fn("Array.prototype", "every", 1, "15.4.4.16", `[1,2].every(function(v){return v>0})===true&&[1,-2].every(function(v){return v>0})===false&&[].every(function(){return false})===true`)
	fn("Array.prototype", "some", 1, "15.4.4.17", `[1,-2].some(function(v){return v<0})===true&&[].some(function(){return true})===false&&[1].some(function(v){return v<0})===false`)
	fn("Array.prototype", "forEach", 1, "15.4.4.18", `(function(){var s=0,th={};var r=[1,2].forEach(function(v,i,a){s+=v*10+i+a.length+(this===th?100:0)},th);return r===undefined&&s===235})()`)
	fn("Array.prototype", "map", 1, "15.4.4.19", `[1,2].map(function(v,i){return v*2+i}).join()==="2,5"&&[1,2].map(function(){return 0}).length===2`)
	fn("Array.prototype", "filter", 1, "15.4.4.20", `[1,2,3].filter(function(v){return v%2}).join()==="1,3"&&[1,2,3].filter(function(){return false}).length===0`)
	fn("Array.prototype", "reduce", 1, "15.4.4.21", `[1,2,3].reduce(function(a,v){return a+"-"+v})==="1-2-3"&&[1].reduce(function(a,v){return a+v},10)===11&&`+typeErr+`(function(){[].reduce(function(){})})`)
	fn("Array.prototype", "reduceRight", 1, "15.4.4.22", `[1,2,3].reduceRight(function(a,v){return a+"-"+v})==="3-2-1"&&[1].reduceRight(function(a,v){return a+v},10)===11&&`+typeErr+`(function(){[].reduceRight(function(){})})`)
}

// ---- 15.5 String ----------------------------------------------------------------------------------

func stringRows() {
	ctor("String", 1, "15.5.3 / 15.1.4.4", "15.5.3.1",
		`String(12)==="12" && String()==="" && typeof new String("a")==="object" && new String("ab").length===2 && new String().valueOf()==="" && String(null)==="null"`)
	obj("String", "Function", "Function.prototype", true, "15.5.3", "")
	// 15.5.4: "The String prototype object is itself a String object (its [[Class]] is "String")
	// whose value is an empty String"; [[Prototype]] Object.prototype.
	obj("String.prototype", "String", "Object.prototype", false, "15.5.4", `String.prototype.valueOf()==="" && String.prototype.toString()==="" && String.prototype.length===0`)
	// 15.5.5.1 (the prototype is a String object): length non-writable, non-enumerable, non-configurable
	konst("String.prototype", "length", KNumber, "0", "15.5.4 + 15.5.5.1")

	fn("String", "fromCharCode", 1, "15.5.3.2", `String.fromCharCode(65,66)==="AB"&&String.fromCharCode()===""&&String.fromCharCode(0x10041)==="A"&&String.fromCharCode("66")==="B"`)

	fn("String.prototype", "toString", 0, "15.5.4.2", `new String("a").toString()==="a"&&"b".toString()==="b"&&`+typeErr+`(function(){String.prototype.toString.call(1)})`)
	fn("String.prototype", "valueOf", 0, "15.5.4.3", `new String("a").valueOf()==="a"&&typeof new String("a").valueOf()==="string"&&`+typeErr+`(function(){String.prototype.valueOf.call({})})`)
	fn("String.prototype", "charAt", 1, "15.5.4.4", `"abc".charAt(1)==="b"&&"abc".charAt(5)===""&&"abc".charAt(-1)===""`)
	fn("String.prototype", "charCodeAt", 1, "15.5.4.5", `"abc".charCodeAt(1)===98&&isNaN("abc".charCodeAt(5))`)
	fn("String.prototype", "concat", 1, "15.5.4.6", `"a".concat("b",1)==="ab1"&&"a".concat()==="a"`)
	fn("String.prototype", "indexOf", 1, "15.5.4.7", `"abcabc".indexOf("c")===2&&"abcabc".indexOf("c",3)===5&&"abc".indexOf("x")===-1`)
	fn("String.prototype", "lastIndexOf", 1, "15.5.4.8", `"abcabc".lastIndexOf("c")===5&&"abcabc".lastIndexOf("c",4)===2&&"abc".lastIndexOf("x")===-1`)
	fn("String.prototype", "localeCompare", 1, "15.5.4.9", `"a".localeCompare("b")<0&&"b".localeCompare("a")>0&&"a".localeCompare("a")===0`)
	fn("String.prototype", "match", 1, "15.5.4.10", `"a1b22".match(/\d+/g).join()==="1,22"&&"abc".match(/(b)(c)/)[2]==="c"&&"abc".match(/(b)(c)/).index===1&&"abc".match(/x/)===null`)
	fn("String.prototype", "replace", 2, "15.5.4.11", `"aXbX".replace("X","-")==="a-bX"&&"aXbX".replace(/X/g,"-")==="a-b-"&&"abc".replace(/b/,function(m){return m.toUpperCase()})==="aBc"&&"abc".replace(/(b)/,"[$1]")==="a[b]c"`)
	fn("String.prototype", "search", 1, "15.5.4.12", `"abc".search(/c/)===2&&"abc".search(/x/)===-1&&"abc".search("b")===1`)
	fn("String.prototype", "slice", 2, "15.5.4.13", `"abcd".slice(1,-1)==="bc"&&"abcd".slice(-2)==="cd"&&"abcd".slice(2,1)===""`)
	fn("String.prototype", "split", 2, "15.5.4.14", `"a,b,c".split(",").length===3&&"a,b,c".split(",",2).join("|")==="a|b"&&"abc".split("").join()==="a,b,c"&&"abc".split().length===1&&"a1b2c".split(/\d/).join()==="a,b,c"`)
	fn("String.prototype", "substring", 2, "15.5.4.15", `"abcd".substring(2,1)==="b"&&"abcd".substring(-1,2)==="ab"&&"abcd".substring(1)==="bcd"`)
	fn("String.prototype", "toLowerCase", 0, "15.5.4.16", `"aBC1".toLowerCase()==="abc1"`)
	fn("String.prototype", "toLocaleLowerCase", 0, "15.5.4.17", `"aBC1".toLocaleLowerCase()==="abc1"`)
	fn("String.prototype", "toUpperCase", 0, "15.5.4.18", `"aBc1".toUpperCase()==="ABC1"`)
	fn("String.prototype", "toLocaleUpperCase", 0, "15.5.4.19", `"aBc1".toLocaleUpperCase()==="ABC1"`)
	fn("String.prototype", "trim", 0, "15.5.4.20", `" \t\n a b \u00a0\ufeff\u2028".trim()==="a b"&&"x".trim()==="x"`)
	// B.2.3: "The length property of the substr method is 2."
	fn("String.prototype", "substr", 2, "B.2.3", `"abcd".substr(1,2)==="bc"&&"abcd".substr(-2)==="cd"&&"abcd".substr(1)==="bcd"&&"abcd".substr(2,-1)===""`)
}

// ---- 15.6 Boolean ---------------------------------------------------------------------------------

func booleanRows() {
	ctor("Boolean", 1, "15.6.3 / 15.1.4.5", "15.6.3.1",
		`Boolean("")===false && Boolean("0")===true && Boolean()===false && typeof new Boolean(false)==="object" && new Boolean(false).valueOf()===false && new Boolean(1).valueOf()===true`)
	obj("Boolean", "Function", "Function.prototype", true, "15.6.3", "")
	// 15.6.4: "The Boolean prototype object is itself a Boolean object (its [[Class]] is "Boolean") whose value is false."
	obj("Boolean.prototype", "Boolean", "Object.prototype", false, "15.6.4", `Boolean.prototype.valueOf()===false && Boolean.prototype.toString()==="false"`)
	fn("Boolean.prototype", "toString", 0, "15.6.4.2", `true.toString()==="true"&&new Boolean(false).toString()==="false"&&`+typeErr+`(function(){Boolean.prototype.toString.call(1)})`)
	fn("Boolean.prototype", "valueOf", 0, "15.6.4.3", `new Boolean(true).valueOf()===true&&false.valueOf()===false&&`+typeErr+`(function(){Boolean.prototype.valueOf.call("x")})`)
}

// ---- 15.7 Number ----------------------------------------------------------------------------------

func numberRows() {
	ctor("Number", 1, "15.7.3 / 15.1.4.6", "15.7.3.1",
		`Number("12")===12 && Number()===0 && 1/Number()===1/0 && typeof new Number(1)==="object" && new Number("0x10").valueOf()===16 && isNaN(Number("x"))`)
	obj("Number", "Function", "Function.prototype", true, "15.7.3", "")
	// 15.7.4: "The Number prototype object is itself a Number object (its [[Class]] is "Number") whose value is +0."
	obj("Number.prototype", "Number", "Object.prototype", false, "15.7.4", `Number.prototype.valueOf()===0 && 1/Number.prototype.valueOf()===1/0 && Number.prototype.toString()==="0"`)

	// 15.7.3.2 .. 15.7.3.6: { [[Writable]]: false, [[Enumerable]]: false, [[Configurable]]: false }
	konst("Number", "MAX_VALUE", KNumber, "1.7976931348623157e308", "15.7.3.2")
	konst("Number", "MIN_VALUE", KNumber, "5e-324", "15.7.3.3")
	konst("Number", "NaN", KNumber, "0/0", "15.7.3.4")
	konst("Number", "NEGATIVE_INFINITY", KNumber, "-1/0", "15.7.3.5")
	konst("Number", "POSITIVE_INFINITY", KNumber, "1/0", "15.7.3.6")

	// 15.7.4.2 heading: Number.prototype.toString ( [ radix ] ) -> length 1 by the general rule
	fn("Number.prototype", "toString", 1, "15.7.4.2", `(255).toString(16)==="ff"&&(1.5).toString()==="1.5"&&new Number(7).toString()==="7"&&(5).toString(2)==="101"&&`+typeErr+`(function(){Number.prototype.toString.call("1")})`)
	// 15.7.4.3 heading: Number.prototype.toLocaleString() -> length 0
	fn("Number.prototype", "toLocaleString", 0, "15.7.4.3", `typeof (1).toLocaleString()==="string"&&(1).toLocaleString().indexOf("1")>=0`)
	fn("Number.prototype", "valueOf", 0, "15.7.4.4", `new Number(5).valueOf()===5&&typeof new Number(5).valueOf()==="number"&&`+typeErr+`(function(){Number.prototype.valueOf.call("x")})`)
	fn("Number.prototype", "toFixed", 1, "15.7.4.5", `(1.26).toFixed(1)==="1.3"&&(0).toFixed(2)==="0.00"&&(1e21).toFixed(2)==="1e+21"&&(12.3).toFixed()==="12"`)
	fn("Number.prototype", "toExponential", 1, "15.7.4.6", `(123456).toExponential(2).indexOf("1.23e+")===0&&(0.00015).toExponential().indexOf("1.5e-")===0`)
	fn("Number.prototype", "toPrecision", 1, "15.7.4.7", `(123.456).toPrecision(4)==="123.5"&&(1.5).toPrecision()==="1.5"&&(0.5).toPrecision(1)==="0.5"`)
}

// ---- 15.8 Math ------------------------------------------------------------------------------------

func mathRows() {
	// 15.8: "The Math object is a single object [...] [[Prototype]] is the standard built-in Object
	// prototype object. [[Class]] is "Math". The Math object does not have a [[Construct]] [...] [[Call]]".
	obj("Math", "Math", "Object.prototype", false, "15.8", typeErr+`(function(){new Math()}) && `+typeErr+`(function(){Math()})`)

	// 15.8.1: "approximately" values: the Number value nearest to the mathematical constant.
	konst("Math", "E", KNumber, "2.7182818284590452354", "15.8.1.1")
	konst("Math", "LN10", KNumber, "2.302585092994046", "15.8.1.2")
	konst("Math", "LN2", KNumber, "0.6931471805599453", "15.8.1.3")
	konst("Math", "LOG2E", KNumber, "1.4426950408889634", "15.8.1.4")
	konst("Math", "LOG10E", KNumber, "0.4342944819032518", "15.8.1.5")
	konst("Math", "PI", KNumber, "3.1415926535897932", "15.8.1.6")
	konst("Math", "SQRT1_2", KNumber, "0.7071067811865476", "15.8.1.7")
	konst("Math", "SQRT2", KNumber, "1.4142135623730951", "15.8.1.8")

	near := func(e, want string) string { return "Math.abs((" + e + ")-(" + want + "))<1e-14" }
	fn("Math", "abs", 1, "15.8.2.1", `Math.abs(-2)===2&&Math.abs(2)===2&&1/Math.abs(-0)===1/0`)
	fn("Math", "acos", 1, "15.8.2.2", `Math.acos(1)===0&&`+near("Math.acos(0)", "1.5707963267948966")+`&&isNaN(Math.acos(2))`)
	fn("Math", "asin", 1, "15.8.2.3", `Math.asin(0)===0&&`+near("Math.asin(1)", "1.5707963267948966")+`&&isNaN(Math.asin(2))`)
	fn("Math", "atan", 1, "15.8.2.4", `Math.atan(0)===0&&`+near("Math.atan(1)", "0.7853981633974483")+`&&`+near("Math.atan(1/0)", "1.5707963267948966"))
	fn("Math", "atan2", 2, "15.8.2.5", near("Math.atan2(1,0)", "1.5707963267948966")+`&&Math.atan2(0,1)===0&&`+near("Math.atan2(0,-1)", "3.141592653589793")+`&&`+near("Math.atan2(1,1)", "0.7853981633974483"))
	fn("Math", "ceil", 1, "15.8.2.6", `Math.ceil(1.2)===2&&Math.ceil(-1.2)===-1&&Math.ceil(3)===3`)
	fn("Math", "cos", 1, "15.8.2.7", `Math.cos(0)===1&&`+near("Math.cos(3.141592653589793)", "-1"))
	fn("Math", "exp", 1, "15.8.2.8", `Math.exp(0)===1&&`+near("Math.exp(1)", "2.718281828459045")+`&&Math.exp(-1/0)===0`)
	fn("Math", "floor", 1, "15.8.2.9", `Math.floor(1.8)===1&&Math.floor(-1.2)===-2&&Math.floor(3)===3`)
	fn("Math", "log", 1, "15.8.2.10", `Math.log(1)===0&&`+near("Math.log(100)", "4.605170185988092")+`&&Math.log(0)===-1/0&&isNaN(Math.log(-1))`)
	fn("Math", "max", 2, "15.8.2.11", `Math.max(1,2)===2&&Math.max(2,1)===2&&Math.max()===-1/0&&Math.max(1,3,2)===3`)
	fn("Math", "min", 2, "15.8.2.12", `Math.min(1,2)===1&&Math.min(2,1)===1&&Math.min()===1/0&&Math.min(3,1,2)===1`)
	fn("Math", "pow", 2, "15.8.2.13", `Math.pow(2,10)===1024&&Math.pow(10,2)===100&&Math.pow(5,0)===1`)
	fn("Math", "random", 0, "15.8.2.14", `(function(){var a=Math.random(),b=Math.random();return typeof a==="number"&&a>=0&&a<1&&b>=0&&b<1})()`)
	fn("Math", "round", 1, "15.8.2.15", `Math.round(1.5)===2&&Math.round(-1.5)===-1&&Math.round(1.4)===1&&Math.round(-1.6)===-2`)
	fn("Math", "sin", 1, "15.8.2.16", `Math.sin(0)===0&&`+near("Math.sin(1.5707963267948966)", "1"))
	fn("Math", "sqrt", 1, "15.8.2.17", `Math.sqrt(9)===3&&isNaN(Math.sqrt(-1))&&Math.sqrt(2)===1.4142135623730951`)
	fn("Math", "tan", 1, "15.8.2.18", `Math.tan(0)===0&&`+near("Math.tan(0.7853981633974483)", "1"))
}

// ---- 15.9 Date ------------------------------------------------------------------------------------

func dateRows() {
	ctor("Date", 7, "15.9.4 / 15.1.4.7", "15.9.4.1",
		`typeof Date()==="string" && typeof Date(0)==="string" && new Date(2001,0,1,1,35,6,7).getTime()===`+tT+` && new Date(5).getTime()===5 && new Date("2000-12-31T20:05:06.007Z").getTime()===`+tT+` && new Date(2001,0).getDate()===1`)
	obj("Date", "Function", "Function.prototype", true, "15.9.4", "")
	// 15.9.5: "The Date prototype object is itself a Date object (its [[Class]] is "Date") whose
	// [[PrimitiveValue]] is NaN." [[Prototype]] Object.prototype.
	obj("Date.prototype", "Date", "Object.prototype", false, "15.9.5", `isNaN(Date.prototype.getTime()) && isNaN(Date.prototype.valueOf())`)

	fn("Date", "parse", 1, "15.9.4.2", `Date.parse("2000-12-31T20:05:06.007Z")===`+tT+`&&isNaN(Date.parse("no date at all"))`)
	fn("Date", "UTC", 7, "15.9.4.3", `Date.UTC(2000,11,31,20,5,6,7)===`+tT+`&&Date.UTC(2000,11)===975628800000`)
	fn("Date", "now", 0, "15.9.4.4", `typeof Date.now()==="number"&&Date.now()>1e12&&Math.abs(Date.now()-new Date().getTime())<60000`)

	d := `new Date(` + tT + `)`
	z := `new Date(978293106000)` // T with zero milliseconds (15.9.4.2: parse(toString(x)) === x.valueOf() then)
	has := func(e, sub string) string { return `(` + e + `).indexOf("` + sub + `")>=0` }
	hasnt := func(e, sub string) string { return `(` + e + `).indexOf("` + sub + `")<0` }
	str := func(e string) string { return `typeof (` + e + `)==="string"` }

	fn("Date.prototype", "toString", 0, "15.9.5.2", str(z+".toString()")+`&&Date.parse(`+z+`.toString())===978293106000`)
	// 15.9.5.3-7: implementation-dependent text for the "date" / "time" portion in the current time zone
	// (see ASSUMPTIONS: the date portion does not show minutes:seconds, the time portion does).
	fn("Date.prototype", "toDateString", 0, "15.9.5.3", str(d+".toDateString()")+`&&`+has(d+".toDateString()", "2001")+`&&`+hasnt(d+".toDateString()", "35:06"))
	fn("Date.prototype", "toTimeString", 0, "15.9.5.4", str(d+".toTimeString()")+`&&`+has(d+".toTimeString()", "35:06")+`&&`+hasnt(d+".toTimeString()", "2001"))
	fn("Date.prototype", "toLocaleString", 0, "15.9.5.5", str(d+".toLocaleString()")+`&&`+has(d+".toLocaleString()", "35:06"))
	fn("Date.prototype", "toLocaleDateString", 0, "15.9.5.6", str(d+".toLocaleDateString()")+`&&`+hasnt(d+".toLocaleDateString()", "35:06"))
	fn("Date.prototype", "toLocaleTimeString", 0, "15.9.5.7", str(d+".toLocaleTimeString()")+`&&`+has(d+".toLocaleTimeString()", "35:06"))
	fn("Date.prototype", "valueOf", 0, "15.9.5.8", d+`.valueOf()===`+tT+`&&typeof `+d+`.valueOf()==="number"&&`+typeErr+`(function(){Date.prototype.valueOf.call({})})`)
	fn("Date.prototype", "getTime", 0, "15.9.5.9", d+`.getTime()===`+tT+`&&`+typeErr+`(function(){Date.prototype.getTime.call({})})`)
	get := func(name, ref, want string) {
		fn("Date.prototype", name, 0, ref, d+`.`+name+`()===`+want+`&&isNaN(new Date(0/0).`+name+`())`)
	}
	get("getFullYear", "15.9.5.10", "2001")
	get("getUTCFullYear", "15.9.5.11", "2000")
	get("getMonth", "15.9.5.12", "0")
	get("getUTCMonth", "15.9.5.13", "11")
	get("getDate", "15.9.5.14", "1")
	get("getUTCDate", "15.9.5.15", "31")
	get("getDay", "15.9.5.16", "1")
	get("getUTCDay", "15.9.5.17", "0")
	get("getHours", "15.9.5.18", "1")
	get("getUTCHours", "15.9.5.19", "20")
	get("getMinutes", "15.9.5.20", "35")
	get("getUTCMinutes", "15.9.5.21", "5")
	get("getSeconds", "15.9.5.22", "6")
	get("getUTCSeconds", "15.9.5.23", "6")
	get("getMilliseconds", "15.9.5.24", "7")
	get("getUTCMilliseconds", "15.9.5.25", "7")
	get("getTimezoneOffset", "15.9.5.26", "-330")
	set := func(name string, length int, ref, args, want string) {
		fn("Date.prototype", name, length, ref, `(function(){var d=`+d+`;var r=d.`+name+`(`+args+`);return r===`+want+`&&d.getTime()===`+want+`})()`)
	}
	set("setTime", 1, "15.9.5.27", "5", "5")
	set("setMilliseconds", 1, "15.9.5.28", "123", "978293106123")
	set("setUTCMilliseconds", 1, "15.9.5.29", "123", "978293106123")
	set("setSeconds", 2, "15.9.5.30", "12,13", "978293112013")
	set("setUTCSeconds", 2, "15.9.5.31", "12,13", "978293112013")
	set("setMinutes", 3, "15.9.5.32", "11,12,13", "978291672013")
	set("setUTCMinutes", 3, "15.9.5.33", "11,12,13", "978293472013")
	set("setHours", 4, "15.9.5.34", "10,11,12,13", "978324072013")
	set("setUTCHours", 4, "15.9.5.35", "10,11,12,13", "978257472013")
	set("setDate", 1, "15.9.5.36", "20", "979934706007")
	set("setUTCDate", 1, "15.9.5.37", "20", "977342706007")
	set("setMonth", 2, "15.9.5.38", "5,20", "992981106007")
	set("setUTCMonth", 2, "15.9.5.39", "5,20", "961531506007")
	set("setFullYear", 3, "15.9.5.40", "1999,5,20", "929822706007")
	set("setUTCFullYear", 3, "15.9.5.41", "1999,5,20", "929909106007")
	fn("Date.prototype", "toUTCString", 0, "15.9.5.42", str(z+".toUTCString()")+`&&Date.parse(`+z+`.toUTCString())===978293106000&&`+has(z+".toUTCString()", "20:05:06"))
	fn("Date.prototype", "toISOString", 0, "15.9.5.43", d+`.toISOString()==="2000-12-31T20:05:06.007Z"`)
	fn("Date.prototype", "toJSON", 1, "15.9.5.44", d+`.toJSON()==="2000-12-31T20:05:06.007Z"&&new Date(0/0).toJSON()===null`)
	// B.2.4 - B.2.6
	fn("Date.prototype", "getYear", 0, "B.2.4", d+`.getYear()===101&&isNaN(new Date(0/0).getYear())`)
	set("setYear", 1, "B.2.5", "99", "915134706007")
	// B.2.6: "The Function object that is the initial value of Date.prototype.toGMTString is the same
	// Function object that is the initial value of Date.prototype.toUTCString."
	add(Row{Owner: "Date.prototype", Name: "toGMTString", Kind: KFunction, Attrs: attrsMethod, Len: 0, Value: "Date.prototype.toUTCString", Ref: "B.2.6",
		Call: str(z+".toGMTString()") + `&&Date.parse(` + z + `.toGMTString())===978293106000&&` + has(z+".toGMTString()", "20:05:06")})
}

// ---- 15.10 RegExp ---------------------------------------------------------------------------------

func regexpRows() {
	ctor("RegExp", 2, "15.10.5 / 15.1.4.8", "15.10.5.1",
		`RegExp("a","g").global===true && new RegExp("a+").test("caat") && (function(){var r=/x/;return RegExp(r)===r && new RegExp(r)!==r})() && new RegExp("a","i").ignoreCase===true`)
	obj("RegExp", "Function", "Function.prototype", true, "15.10.5", "")
	// 15.10.6: "The RegExp prototype object is itself a regular expression object; its [[Class]] is
	// "RegExp". The initial values of the RegExp prototype object's data properties (15.10.7) are set
	// as if the object was created by the expression new RegExp() where RegExp is that standard
	// built-in constructor". new RegExp() has source "(?:)" (15.10.4.1: pattern undefined -> empty).
	obj("RegExp.prototype", "RegExp", "Object.prototype", false, "15.10.6",
		`RegExp.prototype.test("anything")===true && RegExp.prototype.exec("abc")[0]==="" && RegExp.prototype.toString()===new RegExp().toString()`)
	// 15.10.7.1-5 on the prototype
	data("RegExp.prototype", "source", KString, attrsConst, "new RegExp().source", "15.10.6 + 15.10.7.1")
	data("RegExp.prototype", "global", KBoolean, attrsConst, "false", "15.10.6 + 15.10.7.2")
	data("RegExp.prototype", "ignoreCase", KBoolean, attrsConst, "false", "15.10.6 + 15.10.7.3")
	data("RegExp.prototype", "multiline", KBoolean, attrsConst, "false", "15.10.6 + 15.10.7.4")
	data("RegExp.prototype", "lastIndex", KNumber, attrsLength, "0", "15.10.6 + 15.10.7.5")

	fn("RegExp.prototype", "exec", 1, "15.10.6.2", `(function(){var m=/b(c)/.exec("abcd");return m[0]==="bc"&&m[1]==="c"&&m.index===1&&m.input==="abcd"&&m.length===2&&/x/.exec("a")===null})()`)
	fn("RegExp.prototype", "test", 1, "15.10.6.3", `/b/.test("abc")===true&&/x/.test("abc")===false`)
	fn("RegExp.prototype", "toString", 0, "15.10.6.4", `/a+b/gi.toString()==="/a+b/gi"&&String(/x/m)==="/x/m"`)
}

// ---- 15.11 Error ----------------------------------------------------------------------------------

func errorRows() {
	ctor("Error", 1, "15.11.3 / 15.1.4.9", "15.11.3.1",
		`Error("m").message==="m" && new Error("m") instanceof Error && Error("m") instanceof Error && Error("m").name==="Error" && new Error(5).message==="5" && Object.getPrototypeOf(new Error())===Error.prototype`)
	obj("Error", "Function", "Function.prototype", true, "15.11.3", "")
	// 15.11.4: "The Error prototype object is itself an Error object (its [[Class]] is "Error")";
	// [[Prototype]] Object.prototype.
	obj("Error.prototype", "Error", "Object.prototype", false, "15.11.4", "")
	data("Error.prototype", "name", KString, attrsMethod, `"Error"`, "15.11.4.2")
	data("Error.prototype", "message", KString, attrsMethod, `""`, "15.11.4.3")
	fn("Error.prototype", "toString", 0, "15.11.4.4", `new Error("m").toString()==="Error: m"&&Error.prototype.toString.call({name:"N",message:""})==="N"&&Error.prototype.toString.call({})==="Error"&&Error.prototype.toString.call({name:"",message:"M"})==="M"`)

	// 15.11.6 / 15.11.7 NativeError
	for _, ne := range []struct{ name, ref string }{
		{"EvalError", "15.11.6.1 / 15.1.4.10"}, {"RangeError", "15.11.6.2 / 15.1.4.11"}, {"ReferenceError", "15.11.6.3 / 15.1.4.12"},
		{"SyntaxError", "15.11.6.4 / 15.1.4.13"}, {"TypeError", "15.11.6.5 / 15.1.4.14"}, {"URIError", "15.11.6.6 / 15.1.4.15"},
	} {
		n := ne.name
		other := "RangeError"
		if n == "RangeError" {
			other = "TypeError"
		}
		ctor(n, 1, ne.ref+" + 15.11.7.5", "15.11.7.6",
			`new `+n+`("m") instanceof `+n+` && `+n+`("m") instanceof `+n+` && `+n+`("m") instanceof Error && `+n+`("m").name==="`+n+`" && `+n+`("m").message==="m" && !(new `+n+`("m") instanceof `+other+`) && new `+n+`("m").toString()==="`+n+`: m" && Object.getPrototypeOf(`+n+`())===`+n+`.prototype`)
		// 15.11.7.5: [[Prototype]] of a NativeError constructor is the Function prototype object.
		obj(n, "Function", "Function.prototype", true, "15.11.7.5", "")
		// 15.11.7.7: "Each NativeError prototype object is an Error object (its [[Class]] is "Error").
		// The value of the internal [[Prototype]] property of each NativeError prototype object is the
		// standard built-in Error prototype object".
		obj(n+".prototype", "Error", "Error.prototype", false, "15.11.7.7", "")
		data(n+".prototype", "name", KString, attrsMethod, `"`+n+`"`, "15.11.7.9")
		data(n+".prototype", "message", KString, attrsMethod, `""`, "15.11.7.10")
	}
}

// ---- 15.12 JSON -----------------------------------------------------------------------------------

func jsonRows() {
	// 15.12: [[Prototype]] Object.prototype, [[Class]] "JSON", [[Extensible]] true, no [[Construct]], no [[Call]].
	obj("JSON", "JSON", "Object.prototype", false, "15.12", typeErr+`(function(){new JSON()}) && `+typeErr+`(function(){JSON()})`)
	fn("JSON", "parse", 2, "15.12.2", `JSON.parse("[1,{\"a\":2}]")[1].a===2&&JSON.parse("[1,2]",function(k,v){return typeof v==="number"?v*2:v}).join()==="2,4"&&JSON.parse(" true ")===true`)
	fn("JSON", "stringify", 3, "15.12.3", `JSON.stringify({a:[1,"x"]})==="{\"a\":[1,\"x\"]}"&&JSON.stringify([1],null,1)==="[\n 1\n]"&&JSON.stringify(undefined)===undefined&&JSON.stringify({a:1,b:2},["b"])==="{\"b\":2}"`)
}

// ---- properties of instances (13.2, 10.6, 15.3.4.5, 15.3.5, 15.4.5, 15.5.5, 15.10.7, 15.11.5) ----------

func instanceRows() {
	f := `(function(a,b){})`
	// 13.2 step 15: length { [[Writable]]: false, [[Enumerable]]: false, [[Configurable]]: false }
	inst(f, "length", KNumber, attrsConst, "2", "13.2 / 15.3.5.1")
	// 13.2 step 18: prototype { [[Writable]]: true, [[Enumerable]]: false, [[Configurable]]: false }
	inst(f, "prototype", KObject, attrsLength, "", "13.2 / 15.3.5.2")
	// 13.2 step 17: prototype.constructor { [[Writable]]: true, [[Enumerable]]: false, [[Configurable]]: true }
	add(Row{Owner: f + ".prototype", Name: "constructor", Kind: KCallable, Attrs: attrsMethod, Ref: "13.2 step 17", Inst: true,
		Call: `(function(){var f=function(){};return f.prototype.constructor===f && Object.getPrototypeOf(f.prototype)===Object.prototype})()`})
	objInst(f, "Function", "Function.prototype", true, "13.2", "")
	inst(`new Function("a","b","c","return a")`, "length", KNumber, attrsConst, "3", "15.3.2.1 / 15.3.5.1")
	inst(`new Function("a","b","c","return a")`, "prototype", KObject, attrsLength, "", "15.3.2.1 / 15.3.5.2")

	// 15.3.4.5 bound functions: length = max(0, target.length - bound args), attributes of step 16;
	// steps 20-21: caller and arguments are [[ThrowTypeError]] accessors {E:false, C:false};
	// "Function objects created using Function.prototype.bind do not have a prototype property".
	b := `(function(a,b,c){}).bind(null,1)`
	inst(b, "length", KNumber, attrsConst, "2", "15.3.4.5 steps 15-17")
	inst(b, "prototype", KAbsent, AttrsAny, "", "15.3.4.5 NOTE")
	inst(b, "caller", KThrower, attrsConst, "", "15.3.4.5 step 20")
	inst(b, "arguments", KThrower, attrsConst, "", "15.3.4.5 step 21")
	inst(`(function(a){}).bind(null,1,2,3)`, "length", KNumber, attrsConst, "0", "15.3.4.5 step 15")
	objInst(b, "Function", "Function.prototype", true, "15.3.4.5 steps 4-6",
		`(function(){function P(x,y){this.x=x;this.y=y} var B=P.bind(null,1); var o=new B(2); return o.x===1&&o.y===2&&o instanceof P})()`)

	// 15.4.5.2: length { [[Writable]]: true, [[Enumerable]]: false, [[Configurable]]: false }; elements are
	// ordinary data properties created by [[DefineOwnProperty]] with all attributes true (11.1.4).
	inst(`[7,8]`, "length", KNumber, attrsLength, "2", "15.4.5.2")
	inst(`[7,8]`, "1", KNumber, attrsElement, "8", "11.1.4")
	inst(`new Array(3)`, "length", KNumber, attrsLength, "3", "15.4.2.2 / 15.4.5.2")
	inst(`new Array(3)`, "0", KAbsent, AttrsAny, "", "15.4.2.2")
	objInst(`[7,8]`, "Array", "Array.prototype", false, "15.4.2.1", "")

	// 15.5.5.1: length non-writable, non-enumerable, non-configurable; 15.5.5.2: index properties
	// { [[Writable]]: false, [[Enumerable]]: true, [[Configurable]]: false }
	inst(`new String("ab")`, "length", KNumber, attrsConst, "2", "15.5.5.1")
	inst(`new String("ab")`, "1", KString, attrsStrIdx, `"b"`, "15.5.5.2")
	inst(`new String("ab")`, "2", KAbsent, AttrsAny, "", "15.5.5.2")
	objInst(`new String("ab")`, "String", "String.prototype", false, "15.5.2.1", `new String("ab").valueOf()==="ab"`)
	objInst(`new Boolean(true)`, "Boolean", "Boolean.prototype", false, "15.6.2.1", `Object.getOwnPropertyNames(new Boolean(true)).length===0`)
	objInst(`new Number(3)`, "Number", "Number.prototype", false, "15.7.2.1", `Object.getOwnPropertyNames(new Number(3)).length===0`)
	objInst(`new Date(0)`, "Date", "Date.prototype", false, "15.9.3.2", `Object.getOwnPropertyNames(new Date(0)).length===0`)
	objInst(`({})`, "Object", "Object.prototype", false, "11.1.5", `Object.getOwnPropertyNames({}).length===0`)
	objInst(`new Object()`, "Object", "Object.prototype", false, "15.2.2.1", "")

	// 15.10.7: source, global, ignoreCase, multiline non-writable/non-enumerable/non-configurable;
	// lastIndex { [[Writable]]: true, [[Enumerable]]: false, [[Configurable]]: false }
	inst(`/a+/gi`, "source", KString, attrsConst, `"a+"`, "15.10.7.1")
	inst(`/a+/gi`, "global", KBoolean, attrsConst, "true", "15.10.7.2")
	inst(`/a+/gi`, "ignoreCase", KBoolean, attrsConst, "true", "15.10.7.3")
	inst(`/a+/gi`, "multiline", KBoolean, attrsConst, "false", "15.10.7.4")
	inst(`/a+/gi`, "lastIndex", KNumber, attrsLength, "0", "15.10.7.5")
	inst(`new RegExp("x","m")`, "multiline", KBoolean, attrsConst, "true", "15.10.7.4")
	inst(`new RegExp("x","m")`, "global", KBoolean, attrsConst, "false", "15.10.7.2")
	objInst(`/a+/gi`, "RegExp", "RegExp.prototype", false, "15.10.4.1", "")

	// 15.11.1.1 / 15.11.2.1: message own property only when the argument is not undefined (its
	// attributes are not fixed by ES5.1); 15.11.5: "Error instances [...] have no special properties":
	// name is inherited.
	inst(`new Error("m")`, "message", KString, AttrsAny, `"m"`, "15.11.2.1")
	inst(`new Error()`, "message", KAbsent, AttrsAny, "", "15.11.2.1")
	inst(`new Error("m")`, "name", KAbsent, AttrsAny, "", "15.11.5")
	inst(`new TypeError("m")`, "message", KString, AttrsAny, `"m"`, "15.11.7.4")
	inst(`new TypeError()`, "message", KAbsent, AttrsAny, "", "15.11.7.4")
	inst(`new TypeError("m")`, "name", KAbsent, AttrsAny, "", "15.11.7.11")
	objInst(`new Error("m")`, "Error", "Error.prototype", false, "15.11.2.1", "")
	// 15.11.7.2 / 15.11.7.4: [[Class]] of a NativeError instance is "Error"
	for _, n := range []string{"EvalError", "RangeError", "ReferenceError", "SyntaxError", "TypeError", "URIError"} {
		objInst(`new `+n+`("m")`, "Error", n+".prototype", false, "15.11.7.4", "")
	}
	// errors raised by the implementation itself have the same shape
	objInst(`(function(){try{null.x}catch(e){return e}})()`, "Error", "TypeError.prototype", false, "11.2.1 / 15.11.7.4", "")
	objInst(`(function(){try{undefinedVariable}catch(e){return e}})()`, "Error", "ReferenceError.prototype", false, "8.7.1 / 15.11.7.4", "")
	objInst(`(function(){try{new Array(-1)}catch(e){return e}})()`, "Error", "RangeError.prototype", false, "15.4.2.2 / 15.11.7.4", "")
	objInst(`(function(){try{eval("(")}catch(e){return e}})()`, "Error", "SyntaxError.prototype", false, "15.1.2.1 / 15.11.7.4", "")
	objInst(`(function(){try{decodeURI("%")}catch(e){return e}})()`, "Error", "URIError.prototype", false, "15.1.3 / 15.11.7.4", "")

	// 10.6 arguments object (non-strict): [[Class]] "Arguments", [[Prototype]] Object.prototype,
	// length {W:true,E:false,C:true}, indices {W:true,E:true,C:true}, callee {W:true,E:false,C:true}
	a := `(function(){return arguments})(7,8)`
	inst(a, "length", KNumber, attrsMethod, "2", "10.6 step 7")
	inst(a, "1", KNumber, attrsElement, "8", "10.6 step 11.b")
	add(Row{Owner: a, Name: "callee", Kind: KCallable, Attrs: attrsMethod, Ref: "10.6 step 13", Inst: true,
		Call: `(function f(){return arguments.callee===f})()`})
	objInst(a, "Arguments", "Object.prototype", false, "10.6 steps 2-4", "")
}

// ---- extensions that ES5.1 does not list (tolerated; must be non-enumerable; bound to their name) ---

func extensionRows() {
	near := func(e, want string) string { return "Math.abs((" + e + ")-(" + want + "))<1e-12" }
	ext("Object", "assign", "ES2015 19.1.2.1", `(function(){var t={a:1};var r=Object.assign(t,{b:2},{a:3});return r===t&&t.a===3&&t.b===2})()`)
	ext("Object", "values", "ES2017 19.1.2.21", `Object.values({a:1,b:"x"}).join()==="1,x"`)
	ext("Number", "isNaN", "ES2015 20.1.2.4", `Number.isNaN(0/0)===true&&Number.isNaN("x")===false&&Number.isNaN(1)===false`)
	ext("String.prototype", "startsWith", "ES2015 21.1.3.18", `"abc".startsWith("ab")===true&&"abc".startsWith("bc")===false&&"abc".startsWith("")===true`)
	ext("String.prototype", "trimLeft", "ES2019 B.2.3.15", `"  a  ".trimLeft()==="a  "`)
	ext("String.prototype", "trimRight", "ES2019 B.2.3.16", `"  a  ".trimRight()==="  a"`)
	ext("String.prototype", "trimStart", "ES2019 21.1.3.26", `"  a  ".trimStart()==="a  "`)
	ext("String.prototype", "trimEnd", "ES2019 21.1.3.25", `"  a  ".trimEnd()==="  a"`)
	ext("Math", "acosh", "ES2015 20.2.2.3", `Math.acosh(1)===0&&`+near("Math.acosh(2)", "1.3169578969248166"))
	ext("Math", "asinh", "ES2015 20.2.2.5", `Math.asinh(0)===0&&`+near("Math.asinh(1)", "0.881373587019543"))
	ext("Math", "atanh", "ES2015 20.2.2.7", `Math.atanh(0)===0&&`+near("Math.atanh(0.5)", "0.5493061443340548"))
	ext("Math", "cbrt", "ES2015 20.2.2.9", near("Math.cbrt(27)", "3")+`&&`+near("Math.cbrt(-8)", "-2"))
	ext("Math", "cosh", "ES2015 20.2.2.13", `Math.cosh(0)===1&&`+near("Math.cosh(1)", "1.5430806348152437"))
	ext("Math", "expm1", "ES2015 20.2.2.15", `Math.expm1(0)===0&&`+near("Math.expm1(1)", "1.718281828459045"))
	ext("Math", "log10", "ES2015 20.2.2.21", near("Math.log10(1000)", "3")+`&&Math.log10(1)===0`)
	ext("Math", "log1p", "ES2015 20.2.2.20", `Math.log1p(0)===0&&`+near("Math.log1p(1)", "0.6931471805599453"))
	ext("Math", "log2", "ES2015 20.2.2.22", near("Math.log2(8)", "3")+`&&Math.log2(1)===0`)
	ext("Math", "sinh", "ES2015 20.2.2.31", `Math.sinh(0)===0&&`+near("Math.sinh(1)", "1.1752011936438014"))
	ext("Math", "tanh", "ES2015 20.2.2.34", `Math.tanh(0)===0&&`+near("Math.tanh(1)", "0.7615941559557649"))
	ext("Math", "trunc", "ES2015 20.2.2.35", `Math.trunc(1.7)===1&&Math.trunc(-1.7)===-1`)
	for _, n := range []string{"EvalError", "RangeError", "ReferenceError", "SyntaxError", "TypeError", "URIError"} {
		ext(n+".prototype", "toString", "as 15.11.4.4", n+`.prototype.toString.call({name:"N",message:"M"})==="N: M"&&new `+n+`("m").toString()==="`+n+`: m"`)
	}
}
