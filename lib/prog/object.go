package prog

import (
	"sort"
	"strconv"
)

// ---- object internal methods (8.12) -----------------------------------------------------------------

func (in *Interp) newObject(proto *Obj) *Obj {
	in.objSeq++
	return &Obj{Class: "Object", Proto: proto, Props: map[string]*Prop{}, Extensible: true, ID: in.objSeq}
}

func (o *Obj) getOwn(name string) *Prop {
	return o.Props[name]
}

func (o *Obj) getProp(name string) *Prop {
	for p := o; p != nil; p = p.Proto {
		if pr := p.Props[name]; pr != nil {
			return pr
		}
	}
	return nil
}

// get is [[Get]] (8.12.3) with the arguments-object override (10.6).
func (in *Interp) get(o *Obj, name string) Value { return in.getWithThis(o, name, o) }

func (in *Interp) getWithThis(o *Obj, name string, this Value) Value {
	if o.ParamMap != nil {
		if bn, ok := o.ParamMap[name]; ok {
			in.flag("arguments-mapped-read")
			return o.ArgEnv.vars[bn].value
		}
	}
	pr := o.getProp(name)
	if pr == nil {
		if o.callable() && (name == "name" || name == "caller" || name == "arguments") {
			panic(Discard{"function." + name + " is an implementation extension"})
		}
		return Undefined
	}
	if !pr.Accessor {
		return pr.Value
	}
	if pr.Get == nil {
		return Undefined
	}
	return in.call(pr.Get, this, nil)
}

// canPut is [[CanPut]] (8.12.4).
func (o *Obj) canPut(name string) bool {
	if pr := o.Props[name]; pr != nil {
		if pr.Accessor {
			return pr.Set != nil
		}
		return pr.Writable
	}
	if o.Proto == nil {
		return o.Extensible
	}
	inh := o.Proto.getProp(name)
	if inh == nil {
		return o.Extensible
	}
	if inh.Accessor {
		return inh.Set != nil
	}
	if !o.Extensible {
		return false
	}
	return inh.Writable
}

// put is [[Put]] (8.12.5) with Throw=false (non-strict code), receiver this (primitive bases use a
// transient wrapper: 8.7.2).
func (in *Interp) put(o *Obj, name string, v Value, this Value) {
	if !o.canPut(name) {
		return
	}
	own := o.Props[name]
	if own != nil && !own.Accessor {
		if _, isPrimBase := this.(*Obj); !isPrimBase {
			return // 8.7.2 step 4/6 on a primitive base: own data property of the wrapper → reject silently
		}
		in.defineOwn(o, name, &Prop{Value: v}, map[string]bool{"value": true})
		return
	}
	if pr := o.getProp(name); pr != nil && pr.Accessor {
		in.call(pr.Set, this, []Value{v})
		return
	}
	if _, ok := this.(*Obj); !ok {
		return // primitive base: no property is created (8.7.2 step 7)
	}
	in.defineOwn(o, name, &Prop{Value: v, Writable: true, Enumerable: true, Configurable: true},
		map[string]bool{"value": true, "writable": true, "enumerable": true, "configurable": true})
}

// deleteProp is [[Delete]] (8.12.7), Throw=false.
func (in *Interp) deleteProp(o *Obj, name string) bool {
	pr := o.Props[name]
	if pr == nil {
		return true
	}
	if o.ParamMap != nil {
		delete(o.ParamMap, name)
	}
	if !pr.Configurable {
		return false
	}
	delete(o.Props, name)
	for i, k := range o.Order {
		if k == name {
			o.Order = append(o.Order[:i:i], o.Order[i+1:]...)
			break
		}
	}
	return true
}

// defineOwn is [[DefineOwnProperty]] (8.12.9) restricted to what the interpreter needs (Throw=false):
// fields lists which attributes of desc are present. Arrays get the 15.4.5.1 length bookkeeping for
// index properties; arguments objects the 10.6 map update.
func (in *Interp) defineOwn(o *Obj, name string, desc *Prop, fields map[string]bool) bool {
	cur := o.Props[name]
	if cur == nil {
		if !o.Extensible {
			return false
		}
		np := *desc
		o.Props[name] = &np
		o.Order = append(o.Order, name)
		if o.Class == "Array" {
			if idx, ok := isArrayIndex(name); ok {
				lp := o.Props["length"]
				if float64(idx) >= lp.Value.(float64) {
					lp.Value = float64(idx) + 1
				}
			}
		}
		return true
	}
	if !cur.Configurable {
		if fields["configurable"] && desc.Configurable {
			return false
		}
		if fields["enumerable"] && desc.Enumerable != cur.Enumerable {
			return false
		}
		if !cur.Accessor && !cur.Writable {
			if fields["writable"] && desc.Writable {
				return false
			}
			if fields["value"] && !sameValue(desc.Value, cur.Value) {
				return false
			}
		}
	}
	if fields["value"] && o.Class == "Array" && name == "length" {
		// 15.4.5.1 step 3: newLen = ToUint32(V), RangeError unless it equals ToNumber(V) (both
		// conversions are observable on an object); elements at or above newLen are deleted downwards,
		// stopping above the first one that cannot be deleted.
		if _, isObj := desc.Value.(*Obj); isObj {
			in.flag("array-length-from-object")
		}
		newLen := in.toUint32(desc.Value)
		if float64(newLen) != in.toNumber(desc.Value) {
			panic(in.throwError("RangeError", "Invalid array length"))
		}
		if !cur.Writable {
			return sameValue(float64(newLen), cur.Value)
		}
		var idxs []uint32
		for k := range o.Props {
			if idx, ok := isArrayIndex(k); ok && idx >= newLen {
				idxs = append(idxs, idx)
			}
		}
		sort.Slice(idxs, func(i, j int) bool { return idxs[i] > idxs[j] })
		for _, idx := range idxs {
			if !in.deleteProp(o, strconv.FormatUint(uint64(idx), 10)) {
				cur.Value = float64(idx) + 1
				return false
			}
		}
		cur.Value = float64(newLen)
		return true
	}
	if fields["value"] {
		cur.Value = desc.Value
		if o.ParamMap != nil {
			if bn, ok := o.ParamMap[name]; ok {
				in.flag("arguments-mapped-write")
				o.ArgEnv.vars[bn].value = desc.Value
			}
		}
	}
	if fields["writable"] {
		cur.Writable = desc.Writable
	}
	if fields["enumerable"] {
		cur.Enumerable = desc.Enumerable
	}
	if fields["configurable"] {
		cur.Configurable = desc.Configurable
	}
	return true
}

func sameValue(a, b Value) bool {
	x, ok1 := a.(float64)
	y, ok2 := b.(float64)
	if ok1 && ok2 {
		if x != x && y != y {
			return true
		}
		if x == 0 && y == 0 {
			return (1/x < 0) == (1/y < 0)
		}
		return x == y
	}
	return strictEquals(a, b)
}

func (o *Obj) hasProperty(name string) bool { return o.getProp(name) != nil }

// defData adds a data property without checks (object construction).
func (o *Obj) defData(name string, v Value, w, e, c bool) {
	if _, ok := o.Props[name]; !ok {
		o.Order = append(o.Order, name)
	}
	o.Props[name] = &Prop{Value: v, Writable: w, Enumerable: e, Configurable: c}
}

// enumerate returns the for-in sequence (12.6.4): own enumerable names in insertion order, then the
// prototype chain's, a name shadowed by any earlier own property (enumerable or not) is not repeated.
// shadowed reports whether such shadowing occurred (known-finding class: otto repeats the name).
func (o *Obj) enumerate() (names []string, shadowed bool) {
	seen := map[string]bool{}
	for p := o; p != nil; p = p.Proto {
		keys := p.Order
		if p.Class == "Array" || p.Class == "Arguments" {
			// index properties first in ascending order is what every engine does; generated programs do
			// not depend on the order anyway (order-insensitive bodies only).
			keys = append([]string(nil), p.Order...)
		}
		for _, k := range keys {
			pr := p.Props[k]
			if pr == nil {
				continue
			}
			if seen[k] {
				if pr.Enumerable {
					shadowed = true
				}
				continue
			}
			seen[k] = true
			if pr.Enumerable {
				names = append(names, k)
			}
		}
	}
	return names, shadowed
}

func (in *Interp) newArray(elems []Value) *Obj {
	a := in.newObject(in.ArrayProto)
	a.Class = "Array"
	a.defData("length", float64(len(elems)), true, false, false)
	for i, v := range elems {
		a.defData(strconv.Itoa(i), v, true, true, true)
	}
	return a
}
