// Package prog is the "semantic" side of minijs (DESIGN §3): a small ES5 syntax tree for closed,
// terminating programs, a printer, a generator and a reference evaluator written from ES5.1
// §8, §10–§13 and the parts of §15 the generated programs can reach. It shares no code with otto.
package prog

import (
	"fmt"
	"strconv"
	"strings"
)

// Node is a uniform, JSON-serialisable syntax tree node (so that cases replay from files).
type Node struct {
	K string  `json:"k"`           // kind
	S string  `json:"s,omitempty"` // operator / name / string payload
	N float64 `json:"n,omitempty"` // numeric payload
	C []*Node `json:"c,omitempty"` // children
}

func N(k string, c ...*Node) *Node            { return &Node{K: k, C: c} }
func NS(k, s string, c ...*Node) *Node        { return &Node{K: k, S: s, C: c} }
func Num(x float64) *Node                     { return &Node{K: "num", N: x} }
func Str(s string) *Node                      { return &Node{K: "str", S: s} }
func Id(name string) *Node                    { return &Node{K: "id", S: name} }
func Bin(op string, l, r *Node) *Node         { return &Node{K: "bin", S: op, C: []*Node{l, r}} }
func Call(callee *Node, args ...*Node) *Node  { return &Node{K: "call", C: append([]*Node{callee}, args...)} }
func Dot(obj *Node, name string) *Node        { return &Node{K: "dot", S: name, C: []*Node{obj}} }
func ExprStmt(e *Node) *Node                  { return N("expr", e) }
func Block(stmts ...*Node) *Node              { return N("block", stmts...) }
func Empty() *Node                            { return N("none") }
func (n *Node) isNone() bool                  { return n == nil || n.K == "none" }

/*
Kinds.

Expressions
  num(N) str(S) bool(S="true"/"false") null undef this id(S)
  bin(S op; l r)       op ∈ + - * / % < > <= >= == != === !== & | ^ << >> >>> in instanceof ,
  logic(S "&&"/"||"; l r)
  un(S op; x)          op ∈ - + ! ~ typeof void delete
  assign(S op; target value)   op ∈ = += -= *= %= &= |= ^= <<= >>= >>>=   target: id | dot | idx
  preupd(S "++"/"--"; target)  postupd(S; target)
  cond(t a b)
  dot(S name; obj)  idx(obj key)
  call(callee args...)  new(callee args...)
  func(S name-or-""; params body)    params = params(id...)   body = block
  obj(prop(S key; value) | getter(S key; body) | setter(S key; param-id body) ...)
  arr(elems...)
  eval(S "direct"/"indirect"; program)
Statements
  var(decl(S name; init?)...)  expr(e)  if(t then else?)  for(init test update body) (none for absent; init may be var)
  forin(S "var"/"" ; target obj body)   target = id
  while(t body) dowhile(body t) break(S label) continue(S label) return(e?) throw(e)
  switch(disc case(test stmts...)... ) where default = case with test none and S="default"
  try(block catch? finally?)  catch = catch(S param; block)  absent = none
  label(S; stmt) block(stmts...) funcdecl(S name; params body) empty with(obj stmt) debugger
  program(stmts...)
*/

// ---- printer ------------------------------------------------------------------------------------

// Print renders the tree as ES5 source, fully parenthesised (operator precedence is C03's subject).
func Print(n *Node) string {
	var p printer
	p.node(n, 0)
	return p.b.String()
}

type printer struct{ b strings.Builder }

func (p *printer) w(s string) { p.b.WriteString(s) }

func (p *printer) indent(d int) { p.w(strings.Repeat(" ", d)) }

func quoteJS(s string) string {
	var b strings.Builder
	b.WriteByte('"')
	for _, r := range s {
		switch {
		case r == '"' || r == '\\':
			b.WriteByte('\\')
			b.WriteRune(r)
		case r == '\n':
			b.WriteString("\\n")
		case r == '\r':
			b.WriteString("\\r")
		case r == '\t':
			b.WriteString("\\t")
		case r < 0x20 || r == 0x7f || r == 0x2028 || r == 0x2029:
			fmt.Fprintf(&b, "\\u%04X", r)
		default:
			b.WriteRune(r)
		}
	}
	b.WriteByte('"')
	return b.String()
}

func numLit(x float64) string {
	if x < 0 || (x == 0 && 1/x < 0) {
		return "(-" + numLit(-x) + ")"
	}
	return strconv.FormatFloat(x, 'f', -1, 64)
}

func (p *printer) stmts(list []*Node, d int) {
	for _, s := range list {
		p.node(s, d)
	}
}

func (p *printer) body(n *Node, d int) { // function body / block contents in braces
	p.w("{\n")
	p.stmts(n.C, d+1)
	p.indent(d)
	p.w("}")
}

func (p *printer) params(n *Node) {
	p.w("(")
	for i, a := range n.C {
		if i > 0 {
			p.w(", ")
		}
		p.w(a.S)
	}
	p.w(")")
}

func (p *printer) sub(n *Node, d int) { // statement in a sub-statement position
	if n.K == "block" {
		p.w(" ")
		p.body(n, d)
		p.w("\n")
		return
	}
	p.w("\n")
	p.node(n, d+1)
}

func (p *printer) node(n *Node, d int) {
	switch n.K {
	case "program":
		p.stmts(n.C, d)
	case "var":
		p.indent(d)
		p.varDecl(n)
		p.w(";\n")
	case "expr":
		p.indent(d)
		p.w("(")
		p.expr(n.C[0])
		p.w(");\n")
	case "if":
		p.indent(d)
		p.w("if (")
		p.expr(n.C[0])
		p.w(")")
		// always brace the branches: no dangling else
		p.w(" {\n")
		p.node(n.C[1], d+1)
		p.indent(d)
		p.w("}")
		if len(n.C) > 2 && !n.C[2].isNone() {
			p.w(" else {\n")
			p.node(n.C[2], d+1)
			p.indent(d)
			p.w("}")
		}
		p.w("\n")
	case "for":
		p.indent(d)
		p.w("for (")
		if !n.C[0].isNone() {
			if n.C[0].K == "var" {
				p.varDecl(n.C[0])
			} else {
				p.expr(n.C[0])
			}
		}
		p.w("; ")
		if !n.C[1].isNone() {
			p.expr(n.C[1])
		}
		p.w("; ")
		if !n.C[2].isNone() {
			p.expr(n.C[2])
		}
		p.w(")")
		p.sub(n.C[3], d)
	case "forin":
		p.indent(d)
		p.w("for (")
		if n.S == "var" {
			p.w("var ")
		}
		p.w(n.C[0].S)
		p.w(" in ")
		p.expr(n.C[1])
		p.w(")")
		p.sub(n.C[2], d)
	case "while":
		p.indent(d)
		p.w("while (")
		p.expr(n.C[0])
		p.w(")")
		p.sub(n.C[1], d)
	case "dowhile":
		p.indent(d)
		p.w("do")
		p.sub(n.C[0], d)
		p.indent(d)
		p.w("while (")
		p.expr(n.C[1])
		p.w(");\n")
	case "break", "continue":
		p.indent(d)
		p.w(n.K)
		if n.S != "" {
			p.w(" " + n.S)
		}
		p.w(";\n")
	case "return":
		p.indent(d)
		p.w("return")
		if len(n.C) > 0 && !n.C[0].isNone() {
			p.w(" ")
			p.expr(n.C[0])
		}
		p.w(";\n")
	case "throw":
		p.indent(d)
		p.w("throw ")
		p.expr(n.C[0])
		p.w(";\n")
	case "switch":
		p.indent(d)
		p.w("switch (")
		p.expr(n.C[0])
		p.w(") {\n")
		for _, c := range n.C[1:] {
			p.indent(d + 1)
			if c.S == "default" {
				p.w("default:\n")
				p.stmts(c.C[1:], d+2)
			} else {
				p.w("case ")
				p.expr(c.C[0])
				p.w(":\n")
				p.stmts(c.C[1:], d+2)
			}
		}
		p.indent(d)
		p.w("}\n")
	case "try":
		p.indent(d)
		p.w("try ")
		p.body(n.C[0], d)
		if !n.C[1].isNone() {
			p.w(" catch (" + n.C[1].S + ") ")
			p.body(n.C[1].C[0], d)
		}
		if !n.C[2].isNone() {
			p.w(" finally ")
			p.body(n.C[2], d)
		}
		p.w("\n")
	case "label":
		p.indent(d)
		p.w(n.S + ":\n")
		p.node(n.C[0], d)
	case "block":
		p.indent(d)
		p.body(n, d)
		p.w("\n")
	case "funcdecl":
		p.indent(d)
		p.w("function " + n.S)
		p.params(n.C[0])
		p.w(" ")
		p.body(n.C[1], d)
		p.w("\n")
	case "empty":
		p.indent(d)
		p.w(";\n")
	case "debugger":
		p.indent(d)
		p.w("debugger;\n")
	case "with":
		p.indent(d)
		p.w("with (")
		p.expr(n.C[0])
		p.w(")")
		p.sub(n.C[1], d)
	default:
		panic("prog.Print: not a statement: " + n.K)
	}
}

func (p *printer) varDecl(n *Node) {
	p.w("var ")
	for i, dcl := range n.C {
		if i > 0 {
			p.w(", ")
		}
		p.w(dcl.S)
		if len(dcl.C) > 0 && !dcl.C[0].isNone() {
			p.w(" = ")
			p.expr(dcl.C[0])
		}
	}
}

func simpleCallee(n *Node) bool {
	switch n.K {
	case "id", "this", "dot", "idx", "call":
		return true
	}
	return false
}

func (p *printer) exprList(list []*Node) {
	for i, a := range list {
		if i > 0 {
			p.w(", ")
		}
		p.expr(a)
	}
}

func (p *printer) member(n *Node) { // operand of . [] () : bare when it is itself a member/call chain
	if simpleCallee(n) {
		p.expr(n)
	} else {
		p.w("(")
		p.expr(n)
		p.w(")")
	}
}

func (p *printer) expr(n *Node) {
	switch n.K {
	case "num":
		p.w(numLit(n.N))
	case "str":
		p.w(quoteJS(n.S))
	case "bool":
		p.w(n.S)
	case "null":
		p.w("null")
	case "undef":
		p.w("(void 0)")
	case "this":
		p.w("this")
	case "id":
		p.w(n.S)
	case "bin":
		p.w("(")
		p.expr(n.C[0])
		p.w(" " + n.S + " ")
		p.expr(n.C[1])
		p.w(")")
	case "logic":
		p.w("(")
		p.expr(n.C[0])
		p.w(" " + n.S + " ")
		p.expr(n.C[1])
		p.w(")")
	case "un":
		p.w("(" + n.S + " ")
		p.expr(n.C[0])
		p.w(")")
	case "assign":
		p.w("(")
		p.expr(n.C[0])
		p.w(" " + n.S + " ")
		p.expr(n.C[1])
		p.w(")")
	case "preupd":
		p.w("(" + n.S)
		p.expr(n.C[0])
		p.w(")")
	case "postupd":
		p.w("(")
		p.expr(n.C[0])
		p.w(n.S + ")")
	case "cond":
		p.w("(")
		p.expr(n.C[0])
		p.w(" ? ")
		p.expr(n.C[1])
		p.w(" : ")
		p.expr(n.C[2])
		p.w(")")
	case "dot":
		p.member(n.C[0])
		p.w("." + n.S)
	case "idx":
		p.member(n.C[0])
		p.w("[")
		p.expr(n.C[1])
		p.w("]")
	case "call":
		p.member(n.C[0])
		p.w("(")
		p.exprList(n.C[1:])
		p.w(")")
	case "new":
		p.w("(new ")
		if n.C[0].K == "id" {
			p.w(n.C[0].S)
		} else {
			p.w("(")
			p.expr(n.C[0])
			p.w(")")
		}
		p.w("(")
		p.exprList(n.C[1:])
		p.w("))")
	case "func":
		p.w("(function")
		if n.S != "" {
			p.w(" " + n.S)
		}
		p.params(n.C[0])
		p.w(" {\n")
		p.stmts(n.C[1].C, 1)
		p.w("})")
	case "obj":
		p.w("({")
		for i, pr := range n.C {
			if i > 0 {
				p.w(", ")
			}
			switch pr.K {
			case "prop":
				p.w(quoteJS(pr.S) + ": ")
				p.expr(pr.C[0])
			case "getter":
				p.w("get " + pr.S + "() {\n")
				p.stmts(pr.C[0].C, 1)
				p.w("}")
			case "setter":
				p.w("set " + pr.S + "(" + pr.C[0].S + ") {\n")
				p.stmts(pr.C[1].C, 1)
				p.w("}")
			}
		}
		p.w("})")
	case "arr":
		p.w("[")
		p.exprList(n.C)
		p.w("]")
	case "eval":
		src := Print(n.C[0])
		if n.S == "direct" {
			p.w("eval(" + quoteJS(src) + ")")
		} else {
			p.w("(0, eval)(" + quoteJS(src) + ")")
		}
	default:
		panic("prog.Print: not an expression: " + n.K)
	}
}
