package prog

import (
	"math"
	"strconv"
	"strings"

	"verif/lib/es5"
)

// NewInterp builds a realm with the part of the ES5 standard library that generated programs use:
// Object/Function/Array/Error prototypes with the methods listed below, the native error
// constructors, eval, and the host function log.
func NewInterp() *Interp {
	in := &Interp{MaxSteps: 200000, MaxDepth: 60, Flags: map[string]int{}, ident: map[*Obj]int{}, ErrorProtos: map[string]*Obj{}}
	in.ObjectProto = in.newObject(nil)
	in.FunctionProto = in.newObject(in.ObjectProto)
	in.FunctionProto.Class = "Function"
	in.FunctionProto.Native = func(*Interp, Value, []Value) Value { return Undefined }
	in.FunctionProto.defData("length", 0.0, false, false, false)
	in.ArrayProto = in.newObject(in.ObjectProto)
	in.ArrayProto.Class = "Array"
	in.ArrayProto.defData("length", 0.0, true, false, false)
	in.NumberProto = in.newObject(in.ObjectProto)
	in.NumberProto.Class, in.NumberProto.Prim = "Number", 0.0
	in.StringProto = in.newObject(in.ObjectProto)
	in.StringProto.Class, in.StringProto.Prim = "String", ""
	in.BooleanProto = in.newObject(in.ObjectProto)
	in.BooleanProto.Class, in.BooleanProto.Prim = "Boolean", false

	in.Global = in.newObject(in.ObjectProto)
	in.Global.Class = "global"
	in.GlobalEnv = &Env{object: in.Global}
	g := in.Global
	g.defData("NaN", math.NaN(), false, false, false)
	g.defData("Infinity", math.Inf(1), false, false, false)
	g.defData("undefined", Undefined, false, false, false)

	method := func(o *Obj, name string, length int, fn func(in *Interp, this Value, args []Value) Value) *Obj {
		f := in.newNative(name, length, fn)
		o.defData(name, f, true, false, true)
		return f
	}

	// Object.prototype
	method(in.ObjectProto, "toString", 0, func(in *Interp, this Value, _ []Value) Value {
		switch this.(type) {
		case undefinedT:
			return "[object Undefined]"
		case nullT:
			return "[object Null]"
		}
		return "[object " + in.toObject(this).classForToString() + "]"
	})
	method(in.ObjectProto, "valueOf", 0, func(in *Interp, this Value, _ []Value) Value { return in.toObject(this) })
	method(in.ObjectProto, "hasOwnProperty", 1, func(in *Interp, this Value, a []Value) Value {
		k := in.toString(argAt(a, 0))
		o := in.toObject(this)
		if o.ParamMap != nil {
			if _, ok := o.ParamMap[k]; ok {
				return true
			}
		}
		return o.Props[k] != nil
	})
	method(in.ObjectProto, "isPrototypeOf", 1, func(in *Interp, this Value, a []Value) Value {
		v, ok := argAt(a, 0).(*Obj)
		if !ok {
			return false
		}
		o := in.toObject(this)
		for v = v.Proto; v != nil; v = v.Proto {
			if v == o {
				return true
			}
		}
		return false
	})
	objectCtor := method(g, "Object", 1, func(in *Interp, this Value, a []Value) Value {
		switch v := argAt(a, 0).(type) {
		case undefinedT, nullT:
			return in.newObject(in.ObjectProto)
		default:
			return in.toObject(v)
		}
	})
	objectCtor.NativeCtor = func(in *Interp, a []Value) Value { return objectCtor.Native(in, Undefined, a) }
	objectCtor.defData("prototype", in.ObjectProto, false, false, false)
	in.ObjectProto.defData("constructor", objectCtor, true, false, true)
	method(objectCtor, "create", 2, func(in *Interp, this Value, a []Value) Value {
		switch p := argAt(a, 0).(type) {
		case nullT:
			return in.newObject(nil)
		case *Obj:
			return in.newObject(p)
		}
		panic(in.throwError("TypeError", "Object prototype may only be an Object or null"))
	})
	method(objectCtor, "getPrototypeOf", 1, func(in *Interp, this Value, a []Value) Value {
		o, ok := argAt(a, 0).(*Obj)
		if !ok {
			panic(in.throwError("TypeError", "Object.getPrototypeOf called on non-object"))
		}
		if o.Proto == nil {
			return Null
		}
		return o.Proto
	})

	// Number / String / Boolean prototypes: valueOf and toString are not generic (15.7.4.2/4, 15.5.4.2/3, 15.6.4.2/3)
	thisPrim := func(in *Interp, this Value, class string) Value {
		switch v := this.(type) {
		case float64:
			if class == "Number" {
				return v
			}
		case string:
			if class == "String" {
				return v
			}
		case bool:
			if class == "Boolean" {
				return v
			}
		case *Obj:
			if v.Class == class && v.Prim != nil {
				return v.Prim
			}
		}
		panic(in.throwError("TypeError", class+".prototype method called on incompatible receiver"))
	}
	for _, cp := range []struct {
		class string
		proto *Obj
	}{{"Number", in.NumberProto}, {"String", in.StringProto}, {"Boolean", in.BooleanProto}} {
		cp := cp
		method(cp.proto, "valueOf", 0, func(in *Interp, this Value, _ []Value) Value { return thisPrim(in, this, cp.class) })
		method(cp.proto, "toString", 0, func(in *Interp, this Value, a []Value) Value {
			v := thisPrim(in, this, cp.class)
			if cp.class == "Number" {
				if _, isU := argAt(a, 0).(undefinedT); !isU {
					if r := in.toNumber(argAt(a, 0)); r != 10 {
						panic(Discard{"Number.prototype.toString(radix)"})
					}
				}
			}
			return in.toString(v)
		})
	}

	// Function.prototype
	method(in.FunctionProto, "toString", 0, func(in *Interp, this Value, _ []Value) Value {
		panic(Discard{"Function.prototype.toString is implementation-defined"})
	})
	method(in.FunctionProto, "call", 1, func(in *Interp, this Value, a []Value) Value {
		f, ok := this.(*Obj)
		if !ok || !f.callable() {
			panic(in.throwError("TypeError", "Function.prototype.call on non-function"))
		}
		in.flag("call-method")
		var rest []Value
		if len(a) > 1 {
			rest = a[1:]
		}
		return in.call(f, argAt(a, 0), rest)
	})
	method(in.FunctionProto, "apply", 2, func(in *Interp, this Value, a []Value) Value {
		f, ok := this.(*Obj)
		if !ok || !f.callable() {
			panic(in.throwError("TypeError", "Function.prototype.apply on non-function"))
		}
		in.flag("apply-method")
		var args []Value
		switch arr := argAt(a, 1).(type) {
		case undefinedT, nullT:
		case *Obj:
			n := in.toUint32(in.get(arr, "length"))
			if n > 1000 {
				panic(Discard{"huge apply"})
			}
			for i := uint32(0); i < n; i++ {
				args = append(args, in.get(arr, strconv.Itoa(int(i))))
			}
		default:
			panic(in.throwError("TypeError", "second argument to apply must be an array-like object"))
		}
		return in.call(f, argAt(a, 0), args)
	})
	method(in.FunctionProto, "bind", 1, func(in *Interp, this Value, a []Value) Value {
		f, ok := this.(*Obj)
		if !ok || !f.callable() {
			panic(in.throwError("TypeError", "Function.prototype.bind on non-function"))
		}
		in.flag("bind-method")
		b := in.newObject(in.FunctionProto)
		b.Class = "Function"
		b.BoundTarget = f
		b.BoundThis = argAt(a, 0)
		if len(a) > 1 {
			b.BoundArgs = append([]Value(nil), a[1:]...)
		}
		l := 0.0
		if f.Class == "Function" {
			if tl, ok := in.get(f, "length").(float64); ok {
				l = math.Max(0, tl-float64(len(b.BoundArgs)))
			}
		}
		b.defData("length", l, false, false, false)
		return b
	})
	functionCtor := in.newNative("Function", 1, func(in *Interp, this Value, a []Value) Value {
		panic(Discard{"Function constructor"})
	})
	functionCtor.defData("prototype", in.FunctionProto, false, false, false)
	in.FunctionProto.defData("constructor", functionCtor, true, false, true)
	g.defData("Function", functionCtor, true, false, true)

	// Array
	join := func(in *Interp, this Value, a []Value) Value {
		o := in.toObject(this)
		n := in.toUint32(in.get(o, "length"))
		sep := ","
		if s, ok := argAt(a, 0).(undefinedT); !ok {
			_ = s
			sep = in.toString(argAt(a, 0))
		}
		if n > 1000 {
			panic(Discard{"huge join"})
		}
		parts := make([]string, n)
		for i := uint32(0); i < n; i++ {
			switch e := in.get(o, strconv.Itoa(int(i))).(type) {
			case undefinedT, nullT:
			default:
				parts[i] = in.toString(e)
			}
		}
		return strings.Join(parts, sep)
	}
	method(in.ArrayProto, "join", 1, join)
	method(in.ArrayProto, "toString", 0, func(in *Interp, this Value, a []Value) Value {
		o := in.toObject(this)
		if f, ok := in.get(o, "join").(*Obj); ok && f.callable() {
			return in.call(f, o, nil)
		}
		return "[object " + o.classForToString() + "]"
	})
	method(in.ArrayProto, "push", 1, func(in *Interp, this Value, a []Value) Value {
		o := in.toObject(this)
		n := float64(in.toUint32(in.get(o, "length")))
		for _, v := range a {
			in.put(o, es5.NumberToString(n), v, o)
			n++
		}
		in.put(o, "length", n, o)
		return n
	})
	arrayCtor := in.newNative("Array", 1, func(in *Interp, this Value, a []Value) Value {
		if len(a) == 1 {
			if _, isNum := a[0].(float64); isNum {
				panic(Discard{"Array(len)"})
			}
		}
		return in.newArray(a)
	})
	arrayCtor.NativeCtor = func(in *Interp, a []Value) Value { return arrayCtor.Native(in, Undefined, a) }
	arrayCtor.defData("prototype", in.ArrayProto, false, false, false)
	in.ArrayProto.defData("constructor", arrayCtor, true, false, true)
	g.defData("Array", arrayCtor, true, false, true)
	method(arrayCtor, "isArray", 1, func(in *Interp, this Value, a []Value) Value {
		o, ok := argAt(a, 0).(*Obj)
		return ok && o.Class == "Array"
	})

	// Errors (15.11)
	mkErr := func(name string, proto *Obj) *Obj {
		var ctor *Obj
		ctor = in.newNative(name, 1, func(in *Interp, this Value, a []Value) Value {
			e := in.newObject(ctor.Props["prototype"].Value.(*Obj))
			e.Class = "Error"
			if _, isU := argAt(a, 0).(undefinedT); !isU {
				e.defData("message", in.toString(argAt(a, 0)), true, false, true)
			}
			return e
		})
		ctor.NativeCtor = func(in *Interp, a []Value) Value { return ctor.Native(in, Undefined, a) }
		ctor.defData("prototype", proto, false, false, false)
		proto.defData("constructor", ctor, true, false, true)
		proto.defData("name", name, true, false, true)
		proto.defData("message", "", true, false, true)
		g.defData(name, ctor, true, false, true)
		in.ErrorProtos[name] = proto
		return ctor
	}
	in.ErrorProto = in.newObject(in.ObjectProto)
	in.ErrorProto.Class = "Error"
	mkErr("Error", in.ErrorProto)
	method(in.ErrorProto, "toString", 0, func(in *Interp, this Value, _ []Value) Value {
		o, ok := this.(*Obj)
		if !ok {
			panic(in.throwError("TypeError", "Error.prototype.toString on non-object"))
		}
		if o.NativeErr {
			panic(Discard{"message of an interpreter-raised error is implementation-defined"})
		}
		name, msg := "Error", ""
		if v := in.get(o, "name"); v != Undefined {
			name = in.toString(v)
		}
		if v := in.get(o, "message"); v != Undefined {
			msg = in.toString(v)
		}
		if name == "" {
			return msg
		}
		if msg == "" {
			return name
		}
		return name + ": " + msg
	})
	for _, name := range []string{"EvalError", "RangeError", "ReferenceError", "SyntaxError", "TypeError", "URIError"} {
		p := in.newObject(in.ErrorProto)
		p.Class = "Error"
		mkErr(name, p)
	}

	// eval (calls through the eval node; a bare reference to eval is a function value)
	in.evalFn = in.newNative("eval", 1, func(in *Interp, this Value, a []Value) Value {
		if _, isStr := argAt(a, 0).(string); !isStr {
			return argAt(a, 0)
		}
		panic(Discard{"eval of a computed string"})
	})
	g.defData("eval", in.evalFn, true, false, true)

	// host function
	g.defData("log", in.newNative("log", 0, func(in *Interp, this Value, a []Value) Value {
		parts := make([]string, len(a))
		for i, v := range a {
			parts[i] = in.render(v)
		}
		in.Trace = append(in.Trace, strings.Join(parts, "|"))
		return Undefined
	}), true, false, true)
	return in
}

func (o *Obj) classForToString() string {
	if o.Class == "global" {
		panic(Discard{"[[Class]] of the global object is implementation-defined"})
	}
	return o.Class
}

// render is the canonical rendering of a value in the trace: primitives by type and value, objects
// by kind, [[Class]] and first-appearance identity number.
func (in *Interp) render(v Value) string {
	switch v := v.(type) {
	case undefinedT:
		return "undefined"
	case nullT:
		return "null"
	case bool:
		return "boolean:" + strconv.FormatBool(v)
	case float64:
		if v == 0 && math.Signbit(v) {
			return "number:-0"
		}
		return "number:" + es5.NumberToString(v)
	case string:
		return "string:" + strconv.Quote(v)
	case *Obj:
		if v == in.Global {
			return "global"
		}
		id, ok := in.ident[v]
		if !ok {
			id = len(in.ident)
			in.ident[v] = id
		}
		if v.callable() {
			return "function#" + strconv.Itoa(id)
		}
		return "object:" + v.Class + "#" + strconv.Itoa(id)
	}
	panic("render")
}

// renderThrown describes an uncaught exception: "error:<name>" for interpreter-raised errors,
// "error:<name>:<message>" for Error objects made by the program, the value rendering otherwise.
func (in *Interp) renderThrown(v Value) (out string) {
	defer func() {
		if p := recover(); p != nil {
			out = "unrenderable"
		}
	}()
	o, ok := v.(*Obj)
	if !ok {
		return "value:" + in.render(v)
	}
	if o.Class == "Error" {
		name := in.toString(in.get(o, "name"))
		if o.NativeErr {
			return "error:" + name
		}
		return "error:" + name + ":" + in.toString(in.get(o, "message"))
	}
	return "value:" + in.render(v)
}
