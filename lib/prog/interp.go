package prog

import (
	"fmt"
	"math"
	"strconv"
	"strings"
)

// ---- environments (10.2) ------------------------------------------------------------------------------

type binding struct {
	value     Value
	mutable   bool
	deletable bool
}

// Env is a lexical environment: a declarative record (vars) or an object record (object).
type Env struct {
	vars        map[string]*binding
	object      *Obj
	provideThis bool
	outer       *Env
}

func newDeclEnv(outer *Env) *Env { return &Env{vars: map[string]*binding{}, outer: outer} }

func (e *Env) hasBinding(name string) bool {
	if e.object != nil {
		return e.object.hasProperty(name)
	}
	return e.vars[name] != nil
}

// Ref is a Reference (8.7). Base: *Obj, primitive Value (bool/float64/string), *Env, or nil (unresolvable).
type Ref struct {
	base interface{}
	name string
}

// ---- completions (8.9) ------------------------------------------------------------------------------------

type ctype int

const (
	cNormal ctype = iota
	cBreak
	cContinue
	cReturn
	cThrow // throw completions travel as Go panics (*Throw); listed for completeness
)

type completion struct {
	typ    ctype
	value  Value // nil = empty
	target string
}

// Throw is a JS exception in flight.
type Throw struct{ Value Value }

// Discard aborts the evaluation of a case that left the modelled subset (with the reason).
type Discard struct{ Reason string }

type execCtx struct {
	lex, varEnv *Env
	this        Value
	fn          *Obj
}

// Interp is one realm + execution state.
type Interp struct {
	Global                                                                     *Obj
	GlobalEnv                                                                  *Env
	ObjectProto, FunctionProto, ArrayProto, ErrorProto                         *Obj
	NumberProto, StringProto, BooleanProto                                     *Obj
	ErrorProtos                                                                map[string]*Obj
	evalFn                                                                     *Obj
	ctx                                                                        *execCtx
	steps, MaxSteps                                                            int
	evalDepth                                                                  int
	depth, MaxDepth                                                            int
	objSeq                                                                     int
	Trace                                                                      []string
	ident                                                                      map[*Obj]int
	Flags                                                                      map[string]int // known-finding classes / feature counters touched during evaluation
}

func (in *Interp) flag(name string) { in.Flags[name]++ }

func (in *Interp) tick() {
	in.steps++
	if in.steps > in.MaxSteps {
		panic(Discard{"step budget"})
	}
}

// throwError creates a native error object of the given class and returns the *Throw to panic with.
func (in *Interp) throwError(class, msg string) *Throw {
	e := in.newObject(in.ErrorProtos[class])
	e.Class = "Error"
	e.NativeErr = true
	e.defData("message", msg, true, false, true)
	return &Throw{e}
}

// ---- references (8.7) ---------------------------------------------------------------------------------------

func (in *Interp) resolve(name string) Ref {
	for e := in.ctx.lex; e != nil; e = e.outer {
		if e.hasBinding(name) {
			return Ref{base: e, name: name}
		}
	}
	return Ref{base: nil, name: name}
}

func (in *Interp) getValue(r Ref) Value {
	switch b := r.base.(type) {
	case nil:
		panic(in.throwError("ReferenceError", r.name+" is not defined"))
	case *Env:
		if b.object != nil {
			return in.get(b.object, r.name)
		}
		if b.vars[r.name] == nil {
			panic(Discard{"read through a reference to a deleted binding"})
		}
		return b.vars[r.name].value
	case *Obj:
		return in.get(b, r.name)
	default: // primitive base (8.7.1)
		o := in.toObject(b)
		return in.getWithThis(o, r.name, b)
	}
}

func (in *Interp) putValue(r Ref, v Value) {
	switch b := r.base.(type) {
	case nil:
		in.put(in.Global, r.name, v, in.Global)
	case *Env:
		if b.object != nil {
			in.put(b.object, r.name, v, b.object)
			return
		}
		bd := b.vars[r.name]
		if bd == nil {
			// the binding was deleted (eval-declared) between resolving the reference and the assignment:
			// ES5 10.2.1.1.3 only asserts that it exists
			panic(Discard{"assignment through a reference to a deleted binding"})
		}
		if bd.mutable {
			bd.value = v
		} // immutable binding (named function expression): silently ignored in non-strict code
	case *Obj:
		in.put(b, r.name, v, b)
	default:
		o := in.toObject(b)
		in.put(o, r.name, v, b)
	}
}

// ---- functions (13.2) ------------------------------------------------------------------------------------------

func (in *Interp) newFunction(fn *Node, scope *Env) *Obj {
	f := in.newObject(in.FunctionProto)
	f.Class = "Function"
	f.Fn = fn
	f.Scope = scope
	f.defData("length", float64(len(fn.C[0].C)), false, false, false)
	proto := in.newObject(in.ObjectProto)
	proto.defData("constructor", f, true, false, true)
	f.defData("prototype", proto, true, false, false)
	return f
}

func (in *Interp) newNative(name string, length int, fn func(in *Interp, this Value, args []Value) Value) *Obj {
	f := in.newObject(in.FunctionProto)
	f.Class = "Function"
	f.Native = fn
	f.NativeName = name
	f.defData("length", float64(length), false, false, false)
	return f
}

func argAt(args []Value, i int) Value {
	if i < len(args) {
		return args[i]
	}
	return Undefined
}

// call is [[Call]] (13.2.1 / 15.3.4.5.1 / natives).
func (in *Interp) call(f *Obj, this Value, args []Value) Value {
	in.tick()
	if f.BoundTarget != nil {
		return in.call(f.BoundTarget, f.BoundThis, append(append([]Value(nil), f.BoundArgs...), args...))
	}
	if f.Native != nil {
		return f.Native(in, this, args)
	}
	in.depth++
	if in.depth > in.MaxDepth {
		panic(Discard{"call depth"})
	}
	defer func() { in.depth-- }()
	in.flag("call")
	// 10.4.3 entering function code
	var thisBinding Value
	switch this.(type) {
	case undefinedT, nullT:
		thisBinding = in.Global
	case *Obj:
		thisBinding = this
	default:
		thisBinding = in.toObject(this)
	}
	env := newDeclEnv(f.Scope)
	saved := in.ctx
	in.ctx = &execCtx{lex: env, varEnv: env, this: thisBinding, fn: f}
	defer func() { in.ctx = saved }()
	in.declarationBinding(f.Fn.C[1].C, env, f, args, false)
	c := in.stmtList(f.Fn.C[1].C)
	if c.typ == cReturn {
		return c.value
	}
	return Undefined
}

// construct is [[Construct]] (13.2.2 / 15.3.4.5.2).
func (in *Interp) construct(f *Obj, args []Value) Value {
	if f.BoundTarget != nil {
		in.flag("new-bound")
		return in.construct(f.BoundTarget, append(append([]Value(nil), f.BoundArgs...), args...))
	}
	if f.Native != nil {
		if f.NativeCtor == nil {
			panic(in.throwError("TypeError", "not a constructor"))
		}
		return f.NativeCtor(in, args)
	}
	in.flag("new")
	proto := in.ObjectProto
	if p, ok := in.get(f, "prototype").(*Obj); ok {
		proto = p
	}
	obj := in.newObject(proto)
	r := in.call(f, obj, args)
	if ro, ok := r.(*Obj); ok {
		in.flag("ctor-returns-object")
		return ro
	}
	return obj
}

// hasInstance is [[HasInstance]] (15.3.5.3, 15.3.4.5.3).
func (in *Interp) hasInstance(f *Obj, v Value) bool {
	if f.BoundTarget != nil {
		return in.hasInstance(f.BoundTarget, v)
	}
	o, ok := v.(*Obj)
	if !ok {
		return false
	}
	p, ok := in.get(f, "prototype").(*Obj)
	if !ok {
		panic(in.throwError("TypeError", "prototype is not an object"))
	}
	for o = o.Proto; o != nil; o = o.Proto {
		if o == p {
			return true
		}
	}
	return false
}

// declarationBinding is 10.5 for function code (fn != nil), global code and eval code.
func (in *Interp) declarationBinding(body []*Node, env *Env, fn *Obj, args []Value, evalCode bool) {
	hasB := func(name string) bool { return env.hasBinding(name) }
	create := func(name string, v Value) {
		if env.object != nil {
			env.object.defData(name, v, true, true, evalCode)
		} else {
			env.vars[name] = &binding{value: v, mutable: true, deletable: evalCode}
		}
	}
	set := func(name string, v Value) {
		if env.object != nil {
			in.put(env.object, name, v, env.object)
		} else {
			env.vars[name].value = v
		}
	}
	var params []string
	if fn != nil {
		for i, p := range fn.Fn.C[0].C {
			params = append(params, p.S)
			v := argAt(args, i)
			if !hasB(p.S) {
				create(p.S, v)
			} else {
				set(p.S, v)
			}
		}
	}
	var funcs, vars []*Node
	collectDecls(body, &funcs, &vars)
	for _, fd := range funcs {
		fo := in.newFunction(fd, in.ctx.varEnv) // 13: FunctionDeclaration closes over the VariableEnvironment
		if !hasB(fd.S) {
			create(fd.S, fo)
		} else if env.object != nil && env == in.GlobalEnv {
			// 10.5 step 5.e (ES5.1): existing global property: redefine if configurable, else must be a
			// writable enumerable data property (generated programs only redeclare their own functions/vars)
			set(fd.S, fo)
		} else {
			set(fd.S, fo)
		}
	}
	if fn != nil && !hasB("arguments") {
		ao := in.newArguments(fn, params, args, env)
		env.vars["arguments"] = &binding{value: ao, mutable: true}
	}
	for _, name := range varNames(vars) {
		if !hasB(name) {
			create(name, Undefined)
		}
	}
}

func varNames(vars []*Node) []string {
	var out []string
	for _, v := range vars {
		out = append(out, v.S)
	}
	return out
}

// collectDecls gathers function declarations and var-declared names of one function body / program
// in source order, not descending into nested functions.
func collectDecls(list []*Node, funcs, vars *[]*Node) {
	for _, s := range list {
		if s == nil {
			continue
		}
		switch s.K {
		case "funcdecl":
			*funcs = append(*funcs, s)
		case "var":
			for _, d := range s.C {
				*vars = append(*vars, d)
			}
		case "forin":
			if s.S == "var" {
				*vars = append(*vars, s.C[0])
			}
			collectDecls(s.C[2:], funcs, vars)
		case "for":
			if s.C[0].K == "var" {
				collectDecls(s.C[0:1], funcs, vars)
			}
			collectDecls(s.C[3:], funcs, vars)
		case "if":
			collectDecls(s.C[1:], funcs, vars)
		case "while":
			collectDecls(s.C[1:], funcs, vars)
		case "dowhile":
			collectDecls(s.C[0:1], funcs, vars)
		case "block", "program":
			collectDecls(s.C, funcs, vars)
		case "label", "with":
			collectDecls(s.C[len(s.C)-1:], funcs, vars)
		case "switch":
			for _, c := range s.C[1:] {
				collectDecls(c.C[1:], funcs, vars)
			}
		case "try":
			collectDecls(s.C[0].C, funcs, vars)
			if !s.C[1].isNone() {
				collectDecls(s.C[1].C[0].C, funcs, vars)
			}
			if !s.C[2].isNone() {
				collectDecls(s.C[2].C, funcs, vars)
			}
		}
	}
}

// newArguments is 10.6 (non-strict: mapped).
func (in *Interp) newArguments(fn *Obj, params []string, args []Value, env *Env) *Obj {
	ao := in.newObject(in.ObjectProto)
	ao.Class = "Arguments"
	ao.defData("length", float64(len(args)), true, false, true)
	for i, v := range args {
		ao.defData(strconv.Itoa(i), v, true, true, true)
	}
	ao.ParamMap = map[string]string{}
	ao.ArgEnv = env
	mapped := map[string]bool{}
	for i := len(params) - 1; i >= 0; i-- {
		if i < len(args) && !mapped[params[i]] {
			mapped[params[i]] = true
			ao.ParamMap[strconv.Itoa(i)] = params[i]
		}
	}
	ao.defData("callee", fn, true, false, true)
	return ao
}

// ---- statements (§12) ---------------------------------------------------------------------------------------

func normal(v Value) completion { return completion{typ: cNormal, value: v} }

func (in *Interp) stmtList(list []*Node) completion {
	var v Value
	for _, s := range list {
		c := in.stmt(s)
		if c.value != nil {
			v = c.value
		}
		if c.typ != cNormal {
			c.value = v
			return c
		}
	}
	return normal(v)
}

func inSet(target string, labels []string) bool {
	if target == "" {
		return true
	}
	for _, l := range labels {
		if l == target {
			return true
		}
	}
	return false
}

func (in *Interp) stmt(n *Node) completion { return in.stmtL(n, nil) }

// stmtL evaluates a statement whose label set (12.12) is labels.
func (in *Interp) stmtL(n *Node, labels []string) completion {
	in.tick()
	switch n.K {
	case "block":
		return in.stmtList(n.C)
	case "var":
		for _, d := range n.C {
			if len(d.C) > 0 && !d.C[0].isNone() {
				r := in.resolve(d.S)
				v := in.expr(d.C[0])
				in.putValue(r, v)
			}
		}
		return normal(nil)
	case "empty", "funcdecl", "debugger":
		return normal(nil)
	case "expr":
		return normal(in.expr(n.C[0]))
	case "if":
		if toBoolean(in.expr(n.C[0])) {
			return in.stmt(n.C[1])
		}
		if len(n.C) > 2 && !n.C[2].isNone() {
			return in.stmt(n.C[2])
		}
		return normal(nil)
	case "dowhile":
		var v Value
		for {
			c := in.stmt(n.C[0])
			if c.value != nil {
				v = c.value
			}
			if !(c.typ == cContinue && inSet(c.target, labels)) {
				if c.typ == cBreak && inSet(c.target, labels) {
					in.noteAbruptValue(c)
					return normal(v)
				}
				if c.typ != cNormal {
					return c
				}
			} else {
				in.noteAbruptValue(c)
			}
			if !toBoolean(in.expr(n.C[1])) {
				return normal(v)
			}
		}
	case "while":
		var v Value
		for {
			if !toBoolean(in.expr(n.C[0])) {
				return normal(v)
			}
			c := in.stmt(n.C[1])
			if c.value != nil {
				v = c.value
			}
			if !(c.typ == cContinue && inSet(c.target, labels)) {
				if c.typ == cBreak && inSet(c.target, labels) {
					in.noteAbruptValue(c)
					return normal(v)
				}
				if c.typ != cNormal {
					return c
				}
			} else {
				in.noteAbruptValue(c)
			}
		}
	case "for":
		if !n.C[0].isNone() {
			if n.C[0].K == "var" {
				in.stmt(n.C[0])
			} else {
				in.expr(n.C[0])
			}
		}
		var v Value
		for {
			if !n.C[1].isNone() && !toBoolean(in.expr(n.C[1])) {
				return normal(v)
			}
			c := in.stmt(n.C[3])
			if c.value != nil {
				v = c.value
			}
			if c.typ == cBreak && inSet(c.target, labels) {
				in.noteAbruptValue(c)
				return normal(v)
			}
			if !(c.typ == cContinue && inSet(c.target, labels)) {
				if c.typ != cNormal {
					return c
				}
			} else {
				in.noteAbruptValue(c)
			}
			if !n.C[2].isNone() {
				in.expr(n.C[2])
			}
		}
	case "forin":
		ov := in.expr(n.C[1])
		switch ov.(type) {
		case undefinedT, nullT:
			return normal(nil)
		}
		obj := in.toObject(ov)
		for p := obj; p != nil; p = p.Proto {
			if p == in.Global {
				panic(Discard{"for-in over the global object (host-defined properties)"})
			}
		}
		names, shadowed := obj.enumerate()
		if shadowed {
			in.flag("forin-shadowed")
		}
		in.flag("forin")
		var v Value
		for _, name := range names {
			// a property deleted before it is visited is not visited (12.6.4)
			if pr := obj.getProp(name); pr == nil {
				in.flag("forin-deleted-during")
				continue
			}
			in.putValue(in.resolve(n.C[0].S), name)
			c := in.stmt(n.C[2])
			if c.value != nil {
				v = c.value
			}
			if c.typ == cBreak && inSet(c.target, labels) {
				in.noteAbruptValue(c)
				return normal(v)
			}
			if !(c.typ == cContinue && inSet(c.target, labels)) {
				if c.typ != cNormal {
					return c
				}
			} else {
				in.noteAbruptValue(c)
			}
		}
		return normal(v)
	case "continue":
		return completion{typ: cContinue, target: n.S}
	case "break":
		return completion{typ: cBreak, target: n.S}
	case "return":
		if len(n.C) == 0 || n.C[0].isNone() {
			return completion{typ: cReturn, value: Undefined}
		}
		return completion{typ: cReturn, value: in.expr(n.C[0])}
	case "with":
		obj := in.toObject(in.expr(n.C[0]))
		old := in.ctx.lex
		in.ctx.lex = &Env{object: obj, provideThis: true, outer: old}
		in.flag("with")
		defer func() { in.ctx.lex = old }()
		return in.stmt(n.C[1])
	case "switch":
		return in.switchStmt(n, labels)
	case "label":
		c := in.stmtL(n.C[0], append(append([]string(nil), labels...), n.S))
		if c.typ == cBreak && c.target == n.S {
			in.noteAbruptValue(c)
			in.flag("labelled-break")
			return normal(c.value)
		}
		return c
	case "throw":
		panic(&Throw{in.expr(n.C[0])})
	case "try":
		return in.tryStmt(n)
	}
	panic("prog: unknown statement " + n.K)
}

// noteAbruptValue records that a break/continue completion carried (or dropped) a statement value:
// otto loses these values (finding: completion values of abrupt completions).
func (in *Interp) noteAbruptValue(c completion) {
	in.flag("abrupt-completion-consumed")
	if in.evalDepth > 0 {
		in.flag("abrupt-completion-consumed-in-eval") // the eval call's result (an ordinary value) depends on it
	}
}

func (in *Interp) switchStmt(n *Node, labels []string) completion {
	disc := in.expr(n.C[0])
	cases := n.C[1:]
	def := -1
	for i, c := range cases {
		if c.S == "default" {
			def = i
		}
	}
	var v Value
	run := func(from int) completion {
		for i := from; i < len(cases); i++ {
			c := in.stmtList(cases[i].C[1:])
			if c.value != nil {
				v = c.value
			}
			if c.typ != cNormal {
				c.value = v
				return c
			}
		}
		return normal(v)
	}
	finish := func(c completion) completion {
		if c.typ == cBreak && inSet(c.target, labels) {
			in.noteAbruptValue(c)
			return normal(c.value)
		}
		return c
	}
	in.flag("switch")
	// A clauses (before default), then B clauses (after), testing with ===
	limitA := len(cases)
	if def >= 0 {
		limitA = def
	}
	for i := 0; i < limitA; i++ {
		if strictEquals(disc, in.expr(cases[i].C[0])) {
			if i+1 < len(cases) {
				in.flag("switch-fallthrough-possible")
			}
			return finish(run(i))
		}
	}
	if def >= 0 {
		for i := def + 1; i < len(cases); i++ {
			if strictEquals(disc, in.expr(cases[i].C[0])) {
				return finish(run(i))
			}
		}
		in.flag("switch-default")
		return finish(run(def))
	}
	return normal(nil)
}

func (in *Interp) tryStmt(n *Node) (result completion) {
	block, catch, finally := n.C[0], n.C[1], n.C[2]
	in.flag("try")
	runBlock := func() (c completion, thrown *Throw) {
		defer func() {
			if p := recover(); p != nil {
				if t, ok := p.(*Throw); ok {
					thrown = t
					return
				}
				panic(p)
			}
		}()
		return in.stmtList(block.C), nil
	}
	runCatch := func(t *Throw) (c completion, thrown *Throw) {
		defer func() {
			if p := recover(); p != nil {
				if t2, ok := p.(*Throw); ok {
					thrown = t2
					return
				}
				panic(p)
			}
		}()
		old := in.ctx.lex
		env := newDeclEnv(old)
		env.vars[catch.S] = &binding{value: t.Value, mutable: true}
		in.ctx.lex = env
		defer func() { in.ctx.lex = old }()
		in.flag("catch")
		return in.stmtList(catch.C[0].C), nil
	}
	// the execution context's lexical environment and depth must be restored when a throw unwinds
	savedLex, savedCtx, savedDepth := in.ctx.lex, in.ctx, in.depth
	restore := func() {
		in.ctx = savedCtx
		in.ctx.lex = savedLex
		in.depth = savedDepth
	}
	c, thrown := runBlock()
	if thrown != nil {
		restore()
		if !catch.isNone() {
			c, thrown = runCatch(thrown)
			if thrown != nil {
				restore()
			}
		}
	}
	if finally.isNone() {
		if thrown != nil {
			panic(thrown)
		}
		return c
	}
	in.flag("finally")
	f := in.stmtList(finally.C)
	if f.typ != cNormal {
		if thrown != nil || c.typ != cNormal {
			in.flag("finally-overrides-abrupt")
		}
		return f
	}
	if thrown != nil {
		in.flag("throw-through-finally")
		panic(thrown)
	}
	if c.typ != cNormal {
		in.flag("abrupt-through-finally")
	}
	return c
}

// ---- expressions (§11) ---------------------------------------------------------------------------------------

func (in *Interp) expr(n *Node) Value {
	if n.K == "id" || n.K == "dot" || n.K == "idx" {
		return in.getValue(in.ref(n))
	}
	return in.exprNoRef(n)
}

// ref evaluates an expression that yields a Reference.
func (in *Interp) ref(n *Node) Ref {
	in.tick()
	switch n.K {
	case "id":
		return in.resolve(n.S)
	case "dot":
		base := in.expr(n.C[0])
		in.checkCoercible(base, n.S)
		return Ref{base: base, name: n.S}
	case "idx":
		base := in.expr(n.C[0])
		key := in.expr(n.C[1])
		in.checkCoercible(base, "")
		return Ref{base: base, name: propKey(in, key)}
	}
	panic("prog: not a reference node " + n.K)
}

// refForAssign is ref() for assignment targets: a null/undefined base discards the case.
func (in *Interp) refForAssign(n *Node) Ref {
	if n.K == "id" {
		return in.ref(n)
	}
	in.tick()
	base := in.expr(n.C[0])
	switch base.(type) {
	case undefinedT, nullT:
		panic(Discard{"assignment to a property of null/undefined (ES5.1 throws before evaluating the right-hand side; engines differ)"})
	}
	if n.K == "dot" {
		return Ref{base: base, name: n.S}
	}
	key := in.expr(n.C[1])
	return Ref{base: base, name: propKey(in, key)}
}

func (in *Interp) checkCoercible(v Value, name string) {
	switch v.(type) {
	case undefinedT, nullT:
		panic(in.throwError("TypeError", "cannot access property "+name+" of "+typeOf(v)))
	}
}

func isRefNode(n *Node) bool { return n.K == "id" || n.K == "dot" || n.K == "idx" }

func (in *Interp) exprNoRef(n *Node) Value {
	in.tick()
	switch n.K {
	case "num":
		return n.N
	case "str":
		return n.S
	case "bool":
		return n.S == "true"
	case "null":
		return Null
	case "undef":
		return Undefined
	case "this":
		return in.ctx.this
	case "bin":
		return in.binary(n)
	case "logic":
		l := in.expr(n.C[0])
		if n.S == "&&" {
			if !toBoolean(l) {
				return l
			}
		} else if toBoolean(l) {
			return l
		}
		return in.expr(n.C[1])
	case "un":
		return in.unary(n)
	case "assign":
		return in.assign(n)
	case "preupd", "postupd":
		r := in.ref(n.C[0])
		old := in.toNumber(in.getValue(r))
		nv := old + 1
		if n.S == "--" {
			nv = old - 1
		}
		in.putValue(r, nv)
		if n.K == "preupd" {
			return nv
		}
		return old
	case "cond":
		if toBoolean(in.expr(n.C[0])) {
			return in.expr(n.C[1])
		}
		return in.expr(n.C[2])
	case "call":
		return in.callExpr(n)
	case "new":
		c := in.expr(n.C[0])
		args := in.args(n.C[1:])
		f, ok := c.(*Obj)
		if !ok || !f.callable() {
			panic(in.throwError("TypeError", "not a constructor"))
		}
		return in.construct(f, args)
	case "func":
		if n.S == "" {
			return in.newFunction(n, in.ctx.lex)
		}
		// 13: named function expression: own name bound immutably in an extra environment
		env := newDeclEnv(in.ctx.lex)
		f := in.newFunction(n, env)
		env.vars[n.S] = &binding{value: f, mutable: false}
		return f
	case "obj":
		o := in.newObject(in.ObjectProto)
		for _, p := range n.C {
			switch p.K {
			case "prop":
				v := in.expr(p.C[0])
				if cur := o.Props[p.S]; cur != nil && cur.Accessor {
					delete(o.Props, p.S) // generator never mixes; keep total
				}
				o.defData(p.S, v, true, true, true)
			case "getter", "setter":
				fnNode := &Node{K: "func", C: []*Node{N("params"), p.C[0]}}
				if p.K == "setter" {
					fnNode = &Node{K: "func", C: []*Node{N("params", p.C[0]), p.C[1]}}
				}
				f := in.newFunction(fnNode, in.ctx.lex)
				cur := o.Props[p.S]
				if cur == nil || !cur.Accessor {
					cur = &Prop{Accessor: true, Enumerable: true, Configurable: true}
					if _, had := o.Props[p.S]; !had {
						o.Order = append(o.Order, p.S)
					}
					o.Props[p.S] = cur
				}
				if p.K == "getter" {
					cur.Get = f
				} else {
					cur.Set = f
				}
				in.flag("accessor-literal")
			}
		}
		return o
	case "arr":
		return in.newArray(in.args(n.C))
	case "eval":
		// printed as eval("src") / (0,eval)("src"): a call of the global eval function with a string
		callee := in.getValue(in.resolve("eval"))
		f, ok := callee.(*Obj)
		if !ok || !f.callable() {
			panic(in.throwError("TypeError", "eval is not a function"))
		}
		if f != in.evalFn {
			panic(Discard{"eval rebound"})
		}
		return in.evalCode(n.C[0], n.S == "direct")
	}
	panic("prog: unknown expression " + n.K)
}

func (in *Interp) args(list []*Node) []Value {
	out := make([]Value, 0, len(list))
	for _, a := range list {
		out = append(out, in.expr(a))
	}
	return out
}

func (in *Interp) callExpr(n *Node) Value {
	calleeNode := n.C[0]
	var fv Value
	var this Value = Undefined
	if isRefNode(calleeNode) {
		r := in.ref(calleeNode)
		fv = in.getValue(r)
		switch b := r.base.(type) {
		case *Env:
			if b.object != nil && b.provideThis {
				this = b.object
				in.flag("with-call-this")
			}
		case nil:
		default:
			this = r.base
			in.flag("method-call")
		}
	} else {
		fv = in.expr(calleeNode)
	}
	args := in.args(n.C[1:])
	f, ok := fv.(*Obj)
	if !ok || !f.callable() {
		if len(n.C) > 1 {
			in.flag("noncallable-with-args")
		}
		panic(in.throwError("TypeError", "not a function"))
	}
	return in.call(f, this, args)
}

func (in *Interp) unary(n *Node) Value {
	switch n.S {
	case "delete":
		x := n.C[0]
		if !isRefNode(x) {
			in.expr(x)
			return true
		}
		r := in.ref(x)
		switch b := r.base.(type) {
		case nil:
			return true
		case *Env:
			if b.object != nil {
				return in.deleteProp(b.object, r.name)
			}
			bd := b.vars[r.name]
			if bd == nil {
				return true
			}
			if !bd.deletable {
				return false
			}
			delete(b.vars, r.name)
			return true
		case *Obj:
			in.flag("delete-prop")
			return in.deleteProp(b, r.name)
		default:
			return in.deleteProp(in.toObject(b), r.name)
		}
	case "typeof":
		x := n.C[0]
		if isRefNode(x) {
			r := in.ref(x)
			if r.base == nil {
				in.flag("typeof-unresolvable")
				return "undefined"
			}
			return typeOf(in.getValue(r))
		}
		return typeOf(in.expr(x))
	case "void":
		in.expr(n.C[0])
		return Undefined
	case "-":
		return -in.toNumber(in.expr(n.C[0]))
	case "+":
		return in.toNumber(in.expr(n.C[0]))
	case "!":
		return !toBoolean(in.expr(n.C[0]))
	case "~":
		return float64(^in.toInt32(in.expr(n.C[0])))
	}
	panic("prog: unary " + n.S)
}

func (in *Interp) arith(op string, l, r Value) Value {
	switch op {
	case "+":
		lp := in.toPrimitive(l, "")
		rp := in.toPrimitive(r, "")
		_, ls := lp.(string)
		_, rs := rp.(string)
		if ls || rs {
			return in.toString(lp) + in.toString(rp)
		}
		return in.toNumber(lp) + in.toNumber(rp)
	case "-":
		a := in.toNumber(l)
		return a - in.toNumber(r)
	case "*":
		a := in.toNumber(l)
		return a * in.toNumber(r)
	case "/":
		a := in.toNumber(l)
		return a / in.toNumber(r)
	case "%":
		a := in.toNumber(l)
		return math.Mod(a, in.toNumber(r))
	case "&":
		a := in.toInt32(l)
		return float64(a & in.toInt32(r))
	case "|":
		a := in.toInt32(l)
		return float64(a | in.toInt32(r))
	case "^":
		a := in.toInt32(l)
		return float64(a ^ in.toInt32(r))
	case "<<":
		a := in.toInt32(l)
		return float64(a << (in.toUint32(r) & 31))
	case ">>":
		a := in.toInt32(l)
		return float64(a >> (in.toUint32(r) & 31))
	case ">>>":
		a := in.toUint32(l)
		return float64(a >> (in.toUint32(r) & 31))
	}
	panic("prog: arith " + op)
}

func (in *Interp) binary(n *Node) Value {
	if n.S == "," {
		in.expr(n.C[0])
		return in.expr(n.C[1])
	}
	l := in.expr(n.C[0])
	r := in.expr(n.C[1])
	switch n.S {
	case "<":
		b, u := in.lessThan(l, r, true)
		return b && !u
	case ">":
		b, u := in.lessThan(r, l, false)
		return b && !u
	case "<=":
		b, u := in.lessThan(r, l, false)
		return !b && !u
	case ">=":
		b, u := in.lessThan(l, r, true)
		return !b && !u
	case "==":
		return in.looseEquals(l, r)
	case "!=":
		return !in.looseEquals(l, r)
	case "===":
		return strictEquals(l, r)
	case "!==":
		return !strictEquals(l, r)
	case "in":
		o, ok := r.(*Obj)
		if !ok {
			panic(in.throwError("TypeError", "right operand of in is not an object"))
		}
		return o.hasProperty(in.toString(l))
	case "instanceof":
		f, ok := r.(*Obj)
		if !ok || !f.callable() {
			panic(in.throwError("TypeError", "right operand of instanceof is not callable"))
		}
		in.flag("instanceof")
		return in.hasInstance(f, l)
	}
	return in.arith(n.S, l, r)
}

func (in *Interp) assign(n *Node) Value {
	r := in.refForAssign(n.C[0])
	if n.S == "=" {
		v := in.expr(n.C[1])
		in.putValue(r, v)
		return v
	}
	old := in.getValue(r)
	rv := in.expr(n.C[1])
	// otto reads the left operand after evaluating the right one (finding): detect programs where that matters
	if n.C[0].K == "id" {
		func() {
			defer func() { recover() }()
			r2 := in.resolve(n.C[0].S)
			if e, ok := r2.base.(*Env); ok && e.object == nil {
				if !strictEquals(e.vars[n.C[0].S].value, old) {
					in.flag("compound-lhs-changed-by-rhs")
				}
			} else if r2.base != nil {
				if e, ok := r2.base.(*Env); ok && e.object != nil {
					if pr := e.object.getProp(n.C[0].S); pr != nil && !pr.Accessor && !strictEquals(pr.Value, old) {
						in.flag("compound-lhs-changed-by-rhs")
					}
				}
			}
		}()
	}
	v := in.arith(strings.TrimSuffix(n.S, "="), old, rv)
	in.putValue(r, v)
	in.flag("compound-assign")
	return v
}

// ---- eval code (10.4.2, 15.1.2.1) -------------------------------------------------------------------------------

func (in *Interp) evalCode(program *Node, direct bool) Value {
	saved := in.ctx
	defer func() { in.ctx = saved }()
	if direct {
		in.flag("eval-direct")
		in.ctx = &execCtx{lex: saved.lex, varEnv: saved.varEnv, this: saved.this, fn: saved.fn}
	} else {
		in.flag("eval-indirect")
		in.ctx = &execCtx{lex: in.GlobalEnv, varEnv: in.GlobalEnv, this: in.Global}
	}
	in.declarationBinding(program.C, in.ctx.varEnv, nil, nil, true)
	in.evalDepth++
	c := func() completion {
		defer func() { in.evalDepth-- }()
		return in.stmtList(program.C)
	}()
	if c.value == nil {
		return Undefined
	}
	return c.value
}

// ---- running a program ---------------------------------------------------------------------------------------------

// Result of the reference evaluation.
type Result struct {
	Trace      []string
	Completion string // canonical rendering of the completion value ("" when the program threw)
	Threw      string // canonical rendering of the uncaught exception: "Error:<Name>" for native errors, value rendering otherwise
	Discard    string
	Flags      map[string]int
	Steps      int
}

// Run evaluates a program node on a fresh realm.
func Run(program *Node, maxSteps int) (res Result) {
	in := NewInterp()
	in.MaxSteps = maxSteps
	defer func() {
		res.Trace = in.Trace
		res.Flags = in.Flags
		res.Steps = in.steps
		if p := recover(); p != nil {
			switch t := p.(type) {
			case *Throw:
				res.Threw = in.renderThrown(t.Value)
			case Discard:
				res.Discard = t.Reason
			default:
				panic(p)
			}
		}
	}()
	in.ctx = &execCtx{lex: in.GlobalEnv, varEnv: in.GlobalEnv, this: in.Global}
	in.declarationBinding(program.C, in.GlobalEnv, nil, nil, false)
	c := in.stmtList(program.C)
	if c.typ != cNormal {
		panic(fmt.Sprintf("prog: program ended with abrupt completion %v (generator bug)", c.typ))
	}
	if c.value == nil {
		res.Completion = "undefined"
	} else {
		res.Completion = in.render(c.value)
	}
	return res
}
