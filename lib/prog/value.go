package prog

import (
	"fmt"
	"math"
	"strconv"
	"unicode/utf16"

	"verif/lib/es5"
)

// Values: Undefined, Null, bool, float64, string (ASCII/BMP text; generated programs keep to
// ASCII so Go string indexing agrees with UTF-16), *Obj.
type undefinedT struct{}
type nullT struct{}

var (
	Undefined = undefinedT{}
	Null      = nullT{}
)

type Value interface{}

// Prop is a property (8.6.1): data or accessor.
type Prop struct {
	Value        Value
	Get, Set     *Obj // accessor halves (nil = undefined)
	Accessor     bool
	Writable     bool
	Enumerable   bool
	Configurable bool
}

// Obj is an object (8.6.2).
type Obj struct {
	Class      string
	Proto      *Obj
	Props      map[string]*Prop
	Order      []string // insertion order of own property names
	Extensible bool

	// function objects
	Fn          *Node   // func / funcdecl node (params = Fn.C[0], body = Fn.C[1]) for script functions
	Scope       *Env    // [[Scope]]
	Native      func(in *Interp, this Value, args []Value) Value
	NativeName  string
	NativeCtor  func(in *Interp, args []Value) Value // [[Construct]] of native constructors
	BoundTarget *Obj
	BoundThis   Value
	BoundArgs   []Value

	// wrapper objects / errors
	Prim      Value // [[PrimitiveValue]]
	NativeErr bool  // Error object created by the interpreter itself (message implementation-defined)

	// arguments object parameter map (10.6): index → binding name in ArgEnv
	ParamMap map[string]string
	ArgEnv   *Env

	ID int // creation sequence number (debugging)
}

func (o *Obj) callable() bool { return o.Fn != nil || o.Native != nil || o.BoundTarget != nil }

func typeOf(v Value) string {
	switch v := v.(type) {
	case undefinedT:
		return "undefined"
	case nullT:
		return "object"
	case bool:
		return "boolean"
	case float64:
		return "number"
	case string:
		return "string"
	case *Obj:
		if v.callable() {
			return "function"
		}
		return "object"
	}
	panic(fmt.Sprintf("typeOf: %T", v))
}

// ---- conversions (§9) -------------------------------------------------------------------------------

func toBoolean(v Value) bool {
	switch v := v.(type) {
	case undefinedT, nullT:
		return false
	case bool:
		return v
	case float64:
		return !(v == 0 || math.IsNaN(v))
	case string:
		return v != ""
	}
	return true
}

func units(s string) []uint16 { return utf16.Encode([]rune(s)) }

func (in *Interp) toNumber(v Value) float64 {
	switch v := v.(type) {
	case undefinedT:
		return math.NaN()
	case nullT:
		return 0
	case bool:
		if v {
			return 1
		}
		return 0
	case float64:
		return v
	case string:
		return es5.StringToNumber(units(v))
	}
	return in.toNumber(in.toPrimitive(v, "number"))
}

func (in *Interp) toString(v Value) string {
	switch v := v.(type) {
	case undefinedT:
		return "undefined"
	case nullT:
		return "null"
	case bool:
		return strconv.FormatBool(v)
	case float64:
		return es5.NumberToString(v)
	case string:
		return v
	}
	return in.toString(in.toPrimitive(v, "string"))
}

func (in *Interp) toInt32(v Value) int32   { return es5.ToInt32(in.toNumber(v)) }
func (in *Interp) toUint32(v Value) uint32 { return es5.ToUint32(in.toNumber(v)) }

// toPrimitive (9.1) → [[DefaultValue]] (8.12.8).
func (in *Interp) toPrimitive(v Value, hint string) Value {
	o, ok := v.(*Obj)
	if !ok {
		return v
	}
	if hint == "" {
		hint = "number" // Date objects are not generated
	}
	order := []string{"valueOf", "toString"}
	if hint == "string" {
		order = []string{"toString", "valueOf"}
	}
	for _, name := range order {
		f := in.get(o, name)
		if fo, ok := f.(*Obj); ok && fo.callable() {
			r := in.call(fo, o, nil)
			if _, isObj := r.(*Obj); !isObj {
				return r
			}
		}
	}
	panic(in.throwError("TypeError", "cannot convert object to primitive value"))
}

func (in *Interp) toObject(v Value) *Obj {
	switch v := v.(type) {
	case undefinedT, nullT:
		panic(in.throwError("TypeError", "cannot convert undefined or null to object"))
	case bool:
		o := in.newObject(in.BooleanProto)
		o.Class, o.Prim = "Boolean", v
		return o
	case float64:
		o := in.newObject(in.NumberProto)
		o.Class, o.Prim = "Number", v
		return o
	case string:
		o := in.newObject(in.StringProto)
		o.Class, o.Prim = "String", v
		u := units(v)
		for i, c := range u { // 15.5.5.2: index properties are enumerable, read-only
			k := strconv.Itoa(i)
			o.Props[k] = &Prop{Value: string(utf16.Decode([]uint16{c})), Enumerable: true}
			o.Order = append(o.Order, k)
		}
		o.Props["length"] = &Prop{Value: float64(len(u))}
		o.Order = append(o.Order, "length")
		return o
	case *Obj:
		return v
	}
	panic("toObject")
}

func propKey(in *Interp, v Value) string { return in.toString(v) }

// isArrayIndex: canonical array index string (15.4).
func isArrayIndex(s string) (uint32, bool) {
	if s == "" || (len(s) > 1 && s[0] == '0') || len(s) > 10 {
		return 0, false
	}
	n, err := strconv.ParseUint(s, 10, 64)
	if err != nil || n >= 4294967295 {
		return 0, false
	}
	return uint32(n), true
}

// ---- equality and comparison (11.8.5, 11.9.3, 11.9.6) --------------------------------------------

func strictEquals(a, b Value) bool {
	switch x := a.(type) {
	case undefinedT:
		_, ok := b.(undefinedT)
		return ok
	case nullT:
		_, ok := b.(nullT)
		return ok
	case bool:
		y, ok := b.(bool)
		return ok && x == y
	case float64:
		y, ok := b.(float64)
		return ok && x == y
	case string:
		y, ok := b.(string)
		return ok && x == y
	case *Obj:
		y, ok := b.(*Obj)
		return ok && x == y
	}
	return false
}

func sameType(a, b Value) bool { return fmt.Sprintf("%T", a) == fmt.Sprintf("%T", b) }

func (in *Interp) looseEquals(a, b Value) bool {
	if sameType(a, b) {
		return strictEquals(a, b)
	}
	_, aU := a.(undefinedT)
	_, aN := a.(nullT)
	_, bU := b.(undefinedT)
	_, bN := b.(nullT)
	if (aU || aN) && (bU || bN) {
		return true
	}
	switch x := a.(type) {
	case float64:
		if y, ok := b.(string); ok {
			return x == in.toNumber(y)
		}
	case string:
		if y, ok := b.(float64); ok {
			return in.toNumber(x) == y
		}
	}
	if x, ok := a.(bool); ok {
		return in.looseEquals(in.toNumber(x), b)
	}
	if y, ok := b.(bool); ok {
		return in.looseEquals(a, in.toNumber(y))
	}
	_, aO := a.(*Obj)
	_, bO := b.(*Obj)
	isSN := func(v Value) bool {
		switch v.(type) {
		case string, float64:
			return true
		}
		return false
	}
	if isSN(a) && bO {
		return in.looseEquals(a, in.toPrimitive(b, ""))
	}
	if aO && isSN(b) {
		return in.looseEquals(in.toPrimitive(a, ""), b)
	}
	return false
}

// lessThan implements the abstract relational comparison x < y (11.8.5): returns (result, undefined?).
func (in *Interp) lessThan(x, y Value, leftFirst bool) (bool, bool) {
	var px, py Value
	if leftFirst {
		px = in.toPrimitive(x, "number")
		py = in.toPrimitive(y, "number")
	} else {
		py = in.toPrimitive(y, "number")
		px = in.toPrimitive(x, "number")
	}
	sx, okx := px.(string)
	sy, oky := py.(string)
	if okx && oky {
		ux, uy := units(sx), units(sy)
		for i := 0; i < len(ux) && i < len(uy); i++ {
			if ux[i] != uy[i] {
				return ux[i] < uy[i], false
			}
		}
		return len(ux) < len(uy), false
	}
	nx, ny := in.toNumber(px), in.toNumber(py)
	if math.IsNaN(nx) || math.IsNaN(ny) {
		return false, true
	}
	return nx < ny, false
}
