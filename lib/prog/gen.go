package prog

import (
	"fmt"

	"pgregory.net/rapid"
)

// The semantic generator: closed, terminating, deterministic ES5 programs whose only observable
// behaviour is the host function log, the completion value and an uncaught exception.
// Loops have dedicated counters with constant bounds; everything else is bounded by the
// evaluator's step and depth budgets (over-budget cases are discarded and counted).

type kind int

const (
	kNum kind = iota
	kStr
	kBool
	kObj
	kFn
	kAny
	kVal // any kind except function (operands of arithmetic / comparison: Function.prototype.toString is implementation-defined)
)

type gscope struct {
	vars    map[string]kind // visible variable names → probable kind
	order   []string
	fns     []string // names of function declarations visible (callable)
	ctors   []string // names of constructor-style functions
	inFunc  bool
	params  []string
	parent  *gscope
	loops   []string // labels of enclosing loops ("" for unlabelled), innermost last
	blocks  []string // labels of enclosing labelled blocks
	inLoop  int
	inSwtch int
	inFin   bool
}

type G struct {
	t      *rapid.T
	budget int // remaining statement budget
	seq    int // fresh-name counter
	sc     *gscope
	depth  int
	// feature switches
	NoEval, NoWith bool
}

func (g *G) n(lo, hi int, label string) int { return rapid.IntRange(lo, hi).Draw(g.t, label) }
func (g *G) coin(pct int, label string) bool {
	return rapid.IntRange(0, 99).Draw(g.t, label) < pct
}
func pick[T any](g *G, xs []T, label string) T { return rapid.SampledFrom(xs).Draw(g.t, label) }

func (g *G) fresh(prefix string) string {
	g.seq++
	return fmt.Sprintf("%s%d", prefix, g.seq)
}

func (g *G) push(inFunc bool) *gscope {
	s := &gscope{vars: map[string]kind{}, parent: g.sc, inFunc: inFunc}
	if g.sc != nil && !inFunc {
		*s = *g.sc
		s.parent = g.sc
		s.vars = map[string]kind{}
		for k, v := range g.sc.vars {
			s.vars[k] = v
		}
		s.order = append([]string(nil), g.sc.order...)
	}
	if g.sc != nil && inFunc {
		// closures see the enclosing variables
		for k, v := range g.sc.vars {
			s.vars[k] = v
		}
		s.order = append([]string(nil), g.sc.order...)
		s.fns = append([]string(nil), g.sc.fns...)
		s.ctors = append([]string(nil), g.sc.ctors...)
	}
	g.sc = s
	return s
}
func (g *G) pop() { g.sc = g.sc.parent }

func (g *G) declare(name string, k kind) {
	if _, ok := g.sc.vars[name]; !ok {
		g.sc.order = append(g.sc.order, name)
	}
	g.sc.vars[name] = k
}

func (g *G) varsOf(k kind) []string {
	var out []string
	for _, name := range g.sc.order {
		if vk := g.sc.vars[name]; vk == k || k == kAny || (k == kVal && vk != kFn && vk != kAny) {
			out = append(out, name)
		}
	}
	return out
}

var varPool = []string{"a", "b", "c", "x", "y"}
var propPool = []string{"p", "q", "r", "a", "b"}
var strPool = []string{"a", "b", "x", "", "p", "1", "q"}

// GenProgram draws one program.
func GenProgram(t *rapid.T) *Node {
	g := &G{t: t, budget: rapid.IntRange(4, 28).Draw(t, "budget")}
	g.push(false)
	prog := N("program")
	// most programs start with a few declarations so that calls, constructors and methods have targets
	for i, n := 0, g.n(0, 3, "nprelude"); i < n; i++ {
		g.budget++
		prog.C = append(prog.C, g.stmtOf(pick(g, []string{"funcdecl", "funcdecl", "ctor", "ctor", "method-obj", "accessor-obj", "args-fn", "valueof-obj", "scope-shift", "var-shadowed", "with-throw", "proto-getter", "eval-delete"}, "prelude"), true)...)
	}
	prog.C = append(prog.C, g.stmts(g.n(2, 10, "ntop"), true)...)
	// finish with an expression statement most of the time so that the completion value is interesting
	if g.coin(70, "tailexpr") {
		prog.C = append(prog.C, ExprStmt(g.expr(kAny, 2)))
	}
	return prog
}

func (g *G) stmts(n int, declsAllowed bool) []*Node {
	var out []*Node
	for i := 0; i < n && g.budget > 0; i++ {
		out = append(out, g.stmt(declsAllowed)...)
	}
	return out
}

func (g *G) block(n int) *Node { return Block(g.stmts(n, false)...) }

func (g *G) logStmt() *Node {
	n := g.n(1, 3, "nlog")
	args := make([]*Node, n)
	for i := range args {
		args[i] = g.expr(kAny, 2)
	}
	return ExprStmt(Call(Id("log"), args...))
}

// stmt returns one logical statement (possibly preceded by helper declarations).
func (g *G) stmt(declsAllowed bool) []*Node {
	g.budget--
	g.depth++
	defer func() { g.depth-- }()
	deep := g.depth > 4
	choices := []string{"log", "log", "log", "log", "var", "var", "assign", "assign", "exprcall", "exprcall", "logcall", "logcall", "if", "upd", "bareref"}
	if !deep {
		choices = append(choices, "for", "while", "dowhile", "switch", "switch", "try", "try", "labelblock", "labelblock", "forin", "trythrow", "closure-loop")
		if !g.NoWith {
			choices = append(choices, "with")
		}
		if !g.NoEval {
			choices = append(choices, "eval")
		}
	}
	if declsAllowed && g.depth <= 3 {
		choices = append(choices, "funcdecl", "funcdecl", "ctor", "method-obj", "accessor-obj", "args-fn", "valueof-obj", "scope-shift", "var-shadowed", "with-throw", "proto-getter", "eval-delete")
	}
	if g.sc.inFunc {
		choices = append(choices, "return", "return")
	}
	if g.sc.inLoop > 0 || g.sc.inSwtch > 0 {
		choices = append(choices, "break", "break")
	}
	if g.sc.inLoop > 0 {
		choices = append(choices, "continue", "continue")
	}
	if len(g.sc.blocks) > 0 {
		choices = append(choices, "breaklabel", "breaklabel", "breaklabel")
	}
	return g.stmtOf(pick(g, choices, "stmt"), declsAllowed)
}

func (g *G) stmtOf(c string, declsAllowed bool) []*Node {
	switch c {
	case "log":
		return []*Node{g.logStmt()}
	case "var":
		k := pick(g, []kind{kNum, kNum, kStr, kBool, kObj, kFn, kAny}, "vkind")
		name := pick(g, varPool, "vname")
		init := g.expr(k, 2)
		g.declare(name, k)
		return []*Node{N("var", NS("decl", name, init))}
	case "bareref":
		// an expression statement that is nothing but a reference: 12.4 applies GetValue wherever the statement
		// stands (loop body, if, with, labelled block) — an accessor runs, an unresolvable name throws
		switch g.n(0, 3, "barerefform") {
		case 0:
			return []*Node{ExprStmt(Id(pick(g, []string{"zz", "undeclared"}, "barename")))}
		case 1:
			return []*Node{ExprStmt(Dot(g.objRef(), pick(g, []string{"r", "g", "p"}, "bareprop")))}
		default:
			return []*Node{ExprStmt(Dot(N("obj", NS("getter", "v", Block(ExprStmt(Call(Id("log"), Str("bare-getter"))), N("return", Num(1))))), "v"))}
		}
	case "assign":
		return []*Node{ExprStmt(g.assignExpr())}
	case "upd":
		return []*Node{ExprStmt(g.updExpr())}
	case "exprcall":
		return []*Node{ExprStmt(g.callExpr(2))}
	case "logcall":
		return []*Node{ExprStmt(Call(Id("log"), g.callExpr(2)))}
	case "if":
		n := N("if", g.expr(kBool, 2), g.block(g.n(1, 2, "nthen")))
		if g.coin(50, "else") {
			n.C = append(n.C, g.block(g.n(1, 2, "nelse")))
		}
		return []*Node{n}
	case "for", "while", "dowhile", "closure-loop":
		return g.loop(c)
	case "forin":
		cnt, key := g.fresh("n"), g.fresh("k")
		g.declare(cnt, kNum)
		obj := g.expr(kObj, 2)
		if g.coin(35, "forinchain") {
			// an object with enumerable properties on itself and on its prototype
			inner := N("obj", NS("prop", "p", Num(1)), NS("prop", pick(g, []string{"q", "r", "a", "b"}, "fp1"), Num(2)))
			obj = Call(Dot(Id("Object"), "create"), inner)
		}
		obj = g.viaScript(obj, "forinsrc")
		flabel := ""
		if g.coin(50, "forinlabel") {
			flabel = g.fresh("L")
		}
		body := Block(ExprStmt(&Node{K: "postupd", S: "++", C: []*Node{Id(cnt)}}))
		switch g.n(0, 7, "forinexit") { // order-insensitive exits: the count is the same whatever the enumeration order
		case 0:
			body.C = append(body.C, NS("break", flabel))
		case 1:
			body.C = append(body.C, NS("continue", flabel), ExprStmt(Call(Id("log"), Str("unreachable"))))
		case 2:
			if g.sc.inFunc {
				body.C = append(body.C, N("return", Id(cnt)))
			}
		case 3, 4:
			if flabel != "" {
				// the labelled jump leaves (or continues) the for-in from inside a nested loop
				j := g.fresh("j")
				g.declare(j, kNum)
				jump := "break"
				if g.coin(50, "forinnestedcont") {
					jump = "continue"
				}
				body.C = append(body.C, N("for", N("var", NS("decl", j, Num(0))), Bin("<", Id(j), Num(3)), &Node{K: "postupd", S: "++", C: []*Node{Id(j)}},
					Block(N("if", Bin("===", Id(j), Num(1)), Block(NS(jump, flabel))), ExprStmt(Call(Id("log"), Str("inner"), Id(j))))),
					ExprStmt(Call(Id("log"), Str("unreachable"))))
			}
		}
		var loop *Node = NS("forin", "var", Id(key), obj, body)
		if flabel != "" {
			loop = NS("label", flabel, loop)
		}
		return []*Node{
			N("var", NS("decl", cnt, Num(0))),
			loop,
			ExprStmt(Call(Id("log"), Str("forin"), Id(cnt))),
		}
	case "switch":
		if !deepNow(g) && g.coin(35, "loopswitch") {
			// a switch on the loop variable inside a loop, followed by a tail statement: break leaves the switch,
			// continue the iteration
			i := g.fresh("i")
			g.declare(i, kNum)
			label := ""
			if g.coin(40, "lslabel") {
				label = g.fresh("L")
			}
			g.sc.loops = append(g.sc.loops, label)
			g.sc.inLoop++
			sw := g.switchStmt()
			sw.C[0] = Id(i)
			g.sc.inLoop--
			g.sc.loops = g.sc.loops[:len(g.sc.loops)-1]
			var loop *Node = N("for", N("var", NS("decl", i, Num(0))), Bin("<", Id(i), Num(float64(g.n(2, 4, "lsbound")))), &Node{K: "postupd", S: "++", C: []*Node{Id(i)}},
				Block(sw, ExprStmt(Call(Id("log"), Str("loop-tail"), Id(i)))))
			if label != "" {
				loop = NS("label", label, loop)
			}
			return []*Node{loop}
		}
		return []*Node{g.switchStmt()}
	case "try", "trythrow":
		return []*Node{g.tryStmt(c == "trythrow")}
	case "labelblock":
		l := g.fresh("L")
		g.sc.blocks = append(g.sc.blocks, l)
		b := g.block(g.n(1, 3, "nlb"))
		g.sc.blocks = g.sc.blocks[:len(g.sc.blocks)-1]
		return []*Node{NS("label", l, b)}
	case "breaklabel":
		return []*Node{NS("break", pick(g, g.sc.blocks, "bl"))}
	case "break":
		lbl := ""
		if g.sc.inLoop > 0 && g.coin(40, "lblbreak") {
			if ls := nonEmpty(g.sc.loops); len(ls) > 0 {
				lbl = pick(g, ls, "blabel")
			}
		}
		return []*Node{NS("break", lbl)}
	case "continue":
		lbl := ""
		if g.coin(40, "lblcont") {
			if ls := nonEmpty(g.sc.loops); len(ls) > 0 {
				lbl = pick(g, ls, "clabel")
			}
		}
		return []*Node{NS("continue", lbl)}
	case "return":
		if g.coin(20, "bareret") {
			return []*Node{N("return")}
		}
		return []*Node{N("return", g.expr(kAny, 2))}
	case "with":
		obj := g.expr(kObj, 1)
		// inside the with body the property pool names may resolve to the object
		saved := g.sc
		g.push(false)
		for _, p := range propPool {
			if _, ok := g.sc.vars[p]; !ok {
				g.sc.vars[p] = kAny
				g.sc.order = append(g.sc.order, p)
			}
		}
		body := g.block(g.n(1, 3, "nwith"))
		g.sc = saved
		return []*Node{N("with", obj, body)}
	case "eval":
		direct := g.coin(65, "direct")
		saved := g.sc
		if !direct {
			// indirect eval runs in the global scope: only globals are visible
			root := g.sc
			for root.parent != nil {
				root = root.parent
			}
			g.sc = root
			g.push(false)
			g.sc.inFunc, g.sc.inLoop, g.sc.inSwtch, g.sc.loops, g.sc.blocks = false, 0, 0, nil, nil
		} else {
			g.push(false)
			g.sc.inLoop, g.sc.inSwtch, g.sc.loops, g.sc.blocks = 0, 0, nil, nil
		}
		wasFunc := g.sc.inFunc
		g.sc.inFunc = false // no return inside eval code
		sub := N("program")
		sub.C = g.stmts(g.n(1, 3, "neval"), false)
		if g.coin(70, "evaltail") {
			sub.C = append(sub.C, ExprStmt(g.expr(kAny, 1)))
		}
		// variables declared by a direct eval land in the caller's variable environment
		declared := map[string]kind{}
		for k, v := range g.sc.vars {
			declared[k] = v
		}
		g.sc.inFunc = wasFunc
		g.sc = saved
		if direct {
			for k, v := range declared {
				if _, ok := g.sc.vars[k]; !ok {
					g.declare(k, v)
				}
			}
		}
		mode := "indirect"
		if direct {
			mode = "direct"
		}
		ev := &Node{K: "eval", S: mode, C: []*Node{sub}}
		if g.coin(50, "logeval") {
			return []*Node{ExprStmt(Call(Id("log"), Str("eval"), ev))}
		}
		return []*Node{ExprStmt(ev)}
	case "funcdecl":
		name := pick(g, []string{"f", "g", "h"}, "fname")
		fn := g.function("funcdecl", name, false)
		g.sc.fns = appendUnique(g.sc.fns, name)
		g.declare(name, kFn)
		return []*Node{fn}
	case "ctor":
		// constructor with prototype method; instances carry p (and q)
		name := pick(g, []string{"F", "K"}, "cname")
		g.push(true)
		g.sc.params = []string{"u"}
		g.declare("u", kAny)
		body := Block(ExprStmt(&Node{K: "assign", S: "=", C: []*Node{Dot(N("this"), "p"), Id("u")}}))
		if g.coin(40, "ctorlog") {
			body.C = append(body.C, ExprStmt(Call(Id("log"), Str("ctor"), N("this"))))
		}
		switch g.n(0, 3, "ctorret") {
		case 0:
			body.C = append(body.C, N("return", g.expr(kObj, 1))) // object result replaces this
		case 1:
			body.C = append(body.C, N("return", g.expr(kNum, 1))) // primitive result is ignored
		}
		g.pop()
		fn := NS("funcdecl", name, N("params", Id("u")), body)
		g.sc.ctors = appendUnique(g.sc.ctors, name)
		g.sc.fns = appendUnique(g.sc.fns, name)
		g.declare(name, kFn)
		g.push(true)
		mbody := Block(N("return", g.exprThis()))
		g.pop()
		meth := ExprStmt(&Node{K: "assign", S: "=", C: []*Node{
			Dot(Dot(Id(name), "prototype"), pick(g, []string{"m", "q"}, "mname")),
			&Node{K: "func", C: []*Node{N("params"), mbody}}}})
		return []*Node{fn, meth}
	case "method-obj":
		name := pick(g, varPool, "oname")
		g.push(true)
		mbody := Block()
		if g.coin(50, "mlog") {
			mbody.C = append(mbody.C, ExprStmt(Call(Id("log"), Str("m"), N("this"), Dot(N("this"), "p"))))
		}
		mbody.C = append(mbody.C, N("return", g.exprThis()))
		g.pop()
		o := N("obj", NS("prop", "p", g.expr(kAny, 1)), NS("prop", "m", &Node{K: "func", C: []*Node{N("params"), mbody}}))
		g.declare(name, kObj)
		return []*Node{N("var", NS("decl", name, o))}
	case "accessor-obj":
		name := pick(g, varPool, "aname")
		g.push(true)
		gbody := Block(ExprStmt(Call(Id("log"), Str("get"))), N("return", g.exprThis()))
		g.pop()
		g.push(true)
		g.declare("v", kAny)
		sbody := Block(ExprStmt(Call(Id("log"), Str("set"), Id("v"))), ExprStmt(&Node{K: "assign", S: "=", C: []*Node{Dot(N("this"), "q"), Id("v")}}))
		g.pop()
		o := N("obj", NS("prop", "q", g.expr(kNum, 1)), NS("getter", "r", gbody))
		if g.coin(70, "hasset") {
			o.C = append(o.C, NS("setter", "r", Id("v"), sbody))
		}
		g.declare(name, kObj)
		return []*Node{N("var", NS("decl", name, o))}
	case "valueof-obj":
		// an object whose conversion to a primitive is observable; declared as a number-like value so
		// that arithmetic, comparison, ++/-- and compound assignment pick it up
		name := pick(g, varPool, "voname")
		g.push(true)
		vbody := Block(ExprStmt(Call(Id("log"), Str("valueOf"))), N("return", g.literal(kNum)))
		tbody := Block(ExprStmt(Call(Id("log"), Str("toString"))), N("return", g.literal(kStr)))
		g.pop()
		o := N("obj", NS("prop", "valueOf", &Node{K: "func", C: []*Node{N("params"), vbody}}))
		if g.coin(50, "hasts") {
			o.C = append(o.C, NS("prop", "toString", &Node{K: "func", C: []*Node{N("params"), tbody}}))
		}
		g.declare(name, kNum)
		out := []*Node{N("var", NS("decl", name, o))}
		if g.coin(50, "voupd") {
			// postfix/prefix update of a binding or member holding the object: ToNumber once, result vs stored value
			holder := N("obj", NS("prop", "p", Id(name)))
			hn := g.fresh("h")
			g.declare(hn, kObj)
			out = append(out, N("var", NS("decl", hn, holder)),
				ExprStmt(Call(Id("log"), Str("upd"), &Node{K: pick(g, []string{"postupd", "preupd"}, "vk"), S: pick(g, []string{"++", "--"}, "vop"), C: []*Node{Dot(Id(hn), "p")}}, Dot(Id(hn), "p"))))
		}
		return out
	case "scope-shift":
		// the same identifier expression is evaluated several times while a nearer scope starts (or stops)
		// binding the name: with-objects of different shapes, a with-object that gains the property,
		// a direct eval that declares the name on a later call
		name := pick(g, []string{"a", "b", "x"}, "ssname")
		fn := pick(g, []string{"f", "g", "h"}, "ssfn")
		g.declare(name, kAny)
		pre := N("var", NS("decl", name, g.literal(kVal)))
		switch g.n(0, 2, "ssform") {
		case 0:
			body := Block(N("with", Id("u"), Block(N("return", Id(name)))))
			g.sc.fns = appendUnique(g.sc.fns, fn)
			g.declare(fn, kFn)
			return []*Node{pre, NS("funcdecl", fn, N("params", Id("u")), body),
				ExprStmt(Call(Id("log"), Str("with-shift"), Call(Id(fn), N("obj")), Call(Id(fn), N("obj", NS("prop", name, g.literal(kVal)))), Call(Id(fn), N("obj"))))}
		case 1:
			i, wo := g.fresh("i"), g.fresh("wo")
			g.declare(i, kNum)
			g.declare(wo, kObj)
			loop := N("for", N("var", NS("decl", i, Num(0))), Bin("<", Id(i), Num(3)), &Node{K: "postupd", S: "++", C: []*Node{Id(i)}},
				Block(N("with", Id(wo), Block(ExprStmt(Call(Id("log"), Str("with-loop"), Id(name))))),
					N("if", Bin("===", Id(i), Num(0)), Block(ExprStmt(&Node{K: "assign", S: "=", C: []*Node{Dot(Id(wo), name), g.literal(kVal)}})),
						Block(ExprStmt(&Node{K: "un", S: "delete", C: []*Node{Dot(Id(wo), name)}})))))
			return []*Node{pre, N("var", NS("decl", wo, N("obj"))), loop}
		default:
			sub := N("program", N("var", NS("decl", name, g.literal(kVal))))
			body := Block(N("if", Id("u"), Block(ExprStmt(&Node{K: "eval", S: "direct", C: []*Node{sub}}))), N("return", Id(name)))
			g.sc.fns = appendUnique(g.sc.fns, fn)
			g.declare(fn, kFn)
			return []*Node{pre, NS("funcdecl", fn, N("params", Id("u")), body),
				ExprStmt(Call(Id("log"), Str("eval-shift"), Call(Id(fn), NS("bool", "false")), Call(Id(fn), NS("bool", "true")), Call(Id(fn), NS("bool", "false"))))}
		}
	case "eval-delete":
		// bindings declared by eval code — direct or indirect — are deletable (10.4.2, 10.5 configurableBindings);
		// the same names declared by the program itself are not
		if g.NoEval {
			return []*Node{g.logStmt()}
		}
		v, f := g.fresh("ev"), g.fresh("ef")
		mode := pick(g, []string{"direct", "indirect", "indirect"}, "edmode")
		sub := N("program", N("var", NS("decl", v, g.literal(kVal))), NS("funcdecl", f, N("params"), Block(N("return", Num(1)))))
		del := func(name string) *Node { return &Node{K: "un", S: "delete", C: []*Node{Id(name)}} }
		typ := func(name string) *Node { return &Node{K: "un", S: "typeof", C: []*Node{Id(name)}} }
		return []*Node{
			ExprStmt(&Node{K: "eval", S: mode, C: []*Node{sub}}),
			ExprStmt(Call(Id("log"), Str("eval-declared"), typ(v), typ(f))),
			ExprStmt(Call(Id("log"), Str("eval-delete"), del(v), typ(v), del(f), typ(f))),
		}
	case "with-throw":
		// an exception leaves a with body and is caught in the same activation: the with object must be off
		// the scope chain afterwards (12.10 step 7 restores the lexical environment however the body ends)
		name := pick(g, []string{"p", "q", "a"}, "wtname")
		wo := g.fresh("wo")
		g.declare(name, kAny)
		g.declare(wo, kObj)
		var mk *Node = N("obj", NS("prop", name, Str("from-with-object")))
		if g.coin(30, "wtinherited") {
			mk = Call(Dot(Id("Object"), "create"), mk)
		}
		var thrower *Node
		switch g.n(0, 2, "wtthrow") {
		case 0:
			thrower = N("throw", g.literal(kVal))
		case 1:
			thrower = ExprStmt(Dot(N("null"), "x")) // TypeError raised by the interpreter
		default:
			thrower = ExprStmt(Call(&Node{K: "func", C: []*Node{N("params"), Block(N("throw", Str("from-callee")))}}))
		}
		after := []*Node{
			ExprStmt(Call(Id("log"), Str("after-with-throw"), Id(name))),
			ExprStmt(&Node{K: "assign", S: "=", C: []*Node{Id(name), Str("assigned-after")}}),
			ExprStmt(Call(Id("log"), Str("with-object-untouched"), Dot(Id(wo), name), Id(name),
				Call(&Node{K: "func", C: []*Node{N("params"), Block(N("return", Id(name)))}}))),
		}
		return append([]*Node{N("var", NS("decl", name, Str("outer"))), N("var", NS("decl", wo, mk)),
			N("try", Block(N("with", Id(wo), Block(ExprStmt(Call(Id("log"), Str("in-with"), Id(name))), thrower))),
				NS("catch", "e", Block(ExprStmt(Call(Id("log"), Str("caught-from-with"), Id(name))))), Empty())}, after...)
	case "proto-getter":
		// an accessor on a prototype observes the receiver, not the object that holds it (8.12.3 / 8.12.5)
		proto, inst := g.fresh("pr"), g.fresh("in")
		g.declare(proto, kObj)
		g.declare(inst, kObj)
		gbody := Block(ExprStmt(Call(Id("log"), Str("proto-get"), Dot(N("this"), "tag"))), N("return", Dot(N("this"), "tag")))
		sbody := Block(ExprStmt(&Node{K: "assign", S: "=", C: []*Node{Dot(N("this"), "got"), Id("v")}}))
		po := N("obj", NS("prop", "tag", Str("proto")), NS("getter", "g", gbody), NS("setter", "g", Id("v"), sbody))
		out := []*Node{N("var", NS("decl", proto, po))}
		if g.coin(50, "pgctor") {
			c := g.fresh("C")
			g.declare(c, kFn)
			out = append(out, NS("funcdecl", c, N("params"), Block(ExprStmt(&Node{K: "assign", S: "=", C: []*Node{Dot(N("this"), "tag"), Str("instance")}}))),
				ExprStmt(&Node{K: "assign", S: "=", C: []*Node{Dot(Id(c), "prototype"), Id(proto)}}),
				N("var", NS("decl", inst, &Node{K: "new", C: []*Node{Id(c)}})))
		} else {
			var mk *Node = Call(Dot(Id("Object"), "create"), Id(proto))
			if g.coin(40, "pgdeep") {
				mk = Call(Dot(Id("Object"), "create"), mk)
			}
			out = append(out, N("var", NS("decl", inst, mk)),
				ExprStmt(&Node{K: "assign", S: "=", C: []*Node{Dot(Id(inst), "tag"), Str("instance")}}))
		}
		out = append(out,
			ExprStmt(Call(Id("log"), Str("inherited-get"), Dot(Id(inst), "g"), N("idx", Id(inst), Str("g")))),
			ExprStmt(&Node{K: "assign", S: "=", C: []*Node{Dot(Id(inst), "g"), Str("stored")}}),
			ExprStmt(Call(Id("log"), Str("inherited-set"), Dot(Id(inst), "got"), Dot(Id(proto), "got"), Call(Dot(Id(inst), "hasOwnProperty"), Str("g")))))
		if !g.NoWith {
			out = append(out, N("with", Id(inst), Block(ExprStmt(Call(Id("log"), Str("with-get"), Id("g"))))))
		}
		return out
	case "var-shadowed":
		// `var name = value` executed where a nearer scope already binds the name: the declaration is hoisted
		// to the variable environment, the initialiser assigns through the lexical environment (12.2), so the
		// with-object's property / the catch parameter is written and the hoisted variable stays undefined
		name := pick(g, []string{"p", "q", "e"}, "vsname")
		g.declare(name, kAny)
		switch g.n(0, 3, "vsform") {
		case 0, 1:
			wo := g.fresh("wo")
			g.declare(wo, kObj)
			var mk *Node = N("obj", NS("prop", name, g.literal(kVal)))
			if g.coin(40, "inherited") {
				mk = Call(Dot(Id("Object"), "create"), mk)
			}
			var inner *Node = N("var", NS("decl", name, g.literal(kVal)))
			if !g.NoEval && g.coin(30, "viaeval") {
				inner = ExprStmt(&Node{K: "eval", S: "direct", C: []*Node{N("program", N("var", NS("decl", name, g.literal(kVal))))}})
			}
			return []*Node{N("var", NS("decl", wo, mk)),
				N("with", Id(wo), Block(inner, ExprStmt(Call(Id("log"), Str("var-in-with"), Id(name))))),
				ExprStmt(Call(Id("log"), Str("after-with"), Dot(Id(wo), name), &Node{K: "un", S: "typeof", C: []*Node{Id(name)}}, Id(name),
					Call(Dot(Id(wo), "hasOwnProperty"), Str(name))))}
		default:
			return []*Node{N("try", Block(N("throw", g.literal(kVal))),
				NS("catch", name, Block(N("var", NS("decl", name, g.literal(kVal))), ExprStmt(Call(Id("log"), Str("var-in-catch"), Id(name))))), Empty()),
				ExprStmt(Call(Id("log"), Str("after-catch"), &Node{K: "un", S: "typeof", C: []*Node{Id(name)}}, Id(name)))}
		}
	case "args-fn":
		// a function exercising the arguments object: aliasing, length, callee, extra/missing args
		name := pick(g, []string{"f", "g", "h"}, "afname")
		g.push(true)
		g.sc.params = []string{"s", "t"}
		g.declare("s", kAny)
		g.declare("t", kAny)
		g.declare("arguments", kObj)
		body := Block()
		for i, n := 0, g.n(2, 4, "nargstmts"); i < n; i++ {
			switch g.n(0, 6, "argstmt") {
			case 0:
				body.C = append(body.C, ExprStmt(&Node{K: "assign", S: "=", C: []*Node{N("idx", Id("arguments"), Num(float64(g.n(0, 2, "ai")))), g.expr(kAny, 1)}}))
			case 1:
				body.C = append(body.C, ExprStmt(&Node{K: "assign", S: "=", C: []*Node{Id(pick(g, []string{"s", "t"}, "ap")), g.expr(kAny, 1)}}))
			case 2:
				body.C = append(body.C, ExprStmt(Call(Id("log"), Str("args"), Dot(Id("arguments"), "length"), N("idx", Id("arguments"), Num(0)), N("idx", Id("arguments"), Num(1)), Id("s"), Id("t"))))
			case 3:
				body.C = append(body.C, ExprStmt(Call(Id("log"), Bin("===", Dot(Id("arguments"), "callee"), Id(name)))))
			case 4:
				body.C = append(body.C, ExprStmt(&Node{K: "un", S: "delete", C: []*Node{N("idx", Id("arguments"), Num(float64(g.n(0, 1, "di"))))}}))
			default:
				body.C = append(body.C, g.stmt(false)...)
			}
		}
		body.C = append(body.C, N("return", g.expr(kAny, 1)))
		g.pop()
		g.sc.fns = appendUnique(g.sc.fns, name)
		g.declare(name, kFn)
		return []*Node{NS("funcdecl", name, N("params", Id("s"), Id("t")), body)}
	}
	panic("gen: stmt")
}

func nonEmpty(xs []string) []string {
	var out []string
	for _, x := range xs {
		if x != "" {
			out = append(out, x)
		}
	}
	return out
}

func appendUnique(xs []string, x string) []string {
	for _, y := range xs {
		if y == x {
			return xs
		}
	}
	return append(xs, x)
}

// loop builds a terminating loop with a dedicated counter.
func (g *G) loop(form string) []*Node {
	i := g.fresh("i")
	bound := float64(g.n(1, 4, "bound"))
	label := ""
	if g.coin(40, "looplabel") {
		label = g.fresh("L")
	}
	g.sc.loops = append(g.sc.loops, label)
	g.sc.inLoop++
	g.declare(i, kNum)
	var body *Node
	if form == "closure-loop" {
		// closures capturing the loop variable, called after the loop
		arr := g.fresh("fs")
		g.declare(arr, kObj)
		g.push(true)
		fbody := Block(N("return", Bin("+", Id(i), g.expr(kNum, 1))))
		g.pop()
		body = Block(ExprStmt(Call(Dot(Id(arr), "push"), &Node{K: "func", C: []*Node{N("params"), fbody}})))
		g.sc.inLoop--
		g.sc.loops = g.sc.loops[:len(g.sc.loops)-1]
		j := g.fresh("j")
		return []*Node{
			N("var", NS("decl", arr, N("arr"))),
			N("for", N("var", NS("decl", i, Num(0))), Bin("<", Id(i), Num(bound)), &Node{K: "postupd", S: "++", C: []*Node{Id(i)}}, body),
			N("for", N("var", NS("decl", j, Num(0))), Bin("<", Id(j), Dot(Id(arr), "length")), &Node{K: "postupd", S: "++", C: []*Node{Id(j)}},
				Block(ExprStmt(Call(Id("log"), Str("closure"), Call(N("idx", Id(arr), Id(j))))))),
		}
	}
	body = g.block(g.n(1, 3, "nbody"))
	g.sc.inLoop--
	g.sc.loops = g.sc.loops[:len(g.sc.loops)-1]
	var out []*Node
	var loop *Node
	switch form {
	case "for":
		loop = N("for", N("var", NS("decl", i, g.viaScript(Num(0), "forinit"))), g.viaScript(Bin("<", Id(i), Num(bound)), "forcond"), &Node{K: "postupd", S: "++", C: []*Node{Id(i)}}, body)
	case "while":
		out = append(out, N("var", NS("decl", i, Num(0))))
		loop = N("while", g.viaScript(Bin("<", &Node{K: "postupd", S: "++", C: []*Node{Id(i)}}, Num(bound)), "whilecond"), body)
	default:
		out = append(out, N("var", NS("decl", i, Num(0))))
		loop = N("dowhile", body, g.viaScript(Bin("<", &Node{K: "preupd", S: "++", C: []*Node{Id(i)}}, Num(bound)), "docond"))
	}
	if label != "" {
		loop = NS("label", label, loop)
	}
	return append(out, loop)
}

// viaScript sometimes routes a loop-header expression through script code that runs blocks of its own
// (an immediately invoked function, a getter): whatever the interpreter keeps per statement (pending
// labels, completion values) must survive that.
func (g *G) viaScript(e *Node, label string) *Node {
	switch g.n(0, 7, label) {
	case 0:
		// (function(v){ L: { break L } return v })(e)
		inner := g.fresh("L")
		return Call(&Node{K: "func", C: []*Node{N("params", Id("v")), Block(NS("label", inner, Block(NS("break", inner))), N("return", Id("v")))}}, e)
	case 1:
		// ({get v(){ for(;;){ break } return e }}).v — e is evaluated inside the getter
		return Dot(N("obj", NS("getter", "v", Block(N("for", Empty(), Empty(), Empty(), Block(NS("break", ""))), N("return", e)))), "v")
	}
	return e
}

func (g *G) switchStmt() *Node {
	disc := g.expr(pick(g, []kind{kNum, kNum, kStr}, "dkind"), 1)
	if g.coin(60, "discconst") {
		disc = Num(float64(g.n(0, 3, "discv"))) // likely to hit one of the constant cases below
	}
	n := N("switch", disc)
	ncase := g.n(1, 4, "ncase")
	defPos := -1
	if g.coin(60, "hasdef") {
		defPos = g.n(0, ncase, "defpos")
	}
	g.sc.inSwtch++
	for i := 0; i <= ncase; i++ {
		if i == defPos {
			c := &Node{K: "case", S: "default", C: []*Node{Empty()}}
			c.C = append(c.C, g.caseBody()...)
			n.C = append(n.C, c)
		}
		if i == ncase {
			break
		}
		var test *Node
		if g.coin(80, "consttest") {
			if g.coin(70, "numtest") {
				test = Num(float64(g.n(0, 3, "cv")))
			} else {
				test = Str(pick(g, strPool, "cs"))
			}
		} else {
			test = g.expr(kAny, 1)
		}
		c := N("case", test)
		c.C = append(c.C, g.caseBody()...)
		n.C = append(n.C, c)
	}
	g.sc.inSwtch--
	return n
}

func deepNow(g *G) bool { return g.depth > 4 }

func (g *G) caseBody() []*Node {
	var out []*Node
	if g.coin(85, "casehasbody") {
		out = append(out, ExprStmt(Call(Id("log"), Str("case"), g.expr(kAny, 1))))
		if g.coin(30, "casemore") {
			out = append(out, g.stmt(false)...)
		}
	}
	switch {
	case g.sc.inLoop > 0 && g.coin(25, "casecontinue"):
		// continue inside a switch clause belongs to the enclosing loop (12.7): the rest of the clause, the clauses
		// it would fall into and the rest of the loop body are skipped
		lbl := ""
		if ls := nonEmpty(g.sc.loops); len(ls) > 0 && g.coin(40, "casecontlabel") {
			lbl = pick(g, ls, "casecontl")
		}
		out = append(out, NS("continue", lbl), ExprStmt(Call(Id("log"), Str("after-continue"))))
	case g.coin(40, "casebreak"):
		out = append(out, NS("break", ""))
	}
	return out
}

func (g *G) tryStmt(forceThrow bool) *Node {
	tb := Block()
	if g.sc.inFunc && g.coin(35, "tryreturn") {
		// abrupt completion of the try block by return: the value is fixed when return executes,
		// whatever catch/finally do afterwards
		tb.C = append(tb.C, g.stmts(g.n(0, 1, "npreret"), false)...)
		var rv *Node
		switch g.n(0, 3, "retform") {
		case 0:
			if vs := g.varsOf(kAny); len(vs) > 0 {
				rv = Id(pick(g, vs, "retvar"))
			} else {
				rv = g.expr(kAny, 1)
			}
		case 1:
			rv = Dot(g.objRef(), pick(g, propPool, "retprop"))
		case 2:
			rv = Id(pick(g, []string{"zz", "undeclared"}, "retundecl")) // ReferenceError raised inside the try block
		default:
			rv = g.expr(kAny, 2)
		}
		tb.C = append(tb.C, N("return", rv))
		catch, fin := Empty(), Empty()
		mode := g.n(0, 2, "trymode2")
		if mode != 1 {
			g.push(false)
			g.declare("e", kAny)
			cb := Block(ExprStmt(Call(Id("log"), Str("caught"), g.describeCaught())))
			cb.C = append(cb.C, g.stmts(g.n(0, 1, "ncatch2"), false)...)
			g.pop()
			catch = NS("catch", "e", cb)
		}
		if mode != 0 {
			fb := Block(ExprStmt(Call(Id("log"), Str("finally"))))
			// the finally block changes what the returned expression referred to
			if rv.K == "id" || rv.K == "dot" {
				fb.C = append(fb.C, ExprStmt(&Node{K: "assign", S: "=", C: []*Node{rv, g.expr(kVal, 1)}}))
			}
			fb.C = append(fb.C, g.stmts(g.n(0, 1, "nfin2"), false)...)
			fin = fb
		}
		return N("try", tb, catch, fin)
	}
	if forceThrow || g.coin(50, "throws") {
		pre := g.stmts(g.n(0, 1, "npre"), false)
		tb.C = append(tb.C, pre...)
		tb.C = append(tb.C, N("throw", g.throwable()))
	} else {
		tb.C = append(tb.C, g.stmts(g.n(1, 3, "ntry"), false)...)
	}
	catch, fin := Empty(), Empty()
	mode := g.n(0, 2, "trymode") // 0 catch, 1 finally, 2 both
	if mode != 1 {
		g.push(false)
		g.declare("e", kAny)
		cb := Block(ExprStmt(Call(Id("log"), Str("caught"), g.describeCaught())))
		cb.C = append(cb.C, g.stmts(g.n(0, 2, "ncatch"), false)...)
		g.pop()
		catch = NS("catch", "e", cb)
	}
	if mode != 0 {
		fb := Block(ExprStmt(Call(Id("log"), Str("finally"))))
		if mode == 2 && g.coin(40, "fincatchparam") {
			// the catch parameter is out of scope again in the finally block
			fb.C = append(fb.C, ExprStmt(Call(Id("log"), Str("e in finally"), &Node{K: "un", S: "typeof", C: []*Node{Id("e")}})))
		}
		fb.C = append(fb.C, g.stmts(g.n(0, 2, "nfin"), false)...)
		if g.coin(25, "finabrupt") {
			// an abrupt completion of the finally block overrides whatever the try/catch blocks completed with
			switch {
			case g.sc.inLoop > 0 && g.coin(50, "finbreak"):
				fb.C = append(fb.C, NS(pick(g, []string{"break", "continue"}, "finbc"), ""))
			case g.sc.inFunc:
				fb.C = append(fb.C, N("return", g.expr(kVal, 1)))
			case len(g.sc.blocks) > 0:
				fb.C = append(fb.C, NS("break", pick(g, g.sc.blocks, "finbl")))
			}
		}
		fin = fb
	}
	return N("try", tb, catch, fin)
}

func (g *G) throwable() *Node {
	switch g.n(0, 5, "throwkind") {
	case 0:
		return Num(float64(g.n(0, 9, "tv")))
	case 1:
		return Str(pick(g, strPool, "ts"))
	case 2:
		return &Node{K: "new", C: []*Node{Id(pick(g, []string{"Error", "TypeError", "RangeError"}, "ecls")), Str(pick(g, strPool, "emsg"))}}
	case 3:
		return N("obj", NS("prop", "p", g.expr(kNum, 1)))
	case 4:
		// provoke an interpreter-raised error instead of a throw statement's operand
		return Call(N("undef"))
	}
	return g.expr(kAny, 1)
}

func (g *G) describeCaught() *Node {
	switch g.n(0, 4, "dcaught") {
	case 0:
		return Id("e")
	case 1:
		return &Node{K: "un", S: "typeof", C: []*Node{Id("e")}}
	case 2:
		return Bin("instanceof", Id("e"), Id(pick(g, []string{"Error", "TypeError", "ReferenceError", "RangeError"}, "icls")))
	case 3:
		return &Node{K: "logic", S: "&&", C: []*Node{Id("e"), Dot(Id("e"), "name")}}
	}
	return &Node{K: "logic", S: "&&", C: []*Node{Id("e"), Dot(Id("e"), "p")}}
}

// function builds a function declaration or expression with 0–3 parameters.
func (g *G) function(k, name string, isExpr bool) *Node {
	g.push(true)
	np := g.n(0, 3, "nparams")
	params := N("params")
	pnames := []string{"u", "v", "w"}
	for i := 0; i < np; i++ {
		params.C = append(params.C, Id(pnames[i]))
		g.declare(pnames[i], kAny)
		g.sc.params = append(g.sc.params, pnames[i])
	}
	if isExpr && name != "" {
		g.declare(name, kFn)
	}
	body := Block()
	body.C = append(body.C, g.stmts(g.n(1, 4, "nfbody"), true)...)
	if g.coin(75, "fret") {
		body.C = append(body.C, N("return", g.expr(kAny, 2)))
	}
	g.pop()
	return &Node{K: k, S: name, C: []*Node{params, body}}
}

func (g *G) exprThis() *Node {
	switch g.n(0, 3, "ethis") {
	case 0:
		return N("this")
	case 1:
		return Dot(N("this"), pick(g, propPool, "tp"))
	case 2:
		return &Node{K: "un", S: "typeof", C: []*Node{N("this")}}
	}
	return Bin("===", N("this"), N("this"))
}

func (g *G) lvalue() *Node { return g.lvalueOf(kAny) }

// lvalueOf restricts variable targets to kind k (kVal for read-modify-write operators, so that
// functions are not coerced to strings).
func (g *G) lvalueOf(k kind) *Node {
	vs := g.varsOf(k)
	switch {
	case len(vs) > 0 && g.coin(60, "lvar"):
		return Id(pick(g, vs, "lv"))
	case g.coin(70, "ldot"):
		return Dot(g.objRef(), pick(g, propPool, "lp"))
	case g.coin(50, "lidx"):
		return N("idx", g.objRef(), g.expr(pick(g, []kind{kNum, kStr}, "ik"), 0))
	}
	if k == kVal {
		return Dot(g.objRef(), pick(g, propPool, "lp2"))
	}
	return Id(pick(g, varPool, "lnew")) // possibly undeclared: creates a global
}

func (g *G) objRef() *Node {
	if os := g.varsOf(kObj); len(os) > 0 && g.coin(80, "ovar") {
		return Id(pick(g, os, "ov"))
	}
	if g.sc.inFunc && g.coin(50, "othis") {
		return N("this")
	}
	return g.expr(kObj, 0)
}

func (g *G) assignExpr() *Node {
	op := pick(g, []string{"=", "=", "=", "+=", "-=", "*=", "%=", "|=", "&=", "^=", "<<=", ">>=", ">>>="}, "aop")
	t := g.lvalue()
	if op != "=" {
		t = g.lvalueOf(kVal)
	}
	if op == "=" {
		rk := kAny
		if t.K == "id" {
			if vk, ok := g.sc.vars[t.S]; ok && g.coin(85, "keepkind") {
				rk = vk
			}
		}
		return &Node{K: "assign", S: op, C: []*Node{t, g.expr(rk, 2)}}
	}
	return &Node{K: "assign", S: op, C: []*Node{t, g.expr(pick(g, []kind{kNum, kNum, kStr, kVal}, "rk"), 2)}}
}

func (g *G) updExpr() *Node {
	return &Node{K: pick(g, []string{"preupd", "postupd"}, "updk"), S: pick(g, []string{"++", "--"}, "updop"), C: []*Node{g.lvalueOf(kVal)}}
}

func (g *G) callExpr(d int) *Node {
	nargs := g.n(0, 3, "ncallargs")
	args := make([]*Node, nargs)
	for i := range args {
		args[i] = g.expr(pick(g, []kind{kVal, kVal, kVal, kAny}, "argkind"), d-1)
	}
	fns := g.sc.fns
	switch c := g.n(0, 9, "callform"); {
	case c <= 2 && len(fns) > 0:
		return Call(Id(pick(g, fns, "cf")), args...)
	case c == 3 && len(fns) > 0:
		return Call(Dot(Id(pick(g, fns, "cf")), "call"), append([]*Node{g.thisArg()}, args...)...)
	case c == 4 && len(fns) > 0:
		return Call(Dot(Id(pick(g, fns, "cf")), "apply"), g.thisArg(), N("arr", args...))
	case c == 5 && len(fns) > 0:
		bound := Call(Dot(Id(pick(g, fns, "cf")), "bind"), append([]*Node{g.thisArg()}, args...)...)
		if g.coin(40, "rebind") {
			// a bound function bound again: the first this value and the first arguments stay (15.3.4.5.1)
			bound = Call(Dot(bound, "bind"), g.thisArg(), g.expr(kAny, 0))
		}
		return Call(bound, g.expr(kAny, 0))
	case c == 6 && len(g.sc.ctors) > 0:
		return &Node{K: "new", C: append([]*Node{Id(pick(g, g.sc.ctors, "nc"))}, args...)}
	case c == 7:
		m := Dot(g.objRef(), pick(g, []string{"m", "q", "p"}, "mn"))
		switch g.n(0, 5, "calleeform") {
		case 0: // the callee is a value, not a reference: this is undefined (→ the global object)
			return Call(N("cond", g.expr(kBool, 0), m, g.expr(kFn, 0)), args...)
		case 1:
			return Call(Bin(",", Num(0), m), args...)
		case 2:
			return Call(&Node{K: "logic", S: "||", C: []*Node{m, g.expr(kFn, 0)}}, args...)
		}
		return Call(m, args...)
	case c == 8:
		if fv := g.varsOf(kFn); len(fv) > 0 {
			return Call(Id(pick(g, fv, "fv")), args...)
		}
	}
	if len(fns) > 0 {
		return Call(Id(pick(g, fns, "cf")), args...)
	}
	// immediately invoked function expression
	return Call(g.function("func", "", true), args...)
}

func (g *G) thisArg() *Node {
	switch g.n(0, 5, "thisarg") {
	case 0:
		return N("undef")
	case 1:
		return N("null")
	case 2:
		return g.expr(kNum, 0)
	case 3:
		return Str(pick(g, strPool, "ths"))
	}
	return g.expr(kObj, 0)
}

// expr draws an expression that probably evaluates to kind k; d bounds the nesting.
func (g *G) expr(k kind, d int) *Node {
	if k == kAny {
		k = pick(g, []kind{kNum, kNum, kNum, kStr, kStr, kBool, kBool, kObj, kObj, kObj, kFn}, "anykind")
	}
	if k == kVal {
		k = pick(g, []kind{kNum, kNum, kStr, kBool, kObj}, "valkind")
	}
	vs := g.varsOf(k)
	if d <= 0 {
		if len(vs) > 0 && g.coin(55, "leafvar") {
			return Id(pick(g, vs, "lv"))
		}
		return g.literal(k)
	}
	switch k {
	case kNum:
		switch c := g.n(0, 13, "numform"); c {
		case 0, 1:
			return g.literal(kNum)
		case 2, 3:
			if len(vs) > 0 {
				return Id(pick(g, vs, "nv"))
			}
			return g.literal(kNum)
		case 4, 5:
			return Bin(pick(g, []string{"+", "-", "*", "%", "&", "|", "^", "<<", ">>", ">>>", "/"}, "nop"), g.expr(kNum, d-1), g.expr(pick(g, []kind{kNum, kNum, kNum, kVal}, "rk"), d-1))
		case 6:
			return &Node{K: "un", S: pick(g, []string{"-", "+", "~"}, "uop"), C: []*Node{g.expr(pick(g, []kind{kNum, kNum, kStr, kBool, kVal}, "uk"), d-1)}}
		case 7:
			return g.updExpr()
		case 8:
			return N("cond", g.expr(kBool, d-1), g.expr(kNum, d-1), g.expr(kNum, d-1))
		case 9:
			return Dot(g.objRef(), pick(g, propPool, "np"))
		case 10:
			return g.callExpr(d)
		case 11:
			return Bin(",", g.expr(kAny, d-1), g.expr(kNum, d-1))
		case 12:
			if g.sc.inFunc {
				return pick(g, []*Node{Dot(Id("arguments"), "length"), N("idx", Id("arguments"), Num(0))}, "argform")
			}
			return g.assignExpr()
		default:
			return Dot(g.expr(pick(g, []kind{kStr, kObj, kFn}, "lenk"), d-1), "length")
		}
	case kStr:
		switch c := g.n(0, 6, "strform"); c {
		case 0, 1:
			return g.literal(kStr)
		case 2:
			if len(vs) > 0 {
				return Id(pick(g, vs, "sv"))
			}
			return g.literal(kStr)
		case 3:
			return Bin("+", g.expr(kStr, d-1), g.expr(kVal, d-1))
		case 4:
			x := g.expr(kAny, d-1)
			if g.coin(25, "typeofundeclared") {
				x = Id(pick(g, []string{"zz", "undeclared"}, "undecl"))
			}
			return &Node{K: "un", S: "typeof", C: []*Node{x}}
		case 5:
			return N("cond", g.expr(kBool, d-1), g.expr(kStr, d-1), g.expr(kStr, d-1))
		default:
			return Bin("+", g.expr(kVal, d-1), g.literal(kStr))
		}
	case kBool:
		switch c := g.n(0, 9, "boolform"); c {
		case 0:
			return g.literal(kBool)
		case 1, 2:
			return Bin(pick(g, []string{"<", ">", "<=", ">=", "==", "!=", "===", "!=="}, "cmp"), g.expr(kVal, d-1), g.expr(kVal, d-1))
		case 3:
			return Bin(pick(g, []string{"<", ">", "<=", ">="}, "ncmp"), g.expr(kNum, d-1), g.expr(kNum, d-1))
		case 4:
			return &Node{K: "un", S: "!", C: []*Node{g.expr(kAny, d-1)}}
		case 5:
			return &Node{K: "logic", S: pick(g, []string{"&&", "||"}, "lop"), C: []*Node{g.expr(kAny, d-1), g.expr(kAny, d-1)}}
		case 6:
			return Bin("in", pick(g, []*Node{Str(pick(g, propPool, "inp")), Num(float64(g.n(0, 2, "ini")))}, "inkey"), g.objRef())
		case 7:
			cls := []string{"Error", "Object", "Function", "Array"}
			cls = append(cls, g.sc.ctors...)
			cls = append(cls, g.sc.fns...)
			c := pick(g, cls, "iof")
			if g.coin(30, "iofproto") {
				// the prototype object itself is not an instance (the chain walk starts at its [[Prototype]])
				return Bin("instanceof", Dot(Id(c), "prototype"), Id(c))
			}
			return Bin("instanceof", g.expr(kAny, d-1), Id(c))
		case 8:
			return &Node{K: "un", S: "delete", C: []*Node{g.lvalue()}}
		default:
			if len(vs) > 0 {
				return Id(pick(g, vs, "bv"))
			}
			return g.literal(kBool)
		}
	case kObj:
		switch c := g.n(0, 8, "objform"); c {
		case 0, 1:
			if len(vs) > 0 {
				return Id(pick(g, vs, "ov"))
			}
			return g.literal(kObj)
		case 2, 3:
			o := N("obj")
			seen := map[string]bool{}
			for i, n := 0, g.n(0, 3, "nprops"); i < n; i++ {
				p := pick(g, propPool, "pn")
				if seen[p] {
					continue
				}
				seen[p] = true
				o.C = append(o.C, NS("prop", p, g.expr(kAny, d-1)))
			}
			return o
		case 4:
			if len(g.sc.ctors) > 0 {
				return &Node{K: "new", C: []*Node{Id(pick(g, g.sc.ctors, "nc")), g.expr(kAny, d-1)}}
			}
			return N("arr", g.expr(kAny, d-1), g.expr(kAny, d-1))
		case 5:
			if g.sc.inFunc {
				return pick(g, []*Node{N("this"), Id("arguments")}, "thisorargs")
			}
			return N("this")
		case 6:
			return Call(Dot(Id("Object"), "create"), g.expr(kObj, d-1))
		case 7:
			n := g.n(0, 3, "narr")
			a := N("arr")
			for i := 0; i < n; i++ {
				a.C = append(a.C, g.expr(kAny, d-1))
			}
			return a
		default:
			return g.callExpr(d)
		}
	case kFn:
		switch c := g.n(0, 5, "fnform"); c {
		case 0, 1:
			if len(vs) > 0 {
				return Id(pick(g, vs, "fv"))
			}
			if len(g.sc.fns) > 0 {
				return Id(pick(g, g.sc.fns, "fd"))
			}
			fallthrough
		case 2:
			if g.depth > 5 {
				return g.literal(kFn)
			}
			name := ""
			if g.coin(40, "named") {
				name = pick(g, []string{"nf", "f"}, "nfname")
			}
			fn := g.function("func", name, true)
			if name != "" && g.coin(50, "selfassign") {
				// assignment to the own name inside a named function expression is ignored (13)
				fn.C[1].C = append([]*Node{ExprStmt(&Node{K: "assign", S: "=", C: []*Node{Id(name), Num(1)}}), ExprStmt(Call(Id("log"), Str("self"), &Node{K: "un", S: "typeof", C: []*Node{Id(name)}}))}, fn.C[1].C...)
			}
			return fn
		case 3:
			if len(g.sc.fns) > 0 {
				b := Call(Dot(Id(pick(g, g.sc.fns, "bf")), "bind"), g.thisArg(), g.expr(kAny, d-1))
				if g.coin(30, "rebind") {
					b = Call(Dot(b, "bind"), g.thisArg())
				}
				return b
			}
			return g.literal(kFn)
		case 4:
			return Dot(g.objRef(), pick(g, []string{"m", "q"}, "fm"))
		default:
			return g.literal(kFn)
		}
	}
	return g.literal(k)
}

func (g *G) literal(k kind) *Node {
	switch k {
	case kNum:
		return Num(float64(g.n(-2, 9, "num")))
	case kStr:
		return Str(pick(g, strPool, "str"))
	case kBool:
		return NS("bool", pick(g, []string{"true", "false"}, "bool"))
	case kObj:
		switch g.n(0, 3, "objlit") {
		case 0:
			return N("obj")
		case 1:
			return N("obj", NS("prop", "p", Num(float64(g.n(0, 5, "pv")))))
		case 2:
			return N("arr", Num(1), Num(2))
		}
		return N("obj", NS("prop", "p", Num(1)), NS("prop", "q", Str("x")))
	case kFn:
		return &Node{K: "func", C: []*Node{N("params", Id("u")), Block(N("return", pick(g, []*Node{Id("u"), N("this"), Num(7), Bin("+", Id("u"), Num(1))}, "fnlit")))}}
	}
	switch g.n(0, 2, "special") {
	case 0:
		return N("undef")
	case 1:
		return N("null")
	}
	return Num(0)
}
