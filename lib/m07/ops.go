package m07

import (
	"fmt"
	"sort"
	"strings"
)

// ---- the case: initial objects and a history of operations ------------------------------------------

// LitProp is a member of an object literal (K = "v" value, "g" getter, "s" setter; V a value tag, for
// g/s the tag F<id> of the family function the accessor forwards to) or, for a constructor, one
// `this.name = value` assignment.
type LitProp struct {
	Name string `json:"name"`
	K    string `json:"k"`
	V    string `json:"v"`
}

// ObjInit says how object k is created. Proto: index of an earlier object, -1 = null, -2 = Object.prototype.
type ObjInit struct {
	Kind  string      `json:"kind"` // "lit" | "create" | "ctor"
	Proto int         `json:"proto"`
	Lit   []LitProp   `json:"lit,omitempty"`
	Props []NamedDesc `json:"props,omitempty"`
}

// BodyAct is one conditional action of a for-in body: the first time the loop variable equals On,
// do `delete O[Obj][Name]` (K = "del") or `O[Obj][Name] = V` (K = "set").
type BodyAct struct {
	On   string `json:"on"`
	K    string `json:"k"`
	Obj  int    `json:"obj"`
	Name string `json:"name"`
	V    string `json:"v,omitempty"`
}

// Op is one step of the history.
type Op struct {
	K     string      `json:"k"` // set cset del defp defps freeze seal pe forin obs
	Obj   int         `json:"obj"`
	Name  string      `json:"name,omitempty"`
	V     string      `json:"v,omitempty"`
	Desc  *DescSpec   `json:"desc,omitempty"`
	Props []NamedDesc `json:"props,omitempty"`
	Body  []BodyAct   `json:"body,omitempty"`
}

// ---- rendering as ES5 source -------------------------------------------------------------------------

// Prelude defines the objects array O, the function family, the observer and the step runner.
func Prelude() string {
	var b strings.Builder
	b.WriteString(`var O=[], __log=[], __slot=[undefined,undefined], __d=0, __V=null;
var __hop=Object.prototype.hasOwnProperty, __pie=Object.prototype.propertyIsEnumerable;
var N=[`)
	for i, n := range Names {
		if i > 0 {
			b.WriteString(",")
		}
		b.WriteString(`"` + n + `"`)
	}
	b.WriteString(`];
function __v(v){
  if(v===undefined)return "u"; if(v===null)return "n";
  var t=typeof v, i;
  if(t==="boolean")return v?"!t":"!f";
  if(t==="number")return (v===0&&1/v<0)?"#-0":"#"+v;
  if(t==="string")return "$"+v;
  if(t==="function"){for(i=0;i<__fn.length;i++)if(__fn[i]===v)return "F"+i;return "Fw"}
  for(i=0;i<O.length;i++)if(O[i]===v)return "O"+i;
  if(v===Object.prototype)return "OP";
  return "{}";
}
function __oi(o){for(var i=0;i<O.length;i++)if(O[i]===o)return i;return "?"}
function __mk(id,kind,c,name,slot){
  return function(v){
    __log.push("f"+id+"@"+__oi(this)+":"+(arguments.length?__v(v):"-"));
    if(kind==="K"){ if(!arguments.length)return c; return }
    if(kind==="S"){ if(!arguments.length)return __slot[slot]; __slot[slot]=v; return }
    if(kind==="X") throw new RangeError("boom");
    if(__d>=` + itoa(MaxDepth) + `){__log.push("deep");return}
    __d++;
    try{ if(!arguments.length)return this[name]; this[name]=v }finally{__d--}
  }
}
function __inh(p){function F(){} F.prototype=p; return new F()}
function __en(e){return (e!==null&&typeof e==="object"&&typeof e.name==="string")?e.name:"?"+__v(e)}
function __fl(){var s=__log.join(",");__log=[];return s}
var __DK=["value","writable","get","set","enumerable","configurable"];
function __obs(){
  var out=[],i,j,k,o,n,d,ds,val,fi;
  for(i=0;i<O.length;i++){ o=O[i];
    fi=[]; for(k in o)fi.push(k);
    out.push("o"+i+":"+(Object.isExtensible(o)?"E":"e")+(Object.isSealed(o)?"S":"s")+(Object.isFrozen(o)?"F":"f")+":"+__v(Object.getPrototypeOf(o))+":"+Object.keys(o).join(",")+":"+Object.getOwnPropertyNames(o).join(",")+":"+fi.join(","));
    for(j=0;j<N.length;j++){ n=N[j];
      d=Object.getOwnPropertyDescriptor(o,n);
      if(d===undefined)ds="-"; else { ds=Object.keys(d).join(","); for(k=0;k<6;k++)ds+=";"+((__DK[k] in d)?__v(d[__DK[k]]):"") }
      try{val=__v(o[n])}catch(e){val="throw:"+__en(e)}
      out.push(n+"="+ds+"/"+((n in o)?"I":"i")+(__hop.call(o,n)?"H":"h")+(__pie.call(o,n)?"P":"p")+"/"+val);
    }
  }
  return out.join("|");
}
function __step(f){
  __V=null; __d=0; var r;
  try{ r="ok:"+__v(f()) }catch(e){ r="throw:"+__en(e) }
  var l1=__fl(), v=(__V?__V.join(","):"-"), ob=__obs();
  return r+"|"+l1+"|"+v+"|"+ob+"|"+__fl();
}
var __fn=[`)
	for i, s := range FamilySpec {
		if i > 0 {
			b.WriteString(",")
		}
		c := "undefined"
		if s.Kind == 'K' {
			c = JSLit(s.C)
		}
		fmt.Fprintf(&b, `__mk(%d,"%c",%s,"%s",%d)`, i, s.Kind, c, s.Name, s.Slot)
	}
	b.WriteString("];\n")
	return b.String()
}

func protoJS(p int) string {
	switch p {
	case -1:
		return "null"
	case -2:
		return "Object.prototype"
	}
	return "O[" + itoa(p) + "]"
}

func (s *DescSpec) JS() string {
	if s.NonObject != "" {
		return JSLit(s.NonObject)
	}
	var parts []string
	for _, f := range s.Fields {
		parts = append(parts, f.F+":"+JSLit(f.V))
	}
	lit := "{" + strings.Join(parts, ",") + "}"
	if s.Inherit {
		return "__inh(" + lit + ")"
	}
	return lit
}

func propsJS(props []NamedDesc) string {
	var parts []string
	for _, p := range props {
		parts = append(parts, `"`+p.Name+`":`+p.Desc.JS())
	}
	return "{" + strings.Join(parts, ",") + "}"
}

// SetupJS is the source of step 0: it creates the objects and reports per object "ok" or the error.
func SetupJS(objs []ObjInit) string {
	var b strings.Builder
	b.WriteString("__step(function(){var r=[];\n")
	for k, oi := range objs {
		ks := itoa(k)
		switch oi.Kind {
		case "lit":
			var parts []string
			for _, p := range oi.Lit {
				switch p.K {
				case "v":
					parts = append(parts, `"`+p.Name+`":`+JSLit(p.V))
				case "g":
					parts = append(parts, `get "`+p.Name+`"(){return `+JSLit(p.V)+`.call(this)}`)
				case "s":
					parts = append(parts, `set "`+p.Name+`"(v){`+JSLit(p.V)+`.call(this,v)}`)
				}
			}
			b.WriteString("O[" + ks + "]={" + strings.Join(parts, ",") + "}; r.push(\"ok\");\n")
		case "create":
			if len(oi.Props) == 0 {
				b.WriteString("O[" + ks + "]=Object.create(" + protoJS(oi.Proto) + "); r.push(\"ok\");\n")
			} else {
				b.WriteString("try{O[" + ks + "]=Object.create(" + protoJS(oi.Proto) + "," + propsJS(oi.Props) + "); r.push(\"ok\")}catch(e){O[" + ks + "]=Object.create(" + protoJS(oi.Proto) + "); r.push(__en(e))}\n")
			}
		case "ctor":
			b.WriteString("(function(){function C(){O[" + ks + "]=this;")
			for _, p := range oi.Lit {
				b.WriteString(`this["` + p.Name + `"]=` + JSLit(p.V) + ";")
			}
			b.WriteString("} C.prototype=" + protoJS(oi.Proto) + "; try{O[" + ks + "]=new C(); r.push(\"ok\")}catch(e){O[" + ks + "]=__inh(" + protoJS(oi.Proto) + "); r.push(__en(e))}})();\n")
		}
	}
	b.WriteString("return r.join(\"\");})")
	return b.String()
}

func ref(op *Op) string { return "O[" + itoa(op.Obj) + `]["` + op.Name + `"]` }

// JS is the source of one step.
func (op *Op) JS() string {
	o := "O[" + itoa(op.Obj) + "]"
	var body string
	switch op.K {
	case "set":
		body = "return " + ref(op) + "=" + JSLit(op.V)
	case "cset":
		body = "return " + ref(op) + "+=" + JSLit(op.V)
	case "del":
		body = "return delete " + ref(op)
	case "defp":
		body = "return Object.defineProperty(" + o + `,"` + op.Name + `",` + op.Desc.JS() + ")===" + o
	case "defps":
		body = "return Object.defineProperties(" + o + "," + propsJS(op.Props) + ")===" + o
	case "freeze":
		body = "return Object.freeze(" + o + ")===" + o
	case "seal":
		body = "return Object.seal(" + o + ")===" + o
	case "pe":
		body = "return Object.preventExtensions(" + o + ")===" + o
	case "forin":
		var b strings.Builder
		b.WriteString("var V=[];__V=V;var k")
		for i := range op.Body {
			b.WriteString(",t" + itoa(i) + "=0")
		}
		b.WriteString(";for(k in " + o + "){V.push(k);")
		for i, a := range op.Body {
			t := "t" + itoa(i)
			b.WriteString(`if(k==="` + a.On + `"&&!` + t + "){" + t + "=1;")
			tgt := "O[" + itoa(a.Obj) + `]["` + a.Name + `"]`
			if a.K == "del" {
				b.WriteString("delete " + tgt)
			} else {
				b.WriteString(tgt + "=" + JSLit(a.V))
			}
			b.WriteString("}")
		}
		b.WriteString("}")
		body = b.String()
	default: // obs
		body = "return undefined"
	}
	return "__step(function(){" + body + "})"
}

// ---- executing on the model --------------------------------------------------------------------------

// Setup creates the objects; the result string equals what step 0 reports.
func (m *Model) Setup(objs []ObjInit) string {
	var res strings.Builder
	proto := func(p int) *Object {
		switch p {
		case -1:
			return nil
		case -2:
			return m.ObjProto
		}
		return m.Objs[p]
	}
	for k, oi := range objs {
		switch oi.Kind {
		case "lit": // 11.1.5
			o := newObject(k, m.ObjProto)
			m.Objs = append(m.Objs, o)
			for _, p := range oi.Lit {
				switch p.K {
				case "v":
					m.DefineOwnProperty(o, p.Name, &Desc{HasValue: true, Value: m.ParseVal(p.V), HasWritable: true, Writable: true,
						HasEnumerable: true, Enumerable: true, HasConfigurable: true, Configurable: true}, false)
				case "g":
					w := &Func{Wrapper: true, Target: m.ParseVal(p.V).F}
					m.DefineOwnProperty(o, p.Name, &Desc{HasGet: true, Get: w, HasEnumerable: true, Enumerable: true, HasConfigurable: true, Configurable: true}, false)
				case "s":
					w := &Func{Wrapper: true, Target: m.ParseVal(p.V).F}
					m.DefineOwnProperty(o, p.Name, &Desc{HasSet: true, Set: w, HasEnumerable: true, Enumerable: true, HasConfigurable: true, Configurable: true}, false)
				}
			}
			res.WriteString("ok")
		case "create": // 15.2.3.5
			o := newObject(k, proto(oi.Proto))
			m.Objs = append(m.Objs, o)
			if t := m.DefineProperties(o, oi.Props); t != nil {
				m.Objs[k] = newObject(k, proto(oi.Proto))
				res.WriteString(t.Name)
			} else {
				res.WriteString("ok")
			}
		case "ctor": // 13.2.2, the body assigns through [[Put]]
			o := newObject(k, proto(oi.Proto))
			m.Objs = append(m.Objs, o)
			var thrown *Throw
			for _, p := range oi.Lit {
				if t := m.Put(o, p.Name, m.ParseVal(p.V), false); t != nil {
					thrown = t
					break
				}
			}
			if thrown != nil {
				m.Objs[k] = newObject(k, proto(oi.Proto))
				res.WriteString(thrown.Name)
			} else {
				res.WriteString("ok")
			}
		}
	}
	return "ok:$" + res.String()
}

// ForInInfo is what the model reports about a for-in step with a mutating body.
type ForInInfo struct {
	ShiftingDelete bool     // the body deleted a property of the object being enumerated that was not the last of its table while keys were still to come (recorded otto defect: the enumeration then skips/repeats keys)
	ShadowTrigger  bool     // shadow-blind enumeration would fire a body action that 12.6.4 never fires
	Ambiguous      bool     // a name added during the enumeration (visit optional per 12.6.4) is a pending trigger: outcome not determined by ES5
	Err            string   // verdict on the visited sequence; "" = accepted
	ChainDelete    bool     // the body removed a property from an object of the chain being enumerated
	Seq            []string // the names 12.6.4 obliges the loop to visit (not index-like, not added during the enumeration), in model order
}

func isTrigger(body []BodyAct, fired []bool, key string) bool {
	for i, a := range body {
		if a.On == key && !fired[i] {
			return true
		}
	}
	return false
}

// ForIn runs `for (k in o) body` (12.6.4). visited is the sequence the engine reported (nil when only
// the effects are wanted). Properties deleted before being visited must not be visited; properties
// added during the enumeration may or may not be; no name is visited twice; a prototype's property is
// not visited when an object earlier in the chain has an own property of that name.
func (m *Model) ForIn(o *Object, body []BodyAct, visited []string, check bool, shadowBlind bool) (info ForInInfo, thrown *Throw) {
	var va, vidx []string
	for _, n := range visited {
		if IsIndexLike(n) {
			vidx = append(vidx, n)
		} else {
			va = append(va, n)
		}
	}
	var chain []*Object
	for x := o; x != nil; x = x.Proto {
		chain = append(chain, x)
	}
	seen := map[string]bool{}
	optional := map[string]bool{}
	fired := make([]bool, len(body))
	var expIdx []string
	vi := 0
	fail := func(f string, a ...interface{}) {
		if info.Err == "" {
			info.Err = fmt.Sprintf(f, a...)
		}
	}
	existsEnumerable := func(n string) bool {
		for _, c := range chain {
			if p := c.props[n]; p != nil && p.Enumerable {
				return true
			}
		}
		return false
	}
	swallow := func() {
		for check && vi < len(va) && optional[va[vi]] {
			if !existsEnumerable(va[vi]) {
				fail("for-in visited %q, which does not exist (any more) as an enumerable property in the chain", va[vi])
			}
			vi++
		}
	}
	ownNames := func() []map[string]bool {
		out := make([]map[string]bool, len(chain))
		for i, c := range chain {
			out[i] = map[string]bool{}
			for _, n := range c.order {
				out[i][n] = true
			}
		}
		return out
	}
	done := false
	for ci := 0; ci < len(chain) && !done; ci++ {
		cur := chain[ci]
		for _, key := range cur.OwnNames() {
			p := cur.props[key]
			if p == nil || !p.Enumerable {
				continue // deleted before being visited, or not enumerable
			}
			shadowed := seen[key]
			for _, e := range chain[:ci] {
				if e.props[key] != nil {
					shadowed = true
				}
			}
			if IsIndexLike(key) {
				if !shadowed || shadowBlind {
					expIdx = append(expIdx, key)
				}
				seen[key] = true
				continue
			}
			if optional[key] {
				continue // added during this enumeration: not guaranteed to be visited (accepted if reported)
			}
			if shadowed {
				if !shadowBlind {
					continue
				}
				if !seen[key] && isTrigger(body, fired, key) {
					info.ShadowTrigger = true
				}
			}
			swallow()
			if check {
				if vi >= len(va) {
					fail("for-in stopped after %v; ES5 12.6.4 next visits %q", va, key)
					return info, nil
				}
				if va[vi] != key {
					fail("for-in visited %v; ES5 12.6.4 visits %q at position %d (got %q)", va, key, vi, va[vi])
					return info, nil
				}
				vi++
			}
			seen[key] = true
			info.Seq = append(info.Seq, key)
			for i, a := range body {
				if a.On != key || fired[i] {
					continue
				}
				fired[i] = true
				before := ownNames()
				tgt := m.Objs[a.Obj]
				if a.K == "del" {
					if tp := tgt.props[a.Name]; tgt == cur && tp != nil && tp.Configurable {
						last := cur.order[len(cur.order)-1]
						if a.Name != last && key != last {
							info.ShiftingDelete = true
						}
					}
					m.event("forin:body-delete")
					if tp := tgt.props[a.Name]; tp != nil && tp.Configurable {
						for _, c := range chain {
							if c == tgt {
								info.ChainDelete = true
								m.event("forin:delete-in-enumerated-chain")
							}
						}
					}
					m.Delete(tgt, a.Name, false)
				} else {
					m.event("forin:body-assign")
					if t := m.Put(tgt, a.Name, m.ParseVal(a.V), false); t != nil {
						thrown = t
						done = true
					}
				}
				for j, c := range chain {
					for _, n := range c.order {
						if !before[j][n] {
							optional[n] = true
							m.event("forin:added-during-enumeration")
							if !seen[n] && isTrigger(body, fired, n) {
								info.Ambiguous = true
							}
						}
					}
				}
				if done {
					break
				}
			}
			if done {
				break
			}
		}
	}
	if check {
		if thrown == nil {
			swallow()
		}
		if vi < len(va) {
			fail("for-in visited %v; ES5 12.6.4 ends the enumeration before %q", va, va[vi])
		}
		sort.Strings(expIdx)
		sort.Strings(vidx)
		if thrown == nil && strings.Join(expIdx, ",") != strings.Join(vidx, ",") {
			fail("for-in visited the index-like names %v, ES5 12.6.4 gives %v (as a set)", vidx, expIdx)
		}
	}
	return info, thrown
}

// Exec runs one step on the model and returns its result string ("ok:<value>" or "throw:<Name>").
// For a for-in step, visited is the engine's sequence to be judged (check) and info the verdict.
func (m *Model) Exec(op *Op, visited []string, check bool, shadowBlind bool) (res string, info ForInInfo) {
	o := m.Objs[op.Obj]
	ret := func(v Val, t *Throw) string {
		if t != nil {
			return "throw:" + t.Name
		}
		return "ok:" + v.Repr()
	}
	tru := Val{K: Bool, B: true}
	m.depth = 0
	m.event("op:" + op.K)
	switch op.K {
	case "set": // 11.13.1 + 8.7.2, non-strict: [[Put]] with Throw = false
		v := m.ParseVal(op.V)
		return ret(v, m.Put(o, op.Name, v, false)), info
	case "cset": // 11.13.2
		l, t := m.Get(o, op.Name)
		if t != nil {
			return ret(Undefined, t), info
		}
		r := Add(l, m.ParseVal(op.V))
		return ret(r, m.Put(o, op.Name, r, false)), info
	case "del": // 11.4.1, non-strict
		if !o.Extensible {
			m.event("nonext:delete")
		}
		ok, t := m.Delete(o, op.Name, false)
		return ret(Val{K: Bool, B: ok}, t), info
	case "defp":
		return ret(tru, m.DefineProperty(o, op.Name, op.Desc)), info
	case "defps":
		return ret(tru, m.DefineProperties(o, op.Props)), info
	case "freeze":
		return ret(tru, m.Freeze(o)), info
	case "seal":
		return ret(tru, m.Seal(o)), info
	case "pe":
		m.PreventExtensions(o)
		return ret(tru, nil), info
	case "forin":
		inf, t := m.ForIn(o, op.Body, visited, check, shadowBlind)
		return ret(Undefined, t), inf
	}
	return "ok:u", info
}

// ObsOpts are the documented distortions under which observations are compared while the
// corresponding findings stand.
type ObsOpts struct {
	ShadowBlindForIn   bool // for-in repeats names shadowed along the chain
	BareAccessorAsBare bool // an accessor property with get and set both undefined reads back without get/set fields
}

// Observe renders every observation of the property statement, in exactly the order and format of
// the prelude's __obs (reading values invokes getters, which log). Name lists are left raw here;
// the check compares them through Canon.
func (m *Model) Observe(opt ObsOpts) string {
	var out []string
	b := func(x bool, t, f string) string {
		if x {
			return t
		}
		return f
	}
	for i, o := range m.Objs {
		proto := "n"
		if o.Proto != nil {
			proto = Val{K: Obj, O: o.Proto}.Repr()
		}
		out = append(out, "o"+itoa(i)+":"+b(o.Extensible, "E", "e")+b(o.IsSealed(), "S", "s")+b(o.IsFrozen(), "F", "f")+":"+proto+":"+
			strings.Join(o.Keys(), ",")+":"+strings.Join(o.OwnNames(), ",")+":"+strings.Join(o.ForInKeys(opt.ShadowBlindForIn), ","))
		for _, n := range Names {
			d := o.GetOwnProperty(n)
			ds := FromPropertyDescriptor(d)
			if opt.BareAccessorAsBare && d != nil && d.IsAccessor() && d.Get == nil && d.Set == nil {
				bb := func(x bool) string { return Val{K: Bool, B: x}.Repr() }
				ds = "enumerable,configurable;;;;;" + bb(d.Enumerable) + ";" + bb(d.Configurable)
			}
			m.depth = 0
			v, t := m.Get(o, n)
			val := v.Repr()
			if t != nil {
				val = "throw:" + t.Name
			}
			out = append(out, n+"="+ds+"/"+b(o.HasProperty(n), "I", "i")+b(o.HasOwnProperty(n), "H", "h")+b(o.PropertyIsEnumerable(n), "P", "p")+"/"+val)
		}
	}
	return strings.Join(out, "|")
}

// FlushLog returns and clears the invocation log.
func (m *Model) FlushLog() string {
	s := strings.Join(m.Log, ",")
	m.Log = nil
	return s
}
