package m07

import (
	"math"

	"verif/lib/es5"
)

// Array support, only as far as the C07 redefinition tables need it: an Array instance is modelled
// as an ordinary object with a "length" data property {writable, non-enumerable, non-configurable}
// and index properties; ArrayDefineOwnProperty is 15.4.5.1.

// NewArray models `[e0, e1, ...]` (11.1.4): elements are writable, enumerable, configurable.
func (m *Model) NewArray(id int, elems []Val) *Object {
	o := newObject(id, m.ObjProto)
	o.insert("length", &Prop{Value: Val{K: Num, N: float64(len(elems))}, Writable: true})
	for i, e := range elems {
		o.insert(itoa(i), &Prop{Value: e, Writable: true, Enumerable: true, Configurable: true})
	}
	return o
}

// toNumber is 9.3 including objects: every object occurring in these tables is an ordinary object
// without own valueOf/toString, whose default value is "[object Object]", i.e. NaN.
func toNumber(v Val) float64 {
	if v.K == Obj || v.K == Fn {
		return math.NaN()
	}
	return toNumberPrim(v)
}

func arrayIndex(name string) (uint32, bool) {
	if !IsIndexLike(name) || len(name) > 10 {
		return 0, false
	}
	var n uint64
	for _, c := range name {
		n = n*10 + uint64(c-'0')
	}
	if n >= 4294967295 {
		return 0, false
	}
	return uint32(n), true
}

// ArrayDefineOwnProperty, 15.4.5.1. Step numbers are those of the ES5.1 text.
func (m *Model) ArrayDefineOwnProperty(a *Object, name string, desc *Desc, throw bool) (bool, *Throw) {
	reject := func() (bool, *Throw) {
		if throw {
			return false, typeError()
		}
		return false, nil
	}
	oldLenDesc := a.GetOwnProperty("length") // 1
	oldLen := uint32(oldLenDesc.Value.N)     // 2
	if name == "length" {                    // 3
		if !desc.HasValue { // 3.a
			return m.DefineOwnProperty(a, "length", desc, throw)
		}
		newLenDesc := *desc                          // 3.b
		newLen := es5.ToUint32(toNumber(desc.Value)) // 3.c
		if float64(newLen) != toNumber(desc.Value) { // 3.d
			return false, &Throw{Name: "RangeError"}
		}
		newLenDesc.Value = Val{K: Num, N: float64(newLen)} // 3.e
		if newLen >= oldLen {                              // 3.f
			return m.DefineOwnProperty(a, "length", &newLenDesc, throw)
		}
		if !oldLenDesc.Writable { // 3.g
			return reject()
		}
		newWritable := true // 3.h, 3.i
		if newLenDesc.HasWritable && !newLenDesc.Writable {
			newWritable = false
			newLenDesc.Writable = true
		}
		ok, t := m.DefineOwnProperty(a, "length", &newLenDesc, throw) // 3.j
		if !ok || t != nil {
			return ok, t // 3.k
		}
		for newLen < oldLen { // 3.l
			oldLen--
			deleted, _ := m.Delete(a, itoa(int(oldLen)), false)
			if !deleted {
				newLenDesc.Value = Val{K: Num, N: float64(oldLen + 1)}
				if !newWritable {
					newLenDesc.HasWritable, newLenDesc.Writable = true, false
				}
				m.DefineOwnProperty(a, "length", &newLenDesc, false)
				return reject()
			}
		}
		if !newWritable { // 3.m
			m.DefineOwnProperty(a, "length", &Desc{HasWritable: true, Writable: false}, false)
		}
		return true, nil
	}
	if idx, ok := arrayIndex(name); ok { // 4
		if idx >= oldLen && !oldLenDesc.Writable { // 4.b
			return reject()
		}
		ok, t := m.DefineOwnProperty(a, name, desc, false) // 4.c
		if t != nil {
			return false, t
		}
		if !ok { // 4.d
			return reject()
		}
		if idx >= oldLen { // 4.e
			a.props["length"].Value = Val{K: Num, N: float64(idx) + 1}
		}
		return true, nil
	}
	return m.DefineOwnProperty(a, name, desc, throw) // 5
}

// NewObject creates a free-standing ordinary object (not registered in m.Objs) for the table facets.
func (m *Model) NewObject(id int, proto *Object) *Object { return newObject(id, proto) }

// Preset installs an own property directly (used to describe the own properties that exotic objects
// such as String objects or arguments objects expose through [[GetOwnProperty]], 15.5.5.2 / 10.6).
func (o *Object) Preset(name string, p Prop) { cp := p; o.insert(name, &cp) }
