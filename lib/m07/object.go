package m07

// Prop is one named property of a model object (8.6.1): either a data or an accessor property.
type Prop struct {
	Accessor     bool
	Value        Val   // data
	Writable     bool  // data
	Get, Set     *Func // accessor; nil = undefined
	Enumerable   bool
	Configurable bool
}

// Object is an ordinary object: prototype link, extensible flag, insertion-ordered property table.
type Object struct {
	ID         int // index in Model.Objs; -1 = the Object.prototype stand-in
	Proto      *Object
	Extensible bool
	props      map[string]*Prop
	order      []string
}

func newObject(id int, proto *Object) *Object {
	return &Object{ID: id, Proto: proto, Extensible: true, props: map[string]*Prop{}}
}

// OwnNames returns the own property names in insertion order.
func (o *Object) OwnNames() []string { return append([]string(nil), o.order...) }

// Own returns the own property (nil when absent). The model's own bookkeeping, not 8.12.1.
func (o *Object) Own(name string) *Prop { return o.props[name] }

func (o *Object) insert(name string, p *Prop) {
	if _, ok := o.props[name]; !ok {
		o.order = append(o.order, name)
	}
	o.props[name] = p
}

func (o *Object) remove(name string) {
	if _, ok := o.props[name]; !ok {
		return
	}
	delete(o.props, name)
	for i, n := range o.order {
		if n == name {
			o.order = append(o.order[:i:i], o.order[i+1:]...)
			break
		}
	}
}

// Desc is a Property Descriptor (8.10): every field may be absent.
type Desc struct {
	HasValue, HasWritable, HasGet, HasSet, HasEnumerable, HasConfigurable bool
	Value                                                                 Val
	Writable, Enumerable, Configurable                                    bool
	Get, Set                                                              *Func // nil = undefined (meaningful only with HasGet/HasSet)
}

// 8.10.1 - 8.10.3
func (d *Desc) IsAccessor() bool { return d != nil && (d.HasGet || d.HasSet) }
func (d *Desc) IsData() bool     { return d != nil && (d.HasValue || d.HasWritable) }
func (d *Desc) IsGeneric() bool  { return d != nil && !d.IsAccessor() && !d.IsData() }
func (d *Desc) isEmpty() bool {
	return !(d.HasValue || d.HasWritable || d.HasGet || d.HasSet || d.HasEnumerable || d.HasConfigurable)
}

// Throw is an abrupt completion of type throw; Name is the error class observed by `e.name`.
type Throw struct{ Name string }

func typeError() *Throw { return &Throw{Name: "TypeError"} }

// GetOwnProperty, 8.12.1: a fully populated descriptor or nil.
func (o *Object) GetOwnProperty(name string) *Desc {
	p, ok := o.props[name]
	if !ok {
		return nil
	}
	d := &Desc{HasEnumerable: true, Enumerable: p.Enumerable, HasConfigurable: true, Configurable: p.Configurable}
	if p.Accessor {
		d.HasGet, d.HasSet = true, true
		d.Get, d.Set = p.Get, p.Set
	} else {
		d.HasValue, d.HasWritable = true, true
		d.Value, d.Writable = p.Value, p.Writable
	}
	return d
}

// GetProperty, 8.12.2. holder is where the property was found.
func (o *Object) GetProperty(name string) (d *Desc, holder *Object) {
	for x := o; x != nil; x = x.Proto {
		if d := x.GetOwnProperty(name); d != nil {
			return d, x
		}
	}
	return nil, nil
}

// Get, 8.12.3.
func (m *Model) Get(o *Object, name string) (Val, *Throw) {
	d, _ := o.GetProperty(name)
	if d == nil {
		return Undefined, nil
	}
	if d.IsData() {
		return d.Value, nil
	}
	if d.Get == nil {
		return Undefined, nil
	}
	return m.Call(d.Get, o, nil)
}

// CanPut, 8.12.4.
func (m *Model) CanPut(o *Object, name string) bool {
	if d := o.GetOwnProperty(name); d != nil {
		if d.IsAccessor() {
			return d.Set != nil
		}
		return d.Writable
	}
	if o.Proto == nil {
		return o.Extensible
	}
	inh, _ := o.Proto.GetProperty(name)
	if inh == nil {
		return o.Extensible
	}
	if inh.IsAccessor() {
		m.event("put:inherited-accessor")
		return inh.Set != nil
	}
	if !o.Extensible {
		return false
	}
	if !inh.Writable {
		m.event("put:inherited-readonly")
	}
	return inh.Writable
}

// Put, 8.12.5.
func (m *Model) Put(o *Object, name string, v Val, throw bool) *Throw {
	if !o.Extensible {
		m.event("nonext:put")
	}
	if !m.CanPut(o, name) {
		m.event("put:refused")
		if throw {
			return typeError()
		}
		return nil
	}
	own := o.GetOwnProperty(name)
	if own.IsData() {
		_, t := m.DefineOwnProperty(o, name, &Desc{HasValue: true, Value: v}, throw)
		return t
	}
	d, _ := o.GetProperty(name)
	if d.IsAccessor() {
		_, t := m.Call(d.Set, o, []Val{v})
		return t
	}
	_, t := m.DefineOwnProperty(o, name, &Desc{HasValue: true, Value: v, HasWritable: true, Writable: true,
		HasEnumerable: true, Enumerable: true, HasConfigurable: true, Configurable: true}, throw)
	return t
}

// HasProperty, 8.12.6.
func (o *Object) HasProperty(name string) bool {
	d, _ := o.GetProperty(name)
	return d != nil
}

// Delete, 8.12.7.
func (m *Model) Delete(o *Object, name string, throw bool) (bool, *Throw) {
	d := o.GetOwnProperty(name)
	if d == nil {
		return true, nil
	}
	if d.Configurable {
		o.remove(name)
		m.event("delete:removed")
		return true, nil
	}
	m.event("delete:refused")
	if throw {
		return false, typeError()
	}
	return false, nil
}

// DefineOwnProperty, 8.12.9. Step numbers are those of the ES5.1 text.
func (m *Model) DefineOwnProperty(o *Object, name string, desc *Desc, throw bool) (bool, *Throw) {
	reject := func(why string) (bool, *Throw) {
		m.event("dop:reject:" + why)
		if throw {
			return false, typeError()
		}
		return false, nil
	}
	current := o.GetOwnProperty(name) // 1
	if !o.Extensible {
		m.event("nonext:define")
	}
	if current == nil { // 3, 4
		if !o.Extensible {
			return reject("3")
		}
		p := &Prop{}
		if desc.IsGeneric() || desc.IsData() { // 4.a
			p.Value, p.Writable = Undefined, false
			if desc.HasValue {
				p.Value = desc.Value
			}
			if desc.HasWritable {
				p.Writable = desc.Writable
			}
			m.event("dop:create-data")
		} else { // 4.b
			p.Accessor = true
			if desc.HasGet {
				p.Get = desc.Get
			}
			if desc.HasSet {
				p.Set = desc.Set
			}
			m.event("dop:create-accessor")
		}
		if desc.HasEnumerable {
			p.Enumerable = desc.Enumerable
		}
		if desc.HasConfigurable {
			p.Configurable = desc.Configurable
		}
		o.insert(name, p)
		return true, nil
	}
	if desc.isEmpty() { // 5
		m.event("dop:empty")
		return true, nil
	}
	if sameAsCurrent(desc, current) { // 6
		m.event("dop:same")
		// no state change; fall through would give the same result, return as the text says
		m.notePreds(current, desc)
		return true, nil
	}
	if !current.Configurable { // 7
		if desc.HasConfigurable && desc.Configurable {
			return reject("7a")
		}
		if desc.HasEnumerable && desc.Enumerable != current.Enumerable {
			return reject("7b")
		}
	}
	p := o.props[name]
	switch {
	case desc.IsGeneric(): // 8
		m.event("dop:generic")
	case current.IsData() != desc.IsData(): // 9
		if !current.Configurable {
			return reject("9a")
		}
		if current.IsData() { // 9.b
			p.Accessor = true
			p.Value, p.Writable = Undefined, false
			p.Get, p.Set = nil, nil
			m.event("dop:convert-data-to-accessor")
		} else { // 9.c
			p.Accessor = false
			p.Get, p.Set = nil, nil
			p.Value, p.Writable = Undefined, false
			m.event("dop:convert-accessor-to-data")
		}
	case current.IsData() && desc.IsData(): // 10
		if !current.Configurable {
			if !current.Writable && desc.HasWritable && desc.Writable {
				return reject("10ai")
			}
			if !current.Writable {
				if desc.HasValue && !SameValue(desc.Value, current.Value) {
					return reject("10aii")
				}
			}
		}
		m.event("dop:data-data")
	default: // 11
		if !current.Configurable {
			if desc.HasSet && desc.Set != current.Set {
				return reject("11ai")
			}
			if desc.HasGet && desc.Get != current.Get {
				return reject("11aii")
			}
		}
		m.event("dop:accessor-accessor")
	}
	m.notePreds(current, desc)
	// 12
	if desc.HasValue {
		p.Value = desc.Value
	}
	if desc.HasWritable {
		p.Writable = desc.Writable
	}
	if desc.HasGet {
		p.Get = desc.Get
	}
	if desc.HasSet {
		p.Set = desc.Set
	}
	if desc.HasEnumerable {
		p.Enumerable = desc.Enumerable
	}
	if desc.HasConfigurable {
		p.Configurable = desc.Configurable
	}
	return true, nil
}

// sameAsCurrent is 8.12.9 step 6: every field of desc occurs in current with the same value.
func sameAsCurrent(desc, cur *Desc) bool {
	if desc.HasValue && !(cur.HasValue && SameValue(desc.Value, cur.Value)) {
		return false
	}
	if desc.HasWritable && !(cur.HasWritable && desc.Writable == cur.Writable) {
		return false
	}
	if desc.HasGet && !(cur.HasGet && desc.Get == cur.Get) {
		return false
	}
	if desc.HasSet && !(cur.HasSet && desc.Set == cur.Set) {
		return false
	}
	if desc.HasEnumerable && desc.Enumerable != cur.Enumerable {
		return false
	}
	if desc.HasConfigurable && desc.Configurable != cur.Configurable {
		return false
	}
	return true
}

// notePreds records, for an accepted redefinition of an existing property, the situations in which
// recorded otto defects apply (the check turns them into exclusions only while the finding stands).
func (m *Model) notePreds(current, desc *Desc) {
	if desc.IsGeneric() && !desc.isEmpty() && current.IsData() && current.Writable {
		m.pred("generic-on-writable-data") // otto: 'writable' is lost
	}
	if current.IsAccessor() && desc.IsData() && !desc.HasValue {
		m.pred("accessor-to-data-without-value") // otto: keeps the getter pair as a data value, later Go panic
	}
}
