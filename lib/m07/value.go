// Package m07 is an executable model of the ES5.1 object property model used by the C07 check:
// 8.12.1-8.12.9 (internal methods of ordinary objects), 8.10.4-8.10.5 (From/ToPropertyDescriptor),
// 15.2.3.2-15.2.3.14 (Object.* built-ins), 15.2.4.5/15.2.4.7 and the for-in enumeration of 12.6.4
// with insertion-ordered property tables. It is written from the ES5.1 text and shares no code
// with otto. It also renders every modelled operation as ES5 source text, so that the same history
// can be run on an engine and on the model.
package m07

import (
	"math"
	"strings"

	"verif/lib/es5"
)

// VK is the kind of a model value.
type VK byte

const (
	Undef VK = iota
	Null
	Bool
	Num
	Str
	Fn  // one of the scripted functions
	Obj // an object: one of the modelled ones (O != nil) or an anonymous non-callable object
)

// Val is a model value. Values travel through JSON as tags (see ParseVal).
type Val struct {
	K VK
	B bool
	N float64
	S string
	F *Func
	O *Object
}

var Undefined = Val{K: Undef}

// Tag grammar (also the textual form of every observed value, produced by __v in the prelude):
//
//	u | n | !t | !f | #<number> (#-0, #NaN, #Infinity) | $<string> | F<id> | Fw | O<index> | OP | {}
func (m *Model) ParseVal(tag string) Val {
	switch {
	case tag == "u" || tag == "":
		return Undefined
	case tag == "n":
		return Val{K: Null}
	case tag == "!t":
		return Val{K: Bool, B: true}
	case tag == "!f":
		return Val{K: Bool, B: false}
	case tag == "{}":
		return Val{K: Obj}
	case tag[0] == '#':
		switch tag[1:] {
		case "NaN":
			return Val{K: Num, N: math.NaN()}
		case "-0":
			return Val{K: Num, N: math.Copysign(0, -1)}
		case "Infinity":
			return Val{K: Num, N: math.Inf(1)}
		case "-Infinity":
			return Val{K: Num, N: math.Inf(-1)}
		}
		return Val{K: Num, N: es5.StringToNumber(utf16(tag[1:]))}
	case tag[0] == '$':
		return Val{K: Str, S: tag[1:]}
	case tag[0] == 'F':
		id := 0
		for _, c := range tag[1:] {
			id = id*10 + int(c-'0')
		}
		return Val{K: Fn, F: m.Fns[id]}
	case tag[0] == 'O':
		id := 0
		for _, c := range tag[1:] {
			id = id*10 + int(c-'0')
		}
		return Val{K: Obj, O: m.Objs[id]}
	}
	panic("m07: bad value tag " + tag)
}

func utf16(s string) []uint16 {
	out := make([]uint16, 0, len(s))
	for _, r := range s {
		out = append(out, uint16(r))
	}
	return out
}

// Repr is the tag of a value as the prelude's __v prints it.
func (v Val) Repr() string {
	switch v.K {
	case Undef:
		return "u"
	case Null:
		return "n"
	case Bool:
		if v.B {
			return "!t"
		}
		return "!f"
	case Num:
		if v.N == 0 && math.Signbit(v.N) {
			return "#-0"
		}
		return "#" + es5.NumberToString(v.N)
	case Str:
		return "$" + v.S
	case Fn:
		if v.F.Wrapper {
			return "Fw"
		}
		return "F" + itoa(v.F.ID)
	case Obj:
		if v.O == nil {
			return "{}"
		}
		if v.O.ID < 0 {
			return "OP"
		}
		return "O" + itoa(v.O.ID)
	}
	return "?"
}

// JSLit renders a value tag as an ES5 expression denoting that value.
func JSLit(tag string) string {
	switch {
	case tag == "u" || tag == "":
		return "undefined"
	case tag == "n":
		return "null"
	case tag == "!t":
		return "true"
	case tag == "!f":
		return "false"
	case tag == "{}":
		return "({})"
	case tag[0] == '#':
		return "(" + tag[1:] + ")"
	case tag[0] == '$':
		return `"` + tag[1:] + `"` // strings are alphanumeric by construction
	case tag[0] == 'F':
		return "__fn[" + tag[1:] + "]"
	case tag[0] == 'O':
		return "O[" + tag[1:] + "]"
	}
	panic("m07: bad value tag " + tag)
}

func itoa(i int) string {
	if i == 0 {
		return "0"
	}
	neg := i < 0
	if neg {
		i = -i
	}
	var b []byte
	for i > 0 {
		b = append([]byte{byte('0' + i%10)}, b...)
		i /= 10
	}
	if neg {
		return "-" + string(b)
	}
	return string(b)
}

// ToBoolean, 9.2.
func ToBoolean(v Val) bool {
	switch v.K {
	case Undef, Null:
		return false
	case Bool:
		return v.B
	case Num:
		return !(v.N == 0 || math.IsNaN(v.N))
	case Str:
		return v.S != ""
	}
	return true
}

// SameValue, 9.12.
func SameValue(a, b Val) bool {
	if a.K != b.K {
		return false
	}
	switch a.K {
	case Undef, Null:
		return true
	case Bool:
		return a.B == b.B
	case Num:
		if math.IsNaN(a.N) && math.IsNaN(b.N) {
			return true
		}
		if a.N == 0 && b.N == 0 {
			return math.Signbit(a.N) == math.Signbit(b.N)
		}
		return a.N == b.N
	case Str:
		return a.S == b.S
	case Fn:
		return a.F == b.F
	case Obj:
		return a.O != nil && a.O == b.O
	}
	return false
}

func isCallable(v Val) bool { return v.K == Fn }

// toNumberPrim / toStringPrim: 9.3 / 9.8 on the primitive kinds that occur as property values.
func toNumberPrim(v Val) float64 {
	switch v.K {
	case Undef:
		return math.NaN()
	case Null:
		return 0
	case Bool:
		if v.B {
			return 1
		}
		return 0
	case Num:
		return v.N
	case Str:
		return es5.StringToNumber(utf16(v.S))
	}
	panic("m07: ToNumber on a non-primitive")
}

func toStringPrim(v Val) string {
	switch v.K {
	case Undef:
		return "undefined"
	case Null:
		return "null"
	case Bool:
		if v.B {
			return "true"
		}
		return "false"
	case Num:
		return es5.NumberToString(v.N)
	case Str:
		return v.S
	}
	panic("m07: ToString on a non-primitive")
}

// Add is the + operator (11.6.1) on primitives.
func Add(a, b Val) Val {
	if a.K == Str || b.K == Str {
		return Val{K: Str, S: toStringPrim(a) + toStringPrim(b)}
	}
	return Val{K: Num, N: toNumberPrim(a) + toNumberPrim(b)}
}

// IsIndexLike reports names whose enumeration position ES5.1 leaves to the implementation in
// practice (canonical array indices); they are compared as a set, never by position.
func IsIndexLike(name string) bool {
	if name == "" {
		return false
	}
	for _, c := range name {
		if c < '0' || c > '9' {
			return false
		}
	}
	return name == "0" || !strings.HasPrefix(name, "0")
}
