package m07

import (
	"sort"
	"strings"
)

// Func is one scripted function. The same function object may be installed as getter or setter;
// what it does depends on the number of arguments (none = getter role, one = setter role):
//
//	K c     get: return c                      set: nothing
//	T name  get: return this[name]             set: this[name] = v          (both depth-guarded)
//	S slot  get: return __slot[slot]           set: __slot[slot] = v
//	X       get/set: throw new RangeError
//
// Every invocation appends "f<id>@<receiver>:<argument or ->" to the log. Wrapper functions are
// the anonymous accessor functions of object literals; they forward to a family function with the
// same `this` and arguments and are all printed as "Fw".
type Func struct {
	ID      int
	Kind    byte
	C       Val
	Name    string
	Slot    int
	Wrapper bool
	Target  *Func
}

// FamilySpec is the fixed function family; index = id in __fn.
var FamilySpec = []struct {
	Kind byte
	C    string
	Name string
	Slot int
}{
	{Kind: 'K', C: "#7"},
	{Kind: 'K', C: "$k"},
	{Kind: 'T', Name: "a"},
	{Kind: 'T', Name: "b"},
	{Kind: 'T', Name: "x"},
	{Kind: 'S', Slot: 0},
	{Kind: 'S', Slot: 1},
	{Kind: 'X'},
}

const NSlots = 2
const MaxDepth = 3

// Names is the property-name universe; the first NAlpha are order-sensitive, the rest index-like.
var Names = []string{"a", "b", "c", "x", "0", "1", "10"}

const NAlpha = 4

// Model is the state of one history: the objects, the hidden slots, the invocation log.
type Model struct {
	Objs     []*Object
	ObjProto *Object
	Fns      []*Func
	Slots    [NSlots]Val
	Log      []string
	depth    int

	Events map[string]int // what the history exercised (histogram / non-triviality)
	Preds  map[string]int // situations in which a recorded otto defect applies
}

func New() *Model {
	m := &Model{Events: map[string]int{}, Preds: map[string]int{}}
	m.ObjProto = newObject(-1, nil)
	for i, s := range FamilySpec {
		f := &Func{ID: i, Kind: s.Kind, Name: s.Name, Slot: s.Slot}
		m.Fns = append(m.Fns, f)
		if s.Kind == 'K' {
			f.C = m.ParseVal(s.C)
		}
	}
	return m
}

func (m *Model) event(e string) { m.Events[e]++ }
func (m *Model) pred(p string)  { m.Preds[p]++ }

// Clone copies the mutable state (objects, slots, log); functions and counters are shared/copied.
func (m *Model) Clone() *Model {
	c := &Model{ObjProto: m.ObjProto, Fns: m.Fns, Slots: m.Slots, depth: m.depth,
		Events: map[string]int{}, Preds: map[string]int{}}
	c.Log = append([]string(nil), m.Log...)
	for k, v := range m.Events {
		c.Events[k] = v
	}
	for k, v := range m.Preds {
		c.Preds[k] = v
	}
	mp := map[*Object]*Object{m.ObjProto: m.ObjProto}
	for _, o := range m.Objs {
		n := &Object{ID: o.ID, Extensible: o.Extensible, props: map[string]*Prop{}, order: append([]string(nil), o.order...)}
		for k, p := range o.props {
			cp := *p
			n.props[k] = &cp
		}
		mp[o] = n
		c.Objs = append(c.Objs, n)
	}
	for i, o := range m.Objs {
		if o.Proto != nil {
			c.Objs[i].Proto = mp[o.Proto]
		}
	}
	// values that are modelled objects (tag O<i>) must point into the copy
	fix := func(v *Val) {
		if v.K == Obj && v.O != nil {
			v.O = mp[v.O]
		}
	}
	for _, o := range c.Objs {
		for _, p := range o.props {
			fix(&p.Value)
		}
	}
	for i := range c.Slots {
		fix(&c.Slots[i])
	}
	return c
}

// Call invokes a scripted function (13.2.1 for the bodies the prelude defines).
func (m *Model) Call(f *Func, this *Object, args []Val) (Val, *Throw) {
	if f.Wrapper {
		return m.Call(f.Target, this, args)
	}
	arg := "-"
	if len(args) > 0 {
		arg = args[0].Repr()
	}
	m.Log = append(m.Log, "f"+itoa(f.ID)+"@"+itoa(this.ID)+":"+arg)
	switch f.Kind {
	case 'K':
		if len(args) == 0 {
			return f.C, nil
		}
		return Undefined, nil
	case 'S':
		if len(args) == 0 {
			return m.Slots[f.Slot], nil
		}
		m.Slots[f.Slot] = args[0]
		return Undefined, nil
	case 'X':
		return Undefined, &Throw{Name: "RangeError"}
	case 'T':
		if m.depth >= MaxDepth {
			m.Log = append(m.Log, "deep")
			return Undefined, nil
		}
		m.depth++
		defer func() { m.depth-- }()
		if len(args) == 0 {
			return m.Get(this, f.Name)
		}
		// non-strict function code: this[name] = v is [[Put]] with Throw = false
		return Undefined, m.Put(this, f.Name, args[0], false)
	}
	panic("m07: bad function kind")
}

// ---- 8.10.5 ToPropertyDescriptor over a descriptor object written as a literal --------------------

// Field is one property of a descriptor object literal; V is a value tag.
type Field struct {
	F string `json:"f"`
	V string `json:"v"`
}

// DescSpec describes the third argument of Object.defineProperty: an object literal with the given
// fields (all placed on the literal's prototype when Inherit is set, which 8.10.5 must treat the
// same because it uses [[HasProperty]]/[[Get]]), or a non-object value when NonObject is set.
type DescSpec struct {
	Fields    []Field `json:"fields,omitempty"`
	Inherit   bool    `json:"inherit,omitempty"`
	NonObject string  `json:"nonobject,omitempty"`
}

func (s *DescSpec) field(name string) (string, bool) {
	for _, f := range s.Fields {
		if f.F == name {
			return f.V, true
		}
	}
	return "", false
}

// ToPropertyDescriptor, 8.10.5.
func (m *Model) ToPropertyDescriptor(s *DescSpec) (*Desc, *Throw) {
	if s == nil || s.NonObject != "" { // step 1
		m.event("topd:not-an-object")
		return nil, typeError()
	}
	d := &Desc{}
	if v, ok := s.field("enumerable"); ok {
		d.HasEnumerable, d.Enumerable = true, ToBoolean(m.ParseVal(v))
	}
	if v, ok := s.field("configurable"); ok {
		d.HasConfigurable, d.Configurable = true, ToBoolean(m.ParseVal(v))
	}
	if v, ok := s.field("value"); ok {
		d.HasValue, d.Value = true, m.ParseVal(v)
	}
	if v, ok := s.field("writable"); ok {
		d.HasWritable, d.Writable = true, ToBoolean(m.ParseVal(v))
	}
	if v, ok := s.field("get"); ok {
		g := m.ParseVal(v)
		if !isCallable(g) && g.K != Undef {
			m.event("topd:get-not-callable")
			return nil, typeError()
		}
		d.HasGet, d.Get = true, g.F
	}
	if v, ok := s.field("set"); ok {
		g := m.ParseVal(v)
		if !isCallable(g) && g.K != Undef {
			m.event("topd:set-not-callable")
			return nil, typeError()
		}
		d.HasSet, d.Set = true, g.F
	}
	if (d.HasGet || d.HasSet) && (d.HasValue || d.HasWritable) { // step 9
		m.event("topd:accessor-and-data")
		return nil, typeError()
	}
	return d, nil
}

// FromPropertyDescriptor, 8.10.4, rendered as "<keys in creation order>;value;writable;get;set;enumerable;configurable"
// (absent fields empty); "-" for undefined.
func FromPropertyDescriptor(d *Desc) string {
	if d == nil {
		return "-"
	}
	fn := func(f *Func) string {
		if f == nil {
			return "u"
		}
		return Val{K: Fn, F: f}.Repr()
	}
	b := func(x bool) string { return Val{K: Bool, B: x}.Repr() }
	if d.IsData() {
		return "value,writable,enumerable,configurable;" + d.Value.Repr() + ";" + b(d.Writable) + ";;;" + b(d.Enumerable) + ";" + b(d.Configurable)
	}
	return "get,set,enumerable,configurable;;;" + fn(d.Get) + ";" + fn(d.Set) + ";" + b(d.Enumerable) + ";" + b(d.Configurable)
}

// ---- 15.2.3 ----------------------------------------------------------------------------------------

// NamedDesc is one entry of the Properties argument of defineProperties / create.
type NamedDesc struct {
	Name string   `json:"name"`
	Desc DescSpec `json:"desc"`
}

// DefineProperty, 15.2.3.6.
func (m *Model) DefineProperty(o *Object, name string, s *DescSpec) *Throw {
	desc, t := m.ToPropertyDescriptor(s)
	if t != nil {
		return t
	}
	if o.Own(name) != nil && !(desc.HasValue && desc.HasWritable && desc.HasEnumerable && desc.HasConfigurable) && !(desc.HasGet && desc.HasSet && desc.HasEnumerable && desc.HasConfigurable) {
		m.event("define:partial-on-existing")
	}
	_, t = m.DefineOwnProperty(o, name, desc, true)
	return t
}

// DefineProperties, 15.2.3.7: all descriptors are converted first (steps 5-6), then defined (step 7).
func (m *Model) DefineProperties(o *Object, props []NamedDesc) *Throw {
	type pair struct {
		name string
		desc *Desc
	}
	var list []pair
	for i := range props {
		d, t := m.ToPropertyDescriptor(&props[i].Desc)
		if t != nil {
			if i > 0 {
				m.pred("defineProperties-bad-descriptor-after-good") // otto defines the earlier ones before converting this one
			}
			return t
		}
		list = append(list, pair{props[i].Name, d})
	}
	for _, p := range list {
		if o.Own(p.name) != nil {
			m.event("define:partial-on-existing")
		}
		if _, t := m.DefineOwnProperty(o, p.name, p.desc, true); t != nil {
			return t
		}
	}
	return nil
}

// Seal, 15.2.3.8.
func (m *Model) Seal(o *Object) *Throw {
	for _, n := range o.OwnNames() {
		d := o.GetOwnProperty(n)
		if d.Configurable {
			d.Configurable = false
		}
		if _, t := m.DefineOwnProperty(o, n, d, true); t != nil {
			return t
		}
	}
	o.Extensible = false
	return nil
}

// Freeze, 15.2.3.9.
func (m *Model) Freeze(o *Object) *Throw {
	for _, n := range o.OwnNames() {
		d := o.GetOwnProperty(n)
		if d.IsData() && d.Writable {
			d.Writable = false
		}
		if d.Configurable {
			d.Configurable = false
		}
		if _, t := m.DefineOwnProperty(o, n, d, true); t != nil {
			return t
		}
	}
	o.Extensible = false
	return nil
}

// PreventExtensions, 15.2.3.10.
func (m *Model) PreventExtensions(o *Object) { o.Extensible = false }

// IsSealed, 15.2.3.11.
func (o *Object) IsSealed() bool {
	for _, n := range o.order {
		if o.GetOwnProperty(n).Configurable {
			return false
		}
	}
	return !o.Extensible
}

// IsFrozen, 15.2.3.12.
func (o *Object) IsFrozen() bool {
	for _, n := range o.order {
		d := o.GetOwnProperty(n)
		if d.IsData() && d.Writable {
			return false
		}
		if d.Configurable {
			return false
		}
	}
	return !o.Extensible
}

// Keys, 15.2.3.14 (own enumerable, in the enumeration order = insertion order).
func (o *Object) Keys() []string {
	var out []string
	for _, n := range o.order {
		if o.props[n].Enumerable {
			out = append(out, n)
		}
	}
	return out
}

// HasOwnProperty 15.2.4.5, PropertyIsEnumerable 15.2.4.7.
func (o *Object) HasOwnProperty(name string) bool { return o.GetOwnProperty(name) != nil }
func (o *Object) PropertyIsEnumerable(name string) bool {
	d := o.GetOwnProperty(name)
	return d != nil && d.Enumerable
}

// ForInKeys is the enumeration of 12.6.4 without a mutating body: own enumerable names in insertion
// order, then those of the prototype chain, a name being skipped when an object earlier in the
// chain has an own property of that name (enumerable or not). shadowBlind reproduces the recorded
// otto defect (no shadow test at all) for comparison modulo that defect.
func (o *Object) ForInKeys(shadowBlind bool) []string {
	var out []string
	seen := map[string]bool{}
	for x := o; x != nil; x = x.Proto {
		for _, n := range x.order {
			if x.props[n].Enumerable && (shadowBlind || !seen[n]) {
				out = append(out, n)
			}
		}
		for _, n := range x.order {
			seen[n] = true
		}
	}
	return out
}

// Canon puts a name list into the form in which lists are compared: names that are not index-like
// in their original order, then the index-like ones sorted (their position is not compared).
func Canon(names []string) string {
	var a, idx []string
	for _, n := range names {
		if n == "" {
			continue
		}
		if IsIndexLike(n) {
			idx = append(idx, n)
		} else {
			a = append(a, n)
		}
	}
	sort.Strings(idx)
	return strings.Join(a, ",") + "~" + strings.Join(idx, ",")
}
