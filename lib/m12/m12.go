// Package m12 is the reference model of property C12: the ES5.1 time-value algebra of 15.9.1.2 –
// 15.9.1.14, the 15.9.1.15 date-time string format, and the constructor / Date.UTC / setter
// algorithms of 15.9.3.1, 15.9.4.3 and 15.9.5.27–41 (plus B.2.4/B.2.5), transcribed from the
// specification formulas. Nothing here uses Go's time package.
//
// Finite time values are integers (|t| <= 8.64e15 < 2^53); the day/time decomposition is done in
// exact int64 arithmetic. The composition functions MakeTime/MakeDay/MakeDate/TimeClip work on
// float64 because the specification defines them "according to IEEE 754 rules" and because their
// arguments may be NaN, infinite or fractional.
package m12

import (
	"fmt"
	"math"
)

// 15.9.1.2, 15.9.1.10 constants.
const (
	HoursPerDay      = 24
	MinutesPerHour   = 60
	SecondsPerMinute = 60
	MsPerSecond      = 1000
	MsPerMinute      = 60000
	MsPerHour        = 3600000
	MsPerDay         = 86400000
	MaxTime          = 8.64e15 // 15.9.1.1: ±100,000,000 days around the epoch
)

func floorDiv(a, b int64) int64 {
	q := a / b
	if (a%b != 0) && ((a < 0) != (b < 0)) {
		q--
	}
	return q
}

func floorMod(a, b int64) int64 { return a - floorDiv(a, b)*b }

// Day(t) = floor(t / msPerDay) (15.9.1.2).
func Day(t int64) int64 { return floorDiv(t, MsPerDay) }

// TimeWithinDay(t) = t modulo msPerDay (15.9.1.2).
func TimeWithinDay(t int64) int64 { return floorMod(t, MsPerDay) }

// DaysInYear (15.9.1.3).
func DaysInYear(y int64) int64 {
	switch {
	case floorMod(y, 4) != 0:
		return 365
	case floorMod(y, 100) != 0:
		return 366
	case floorMod(y, 400) != 0:
		return 365
	}
	return 366
}

// DayFromYear(y) = 365×(y−1970) + floor((y−1969)/4) − floor((y−1901)/100) + floor((y−1601)/400) (15.9.1.3).
func DayFromYear(y int64) int64 {
	return 365*(y-1970) + floorDiv(y-1969, 4) - floorDiv(y-1901, 100) + floorDiv(y-1601, 400)
}

// TimeFromYear(y) = msPerDay × DayFromYear(y) (15.9.1.3).
func TimeFromYear(y int64) int64 { return MsPerDay * DayFromYear(y) }

// YearFromTime(t) = the largest integer y (closest to positive infinity) such that TimeFromYear(y) ≤ t (15.9.1.3).
func YearFromTime(t int64) int64 {
	y := 1970 + floorDiv(t, 31556952000) // mean Gregorian year; corrected below by the definition
	for TimeFromYear(y) > t {
		y--
	}
	for TimeFromYear(y+1) <= t {
		y++
	}
	return y
}

// InLeapYear(t) (15.9.1.3): 0 or 1.
func InLeapYear(t int64) int64 {
	if DaysInYear(YearFromTime(t)) == 366 {
		return 1
	}
	return 0
}

// DayWithinYear(t) = Day(t) − DayFromYear(YearFromTime(t)) (15.9.1.4).
func DayWithinYear(t int64) int64 { return Day(t) - DayFromYear(YearFromTime(t)) }

// MonthFromTime (15.9.1.4), the table of the specification verbatim.
func MonthFromTime(t int64) int64 {
	d, l := DayWithinYear(t), InLeapYear(t)
	switch {
	case 0 <= d && d < 31:
		return 0
	case 31 <= d && d < 59+l:
		return 1
	case 59+l <= d && d < 90+l:
		return 2
	case 90+l <= d && d < 120+l:
		return 3
	case 120+l <= d && d < 151+l:
		return 4
	case 151+l <= d && d < 181+l:
		return 5
	case 181+l <= d && d < 212+l:
		return 6
	case 212+l <= d && d < 243+l:
		return 7
	case 243+l <= d && d < 273+l:
		return 8
	case 273+l <= d && d < 304+l:
		return 9
	case 304+l <= d && d < 334+l:
		return 10
	case 334+l <= d && d < 365+l:
		return 11
	}
	panic(fmt.Sprintf("m12: DayWithinYear(%d) = %d out of range", t, d))
}

// DateFromTime (15.9.1.5), the table of the specification verbatim.
func DateFromTime(t int64) int64 {
	d, l := DayWithinYear(t), InLeapYear(t)
	switch MonthFromTime(t) {
	case 0:
		return d + 1
	case 1:
		return d - 30
	case 2:
		return d - 58 - l
	case 3:
		return d - 89 - l
	case 4:
		return d - 119 - l
	case 5:
		return d - 150 - l
	case 6:
		return d - 180 - l
	case 7:
		return d - 211 - l
	case 8:
		return d - 242 - l
	case 9:
		return d - 272 - l
	case 10:
		return d - 303 - l
	default:
		return d - 333 - l
	}
}

// WeekDay(t) = (Day(t) + 4) modulo 7 (15.9.1.6).
func WeekDay(t int64) int64 { return floorMod(Day(t)+4, 7) }

// 15.9.1.10.
func HourFromTime(t int64) int64 { return floorMod(floorDiv(t, MsPerHour), HoursPerDay) }
func MinFromTime(t int64) int64  { return floorMod(floorDiv(t, MsPerMinute), MinutesPerHour) }
func SecFromTime(t int64) int64  { return floorMod(floorDiv(t, MsPerSecond), SecondsPerMinute) }
func MsFromTime(t int64) int64   { return floorMod(t, MsPerSecond) }

// Fields is the broken-down form of a finite time value.
type Fields struct {
	Year, Month, Date, WeekDay, Hours, Minutes, Seconds, Ms int64
}

// Decompose applies the accessors of 15.9.1.3–15.9.1.10 to t.
func Decompose(t int64) Fields {
	return Fields{YearFromTime(t), MonthFromTime(t), DateFromTime(t), WeekDay(t), HourFromTime(t), MinFromTime(t), SecFromTime(t), MsFromTime(t)}
}

// ---------------------------------------------------------------------------------------------
// composition (15.9.1.11 – 15.9.1.14), on Numbers

func finite(xs ...float64) bool {
	for _, x := range xs {
		if math.IsNaN(x) || math.IsInf(x, 0) {
			return false
		}
	}
	return true
}

// ToInteger (9.4).
func ToInteger(x float64) float64 {
	if math.IsNaN(x) {
		return 0
	}
	if x == 0 || math.IsInf(x, 0) {
		return x
	}
	return math.Trunc(x)
}

// MakeTime (15.9.1.11).
func MakeTime(hour, min, sec, ms float64) float64 {
	if !finite(hour, min, sec, ms) {
		return math.NaN()
	}
	h, m, s, milli := ToInteger(hour), ToInteger(min), ToInteger(sec), ToInteger(ms)
	return h*MsPerHour + m*MsPerMinute + s*MsPerSecond + milli
}

// MakeDayLimit bounds |year + floor(month/12)| in MakeDay: beyond it "it is not possible to find
// t" (step 7) and NaN is returned. Any year that far out gives a day number whose time value is
// outside the range of 15.9.1.1 by five orders of magnitude, so for callers that TimeClip the
// result and keep the other components modest the choice of the limit is unobservable.
const MakeDayLimit = 1e10

var cumDays = [2][12]int64{
	{0, 31, 59, 90, 120, 151, 181, 212, 243, 273, 304, 334},
	{0, 31, 60, 91, 121, 152, 182, 213, 244, 274, 305, 335},
}

// MakeDay (15.9.1.12).
func MakeDay(year, month, date float64) float64 {
	if !finite(year, month, date) {
		return math.NaN()
	}
	y, m, dt := ToInteger(year), ToInteger(month), ToInteger(date)
	ym := y + math.Floor(m/12)
	mn := math.Mod(m, 12)
	if mn < 0 {
		mn += 12
	}
	if math.Abs(ym) > MakeDayLimit || math.IsNaN(ym) {
		return math.NaN()
	}
	// "Find a value t such that YearFromTime(t) == ym and MonthFromTime(t) == mn and DateFromTime(t) == 1":
	// the first day of month mn of year ym is day DayFromYear(ym) + (days before month mn in such a year).
	yi := int64(ym)
	leap := 0
	if DaysInYear(yi) == 366 {
		leap = 1
	}
	day := DayFromYear(yi) + cumDays[leap][int(mn)]
	return float64(day) + dt - 1
}

// MakeDate (15.9.1.13).
func MakeDate(day, time float64) float64 {
	if !finite(day, time) {
		return math.NaN()
	}
	return day*MsPerDay + time
}

// TimeClip (15.9.1.14). The result is never −0 (the specification allows either choice).
func TimeClip(time float64) float64 {
	if !finite(time) {
		return math.NaN()
	}
	if math.Abs(time) > MaxTime {
		return math.NaN()
	}
	return ToInteger(time) + 0
}

// ClippedByRange reports that TimeClip(time) is NaN although time is a number: infinite or beyond ±8.64e15.
func ClippedByRange(time float64) bool {
	return !math.IsNaN(time) && (math.IsInf(time, 0) || math.Abs(time) > MaxTime)
}

// ---------------------------------------------------------------------------------------------
// constructor and Date.UTC (15.9.3.1, 15.9.4.3); LocalTZA = 0 so UTC(t) = t

// Parts is a composition before it is evaluated: either a direct value (setTime) or
// MakeDate(Day, time) where time is a plain number (TimeWithinDay(t)) or MakeTime(H, M, S, Ms).
type Parts struct {
	Direct      bool
	Value       float64 // Direct
	Day         float64 // result of MakeDay (or Day(t))
	Time        float64 // when !HasComps
	HasComps    bool
	H, M, S, Ms float64
	// Shift is the local time zone adjustment LocalTZA (ms) when the composition was made in local
	// time: the result is UTC(x) = x − LocalTZA (15.9.1.9 without daylight saving). 0 for UTC operations.
	Shift float64
}

// Unclipped evaluates the composition by 15.9.1.11–13 (IEEE arithmetic); apply TimeClip to the result.
func (p Parts) Unclipped() float64 {
	if p.Direct {
		return p.Value
	}
	time := p.Time
	if p.HasComps {
		time = MakeTime(p.H, p.M, p.S, p.Ms)
	}
	return MakeDate(p.Day, time) - p.Shift
}

// Exact reports that no intermediate of Unclipped can exceed 2^53 in magnitude, i.e. that the IEEE
// arithmetic the specification prescribes coincides with exact integer arithmetic. (A NaN or
// infinite part makes the result NaN whatever the arithmetic: also "exact".)
func (p Parts) Exact() bool {
	if p.Direct {
		return true
	}
	const lim = 9007199254740992.0
	time := math.Abs(p.Time)
	if p.HasComps {
		if !finite(p.H, p.M, p.S, p.Ms) {
			return true
		}
		time = math.Abs(ToInteger(p.H))*MsPerHour + math.Abs(ToInteger(p.M))*MsPerMinute + math.Abs(ToInteger(p.S))*MsPerSecond + math.Abs(ToInteger(p.Ms))
	}
	if !finite(p.Day, time) {
		return true
	}
	return math.Abs(p.Day)*MsPerDay+time+math.Abs(p.Shift) <= lim
}

// FieldsParts is the composition MakeDate(MakeDay(yr, month, date), MakeTime(hours, minutes, seconds, ms))
// of the 2–7 argument constructor (15.9.3.1) and of Date.UTC (15.9.4.3). args are the ToNumber
// values of the supplied arguments (at least 2; arguments beyond the seventh are ignored).
func FieldsParts(args []float64) Parts {
	get := func(i int, def float64) float64 {
		if i < len(args) {
			return args[i]
		}
		return def
	}
	y := get(0, math.NaN())
	m := get(1, math.NaN())
	dt := get(2, 1)
	yr := y
	if !math.IsNaN(y) {
		if yi := ToInteger(y); 0 <= yi && yi <= 99 {
			yr = 1900 + yi
		}
	}
	return Parts{Day: MakeDay(yr, m, dt), HasComps: true, H: get(3, 0), M: get(4, 0), S: get(5, 0), Ms: get(6, 0)}
}

// FromFields is the *unclipped* time value of FieldsParts(args).
func FromFields(args []float64) float64 { return FieldsParts(args).Unclipped() }

// ---------------------------------------------------------------------------------------------
// setters (15.9.5.27 – 15.9.5.41, B.2.5); local and UTC variants coincide for LocalTZA = 0

// SetterNames lists the setter families accepted by Set (set<Name> / setUTC<Name>).
var SetterNames = []string{"Time", "Milliseconds", "Seconds", "Minutes", "Hours", "Date", "Month", "FullYear", "Year"}

// SetterMaxArgs is the number of arguments each setter looks at.
var SetterMaxArgs = map[string]int{"Time": 1, "Milliseconds": 1, "Seconds": 2, "Minutes": 3, "Hours": 4, "Date": 1, "Month": 2, "FullYear": 3, "Year": 1}

// Set returns the *unclipped* new time value of set<name>/setUTC<name>; see SetParts.
func Set(name string, t float64, args []float64) float64 { return SetParts(name, t, args).Unclipped() }

// SetParts is the composition performed by set<name>/setUTC<name> on a date whose time value is t
// (NaN = invalid) with the given ToNumber'ed arguments. "Not specified" = absent.
func SetParts(name string, t float64, args []float64) Parts {
	nan := math.NaN()
	arg := func(i int) (float64, bool) {
		if i < len(args) {
			return args[i], true
		}
		return nan, false
	}
	first, _ := arg(0) // ToNumber(undefined) = NaN when absent
	// accessors on a possibly-NaN time value
	f := func(get func(int64) int64) float64 {
		if math.IsNaN(t) {
			return nan
		}
		return float64(get(int64(t)))
	}
	opt := func(i int, get func(int64) int64) float64 {
		if v, ok := arg(i); ok {
			return v
		}
		return f(get)
	}
	switch name {
	case "Time": // 15.9.5.27
		return Parts{Direct: true, Value: first}
	case "Milliseconds": // 15.9.5.28/29
		return Parts{Day: f(Day), HasComps: true, H: f(HourFromTime), M: f(MinFromTime), S: f(SecFromTime), Ms: first}
	case "Seconds": // 15.9.5.30/31
		return Parts{Day: f(Day), HasComps: true, H: f(HourFromTime), M: f(MinFromTime), S: first, Ms: opt(1, MsFromTime)}
	case "Minutes": // 15.9.5.32/33
		return Parts{Day: f(Day), HasComps: true, H: f(HourFromTime), M: first, S: opt(1, SecFromTime), Ms: opt(2, MsFromTime)}
	case "Hours": // 15.9.5.34/35
		return Parts{Day: f(Day), HasComps: true, H: first, M: opt(1, MinFromTime), S: opt(2, SecFromTime), Ms: opt(3, MsFromTime)}
	case "Date": // 15.9.5.36/37
		return Parts{Day: MakeDay(f(YearFromTime), f(MonthFromTime), first), Time: f(TimeWithinDay)}
	case "Month": // 15.9.5.38/39
		return Parts{Day: MakeDay(f(YearFromTime), first, opt(1, DateFromTime)), Time: f(TimeWithinDay)}
	case "FullYear": // 15.9.5.40/41: "Let t be ... this time value; but if this time value is NaN, let t be +0."
		if math.IsNaN(t) {
			t = 0
		}
		return Parts{Day: MakeDay(first, opt(1, MonthFromTime), opt(2, DateFromTime)), Time: f(TimeWithinDay)}
	case "Year": // B.2.5
		if math.IsNaN(t) {
			t = 0
		}
		if math.IsNaN(first) {
			return Parts{Direct: true, Value: nan}
		}
		yyyy := first
		if yi := ToInteger(first); 0 <= yi && yi <= 99 {
			yyyy = yi + 1900
		}
		return Parts{Day: MakeDay(yyyy, f(MonthFromTime), f(DateFromTime)), Time: f(TimeWithinDay)}
	}
	panic("m12: unknown setter " + name)
}

// ---------------------------------------------------------------------------------------------
// 15.9.1.15 date-time string format

// ISOYear renders a year as YYYY (0…9999) or as the expanded ±YYYYYY form (15.9.1.15.1).
func ISOYear(y int64) string {
	if 0 <= y && y <= 9999 {
		return fmt.Sprintf("%04d", y)
	}
	if y < 0 {
		return fmt.Sprintf("-%06d", -y)
	}
	return fmt.Sprintf("+%06d", y)
}

// ToISOString is 15.9.5.43 for a finite time value: YYYY-MM-DDTHH:mm:ss.sssZ with all fields present.
func ToISOString(t int64) string {
	f := Decompose(t)
	return fmt.Sprintf("%s-%02d-%02dT%02d:%02d:%02d.%03dZ", ISOYear(f.Year), f.Month+1, f.Date, f.Hours, f.Minutes, f.Seconds, f.Ms)
}

// ParseISO recognises exactly the 15.9.1.15 format (date-only forms, date-time forms, optional Z or
// ±HH:mm offset, expanded years) with legal element values and returns the time value.
// ok is false when s is not an instance of the format. An absent offset is read as "Z" (15.9.1.15).
func ParseISO(s string) (tv float64, ok bool) {
	p := 0
	digits := func(n int) (int64, bool) {
		if p+n > len(s) {
			return 0, false
		}
		var v int64
		for i := 0; i < n; i++ {
			c := s[p+i]
			if c < '0' || c > '9' {
				return 0, false
			}
			v = v*10 + int64(c-'0')
		}
		p += n
		return v, true
	}
	lit := func(c byte) bool {
		if p < len(s) && s[p] == c {
			p++
			return true
		}
		return false
	}
	var year int64
	switch {
	case lit('+'):
		if year, ok = digits(6); !ok {
			return 0, false
		}
	case lit('-'):
		if year, ok = digits(6); !ok {
			return 0, false
		}
		if year == 0 {
			return 0, false // −000000 is not a valid year representation
		}
		year = -year
	default:
		if year, ok = digits(4); !ok {
			return 0, false
		}
	}
	month, day := int64(1), int64(1)
	var h, mi, sec, ms, off int64
	if lit('-') {
		if month, ok = digits(2); !ok || month < 1 || month > 12 {
			return 0, false
		}
		if lit('-') {
			if day, ok = digits(2); !ok || day < 1 || day > 31 {
				return 0, false
			}
		}
	}
	if lit('T') {
		if h, ok = digits(2); !ok || h > 24 {
			return 0, false
		}
		if !lit(':') {
			return 0, false
		}
		if mi, ok = digits(2); !ok || mi > 59 {
			return 0, false
		}
		if lit(':') {
			if sec, ok = digits(2); !ok || sec > 59 {
				return 0, false
			}
			if lit('.') {
				if ms, ok = digits(3); !ok {
					return 0, false
				}
			}
		}
		if h == 24 && (mi != 0 || sec != 0 || ms != 0) {
			return 0, false
		}
		switch {
		case lit('Z'):
		case p < len(s) && (s[p] == '+' || s[p] == '-'):
			sign := int64(1)
			if s[p] == '-' {
				sign = -1
			}
			p++
			oh, ok1 := digits(2)
			if !ok1 || oh > 23 || !lit(':') {
				return 0, false
			}
			om, ok2 := digits(2)
			if !ok2 || om > 59 {
				return 0, false
			}
			off = sign * (oh*60 + om) * MsPerMinute
		}
	}
	if p != len(s) {
		return 0, false
	}
	// day must exist in that month
	leap := 0
	if DaysInYear(year) == 366 {
		leap = 1
	}
	dim := [2][12]int64{{31, 28, 31, 30, 31, 30, 31, 31, 30, 31, 30, 31}, {31, 29, 31, 30, 31, 30, 31, 31, 30, 31, 30, 31}}
	if day > dim[leap][month-1] {
		return 0, false
	}
	v := MakeDate(MakeDay(float64(year), float64(month-1), float64(day)), MakeTime(float64(h), float64(mi), float64(sec), float64(ms)))
	return TimeClip(v - float64(off)), true
}
