package m12

import (
	"math"
	"math/rand"
	"testing"
	"time"
)

// Self-test of the model (development aid, not part of the registered check): the decomposition
// is the inverse of the composition, the ISO text round-trips, and — as an outside cross-check
// only — the fields agree with Go's proleptic Gregorian calendar.
func TestModelSelfConsistent(t *testing.T) {
	r := rand.New(rand.NewSource(1))
	var tvs []int64
	for i := 0; i < 200000; i++ {
		tvs = append(tvs, r.Int63n(2*8640000000000000+1)-8640000000000000)
	}
	for _, y := range []int64{-271821, -1, 0, 1, 4, 100, 400, 1582, 1600, 1900, 1969, 1970, 1972, 2000, 2038, 2100, 9999, 10000, 275760} {
		for m := 0.0; m < 13; m++ {
			v := MakeDate(MakeDay(float64(y), m, 1), 0)
			for d := int64(-1); d <= 1; d++ {
				if x := v + float64(d); math.Abs(x) <= MaxTime {
					tvs = append(tvs, int64(x))
				}
			}
		}
	}
	tvs = append(tvs, 8640000000000000, -8640000000000000, 0, -1, 1)
	for _, tv := range tvs {
		f := Decompose(tv)
		back := MakeDate(MakeDay(float64(f.Year), float64(f.Month), float64(f.Date)), MakeTime(float64(f.Hours), float64(f.Minutes), float64(f.Seconds), float64(f.Ms)))
		if back != float64(tv) {
			t.Fatalf("compose(decompose(%d)) = %v (%+v)", tv, back, f)
		}
		g := time.UnixMilli(tv).UTC()
		if int64(g.Year()) != f.Year || int64(g.Month())-1 != f.Month || int64(g.Day()) != f.Date || int64(g.Weekday()) != f.WeekDay ||
			int64(g.Hour()) != f.Hours || int64(g.Minute()) != f.Minutes || int64(g.Second()) != f.Seconds || int64(g.Nanosecond()/1e6) != f.Ms {
			t.Fatalf("fields of %d: model %+v, Go %v", tv, f, g)
		}
		s := ToISOString(tv)
		p, ok := ParseISO(s)
		if !ok || p != float64(tv) {
			t.Fatalf("ParseISO(%q) = %v,%v want %d", s, p, ok, tv)
		}
	}
}

func TestModelExamples(t *testing.T) {
	eq := func(got, want float64, what string) {
		t.Helper()
		if !(got == want || (math.IsNaN(got) && math.IsNaN(want))) {
			t.Errorf("%s = %v, want %v", what, got, want)
		}
	}
	nan := math.NaN()
	eq(TimeClip(FromFields([]float64{2000, 0})), 946684800000, "UTC(2000,0)")
	eq(TimeClip(FromFields([]float64{99.5, 0})), 915148800000, "UTC(99.5,0)")
	eq(TimeClip(FromFields([]float64{-0.5, 0})), -2208988800000, "UTC(-0.5,0)")
	eq(TimeClip(FromFields([]float64{100, 0})), -59011459200000, "UTC(100,0)")
	eq(TimeClip(FromFields([]float64{2000, 12, 0, 24, 60, 60, 1000})), 978310861000, "UTC overflow")
	eq(TimeClip(FromFields([]float64{2000, -1, -1, -1, -1, -1, -1})), 943829938999, "UTC negative")
	eq(TimeClip(FromFields([]float64{275760, 8, 13})), 8.64e15, "max")
	eq(TimeClip(FromFields([]float64{275760, 8, 13, 0, 0, 0, 1})), nan, "max+1")
	eq(TimeClip(FromFields([]float64{2000, nan})), nan, "NaN month")
	eq(TimeClip(Set("FullYear", nan, []float64{2000})), 946684800000, "setUTCFullYear on NaN")
	eq(TimeClip(Set("Month", nan, []float64{1})), nan, "setUTCMonth on NaN")
	eq(TimeClip(Set("Month", 0, []float64{1, 31})), 5270400000, "setUTCMonth(1,31)")
	eq(TimeClip(Set("Hours", 0, nil)), nan, "setUTCHours()")
	eq(TimeClip(Set("Year", nan, []float64{5})), -2051222400000, "setYear(5) on NaN")
	if s := ToISOString(-62198755200000); s != "-000001-01-01T00:00:00.000Z" {
		t.Errorf("iso year -1: %s", s)
	}
	if s := ToISOString(253402300800000); s != "+010000-01-01T00:00:00.000Z" {
		t.Errorf("iso year 10000: %s", s)
	}
	if v, ok := ParseISO("2000-02-29T24:00:00Z"); !ok || v != 951868800000 {
		t.Errorf("24:00 %v %v", v, ok)
	}
	if v, ok := ParseISO("2000-01-01T00:00+01:30"); !ok || v != 946684800000-5400000 {
		t.Errorf("offset %v %v", v, ok)
	}
	for _, bad := range []string{"2001-02-29", "2000-13", "2000-01-01T25:00Z", "2000-01-01T24:00:01Z", "-000000-01-01T00:00:00.000Z", "200", "2000-1-1", "2000-01-01T00Z", "2000-01-01T00:00:00.00Z"} {
		if _, ok := ParseISO(bad); ok {
			t.Errorf("ParseISO accepted %q", bad)
		}
	}
}
