package m08

import (
	"math"
	"strconv"
)

// The algorithms of ES5.1 15.4, one function per clause, steps in the order of the text.
// `this` is the this value, `args` the actual argument list.

// idx is ToString(k) for an integral k below 2^53 (ToString(-0) is "0").
func idx(k float64) string {
	if k == 0 {
		return "0"
	}
	return strconv.FormatFloat(k, 'f', -1, 64)
}

func arg(args []Value, i int) Value {
	if i < len(args) {
		return args[i]
	}
	return Undefined
}

// TooLong is the panic value of tick: the call walks over more indices than the checks are willing
// to push through otto (array-likes with a huge length are legitimately slow, DESIGN appendix B).
type TooLong struct{}

// tick counts one iteration of a 15.4.4 loop.
func (m *Machine) tick() {
	m.Steps++
	if m.StepLimit > 0 && m.Steps > m.StepLimit {
		panic(TooLong{})
	}
}

// lenOf is "Let lenVal be the result of calling [[Get]] of O with "length"; let len be ToUint32(lenVal)".
// Every algorithm that walks (or, in a straightforward implementation, allocates) proportionally
// to len goes through lenOf and is cut off above LenLimit; push and pop are O(1) and use lenAny.
func (m *Machine) lenOf(o *Object) float64 {
	l := m.lenAny(o)
	if m.LenLimit > 0 && l > m.LenLimit {
		panic(TooLong{})
	}
	return l
}

func (m *Machine) lenAny(o *Object) float64 { return float64(m.ToUint32(o.Get("length"))) }

// 15.4.1 / 15.4.2 Array(...) and new Array(...)
func (m *Machine) ArrayConstruct(args []Value) Value {
	if len(args) == 1 { // 15.4.2.2
		l := args[0]
		if l.K == Num {
			if float64(es5ToUint32(l.N)) != l.N {
				m.ThrowRange()
			}
			return ObjV(m.NewArray(es5ToUint32(l.N)))
		}
		a := m.NewArray(1)
		a.set("0", &Prop{V: l, W: true, E: true, C: true})
		return ObjV(a)
	}
	a := m.NewArray(uint32(len(args))) // 15.4.2.1
	for i, v := range args {
		m.tick()
		a.set(strconv.Itoa(i), &Prop{V: v, W: true, E: true, C: true})
	}
	return ObjV(a)
}

// 15.4.3.2 Array.isArray
func (m *Machine) IsArray(args []Value) Value {
	v := arg(args, 0)
	return BoolV(v.K == Obj && v.O.Class == "Array")
}

// 15.4.4.2 Array.prototype.toString
func (m *Machine) ArrayToString(this Value, args []Value) Value {
	array := m.ToObject(this)
	fn := array.Get("join")
	if !IsCallable(fn) {
		return m.objectProtoToString(ObjV(array))
	}
	if m.ToStringPassArgs {
		return fn.O.Call(m, ObjV(array), args)
	}
	return fn.O.Call(m, ObjV(array), nil)
}

// 15.4.4.4 Array.prototype.concat
func (m *Machine) Concat(this Value, args []Value) Value {
	o := m.ToObject(this)
	a := m.NewArray(0)
	n := 0.0
	items := append([]Value{ObjV(o)}, args...)
	for _, e := range items {
		m.tick()
		if e.K == Obj && e.O.Class == "Array" {
			k := 0.0
			length := e.O.Get("length").N
			for k < length {
				m.tick()
				p := idx(k)
				if e.O.HasProperty(p) {
					sub := e.O.Get(p)
					m.DefineOwnProperty(a, idx(n), DataWEC(sub), false)
				} else if m.HolesToUndefined {
					m.DefineOwnProperty(a, idx(n), DataWEC(Undefined), false)
				}
				n++
				k++
			}
		} else {
			m.DefineOwnProperty(a, idx(n), DataWEC(e), false)
			n++
		}
	}
	m.finishLength(a, n)
	return ObjV(a)
}

// finishLength: ES5.1 ends concat/slice/splice without setting the length of the result, so
// trailing holes do not count; every implementation (and ES2015) sets it to n. The model follows
// practice unless LiteralLength is on; the check accepts either.
func (m *Machine) finishLength(a *Object, n float64) {
	if m.LiteralLength {
		return
	}
	a.GetOwnProperty("length").V = NumV(n)
}

// 15.4.4.5 Array.prototype.join
func (m *Machine) Join(this Value, args []Value) Value {
	o := m.ToObject(this)
	sep := ","
	if m.JoinSeparatorFirst {
		if s := arg(args, 0); !s.IsUndef() {
			sep = m.ToString(s)
		}
	}
	length := m.lenOf(o)
	if s := arg(args, 0); !s.IsUndef() && !m.JoinSeparatorFirst {
		sep = m.ToString(s)
	}
	if length == 0 {
		return StrV("")
	}
	el := func(v Value) string {
		if v.K == Undef || v.K == Null {
			return ""
		}
		return m.ToString(v)
	}
	r := el(o.Get("0"))
	for k := 1.0; k < length; k++ {
		m.tick()
		s := r + sep
		r = s + el(o.Get(idx(k)))
	}
	return StrV(r)
}

// 15.4.4.6 Array.prototype.pop
func (m *Machine) Pop(this Value, _ []Value) Value {
	o := m.ToObject(this)
	length := m.lenAny(o)
	if length == 0 {
		m.Put(o, "length", NumV(0), true)
		return Undefined
	}
	indx := idx(length - 1)
	element := o.Get(indx)
	m.Delete(o, indx, true)
	// ES5.1 passes the string indx here; ES2015 and every implementation pass the number (see ASSUMPTIONS).
	m.Put(o, "length", NumV(length-1), true)
	return element
}

// 15.4.4.7 Array.prototype.push
func (m *Machine) Push(this Value, args []Value) Value {
	o := m.ToObject(this)
	n := m.lenAny(o)
	for _, e := range args {
		m.tick()
		m.Put(o, idx(n), e, true)
		n++
	}
	m.Put(o, "length", NumV(n), true)
	return NumV(n)
}

// 15.4.4.8 Array.prototype.reverse
func (m *Machine) Reverse(this Value, _ []Value) Value {
	o := m.ToObject(this)
	length := m.lenOf(o)
	middle := math.Floor(length / 2)
	for lower := 0.0; lower != middle; lower++ {
		m.tick()
		upper := length - lower - 1
		upperP, lowerP := idx(upper), idx(lower)
		lowerValue := o.Get(lowerP)
		upperValue := o.Get(upperP)
		lowerExists := o.HasProperty(lowerP)
		upperExists := o.HasProperty(upperP)
		switch {
		case lowerExists && upperExists:
			m.Put(o, lowerP, upperValue, true)
			m.Put(o, upperP, lowerValue, true)
		case !lowerExists && upperExists:
			if m.ReverseDeleteFirst {
				m.Delete(o, upperP, true)
				m.Put(o, lowerP, upperValue, true)
				break
			}
			m.Put(o, lowerP, upperValue, true)
			m.Delete(o, upperP, true)
		case lowerExists && !upperExists:
			m.Delete(o, lowerP, true)
			m.Put(o, upperP, lowerValue, true)
		}
	}
	if m.ReverseReturnsThis {
		return this
	}
	return ObjV(o)
}

// 15.4.4.9 Array.prototype.shift
func (m *Machine) Shift(this Value, _ []Value) Value {
	o := m.ToObject(this)
	length := m.lenOf(o)
	if length == 0 {
		m.Put(o, "length", NumV(0), true)
		return Undefined
	}
	first := o.Get("0")
	for k := 1.0; k < length; k++ {
		m.tick()
		from, to := idx(k), idx(k-1)
		if o.HasProperty(from) {
			m.Put(o, to, o.Get(from), true)
		} else {
			m.Delete(o, to, true)
		}
	}
	m.Delete(o, idx(length-1), true)
	m.Put(o, "length", NumV(length-1), true)
	return first
}

func relative(rel, length float64) float64 {
	if rel < 0 {
		return math.Max(length+rel, 0)
	}
	return math.Min(rel, length)
}

// 15.4.4.10 Array.prototype.slice
func (m *Machine) Slice(this Value, args []Value) Value {
	o := m.ToObject(this)
	a := m.NewArray(0)
	length := m.lenOf(o)
	k := relative(m.ToInteger(arg(args, 0)), length)
	relEnd := length
	if e := arg(args, 1); !e.IsUndef() {
		relEnd = m.ToInteger(e)
	}
	final := relative(relEnd, length)
	n := 0.0
	for k < final {
		m.tick()
		pk := idx(k)
		if o.HasProperty(pk) {
			m.DefineOwnProperty(a, idx(n), DataWEC(o.Get(pk)), false)
		} else if m.HolesToUndefined {
			m.DefineOwnProperty(a, idx(n), DataWEC(Undefined), false)
		}
		k++
		n++
	}
	m.finishLength(a, n)
	return ObjV(a)
}

// 15.4.4.12 Array.prototype.splice (start, deleteCount [, item1 …]); deleteCount must be given.
func (m *Machine) Splice(this Value, args []Value) Value {
	o := m.ToObject(this)
	a := m.NewArray(0)
	length := m.lenOf(o)
	actualStart := relative(m.ToInteger(arg(args, 0)), length)
	actualDeleteCount := math.Min(math.Max(m.ToInteger(arg(args, 1)), 0), length-actualStart)
	k := 0.0
	for k < actualDeleteCount {
		m.tick()
		from := idx(actualStart + k)
		if o.HasProperty(from) {
			m.DefineOwnProperty(a, idx(k), DataWEC(o.Get(from)), false)
		} else if m.HolesToUndefined {
			m.DefineOwnProperty(a, idx(k), DataWEC(Undefined), false)
		}
		k++
	}
	m.finishLength(a, k)
	var items []Value
	if len(args) > 2 {
		items = args[2:]
	}
	itemCount := float64(len(items))
	if itemCount < actualDeleteCount {
		k = actualStart
		for k < length-actualDeleteCount {
			m.tick()
			from, to := idx(k+actualDeleteCount), idx(k+itemCount)
			if o.HasProperty(from) {
				m.Put(o, to, o.Get(from), true)
			} else {
				m.Delete(o, to, true)
			}
			k++
		}
		k = length
		for k > length-actualDeleteCount+itemCount {
			m.tick()
			m.Delete(o, idx(k-1), true)
			k--
		}
	} else if itemCount > actualDeleteCount {
		k = length - actualDeleteCount
		for k > actualStart {
			m.tick()
			from, to := idx(k+actualDeleteCount-1), idx(k+itemCount-1)
			if o.HasProperty(from) {
				m.Put(o, to, o.Get(from), true)
			} else {
				m.Delete(o, to, true)
			}
			k--
		}
	}
	k = actualStart
	for _, e := range items {
		m.tick()
		m.Put(o, idx(k), e, true)
		k++
	}
	m.Put(o, "length", NumV(length-actualDeleteCount+itemCount), true)
	return ObjV(a)
}

// 15.4.4.13 Array.prototype.unshift
func (m *Machine) Unshift(this Value, args []Value) Value {
	o := m.ToObject(this)
	length := m.lenOf(o)
	argCount := float64(len(args))
	for k := length; k > 0; k-- {
		m.tick()
		from, to := idx(k-1), idx(k+argCount-1)
		if o.HasProperty(from) {
			m.Put(o, to, o.Get(from), true)
		} else {
			m.Delete(o, to, true)
		}
	}
	for j, e := range args {
		m.tick()
		m.Put(o, idx(float64(j)), e, true)
	}
	m.Put(o, "length", NumV(length+argCount), true)
	return NumV(length + argCount)
}

// 15.4.4.14 Array.prototype.indexOf
func (m *Machine) IndexOf(this Value, args []Value) Value {
	o := m.ToObject(this)
	length := m.lenOf(o)
	if length == 0 {
		return NumV(-1)
	}
	n := 0.0
	if len(args) > 1 {
		n = m.ToInteger(args[1])
	}
	if n >= length {
		return NumV(-1)
	}
	k := n
	if n < 0 {
		k = length - math.Abs(n)
		if k < 0 {
			k = 0
		}
	}
	for ; k < length; k++ {
		m.tick()
		pk := idx(k)
		if o.HasProperty(pk) && StrictEquals(arg(args, 0), o.Get(pk)) {
			return NumV(k + 0) // k is a mathematical value (ES5.1 5.2): there is no negative zero to return
		}
	}
	return NumV(-1)
}

// 15.4.4.15 Array.prototype.lastIndexOf
func (m *Machine) LastIndexOf(this Value, args []Value) Value {
	o := m.ToObject(this)
	length := m.lenOf(o)
	if length == 0 {
		// distortions only: without the early return of step 4 the conversion of fromIndex happens,
		// and (second defect) a fromIndex of exactly len = 0 makes the search look at index 0
		if m.LastIndexOfEmptyCoerces && len(args) > 1 {
			if n := m.ToInteger(args[1]); n == 0 && m.LastIndexOfFromLen {
				if o.HasProperty("0") && StrictEquals(arg(args, 0), o.Get("0")) {
					return NumV(0)
				}
			}
		}
		return NumV(-1)
	}
	n := length - 1
	if len(args) > 1 {
		n = m.ToInteger(args[1])
	}
	var k float64
	if n >= 0 {
		k = math.Min(n, length-1)
		if m.LastIndexOfFromLen && n == length {
			k = length
		}
	} else {
		k = length - math.Abs(n)
	}
	for ; k >= 0; k-- {
		m.tick()
		pk := idx(k)
		if o.HasProperty(pk) && StrictEquals(arg(args, 0), o.Get(pk)) {
			return NumV(k + 0) // k is a mathematical value (ES5.1 5.2): there is no negative zero to return
		}
	}
	return NumV(-1)
}

// prologue is the common head of 15.4.4.16–20: ToObject, length, IsCallable(callbackfn), thisArg.
func (m *Machine) prologue(this Value, args []Value) (o *Object, length float64, cb *Object, t Value) {
	o = m.ToObject(this)
	c := arg(args, 0)
	if m.CallableCheckFirst && !IsCallable(c) {
		m.ThrowType()
	}
	length = m.lenOf(o)
	if !IsCallable(c) {
		m.ThrowType()
	}
	return o, length, c.O, arg(args, 1)
}

// 15.4.4.16 Array.prototype.every
func (m *Machine) Every(this Value, args []Value) Value {
	o, length, cb, t := m.prologue(this, args)
	for k := 0.0; k < length; k++ {
		m.tick()
		pk := idx(k)
		if o.HasProperty(pk) {
			kValue := o.Get(pk)
			if !ToBoolean(cb.Call(m, t, []Value{kValue, NumV(k), ObjV(o)})) {
				return BoolV(false)
			}
		}
	}
	return BoolV(true)
}

// 15.4.4.17 Array.prototype.some
func (m *Machine) Some(this Value, args []Value) Value {
	o, length, cb, t := m.prologue(this, args)
	for k := 0.0; k < length; k++ {
		m.tick()
		pk := idx(k)
		if o.HasProperty(pk) {
			kValue := o.Get(pk)
			if ToBoolean(cb.Call(m, t, []Value{kValue, NumV(k), ObjV(o)})) {
				return BoolV(true)
			}
		}
	}
	return BoolV(false)
}

// 15.4.4.18 Array.prototype.forEach
func (m *Machine) ForEach(this Value, args []Value) Value {
	o, length, cb, t := m.prologue(this, args)
	for k := 0.0; k < length; k++ {
		m.tick()
		pk := idx(k)
		if o.HasProperty(pk) {
			kValue := o.Get(pk)
			cb.Call(m, t, []Value{kValue, NumV(k), ObjV(o)})
		}
	}
	return Undefined
}

// 15.4.4.19 Array.prototype.map
func (m *Machine) Map(this Value, args []Value) Value {
	o, length, cb, t := m.prologue(this, args)
	a := m.NewArray(uint32(length))
	for k := 0.0; k < length; k++ {
		m.tick()
		pk := idx(k)
		if o.HasProperty(pk) {
			kValue := o.Get(pk)
			mapped := cb.Call(m, t, []Value{kValue, NumV(k), ObjV(o)})
			m.DefineOwnProperty(a, pk, DataWEC(mapped), false)
		} else if m.HolesToUndefined {
			m.DefineOwnProperty(a, pk, DataWEC(Undefined), false)
		}
	}
	return ObjV(a)
}

// 15.4.4.20 Array.prototype.filter
func (m *Machine) Filter(this Value, args []Value) Value {
	o, length, cb, t := m.prologue(this, args)
	a := m.NewArray(0)
	to := 0.0
	for k := 0.0; k < length; k++ {
		m.tick()
		pk := idx(k)
		if o.HasProperty(pk) {
			kValue := o.Get(pk)
			if ToBoolean(cb.Call(m, t, []Value{kValue, NumV(k), ObjV(o)})) {
				m.DefineOwnProperty(a, idx(to), DataWEC(kValue), false)
				to++
			}
		}
	}
	return ObjV(a)
}

// 15.4.4.21 Array.prototype.reduce
func (m *Machine) Reduce(this Value, args []Value) Value {
	o := m.ToObject(this)
	c := arg(args, 0)
	if m.CallableCheckFirst && !IsCallable(c) {
		m.ThrowType()
	}
	length := m.lenOf(o)
	if !IsCallable(c) {
		m.ThrowType()
	}
	if length == 0 && len(args) < 2 {
		m.ThrowType()
	}
	k := 0.0
	var acc Value
	if len(args) >= 2 {
		acc = args[1]
	} else {
		kPresent := false
		for !kPresent && k < length {
			m.tick()
			pk := idx(k)
			kPresent = o.HasProperty(pk)
			if kPresent {
				acc = o.Get(pk)
			}
			k++
		}
		if !kPresent {
			if m.ReduceNoTypeError {
				return Undefined
			}
			m.ThrowType()
		}
	}
	for ; k < length; k++ {
		m.tick()
		pk := idx(k)
		if o.HasProperty(pk) {
			kValue := o.Get(pk)
			acc = c.O.Call(m, Undefined, []Value{acc, kValue, NumV(k), ObjV(o)})
		}
	}
	return acc
}

// 15.4.4.22 Array.prototype.reduceRight
func (m *Machine) ReduceRight(this Value, args []Value) Value {
	o := m.ToObject(this)
	c := arg(args, 0)
	if m.CallableCheckFirst && !IsCallable(c) {
		m.ThrowType()
	}
	length := m.lenOf(o)
	if !IsCallable(c) {
		m.ThrowType()
	}
	if length == 0 && len(args) < 2 {
		m.ThrowType()
	}
	k := length - 1
	var acc Value
	if len(args) >= 2 {
		acc = args[1]
	} else {
		kPresent := false
		for !kPresent && k >= 0 {
			m.tick()
			pk := idx(k)
			kPresent = o.HasProperty(pk)
			if kPresent {
				acc = o.Get(pk)
			}
			k--
		}
		if !kPresent {
			if m.ReduceNoTypeError {
				return Undefined
			}
			m.ThrowType()
		}
	}
	for ; k >= 0; k-- {
		m.tick()
		pk := idx(k)
		if o.HasProperty(pk) {
			kValue := o.Get(pk)
			kv := NumV(k)
			if m.ReduceRightStrKey {
				kv = StrV(pk)
			}
			acc = c.O.Call(m, Undefined, []Value{acc, kValue, kv, ObjV(o)})
		}
	}
	return acc
}

// Methods maps a method name to its model.
var Methods = map[string]func(m *Machine, this Value, args []Value) Value{
	"toString":    (*Machine).ArrayToString,
	"concat":      (*Machine).Concat,
	"join":        (*Machine).Join,
	"pop":         (*Machine).Pop,
	"push":        (*Machine).Push,
	"reverse":     (*Machine).Reverse,
	"shift":       (*Machine).Shift,
	"slice":       (*Machine).Slice,
	"splice":      (*Machine).Splice,
	"unshift":     (*Machine).Unshift,
	"indexOf":     (*Machine).IndexOf,
	"lastIndexOf": (*Machine).LastIndexOf,
	"every":       (*Machine).Every,
	"some":        (*Machine).Some,
	"forEach":     (*Machine).ForEach,
	"map":         (*Machine).Map,
	"filter":      (*Machine).Filter,
	"reduce":      (*Machine).Reduce,
	"reduceRight": (*Machine).ReduceRight,
}

func es5ToUint32(x float64) uint32 {
	if math.IsNaN(x) || math.IsInf(x, 0) {
		return 0
	}
	t := math.Trunc(x)
	r := math.Mod(t, 4294967296)
	if r < 0 {
		r += 4294967296
	}
	return uint32(r)
}
